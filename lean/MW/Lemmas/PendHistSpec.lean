/-
  C09, HISTORY-LEVEL REFINEMENT (specification side).

  `mem_settle`   THE CHARACTERISATION of `Spec.Pending.settle`: a candidate survives iff it is not `Lost`
                 (dropped by the first filter, or descendant — through parents that are not on the chain — of a
                 dropped candidate).
  Corollaries: the survivors have distinct ids and are consistent with the new chain; the two single-block chain
  moves (connect / disconnect) as plain `settle` calls; user-level corollaries on `spentByPending`.
-/
import MW.Lemmas.PendHistDefs
namespace MW.Lemmas.PendHist
open MW MW.Model.Ledger MW.Spec.Pending

-- ------------------------------------------------------------------ 1. settle keeps a sublist

theorem keepRound_sublist (c : List Block) (cands a : List Tx) : (keepRound c cands a).Sublist a := by
  unfold keepRound; exact List.filter_sublist

theorem iter_sublist (c : List Block) (cands : List Tx) (n : Nat) (a : List Tx) :
    (iter (keepRound c cands) n a).Sublist a := by
  induction n generalizing a with
  | zero => exact List.Sublist.refl _
  | succ n ih => exact (ih _).trans (keepRound_sublist c cands a)

theorem settle_eq (c disc : List Block) (cands : List Tx) :
    settle c disc cands = iter (keepRound c cands) cands.length (cands.filter (alive0 c disc)) := rfl

theorem settle_sublist (c disc : List Block) (cands : List Tx) : (settle c disc cands).Sublist cands := by
  rw [settle_eq]; exact (iter_sublist c cands _ _).trans List.filter_sublist

-- ------------------------------------------------------------------ 2. the characterisation

theorem iter_of_fix {α : Type} (f : α → α) (a : α) (h : f a = a) : ∀ n, iter f n a = a
  | 0 => rfl
  | n + 1 => by show iter f n (f a) = a; rw [h]; exact iter_of_fix f a h n

/-- `cands.length` rounds reach the fixed point -/
theorem iter_fix (c : List Block) (cands : List Tx) : ∀ (n : Nat) (a : List Tx), a.length ≤ n →
    keepRound c cands (iter (keepRound c cands) n a) = iter (keepRound c cands) n a := by
  intro n
  induction n with
  | zero =>
    intro a ha
    have : a = [] := List.eq_nil_of_length_eq_zero (Nat.le_zero.1 ha)
    subst this; rfl
  | succ n ih =>
    intro a ha
    show keepRound c cands (iter (keepRound c cands) n (keepRound c cands a)) =
      iter (keepRound c cands) n (keepRound c cands a)
    by_cases hl : (keepRound c cands a).length = a.length
    · have hfa : keepRound c cands a = a := (keepRound_sublist c cands a).eq_of_length hl
      rw [hfa, iter_of_fix _ a hfa n, hfa]
    · have hle : (keepRound c cands a).length ≤ a.length := (keepRound_sublist c cands a).length_le
      exact ih _ (by omega)

theorem mem_keepRound (c : List Block) (cands A : List Tx) (t : Tx) :
    t ∈ keepRound c cands A ↔
      t ∈ A ∧ ∀ i ∈ t.ins, hasId cands i.tx = false ∨ hasId A i.tx = true ∨ onChain c i.tx = true := by
  unfold keepRound
  simp only [List.mem_filter, List.all_eq_true, Bool.or_eq_true, Bool.not_eq_true', or_assoc]

theorem not_mem_of_lost {c disc : List Block} {cands : List Tx} (hnd : (cands.map (·.id)).Nodup)
    {F : List Tx} (hF : keepRound c cands F = F) (hsub : ∀ t ∈ F, t ∈ cands ∧ alive0 c disc t = true)
    {t : Tx} (h : Lost c disc cands t) : t ∉ F := by
  induction h with
  | base hc ha =>
    intro hf
    have := (hsub _ hf).2
    rw [ha] at this; cases this
  | @step t p i hc hi hp hid hoc hl ih =>
    intro hf
    have hf' : t ∈ keepRound c cands F := by rw [hF]; exact hf
    obtain ⟨_, hk⟩ := (mem_keepRound c cands F t).1 hf'
    rcases hk i hi with h | h | h
    · exact absurd hid ((hasId_false_iff _ _).1 h _ hp)
    · obtain ⟨q, hq, hqid⟩ := (hasId_iff _ _).1 h
      have hqp : q = p := eq_of_id hnd (hsub q hq).1 hp (hqid.trans hid.symm)
      subst hqp; exact ih hq
    · rw [hoc] at h; cases h

theorem notLost_mem_iter {c disc : List Block} {cands : List Tx} : ∀ (n : Nat) (A : List Tx),
    (∀ t, t ∈ cands → ¬ Lost c disc cands t → t ∈ A) →
    ∀ t, t ∈ cands → ¬ Lost c disc cands t → t ∈ iter (keepRound c cands) n A := by
  intro n
  induction n with
  | zero => intro A hA t ht hl; exact hA t ht hl
  | succ n ih =>
    intro A hA t ht hl
    refine ih (keepRound c cands A) ?_ t ht hl
    intro t ht hl
    refine (mem_keepRound c cands A t).2 ⟨hA t ht hl, ?_⟩
    intro i hi
    cases hh : hasId cands i.tx with
    | false => exact Or.inl rfl
    | true =>
      obtain ⟨p, hp, hid⟩ := (hasId_iff _ _).1 hh
      cases ho : onChain c i.tx with
      | true => exact Or.inr (Or.inr rfl)
      | false =>
        have hpl : ¬ Lost c disc cands p := fun hpl => hl (Lost.step i ht hi hp hid ho hpl)
        exact Or.inr (Or.inl ((hasId_iff _ _).2 ⟨p, hA p hp hpl, hid⟩))

/-- THE CHARACTERISATION: the survivors of `settle` are the candidates that are not `Lost` -/
theorem mem_settle (c disc : List Block) (cands : List Tx) (hnd : (cands.map (·.id)).Nodup) (t : Tx) :
    t ∈ settle c disc cands ↔ t ∈ cands ∧ ¬ Lost c disc cands t := by
  rw [settle_eq]
  have hfix := iter_fix c cands cands.length (cands.filter (alive0 c disc)) (List.length_filter_le _ _)
  constructor
  · intro h
    have hsub : ∀ t ∈ iter (keepRound c cands) cands.length (cands.filter (alive0 c disc)),
        t ∈ cands ∧ alive0 c disc t = true := by
      intro t ht
      exact List.mem_filter.1 ((iter_sublist c cands _ _).subset ht)
    exact ⟨(hsub t h).1, fun hl => not_mem_of_lost hnd hfix hsub hl h⟩
  · rintro ⟨hc, hl⟩
    refine notLost_mem_iter _ _ ?_ t hc hl
    intro t ht hl
    rw [List.mem_filter]
    refine ⟨ht, ?_⟩
    cases ha : alive0 c disc t with
    | false => exact absurd (Lost.base ht ha) hl
    | true => rfl

-- ------------------------------------------------------------------ 3. corollaries

theorem settle_nodup (c disc : List Block) (cands : List Tx) (hnd : (cands.map (·.id)).Nodup) :
    ((settle c disc cands).map (·.id)).Nodup :=
  List.Nodup.sublist ((settle_sublist c disc cands).map _) hnd

theorem alive0_of_mem_settle {c disc : List Block} {cands : List Tx} {t : Tx} (h : t ∈ settle c disc cands) :
    alive0 c disc t = true := by
  rw [settle_eq] at h
  exact (List.mem_filter.1 ((iter_sublist c cands _ _).subset h)).2

set_option linter.unusedVariables false in
theorem settle_consistent (c disc : List Block) (cands : List Tx) (hnd : (cands.map (·.id)).Nodup) :
    Consistent c (settle c disc cands) := by
  intro t ht
  have h := alive0_of_mem_settle ht
  unfold alive0 at h
  simp only [Bool.and_eq_true, Bool.not_eq_true'] at h
  exact ⟨h.1.1, h.1.2⟩

-- ------------------------------------------------------------------ 4. single-block chain moves

theorem left_snoc (c : List Block) (b : Block) : left c (c ++ [b]) = [] := by
  unfold left
  rw [List.filter_eq_nil_iff]
  intro x hx
  simp only [Bool.not_eq_true', Bool.not_eq_false]
  rw [List.any_eq_true]
  exact ⟨x, List.mem_append_left _ hx, by simp⟩

theorem left_dropLast (c : List Block) (b : Block) (hb : ∀ x ∈ c, x.id ≠ b.id) : left (c ++ [b]) c = [b] := by
  unfold left
  rw [List.filter_append]
  have h1 : c.filter (fun x => !c.any (fun b' => decide (b'.id = x.id))) = [] := by
    rw [List.filter_eq_nil_iff]
    intro x hx
    simp only [Bool.not_eq_true', Bool.not_eq_false]
    rw [List.any_eq_true]
    exact ⟨x, hx, by simp⟩
  have h2 : c.any (fun b' => decide (b'.id = b.id)) = false := by
    rw [List.any_eq_false]
    intro x hx
    simpa using hb x hx
  rw [h1, List.filter_cons, h2]
  rfl

theorem onChainMoved_connect (e : Env) (c : List Block) (b : Block) (P : List Tx) :
    onChainMoved e c (c ++ [b]) P = settle (c ++ [b]) [] P := by
  unfold onChainMoved
  simp only [left_snoc, List.flatMap_nil, List.filter_nil, List.append_nil]

theorem onChainMoved_disconnect (e : Env) (c : List Block) (b : Block) (P : List Tx) (hb : ∀ x ∈ c, x.id ≠ b.id) :
    onChainMoved e (c ++ [b]) c P =
      settle c [b] (P ++ b.txs.filter (fun t => !t.cb && relevant e t && !hasId P t.id)) := by
  unfold onChainMoved
  simp only [left_dropLast c b hb, List.flatMap_cons, List.flatMap_nil, List.append_nil]

-- ------------------------------------------------------------------ 5. Lost on a connect

theorem onChain_append (c d : List Block) (id : TxId) : onChain (c ++ d) id = (onChain c id || onChain d id) := by
  unfold onChain; rw [List.any_append]

theorem conflictedBy_append (c d : List Block) (t : Tx) :
    conflictedBy (c ++ d) t = (conflictedBy c t || conflictedBy d t) := by
  unfold conflictedBy; rw [List.any_append]

theorem onChain_single (b : Block) (id : TxId) : onChain [b] id = hasId b.txs id := by
  unfold onChain; simp

theorem orphanedBy_nil (t : Tx) : orphanedBy [] t = false := rfl

theorem alive0_connect {c : List Block} {b : Block} {P : List Tx} (hc : Consistent c P) {t : Tx} (ht : t ∈ P) :
    alive0 (c ++ [b]) [] t = (!hasId b.txs t.id && !conflictedBy [b] t) := by
  obtain ⟨h1, h2⟩ := hc t ht
  unfold alive0
  rw [onChain_append, conflictedBy_append, onChain_single, orphanedBy_nil, h1, h2]
  simp

-- ------------------------------------------------------------------ 6. user-level corollaries

/-- a transaction that the settle step drops no longer counts as a spender: a coin is spent-by-pending after the
    chain moved only if a SURVIVING pending transaction spends it -/
theorem spentByPending_iff (P : List Tx) (tx : TxId) (idx : Nat) :
    spentByPending P tx idx = true ↔ ∃ t ∈ P, ∃ i ∈ t.ins, i.tx = tx ∧ i.idx = idx := by
  unfold spentByPending
  simp only [List.any_eq_true, Bool.and_eq_true, decide_eq_true_eq]

theorem conflict_frees_coins (c : List Block) (b : Block) (P : List Tx) (hnd : (P.map (·.id)).Nodup)
    (t : Tx) (ht : t ∈ P) (hconf : conflictedBy (c ++ [b]) t = true) :
    t ∉ settle (c ++ [b]) [] P ∧
    ∀ tx idx, spentByPending (settle (c ++ [b]) [] P) tx idx = true →
      ∃ t' ∈ P, t' ≠ t ∧ ¬ Lost (c ++ [b]) [] P t' ∧ ∃ i ∈ t'.ins, i.tx = tx ∧ i.idx = idx := by
  have hnot : t ∉ settle (c ++ [b]) [] P := by
    intro h
    have ha := alive0_of_mem_settle h
    unfold alive0 at ha
    rw [hconf] at ha
    simp at ha
  refine ⟨hnot, ?_⟩
  intro tx idx hs
  obtain ⟨t', ht', i, hi, h1, h2⟩ := (spentByPending_iff _ tx idx).1 hs
  obtain ⟨hp, hl⟩ := (mem_settle _ _ P hnd t').1 ht'
  refine ⟨t', hp, ?_, hl, i, hi, h1, h2⟩
  intro heq
  subst heq
  exact hnot ht'

end MW.Lemmas.PendHist
