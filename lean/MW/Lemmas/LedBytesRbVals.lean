/-
  LedBytes, part 7a — the value rewrites of Rollback, as inverses of the forward ones:
    unspendCreditValue_enc45      unspendRawCredit (first 45 bytes, spent bit cleared) takes the 121-byte spent form
                                  `enc45 c ++ keyDebit dk` — and any value starting with `enc45 c` — to `enc45 {c with spent := false}`:
                                  the inverse of `spendCreditValue_enc45`
    unminedFromMined_enc45        valueUnminedCreditFromMined keeps the 45 bytes (flags included)
    readDebitCredKey_valueDebit   existsDebit returns the credit key putDebit stored
    unspentValue_of_keyCredit     fetchNsUnspentValueFromRawCredit (key bytes 32..72) is `valueUnspent` of the key's block
    int64OfU64_range              the received time Rollback writes back is an int64
-/
import MW.Lemmas.LedBytesMined
namespace MW.LedBytes
open MW MW.Gen.Codec MW.Model.TxmgrCodec MW.TxmgrCodec MW.Model.Ledger

/-- the flag byte after `newv[8] &^= 1 << 0` is the flag byte of the unspent credit -/
theorem flag_unspend (sp ch : Bool) (cl : ClassB) :
    UInt8.ofNat ((bitsAt wUnspendRawCredit 8).foldl
        (fun a b => if b.set then a ||| (b.mask <<< b.bit) else a &&& (255 - (b.mask <<< b.bit)))
        (UInt8.ofNat (flagOf sp ch cl % 256)).toNat)
      = UInt8.ofNat (flagOf false ch cl % 256) := by
  cases sp <;> cases ch <;> cases cl <;> decide

/-- **the inverse value lemma**: unspendRawCredit's rewrite of any value that starts with the 45 bytes of a well-formed
    credit (in particular the 121-byte spent form) is the 45-byte unspent form of the same credit -/
theorem unspendCreditValue_enc45 (c : CreditValB) (h : c.WF) (ext : Bytes) :
    unspendCreditValue (enc45 c ++ ext) = enc45 { c with spent := false } := by
  have hl := enc45_length c h
  have h' : ({ c with spent := false } : CreditValB).WF := h
  have hsp : wUnspendRawCredit.spans = [⟨"v", 0, 45, .bytes⟩, ⟨"flag8", 8, 1, .byte⟩] := rfl
  have htk : (enc45 c ++ ext).take 45 = enc45 c := by rw [← hl]; exact List.take_left
  have henc : encode wUnspendRawCredit [.b (enc45 c ++ ext)] = enc45 c := by
    show encodeN 45 wUnspendRawCredit _ = _
    unfold encodeN
    simp only [wUnspendRawCredit, List.zip_cons_cons, List.zip_nil_right, List.foldl_cons, List.foldl_nil, spanBytes]
    have hne : ¬ (45 = 0) := by decide
    simp only [hne, if_false, htk]
    have z : zeros 45 = [] ++ zeros 45 := rfl
    rw [z, writeAt_end [] (enc45 c) 45 0 rfl (by omega)]
    simp [hl, zeros]
  unfold unspendCreditValue
  rw [hsp]
  simp only [henc]
  rw [enc45_split c h, enc45_split _ h']
  have hA : (be 8 c.amount).length = 8 := be_length _ _
  rw [updByte_mid _ _ _ _ 8 hA.symm]
  have hf : credFlag c = flagOf c.spent c.change c.cls := rfl
  have hf' : credFlag { c with spent := false } = flagOf false c.change c.cls := rfl
  rw [hf, hf', flag_unspend]

theorem unminedFromMined_enc45 (c : CreditValB) (h : c.WF) (ext : Bytes) :
    valueUnminedCreditFromMined (enc45 c ++ ext) = some (enc45 c) := by
  have hl := enc45_length c h
  have htk : (enc45 c ++ ext).take 45 = enc45 c := by rw [← hl]; exact List.take_left
  simp [valueUnminedCreditFromMined, decodeBy, guardOk, rUnminedCreditFromMined, readVal, readAt, hl, htk]

theorem readDebitCredKey_valueDebit (a : Nat) (ck : Bytes) (ha : a < 256 ^ 8) (hk : ck.length = 76) :
    readDebitCredKey (valueDebit a ck) = some ck := by
  have hf : Fits wPutDebit.spans [.n a, .b ck] = true := by simp [Fits, FitsV, wPutDebit, Kind.isBytes, ha, hk]
  have e := decodeBy_encode wPutDebit rExistsDebit [.n a, .b ck] (by decide) hf (by decide)
  simp only [readDebitCredKey, valueDebit, e]; rfl

theorem unspentValue_of_keyCredit (k : CredKeyB) (h : k.WF = true) :
    fetchNsUnspentValueFromRawCredit (keyCredit k) = some (valueUnspent k.block) := by
  have h' := h
  simp [CredKeyB.WF, CredKeyB.vals, Fits, FitsV, wKeyCredit, Kind.isBytes] at h'
  obtain ⟨hh, hht, hbh, hi⟩ := h'
  have hb : k.block.WF = true := by
    simp [BlockMetaB.WF, BlockMetaB.vals, Fits, FitsV, wValueUnspent, Kind.isBytes, hbh]; exact hht
  rw [keyCredit_flat k h, valueUnspent_flat _ hb]
  have e : k.hash ++ (be 8 k.block.height ++ (k.block.hash ++ be 4 k.index))
      = k.hash ++ ((be 8 k.block.height ++ k.block.hash) ++ be 4 k.index) := by simp
  have r : readAt 32 40 (k.hash ++ ((be 8 k.block.height ++ k.block.hash) ++ be 4 k.index)) = be 8 k.block.height ++ k.block.hash :=
    readAt_block _ _ _ 32 40 hh.symm (by simp [be_length, hbh]) (by decide)
  have g : guardOk rUnspentValueFromCreditKey (k.hash ++ ((be 8 k.block.height ++ k.block.hash) ++ be 4 k.index)) = true := by
    simp [guardOk, rUnspentValueFromCreditKey, hh, hbh, be_length]
  rw [e]
  unfold fetchNsUnspentValueFromRawCredit decodeBy
  rw [g]
  simp only [if_true, rUnspentValueFromCreditKey, List.map_cons, List.map_nil, readVal, r]

theorem int64OfU64_range (u : Nat) (h : u < 256 ^ 8) : -(2 ^ 63 : Int) ≤ int64OfU64 u ∧ int64OfU64 u < 2 ^ 63 := by
  unfold int64OfU64
  have h' : u < 18446744073709551616 := h
  split <;> constructor <;> omega

end MW.LedBytes
