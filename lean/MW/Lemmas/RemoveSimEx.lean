/-
  C08, non-vacuity of `filterBlock_sim`: a concrete ghost store BUILT BY THE MODEL (block B1 pays W1 and W2), a
  real store = ghost minus W2's credit and its tx record (what a first removal transaction of W2 leaves), and a
  block B2 spending W1's coin and W2's (removed) coin meet every hypothesis of the simulation lemma.
-/
import MW.Lemmas.RemoveSimRb
namespace MW.Lemmas.RemoveSimEx
open MW MW.Model.Ledger MW.Lemmas.Ledger MW.Lemmas.RemoveSim

def c1 : Tx := ⟨"C1", true, [], [⟨"A1", 500, .std⟩]⟩
def c2 : Tx := ⟨"C2", true, [], [⟨"A2", 7, .std⟩]⟩
def t3 : Tx := ⟨"T3", false, [⟨"C1", 0, 0⟩], [⟨"A1", 300, .std⟩, ⟨"X1", 199, .std⟩]⟩
/-- spends W2's coin: the ghost looks C2 up on the node, the real store (no credit of C2 left) skips the input -/
def t4 : Tx := ⟨"T4", false, [⟨"C2", 0, 0⟩], [⟨"X2", 7, .std⟩]⟩
def gb : Block := ⟨"G", "", 0, []⟩
def b1 : Block := ⟨"B1", "G", 1, [c1, c2]⟩
def b2 : Block := ⟨"B2", "B1", 2, [t3, t4]⟩
def own : Own := [("A1", ("W1", false)), ("A2", ("W2", false))]
def ctx : Ctx := ⟨{ cbMaturity := 1 }, own, ["W1", "W2"],
  { chain := [gb, b1, b2], known := [("G", gb), ("B1", b1), ("B2", b2)] }⟩

def s0 : Store :=
  { balance := [("W1", 0), ("W2", 0)], sync := [(0, "G")], syncedTo := 0,
    status := [("W1", ⟨none, false⟩), ("W2", ⟨none, false⟩)] }

/-- the ghost: both wallets were ready when B1 was connected -/
def g : Store :=
  match filterBlock ctx s0 ["W1", "W2"] b1 with
  | .ok (s, _) => s
  | .error _ => s0

def k2 : CredKey := ⟨"C2", ⟨1, "B1"⟩, 0⟩

/-- the real store: W2's credit and the record of C2 are gone -/
def s : Store := { g with credits := AMap.erase g.credits k2, txrecs := AMap.erase g.txrecs ("C2", ⟨1, "B1"⟩) }

theorem get_mem' {K V : Type} [DecidableEq K] {m : AMap.T K V} {k : K} {v : V} (h : AMap.get m k = some v) :
    (k, v) ∈ m := by
  induction m with
  | nil => cases h
  | cons a m ih =>
    rw [AMap.get_cons] at h
    by_cases e : a.1 = k
    · rw [if_pos e] at h; cases h; cases a; cases e; exact List.mem_cons_self ..
    · rw [if_neg e] at h; exact List.mem_cons_of_mem _ (ih h)

theorem get_none_of {K V : Type} [DecidableEq K] {m : AMap.T K V} {k : K} (h : ∀ e ∈ m, e.1 ≠ k) :
    AMap.get m k = none := by
  cases hg : AMap.get m k with
  | none => rfl
  | some v => exact absurd rfl (h _ (get_mem' hg))

theorem g_nodup : KeysNodup g.credits := by unfold KeysNodup; decide

theorem sub : Sub ["A2"] g s := by
  refine ⟨rfl, rfl, rfl, rfl, rfl, rfl, ?_, fun _ => Or.inl rfl, ?_, rfl⟩
  · intro k
    have hk : AMap.get s.credits k = if k2 = k then none else AMap.get g.credits k := AMap.get_erase ..
    by_cases e : k2 = k
    · subst e
      right
      rw [hk, if_pos rfl]
      exact ⟨rfl, ⟨7, false, false, .standard, 1, "A2", none⟩, by decide, by decide⟩
    · left; rw [hk, if_neg e]
  · intro k
    have hk : AMap.get s.txrecs k = if (("C2", ⟨1, "B1"⟩) : TxId × BlockMeta) = k then none
        else AMap.get g.txrecs k := AMap.get_erase ..
    by_cases e : (("C2", ⟨1, "B1"⟩) : TxId × BlockMeta) = k
    · right; rw [hk, if_pos e]
    · left; rw [hk, if_neg e]

theorem fresh : Fresh ⟨b2.height, b2.id⟩ g := by
  have h1 : ∀ e ∈ g.txrecs, e.1.2.height = 1 := by decide
  have h2 : ∀ e ∈ g.credits, e.1.blk.height = 1 := by decide
  have h3 : g.debits = [] := by decide
  refine ⟨?_, by decide, ?_, ?_⟩
  · intro id
    apply get_none_of
    intro e he hk
    have := h1 e he
    rw [hk] at this; cases this
  · intro id i
    apply get_none_of
    intro e he hk
    have := h2 e he
    rw [hk] at this; cases this
  · intro id i; rw [h3]; rfl

theorem coins : CoinsOK ["A2"] ["W1"] g := by
  intro w' tx idx blk cr hw hu hc
  have hw' : w' = "W1" := by simpa using hw
  subst hw'
  have h1 : ∀ e ∈ g.unspent, e.1.1 = "W1" → e = (("W1", "C1", 0), ⟨1, "B1"⟩) := by decide
  have := h1 _ (get_mem' hu) rfl
  simp only [Prod.mk.injEq, true_and] at this
  obtain ⟨⟨e1, e2⟩, e3⟩ := this
  subst e1; subst e2; subst e3
  have h2 : AMap.get g.credits ⟨"C1", ⟨1, "B1"⟩, 0⟩ = some ⟨500, false, false, .standard, 1, "A1", none⟩ := by decide
  rw [h2] at hc; cases hc; decide

theorem find : ∀ id, existCreditFromTx g id = true → (ctx.node.fetchTx id).isSome = true := by
  intro id h
  unfold existCreditFromTx at h
  rw [List.any_eq_true] at h
  obtain ⟨e, he, hid⟩ := h
  have h1 : ∀ e ∈ g.credits, (ctx.node.fetchTx e.1.tx).isSome = true := by decide
  have := h1 e he
  rw [decide_eq_true_eq] at hid
  rw [← hid]; exact this

theorem ownH : ∀ (id : TxId) (pt : Tx) (idx : Nat) (o : Out) (w' : Wid) (ch : Bool), existCreditFromTx g id = true →
    existCreditFromTx s id = false → ctx.node.fetchTx id = some pt → pt.outs[idx]? = some o → o.cls ≠ .raw →
    AMap.get ctx.own o.addr = some (w', ch) → (["W1"] : List Wid).contains w' = false := by
  intro id pt idx o w' ch hg hs hpt ho _ hw
  unfold existCreditFromTx at hg
  rw [List.any_eq_true] at hg
  obtain ⟨e, he, hid⟩ := hg
  rw [decide_eq_true_eq] at hid
  have h1 : ∀ e ∈ g.credits, e.1.tx = "C2" ∨ e.1.tx = "C1" := by decide
  rcases h1 e he with h | h
  · rw [h] at hid; subst hid
    have : ctx.node.fetchTx "C2" = some c2 := by decide
    rw [this] at hpt; cases hpt
    have hm := List.mem_of_getElem? ho
    have : o = ⟨"A2", 7, .std⟩ := by simpa [c2] using hm
    subst this
    have : AMap.get ctx.own "A2" = some ("W2", false) := by decide
    rw [this] at hw; cases hw; decide
  · rw [h] at hid; subst hid
    have : existCreditFromTx s "C1" = true := by decide
    rw [this] at hs; cases hs

theorem rel : ∀ a w' ch, AMap.get ctx.own a = some (w', ch) → (["W1"] : List Wid).contains w' = true →
    (["A2"] : List Addr).contains a = false := by
  intro a w' ch h hw
  have h1 : ∀ e ∈ own, (["W1"] : List Wid).contains e.2.1 = true → (["A2"] : List Addr).contains e.1 = false := by
    decide
  exact h1 _ (get_mem' h) hw

theorem ghost_ok : (filterBlock ctx g ["W1"] b2).toOption.map (·.2) = some ["T3"] := by decide

/-- every hypothesis of `filterBlock_sim` holds here, hence its conclusion: the real store confirms T3 as
    well, and stays "ghost minus W2's records" -/
theorem ex_sim : ∃ g' s' conf, filterBlock ctx g ["W1"] b2 = .ok (g', conf) ∧
    filterBlock ctx s ["W1"] b2 = .ok (s', conf) ∧ conf = ["T3"] ∧ Sub ["A2"] g' s' ∧
    AMap.get s'.credits k2 = none ∧ (AMap.get g'.credits k2).isSome = true := by
  cases hg : filterBlock ctx g ["W1"] b2 with
  | error e => have := ghost_ok; rw [hg] at this; cases this
  | ok r =>
    obtain ⟨g', conf⟩ := r
    have hconf : conf = ["T3"] := by
      have := ghost_ok; rw [hg] at this
      simpa [Except.toOption] using this
    obtain ⟨s', hs, hS, _, _, _, _, _, _, _, hcr, hgc, _⟩ :=
      filterBlock_sim sub g_nodup (keysNodup_erase g_nodup k2) fresh (by decide) coins find ownH rel hg
    refine ⟨g', s', conf, rfl, hs, hconf, hS, ?_, ?_⟩
    · rcases hcr k2 (by decide) with e | ⟨c0, e, _⟩
      · rw [e]; decide
      · have : AMap.get s.credits k2 = none := by decide
        rw [this] at e; cases e
    · rw [hgc k2 ⟨7, false, false, .standard, 1, "A2", none⟩ (by decide) (by decide)]; rfl
-- ------------------------------------------------------------------ the rollback counterpart

/-- spends W1's coin, pays W1 and the flagged wallet W2 (not ready: that output is never booked) -/
def t5 : Tx := ⟨"T5", false, [⟨"C1", 0, 0⟩], [⟨"A1", 300, .std⟩, ⟨"A2", 199, .std⟩]⟩
def b2' : Block := ⟨"B2", "B1", 2, [t5]⟩
def ctx' : Ctx := ⟨{ cbMaturity := 1 }, own, ["W1", "W2"],
  { chain := [gb, b1, b2'], known := [("G", gb), ("B1", b1), ("B2", b2')] }⟩

/-- the ghost after the tip block B2 (only W1 ready) -/
def g2 : Store :=
  match filterBlock ctx' g ["W1"] b2' with
  | .ok (s, _) => s
  | .error _ => g

/-- the real store: W2's credit and the record of C2 are gone -/
def s2 : Store := { g2 with credits := AMap.erase g2.credits k2, txrecs := AMap.erase g2.txrecs ("C2", ⟨1, "B1"⟩) }

theorem g2_nodup : KeysNodup g2.credits := by unfold KeysNodup; decide

theorem sub2 : Sub ["A2"] g2 s2 := by
  refine ⟨rfl, rfl, rfl, rfl, rfl, rfl, ?_, fun _ => Or.inl rfl, ?_, rfl⟩
  · intro k
    have hk : AMap.get s2.credits k = if k2 = k then none else AMap.get g2.credits k := AMap.get_erase ..
    by_cases e : k2 = k
    · subst e
      right
      rw [hk, if_pos rfl]
      exact ⟨rfl, ⟨7, false, false, .standard, 1, "A2", none⟩, by decide, by decide⟩
    · left; rw [hk, if_neg e]
  · intro k
    have hk : AMap.get s2.txrecs k = if (("C2", ⟨1, "B1"⟩) : TxId × BlockMeta) = k then none
        else AMap.get g2.txrecs k := AMap.get_erase ..
    by_cases e : (("C2", ⟨1, "B1"⟩) : TxId × BlockMeta) = k
    · right; rw [hk, if_pos e]
    · left; rw [hk, if_neg e]

theorem newEq2 : NewEq ⟨2, "B2"⟩ g2 s2 := by
  refine ⟨?_, rfl, ?_, fun _ _ => rfl⟩
  · intro id
    have hk : AMap.get s2.txrecs (id, ⟨2, "B2"⟩) = if (("C2", ⟨1, "B1"⟩) : TxId × BlockMeta) = (id, ⟨2, "B2"⟩) then none
        else AMap.get g2.txrecs (id, ⟨2, "B2"⟩) := AMap.get_erase ..
    rw [hk, if_neg (by intro e; cases e)]
  · intro id i
    have hk : AMap.get s2.credits ⟨id, ⟨2, "B2"⟩, i⟩ = if k2 = ⟨id, ⟨2, "B2"⟩, i⟩ then none
        else AMap.get g2.credits ⟨id, ⟨2, "B2"⟩, i⟩ := AMap.get_erase ..
    rw [hk, if_neg (by intro e; cases e)]

theorem deb2 : ∀ id i d cr, AMap.get g2.debits ⟨id, ⟨2, "B2"⟩, i⟩ = some d → AMap.get g2.credits d.2 = some cr →
    (["A2"] : List Addr).contains cr.sh = false := by
  intro id i d cr hd hc
  have h1 : ∀ e ∈ g2.debits, ∀ e' ∈ g2.credits, e'.1 = e.2.2 → (["A2"] : List Addr).contains e'.2.sh = false := by
    decide
  exact h1 _ (get_mem' hd) _ (get_mem' hc) rfl

theorem ghost2_ok : (disconnectBlock ctx' g2 2).toOption.isSome = true := by decide

/-- every hypothesis of `disconnectBlock_sim` holds here, hence its conclusion: the tip is rolled back on the real
    store too, W1's coin is unspent again on both, W2's credit stays missing in the real store only -/
theorem ex_sim_rb : ∃ g' s', disconnectBlock ctx' g2 2 = .ok g' ∧ disconnectBlock ctx' s2 2 = .ok s' ∧
    Sub ["A2"] g' s' ∧ AMap.get s'.credits k2 = none ∧ (AMap.get g'.credits k2).isSome = true := by
  cases hg : disconnectBlock ctx' g2 2 with
  | error e => have := ghost2_ok; rw [hg] at this; cases this
  | ok g' =>
    obtain ⟨s', hs, hS, _, _, _, _, _, _, _, _, _, _, hcr, hgc, _⟩ :=
      disconnectBlock_sim (c := ctx') (txs := ["T5"]) sub2 g2_nodup (keysNodup_erase g2_nodup k2) (by decide)
        (by decide) (by decide) newEq2 deb2 hg
    refine ⟨g', s', rfl, hs, hS, ?_, ?_⟩
    · rcases hcr k2 (by decide) with e | ⟨c0, e, _⟩
      · rw [e]; decide
      · have : AMap.get s2.credits k2 = none := by decide
        rw [this] at e; cases e
    · rw [hgc k2 ⟨7, false, false, .standard, 1, "A2", none⟩ (by decide) (by decide) (by decide)]; rfl

end MW.Lemmas.RemoveSimEx
