/-
  What the write operations of a transaction do to the store it would commit
  (`apply committed batch`): Put inserts, Delete erases, Clear erases exactly the keys under the
  bucket prefix.
-/
import MW.Lemmas.KvUpd
import MW.Lemmas.KvSysInv
namespace MW.Model.KV
open MW MW.KV

/-- the store a write transaction with batch `bt` over `db` would commit -/
def eff (db : Store) (bt : Batch) : Store := applyLog db bt.log

theorem eff_eq_commit (db : Store) (bt : Batch) : eff db bt = Tx.commit { readOnly := false, db := db, b := bt } := rfl

theorem eff_sorted {db : Store} (h : SMap.Sorted db) (bt : Batch) : SMap.Sorted (eff db bt) := applyLog_sorted h _

theorem eff_get {db : Store} {bt : Batch} (h : bt.Inv) (k : Bytes) : (eff db bt).get k = view db bt k := h.viewOk db k

theorem eff_put (db : Store) (bt : Batch) (k v k0 : Bytes) :
    (eff db (bt.put k v)).get k0 = if k0 = k then some v else (eff db bt).get k0 := by
  unfold eff
  rw [show (bt.put k v).log = bt.log ++ [.put k v] from rfl, applyLog_append]
  simp [applyOp, SMap.get_insert]

theorem eff_delete (db : Store) (bt : Batch) (k k0 : Bytes) :
    (eff db (bt.delete k)).get k0 = if k0 = k then none else (eff db bt).get k0 := by
  unfold eff
  rw [show (bt.delete k).log = bt.log ++ [.del k] from rfl, applyLog_append]
  simp [applyOp, SMap.get_erase]

/-- first loop of Clear / deleteBucket -/
theorem clearLoop1_get (es : List (Bytes × Bytes)) (hnd : es.Pairwise (fun a b => a.1 ≠ b.1)) :
    ∀ (bt : Batch), bt.Inv → ∀ k0,
      ((es.foldl (fun bt e => if (bt.get e.1).2 then bt else bt.delete e.1) bt).get k0) =
        if k0 ∈ es.map (·.1) ∧ (bt.get k0).2 = false then (none, true) else bt.get k0 := by
  induction es with
  | nil => intro bt _ k0; simp
  | cons e r ih =>
    intro bt hb k0
    have hnd' := List.pairwise_cons.mp hnd
    have hnotin : ¬ (e.1 ∈ r.map (·.1)) := by
      intro hm; obtain ⟨x, hx, hxe⟩ := List.mem_map.mp hm
      exact hnd'.1 x hx hxe.symm
    simp only [List.foldl_cons, List.map_cons, List.mem_cons]
    by_cases hd : (bt.get e.1).2 = true
    · simp only [hd, if_true]
      rw [ih hnd'.2 bt hb k0]
      by_cases hk : k0 = e.1
      · rw [hk]
        simp [hnotin, hd]
      · have e1 : (k0 = e.1 ∨ k0 ∈ r.map (·.1)) ↔ k0 ∈ r.map (·.1) := by simp [hk]
        simp only [e1]
    · have hd' : (bt.get e.1).2 = false := by simpa using hd
      simp only [hd, Bool.false_eq_true, if_false]
      rw [ih hnd'.2 (bt.delete e.1) (hb.delete _) k0, Batch.get_delete bt hb]
      by_cases hk : k0 = e.1
      · rw [hk]
        simp [hnotin, hd']
      · have e1 : (k0 = e.1 ∨ k0 ∈ r.map (·.1)) ↔ k0 ∈ r.map (·.1) := by simp [hk]
        simp only [hk, if_false, false_or]

/-- second loop of Clear / deleteBucket -/
theorem clearLoop2_get (np : List (Bytes × Bytes)) :
    ∀ (bt : Batch), bt.Inv → ∀ k0,
      ((np.foldl (fun bt e => bt.delete e.1) bt).get k0) =
        if k0 ∈ np.map (·.1) then (none, true) else bt.get k0 := by
  induction np with
  | nil => intro bt _ k0; simp
  | cons e r ih =>
    intro bt hb k0
    simp only [List.foldl_cons, List.map_cons, List.mem_cons]
    rw [ih (bt.delete e.1) (hb.delete _) k0, Batch.get_delete bt hb]
    by_cases hk : k0 = e.1
    · rw [hk]; simp
    · by_cases hm : k0 ∈ r.map (·.1)
      · simp [hm]
      · simp [hk, hm]

theorem clearLoop1_inv (es : List (Bytes × Bytes)) (bt : Batch) (hb : bt.Inv) :
    (es.foldl (fun bt e => if (bt.get e.1).2 then bt else bt.delete e.1) bt).Inv := by
  apply foldl_delete_inv _ _ es bt hb
  intro bt a hb
  by_cases hd : (bt.get a.1).2 = true
  · simp [hd, hb]
  · simp only [hd, Bool.false_eq_true, if_false]; exact hb.delete _

/-- Clear (and the k/v part of deleteBucket): in the store the transaction would commit, every
    key under the prefix is gone and no other key is touched -/
theorem clearRange_get {db : Store} (hdb : SMap.Sorted db) {bt : Batch} (hb : bt.Inv) (pfx k0 : Bytes) :
    (eff db (clearRange db bt pfx)).get k0 = if pfx <+: k0 then none else (eff db bt).get k0 := by
  have hinv2 := clearRange_inv db hb pfx
  rw [eff_get hinv2, eff_get hb]
  unfold clearRange at hinv2 ⊢
  generalize hbt1 : (db.scan pfx).foldl (fun bt e => if (bt.get e.1).2 then bt else bt.delete e.1) bt = bt1 at hinv2 ⊢
  have hinv1 : bt1.Inv := by rw [← hbt1]; exact clearLoop1_inv _ bt hb
  have hscan : SMap.Sorted (db.scan pfx) := SMap.range_sorted hdb _ _
  have hnd : (db.scan pfx).Pairwise (fun a b => a.1 ≠ b.1) :=
    List.Pairwise.imp (fun {a b} hab => blt_ne hab) hscan
  have h1 : ∀ k, bt1.get k = if k ∈ (db.scan pfx).map (·.1) ∧ (bt.get k).2 = false then (none, true) else bt.get k := by
    intro k; rw [← hbt1]; exact clearLoop1_get _ hnd bt hb k
  have h2 := clearLoop2_get (bt1.netPuts pfx) bt1 hinv1 k0
  unfold view
  simp only
  rw [h2]
  have hkscan : k0 ∈ (db.scan pfx).map (·.1) ↔ pfx <+: k0 ∧ (db.get k0).isSome = true := by
    simp only [List.mem_map]
    constructor
    · rintro ⟨e, he, rfl⟩
      have := mem_scan.mp he
      exact ⟨this.2, by rw [SMap.get_of_mem hdb this.1]; rfl⟩
    · rintro ⟨hp, hs⟩
      obtain ⟨v, hv⟩ := Option.isSome_iff_exists.mp hs
      exact ⟨(k0, v), mem_scan.mpr ⟨SMap.mem_of_get hv, hp⟩, rfl⟩
  have hknp : k0 ∈ (bt1.netPuts pfx).map (·.1) ↔ pfx <+: k0 ∧ ∃ v, bt1.get k0 = (some v, false) := by
    simp only [List.mem_map]
    constructor
    · rintro ⟨e, he, rfl⟩
      have := (Batch.mem_netPuts hinv1 pfx e.1 e.2).mp he
      exact ⟨this.1, e.2, this.2⟩
    · rintro ⟨hp, v, hv⟩
      exact ⟨(k0, v), (Batch.mem_netPuts hinv1 pfx k0 v).mpr ⟨hp, hv⟩, rfl⟩
  by_cases hp : pfx <+: k0
  · simp only [hp, if_true]
    by_cases hn : k0 ∈ (bt1.netPuts pfx).map (·.1)
    · simp [hn]
    · simp only [hn, if_false]
      rcases Batch.get_cases bt1 k0 with hg | ⟨v, hg⟩ | hg
      · simp [hg]
      · exact absurd (hknp.mpr ⟨hp, v, hg⟩) hn
      · simp only [hg]
        -- not touched by the batch: then the store cannot hold it either
        cases hdg : db.get k0 with
        | none => rfl
        | some v0 =>
          exfalso
          have hks : k0 ∈ (db.scan pfx).map (·.1) := hkscan.mpr ⟨hp, by simp [hdg]⟩
          have := h1 k0
          rw [hg] at this
          by_cases hd : (bt.get k0).2 = false
          · simp [hks, hd] at this
          · have hc : ¬ (k0 ∈ (db.scan pfx).map (·.1) ∧ (bt.get k0).2 = false) := fun hc => hd hc.2
            rw [if_neg hc] at this
            rw [← this] at hd; simp at hd
  · simp only [hp, if_false]
    have hn : ¬ k0 ∈ (bt1.netPuts pfx).map (·.1) := fun hn => hp (hknp.mp hn).1
    have hs : ¬ k0 ∈ (db.scan pfx).map (·.1) := fun hs => hp (hkscan.mp hs).1
    simp only [hn, if_false]
    rw [h1 k0]
    simp [hs]

end MW.Model.KV
