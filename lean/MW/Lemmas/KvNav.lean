/-
  Bucket handles: what TopLevelBucket / Bucket / subBucket compute for valid names, and the
  index-scan prefix of BucketNames.
-/
import MW.Lemmas.KvNames
namespace MW.Model.KV
open MW MW.KV

/-- `b` is the handle of the bucket with path `p` (as navigation from the transaction builds it) -/
structure Bucket.IsAt (b : Bucket) (p : Path) : Prop where
  ne : p ≠ []
  noSep : NoSep p
  path : b.path = pathBytes p
  depth : b.depth = p.length

theorem pathBytes_singleton (n : Bytes) : pathBytes [n] = join [topDepth, n] := by
  unfold pathBytes; rw [topDepth_eq_itoa_one]; rfl

theorem NoSep.append {p : Path} (hp : NoSep p) {n : Bytes} (hn : sep ∉ n) : NoSep (p ++ [n]) := by
  intro x hx
  rcases List.mem_append.mp hx with hx | hx
  · exact hp x hx
  · simp at hx; subst hx; exact hn

theorem Tx.topLevelBucket_isAt {tx : Tx} {n : Bytes} {b : Bucket} (hn : sep ∉ n)
    (h : tx.topLevelBucket n = some b) : b.IsAt [n] := by
  unfold Tx.topLevelBucket at h
  simp only at h
  split at h
  · cases h
    exact ⟨by simp, by intro x hx; simp at hx; subst hx; exact hn, (pathBytes_singleton n).symm, rfl⟩
  · cases h

theorem Bucket.subBucket_eq {b : Bucket} {p : Path} (hb : b.IsAt p) {n : Bytes} (hn : ValidName n) :
    b.subBucket n = .ok { name := n, path := pathBytes (p ++ [n]), depth := p.length + 1 } := by
  unfold Bucket.subBucket
  have hv : isValidBucketName n = true := hn
  simp only [hv, Bool.not_true, Bool.false_eq_true, if_false]
  rw [hb.path, split_pathBytes hb.noSep]
  have : ¬ ((itoa p.length :: p).length < 2) := by
    cases p with
    | nil => exact absurd rfl hb.ne
    | cons a r => simp
  simp only [this, if_false, List.tail_cons, hb.depth]
  unfold pathBytes
  simp [List.length_append]

theorem Bucket.subBucket_invalid (b : Bucket) {n : Bytes} (hn : ¬ ValidName n) :
    b.subBucket n = .error .invalidName := by
  unfold Bucket.subBucket
  have hv : isValidBucketName n = false := by simpa [ValidName] using hn
  simp [hv]

theorem Bucket.bucket_isAt {tx : Tx} {b : Bucket} {p : Path} (hb : b.IsAt p) {n : Bytes} {sub : Bucket}
    (h : b.bucket tx n = some sub) : ValidName n ∧ sub.IsAt (p ++ [n]) := by
  unfold Bucket.bucket at h
  by_cases hn : ValidName n
  · rw [Bucket.subBucket_eq hb hn] at h
    simp only at h
    split at h
    · cases h
      exact ⟨hn, ⟨by simp, hb.noSep.append hn.noSep, rfl, by simp⟩⟩
    · cases h
  · rw [Bucket.subBucket_invalid b hn] at h; cases h

/-- the transaction-level listing scans the children of the empty path -/
theorem topScanPrefix_eq : join [tag, topDepth, []] = childScanPrefix [] := by
  unfold childScanPrefix
  rw [topDepth_eq_itoa_one]
  rfl

theorem Tx.bucketNames_eq (tx : Tx) : tx.bucketNames = tx.bucketNamesAt (childScanPrefix []) 0 := by
  unfold Tx.bucketNames; rw [topScanPrefix_eq]

theorem Bucket.bucketNames_eq {b : Bucket} {p : Path} (hb : b.IsAt p) (tx : Tx) :
    b.bucketNames tx = tx.bucketNamesAt (childScanPrefix p) p.length := by
  unfold Bucket.bucketNames
  rw [hb.path, split_pathBytes hb.noSep]
  have : ¬ ((itoa p.length :: p).length < 2) := by
    cases p with
    | nil => exact absurd rfl hb.ne
    | cons a r => simp
  simp only [this, if_false, List.tail_cons, hb.depth]
  rfl

/-- under the index-scan prefix of the children of `q`, a legal entry is `(prefix ++ name, name)` -/
theorem legal_child_key {q : Path} (hq : NoSep q) {k v : Bytes}
    (hp : childScanPrefix q <+: k) (hl : nameEntryLegal q.length k v = true) :
    k = childScanPrefix q ++ v := by
  obtain ⟨t, rfl⟩ := hp
  unfold nameEntryLegal at hl
  simp only [Bool.and_eq_true, beq_iff_eq] at hl
  rw [childScanPrefix_eq] at hl ⊢
  have hs : split (indexKey (join (itoa (q.length + 1) :: q)) ++ [sep] ++ t)
      = tag :: itoa (q.length + 1) :: q ++ splitSep sep t := by
    unfold indexKey join
    rw [joinSep_cons_cons]
    simp only [joinSep]
    rw [show split ((tag ++ sep :: joinSep sep (itoa (q.length + 1) :: q)) ++ [sep] ++ t)
          = splitSep sep (tag ++ sep :: (joinSep sep (itoa (q.length + 1) :: q) ++ sep :: t)) by simp [split],
      splitSep_append sep tag sep_not_mem_tag,
      splitSep_joinSep_append sep _ (by simp) (noSep_tokens hq _)]
    simp
  rw [hs] at hl
  obtain ⟨hlen, hget⟩ := hl
  have hl1 : (splitSep sep t).length = 1 := by
    simp at hlen; omega
  match hsp : splitSep sep t, hl1 with
  | [x], _ =>
    rw [hsp] at hget
    have hx : x = v := by
      have : (tag :: itoa (q.length + 1) :: q ++ [x]).getD (q.length + 2) [] = x := by
        rw [show tag :: itoa (q.length + 1) :: q ++ [x] = (tag :: itoa (q.length + 1) :: q) ++ [x] by simp]
        rw [List.getD_eq_getElem?_getD, List.getElem?_append_right (by simp)]
        simp
      rw [this] at hget; exact hget
    have ht : t = x := by
      have := joinSep_splitSep sep t
      rw [hsp] at this
      simpa [joinSep] using this.symm
    rw [ht, hx]

theorem keyDetermined_child {q : Path} (hq : NoSep q) : KeyDetermined (childScanPrefix q) q.length := by
  intro k k' v hp hp' hl hl'
  rw [legal_child_key hq hp hl, legal_child_key hq hp' hl']

/-- `bucketNames_ryw`, transaction level -/
theorem Tx.bucketNames_ryw {tx : Tx} (h : tx.Inv) : SameListing tx.bucketNames tx.roView.bucketNames := by
  rw [Tx.bucketNames_eq, Tx.bucketNames_eq]
  exact Tx.bucketNamesAt_ryw h _ _ (keyDetermined_child (q := []) (by intro x hx; cases hx))

/-- `bucketNames_ryw`, bucket level -/
theorem Bucket.bucketNames_ryw {tx : Tx} (h : tx.Inv) {b : Bucket} {p : Path} (hb : b.IsAt p) :
    SameListing (b.bucketNames tx) (b.bucketNames tx.roView) := by
  rw [Bucket.bucketNames_eq hb, Bucket.bucketNames_eq hb]
  exact Tx.bucketNamesAt_ryw h _ _ (keyDetermined_child hb.noSep)

end MW.Model.KV
