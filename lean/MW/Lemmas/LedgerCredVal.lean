/-
  C01, the credit table of the books — THE VALUES.

  `CredInv` (LedgerChar2) characterises the credit table of `bookOf` through ledger coins (`UCoin`, `CreatedIn`,
  `creditOf`).  Here the same fact is read from the side of a credit KEY, in the vocabulary of the model
  (`minedCreditOf`, the value `creditApply` writes): every credit record of the books sits at the key
  (transaction, block, index) of an owned output `o` of a transaction of the chain, and its value is
  `minedCreditOf p cb ⟨index, o, wallet, change⟩` — either untouched (no transaction of the chain spends the output)
  or with exactly the two fields `spent := true`, `spentBy := some dk` changed, `dk` the debit key of THE spending
  input.  In particular amount, class, script hash, change flag and maturity of a mined credit are ALWAYS those of the
  output (`SameCoin`), whether spent or not.  Store-level forms under `Inv` (`inv_credit_value`,
  `inv_credit_value_block`) are what C09 (Rollback re-creates the pending credits from the mined credit table) uses.
-/
import MW.Lemmas.LedgerChar2
import MW.Lemmas.LedgerInv
import MW.Lemmas.LedgerNode
namespace MW.Lemmas.Ledger.CredVal
open MW MW.Model.Ledger MW.Spec.Chain MW.Spec.Books MW.Lemmas.Ledger

/-- two credit values describe the same coin: they agree on everything but the spent flag and the spender -/
structure SameCoin (cr cr0 : Credit) : Prop where
  amt : cr.amt = cr0.amt
  cls : cr.cls = cr0.cls
  sh : cr.sh = cr0.sh
  change : cr.change = cr0.change
  maturity : cr.maturity = cr0.maturity

theorem SameCoin.refl (cr : Credit) : SameCoin cr cr := ⟨rfl, rfl, rfl, rfl, rfl⟩

theorem SameCoin.trans {a b c : Credit} (h1 : SameCoin a b) (h2 : SameCoin b c) : SameCoin a c :=
  ⟨h1.amt.trans h2.amt, h1.cls.trans h2.cls, h1.sh.trans h2.sh, h1.change.trans h2.change,
    h1.maturity.trans h2.maturity⟩

theorem SameCoin.symm {a b : Credit} (h : SameCoin a b) : SameCoin b a :=
  ⟨h.amt.symm, h.cls.symm, h.sh.symm, h.change.symm, h.maturity.symm⟩

/-- marking a credit spent / unspent, or changing its spender, keeps the coin -/
theorem SameCoin.flags (cr : Credit) (sp : Bool) (by' : Option CredKey) :
    SameCoin { cr with spent := sp, spentBy := by' } cr := ⟨rfl, rfl, rfl, rfl, rfl⟩

/-- the books' `creditOf` of a created coin IS the model's `minedCreditOf` of the output -/
theorem creditOf_eq_mined (p : Params) (u : UCoin) :
    creditOf p u = minedCreditOf p u.cb ⟨u.idx, u.out, u.wallet, u.change⟩ := rfl

/-- what a credit record of the books is, read from its key -/
structure CredAt (p : Params) (own : Own) (P : List Occ) (ck : CredKey) (cr : Credit) : Prop where
  ex : ∃ oc ∈ P, oc.t.id = ck.tx ∧ oc.bm = ck.blk ∧ ∃ o w ch, oc.t.outs[ck.idx]? = some o ∧
    ownerOf own o = some (w, ch) ∧
    ((cr = minedCreditOf p oc.t.cb ⟨ck.idx, o, w, ch⟩ ∧ (ck.tx, ck.idx) ∉ spentOps P) ∨
     (∃ dk, SpentBy P (ck.tx, ck.idx) dk ∧
        cr = { minedCreditOf p oc.t.cb ⟨ck.idx, o, w, ch⟩ with spent := true, spentBy := some dk }))

/-- CREDIT VALUES, from `CredInv`: every record of the credit table is the `minedCreditOf` of an owned output of a
    transaction of `P`, at that output's key; spent (by the input `dk`) iff a transaction of `P` spends it -/
theorem credAt_of_credInv {p : Params} {own : Own} {P : List Occ} {B : Book} (hC : CredInv p own P B)
    {ck : CredKey} {cr : Credit} (h : B.credits ck = some cr) : CredAt p own P ck cr := by
  obtain ⟨u, hc, hk⟩ := hC.only ck cr h
  obtain ⟨oc, hoc, hid, hout, hown, hblk, hcb⟩ := hc
  have hc' : CreatedIn own P u := ⟨oc, hoc, hid, hout, hown, hblk, hcb⟩
  have k1 : ck.tx = u.tx := by rw [hk]; rfl
  have k2 : ck.blk = u.blk := by rw [hk]; rfl
  have k3 : ck.idx = u.idx := by rw [hk]; rfl
  refine ⟨oc, hoc, by rw [k1]; exact hid, by rw [k2]; exact hblk.symm, u.out, u.wallet, u.change,
    by rw [k3]; exact hout, hown, ?_⟩
  rw [k1, k3, ← hcb, ← creditOf_eq_mined]
  by_cases hs : (u.tx, u.idx) ∈ spentOps P
  · obtain ⟨dk, hdk⟩ := mem_spentOps_spentBy hs
    have := hC.spent u dk hc' hdk
    rw [← hk, h] at this
    exact Or.inr ⟨dk, hdk, by injection this⟩
  · have := hC.unspent u hc' hs
    rw [← hk, h] at this
    exact Or.inl ⟨by injection this, hs⟩

/-- … hence amount, class, script hash, change flag and maturity are those of the output, spent or not -/
theorem CredAt.same {p : Params} {own : Own} {P : List Occ} {ck : CredKey} {cr : Credit} (h : CredAt p own P ck cr) :
    ∃ oc ∈ P, oc.t.id = ck.tx ∧ oc.bm = ck.blk ∧ ∃ o w ch, oc.t.outs[ck.idx]? = some o ∧
      ownerOf own o = some (w, ch) ∧ SameCoin cr (minedCreditOf p oc.t.cb ⟨ck.idx, o, w, ch⟩) := by
  obtain ⟨oc, hoc, h1, h2, o, w, ch, h3, h4, h5⟩ := h.ex
  refine ⟨oc, hoc, h1, h2, o, w, ch, h3, h4, ?_⟩
  rcases h5 with ⟨h5, -⟩ | ⟨dk, -, h5⟩
  · rw [h5]; exact SameCoin.refl _
  · rw [h5]; exact SameCoin.flags _ _ _

/-- THE CREDIT TABLE OF THE BOOKS OF A VALID CHAIN, by key -/
theorem bookOf_credit_value {p : Params} {own : Own} {chain : List Block} (hV : ChainValid own chain)
    {ck : CredKey} {cr : Credit} (h : (bookOf p own chain).credits ck = some cr) :
    CredAt p own (occs chain) ck cr := credAt_of_credInv (credInv_bookOf hV) h

/-- store level: a credit record of a store satisfying `Inv` -/
theorem inv_credit_value {c : Ctx} {s : Store} {chain : List Block} (hI : Inv c s chain)
    (hV : ChainValid c.own chain) {ck : CredKey} {cr : Credit} (h : AMap.get s.credits ck = some cr) :
    CredAt c.p c.own (occs chain) ck cr :=
  bookOf_credit_value hV (by rw [← hI.agree.credits]; exact h)

/-- an occurrence of a chain is a transaction of a block of the chain -/
theorem occ_in_block {chain : List Block} {oc : Occ} (h : oc ∈ occs chain) :
    ∃ b ∈ chain, oc.t ∈ b.txs ∧ oc.bm = ⟨b.height, b.id⟩ := by
  obtain ⟨b, hb, hoc⟩ := mem_occs.1 h
  obtain ⟨m, hm, -, hbm⟩ := mem_occsFrom.1 hoc
  exact ⟨b, hb, List.mem_of_getElem? hm, hbm⟩

theorem occ_of_block_tx {chain : List Block} {b : Block} {t : Tx} (hb : b ∈ chain) (ht : t ∈ b.txs) :
    ∃ oc ∈ occs chain, oc.t = t ∧ oc.bm = ⟨b.height, b.id⟩ := by
  obtain ⟨m, hm⟩ := List.getElem?_of_mem ht
  exact ⟨⟨⟨b.height, b.id⟩, 0 + m, t⟩, mem_occs.2 ⟨b, hb, occsFrom_mem_of_get hm⟩, rfl, rfl⟩

/-- store level, for a transaction `t` of a block `b` of the wallet's chain: a credit record under (t.id, b, j) belongs
    to output `j` of `t`, which pays an owned address, and carries that output's amount, class, script hash, change
    flag and maturity -/
theorem inv_credit_value_block {c : Ctx} {s : Store} {chain : List Block} (hI : Inv c s chain)
    (hV : ChainValid c.own chain) {b : Block} (hb : b ∈ chain) {t : Tx} (ht : t ∈ b.txs) {j : Nat} {bm : BlockMeta}
    {cr : Credit} (h : AMap.get s.credits ⟨t.id, bm, j⟩ = some cr) :
    ∃ o w ch, t.outs[j]? = some o ∧ ownerOf c.own o = some (w, ch) ∧
      SameCoin cr (minedCreditOf c.p t.cb ⟨j, o, w, ch⟩) := by
  obtain ⟨oc, hoc, h1, -, o, w, ch, h3, h4, h5⟩ := (inv_credit_value hI hV h).same
  obtain ⟨oc', hoc', ht', -⟩ := occ_of_block_tx hb ht
  have hn := (glob_bookOf (p := c.p) hV).idsNodup
  have : oc = oc' := occ_eq_of_id hn hoc hoc' (by rw [h1, ht'])
  subst this
  rw [ht'] at h3 h5
  exact ⟨o, w, ch, h3, h4, h5⟩

/-- the credits of a store satisfying `Inv` name transactions of the chain, in their block -/
theorem inv_credit_key {c : Ctx} {s : Store} {chain : List Block} (hI : Inv c s chain)
    (hV : ChainValid c.own chain) {ck : CredKey} {cr : Credit} (h : AMap.get s.credits ck = some cr) :
    ∃ b ∈ chain, ∃ t ∈ b.txs, t.id = ck.tx ∧ ck.blk = ⟨b.height, b.id⟩ ∧ ck.idx < t.outs.length := by
  obtain ⟨oc, hoc, h1, h2, o, w, ch, h3, -⟩ := (inv_credit_value hI hV h).same
  obtain ⟨b, hb, ht, hbm⟩ := occ_in_block hoc
  exact ⟨b, hb, oc.t, ht, h1, by rw [← h2]; exact hbm, (List.getElem?_eq_some_iff.1 h3).1⟩

end MW.Lemmas.Ledger.CredVal
