/-
  C06 deepening (round 4), part 2: THE BRIDGE FOR C07's JOINED IMPORT INVARIANT `IJ`.

  (1) a frame lemma for ARBITRARY stores: `processBlock` — direct extension or reorganisation with any number of
      disconnects and connects — never changes who is ready (`disconnectBlock` only pulls the cursors of importing
      wallets back, `TxStore.Rollback` and `filterBlock` never write the status bucket);
  (2) one block of the node's chain through the persistence model's `opBlock` keeps `IJ` (`ij_processBlock`);
  (3) `Model.Persist.crash` (boot + Start: resync step, fast-forward test, catch-up loop, initTaskChan) on a wallet
      whose store satisfies `IJ` for ANY stored chain `X` succeeds and ends with `IJ` for the node's whole chain.
-/
import MW.Lemmas.Deepen4World
import MW.Lemmas.LedgerStatus
namespace MW.Lemmas.Deepen4
open MW MW.Model.Ledger MW.Model.Persist MW.Spec.Persist MW.Spec.Chain MW.Spec.Books MW.Lemmas.Ledger
  MW.Lemmas.PersistOp MW.Lemmas.PersistFault MW.Lemmas.PersistCrash MW.Lemmas.Deepen3 MW.Lemmas.ImportJoin

-- ------------------------------------------------------------------ (1) the status bucket under Rollback, any store

/-- the wallet-status bucket -/
def stt (s : Store) : AMap.T Wid WStatus := s.status

theorem stt_rollbackAddr (s : Store) (w : Wid) (o : Out) (h : Nat) : stt (rollbackAddr s w o h) = stt s := by
  unfold rollbackAddr
  dsimp only
  split
  · split <;> rfl
  · rfl

theorem stt_rollbackOwnedOut (id : TxId) (blk : BlockMeta) (sb sb' : Store × Bals) (i : Nat) (o : Out) (w : Wid)
    (h : rollbackOwnedOut id blk sb i o w = .ok sb') : stt sb'.1 = stt sb.1 := by
  unfold rollbackOwnedOut at h
  split at h
  · split at h
    · cases h
    · cases h
      exact stt_rollbackAddr _ w o blk.height
  · cases h
    exact stt_rollbackAddr _ w o blk.height

theorem stt_rollbackCbOut (c : Ctx) (id : TxId) (blk : BlockMeta) (acc acc' : (Store × Bals) × List (TxId × Nat))
    (i : Nat) (o : Out) (h : rollbackCbOut c id blk acc i o = .ok acc') : stt acc'.1.1 = stt acc.1.1 := by
  unfold rollbackCbOut at h
  dsimp only at h
  split at h
  · cases h; rfl
  · split at h
    · cases h
    · split at h
      · cases h; rfl
      · simp only [bind, Except.bind] at h
        split at h
        · cases h
        · rename_i sb1 hsb
          have h1 := stt_rollbackOwnedOut _ _ _ _ _ _ _ hsb
          split at h <;> cases h <;> exact h1

theorem stt_rollbackIn (c : Ctx) (id : TxId) (blk : BlockMeta) (sb sb' : Store × Bals) (cur : Nat) (i : Inp)
    (h : rollbackIn c id blk sb cur i = .ok sb') : stt sb'.1 = stt sb.1 := by
  unfold rollbackIn at h
  dsimp only at h
  repeat' (split at h)
  all_goals first
    | (cases h; done)
    | (cases h; rfl)

theorem stt_rollbackOut (c : Ctx) (id : TxId) (blk : BlockMeta) (sb sb' : Store × Bals) (i : Nat) (o : Out)
    (h : rollbackOut c id blk sb i o = .ok sb') : stt sb'.1 = stt sb.1 := by
  unfold rollbackOut at h
  dsimp only at h
  split at h
  · cases h; rfl
  · split at h
    · cases h
    · split at h
      · cases h; rfl
      · simp only [bind, Except.bind] at h
        split at h
        · cases h
        · rename_i sb1 hsb
          have h1 := stt_rollbackOwnedOut _ _ _ _ _ _ _ hsb
          split at h <;> cases h <;> exact h1

theorem stt_rollbackTx (c : Ctx) (s : Store) (bals : Bals) (blk : BlockMeta) (id : TxId)
    (r : Store × Bals × List (TxId × Nat)) (h : rollbackTx c s bals blk id = .ok r) : stt r.1 = stt s := by
  unfold rollbackTx at h
  split at h
  · cases h; rfl
  · split at h
    · cases h
    · dsimp only at h
      split at h
      · simp only [bind, Except.bind] at h
        split at h
        · cases h
        · rename_i r1 hr1
          cases h
          exact foldIdxM_frame (rollbackCbOut c id blk) (fun a => stt a.1.1)
            (fun b i a b' hb => stt_rollbackCbOut c id blk b b' i a hb) _ _ _ _ hr1
      · simp only [bind, Except.bind] at h
        split at h
        · cases h
        · rename_i sb1 hsb1
          split at h
          · cases h
          · rename_i sb2 hsb2
            cases h
            have h1 := foldIdxM_frame (rollbackIn c id blk) (fun a => stt a.1)
              (fun b i a b' hb => stt_rollbackIn c id blk b b' i a hb) _ _ _ _ hsb1
            have h2 := foldIdxM_frame (rollbackOut c id blk) (fun a => stt a.1)
              (fun b i a b' hb => stt_rollbackOut c id blk b b' i a hb) _ _ _ _ hsb2
            exact h2.trans h1

theorem stt_rollbackBlockAt (c : Ctx) (acc acc' : RbAcc) (cur : Nat) (h : rollbackBlockAt c acc cur = .ok acc') :
    stt acc'.s = stt acc.s := by
  unfold rollbackBlockAt at h
  split at h
  · cases h; rfl
  · have := foldlM_frame _ (fun (a : RbAcc) => stt a.s) ?_ _ _ _ h
    · exact this
    intro a id a' ha
    simp only [bind, Except.bind] at ha
    split at ha
    · cases ha
    · rename_i r hr
      obtain ⟨s', bals', rem⟩ := r
      cases ha
      exact stt_rollbackTx c _ _ _ _ _ hr

theorem stt_foldl {α : Type} (f : Store → α → Store) (hf : ∀ s a, stt (f s a) = stt s) (l : List α) (s : Store) :
    stt (l.foldl f s) = stt s := by
  induction l generalizing s with
  | nil => rfl
  | cons a l ih => rw [List.foldl_cons, ih, hf]

/-- TxStore.Rollback never writes the wallet-status bucket — for ANY store -/
theorem rollback_status (c : Ctx) (s s' : Store) (height : Nat) (h : rollback c s height = .ok s') :
    s'.status = s.status := by
  unfold rollback at h
  simp only [bind, Except.bind] at h
  split at h
  · cases h
  · rename_i acc hacc
    cases h
    have h1 : stt acc.s = stt s :=
      foldlM_frame (rollbackBlockAt c) (fun (a : RbAcc) => stt a.s) (fun b a b' hb => stt_rollbackBlockAt c b b' a hb) _ _ _ hacc
    have h2 : stt (acc.heights.foldl (fun s h => { s with blocks := AMap.erase s.blocks h }) acc.s) = stt acc.s :=
      stt_foldl (fun s h => { s with blocks := AMap.erase s.blocks h }) (fun _ _ => rfl) _ _
    have h3 := stt_foldl (purgeSpenders c.own) (fun s a => (minedEq_purgeSpenders c.own s a).status) acc.cb
      (acc.heights.foldl (fun s h => { s with blocks := AMap.erase s.blocks h }) acc.s)
    exact (h3.trans h2).trans h1

-- ------------------------------------------------------------------ readiness through the loops of reorg, any store

/-- disconnectBlock keeps readiness — for ANY store (it pulls back the cursors of IMPORTING wallets only) -/
theorem disconnectBlock_ready (c : Ctx) (s s' : Store) (height : Nat) (h : disconnectBlock c s height = .ok s') :
    ∀ l, readyWallets s' l = readyWallets s l := by
  unfold disconnectBlock at h
  split at h
  · cases h
  · split at h
    · cases h; intro l; rfl
    · simp only [bind, Except.bind] at h
      split at h
      · cases h
      · rename_i s1 hs1
        cases h
        intro l
        have h1 := rollback_status c s s1 height hs1
        have h2 : (resetSyncedTo s1 (height - 1)).status = s.status := h1
        exact (readyWallets_map (resetSyncedTo s1 (height - 1)) (height - 1) l).trans (readyWallets_congr h2 l)

theorem disconnectDown_ready (c : Ctx) (nbH : Nat) : ∀ (fuel : Nat) (s : Store) (curH : Nat) (rolled : List Nat)
    (s' : Store) (curH' : Nat) (rolled' : List Nat),
    disconnectDown c nbH fuel s curH rolled = .ok (s', curH', rolled') → ∀ l, readyWallets s' l = readyWallets s l := by
  intro fuel
  induction fuel with
  | zero =>
    intro s curH rolled s' curH' rolled' h l
    cases h; rfl
  | succ fuel ih =>
    intro s curH rolled s' curH' rolled' h l
    unfold disconnectDown at h
    split at h
    · simp only [bind, Except.bind] at h
      split at h
      · cases h
      · rename_i s1 hs1
        exact (ih s1 _ _ s' curH' rolled' h l).trans (disconnectBlock_ready c s s1 curH hs1 l)
    · cases h; rfl

theorem walkBack_ready (c : Ctx) : ∀ (fuel : Nat) (w w' : Walk) (done : Bool), walkBack c fuel w = .ok (w', done) →
    ∀ l, readyWallets w'.s l = readyWallets w.s l := by
  intro fuel
  induction fuel with
  | zero => intro w w' done h l; cases h; rfl
  | succ fuel ih =>
    intro w w' done h l
    unfold walkBack at h
    split at h
    · simp only [bind, Except.bind] at h
      split at h
      · cases h
      · rename_i s1 hs1
        split at h
        · cases h
        · split at h
          · cases h
          · split at h
            · cases h
            · exact (ih _ _ _ h l).trans (disconnectBlock_ready c _ s1 _ hs1 l)
    · cases h; rfl

theorem reorgDisconnect_ready (c : Ctx) (s : Store) (best : BlockMeta) (nb : Block) (tc : List Block)
    (s1 : Store) (rolled : List Nat) (tc1 : List Block)
    (h : reorgDisconnect c s best nb tc = .ok (s1, rolled, tc1)) : ∀ l, readyWallets s1 l = readyWallets s l := by
  intro l
  unfold reorgDisconnect at h
  split at h
  · cases h; rfl
  · simp only [bind, Except.bind] at h
    split at h
    · cases h
    · rename_i r hr
      obtain ⟨sd, curH, rolledD⟩ := r
      have hd := disconnectDown_ready c nb.height _ _ _ _ _ _ _ hr l
      dsimp only at h
      split at h
      · cases h
      · split at h
        · cases h; exact hd
        · split at h
          · cases h
          · split at h
            · cases h
            · split at h
              · cases h
              · rename_i wd hwd
                obtain ⟨w, done⟩ := wd
                dsimp only at h
                split at h
                · cases h
                · split at h
                  · cases h
                  · rename_i s2 hs2
                    cases h
                    have hw := walkBack_ready c _ _ _ _ hwd l
                    exact ((disconnectBlock_ready c _ _ _ hs2 l).trans hw).trans hd

theorem connectAll_ready (c : Ctx) (ready : List Wid) : ∀ (tc : List Block) (s : Store) (added : List (Nat × List TxId))
    (s' : Store) (added' : List (Nat × List TxId)),
    connectAll c ready tc s added = .ok (s', added') → s'.status = s.status := by
  intro tc
  induction tc with
  | nil => intro s added s' added' h; cases h; rfl
  | cons b rest ih =>
    intro s added s' added' h
    unfold connectAll at h
    simp only [bind, Except.bind] at h
    split at h
    · cases h
    · rename_i r hr
      obtain ⟨s1, conf⟩ := r
      exact (ih _ _ _ _ h).trans (MW.Lemmas.LedgerStatus.filterBlock_status c s s1 ready b conf hr)

theorem reorg_ready (c : Ctx) (s s' : Store) (best : BlockMeta) (b : Block) (ro : List Nat)
    (ad : List (Nat × List TxId)) (h : reorg c s best b = .ok (s', ro, ad)) :
    ∀ l, readyWallets s' l = readyWallets s l := by
  intro l
  unfold reorg at h
  simp only [bind, Except.bind] at h
  split at h
  · cases h
  · rename_i r1 hr1
    obtain ⟨nb, tc⟩ := r1
    dsimp only at h
    split at h
    · cases h
    · rename_i r2 hr2
      obtain ⟨s1, rolled, tc1⟩ := r2
      dsimp only at h
      split at h
      · cases h
      · rename_i r3 hr3
        obtain ⟨s3, added⟩ := r3
        cases h
        exact (readyWallets_congr (connectAll_ready c _ tc1 _ [] _ _ hr3) l).trans
          (reorgDisconnect_ready c s best nb tc _ _ tc1 hr2 l)

/-- **(1) THE FRAME LEMMA, ANY STORE**: processing a block — direct extension, reorganisation with any number of
    disconnects and connects, stale / duplicate / failing notification — never changes who is ready -/
theorem processBlock_ready (c : Ctx) (s : Store) (v : Vol) (b : Block) :
    ∀ l, readyWallets (processBlock c s v b).1 l = readyWallets s l := by
  intro l
  by_cases hext : b.prev = v.best.hash
  · exact readyWallets_congr (MW.Lemmas.LedgerStatus.processBlock_extend_status c s v b hext) l
  · unfold processBlock
    simp only [hext, if_false]
    split
    · rfl
    · rename_i s' rolled added hr
      exact reorg_ready c s s' v.best b rolled added hr l

-- ------------------------------------------------------------------ (2) one block through the persistence model

/-- **(2)** one block of the node's chain, processed by the persistence model's `opBlock` on a store that follows ANY
    chain `X` in the sense of C07's joined invariant `IJ`: succeeds with one commit, keeps keystore, key cache and task
    queue, and reaches `IJ` for the node's chain up to that block; nobody's readiness changes -/
theorem block_ij {st : Static} {G : Block} (E : StaticOK st G) {ks : AMap.T Wid KsRec} {chain X : List Block}
    (hN : ChainOK (lenv st ks) G chain) (hX : ChainOK (lenv st ks) G X) (n : Nat) {P : PStore} {V : PVol} {w : Wid}
    (hks : P.ks = ks) (hkeys : V.keys = ks) (hKN : KeysNodup (ownOf ks)) (hw : w ∈ walletsOf ks)
    (hI : IJ ((lenv st ks).ctx chain) w P.led X) (hv : V.led.best = tipMeta X)
    {b : Block} (hb : chain[b.height]? = some b) :
    ((opBlock (envAt st chain) n b).run none P V).ok = true ∧
    ((opBlock (envAt st chain) n b).run none P V).commits = 1 ∧
    ((opBlock (envAt st chain) n b).run none P V).P.ks = ks ∧
    ((opBlock (envAt st chain) n b).run none P V).V.keys = ks ∧
    ((opBlock (envAt st chain) n b).run none P V).V.tasks = V.tasks ∧
    IJ ((lenv st ks).ctx chain) w ((opBlock (envAt st chain) n b).run none P V).P.led (chain.take (b.height + 1)) ∧
    ((opBlock (envAt st chain) n b).run none P V).V.led.best = tipMeta (chain.take (b.height + 1)) ∧
    (∀ l, readyWallets ((opBlock (envAt st chain) n b).run none P V).P.led l = readyWallets P.led l) := by
  have hc : ctxOf (envAt st chain) V = (lenv st ks).ctx chain := by rw [ctx_eq, hkeys]
  have hbk : AMap.get (lenv st ks).known b.id = some b := hN.known b (List.mem_of_getElem? hb)
  have hR := reorgHyp_of hN hX
  obtain ⟨s', v', h1, h2, h3⟩ := ij_processBlock (c := (lenv st ks).ctx chain) (w := w) (S := X) hKN hw
    hN.good hX.good hR.genesis hR.inj hN.valid hX.valid hX.known (s := P.led) (v := V.led) (b := b) hI hb hv
    (hgen_of (E.envHyp ks) hX hbk)
  have hrd := processBlock_ready ((lenv st ks).ctx chain) P.led V.led b
  obtain ⟨e1, e2, e3⟩ := opBlock_processBlock (envAt st chain) n b P V
  rw [hc] at e1 e2 e3
  rw [h1] at e1 e2 e3 hrd
  refine ⟨e3, ?_, ?_, ?_, ?_, ?_, ?_, ?_⟩
  · rw [run_commits, e3]; rfl
  · rw [e1]; exact hks
  · rw [e2]; exact hkeys
  · rw [e2]
  · rw [e1]; exact h2
  · rw [e2]; exact h3
  · rw [e1]; exact hrd

-- ------------------------------------------------------------------ (3) the bridge

theorem ij_syncedTo {c : Ctx} {w : Wid} {s : Store} {X : List Block} (h : IJ c w s X) : s.syncedTo + 1 = X.length := by
  rcases h with ⟨_, _, _, _, _, _, hS, _, _⟩ | ⟨_, hI, _⟩
  · exact hS.syncedTo
  · exact hI.syncedTo

/-- in both cases of `IJ` at least one wallet is ready (left: by hypothesis; right: `w` itself) -/
theorem ij_ready_ne {c : Ctx} {w : Wid} {s : Store} {X : List Block} (hw : w ∈ c.wallets) (h : IJ c w s X) :
    (readyWallets s c.wallets).isEmpty = false := by
  rcases h with ⟨_, _, _, _, _, _, _, _, hne⟩ | ⟨hst, _, _⟩
  · exact hne
  · have : (readyWallets s c.wallets).contains w = true :=
      (ready_contains_iff s c.wallets w).2 ⟨hw, by rw [hst]; rfl⟩
    cases hr1 : readyWallets s c.wallets with
    | nil => rw [hr1] at this; cases this
    | cons _ _ => rfl

/-- the state of Start between two steps, for `IJ`: the store follows the first `h+1` blocks of the node's chain, the
    tip copy is block `h`, the key cache is the stored keystore, readiness is what it was -/
structure SInvJ (st : Static) (ks : AMap.T Wid KsRec) (chain : List Block) (w : Wid) (s0 : Store) (h : Nat) (P : PStore)
    (V : PVol) : Prop where
  pks : P.ks = ks
  vkeys : V.keys = ks
  ij : IJ ((lenv st ks).ctx chain) w P.led (chain.take (h + 1))
  best : V.led.best = tipMeta (chain.take (h + 1))
  lt : h < chain.length
  ready : ∀ ws, readyWallets P.led ws = readyWallets s0 ws

theorem SInvJ.syncedTo {st : Static} {ks : AMap.T Wid KsRec} {chain : List Block} {w : Wid} {s0 : Store} {h : Nat}
    {P : PStore} {V : PVol} (hS : SInvJ st ks chain w s0 h P V) : P.led.syncedTo = h := by
  have := ij_syncedTo hS.ij
  rw [List.length_take] at this
  have := hS.lt
  omega

/-- `block_ij` in the shape the loops of Start use -/
theorem start_block_ij {st : Static} {G : Block} (E : StaticOK st G) {ks : AMap.T Wid KsRec} {chain X : List Block}
    (hN : ChainOK (lenv st ks) G chain) (hX : ChainOK (lenv st ks) G X) (n : Nat) {s0 : Store} {P : PStore} {V : PVol}
    {w : Wid} (hks : P.ks = ks) (hkeys : V.keys = ks) (hKN : KeysNodup (ownOf ks)) (hw : w ∈ walletsOf ks)
    (hI : IJ ((lenv st ks).ctx chain) w P.led X) (hv : V.led.best = tipMeta X)
    (hr : ∀ ws, readyWallets P.led ws = readyWallets s0 ws) {b : Block} {h : Nat} (hb : chain[h]? = some b) :
    ((opBlock (envAt st chain) n b).run none P V).ok = true ∧
    ((opBlock (envAt st chain) n b).run none P V).commits = 1 ∧
    SInvJ st ks chain w s0 h ((opBlock (envAt st chain) n b).run none P V).P
      ((opBlock (envAt st chain) n b).run none P V).V := by
  have hbh : b.height = h := hN.good.height_at hb
  have hlt : h < chain.length := (List.getElem?_eq_some_iff.1 hb).1
  obtain ⟨o1, o2, o3, o4, _, o6, o7, o8⟩ := block_ij E hN hX n hks hkeys hKN hw hI hv (b := b) (by rw [hbh]; exact hb)
  rw [hbh] at o6 o7
  exact ⟨o1, o2, o3, o4, o6, o7, hlt, fun ws => (o8 ws).trans (hr ws)⟩

/-- the catch-up loop of Start for `IJ`: no step fails; the fuel `tipHeight + 1` of the code is enough -/
theorem catchUp_reaches_ij {st : Static} {G : Block} (E : StaticOK st G) {ks : AMap.T Wid KsRec} {chain : List Block}
    (hN : ChainOK (lenv st ks) G chain) (n : Nat) {w : Wid} {s0 : Store} (hKN : KeysNodup (ownOf ks))
    (hw : w ∈ walletsOf ks) : ∀ (fuel h : Nat) (P : PStore) (V : PVol) (k0 : Nat), SInvJ st ks chain w s0 h P V →
      chain.length + 1 ≤ fuel + (h + 1) →
      (catchUp (envAt st chain) n fuel (h + 1) P V k0).ok = true ∧
      (catchUp (envAt st chain) n fuel (h + 1) P V k0).commits = k0 + (chain.length - 1 - h) ∧
      SInvJ st ks chain w s0 (chain.length - 1) (catchUp (envAt st chain) n fuel (h + 1) P V k0).P
        (catchUp (envAt st chain) n fuel (h + 1) P V k0).V := by
  intro fuel
  induction fuel with
  | zero =>
    intro h P V k0 hS hf
    have := hS.lt
    omega
  | succ fuel ih =>
    intro h P V k0 hS hf
    have htip : (envAt st chain).node.tipHeight = chain.length - 1 := rfl
    unfold catchUp
    by_cases hgt : h + 1 > (envAt st chain).node.tipHeight
    · rw [if_pos hgt]
      have hl := hS.lt
      have he : chain.length - 1 = h := by rw [htip] at hgt; omega
      rw [he]
      exact ⟨rfl, by simp, hS⟩
    · rw [if_neg hgt]
      have hlt : h + 1 < chain.length := by rw [htip] at hgt; have := hS.lt; omega
      have hb : (envAt st chain).node.blockAt (h + 1) = some (chain[h + 1]'hlt) := List.getElem?_eq_getElem hlt
      simp only [hb]
      obtain ⟨o1, o2, o3⟩ := start_block_ij E hN (hN.take h) n hS.pks hS.vkeys hKN hw hS.ij hS.best hS.ready
        (b := chain[h + 1]'hlt) (h := h + 1) (List.getElem?_eq_getElem hlt)
      rw [if_pos o1]
      obtain ⟨i1, i2, i3⟩ := ih (h + 1) _ _ (k0 + ((opBlock (envAt st chain) n (chain[h + 1]'hlt)).run none P V).commits)
        o3 (by omega)
      refine ⟨i1, ?_, i3⟩
      rw [i2, o2]
      omega

/-- what boot reconstructs from a store that follows `X` (only the height table and synced-to are read) -/
theorem boot_best_ij {c : Ctx} {w : Wid} {P : PStore} {X : List Block} (hI : IJ c w P.led X) (hG : GoodChain X) :
    (bootVol P).led.best = tipMeta X ∧ ∃ x, X[P.led.syncedTo]? = some x ∧ (bootVol P).led.best.hash = x.id ∧
      P.led.syncedTo + 1 = X.length := by
  obtain ⟨x, hx, ht⟩ := tipMeta_good hG
  have hlen : P.led.syncedTo + 1 = X.length := ij_syncedTo hI
  have hpos := hG.length_pos
  have he : P.led.syncedTo = X.length - 1 := by omega
  have hsync : AMap.get P.led.sync P.led.syncedTo = some x.id := by
    rw [ij_sync hI, syncOf, he, hx]; rfl
  have hb : (bootVol P).led.best = ⟨P.led.syncedTo, x.id⟩ := by
    simp [bootVol, hsync]
  refine ⟨by rw [hb, ht, he], x, by rw [he]; exact hx, by rw [hb], hlen⟩

/-- Start's resync step on a freshly booted wallet whose store follows ANY stored chain `X` (`IJ`): it succeeds and
    leaves the wallet on the node's chain -/
theorem resync_reaches_ij {st : Static} {G : Block} (E : StaticOK st G) {ks : AMap.T Wid KsRec} {chain X : List Block}
    (hN : ChainOK (lenv st ks) G chain) (hX : ChainOK (lenv st ks) G X) (n : Nat) {P : PStore} {w : Wid}
    (hks : P.ks = ks) (hKN : KeysNodup (ownOf ks)) (hw : w ∈ walletsOf ks)
    (hI : IJ ((lenv st ks).ctx chain) w P.led X) :
    (resync (envAt st chain) n P (bootVol P)).ok = true ∧ (resync (envAt st chain) n P (bootVol P)).commits ≤ 1 ∧
    ∃ h, SInvJ st ks chain w P.led h (resync (envAt st chain) n P (bootVol P)).P
      (resync (envAt st chain) n P (bootVol P)).V := by
  obtain ⟨hbest, x, hxs, hxid, hlen⟩ := boot_best_ij hI hX.good
  have hkeys : (bootVol P).keys = ks := hks
  have hposN := hN.good.length_pos
  have htip : (envAt st chain).node.tipHeight = chain.length - 1 := rfl
  unfold resync
  by_cases h0 : P.led.syncedTo = 0
  · rw [if_pos h0]
    have h1 : X.take 1 = chain.take 1 := (reorgHyp_of hN hX).take1
    have h2 : X.take 1 = X := List.take_of_length_le (by omega)
    refine ⟨rfl, Nat.zero_le _, 0, hks, hkeys, ?_, ?_, hposN, fun _ => rfl⟩
    · rw [← h1, h2]; exact hI
    · rw [← h1, h2]; exact hbest
  · rw [if_neg h0]
    have hat : min P.led.syncedTo (envAt st chain).node.tipHeight < chain.length := by
      rw [htip]; have := Nat.min_le_right P.led.syncedTo (chain.length - 1); omega
    have hb : (envAt st chain).node.blockAt (min P.led.syncedTo (envAt st chain).node.tipHeight) =
        some (chain[min P.led.syncedTo (envAt st chain).node.tipHeight]'hat) := List.getElem?_eq_getElem hat
    simp only [hb]
    by_cases hst : min P.led.syncedTo (envAt st chain).node.tipHeight < P.led.syncedTo ∨
        (chain[min P.led.syncedTo (envAt st chain).node.tipHeight]'hat).id ≠ (bootVol P).led.best.hash
    · rw [if_pos hst]
      obtain ⟨o1, o2, o3⟩ := start_block_ij E hN hX n hks hkeys hKN hw hI hbest (s0 := P.led) (fun _ => rfl)
        (b := chain[min P.led.syncedTo (envAt st chain).node.tipHeight]'hat) (List.getElem?_eq_getElem hat)
      exact ⟨o1, by rw [o2]; exact Nat.le_refl 1, _, o3⟩
    · rw [if_neg hst]
      simp only [not_or, Nat.not_lt, ne_eq, Decidable.not_not] at hst
      obtain ⟨hge, hid⟩ := hst
      have hmin : min P.led.syncedTo (envAt st chain).node.tipHeight = P.led.syncedTo :=
        Nat.le_antisymm (Nat.min_le_left _ _) hge
      have hlt : P.led.syncedTo < chain.length := by rw [← hmin]; exact hat
      have hy : chain[P.led.syncedTo]? = some (chain[min P.led.syncedTo (envAt st chain).node.tipHeight]'hat) := by
        rw [List.getElem?_eq_getElem hlt]; congr 1; simp only [hmin]
      have hinj : IdInj (X ++ chain) := (reorgHyp_of hN hX).inj
      have hpre := prefix_of_id hX.good hN.good hinj P.led.syncedTo x _ hxs hy (by rw [hid, hxid])
      have hSt : X.take (P.led.syncedTo + 1) = X := List.take_of_length_le (by omega)
      rw [hSt] at hpre
      refine ⟨rfl, Nat.zero_le _, P.led.syncedTo, hks, hkeys, ?_, ?_, hlt, fun _ => rfl⟩
      · rw [← hpre]; exact hI
      · rw [← hpre]; exact hbest

/-- **(3) THE BRIDGE FOR `IJ`**: a process crash of a wallet whose store follows ANY stored chain `X` in the sense of
    C07's joined import invariant (wallet `w` being restored with the other wallets followed live, or `w` ready and
    C01's `Inv`): boot + Start succeed — the resync step, NO fast-forward (a ready wallet exists), the catch-up loop
    within its fuel, initTaskChan — and end with `IJ` for the node's WHOLE chain; nobody's readiness changes -/
theorem crash_reaches_ij {st : Static} {G : Block} (E : StaticOK st G) {ks : AMap.T Wid KsRec} {chain X : List Block}
    (hN : ChainOK (lenv st ks) G chain) (hX : ChainOK (lenv st ks) G X) (n : Nat) {P : PStore} {w : Wid}
    (hks : P.ks = ks) (hKN : KeysNodup (ownOf ks)) (hw : w ∈ walletsOf ks)
    (hI : IJ ((lenv st ks).ctx chain) w P.led X) :
    (Model.Persist.crash (envAt st chain) n P).ok = true ∧
    (Model.Persist.crash (envAt st chain) n P).P.ks = ks ∧
    (Model.Persist.crash (envAt st chain) n P).V.keys = ks ∧
    IJ ((lenv st ks).ctx chain) w (Model.Persist.crash (envAt st chain) n P).P.led chain ∧
    (Model.Persist.crash (envAt st chain) n P).V.led.best = tipMeta chain ∧
    (Model.Persist.crash (envAt st chain) n P).V.tasks = requeue (Model.Persist.crash (envAt st chain) n P).P ∧
    (∀ l, readyWallets (Model.Persist.crash (envAt st chain) n P).P.led l = readyWallets P.led l) := by
  have hne : (readyWallets P.led (walletsOf ks)).isEmpty = false := ij_ready_ne (c := (lenv st ks).ctx chain) hw hI
  obtain ⟨r1, _, h, hS0⟩ := resync_reaches_ij E hN hX n hks hKN hw hI
  have hsync := hS0.syncedTo
  have hready : (readyWallets (resync (envAt st chain) n P (bootVol P)).P.led
      (walletsOf (resync (envAt st chain) n P (bootVol P)).V.keys)).isEmpty = false := by
    rw [hS0.ready, hS0.vkeys]; exact hne
  have hposN := hN.good.length_pos
  obtain ⟨c1, _, c3⟩ := catchUp_reaches_ij E hN n hKN hw ((envAt st chain).node.tipHeight + 1) h _ _
    (resync (envAt st chain) n P (bootVol P)).commits hS0 (by
      have : (envAt st chain).node.tipHeight = chain.length - 1 := rfl
      omega)
  have hstart : start (envAt st chain) n P (bootVol P) =
      { catchUp (envAt st chain) n ((envAt st chain).node.tipHeight + 1) (h + 1)
          (resync (envAt st chain) n P (bootVol P)).P (resync (envAt st chain) n P (bootVol P)).V
          (resync (envAt st chain) n P (bootVol P)).commits with
        V := { (catchUp (envAt st chain) n ((envAt st chain).node.tipHeight + 1) (h + 1)
          (resync (envAt st chain) n P (bootVol P)).P (resync (envAt st chain) n P (bootVol P)).V
          (resync (envAt st chain) n P (bootVol P)).commits).V with
          tasks := requeue (catchUp (envAt st chain) n ((envAt st chain).node.tipHeight + 1) (h + 1)
          (resync (envAt st chain) n P (bootVol P)).P (resync (envAt st chain) n P (bootVol P)).V
          (resync (envAt st chain) n P (bootVol P)).commits).P } } := by
    unfold start
    simp only [r1, Bool.not_true, Bool.false_eq_true, if_false]
    unfold startCore
    simp only [hready, Bool.not_false, Bool.not_true, Bool.false_and, Bool.false_eq_true, if_false, hsync, c1]
  have htake : chain.take (chain.length - 1 + 1) = chain := List.take_of_length_le (by omega)
  have hij := c3.ij
  have hbest := c3.best
  rw [htake] at hij hbest
  unfold Model.Persist.crash
  rw [hstart]
  exact ⟨c1, c3.pks, c3.vkeys, hij, hbest, rfl, c3.ready⟩

end MW.Lemmas.Deepen4
