/-
  C09 Round 7, examples for PendHistNotifyDom: (1) the G-B1-B2 → G-B1-B2x notification of Round 6 meets the residue
  `NotifyRes` (so `NotifyDom` is DERIVED for it: `exRefinesRes`); (2) each of the two semantic residue clauses is necessary:
  the same-coinbase move of Round 6c violates `cbfork` and nothing else; a new branch that double-spends a candidate's
  input in an earlier block (`dbl_new_branch`) violates `nodbl` and nothing else, and one move ≠ the composition there.
-/
import MW.Lemmas.PendHistNotifyDom
import MW.Lemmas.PendHistNotifySpecEx
namespace MW.Lemmas.PendHist.NotifyDomD
open MW MW.Model.Ledger MW.Spec.Pending MW.Lemmas.LedgerPending MW.Lemmas.Ledger MW.Lemmas.PendHist
open MW.Lemmas.PendHist.Cred MW.Lemmas.PendHist.CredRb MW.Lemmas.PendHist.Notify MW.Lemmas.PendHist.Compose
open MW.Lemmas.PendHist.NotifySpec

theorem exNotifyResV : NotifyRes [exB2] [exB2x] (exV.sp.pend ++ backOf exE.env [exB2]) :=
  ⟨by decide, by decide, by decide⟩

/-- both branches of the instance, from its run inside `HOK` -/
theorem exBranches : BranchOK exE [exG, exB1] [exB2] ∧ NewOK exE [exG, exB1] [exB2x] :=
  trace_branches exV exHInvCV exBestV exTraceD exTraceC [exG, exB1] [exB2] exChainV rfl exDomainV

/-- the conclusion of `trace_refines_res` on the instance: `NotifyDom` is derived, not assumed -/
theorem exRefinesRes :
    NotifyDom exE.env [exG, exB1] [exB2] [exB2x] exV.sp.pend ∧
    Inv (exE.ctx exV.node) exS7 ([exG, exB1] ++ [exB2x]) ∧
    PendRel exRankH exS7 (onChainMoved exE.env ([exG, exB1] ++ [exB2]) ([exG, exB1] ++ [exB2x]) exV.sp.pend) ∧
    CredRel exE.env exS7 (onChainMoved exE.env ([exG, exB1] ++ [exB2]) ([exG, exB1] ++ [exB2x]) exV.sp.pend) :=
  trace_refines_res exV exHInvCV exBestV exTraceD exTraceC [exG, exB1] [exB2] exChainV rfl exDomainV exNotifyResV

/-- the same-coinbase move (Round 6c; one move ≠ composition: `sc_same_coinbase`) violates `cbfork` and ONLY `cbfork` -/
theorem sc_res_only_cbfork :
    (∀ x ∈ scOld, ∀ y ∈ scNew, y.id ≠ x.id) ∧
    (∀ k, k ≤ scNew.length → ∀ p ∈ [scP, scT] ++ backOf scE scOld, onChain (scNew.take k) p.id = true →
      conflictedBy (scNew.take k) p = false) ∧
    ¬ (∀ x ∈ scOld, ∀ u ∈ x.txs, u.cb = true → onChain scNew u.id = false) := by decide

/-  G is extended (no block leaves) by B1x(U spends X:0)-B2x(P spends X:0 as well): an INVALID new branch.  P and its child T
    are pending.  One move: P is on the new chain, T stays (its parent is confirmed).  Composition: connecting B1x drops P
    (conflict) and T with it; B2x then confirms P — T is gone. -/
def dbU : Tx := ⟨"U", false, [⟨"X", 0, 0⟩], [⟨"X2", 400, .std⟩]⟩
def dbP : Tx := ⟨"P", false, [⟨"X", 0, 0⟩], [⟨"A1", 400, .std⟩]⟩
def dbT : Tx := ⟨"T", false, [⟨"P", 0, 0⟩], [⟨"A1", 300, .std⟩]⟩
def dbNew : List Block := [⟨"B1x", "G", 1, [dbU]⟩, ⟨"B2x", "B1x", 2, [dbP]⟩]
def dbE : Spec.Pending.Env := { own := cxE.own, src := fun id => [dbU, dbP, dbT].find? (fun t => t.id = id) }

theorem dbl_new_branch :
    (onChainMoved dbE ([scG] ++ []) ([scG] ++ dbNew) [dbP, dbT]).map (·.id) = ["T"] ∧
    (connFold dbE [scG] dbNew (discFold dbE [scG] [] ([scG] ++ [], [dbP, dbT]))).2.map (·.id) = [] := by decide

/-- that move violates `nodbl` and ONLY `nodbl` -/
theorem dbl_res_only_nodbl :
    (∀ x ∈ ([] : List Block), ∀ y ∈ dbNew, y.id ≠ x.id) ∧
    (∀ x ∈ ([] : List Block), ∀ u ∈ x.txs, u.cb = true → onChain dbNew u.id = false) ∧
    ¬ (∀ k, k ≤ dbNew.length → ∀ p ∈ [dbP, dbT] ++ backOf dbE [], onChain (dbNew.take k) p.id = true →
      conflictedBy (dbNew.take k) p = false) := by decide

/-- hence it is outside `NotifyDom` -/
theorem dbl_not_notifyDom : ¬ NotifyDom dbE [scG] [] dbNew [dbP, dbT] := by
  intro D
  have h := notify_compose dbE [scG] [] dbNew [dbP, dbT] D dbT
  revert h
  decide

end MW.Lemmas.PendHist.NotifyDomD
