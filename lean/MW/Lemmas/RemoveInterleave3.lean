/-
  C08, removal INTERLEAVED with follower events — the extension step of phase 2.
    `phase2_notify_ext`  between two removal steps the node announces ONE MORE block on top of the chain the follower
                         stored: the database transaction succeeds (simulation of the ghost store's `filterBlock`:
                         `MW.Lemmas.RemoveSim.filterBlock_sim`) and the in-progress invariant holds for the longer chain
    `DomB`               histories: any announced node state before the first removal step, extensions after it
    `remove_interleaved_ext`
-/
import MW.Lemmas.RemoveInterleave2
import MW.Lemmas.RemoveSim
import MW.Lemmas.LedgerReorg2
import MW.Lemmas.LedgerNode
namespace MW.Lemmas.RemoveInterleave
open MW MW.Model.Ledger MW.Model.Remove MW.Spec.Chain MW.Spec.Books MW.Lemmas.Ledger MW.Lemmas.RemoveProj
  MW.Lemmas.RemoveInv MW.Lemmas.RemoveMain MW.Lemmas.RemoveUpper MW.Lemmas.RemoveJoin MW.Lemmas.RemoveGlue
  MW.Lemmas.RemoveFlagged MW.Lemmas.ImportReorg MW.Lemmas.ImportJoin MW.Lemmas.RemoveChar MW.Lemmas.RemoveStep
  MW.Lemmas.RemoveBooks MW.Lemmas.RemoveSim

-- ------------------------------------------------------------------ `SubG` is `RemoveSim.Sub`

theorem sub_of_subG {ads : List Addr} {g s : Store} (h : SubG ads g s) : Sub ads g s :=
  ⟨h.unspent, h.game, h.balance, h.sync, h.syncedTo, h.status, h.credits, h.debits, h.txrecs, h.addrs⟩

theorem subG_of_sub {ads : List Addr} {g s : Store} (h : Sub ads g s) : SubG ads g s :=
  ⟨h.unspent, h.game, h.balance, h.sync, h.syncedTo, h.status, h.addrs, h.credits, h.debits, h.txrecs⟩

-- ------------------------------------------------------------------ small facts

/-- a transaction of a chain sits in a block below the chain's length -/
theorem occ_height_lt {X : List Block} (hH : HeightsOK X) {oc : Occ} (h : oc ∈ occs X) : oc.bm.height < X.length := by
  obtain ⟨b', hb', hbm⟩ := mem_occs_height h
  obtain ⟨i, hi⟩ := List.getElem?_of_mem hb'
  have := hH i b' hi
  rw [hbm]
  show b'.height < _
  rw [this]
  exact (List.getElem?_eq_some_iff.1 hi).1

theorem blockRecOf_none {has : TxId × BlockMeta → Bool} {X : List Block} {h : Nat} (hh : X.length ≤ h) :
    blockRecOf has X h = none := by
  unfold blockRecOf
  rw [List.getElem?_eq_none hh]

/-- the books of a longer chain have the tx records of the old blocks -/
theorem bookOf_snoc_txrecs (p : Params) (own : Own) (X : List Block) (b : Block) (k : TxId × BlockMeta)
    (hk : k.2 ≠ ⟨b.height, b.id⟩) : (bookOf p own (X ++ [b])).txrecs k = (bookOf p own X).txrecs k := by
  rw [bookOf_snoc]
  apply MW.Lemmas.Ledger.fold_txrecs_keep
  intro oc hoc he
  apply hk
  rw [← he]
  exact mem_occsFrom_bm hoc

theorem tipMeta_snoc (X : List Block) (b : Block) : tipMeta (X ++ [b]) = ⟨b.height, b.id⟩ := by
  unfold tipMeta
  simp

/-- the extension branch of processConnectedBlock -/
theorem processBlock_ext {c : Ctx} {s s' : Store} {v : Vol} {b : Block} {conf : List TxId}
    (hp : b.prev = v.best.hash) (h : filterBlock c s (readyWallets s c.wallets) b = .ok (s', conf)) :
    ∃ v', processBlock c s v b = (s', v', true) ∧ v'.best = ⟨b.height, b.id⟩ := by
  apply processBlock_of_ok (rolled := []) (added := [(b.height, conf)])
  unfold processM
  rw [if_pos hp]
  simp only [h]
  rfl

-- ------------------------------------------------------------------ the ghost store and the joined book

section ghost
variable {c : Ctx} {w : Wid} {addrs : List Addr} {own' : Own} {X : List Block} {k : Nat} {g : Store}

/-- the ghost store holds the joined book -/
theorem ghost_agree (H : RemHyp c w addrs own' X) (hKN : KeysNodup c.own) (hS : ScanJS c w g X k) :
    AgreeJ g (bookOf c.p own' X) (bookOf c.p (ownW c.own w) (X.take (k + 1))) := by
  have := hS.agree
  rw [← bookOf_ownR H.minus hKN c.p X] at this
  exact this

/-- no record of a block above the stored chain -/
theorem ghost_fresh (H : RemHyp c w addrs own' X) (hKN : KeysNodup c.own) (hk : k + 1 ≤ X.length)
    (hS : ScanJS c w g X k) {bm : BlockMeta} (hbm : bm.height = X.length) : Fresh bm g := by
  have hA := ghost_agree H hKN hS
  have HU := upperOK_join (k := k) H hKN hk
  have hcred : ∀ ck cr, AMap.get g.credits ck = some cr → ck.blk ≠ bm := by
    intro ck cr hc he
    have hc' : (joinBookK c w own' X k).credits ck = some cr := by rw [← hc]; exact (hA.credits ck).symm
    obtain ⟨oc, hoc, _, hb⟩ := HU.creditOcc ck cr hc'
    have := occ_height_lt H.heights hoc
    rw [hb, he, hbm] at this
    exact Nat.lt_irrefl _ this
  constructor
  · intro id
    cases hg : AMap.get g.txrecs (id, bm) with
    | none => rfl
    | some loc =>
      exfalso
      obtain ⟨oc, hoc, he, _⟩ := hS.txpos _ _ hg
      have := occ_height_lt H.heights hoc
      have e2 : bm = oc.bm := congrArg Prod.snd he
      rw [← e2, hbm] at this
      exact Nat.lt_irrefl _ this
  · rw [hS.blocks, hbm]; exact blockRecOf_none (Nat.le_refl _)
  · intro id i
    cases hg : AMap.get g.credits ⟨id, bm, i⟩ with
    | none => rfl
    | some cr => exact absurd rfl (hcred _ cr hg)
  · intro id i
    cases hg : AMap.get g.debits ⟨id, bm, i⟩ with
    | none => rfl
    | some d =>
      exfalso
      have hd : (joinBookK c w own' X k).debits ⟨id, bm, i⟩ = some d := by rw [← hg]; exact (hA.debits _).symm
      obtain ⟨cr, hcr, hsp⟩ := HU.debitCredit _ d hd
      obtain ⟨_, oc, hoc, _, hb⟩ := HU.spKeyDebit _ _ cr hcr hsp
      have := occ_height_lt H.heights hoc
      rw [hb] at this
      simp only [hbm] at this
      exact Nat.lt_irrefl _ this

/-- a ready wallet is not the flagged one, so none of its addresses is among the removed wallet's -/
theorem ready_not_addrs (H : RemHyp c w addrs own' X) {ready : List Wid} (hnr : ready.contains w = false) :
    ∀ a w' ch, AMap.get c.own a = some (w', ch) → ready.contains w' = true → addrs.contains a = false := by
  intro a w' ch ha hr
  rw [H.managed]
  unfold isW
  rw [ha]
  have : w' ≠ w := by intro e; rw [e, hnr] at hr; cases hr
  simp [this]

/-- a transaction the ghost store has a credit of is a transaction of the stored chain -/
theorem ghost_credit_occ (H : RemHyp c w addrs own' X) (hKN : KeysNodup c.own) (hk : k + 1 ≤ X.length)
    (hS : ScanJS c w g X k) (hn : KeysNodup g.credits) {id : TxId} (h : existCreditFromTx g id = true) :
    ∃ oc ∈ occs X, oc.t.id = id := by
  have hA := ghost_agree H hKN hS
  have HU := upperOK_join (k := k) H hKN hk
  unfold existCreditFromTx at h
  obtain ⟨e, he, hid⟩ := List.any_eq_true.1 h
  have hid' : e.1.tx = id := by simpa using hid
  have hget : AMap.get g.credits e.1 = some e.2 := (mem_iff_get_of_nodup hn e.1 e.2).1 he
  have hc' : (joinBookK c w own' X k).credits e.1 = some e.2 := by rw [← hget]; exact (hA.credits e.1).symm
  obtain ⟨oc, hoc, hi, _⟩ := HU.creditOcc e.1 e.2 hc'
  exact ⟨oc, hoc, hi.trans hid'⟩

/-- the coins of the ready wallets do not pay the removed wallet -/
theorem ghost_coinsOK (H : RemHyp c w addrs own' X) (hKN : KeysNodup c.own) (hS : ScanJS c w g X k)
    {ready : List Wid} (hnr : ready.contains w = false) : CoinsOK addrs ready g := by
  have hA := ghost_agree H hKN hS
  have hOw := ownW_sub hKN w
  have hV' : ChainValid own' X := chainValid_minus H.minus H.valid
  obtain ⟨hLoc, _⟩ := loc_bookOf (p := c.p) hV'
  intro w' tx idx blk cr hr hu hc
  have hww : w' ≠ w := by intro e; rw [e, hnr] at hr; cases hr
  rw [hA.unspent, lookupU_append] at hu
  -- the entry found is an entry of the other wallets' half
  have hex : ∃ u, lookupU (bookOf c.p own' X).L tx idx = some u ∧ u.wallet = w' ∧ u.blk = blk := by
    cases h1 : lookupU (bookOf c.p own' X).L tx idx with
    | some u =>
      rw [h1] at hu
      simp only [orE_some] at hu
      by_cases hw : u.wallet = w'
      · refine ⟨u, rfl, hw, ?_⟩
        simpa [Option.filter, hw] using hu
      · simp [Option.filter, hw] at hu
    | none =>
      rw [h1] at hu
      exfalso
      cases h2 : lookupU (bookOf c.p (ownW c.own w) (X.take (k + 1))).L tx idx with
      | none => rw [h2] at hu; simp [orE] at hu
      | some u =>
        rw [h2] at hu
        have huw := bw_L_wallet (p := c.p) hOw (X.take (k + 1)) u (lookupU_some h2).1
        have hne : ¬ u.wallet = w' := by rw [huw]; exact fun e => hww e.symm
        simp [orE, Option.filter, hne] at hu
  obtain ⟨u, hl, huw, hub⟩ := hex
  obtain ⟨hmem, htx, hidx⟩ := lookupU_some hl
  have hkey : u.credKey = ⟨tx, blk, idx⟩ := by unfold UCoin.credKey; rw [htx, hidx, hub]
  have hcr := hLoc.cred u hmem
  rw [hkey] at hcr
  rw [hA.credits, hcr] at hc
  simp only [orE_some, Option.some.injEq] at hc
  have hown := hLoc.own u hmem
  rw [ownerOf_minus H.minus] at hown
  have hown0 : ownerOf c.own u.out = some (u.wallet, u.change) := by
    cases h0 : ownerOf c.own u.out with
    | none => rw [h0] at hown; cases hown
    | some y =>
      rw [h0] at hown
      by_cases hy : y.1 ≠ w
      · simpa [Option.filter, hy] using hown
      · simp [Option.filter, hy] at hown
  rw [H.managed, ← hc]
  show isW c.own w u.out.addr = false
  rw [isW_of_owner hown0, huw]
  simpa using hww

/-- the node finds every transaction the ghost store has a credit of -/
theorem ghost_find (H : RemHyp c w addrs own' X) (hKN : KeysNodup c.own) (hk : k + 1 ≤ X.length)
    (hS : ScanJS c w g X k) (hn : KeysNodup g.credits) {n : Node} {post : List Block} (hext : n.chain = X ++ post)
    (hVn : ChainValid c.own n.chain) :
    ∀ id, existCreditFromTx g id = true → (n.fetchTx id).isSome = true := by
  intro id h
  obtain ⟨oc, hoc, hid⟩ := ghost_credit_occ H hKN hk hS hn h
  have hoc' : oc ∈ occs n.chain := by rw [hext]; exact mem_occs_pre hoc
  have := fetchTx_of_occ (idsNodup hVn) hoc'
  rw [hid] at this
  rw [this]; rfl

/-- a transaction the ghost store has a credit of but the real store has none pays no ready wallet: the credits of the
    other wallets are all in the real store -/
theorem real_own (H : RemHyp c w addrs own' X) (hKN : KeysNodup c.own) (hk : k + 1 ≤ X.length)
    (hS : ScanJS c w g X k) (hn : KeysNodup g.credits) {s : Store} (hns : KeysNodup s.credits)
    (hcred : ∀ ck, AMap.get s.credits ck = (joinBookK c w own' X k).credits ck ∨
      (AMap.get s.credits ck = none ∧ ∃ cr, (joinBookK c w own' X k).credits ck = some cr ∧ isW c.own w cr.sh = true))
    {n : Node} {post : List Block} (hext : n.chain = X ++ post) (hVn : ChainValid c.own n.chain)
    {ready : List Wid} (hnr : ready.contains w = false) :
    ∀ (id : TxId) (pt : Tx) (idx : Nat) (o : Out) (w' : Wid) (ch : Bool), existCreditFromTx g id = true →
      existCreditFromTx s id = false → n.fetchTx id = some pt → pt.outs[idx]? = some o → o.cls ≠ .raw →
      AMap.get c.own o.addr = some (w', ch) → ready.contains w' = false := by
  intro id pt idx o w' ch hg hs hf ho hcls hown
  cases hr : ready.contains w' with
  | false => rfl
  | true =>
    exfalso
    have hww : w' ≠ w := by intro e; rw [e, hnr] at hr; cases hr
    obtain ⟨oc, hoc, hid⟩ := ghost_credit_occ H hKN hk hS hn hg
    have hoc' : oc ∈ occs n.chain := by rw [hext]; exact mem_occs_pre hoc
    have hf' := fetchTx_of_occ (idsNodup hVn) hoc'
    rw [hid, hf] at hf'
    have hpt : pt = oc.t := Option.some.inj hf'
    rw [hpt] at ho
    have hV' : ChainValid own' X := chainValid_minus H.minus H.valid
    have howner' : ownerOf own' o = some (w', ch) := by
      rw [ownerOf_minus H.minus]
      unfold ownerOf
      simp [hcls, hown, hww]
    have hcr : CreatedIn own' (occs X) ⟨w', id, idx, oc.bm, oc.t.cb, o, ch⟩ := ⟨oc, hoc, hid, ho, howner', rfl, rfl⟩
    obtain ⟨cr, hcr1, hsh⟩ := credit_sh_of_created (credInv_bookOf (p := c.p) hV') hcr
    have hU : (joinBookK c w own' X k).credits ⟨id, oc.bm, idx⟩ = some cr := by
      show orE ((bookOf c.p own' X).credits ⟨id, oc.bm, idx⟩) _ = _
      have : (bookOf c.p own' X).credits ⟨id, oc.bm, idx⟩ = some cr := hcr1
      rw [this]; rfl
    have hisW : isW c.own w cr.sh = false := by
      rw [hsh]
      show isW c.own w o.addr = false
      unfold isW
      rw [hown]
      simpa using hww
    rcases hcred ⟨id, oc.bm, idx⟩ with h1 | ⟨_, cr', h2, h3⟩
    · rw [hU] at h1
      have hmem := (mem_iff_get_of_nodup hns _ _).2 h1
      have : existCreditFromTx s id = true := by
        unfold existCreditFromTx
        exact List.any_eq_true.2 ⟨_, hmem, by simp⟩
      rw [hs] at this; cases this
    · rw [hU] at h2
      injection h2 with h2
      rw [← h2, hisW] at h3; cases h3

end ghost

-- ------------------------------------------------------------------ the in-progress invariant for the longer chain

theorem blockRecOf_congr_at {has has' : TxId × BlockMeta → Bool} {X X' : List Block} {h : Nat} (hx : X[h]? = X'[h]?)
    (hc : ∀ b, X[h]? = some b → ∀ oc ∈ occsOfBlock b, has (oc.t.id, oc.bm) = has' (oc.t.id, oc.bm)) :
    blockRecOf has X h = blockRecOf has' X' h := by
  unfold blockRecOf
  rw [← hx]
  cases hb : X[h]? with
  | none => rfl
  | some b => simp only []; rw [recIdsP_congr _ (hc b hb)]

section ext
variable {c : Ctx} {w : Wid} {addrs : List Addr} {own' : Own} {X : List Block} {b : Block} {k : Nat}
  {g g' s s' : Store}

/-- **`MidC` for the longer chain**, field by field: the new block's records are the ghost's (`NewEq`), the old ones are
    framed on both stores, the ghost stores hold the joined books of the two chains -/
theorem midC_ext (H : RemHyp c w addrs own' X) (H' : RemHyp c w addrs own' (X ++ [b])) (hKN : KeysNodup c.own)
    (hk : k + 1 ≤ X.length) (hbh : b.height = X.length)
    (hS : ScanJS c w g X k) (hS' : ScanJS c w g' (X ++ [b]) k)
    (hnr' : (readyWallets g' c.wallets).contains w = false) (hng' : KeysNodup g'.credits)
    (hM : MidC c w addrs own' s X (joinBookK c w own' X k))
    (hSub : Sub addrs g s) (hSub' : Sub addrs g' s') (hNew : NewEq ⟨b.height, b.id⟩ g' s')
    (hns' : KeysNodup s'.credits)
    (f_tx : ∀ k : TxId × BlockMeta, k.2 ≠ ⟨b.height, b.id⟩ → AMap.get s'.txrecs k = AMap.get s.txrecs k)
    (f_blk : ∀ h, h ≠ b.height → AMap.get s'.blocks h = AMap.get s.blocks h)
    (f_deb : ∀ k : CredKey, k.blk ≠ ⟨b.height, b.id⟩ → AMap.get s'.debits k = AMap.get s.debits k)
    (f_cred : ∀ k : CredKey, k.blk ≠ ⟨b.height, b.id⟩ → AMap.get s'.credits k = AMap.get s.credits k ∨
      (∃ c0, AMap.get s.credits k = some c0 ∧ AMap.get g.credits k = some c0 ∧ addrs.contains c0.sh = false ∧
        AMap.get s'.credits k = AMap.get g'.credits k))
    (gc1 : ∀ k cr, AMap.get g.credits k = some cr → addrs.contains cr.sh = true → AMap.get g'.credits k = some cr)
    (gc2 : ∀ k cr, AMap.get g'.credits k = some cr → addrs.contains cr.sh = true → AMap.get g.credits k = some cr)
    (gf_tx : ∀ k : TxId × BlockMeta, k.2 ≠ ⟨b.height, b.id⟩ → AMap.get g'.txrecs k = AMap.get g.txrecs k)
    (gf_deb : ∀ k : CredKey, k.blk ≠ ⟨b.height, b.id⟩ → AMap.get g'.debits k = AMap.get g.debits k) :
    MidC c w addrs own' s' (X ++ [b]) (joinBookK c w own' (X ++ [b]) k) := by
  have hk' : k + 1 ≤ (X ++ [b]).length := by rw [List.length_append]; omega
  have htake : (X ++ [b]).take (k + 1) = X.take (k + 1) := List.take_append_of_le_length hk
  have hU' : joinBookK c w own' (X ++ [b]) k =
      joinB (bookOf c.p own' (X ++ [b])) (bookOf c.p (ownW c.own w) (X.take (k + 1))) := by
    unfold joinBookK; rw [htake]
  have hA := ghost_agree H hKN hS
  have hA' := ghost_agree H' hKN hS'
  rw [htake] at hA'
  have HU := upperOK_join (k := k) H hKN hk
  have HU' := upperOK_join (k := k) H' hKN hk'
  rw [hU'] at HU'
  have hFresh : Fresh ⟨b.height, b.id⟩ g := ghost_fresh H hKN hk hS hbh
  have hOw := ownW_sub hKN w
  have hVw : ChainValid (ownW c.own w) (X.take (k + 1)) := chainValid_sub hOw (chainValid_take H.valid _)
  -- the balances of the other wallets: from the ghost store
  have hMg' : MidU c w addrs own' { g' with pendCred := [] } (X ++ [b]) (joinBookK c w own' (X ++ [b]) k) :=
    scanJS_to_midU H' hKN hk'
      (scanJS_congr hS' (s' := { g' with pendCred := [] }) ⟨rfl, rfl, rfl, rfl, rfl, rfl, rfl, rfl, rfl, rfl, rfl⟩)
      hnr' hng' (fun _ he => by cases he)
  rw [hU'] at hMg' ⊢
  -- a credit of `w` that is in the real store stays
  have keep_cred : ∀ ck cr, AMap.get s.credits ck = some cr → isW c.own w cr.sh = true →
      AMap.get s'.credits ck = some cr := by
    intro ck cr hs hw
    have hcon : addrs.contains cr.sh = true := by rw [H.managed]; exact hw
    have hg : AMap.get g.credits ck = some cr := by
      rcases hSub.credits ck with h | ⟨h, _⟩
      · rw [← h]; exact hs
      · rw [hs] at h; cases h
    have hb : ck.blk ≠ ⟨b.height, b.id⟩ := by
      intro e
      obtain ⟨tx, blk, i⟩ := ck
      simp only at e
      subst e
      rw [hFresh.credits tx i] at hg; cases hg
    rcases f_cred ck hb with h | ⟨c0, h1, _, h3, _⟩
    · rw [h]; exact hs
    · rw [hs] at h1
      injection h1 with h1
      rw [← h1, hcon] at h3; cases h3
  refine ⟨hns', ?_, ?_, ?_, ?_, ?_, ?_, ?_, ?_, ?_, ?_, ?_, fun _ he => by cases he⟩
  · -- credits
    intro ck
    show AMap.get s'.credits ck = _ ∨ (AMap.get s'.credits ck = none ∧ _)
    rcases hSub'.credits ck with h | ⟨h1, cr, h2, h3⟩
    · exact Or.inl (h.trans (hA'.credits ck))
    · exact Or.inr ⟨h1, cr, (hA'.credits ck).symm.trans h2, by rw [← H.managed]; exact h3⟩
  · -- debits
    intro dk
    show AMap.get s'.debits dk = _ ∨ (AMap.get s'.debits dk = none ∧ _)
    by_cases hb : dk.blk = ⟨b.height, b.id⟩
    · left
      obtain ⟨tx, blk, i⟩ := dk
      simp only at hb
      subst hb
      exact (hNew.debits tx i).trans (hA'.debits _)
    · have e1 := f_deb dk hb
      have e2 := gf_deb dk hb
      rcases hM.debits dk with h | ⟨h1, d, cr, h2, h3, h4⟩
      · exact Or.inl (e1.trans (h.trans ((hA.debits dk).symm.trans (e2.symm.trans (hA'.debits dk)))))
      · refine Or.inr ⟨e1.trans h1, d, cr, (hA'.debits dk).symm.trans (e2.trans ((hA.debits dk).trans h2)), ?_, h4⟩
        exact (hA'.credits d.2).symm.trans (gc1 d.2 cr ((hA.credits d.2).trans h3) (by rw [H.managed]; exact h4))
  · -- debitsW
    intro dk d cr hd hc hw
    show AMap.get s'.credits d.2 = some cr
    have hd : AMap.get s'.debits dk = some d := hd
    have hcon : addrs.contains cr.sh = true := by rw [H.managed]; exact hw
    have hg' : AMap.get g'.credits d.2 = some cr := (hA'.credits d.2).trans hc
    have hg : AMap.get g.credits d.2 = some cr := gc2 _ _ hg' hcon
    have hUc : (joinBookK c w own' X k).credits d.2 = some cr := (hA.credits d.2).symm.trans hg
    by_cases hb : dk.blk = ⟨b.height, b.id⟩
    · exfalso
      have hUd : (joinB (bookOf c.p own' (X ++ [b])) (bookOf c.p (ownW c.own w) (X.take (k + 1)))).debits dk = some d := by
        obtain ⟨tx, blk, i⟩ := dk
        simp only at hb
        subst hb
        rw [← hd, hNew.debits tx i]; exact (hA'.debits _).symm
      obtain ⟨cr2, hcr2, hsp⟩ := HU'.debitCredit dk d hUd
      rw [hc] at hcr2
      injection hcr2 with hcr2
      subst hcr2
      obtain ⟨_, oc, hoc, _, hbm⟩ := HU.spKeyDebit d.2 dk cr hUc hsp
      have := occ_height_lt H.heights hoc
      rw [hbm, hb] at this
      simp only [hbh] at this
      exact Nat.lt_irrefl _ this
    · have hsd : AMap.get s.debits dk = some d := by rw [← f_deb dk hb]; exact hd
      exact keep_cred d.2 cr (hM.debitsW dk d cr hsd hUc hw) hw
  · -- unspent
    intro w' tx idx
    show AMap.get s'.unspent (w', tx, idx) = _
    rw [hSub'.unspent]; exact hA'.unspent w' tx idx
  · -- game
    intro gk
    show AMap.get s'.game gk = _
    rw [hSub'.game]; exact hA'.game gk
  · -- txrecs
    intro key
    show AMap.get s'.txrecs key = _ ∨ (AMap.get s'.txrecs key = none ∧ _)
    by_cases hb : key.2 = ⟨b.height, b.id⟩
    · left
      obtain ⟨id, blk⟩ := key
      simp only at hb
      subst hb
      exact (hNew.txrecs id).trans (hA'.txrecs _)
    · have e1 := f_tx key hb
      have e2 := gf_tx key hb
      rcases hM.txrecs key with h | ⟨h1, h2⟩
      · exact Or.inl (e1.trans (h.trans ((hA.txrecs key).symm.trans (e2.symm.trans (hA'.txrecs key)))))
      · exact Or.inr ⟨e1.trans h1, (bookOf_snoc_txrecs c.p own' X b key hb).trans h2⟩
  · -- txrecsW
    intro key loc hs hB'
    show ∃ ck cr, AMap.get s'.credits ck = some cr ∧ _
    have hs : AMap.get s'.txrecs key = some loc := hs
    by_cases hb : key.2 = ⟨b.height, b.id⟩
    · exfalso
      have hw : (bookOf c.p (ownW c.own w) (X.take (k + 1))).txrecs key = some loc := by
        obtain ⟨id, blk⟩ := key
        simp only at hb
        subst hb
        rw [hNew.txrecs id, hA'.txrecs, hB'] at hs
        exact hs
      obtain ⟨P₁, oc, P₂, hsp, _, hkey, _⟩ := txrec_occ hVw hw
      have hoc : oc ∈ occs X := by
        have h1 : oc ∈ occs (X.take (k + 1)) := by rw [hsp]; simp
        have h2 := mem_occs_pre (post := X.drop (k + 1)) h1
        rw [List.take_append_drop] at h2
        exact h2
      have := occ_height_lt H.heights hoc
      have e : key.2 = oc.bm := congrArg Prod.snd hkey
      rw [← e, hb] at this
      simp only [hbh] at this
      exact Nat.lt_irrefl _ this
    · have hs0 : AMap.get s.txrecs key = some loc := by rw [← f_tx key hb]; exact hs
      have hB0 : (bookOf c.p own' X).txrecs key = none := by rw [← bookOf_snoc_txrecs c.p own' X b key hb]; exact hB'
      obtain ⟨ck, cr, h1, h2, h3⟩ := hM.txrecsW key loc hs0 hB0
      exact ⟨ck, cr, keep_cred ck cr h1 h2, h2, h3⟩
  · -- blocks
    intro h
    show AMap.get s'.blocks h = blockRecOf (fun k => (AMap.get s'.txrecs k).isSome) (X ++ [b]) h
    by_cases hh : h = b.height
    · subst hh
      rw [hNew.blocks, hS'.blocks b.height]
      apply blockRecOf_congr_at rfl
      intro b0 hb0 oc hoc
      have hget : (X ++ [b])[b.height]? = some b := by rw [hbh]; simp
      rw [hget] at hb0
      injection hb0 with hb0
      subst hb0
      have hbm : oc.bm = ⟨b.height, b.id⟩ := mem_occsFrom_bm hoc
      unfold hasRec
      rw [hbm, hNew.txrecs]
    · rw [f_blk h hh]
      have := hM.blocks h
      rw [show AMap.get s.blocks h = _ from this]
      have hne : h ≠ X.length := by rw [← hbh]; exact hh
      apply blockRecOf_congr_at
      · by_cases hl : h < X.length
        · rw [List.getElem?_append_left hl]
        · rw [List.getElem?_eq_none (by omega), List.getElem?_eq_none (by rw [List.length_append]; simp; omega)]
      · intro b0 hb0 oc hoc
        have hbm : oc.bm = ⟨b0.height, b0.id⟩ := mem_occsFrom_bm hoc
        have hb0h : b0.height = h := H.heights h b0 hb0
        have hkey : (oc.t.id, oc.bm).2 ≠ ⟨b.height, b.id⟩ := by
          intro e
          simp only [hbm] at e
          injection e with e1 _
          exact hh (hb0h.symm.trans e1)
        show (AMap.get s.txrecs (oc.t.id, oc.bm)).isSome = (AMap.get s'.txrecs (oc.t.id, oc.bm)).isSome
        rw [f_tx _ hkey]
  · -- bal
    intro w' hw' hr
    show AMap.get s'.balance w' = _
    rw [hSub'.balance]
    have hr' : (readyWallets { g' with pendCred := [] } c.wallets).contains w' = true := by
      have : readyWallets { s' with pendCred := [] } c.wallets = readyWallets { g' with pendCred := [] } c.wallets :=
        readyWallets_congr (s := { g' with pendCred := [] }) (s' := { s' with pendCred := [] }) hSub'.status c.wallets
      rw [← this]; exact hr
    exact hMg'.bal w' hw' hr'
  · -- sync
    intro h
    show AMap.get s'.sync h = _
    rw [hSub'.sync]; exact hS'.sync h
  · -- syncedTo
    show s'.syncedTo + 1 = _
    rw [hSub'.syncedTo]; exact hS'.syncedTo

end ext

-- ------------------------------------------------------------------ the extension step of phase 2

/-- `MidU` reads the parameters, the keystore table and the wallet list of the context only -/
theorem midU_ctx {c c' : Ctx} {w : Wid} {addrs : List Addr} {own' : Own} {s : Store} {X : List Block} {U : Book}
    (hp : c'.p = c.p) (ho : c'.own = c.own) (hw : c'.wallets = c.wallets) (h : MidU c w addrs own' s X U) :
    MidU c' w addrs own' s X U := by
  obtain ⟨p, own, ws, nd⟩ := c
  obtain ⟨p', own'', ws'', nd'⟩ := c'
  simp only at hp ho hw
  subst hp ho hw
  exact ⟨h.nodup, h.credits, h.debits, h.debitsW, h.unspent, h.game, h.txrecs, h.txrecsW, h.blocks, h.bal, h.sync,
    h.syncedTo, h.pendOff⟩

section
variable {limit : Nat} {c : Ctx} {w : Wid} {addrs : List Addr} {own' : Own} {G : Block} {x : ISt}

/-- **one more block between two removal steps**: the node announces `b` on top of the chain the follower stored.  The
    follower's database transaction succeeds on the real store because it succeeds on the ghost store
    (`connect_scanJS'`, `filterBlock_sim`), and the two-store invariant holds for the longer chain. -/
theorem phase2_notify_ext {n : Node} {b : Block} (hS : Static c w addrs own') (hP : Phase2 c w addrs own' G x)
    (hN : NodeOK c.own G x.node.known n b) (hext : n.chain = x.node.chain ++ [b]) (hprev : b.prev = x.v.best.hash) :
    ∃ x', istep limit c w addrs x (.notify n b) = some x' ∧ Phase2 c w addrs own' G x' := by
  obtain ⟨g, k, hG, hSub, hM, hcf⟩ := hP
  have hKN := hS.keys
  have hkn : ∀ y ∈ x.node.chain, AMap.get n.known y.id = some y := fun y hy => hN.grows _ _ (hcf.known y hy)
  have H : RemHyp { c with node := n } w addrs own' x.node.chain :=
    ⟨hS.minus, hS.managed, hS.ne, hcf.valid, hcf.good.heights, hkn⟩
  have H' : RemHyp { c with node := n } w addrs own' (x.node.chain ++ [b]) :=
    ⟨hS.minus, hS.managed, hS.ne, by rw [← hext]; exact hN.valid, by rw [← hext]; exact hN.good.heights,
      by rw [← hext]; exact hN.known⟩
  have hbh : b.height = x.node.chain.length := by
    apply hN.good.heights
    rw [hext]; simp
  have hSg : ScanJS { c with node := n } w g x.node.chain k :=
    scanJS_ctx (c := { c with node := x.node }) rfl rfl rfl hG.scan
  have hMn : MidC { c with node := n } w addrs own' x.s x.node.chain
      (joinBookK { c with node := n } w own' x.node.chain k) :=
    midU_ctx (c := { c with node := x.node }) rfl rfl rfl hM
  have hnr : (readyWallets g c.wallets).contains w = false := notReady_of_removed hG.flag rfl
  obtain ⟨g', conf, hfg, hSg', hstg, _⟩ := connect_scanJS' (c := { c with node := n }) hKN
    ⟨hN.valid, hN.good.heights⟩ (show n.chain = x.node.chain ++ b :: [] from hext) hSg hnr hG.len hG.allReady
    hG.nonempty
  have hready : readyWallets x.s c.wallets = readyWallets g c.wallets := readyWallets_congr hSub.status c.wallets
  have hSub0 := sub_of_subG hSub
  have hFs : AMap.get x.s.blocks b.height = none := by
    have := hM.blocks b.height
    rw [show AMap.get x.s.blocks b.height = _ from this, hbh]
    exact blockRecOf_none (Nat.le_refl _)
  obtain ⟨s', hfs, hSub', hNew, hns', hng', _, f_tx, f_blk, f_deb, f_cred, gc1, gc2, gf_tx, _, gf_deb⟩ :=
    filterBlock_sim (c := { c with node := n }) (ready := readyWallets g c.wallets) hSub0 hG.nodup hM.nodup
      (ghost_fresh H hKN hG.len hSg hbh) hFs (ghost_coinsOK H hKN hSg hnr)
      (ghost_find H hKN hG.len hSg hG.nodup hext hN.valid)
      (real_own H hKN hG.len hSg hG.nodup hM.nodup hMn.credits hext hN.valid hnr)
      (ready_not_addrs H hnr) hfg
  obtain ⟨v', hpb, hv'⟩ := processBlock_ext (c := { c with node := n }) (v := x.v) hprev
    (show filterBlock _ x.s (readyWallets x.s c.wallets) b = _ by rw [hready]; exact hfs)
  have hnr' : (readyWallets g' c.wallets).contains w = false := by rw [readyWallets_congr hstg]; exact hnr
  have hM' := midC_ext H H' hKN hG.len hbh hSg hSg' hnr' hng' hMn hSub0 hSub' hNew hns' f_tx f_blk f_deb f_cred gc1 gc2
    gf_tx gf_deb
  refine ⟨{ x with s := s', v := v', node := n }, ?_, g', k, ⟨?_, ?_, ?_, ?_, ?_, hng'⟩, subG_of_sub hSub', ?_,
    ⟨?_, hcf.fin, hN.good, hN.valid, hN.genesis, hN.known⟩⟩
  · simp only [istep, hcf.fin, hpb, Bool.false_eq_true, if_false, if_true]
  · show k + 1 ≤ n.chain.length
    rw [hext, List.length_append]; have := hG.len; omega
  · show ScanJS { c with node := n } w g' n.chain k
    rw [hext]; exact hSg'
  · rw [hstg]; exact hG.flag
  · rw [readyWallets_congr hstg]; exact hG.allReady
  · rw [readyWallets_congr hstg]; exact hG.nonempty
  · show MidC { c with node := n } w addrs own' s' n.chain (joinBookK { c with node := n } w own' n.chain k)
    rw [hext]; exact hM'
  · show v'.best = tipMeta n.chain
    rw [hext, tipMeta_snoc]; exact hv'

end

-- ------------------------------------------------------------------ histories: extensions between the removal steps

/-- the domain of `remove_interleaved_ext`, threaded along the history (`started`: a removal step has run): like `DomA`,
    and AFTER the first removal step a tip notification is allowed when the announced chain is the stored chain plus
    the announced block (an extension; reorganisations between two removal steps are outside — and must be:
    `MW.Lemmas.RemoveMidCex`) -/
def DomB (limit : Nat) (c : Ctx) (w : Wid) (addrs : List Addr) (G : Block) : Bool → ISt → List IEv → Prop
  | _, _, [] => True
  | started, x, ev :: evs =>
    (match ev with
      | .rem => PendOK addrs x.s x.node.chain
      | .notify n b => NodeOK c.own G x.node.known n b ∧
          ((started = false ∧ IdInj (x.node.chain ++ n.chain) ∧ (b.height = 0 → b.prev ≠ x.v.best.hash)) ∨
           (started = true ∧ n.chain = x.node.chain ++ [b] ∧ b.prev = x.v.best.hash))
      | .recv _ => True
      | .restart v => v.best = x.v.best) ∧
    ∀ x', istep limit c w addrs x ev = some x' → DomB limit c w addrs G (started || ev.isRem) x' evs

section
variable {limit : Nat} {c : Ctx} {w : Wid} {addrs : List Addr} {own' : Own} {G : Block}

/-- `DomA` is the part of `DomB` without notifications after the first removal step -/
theorem domB_of_domA : ∀ (evs : List IEv) (started : Bool) (x : ISt),
    DomA limit c w addrs G started x evs → DomB limit c w addrs G started x evs := by
  intro evs
  induction evs with
  | nil => intro _ _ _; trivial
  | cons ev evs ih =>
    intro started x h
    obtain ⟨hev, hdom⟩ := h
    refine ⟨?_, fun x' hx' => ih _ _ (hdom x' hx')⟩
    cases ev with
    | rem => exact hev
    | notify n b => exact ⟨hev.2.1, Or.inl ⟨hev.1, hev.2.2.1, hev.2.2.2⟩⟩
    | recv t => exact hev
    | restart v => exact hev

theorem domB_run (hS : Static c w addrs own') (ws' : List Wid) (hws : ∀ y ∈ ws', y ∈ c.wallets) :
    ∀ (evs : List IEv) (started : Bool) (x xe : ISt),
      (started = false → Phase1 c w G x) → (started = true → Phase2 c w addrs own' G x) →
      DomB limit c w addrs G started x evs → irun limit c w addrs x evs = some xe → xe.fin = true →
      Inv { c with own := own', wallets := ws', node := xe.node } xe.s xe.node.chain := by
  intro evs
  induction evs with
  | nil =>
    intro started x xe h1 h2 _ h hfin
    simp only [irun, Option.some.injEq] at h
    subst h
    exfalso
    cases started with
    | false => have := (h1 rfl).cf.fin; rw [hfin] at this; cases this
    | true =>
      obtain ⟨_, _, _, _, _, hcf⟩ := h2 rfl
      have := hcf.fin; rw [hfin] at this; cases this
  | cons ev evs ih =>
    intro started x xe h1 h2 hD h hfin
    obtain ⟨hev, hdom⟩ := hD
    simp only [irun] at h
    cases hs : istep limit c w addrs x ev with
    | none => rw [hs] at h; cases h
    | some x1 =>
      rw [hs] at h
      have hdom' := hdom x1 hs
      cases ev with
      | rem =>
        have hcore : (x1.fin = false → Phase2 c w addrs own' G x1) ∧
            (x1.fin = true → ∀ ws', (∀ y ∈ ws', y ∈ c.wallets) →
              Inv { c with own := own', wallets := ws', node := x1.node } x1.s x1.node.chain) := by
          cases started with
          | false => exact phase1_rem hS (h1 rfl) hev hs
          | true => exact phase2_rem hS (h2 rfl) hev hs
        cases hf1 : x1.fin with
        | false =>
          have hd : DomB limit c w addrs G true x1 evs := by
            cases started <;> exact hdom'
          exact ih true x1 xe (fun h => by cases h) (fun _ => hcore.1 hf1) hd h hfin
        | true =>
          have := irun_fin hf1 h
          subst this
          exact hcore.2 hf1 ws' hws
      | notify n b =>
        obtain ⟨hN, ⟨hst, hinj, hg0⟩ | ⟨hst, hext, hprev⟩⟩ := hev
        · subst hst
          obtain ⟨x1', hs', hP'⟩ := phase1_notify (limit := limit) (addrs := addrs) hS.keys (h1 rfl) hN hinj hg0
          rw [hs] at hs'
          injection hs' with hs'
          subst hs'
          exact ih false x1 xe (fun _ => hP') (fun h => by cases h) hdom' h hfin
        · subst hst
          obtain ⟨x1', hs', hP'⟩ := phase2_notify_ext (limit := limit) hS (h2 rfl) hN hext hprev
          rw [hs] at hs'
          injection hs' with hs'
          subst hs'
          exact ih true x1 xe (fun h => by cases h) (fun _ => hP') hdom' h hfin
      | recv t =>
        cases started with
        | false => exact ih false x1 xe (fun _ => phase1_recv (h1 rfl) hs) (fun h => by cases h) hdom' h hfin
        | true => exact ih true x1 xe (fun h => by cases h) (fun _ => phase2_recv (h2 rfl) hs) hdom' h hfin
      | restart v =>
        cases started with
        | false => exact ih false x1 xe (fun _ => phase1_restart hev (h1 rfl) hs) (fun h => by cases h) hdom' h hfin
        | true => exact ih true x1 xe (fun h => by cases h) (fun _ => phase2_restart hev (h2 rfl) hs) hdom' h hfin

/-- **removal interleaved with the follower, new blocks between the steps**: from a store that follows the chain with
    `w` flagged, any history inside `DomB` — tip notifications for ANY announced node state before the first removal
    step, EXTENSIONS of the stored chain between the removal steps, unconfirmed transactions and restarts anywhere —
    that ends with the finishing step leaves C01's invariant for the table without `w`, on the chain the follower was
    last told about -/
theorem remove_interleaved_ext {x0 x : ISt} {evs : List IEv} {ws' : List Wid}
    (hP : Phase1 c w G x0) (hS : Static c w addrs own') (hD : DomB limit c w addrs G false x0 evs)
    (hrun : irun limit c w addrs x0 evs = some x) (hfin : x.fin = true) (hws : ∀ y ∈ ws', y ∈ c.wallets) :
    Inv { c with own := own', wallets := ws', node := x.node } x.s x.node.chain :=
  domB_run hS ws' hws evs false x0 x (fun _ => hP) (fun h => by cases h) hD hrun hfin

end

end MW.Lemmas.RemoveInterleave
