/-
  C08, removal INTERLEAVED with follower events — the extension step of phase 2.
    `phase2_notify_ext`  between two removal steps the node announces ONE MORE block on top of the chain the follower
                         stored: the database transaction succeeds (simulation of the ghost store's `filterBlock`:
                         `MW.Lemmas.RemoveSim.filterBlock_sim`) and the in-progress invariant holds for the longer chain
    `DomB`               histories: any announced node state before the first removal step, extensions after it
    `remove_interleaved_ext`
-/
import MW.Lemmas.RemoveInterleave2
import MW.Lemmas.RemoveSim
import MW.Lemmas.LedgerReorg2
import MW.Lemmas.LedgerNode
namespace MW.Lemmas.RemoveInterleave
open MW MW.Model.Ledger MW.Model.Remove MW.Spec.Chain MW.Spec.Books MW.Lemmas.Ledger MW.Lemmas.RemoveProj
  MW.Lemmas.RemoveInv MW.Lemmas.RemoveMain MW.Lemmas.RemoveUpper MW.Lemmas.RemoveJoin MW.Lemmas.RemoveGlue
  MW.Lemmas.RemoveFlagged MW.Lemmas.ImportReorg MW.Lemmas.ImportJoin MW.Lemmas.RemoveChar MW.Lemmas.RemoveStep
  MW.Lemmas.RemoveBooks MW.Lemmas.RemoveSim

-- ------------------------------------------------------------------ `SubG` is `RemoveSim.Sub`

theorem sub_of_subG {ads : List Addr} {g s : Store} (h : SubG ads g s) : Sub ads g s :=
  ⟨h.unspent, h.game, h.balance, h.sync, h.syncedTo, h.status, h.credits, h.debits, h.txrecs, h.addrs⟩

theorem subG_of_sub {ads : List Addr} {g s : Store} (h : Sub ads g s) : SubG ads g s :=
  ⟨h.unspent, h.game, h.balance, h.sync, h.syncedTo, h.status, h.addrs, h.credits, h.debits, h.txrecs⟩

-- ------------------------------------------------------------------ small facts

/-- a transaction of a chain sits in a block below the chain's length -/
theorem occ_height_lt {X : List Block} (hH : HeightsOK X) {oc : Occ} (h : oc ∈ occs X) : oc.bm.height < X.length := by
  obtain ⟨b', hb', hbm⟩ := mem_occs_height h
  obtain ⟨i, hi⟩ := List.getElem?_of_mem hb'
  have := hH i b' hi
  rw [hbm]
  show b'.height < _
  rw [this]
  exact (List.getElem?_eq_some_iff.1 hi).1

theorem blockRecOf_none {has : TxId × BlockMeta → Bool} {X : List Block} {h : Nat} (hh : X.length ≤ h) :
    blockRecOf has X h = none := by
  unfold blockRecOf
  rw [List.getElem?_eq_none hh]

/-- the books of a longer chain have the tx records of the old blocks -/
theorem bookOf_snoc_txrecs (p : Params) (own : Own) (X : List Block) (b : Block) (k : TxId × BlockMeta)
    (hk : k.2 ≠ ⟨b.height, b.id⟩) : (bookOf p own (X ++ [b])).txrecs k = (bookOf p own X).txrecs k := by
  rw [bookOf_snoc]
  apply MW.Lemmas.Ledger.fold_txrecs_keep
  intro oc hoc he
  apply hk
  rw [← he]
  exact mem_occsFrom_bm hoc

theorem tipMeta_snoc (X : List Block) (b : Block) : tipMeta (X ++ [b]) = ⟨b.height, b.id⟩ := by
  unfold tipMeta
  simp

/-- the extension branch of processConnectedBlock -/
theorem processBlock_ext {c : Ctx} {s s' : Store} {v : Vol} {b : Block} {conf : List TxId}
    (hp : b.prev = v.best.hash) (h : filterBlock c s (readyWallets s c.wallets) b = .ok (s', conf)) :
    ∃ v', processBlock c s v b = (s', v', true) ∧ v'.best = ⟨b.height, b.id⟩ := by
  apply processBlock_of_ok (rolled := []) (added := [(b.height, conf)])
  unfold processM
  rw [if_pos hp]
  simp only [h]
  rfl

-- ------------------------------------------------------------------ the ghost store and the joined book

section ghost
variable {c : Ctx} {w : Wid} {addrs : List Addr} {own' : Own} {X : List Block} {k : Nat} {g : Store}

/-- the ghost store holds the joined book -/
theorem ghost_agree (H : RemHyp c w addrs own' X) (hKN : KeysNodup c.own) (hS : ScanJS c w g X k) :
    AgreeJ g (bookOf c.p own' X) (bookOf c.p (ownW c.own w) (X.take (k + 1))) := by
  have := hS.agree
  rw [← bookOf_ownR H.minus hKN c.p X] at this
  exact this

/-- no record of a block above the stored chain -/
theorem ghost_fresh (H : RemHyp c w addrs own' X) (hKN : KeysNodup c.own) (hk : k + 1 ≤ X.length)
    (hS : ScanJS c w g X k) {bm : BlockMeta} (hbm : bm.height = X.length) : Fresh bm g := by
  have hA := ghost_agree H hKN hS
  have HU := upperOK_join (k := k) H hKN hk
  have hcred : ∀ ck cr, AMap.get g.credits ck = some cr → ck.blk ≠ bm := by
    intro ck cr hc he
    have hc' : (joinBookK c w own' X k).credits ck = some cr := by rw [← hc]; exact (hA.credits ck).symm
    obtain ⟨oc, hoc, _, hb⟩ := HU.creditOcc ck cr hc'
    have := occ_height_lt H.heights hoc
    rw [hb, he, hbm] at this
    exact Nat.lt_irrefl _ this
  constructor
  · intro id
    cases hg : AMap.get g.txrecs (id, bm) with
    | none => rfl
    | some loc =>
      exfalso
      obtain ⟨oc, hoc, he, _⟩ := hS.txpos _ _ hg
      have := occ_height_lt H.heights hoc
      have e2 : bm = oc.bm := congrArg Prod.snd he
      rw [← e2, hbm] at this
      exact Nat.lt_irrefl _ this
  · rw [hS.blocks, hbm]; exact blockRecOf_none (Nat.le_refl _)
  · intro id i
    cases hg : AMap.get g.credits ⟨id, bm, i⟩ with
    | none => rfl
    | some cr => exact absurd rfl (hcred _ cr hg)
  · intro id i
    cases hg : AMap.get g.debits ⟨id, bm, i⟩ with
    | none => rfl
    | some d =>
      exfalso
      have hd : (joinBookK c w own' X k).debits ⟨id, bm, i⟩ = some d := by rw [← hg]; exact (hA.debits _).symm
      obtain ⟨cr, hcr, hsp⟩ := HU.debitCredit _ d hd
      obtain ⟨_, oc, hoc, _, hb⟩ := HU.spKeyDebit _ _ cr hcr hsp
      have := occ_height_lt H.heights hoc
      rw [hb] at this
      simp only [hbm] at this
      exact Nat.lt_irrefl _ this

/-- a ready wallet is not the flagged one, so none of its addresses is among the removed wallet's -/
theorem ready_not_addrs (H : RemHyp c w addrs own' X) {ready : List Wid} (hnr : ready.contains w = false) :
    ∀ a w' ch, AMap.get c.own a = some (w', ch) → ready.contains w' = true → addrs.contains a = false := by
  intro a w' ch ha hr
  rw [H.managed]
  unfold isW
  rw [ha]
  have : w' ≠ w := by intro e; rw [e, hnr] at hr; cases hr
  simp [this]

end ghost

end MW.Lemmas.RemoveInterleave
