/- helper lemmas for C17(a): read trees, read transactions, calls -/
import MW.Model.Iso
import MW.Props.C01
namespace MW.Lemmas.Iso
open MW MW.Model.Ledger MW.Model.Iso

variable {σ α β : Type}

theorem runLive_counter (vs : Nat → σ) (v : Nat → Nat) (q : Q σ α) (j : Nat) : j ≤ (q.runLive vs v j).2 := by
  induction q generalizing j with
  | ret a => simp [Q.runLive]
  | read proj k ih =>
    simp only [Q.runLive]
    exact Nat.le_trans (Nat.le_succ j) (ih _ (j + 1))

theorem runTx_counter (vs : Nat → σ) (v : Nat → Nat) (pin : Option Nat) (q : Q σ α) (j : Nat) :
    j ≤ (q.runTx vs v pin j).2 := by
  cases pin with
  | none => exact runLive_counter vs v q j
  | some i => simp [Q.runTx]

theorem run_counter (b : Bool) (vs : Nat → σ) (v : Nat → Nat) (c : Call σ α) (j : Nat) : j ≤ (c.run b vs v j).2 := by
  induction c generalizing j with
  | done a => simp [Call.run]
  | view q k ih =>
    simp only [Call.run]
    exact Nat.le_trans (runTx_counter vs v _ q j) (ih _ _)

/-- a pinned read transaction answers exactly like the query on the pinned version -/
theorem runTx_pinned (vs : Nat → σ) (v : Nat → Nat) (i : Nat) (q : Q σ α) (j : Nat) :
    (q.runTx vs v (some i) j).1 = q.evalOn (vs i) := rfl

/-- live reads with a constant schedule (no commit during the transaction) also do -/
theorem runLive_const (vs : Nat → σ) (v : Nat → Nat) (i : Nat) (q : Q σ α) (j : Nat)
    (h : ∀ j', j ≤ j' → v j' = i) : (q.runLive vs v j).1 = q.evalOn (vs i) := by
  induction q generalizing j with
  | ret a => rfl
  | read proj k ih =>
    simp only [Q.runLive, Q.evalOn]
    rw [h j (Nat.le_refl j)]
    exact ih _ (j + 1) (fun j' hj => h j' (Nat.le_of_succ_le hj))

theorem run_map (f : α → β) (b : Bool) (vs : Nat → σ) (v : Nat → Nat) (c : Call σ α) (j : Nat) :
    (c.map f).run b vs v j = (f (c.run b vs v j).1, (c.run b vs v j).2) := by
  induction c generalizing j with
  | done a => rfl
  | view q k ih => simp only [Call.map, Call.run]; exact ih _ _

-- ------------------------------------------------------------------ the wallet queries

theorem balanceQ_evalOn (S : Store) (w : Wid) (mc : Nat) :
    (balanceQ w mc).evalOn S = walletBalance S w mc := by
  simp only [balanceQ, Q.evalOn, assembleBalance, walletBalance]
  cases AMap.get S.balance w <;> rfl

theorem utxosQ_evalOn (S : Store) (w : Wid) :
    (utxosQ w).evalOn S = listCoins S.syncedTo (coinsOf S w) := rfl

theorem selectQ_evalOn (S : Store) (w : Wid) (pick : List Listed → List Listed) :
    (selectQ w pick).evalOn S = pick ((listCoins S.syncedTo (coinsOf S w)).filter (eligible S.pendIns)) := rfl

/-- the store invariant the follower maintains (C01): every coin was recorded at or below the tip the
    store is synced to, and heights are far below 2^31 -/
def HeightsOk (S : Store) (w : Wid) : Prop :=
  S.syncedTo < 2^31 ∧ ∀ c ∈ coinsOf S w, c.blk.height ≤ S.syncedTo

theorem confs_exact {S : Store} {w : Wid} (h : HeightsOk S w) {c : Coin} (hc : c ∈ coinsOf S w) :
    confs S.syncedTo c.blk.height = S.syncedTo - c.blk.height + 1 :=
  MW.Lemmas.Ledger.confs_of_le _ _ (h.2 c hc) (Nat.lt_trans h.1 (by decide))

theorem confs32_exact {S : Store} {w : Wid} (h : HeightsOk S w) {c : Coin} (hc : c ∈ coinsOf S w) :
    confs S.syncedTo c.blk.height % 2^32 = S.syncedTo - c.blk.height + 1 := by
  rw [confs_exact h hc]
  apply Nat.mod_eq_of_lt
  have := h.1
  omega

/-- keys of an association map are pairwise distinct -/
def NodupKeys {K V : Type} (m : AMap.T K V) : Prop := (m.map (·.1)).Nodup

theorem nodupKeys_erase {K V : Type} [DecidableEq K] (m : AMap.T K V) (k : K) (h : NodupKeys m) :
    NodupKeys (AMap.erase m k) := by
  unfold NodupKeys AMap.erase at *
  exact List.Nodup.sublist (List.Sublist.map _ List.filter_sublist) h

theorem not_mem_keys_erase {K V : Type} [DecidableEq K] (m : AMap.T K V) (k : K) :
    k ∉ (AMap.erase m k).map (·.1) := by
  unfold AMap.erase
  intro h
  rcases List.mem_map.1 h with ⟨a, ha, hk⟩
  have := (List.mem_filter.1 ha).2
  simp [hk] at this

theorem nodupKeys_put {K V : Type} [DecidableEq K] (m : AMap.T K V) (k : K) (x : V) (h : NodupKeys m) :
    NodupKeys (AMap.put m k x) := by
  unfold NodupKeys AMap.put
  simp only [List.map_cons, List.nodup_cons]
  exact ⟨not_mem_keys_erase m k, nodupKeys_erase m k h⟩

/-- the coin list of a wallet names every outpoint at most once when the unspent index has distinct keys -/
theorem coinsOf_nodup (S : Store) (w : Wid) (h : NodupKeys S.unspent) :
    ((coinsOf S w).map (fun c => (c.tx, c.idx))).Nodup := by
  unfold coinsOf
  unfold NodupKeys at h
  generalize S.unspent = u at h
  induction u with
  | nil => simp
  | cons e u ih =>
    obtain ⟨⟨w', tx, idx⟩, bm⟩ := e
    simp only [List.map_cons, List.nodup_cons] at h
    simp only [List.filterMap_cons]
    by_cases hw : w' = w
    · subst hw
      simp only [if_true]
      cases hcr : AMap.get S.credits ⟨tx, bm, idx⟩ with
      | none => simpa using ih h.2
      | some cr =>
        by_cases hz : cr.amt = 0
        · simpa [hz] using ih h.2
        · simp only [hz, if_false, List.map_cons, List.nodup_cons]
          refine ⟨?_, ih h.2⟩
          intro hm
          apply h.1
          rcases List.mem_map.1 hm with ⟨c, hc, hk⟩
          rcases List.mem_filterMap.1 hc with ⟨e', he', hsome⟩
          obtain ⟨⟨w'', tx', idx'⟩, bm'⟩ := e'
          by_cases hw2 : w'' = w'
          · subst hw2
            simp only [if_true] at hsome
            cases hcr' : AMap.get S.credits ⟨tx', bm', idx'⟩ with
            | none => simp [hcr'] at hsome
            | some cr' =>
              simp only [hcr'] at hsome
              by_cases hz' : cr'.amt = 0
              · simp [hz'] at hsome
              · simp only [hz', if_false, Option.some.injEq] at hsome
                subst hsome
                simp only [Prod.mk.injEq] at hk
                rcases hk with ⟨h1, h2⟩
                subst h1; subst h2
                exact List.mem_map.2 ⟨_, he', rfl⟩
          · simp [hw2] at hsome
    · simpa [hw] using ih h.2

end MW.Lemmas.Iso
