/-
  C08, reorganisations BELOW the floor between two removal steps — a whole tip notification (`processM`: extension, or
  reorganisation of ANY depth) on the ghost store and on the real store: if the database transaction succeeded on the real
  store, the in-progress state `P2W` is re-established for the announced chain.
  The ghost's own run exists by `FJ` (C07's abstract loops, `MW.Lemmas.RemoveFlagged`); the real run is a hypothesis; the
  disconnect loops run in lock step (height-indexed two-run lemmas), the connect steps are simulated.
-/
import MW.Lemmas.RemoveBelow
namespace MW.Lemmas.RemoveInterleave
open MW MW.Model.Ledger MW.Model.Remove MW.Spec.Chain MW.Spec.Books MW.Lemmas.Ledger MW.Lemmas.RemoveProj
  MW.Lemmas.RemoveChar MW.Lemmas.RemoveBooks MW.Lemmas.RemoveInv MW.Lemmas.RemoveMain MW.Lemmas.RemoveUpper
  MW.Lemmas.RemoveJoin MW.Lemmas.RemoveGlue MW.Lemmas.RemoveFlagged MW.Lemmas.ImportReorg MW.Lemmas.ImportJoin
  MW.Lemmas.RemoveSim MW.Lemmas.LedgerWFCred MW.Lemmas.RemoveSimW MW.Lemmas.RemoveKeep

-- ------------------------------------------------------------------ the disconnect loops, height-indexed relation

/-- `R k g s`: ghost and real store, both following the stored chain up to height `k` -/
structure LoopIfaceR (c : Ctx) (R : Nat → Store → Store → Prop) : Prop where
  sync : ∀ {k : Nat} {g s : Store}, R k g s → s.sync = g.sync
  step : ∀ {k : Nat} {g s g' s' : Store}, 0 < k → R k g s → disconnectBlock c g k = .ok g' →
    disconnectBlock c s k = .ok s' → R (k - 1) g' s'

section loops
variable {c : Ctx} {R : Nat → Store → Store → Prop}

theorem disconnectDown_relR (H : LoopIfaceR c R) (nbH : Nat) :
    ∀ (fuel : Nat) (g s : Store) (curH : Nat) (rolled : List Nat) (rg rs : Store × Nat × List Nat),
      R curH g s → disconnectDown c nbH fuel g curH rolled = .ok rg →
      disconnectDown c nbH fuel s curH rolled = .ok rs → R rg.2.1 rg.1 rs.1 ∧ rs.2 = rg.2 := by
  intro fuel
  induction fuel with
  | zero =>
    intro g s curH rolled rg rs hR hg hs
    unfold disconnectDown at hg hs
    cases hg; cases hs
    exact ⟨hR, rfl⟩
  | succ fuel ih =>
    intro g s curH rolled rg rs hR hg hs
    unfold disconnectDown at hg hs
    by_cases hgt : curH > nbH
    · rw [if_pos hgt] at hg hs
      obtain ⟨g1, h1, h2⟩ := M_bind_ok hg
      obtain ⟨s1, k1, k2⟩ := M_bind_ok hs
      exact ih g1 s1 (curH - 1) (rolled ++ [curH]) rg rs (H.step (by omega) hR h1 k1) h2 k2
    · rw [if_neg hgt] at hg hs
      cases hg; cases hs
      exact ⟨hR, rfl⟩

theorem walkBack_relR (H : LoopIfaceR c R) :
    ∀ (fuel : Nat) (gw sw : Walk) (rg rs : Walk × Bool),
      R (gw.prevH + 1) gw.s sw.s → WalkEq gw sw → walkBack c fuel gw = .ok rg → walkBack c fuel sw = .ok rs →
      R (rg.1.prevH + 1) rg.1.s rs.1.s ∧ WalkEq rg.1 rs.1 ∧ rs.2 = rg.2 := by
  intro fuel
  induction fuel with
  | zero =>
    intro gw sw rg rs hR hE hg hs
    unfold walkBack at hg hs
    cases hg; cases hs
    exact ⟨hR, hE, rfl⟩
  | succ fuel ih =>
    intro gw sw rg rs hR hE hg hs
    obtain ⟨e1, e2, e3, e4, e5⟩ := hE
    unfold walkBack at hg hs
    rw [e1, e2, e3] at hs
    by_cases hne : gw.tail.prev ≠ gw.prevHash
    · rw [if_pos hne] at hg hs
      obtain ⟨g1, h1, h2⟩ := M_bind_ok hg
      obtain ⟨s1, k1, k2⟩ := M_bind_ok hs
      have hR1 := H.step (Nat.succ_pos _) hR h1 k1
      by_cases h0 : gw.prevH = 0
      · rw [if_pos h0] at h2; cases h2
      · rw [if_neg h0] at h2 k2
        rw [H.sync hR1] at k2
        cases hsy : AMap.get g1.sync (gw.prevH - 1) with
        | none => rw [hsy] at h2; cases h2
        | some ph' =>
          rw [hsy] at h2 k2
          dsimp only at h2 k2
          cases hf : c.node.fetchBlock gw.tail.prev with
          | none => rw [hf] at h2; cases h2
          | some pb =>
            rw [hf] at h2 k2
            dsimp only at h2 k2
            rw [e4, e5] at k2
            refine ih { s := g1, prevH := gw.prevH - 1, prevHash := ph', tail := pb, tc := gw.tail :: gw.tc,
                        rolled := gw.rolled ++ [gw.prevH + 1] }
              { s := s1, prevH := gw.prevH - 1, prevHash := ph', tail := pb, tc := gw.tail :: gw.tc,
                rolled := gw.rolled ++ [gw.prevH + 1] } rg rs ?_ ⟨rfl, rfl, rfl, rfl, rfl⟩ h2 k2
            show R (gw.prevH - 1 + 1) g1 s1
            rw [show gw.prevH - 1 + 1 = gw.prevH + 1 - 1 by omega]
            exact hR1
    · rw [if_neg hne] at hg hs
      cases hg; cases hs
      exact ⟨hR, ⟨e1, e2, e3, e4, e5⟩, rfl⟩

/-- reorg step 2 on both stores; `f` = the height both stores end at -/
theorem reorgDisconnect_relR (H : LoopIfaceR c R) {g s : Store} {best : BlockMeta} {nb : Block} {tc : List Block}
    {rg rs : Store × List Nat × List Block}
    (hR : R best.height g s)
    (hg : reorgDisconnect c g best nb tc = .ok rg) (hs : reorgDisconnect c s best nb tc = .ok rs) :
    (∃ f, R f rg.1 rs.1) ∧ rs.2 = rg.2 := by
  unfold reorgDisconnect at hg hs
  by_cases hb : best.hash = nb.id
  · rw [if_pos hb] at hg hs
    cases hg; cases hs
    exact ⟨⟨_, hR⟩, rfl⟩
  · rw [if_neg hb] at hg hs
    obtain ⟨r1, h1, h2⟩ := M_bind_ok hg
    obtain ⟨q1, k1, k2⟩ := M_bind_ok hs
    obtain ⟨hR1, he⟩ := disconnectDown_relR H nb.height _ _ _ _ _ r1 q1 hR h1 k1
    obtain ⟨g1, curH, rolled⟩ := r1
    obtain ⟨s1, curH', rolled'⟩ := q1
    simp only [Prod.mk.injEq] at he
    obtain ⟨he1, he2⟩ := he
    subst he1; subst he2
    dsimp only at h2 k2 hR1
    rw [H.sync hR1] at k2
    cases hsy : AMap.get g1.sync curH' with
    | none => rw [hsy] at h2; cases h2
    | some bh =>
      rw [hsy] at h2 k2
      dsimp only at h2 k2
      by_cases hbn : bh = nb.id
      · rw [if_pos hbn] at h2 k2
        cases h2; cases k2
        exact ⟨⟨_, hR1⟩, rfl⟩
      · rw [if_neg hbn] at h2 k2
        by_cases hc0 : curH' = 0
        · rw [if_pos hc0] at h2; cases h2
        · rw [if_neg hc0] at h2 k2
          cases hsy2 : AMap.get g1.sync (curH' - 1) with
          | none => rw [hsy2] at h2; cases h2
          | some ph =>
            rw [hsy2] at h2 k2
            dsimp only at h2 k2
            obtain ⟨wg, h3, h4⟩ := M_bind_ok h2
            obtain ⟨ws, k3, k4⟩ := M_bind_ok k2
            obtain ⟨hR2, hE2, hd⟩ := walkBack_relR H _
              { s := g1, prevH := curH' - 1, prevHash := ph, tail := nb, tc := tc, rolled := rolled' }
              { s := s1, prevH := curH' - 1, prevHash := ph, tail := nb, tc := tc, rolled := rolled' } wg ws
              (by show R (curH' - 1 + 1) g1 s1; rw [show curH' - 1 + 1 = curH' by omega]; exact hR1)
              ⟨rfl, rfl, rfl, rfl, rfl⟩ h3 k3
            obtain ⟨gw, gd⟩ := wg
            obtain ⟨sw, sd⟩ := ws
            dsimp only at hR2 hE2 hd h4 k4
            obtain ⟨e1, e2, e3, e4, e5⟩ := hE2
            cases gd with
            | false => cases h4
            | true =>
              rw [hd] at k4
              simp only [Bool.not_true, Bool.false_eq_true, if_false] at h4 k4
              obtain ⟨g3, h5, h6⟩ := M_bind_ok h4
              obtain ⟨s3, k5, k6⟩ := M_bind_ok k4
              rw [e1] at k5
              have hR3 := H.step (Nat.succ_pos _) hR2 h5 k5
              cases h6; cases k6
              refine ⟨⟨_, hR3⟩, ?_⟩
              rw [e1, e3, e4, e5]

end loops

-- ------------------------------------------------------------------ the instance: the in-progress state `P2W`

section inst
variable {c : Ctx} {w : Wid} {addrs : List Addr} {own' : Own}

/-- ghost and real store follow the stored chain `S` up to height `k` -/
def RW (c : Ctx) (w : Wid) (addrs : List Addr) (own' : Own) (S : List Block) (k : Nat) (g s : Store) : Prop :=
  k < S.length ∧ ∃ kk, P2W c w addrs own' g s (S.take (k + 1)) kk

theorem loopIfaceR_p2w (hS : Static c w addrs own') {S : List Block} (hgS : GoodChain S) (hvS : ChainValid c.own S)
    (hknS : ∀ y ∈ S, AMap.get c.node.known y.id = some y) : LoopIfaceR c (RW c w addrs own' S) where
  sync := fun h => by obtain ⟨_, _, hP⟩ := h; exact hP.sub.sync
  step := by
    intro k g s g' s' hk0 hR hg hs
    obtain ⟨hkl, kk, hP⟩ := hR
    have hx : S[k]? = some S[k] := List.getElem?_eq_getElem hkl
    have e := take_succ_of_get hx
    have hbh : S[k].height = k := hgS.height_at hx
    have hne : S.take k ≠ [] := by
      intro h0
      have := congrArg List.length h0
      rw [List.length_take, List.length_nil] at this
      omega
    have hV : ChainValid c.own (S.take k ++ [S[k]]) := by rw [← e]; exact chainValid_take hvS _
    have hH : HeightsOK (S.take k ++ [S[k]]) := by rw [← e]; exact heightsOK_take hgS.heights _
    have hkn : ∀ y ∈ S.take k ++ [S[k]], AMap.get c.node.known y.id = some y := by
      rw [← e]; exact fun y hy => hknS y (List.mem_of_mem_take hy)
    rw [e] at hP
    rw [← hbh] at hg hs
    obtain ⟨k', hP'⟩ := p2w_disc hS hV hH hkn hne hP hg hs
    refine ⟨by omega, k', ?_⟩
    rw [show k - 1 + 1 = k by omega]
    exact hP'

/-- the connect loop of `reorg` on both stores -/
theorem p2w_connAll (hS : Static c w addrs own') (hgN : GoodChain c.node.chain) (hvN : ChainValid c.own c.node.chain)
    (hknN : ∀ y ∈ c.node.chain, AMap.get c.node.known y.id = some y) :
    ∀ (d : Nat) (g s : Store) (kk f B : Nat) (ready : List Wid) (added : List (Nat × List TxId)), B - f = d → f ≤ B →
      B < c.node.chain.length → P2W c w addrs own' g s (c.node.chain.take (f + 1)) kk →
      ready = readyWallets s c.wallets →
      ∃ g' s' added', connectAll c ready ((c.node.chain.take (B + 1)).drop (f + 1)) s added = .ok (s', added') ∧
        P2W c w addrs own' g' s' (c.node.chain.take (B + 1)) kk := by
  intro d
  induction d with
  | zero =>
    intro g s kk f B ready added hd hfB _ hI _
    have : f = B := by omega
    subst this
    refine ⟨g, s, added, ?_, hI⟩
    rw [List.drop_take]; simp [connectAll]
  | succ d ih =>
    intro g s kk f B ready added hd hfB hBl hI hr
    have hx : c.node.chain[f + 1]? = some c.node.chain[f + 1] := List.getElem?_eq_getElem (by omega)
    rw [seg_cons hx (by omega)]
    obtain ⟨g1, s1, conf, _, hfb, hI1, hst1, _⟩ := p2w_connect hS hgN hvN hknN hx hI
    obtain ⟨g2, s2, added2, h2, hI2⟩ := ih g1 s1 kk (f + 1) B ready (added ++ [(c.node.chain[f + 1].height, conf)])
      (by omega) (by omega) hBl hI1 (by rw [hr]; exact (readyWallets_congr hst1 c.wallets).symm)
    refine ⟨g2, s2, added2, ?_, hI2⟩
    unfold connectAll
    rw [hr, hfb]
    simp only [M_ok_bind]
    rw [← hr]
    exact h2

/-- **a tip notification between two removal steps, ANY depth**: the database transaction succeeded on the real
    store ⇒ the in-progress state holds for the announced chain -/
theorem p2w_processM (hS : Static c w addrs own') (hgN : GoodChain c.node.chain) (hvN : ChainValid c.own c.node.chain)
    (hknN : ∀ y ∈ c.node.chain, AMap.get c.node.known y.id = some y)
    {S : List Block} (hgS : GoodChain S) (hvS : ChainValid c.own S)
    (hknS : ∀ y ∈ S, AMap.get c.node.known y.id = some y) (hgen : S[0]? = c.node.chain[0]?)
    (hinj : IdInj (S ++ c.node.chain))
    {g s s' : Store} {k : Nat} {v : Vol} {b : Block} {rolled : List Nat} {added : List (Nat × List TxId)}
    (hP : P2W c w addrs own' g s S k) (hb : c.node.chain[b.height]? = some b) (hv : v.best = tipMeta S)
    (hg0 : b.height = 0 → b.prev ≠ (tipMeta S).hash)
    (hreal : processM c s v b = .ok (s', rolled, added)) :
    ∃ g' k', P2W c w addrs own' g' s' (c.node.chain.take (b.height + 1)) k' := by
  have hKN := hS.keys
  obtain ⟨xH, hxH, htip⟩ := tipMeta_good hgS
  have hSpos := hgS.length_pos
  have HI : RIface c S (FJ c w) (fun _ => True) :=
    ⟨hgN, hgS, hgen, hinj,
     fun {s n k x} hI hk hx => by
       rw [fj_sync hI, syncOf, getElem?_take_of_lt hk, hx]; rfl,
     fun {s k} hk0 hkl hI _ => by
       obtain ⟨s', h1, h2⟩ := fj_disc hKN hgS hvS hknS hk0 hkl hI
       exact ⟨s', h1, h2, trivial⟩⟩
  unfold processM at hreal
  rw [hv] at hreal
  by_cases hp : b.prev = (tipMeta S).hash
  · rw [if_pos hp] at hreal
    have hB0 : ¬ b.height = 0 := fun h0 => hg0 h0 hp
    obtain ⟨k0, hk0⟩ : ∃ k0, b.height = k0 + 1 := ⟨b.height - 1, by omega⟩
    have hb' := hb
    rw [hk0] at hb'
    have hkN : k0 < c.node.chain.length := by have := (List.getElem?_eq_some_iff.1 hb').1; omega
    have hy : c.node.chain[k0]? = some c.node.chain[k0] := List.getElem?_eq_getElem hkN
    have hid : xH.id = c.node.chain[k0].id := by
      rw [← hgN.prev_at hy hb', hp, htip]
    have hpos := pos_of_id hgS hgN hinj hxH hy hid
    have hpre := prefix_of_id hgS hgN hinj _ _ _ hxH (by rw [hpos]; exact hy) hid
    rw [show S.length - 1 + 1 = S.length by omega, List.take_length] at hpre
    have hSlen : S.length = k0 + 1 := by omega
    replace hpre : S = c.node.chain.take (k0 + 1) := by rw [← hSlen]; exact hpre
    rw [hpre] at hP
    obtain ⟨g', s2, conf, _, hfb, hP', _, _⟩ := p2w_connect hS hgN hvN hknN hb' hP
    obtain ⟨r, q1, q2⟩ := M_bind_ok hreal
    rw [hfb] at q1
    cases q1
    cases q2
    exact ⟨g', k, by rw [hk0]; exact hP'⟩
  · rw [if_neg hp] at hreal
    obtain ⟨nb, hnb, hal⟩ := alignNew_min hgN hinj.right (S.length - 1) hb
    have hFJ : FJ c w g S := ⟨k, hP.len, hP.ghost.scan, hP.ghost.flag, hP.ghost.allReady, hP.ghost.nonempty⟩
    obtain ⟨f, g1, hfh, hf, _, hrd, hI1, _⟩ :=
      reorgDisconnect_spec HI (h := min b.height (S.length - 1)) (nb := nb)
        ((c.node.chain.take (b.height + 1)).drop (min b.height (S.length - 1) + 1)) hFJ (by omega) hnb trivial
    rw [seg_append _ hfh (by omega)] at hrd
    have hbl : b.height < c.node.chain.length := (List.getElem?_eq_some_iff.1 hb).1
    unfold reorg at hreal
    have hth : (tipMeta S).height = S.length - 1 := by rw [htip]
    rw [hth, hal] at hreal
    simp only [M_ok_bind] at hreal
    obtain ⟨r1, k1, k2⟩ := M_bind_ok hreal
    obtain ⟨s1, rolled1, tc1⟩ := r1
    have hR0 : RW c w addrs own' S (tipMeta S).height g s := by
      rw [hth]
      refine ⟨by omega, k, ?_⟩
      rw [show S.length - 1 + 1 = S.length by omega, List.take_length]
      exact hP
    obtain ⟨⟨f', hRf⟩, heq⟩ := reorgDisconnect_relR (loopIfaceR_p2w hS hgS hvS hknS) hR0 hrd k1
    obtain ⟨hf'l, kk, hP1⟩ := hRf
    dsimp only at hP1 heq
    have hff : f' = f := by
      have h1 := hP1.ghost.scan.syncedTo
      obtain ⟨_, _, hS1, _⟩ := hI1
      have h2 := hS1.syncedTo
      rw [List.length_take] at h1 h2
      omega
    subst hff
    rw [hf] at hP1
    simp only [Prod.mk.injEq] at heq
    obtain ⟨_, htc⟩ := heq
    dsimp only at k2
    obtain ⟨r2, k3, k4⟩ := M_bind_ok k2
    rw [htc] at k3
    obtain ⟨g2, s2, added2, hca, hP2⟩ := p2w_connAll hS hgN hvN hknN (b.height - f') g1 s1 kk f' b.height
      (readyWallets s1 c.wallets) [] rfl (by omega) hbl hP1 rfl
    rw [hca] at k3
    cases k3
    cases k4
    exact ⟨g2, kk, hP2⟩

end inst

end MW.Lemmas.RemoveInterleave
