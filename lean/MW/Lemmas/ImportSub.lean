/-
  C07 stage 1 with other wallets in the instance, part 1 — keystore SUB-VIEWS.
  `OwnSub own own' keep`: `own'` is the keystore table `own` restricted to the wallets `keep` accepts (C08's
  `OwnMinus own own' w` is `keep = (· ≠ w)`).  A chain valid for `own` is valid for every sub-view; an owned
  output of the sub-view is an owned output of the full view whose wallet `keep` accepts; the rescan's filter
  (`filterTxForImporting`, which only asks `mine own w`) cannot tell `own` from its restriction to `w`.
-/
import MW.Lemmas.ImportRecords
namespace MW.Lemmas.ImportJoin
open MW MW.Model.Ledger MW.Model.Import MW.Spec.Chain MW.Spec.Books MW.Lemmas.Ledger

/-- `own'` is the keystore view `own` restricted to the wallets `keep` accepts -/
def OwnSub (own own' : Own) (keep : Wid → Bool) : Prop :=
  ∀ a, AMap.get own' a = (AMap.get own a).filter (fun x => keep x.1)

theorem get_none_of_forall {K V : Type} [DecidableEq K] (m : AMap.T K V) (k : K) (h : ∀ x ∈ m, x.1 ≠ k) :
    AMap.get m k = none := by
  induction m with
  | nil => rfl
  | cons a m ih =>
    rw [AMap.get_cons, if_neg (h a (List.mem_cons_self ..))]
    exact ih (fun x hx => h x (List.mem_cons_of_mem _ hx))

/-- filtering a keystore table with pairwise distinct addresses gives such a view -/
theorem ownSub_filter {own : Own} (hn : KeysNodup own) (keep : Wid → Bool) :
    OwnSub own (own.filter (fun e => keep e.2.1)) keep := by
  intro a
  induction own with
  | nil => rfl
  | cons e m ih =>
    unfold KeysNodup at hn
    simp only [List.map_cons, List.nodup_cons] at hn
    have ih' := ih hn.2
    by_cases hw : keep e.2.1 = true
    · simp only [List.filter, hw]
      rw [AMap.get_cons, AMap.get_cons]
      by_cases hk : e.1 = a
      · simp [hk, Option.filter, hw]
      · simp only [hk, if_false]; exact ih'
    · have hw' : keep e.2.1 = false := by simpa using hw
      simp only [List.filter, hw']
      rw [ih', AMap.get_cons]
      by_cases hk : e.1 = a
      · simp only [hk, if_true]
        have hnone : AMap.get m a = none := by
          apply get_none_of_forall
          intro x hx hxa
          exact hn.1 (List.mem_map.2 ⟨x, hx, by rw [hxa, hk]⟩)
        rw [hnone]
        simp [Option.filter, hw']
      · simp [hk]

section
variable {own own' : Own} {keep : Wid → Bool}

theorem ownerOf_sub (hO : OwnSub own own' keep) (o : Out) :
    ownerOf own' o = (ownerOf own o).filter (fun x => keep x.1) := by
  unfold ownerOf
  by_cases hr : o.cls = .raw
  · simp [hr]
  · simp only [hr, if_false]; exact hO o.addr

theorem ownerOf_sub_some (hO : OwnSub own own' keep) {o : Out} {x : Wid × Bool} :
    ownerOf own' o = some x ↔ ownerOf own o = some x ∧ keep x.1 = true := by
  rw [ownerOf_sub hO]
  cases h : ownerOf own o with
  | none => simp
  | some y =>
    by_cases hy : keep y.1 = true
    · simp only [Option.filter, hy, if_true, Option.some.injEq]
      constructor
      · intro h'; subst h'; exact ⟨rfl, hy⟩
      · exact fun h' => h'.1
    · simp only [Option.filter, hy, Bool.false_eq_true, if_false]
      constructor
      · intro h'; cases h'
      · rintro ⟨h1, h2⟩; cases h1; exact absurd h2 hy

theorem ownerOf_sub_isSome (hO : OwnSub own own' keep) {o : Out} (h : (ownerOf own' o).isSome = true) :
    (ownerOf own o).isSome = true := by
  cases h' : ownerOf own' o with
  | none => rw [h'] at h; cases h
  | some x => rw [((ownerOf_sub_some hO).1 h').1]; rfl

theorem createdIn_sub (hO : OwnSub own own' keep) {P : List Occ} {u : UCoin} :
    CreatedIn own' P u ↔ CreatedIn own P u ∧ keep u.wallet = true := by
  unfold CreatedIn
  constructor
  · rintro ⟨oc, hoc, h1, h2, h3, h4, h5⟩
    obtain ⟨h3a, h3b⟩ := (ownerOf_sub_some hO).1 h3
    exact ⟨⟨oc, hoc, h1, h2, h3a, h4, h5⟩, h3b⟩
  · rintro ⟨⟨oc, hoc, h1, h2, h3, h4, h5⟩, hw⟩
    exact ⟨oc, hoc, h1, h2, (ownerOf_sub_some hO).2 ⟨h3, hw⟩, h4, h5⟩

theorem bindingSrc_sub (hO : OwnSub own own' keep) (P : List Occ) (i : Inp) (h : bindingSrc own' P i = true) :
    bindingSrc own P i = true := by
  unfold bindingSrc at h ⊢
  cases hs : srcOut P i.tx i.idx with
  | none => rw [hs] at h; cases h
  | some o =>
    rw [hs] at h
    simp only [Bool.and_eq_true] at h ⊢
    exact ⟨ownerOf_sub_isSome hO h.1, h.2⟩

theorem occValid_sub (hO : OwnSub own own' keep) {P : List Occ} {oc : Occ} (h : OccValid own P oc) :
    OccValid own' P oc := by
  obtain ⟨h1, h2, h3, h4, h5⟩ := h
  refine ⟨h1, h2, h3, h4, ?_⟩
  cases hb : (!oc.t.cb && oc.t.ins.any (bindingSrc own' P) &&
      oc.t.outs.any (fun o => (ownerOf own' o).isSome && o.cls.isBinding)) with
  | false => rfl
  | true =>
    exfalso
    simp only [Bool.and_eq_true, List.any_eq_true, Bool.not_eq_true'] at hb
    obtain ⟨⟨hcb, i, hi, hbi⟩, o, ho, hoo, hob⟩ := hb
    have : (!oc.t.cb && oc.t.ins.any (bindingSrc own P) &&
      oc.t.outs.any (fun o => (ownerOf own o).isSome && o.cls.isBinding)) = true := by
      simp only [Bool.and_eq_true, List.any_eq_true, Bool.not_eq_true']
      exact ⟨⟨hcb, i, hi, bindingSrc_sub hO P i hbi⟩, o, ho, ownerOf_sub_isSome hO hoo, hob⟩
    rw [this] at h5; cases h5

theorem validFrom_sub (hO : OwnSub own own' keep) {P rest : List Occ} (h : ValidFrom own P rest) :
    ValidFrom own' P rest := by
  induction rest generalizing P with
  | nil => trivial
  | cons oc rest ih => exact ⟨occValid_sub hO h.1, ih h.2⟩

/-- a chain that is valid for the full keystore view is valid for every sub-view -/
theorem chainValid_sub (hO : OwnSub own own' keep) {chain : List Block} (h : ChainValid own chain) :
    ChainValid own' chain := validFrom_sub hO h

end

-- ------------------------------------------------------------------ the rescan's filter looks at `w` only

/-- the restriction of the keystore table to wallet `w` -/
def ownW (own : Own) (w : Wid) : Own := own.filter (fun e => decide (e.2.1 = w))

/-- the keystore table without wallet `w` (the statement of `import_exact_static_full` writes it this way) -/
def ownR (own : Own) (w : Wid) : Own := own.filter (fun e => e.2.1 ≠ w)

theorem ownW_sub {own : Own} (hn : KeysNodup own) (w : Wid) : OwnSub own (ownW own w) (fun x => decide (x = w)) :=
  ownSub_filter hn (fun x => decide (x = w))

theorem ownR_sub {own : Own} (hn : KeysNodup own) (w : Wid) : OwnSub own (ownR own w) (fun x => decide (x ≠ w)) :=
  ownSub_filter hn (fun x => decide (x ≠ w))

theorem allReady_ownW {own ow : Own} {w : Wid} (hO : OwnSub own ow (fun x => decide (x = w))) : AllReady ow [w] := by
  intro a w' ch h
  rw [hO a] at h
  cases hg : AMap.get own a with
  | none => rw [hg] at h; cases h
  | some x =>
    rw [hg] at h
    by_cases hx : x.1 = w
    · simp only [Option.filter, hx, decide_true, if_true, Option.some.injEq] at h
      have : w' = x.1 := by rw [h]
      rw [this, hx]; simp
    · simp [Option.filter, hx] at h

theorem mine_sub {own ow : Own} {w : Wid} (hO : OwnSub own ow (fun x => decide (x = w))) (a : Addr) :
    mine ow w a = mine own w a := by
  unfold mine
  rw [hO a]
  cases hg : AMap.get own a with
  | none => rfl
  | some x =>
    obtain ⟨w', ch⟩ := x
    by_cases hx : w' = w <;> simp [Option.filter, hx]

theorem managed_ownW (own : Own) (w : Wid) : managed (ownW own w) w = managed own w := by
  unfold managed ownW
  induction own with
  | nil => rfl
  | cons e m ih =>
    by_cases he : e.2.1 = w
    · simp [List.filter, he, ih]
    · simp [List.filter, he, ih]

/-- `filterTxForImporting` asks the keystore table only through `mine · w` -/
theorem filterImp_sub {own ow : Own} {w : Wid} (hO : OwnSub own ow (fun x => decide (x = w))) (n : Node) (tx : Tx)
    (height : Nat) : filterTxForImporting n w own tx height = filterTxForImporting n w ow tx height := by
  have hm : mine ow w = mine own w := funext (mine_sub hO)
  have h1 : relIn1 n ow w height = relIn1 n own w height := by
    funext q; unfold relIn1; rw [hm]
  have h2 : relOut1 ow w = relOut1 own w := by
    funext q; unfold relOut1; rw [hm]
  unfold filterTxForImporting
  rw [h1, h2]

end MW.Lemmas.ImportJoin
