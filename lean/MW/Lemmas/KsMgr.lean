/-
  Helper lemmas for C12 / C04: the address-manager cache (Mgr.add, loadMgr, windowPass).
-/
import MW.Model.Keystore
import MW.Spec.Keystore
namespace MW.Lemmas.KsMgr
open MW MW.Model.Keystore

variable {Priv Pub Addr : Type} [DecidableEq Addr] (sch : Scheme Priv Pub Addr)

/-- every cached address entry is filed under its own address -/
def AddrsOK (m : Mgr Pub Addr) : Prop := ∀ x ma, AMap.get m.addrs x = some ma → ma.addr = x

/-- every cached entry carries the key and address derived from the function `P` (branch, index ↦ key) -/
def EntriesFrom (P : Nat → Nat → Pub) (m : Mgr Pub Addr) : Prop :=
  ∀ x ma, AMap.get m.addrs x = some ma → ma.pub = P ma.branch ma.index ∧ ma.addr = sch.addrOf ma.pub

theorem add_index (m : Mgr Pub Addr) (a : MAddr Pub Addr) (k : Nat × Nat) :
    AMap.get (m.add a).index k = if (a.branch, a.index) = k then some a.addr else AMap.get m.index k := by
  unfold Mgr.add; simp only; rw [AMap.get_put]

theorem add_addrs (m : Mgr Pub Addr) (a : MAddr Pub Addr) (x : Addr) :
    AMap.get (m.add a).addrs x = if a.addr = x then some a else AMap.get m.addrs x := by
  unfold Mgr.add; simp only; rw [AMap.get_put]

@[simp] theorem add_hasPriv (m : Mgr Pub Addr) (a : MAddr Pub Addr) : (m.add a).hasPriv = m.hasPriv := rfl

theorem addrsOK_empty : AddrsOK ({} : Mgr Pub Addr) := by
  intro x ma h; simp [AMap.get] at h

theorem addrsOK_add (m : Mgr Pub Addr) (a : MAddr Pub Addr) (h : AddrsOK m) : AddrsOK (m.add a) := by
  intro x ma hx
  rw [add_addrs] at hx
  by_cases hk : a.addr = x
  · simp [hk] at hx; subst hx; exact hk
  · simp [hk] at hx; exact h x ma hx

theorem addrsOK_fold (m : Mgr Pub Addr) (l : List (MAddr Pub Addr)) (h : AddrsOK m) :
    AddrsOK (updateManaged m l) := by
  unfold updateManaged
  induction l generalizing m with
  | nil => exact h
  | cons a l ih => exact ih (m.add a) (addrsOK_add m a h)

/-- lookups in the cache rebuilt from bucket "pub" -/
theorem loadMgr_index (pubs : AMap.T (Nat × Nat) Pub) (k : Nat × Nat) :
    AMap.get (loadMgr sch pubs).index k = (AMap.get pubs k).map sch.addrOf := by
  induction pubs with
  | nil => simp [loadMgr, AMap.get]
  | cons e pubs ih =>
    have : loadMgr sch (e :: pubs) = (loadMgr sch pubs).add (mkAddr sch e.2 e.1.1 e.1.2) := rfl
    rw [this, add_index, AMap.get_cons, ih]
    by_cases hk : e.1 = k
    · simp [mkAddr, hk]
    · have : ¬ ((mkAddr sch e.2 e.1.1 e.1.2 : MAddr Pub Addr).branch, (mkAddr sch e.2 e.1.1 e.1.2 : MAddr Pub Addr).index) = k := by
        simpa [mkAddr] using hk
      simp [hk, this]

theorem loadMgr_addrsOK (pubs : AMap.T (Nat × Nat) Pub) : AddrsOK (loadMgr sch pubs) := by
  induction pubs with
  | nil => exact addrsOK_empty
  | cons e pubs ih => exact addrsOK_add _ _ ih

theorem loadMgr_hasPriv (pubs : AMap.T (Nat × Nat) Pub) : (loadMgr sch pubs).hasPriv = false := by
  induction pubs with
  | nil => rfl
  | cons e pubs ih =>
    have : loadMgr sch (e :: pubs) = (loadMgr sch pubs).add (mkAddr sch e.2 e.1.1 e.1.2) := rfl
    rw [this, add_hasPriv, ih]

/-- every key of bucket "pub" has its address in the rebuilt cache -/
theorem loadMgr_has (pubs : AMap.T (Nat × Nat) Pub) (k : Nat × Nat) (p : Pub) (h : AMap.get pubs k = some p) :
    (AMap.get (loadMgr sch pubs).addrs (sch.addrOf p)).isSome = true := by
  induction pubs with
  | nil => simp [AMap.get] at h
  | cons e pubs ih =>
    have : loadMgr sch (e :: pubs) = (loadMgr sch pubs).add (mkAddr sch e.2 e.1.1 e.1.2) := rfl
    rw [this, add_addrs]
    rw [AMap.get_cons] at h
    by_cases hk : e.1 = k
    · simp [hk] at h; subst h; simp [mkAddr]
    · simp [hk] at h
      by_cases ha : (mkAddr sch e.2 e.1.1 e.1.2 : MAddr Pub Addr).addr = sch.addrOf p
      · simp [ha]
      · simp [ha]; exact ih h

/-- every entry of the rebuilt cache comes from a record of bucket "pub" -/
theorem loadMgr_entry (pubs : AMap.T (Nat × Nat) Pub) (x : Addr) (ma : MAddr Pub Addr)
    (h : AMap.get (loadMgr sch pubs).addrs x = some ma) :
    (ma.branch, ma.index, ma.pub) ∈ pubs.map (fun e => (e.1.1, e.1.2, e.2)) ∧ ma.addr = sch.addrOf ma.pub := by
  induction pubs with
  | nil => simp [loadMgr, AMap.get] at h
  | cons e pubs ih =>
    have : loadMgr sch (e :: pubs) = (loadMgr sch pubs).add (mkAddr sch e.2 e.1.1 e.1.2) := rfl
    rw [this, add_addrs] at h
    by_cases ha : (mkAddr sch e.2 e.1.1 e.1.2 : MAddr Pub Addr).addr = x
    · simp [ha] at h; subst h; simp [mkAddr]
    · simp [ha] at h
      obtain ⟨h1, h2⟩ := ih h
      exact ⟨List.mem_cons_of_mem _ h1, h2⟩

/-- coherence of the cache with a key chain on branch `b`, indexes below `n`:
    `A i` is the address the chain has at index `i` -/
def Coh (m : Mgr Pub Addr) (b n : Nat) (A : Nat → Addr) : Prop :=
  ∀ i, i < n → AMap.get m.index (b, i) = some (A i) ∧ (AMap.get m.addrs (A i)).isSome = true

/-- under coherence the window loop computes "some address of the window has history" -/
theorem windowPass_eq (m : Mgr Pub Addr) (used : Addr → Bool) (b n : Nat) (A : Nat → Addr)
    (hA : AddrsOK m) (hC : Coh m b n A) (is : List Nat) (his : ∀ i ∈ is, i < n) :
    windowPass m used b is = .ok (is.any (fun i => used (A i))) := by
  induction is with
  | nil => rfl
  | cons i is ih =>
    have hi := hC i (his i (List.mem_cons_self))
    have ih' := ih (fun j hj => his j (List.mem_cons_of_mem _ hj))
    unfold windowPass
    rw [hi.1]
    simp only
    cases hg : AMap.get m.addrs (A i) with
    | none => rw [hg] at hi; simp at hi
    | some ma =>
      simp only
      have : ma.addr = A i := hA _ _ hg
      rw [this, ih']
      by_cases hu : used (A i) = true
      · simp [hu]
      · simp [hu]

theorem coh_add_other (m : Mgr Pub Addr) (a : MAddr Pub Addr) (b n : Nat) (A : Nat → Addr)
    (hC : Coh m b n A) (hne : ∀ i, i < n → (a.branch, a.index) ≠ (b, i)) : Coh (m.add a) b n A := by
  intro i hi
  obtain ⟨h1, h2⟩ := hC i hi
  constructor
  · rw [add_index]; simp [hne i hi, h1]
  · rw [add_addrs]
    by_cases ha : a.addr = A i
    · simp [ha]
    · simp [ha, h2]

theorem coh_add_next (m : Mgr Pub Addr) (b n : Nat) (A : Nat → Addr) (p : Pub)
    (hp : sch.addrOf p = A n) (hC : Coh m b n A) : Coh (m.add (mkAddr sch p b n)) b (n + 1) A := by
  intro i hi
  by_cases hin : i = n
  · subst hin
    constructor
    · rw [add_index]; simp [mkAddr, hp]
    · rw [add_addrs]; simp [mkAddr, hp]
  · have hlt : i < n := by omega
    have := coh_add_other m (mkAddr sch p b n) b n A hC (by
      intro j hj h; simp [mkAddr] at h; omega)
    exact this i hlt

theorem coh_hasPriv (m : Mgr Pub Addr) (b n : Nat) (A : Nat → Addr) (f : Bool) (hC : Coh m b n A) :
    Coh { m with hasPriv := f } b n A := hC

/-- the cache rebuilt from a bucket that holds the chain's keys is coherent -/
theorem coh_loadMgr (pubs : AMap.T (Nat × Nat) Pub) (b n : Nat) (P : Nat → Pub)
    (h : ∀ i, i < n → AMap.get pubs (b, i) = some (P i)) :
    Coh (loadMgr sch pubs) b n (fun i => sch.addrOf (P i)) := by
  intro i hi
  constructor
  · rw [loadMgr_index, h i hi]; rfl
  · exact loadMgr_has sch pubs (b, i) (P i) (h i hi)

end MW.Lemmas.KsMgr
