/-
  Helper lemmas for C09, part 8: receiving a transaction (addRelevantUnmined) and the preservation of the
  well-formedness `PendWF` by receive, confirm and the coinbase purge of Rollback.
-/
import MW.Lemmas.LedgerPendingRecv
namespace MW.Lemmas.LedgerPending
open MW MW.Model.Ledger

/-- RECEIVE, new transaction: the store after addRelevantUnmined of a transaction that was not pending -/
theorem addRelevantUnmined_new (s s' : Store) (tr : TxRec) (h : addRelevantUnmined s tr = .ok s')
    (hnew : AMap.get s.pending tr.tx.id = none) :
    s'.pending = AMap.put s.pending tr.tx.id tr.tx ∧
    s'.pendIns = (insertUnminedInputs { s with pending := AMap.put s.pending tr.tx.id tr.tx } tr).pendIns ∧
    minedOf s' = minedOf s ∧
    (∀ k, (AMap.get s.pendCred k).isSome → (AMap.get s'.pendCred k).isSome) ∧
    (∀ rel ∈ tr.relOut, (AMap.get s'.pendCred (tr.tx.id, rel.index)).isSome ∧
      AMap.get s'.unspent (rel.wallet, tr.tx.id, rel.index) = none) := by
  unfold addRelevantUnmined at h
  split at h
  · cases h
  · rw [hnew] at h
    simp only [Option.isSome_none, Bool.false_eq_true, if_false] at h
    have hf := insertUnminedInputs_frame { s with pending := AMap.put s.pending tr.tx.id tr.tx } tr
    simp only [exceptIns, Prod.mk.injEq] at hf
    obtain ⟨f1, f2, f3, f4⟩ := hf
    split at h
    · rename_i hemp
      simp only [pure, Except.pure, Except.ok.injEq] at h
      subst h
      refine ⟨f1, rfl, f4, fun k hk => by rw [f2]; exact hk, fun rel hrel => ?_⟩
      rw [List.isEmpty_iff] at hemp; rw [hemp] at hrel; cases hrel
    · obtain ⟨a1, a2, a3⟩ := addUnminedCredits_ok _ s' tr h
      simp only [exceptCredGame, Prod.mk.injEq] at a1
      obtain ⟨b1, b2, b3⟩ := a1
      exact ⟨b1.trans f1, b2, b3.trans f4, fun k hk => a2 k (by rw [f2]; exact hk), a3⟩

/-- … every input of the received transaction is flagged spent-by-unconfirmed -/
theorem addRelevantUnmined_flags (s s' : Store) (tr : TxRec) (h : addRelevantUnmined s tr = .ok s')
    (hnew : AMap.get s.pending tr.tx.id = none) (i : Inp) (hi : i ∈ tr.tx.ins) :
    Listed s' (i.tx, i.idx) tr.tx.id ∧ spentByUnmined s' i.tx i.idx = true := by
  obtain ⟨_, h2, _⟩ := addRelevantUnmined_new s s' tr h hnew
  have hl : Listed s' (i.tx, i.idx) tr.tx.id := by
    unfold Listed; rw [h2]
    exact (insertUnminedInputs_listed _ tr _ _).mpr (Or.inr ⟨rfl, i, hi, rfl⟩)
  refine ⟨hl, ?_⟩
  obtain ⟨l, hg, _⟩ := hl
  unfold spentByUnmined; rw [hg]; rfl

/-- in a well-formed store every input of every pending transaction is flagged -/
theorem flagged_of_wf {rank : TxId → Nat} {s : Store} (hw : PendWF rank s) (id : TxId) (t : Tx)
    (hp : AMap.get s.pending id = some t) (i : Inp) (hi : i ∈ t.ins) : spentByUnmined s i.tx i.idx = true := by
  obtain ⟨l, hg, _⟩ := hw.complete id t hp i hi
  unfold spentByUnmined; rw [hg]; rfl

/-- … and a flagged coin is spent by a pending transaction -/
theorem spender_of_flag {rank : TxId → Nat} {s : Store} (hw : PendWF rank s) (tx : TxId) (idx : Nat)
    (h : spentByUnmined s tx idx = true) : ∃ id t, AMap.get s.pending id = some t ∧ Spends t (tx, idx) := by
  unfold spentByUnmined at h
  cases hg : AMap.get s.pendIns (tx, idx) with
  | none => rw [hg] at h; cases h
  | some l =>
    cases l with
    | nil => exact absurd hg (hw.noEmpty _)
    | cons y ys =>
      obtain ⟨t, ht, hs⟩ := hw.sound (tx, idx) y ⟨_, hg, by simp⟩
      exact ⟨y, t, ht, hs⟩

-- ------------------------------------------------------------------ PendWF is preserved

section inv
variable (rank : TxId → Nat) (own : Own)

/-- RECEIVE preserves well-formedness (the new transaction respects the rank: its inputs are older) -/
theorem addRelevantUnmined_wf (s s' : Store) (tr : TxRec) (hw : PendWF rank s)
    (h : addRelevantUnmined s tr = .ok s') (hnew : AMap.get s.pending tr.tx.id = none)
    (hrank : ∀ i ∈ tr.tx.ins, rank i.tx < rank tr.tx.id) : PendWF rank s' := by
  obtain ⟨h1, h2, _, _, _⟩ := addRelevantUnmined_new s s' tr h hnew
  have hget : ∀ id, AMap.get s'.pending id = if tr.tx.id = id then some tr.tx else AMap.get s.pending id := by
    intro id; rw [h1, AMap.get_put]
  have hlisted : ∀ op x, Listed s' op x ↔ Listed s op x ∨ (x = tr.tx.id ∧ Spends tr.tx op) := by
    intro op x
    have := insertUnminedInputs_listed { s with pending := AMap.put s.pending tr.tx.id tr.tx } tr op x
    unfold Listed at *; rw [h2]; exact this
  refine ⟨?_, ?_, ?_, ?_, ?_⟩
  · intro id t hg
    rw [hget] at hg
    split at hg
    · rename_i hid; cases hg; exact hid
    · exact hw.key_id id t hg
  · intro op id hl
    rcases (hlisted op id).mp hl with hl | ⟨hid, hsp⟩
    · obtain ⟨t, ht, hsp⟩ := hw.sound op id hl
      refine ⟨t, ?_, hsp⟩
      rw [hget]
      split
      · rename_i hid; rw [← hid, hnew] at ht; cases ht
      · exact ht
    · exact ⟨tr.tx, by rw [hget, hid]; simp, hsp⟩
  · intro id t hg i hi
    rw [hget] at hg
    split at hg
    · rename_i hid; cases hg
      exact (hlisted _ _).mpr (Or.inr ⟨hid.symm, i, hi, rfl⟩)
    · exact (hlisted _ _).mpr (Or.inl (hw.complete id t hg i hi))
  · intro op
    have := insertUnminedInputs_noEmpty { s with pending := AMap.put s.pending tr.tx.id tr.tx } tr hw.noEmpty op
    rw [h2]; exact this
  · intro id t hg i hi
    rw [hget] at hg
    split at hg
    · rename_i hid; cases hg; rw [← hid]; exact hrank i hi
    · exact hw.rank id t hg i hi

/-- CONFIRM preserves well-formedness -/
theorem confirmPending_wf (s : Store) (tr : TxRec) (hw : PendWF rank s)
    (hsame : ∀ t, AMap.get s.pending tr.tx.id = some t → t = tr.tx) : PendWF rank (confirmPending own s tr) := by
  -- u: after unpendMined, a: after the purge loop, s': after deleteUnminedInputs
  have hsu := sub_unpendMined s tr.tx
  have hwu : WFw rank (unpendMined s tr.tx) := hw.weak.mono hsu
  obtain ⟨hstep, hkids⟩ := dsLoop_spec rank own (unpendMined s tr.tx) hwu ((unpendMined s tr.tx).pending.length + 1)
    (by omega) tr.tx.ins _ (Step.refl _)
  have hdel := sub_deleteUnminedInputs (dsLoop own ((unpendMined s tr.tx).pending.length + 1) (unpendMined s tr.tx) tr.tx.ins) tr.tx
  have hfr := deleteUnminedInputs_frame (dsLoop own ((unpendMined s tr.tx).pending.length + 1) (unpendMined s tr.tx) tr.tx.ins) tr.tx
  simp only [exceptIns, Prod.mk.injEq] at hfr
  have hcp : confirmPending own s tr = deleteUnminedInputs
      (dsLoop own ((unpendMined s tr.tx).pending.length + 1) (unpendMined s tr.tx) tr.tx.ins) tr.tx := rfl
  have hsub : Sub (confirmPending own s tr) s := by rw [hcp]; exact hdel.trans (hstep.sub.trans hsu)
  have hu_pend : ∀ id t, id ≠ tr.tx.id → AMap.get s.pending id = some t → AMap.get (unpendMined s tr.tx).pending id = some t := by
    intro id t hne hg
    unfold unpendMined
    split
    · show AMap.get (AMap.erase (deleteUnminedCredits s tr.tx).pending tr.tx.id) id = some t
      rw [AMap.get_erase, (deleteUnminedCredits_frame s tr.tx).1]
      simp [Ne.symm hne, hg]
    · exact hg
  have hne' : NoEmpty (confirmPending own s tr) := by
    rw [hcp]
    apply deleteUnminedInputs_noEmpty
    unfold dsLoop
    apply foldl_inv NoEmpty _ _ _ (unpendMined_noEmpty s tr.tx hw.noEmpty)
    intro a i _ ha
    exact killSpenders_inv NoEmpty own _ (fun b t hb => removeConflict_noEmpty own _ b t hb) a _ ha
  refine ⟨fun id t hg => hw.key_id id t (hsub.pending_some hg), ?_, ?_, hne',
    fun id t hg => hw.rank id t (hsub.pending_some hg)⟩
  · -- sound
    intro op id hl
    rw [hcp] at hl
    obtain ⟨hla, hnsp⟩ := (deleteUnminedInputs_listed _ tr.tx op id).mp hl
    have hlu := hstep.sub.ins _ _ hla
    have hls : Listed s op id := by unfold Listed at *; rw [unpendMined_pendIns] at hlu; exact hlu
    obtain ⟨t, ht, hsp⟩ := hw.sound op id hls
    by_cases hid : id = tr.tx.id
    · subst hid; rw [hsame t ht] at hsp; exact absurd hsp hnsp
    · have htu := hu_pend id t hid ht
      have htid := hw.key_id _ _ ht
      rcases hstep.sub.pending_same htu with hta | hta
      · exact ⟨t, by rw [hcp, hfr.1]; exact hta, hsp⟩
      · have hc := hstep.clean t (by rw [htid]; exact htu) (by rw [Gone, htid]; exact hta)
        rw [← htid] at hla
        exact absurd hla (hc.2 op hsp)
  · -- complete
    intro id t hg i hi
    have hgs := hsub.pending_some hg
    have hid : id ≠ tr.tx.id := by
      intro hc; subst hc
      have hn : AMap.get (confirmPending own s tr).pending tr.tx.id = none := by
        rw [hcp]; exact (hdel.trans hstep.sub).pending_none (unpendMined_pending s tr.tx)
      rw [hn] at hg; cases hg
    have htid := hw.key_id _ _ hgs
    have hga : AMap.get (dsLoop own ((unpendMined s tr.tx).pending.length + 1) (unpendMined s tr.tx) tr.tx.ins).pending id = some t := by
      rw [hcp, hfr.1] at hg; exact hg
    have hlu : Listed (unpendMined s tr.tx) (i.tx, i.idx) id := by
      have := hw.complete id t hgs i hi
      unfold Listed at *; rw [unpendMined_pendIns]; exact this
    have hla := hstep.intact _ _ hlu (by rw [hga]; rfl)
    rw [hcp]
    refine (deleteUnminedInputs_listed _ tr.tx _ id).mpr ⟨hla, ?_⟩
    rintro ⟨j, hj, hop⟩
    -- t shares an input with the confirmed transaction: it was purged
    have hgone := hkids j hj t (by rw [hop, htid]; exact hlu) (by rw [htid]; exact hu_pend id t hid hgs)
    rw [Gone, htid, hga] at hgone; cases hgone

/-- the coinbase purge of Rollback preserves well-formedness -/
theorem purgeSpenders_wf (s : Store) (op : TxId × Nat) (hw : PendWF rank s) : PendWF rank (purgeSpenders own s op) := by
  rw [purgeSpenders_eq']
  apply foldl_inv (PendWF rank) _ _ _ hw
  intro a ds _ ha
  split
  · rename_i dtx hg
    have hid := ha.key_id _ _ hg
    exact (removeConflict_wf rank own a dtx ha (by rw [hid]; exact hg) _ (Nat.le_refl _)).2.2
  · exact ha

end inv

end MW.Lemmas.LedgerPending
