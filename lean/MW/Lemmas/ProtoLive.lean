/- C20 liveness: the temporal theorems about fair executions of the protocol model (MW.Spec.Live) -/
import MW.Lemmas.ProtoRank
namespace MW.Lemmas.ProtoLive
open MW.Model.Proto MW.Lemmas.Proto MW.Spec.Live MW.Lemmas.ProtoGhost MW.Lemmas.Fair MW.Lemmas.ProtoRank

/-- what holds at every instant of an execution in which no stop is requested and every task keeps within its
    budget `B` of unfinished rounds -/
structure Amb (c : Cfg) (B : Nat → Nat) (x : XSt) : Prop where
  xinv : XInv c x
  nq : x.s.quit = false
  bud : ∀ t, x.g.used t ≤ B t

/-- the part of it the follower's progress needs: no stop request (the follower is suspended for one database
    transaction of the worker at a time, however often a task is retried) -/
structure Amb0 (c : Cfg) (x : XSt) : Prop where
  xinv : XInv c x
  nq : x.s.quit = false

theorem Amb.to0 {c : Cfg} {B : Nat → Nat} {x : XSt} (h : Amb c B x) : Amb0 c x := ⟨h.xinv, h.nq⟩

-- ------------------------------------------------------------------ the observers, field by field

theorem gstep_procB (l : Label) (s : St) (g : G) :
    (gstep l s g).procB = g.procB + (if l = .hDoneBlk then 1 else 0) := by
  unfold gstep; split <;> (try split) <;> simp_all
theorem gstep_procT (l : Label) (s : St) (g : G) :
    (gstep l s g).procT = g.procT + (if l = .hDoneTx then 1 else 0) := by
  unfold gstep; split <;> (try split) <;> simp_all
theorem gstep_annB (l : Label) (s : St) (g : G) : (gstep l s g).annB = g.annB + (if l = .eBlk then 1 else 0) := by
  unfold gstep; split <;> (try split) <;> simp_all
theorem gstep_annT (l : Label) (s : St) (g : G) : (gstep l s g).annT = g.annT + (if l = .eTx then 1 else 0) := by
  unfold gstep; split <;> (try split) <;> simp_all

-- ------------------------------------------------------------------ state level: "P is kept until Q, the helpful label leads into Q"

set_option hygiene false in
macro "fr_tac" : tactic => `(tactic| (
  obtain ⟨hf, hg⟩ := xstep_some hs
  obtain ⟨⟨⟨j1, j2, j3, j4, j5, j6, j7, j8⟩, i1, i2, i3, i4, i5, i6, i7⟩, hq⟩ := ha
  obtain ⟨-, hq'⟩ := ha'
  clear hs i5 i6 i7 j8 j7 i1 i2
  obtain ⟨⟨quit', dbOpen', hp', wp', sp', ap', nb', ntx', nt'⟩, g'⟩ := x'
  obtain ⟨⟨quit, dbOpen, hp, wp, sp, ap, nb, ntx, nt⟩, g⟩ := x
  dsimp only at *
  subst hg hq hq'
  try simp only [gstep_procB, gstep_procT, gstep_annB, gstep_annT]
  cases l <;> simp only [fire] at hf <;> (repeat' split at hf) <;> simp at hf <;>
   (try (obtain ⟨hf1, hf2, hf3, hf4, hf5, hf6, hf7, hf8, hf9⟩ := hf)) <;> subst_vars <;>
   simp_all [Shape.fixed, susNext, resNext, window] <;> (try omega)))

section state
variable {c : Cfg} {B : Nat → Nat} {l : Label} {x x' : XSt}

/-- a block in hand: until processConnectedBlock returns -/
theorem un_blk1 {p : Nat} (ha : Amb0 c x) (ha' : Amb0 c x') (hs : xstep c l x = some x')
    (hP : x.s.hp = .blk ∧ x.g.procB = p) :
    ((x'.s.hp = .blk ∧ x'.g.procB = p) ∧ l ≠ .hDoneBlk) ∨ p < x'.g.procB := by fr_tac
/-- a block queued, none in hand: until the follower receives one -/
theorem un_blk0 {p : Nat} (ha : Amb0 c x) (ha' : Amb0 c x') (hs : xstep c l x = some x')
    (hP : x.g.procB = p ∧ x.s.hp ≠ .blk ∧ 0 < x.s.nb) :
    ((x'.g.procB = p ∧ x'.s.hp ≠ .blk ∧ 0 < x'.s.nb) ∧ l ≠ .hTakeBlk) ∨ (x'.s.hp = .blk ∧ x'.g.procB = p) := by fr_tac
theorem un_tx1 {p : Nat} (ha : Amb0 c x) (ha' : Amb0 c x') (hs : xstep c l x = some x')
    (hP : x.s.hp = .tx ∧ x.g.procT = p) :
    ((x'.s.hp = .tx ∧ x'.g.procT = p) ∧ l ≠ .hDoneTx) ∨ p < x'.g.procT := by fr_tac
theorem un_tx0 {p : Nat} (ha : Amb0 c x) (ha' : Amb0 c x') (hs : xstep c l x = some x')
    (hP : x.g.procT = p ∧ x.s.hp ≠ .tx ∧ 0 < x.s.ntx) :
    ((x'.g.procT = p ∧ x'.s.hp ≠ .tx ∧ 0 < x'.s.ntx) ∧ l ≠ .hTakeTx) ∨ (x'.s.hp = .tx ∧ x'.g.procT = p) := by fr_tac

/-- the follower gets back to its outer select -/
theorem un_hblk (ha : Amb0 c x) (ha' : Amb0 c x') (hs : xstep c l x = some x') (hP : x.s.hp = .blk) :
    (x'.s.hp = .blk ∧ l ≠ .hDoneBlk) ∨ x'.s.hp = .top := by fr_tac
theorem un_htx (ha : Amb0 c x) (ha' : Amb0 c x') (hs : xstep c l x = some x') (hP : x.s.hp = .tx) :
    (x'.s.hp = .tx ∧ l ≠ .hDoneTx) ∨ x'.s.hp = .top := by fr_tac
theorem un_wci (ha : Amb0 c x) (ha' : Amb0 c x') (hs : xstep c l x = some x')
    (hP : x.s.hp = .wait ∧ x.s.wp = .impCommit) :
    ((x'.s.hp = .wait ∧ x'.s.wp = .impCommit) ∧ l ≠ .wCommitI .fin) ∨ (x'.s.hp = .wait ∧ ∃ o, x'.s.wp = .impRes o) := by
  fr_tac
theorem un_wcr (ha : Amb0 c x) (ha' : Amb0 c x') (hs : xstep c l x = some x')
    (hP : x.s.hp = .wait ∧ x.s.wp = .remCommit) :
    ((x'.s.hp = .wait ∧ x'.s.wp = .remCommit) ∧ l ≠ .wCommitR .finish) ∨ (x'.s.hp = .wait ∧ ∃ o, x'.s.wp = .remRes o) := by
  fr_tac
theorem un_wri (ha : Amb0 c x) (ha' : Amb0 c x') (hs : xstep c l x = some x')
    (hP : x.s.hp = .wait ∧ ∃ o, x.s.wp = .impRes o) :
    ((x'.s.hp = .wait ∧ ∃ o, x'.s.wp = .impRes o) ∧ l ≠ .res) ∨ x'.s.hp = .top := by
  obtain ⟨hP1, o, hP2⟩ := hP
  fr_tac
theorem un_wrr (ha : Amb0 c x) (ha' : Amb0 c x') (hs : xstep c l x = some x')
    (hP : x.s.hp = .wait ∧ ∃ o, x.s.wp = .remRes o) :
    ((x'.s.hp = .wait ∧ ∃ o, x'.s.wp = .remRes o) ∧ l ≠ .res) ∨ x'.s.hp = .top := by
  obtain ⟨hP1, o, hP2⟩ := hP
  fr_tac

end state


-- ------------------------------------------------------------------ executions

theorem exec_cases {c : Cfg} {xs : Nat → XSt} {ls : Nat → Option Label} (he : Exec c xs ls) (i : Nat) :
    (ls i = none ∧ xs (i + 1) = xs i) ∨ ∃ l, ls i = some l ∧ xstep c l (xs i) = some (xs (i + 1)) := by
  have h := he.step i
  cases hl : ls i with
  | none => rw [hl] at h; exact Or.inl ⟨rfl, h⟩
  | some l => rw [hl] at h; exact Or.inr ⟨l, rfl, h⟩

theorem exec_xinv {c : Cfg} (hc : c.busy < c.cap) {xs : Nat → XSt} {ls : Nat → Option Label} (he : Exec c xs ls) :
    ∀ i, XInv c (xs i) := by
  intro i
  induction i with
  | zero => exact xinv_init he.init he.ginit
  | succ i ih =>
    rcases exec_cases he i with ⟨_, h⟩ | ⟨l, _, h⟩
    · rw [h]; exact ih
    · exact xinv_step hc ih h

section exec
variable {c : Cfg} {B : Nat → Nat} {xs : Nat → XSt} {ls : Nat → Option Label}

/-- WF rule on an execution, premises at state level -/
theorem wf_rule {I : XSt → Prop} (he : Exec c xs ls) (ha : ∀ i, I (xs i)) {P Q : XSt → Prop} (h : Label)
    (hen : ∀ x, I x → P x → (fire .fixed c h x.s).isSome = true)
    (hun : ∀ l x x', I x → I x' → xstep c l x = some x' → P x → (P x' ∧ l ≠ h) ∨ Q x')
    (hwf : WF (xstep c) xs ls h) : LeadsTo xs P Q := by
  refine wf1 h (fun j hp => en_iff.2 (hen _ (ha j) hp)) ?_ ?_ hwf
  · intro j hp
    rcases exec_cases he j with ⟨_, h2⟩ | ⟨l, _, h2⟩
    · left; rw [h2]; exact hp
    · rcases hun l _ _ (ha j) (ha (j + 1)) h2 hp with h' | h'
      · exact Or.inl h'.1
      · exact Or.inr h'
  · intro j hp hl
    rcases exec_cases he j with ⟨h1, _⟩ | ⟨l, h1, h2⟩
    · rw [hl] at h1; cases h1
    · rw [hl] at h1; cases h1
      rcases hun h _ _ (ha j) (ha (j + 1)) h2 hp with h' | h'
      · exact absurd rfl h'.2
      · exact h'

/-- SF rule on an execution: the helpful label is enabled wherever `P` and the recurring `R` hold together -/
theorem sf_rule {I : XSt → Prop} (he : Exec c xs ls) (ha : ∀ i, I (xs i)) {P Q R : XSt → Prop} (h : Label)
    (hrec : LeadsTo xs (fun _ => True) R)
    (hen : ∀ x, I x → P x → R x → (fire .fixed c h x.s).isSome = true)
    (hun : ∀ l x x', I x → I x' → xstep c l x = some x' → P x → (P x' ∧ l ≠ h) ∨ Q x')
    (hsf : SF (xstep c) xs ls h) : LeadsTo xs P Q := by
  refine sf1' h hrec (fun j hp hr => en_iff.2 (hen _ (ha j) hp hr)) ?_ ?_ hsf
  · intro j hp
    rcases exec_cases he j with ⟨_, h2⟩ | ⟨l, _, h2⟩
    · left; rw [h2]; exact hp
    · rcases hun l _ _ (ha j) (ha (j + 1)) h2 hp with h' | h'
      · exact Or.inl h'.1
      · exact Or.inr h'
  · intro j hp hl
    rcases exec_cases he j with ⟨h1, _⟩ | ⟨l, h1, h2⟩
    · rw [hl] at h1; cases h1
    · rw [hl] at h1; cases h1
      rcases hun h _ _ (ha j) (ha (j + 1)) h2 hp with h' | h'
      · exact absurd rfl h'.2
      · exact h'

/-- the follower is back at its outer select again and again (whatever the worker does: a suspension ends
    after one database transaction of the worker) -/
theorem top_again (he : Exec c xs ls) (ha : ∀ i, Amb0 c (xs i)) (hf : Fair c xs ls) :
    LeadsTo xs (fun _ => True) (fun x => x.s.hp = .top) := by
  intro i _
  have hres_i : LeadsTo xs (fun x => x.s.hp = .wait ∧ ∃ o, x.s.wp = .impRes o) (fun x => x.s.hp = .top) :=
    wf_rule he ha .res (fun x hx hp => by
      obtain ⟨h1, o, h2⟩ := hp
      have := hx.nq
      cases o <;> simp [fire, resNext, h1, h2, this]) (fun l x x' hx hx' hs hp => un_wri hx hx' hs hp) (hf.weak _ rfl)
  have hres_r : LeadsTo xs (fun x => x.s.hp = .wait ∧ ∃ o, x.s.wp = .remRes o) (fun x => x.s.hp = .top) :=
    wf_rule he ha .res (fun x hx hp => by
      obtain ⟨h1, o, h2⟩ := hp
      have := hx.nq
      cases o <;> simp [fire, resNext, h1, h2, this]) (fun l x x' hx hx' hs hp => un_wrr hx hx' hs hp) (hf.weak _ rfl)
  have hci : LeadsTo xs (fun x => x.s.hp = .wait ∧ x.s.wp = .impCommit) (fun x => x.s.hp = .top) :=
    LeadsTo.trans (wf_rule he ha (.wCommitI .fin) (fun x _ hp => by simp [fire, hp.2])
      (fun l x x' hx hx' hs hp => un_wci hx hx' hs hp) (hf.weak _ rfl)) hres_i
  have hcr : LeadsTo xs (fun x => x.s.hp = .wait ∧ x.s.wp = .remCommit) (fun x => x.s.hp = .top) :=
    LeadsTo.trans (wf_rule he ha (.wCommitR .finish) (fun x _ hp => by simp [fire, hp.2])
      (fun l x x' hx hx' hs hp => un_wcr hx hx' hs hp) (hf.weak _ rfl)) hres_r
  cases hhp : (xs i).s.hp with
  | top => exact ⟨i, Nat.le_refl i, hhp⟩
  | blk =>
    exact wf_rule he ha .hDoneBlk (P := fun x => x.s.hp = .blk) (fun x _ hp => by simp [fire, hp])
      (fun l x x' hx hx' hs hp => un_hblk hx hx' hs hp) (hf.weak _ rfl) i hhp
  | tx =>
    exact wf_rule he ha .hDoneTx (P := fun x => x.s.hp = .tx) (fun x _ hp => by simp [fire, hp])
      (fun l x x' hx hx' hs hp => un_htx hx hx' hs hp) (hf.weak _ rfl) i hhp
  | done =>
    have := (ha i).xinv.inv.hDone hhp
    rw [(ha i).nq] at this
    cases this
  | wait =>
    rcases (ha i).xinv.inv.waitW hhp with hw | hw
    · cases hwp : (xs i).s.wp with
      | impCommit => exact hci i ⟨hhp, hwp⟩
      | remCommit => exact hcr i ⟨hhp, hwp⟩
      | impRes o => exact hres_i i ⟨hhp, o, hwp⟩
      | remRes o => exact hres_r i ⟨hhp, o, hwp⟩
      | _ => simp [hwp, window] at hw
    · rw [(ha i).nq] at hw
      cases hw.1

theorem annB_mono (he : Exec c xs ls) (i d : Nat) : (xs i).g.annB ≤ (xs (i + d)).g.annB := by
  induction d with
  | zero => exact Nat.le_refl _
  | succ d ih =>
    rcases exec_cases he (i + d) with ⟨_, h⟩ | ⟨l, _, h⟩
    · rw [show i + (d + 1) = i + d + 1 from rfl, h]; exact ih
    · have := (xstep_some h).2
      rw [show i + (d + 1) = i + d + 1 from rfl, this, gstep_annB]
      omega

theorem annT_mono (he : Exec c xs ls) (i d : Nat) : (xs i).g.annT ≤ (xs (i + d)).g.annT := by
  induction d with
  | zero => exact Nat.le_refl _
  | succ d ih =>
    rcases exec_cases he (i + d) with ⟨_, h⟩ | ⟨l, _, h⟩
    · rw [show i + (d + 1) = i + d + 1 from rfl, h]; exact ih
    · have := (xstep_some h).2
      rw [show i + (d + 1) = i + d + 1 from rfl, this, gstep_annT]
      omega

/-- one more block gets processed whenever one is outstanding -/
theorem blk_next (he : Exec c xs ls) (ha : ∀ i, Amb0 c (xs i)) (hf : Fair c xs ls) (p : Nat) :
    LeadsTo xs (fun x => x.g.procB = p ∧ p < x.g.annB) (fun x => p < x.g.procB) := by
  have h1 : LeadsTo xs (fun x => x.s.hp = .blk ∧ x.g.procB = p) (fun x => p < x.g.procB) :=
    wf_rule he ha .hDoneBlk (fun x _ hp => by simp [fire, hp.1])
      (fun l x x' hx hx' hs hp => un_blk1 hx hx' hs hp) (hf.weak _ rfl)
  have h0 : LeadsTo xs (fun x => x.g.procB = p ∧ x.s.hp ≠ .blk ∧ 0 < x.s.nb) (fun x => p < x.g.procB) :=
    LeadsTo.trans (sf_rule he ha .hTakeBlk (top_again he ha hf) (fun x _ hp hr => by simp [fire, hr, hp.2.2])
      (fun l x x' hx hx' hs hp => un_blk0 hx hx' hs hp) hf.blk) h1
  intro i hp
  have hc := (ha i).xinv.blkC
  by_cases hb : (xs i).s.hp = .blk
  · exact h1 i ⟨hb, hp.1⟩
  · refine h0 i ⟨hp.1, hb, ?_⟩
    rw [if_neg hb] at hc
    omega

theorem tx_next (he : Exec c xs ls) (ha : ∀ i, Amb0 c (xs i)) (hf : Fair c xs ls) (p : Nat) :
    LeadsTo xs (fun x => x.g.procT = p ∧ p < x.g.annT) (fun x => p < x.g.procT) := by
  have h1 : LeadsTo xs (fun x => x.s.hp = .tx ∧ x.g.procT = p) (fun x => p < x.g.procT) :=
    wf_rule he ha .hDoneTx (fun x _ hp => by simp [fire, hp.1])
      (fun l x x' hx hx' hs hp => un_tx1 hx hx' hs hp) (hf.weak _ rfl)
  have h0 : LeadsTo xs (fun x => x.g.procT = p ∧ x.s.hp ≠ .tx ∧ 0 < x.s.ntx) (fun x => p < x.g.procT) :=
    LeadsTo.trans (sf_rule he ha .hTakeTx (top_again he ha hf) (fun x _ hp hr => by simp [fire, hr, hp.2.2])
      (fun l x x' hx hx' hs hp => un_tx0 hx hx' hs hp) hf.tx) h1
  intro i hp
  have hc := (ha i).xinv.txC
  by_cases hb : (xs i).s.hp = .tx
  · exact h1 i ⟨hb, hp.1⟩
  · refine h0 i ⟨hp.1, hb, ?_⟩
    rw [if_neg hb] at hc
    omega

/-- every block announced by instant `i` has been processed by some instant `j` -/
theorem blocks_live (he : Exec c xs ls) (ha : ∀ i, Amb0 c (xs i)) (hf : Fair c xs ls) (i : Nat) :
    ∃ j, i ≤ j ∧ (xs i).g.annB ≤ (xs j).g.procB := by
  have key : ∀ d i', i ≤ i' → (xs i).g.annB ≤ (xs i').g.procB + d → ∃ j, i' ≤ j ∧ (xs i).g.annB ≤ (xs j).g.procB := by
    intro d
    induction d with
    | zero => intro i' _ h; exact ⟨i', Nat.le_refl _, h⟩
    | succ d ih =>
      intro i' hii' h
      by_cases hdone : (xs i).g.annB ≤ (xs i').g.procB
      · exact ⟨i', Nat.le_refl _, hdone⟩
      · obtain ⟨e, rfl⟩ := Nat.exists_eq_add_of_le hii'
        have hm := annB_mono he i e
        obtain ⟨j, hj, hlt⟩ := blk_next he ha hf (xs (i + e)).g.procB (i + e) ⟨rfl, by omega⟩
        obtain ⟨j', hj', h'⟩ := ih j (by omega) (by omega)
        exact ⟨j', by omega, h'⟩
  have hc := (ha i).xinv.blkC
  obtain ⟨j, hj, h⟩ := key ((xs i).g.annB) i (Nat.le_refl i) (by omega)
  exact ⟨j, hj, h⟩

theorem txs_live (he : Exec c xs ls) (ha : ∀ i, Amb0 c (xs i)) (hf : Fair c xs ls) (i : Nat) :
    ∃ j, i ≤ j ∧ (xs i).g.annT ≤ (xs j).g.procT := by
  have key : ∀ d i', i ≤ i' → (xs i).g.annT ≤ (xs i').g.procT + d → ∃ j, i' ≤ j ∧ (xs i).g.annT ≤ (xs j).g.procT := by
    intro d
    induction d with
    | zero => intro i' _ h; exact ⟨i', Nat.le_refl _, h⟩
    | succ d ih =>
      intro i' hii' h
      by_cases hdone : (xs i).g.annT ≤ (xs i').g.procT
      · exact ⟨i', Nat.le_refl _, hdone⟩
      · obtain ⟨e, rfl⟩ := Nat.exists_eq_add_of_le hii'
        have hm := annT_mono he i e
        obtain ⟨j, hj, hlt⟩ := tx_next he ha hf (xs (i + e)).g.procT (i + e) ⟨rfl, by omega⟩
        obtain ⟨j', hj', h'⟩ := ih j (by omega) (by omega)
        exact ⟨j', by omega, h'⟩
  obtain ⟨j, hj, h⟩ := key ((xs i).g.annT) i (Nat.le_refl i) (by omega)
  exact ⟨j, hj, h⟩

-- ------------------------------------------------------------------ tasks

/-- the rank of a pending task is kept until it decreases or the task finishes, and every worker step ends that -/
theorem task_un {k : Nat} {a : Nat × Nat} {w : WPc} (h : Label) (hw : isWorker h = true) (hc : c.busy < c.cap)
    (l : Label) (x x' : XSt) (hx : Amb c B x) (hx' : Amb c B x') (hs : xstep c l x = some x')
    (hp : Pend k x.g ∧ rank B k x = a ∧ x.s.wp = w) :
    ((Pend k x'.g ∧ rank B k x' = a ∧ x'.s.wp = w) ∧ l ≠ h) ∨
      (k ∈ x'.g.fin ∨ (Pend k x'.g ∧ lexLt (rank B k x') a)) := by
  obtain ⟨hp1, hp2, hp3⟩ := hp
  rcases rank_step hc hx.xinv hs hx.nq hx'.nq hx'.bud hp1 with h1 | ⟨h1, h2 | ⟨h2, h3, h4⟩⟩
  · exact Or.inr (Or.inl h1)
  · exact Or.inr (Or.inr ⟨h1, hp2 ▸ h2⟩)
  · refine Or.inl ⟨⟨h1, h2.trans hp2, h3.trans hp3⟩, ?_⟩
    intro hl
    rw [hl, hw] at h4
    cases h4

/-- from every rank, a pending task finishes or gets to a smaller rank -/
theorem task_rank (hc : c.busy < c.cap) (he : Exec c xs ls) (ha : ∀ i, Amb c B (xs i)) (hf : Fair c xs ls)
    (k : Nat) (a : Nat × Nat) :
    LeadsTo xs (fun x => Pend k x.g ∧ rank B k x = a)
      (fun x => k ∈ x.g.fin ∨ (Pend k x.g ∧ lexLt (rank B k x) a)) := by
  intro i hp
  have wf := fun (w : WPc) (h : Label) (hw : isWorker h = true) (hcore : h.core = true)
      (hen : ∀ x, Amb c B x → (Pend k x.g ∧ rank B k x = a ∧ x.s.wp = w) → (fire .fixed c h x.s).isSome = true) =>
    wf_rule he ha (P := fun x => Pend k x.g ∧ rank B k x = a ∧ x.s.wp = w)
      (Q := fun x => k ∈ x.g.fin ∨ (Pend k x.g ∧ lexLt (rank B k x) a)) h hen (task_un h hw hc) (hf.weak h hcore)
  have sf := fun (w : WPc) (hw : susNext w ≠ none) =>
    sf_rule he ha (P := fun x => Pend k x.g ∧ rank B k x = a ∧ x.s.wp = w)
      (Q := fun x => k ∈ x.g.fin ∨ (Pend k x.g ∧ lexLt (rank B k x) a)) .sus (top_again he (fun i => (ha i).to0) hf)
      (fun x hx hp hr => by
        have := hx.nq
        obtain ⟨_, _, hp3⟩ := hp
        cases w <;> simp [susNext] at hw <;> simp [fire, susNext, hp3, hr, this])
      (task_un .sus rfl hc) hf.sus
  have hwin : ∀ x, Amb c B x → window x.s.wp = true → x.s.hp = .wait := by
    intro x hx hw
    rcases hx.xinv.inv.winH hw with h | h
    · exact h
    · have := hx.xinv.inv.hDone h.1
      rw [hx.nq] at this
      cases this
  cases hwp : (xs i).s.wp with
  | top =>
    refine wf .top .wTakeImp rfl rfl ?_ i ⟨hp.1, hp.2, hwp⟩
    intro x hx ⟨h1, _, h3⟩
    have hh := hx.xinv.hand
    have hq := hx.xinv.qlen
    rw [h3] at hh
    have hnone : x.g.hand = none := by
      cases hhd : x.g.hand with
      | none => rfl
      | some t => simp [hhd, inflight] at hh
    have : 0 < x.g.q.length := by
      rcases h1 with h1 | h1
      · rw [hnone] at h1; cases h1
      · exact List.length_pos_of_mem h1
    simp [fire, h3]
    omega
  | impSus => exact sf .impSus (by simp [susNext]) i ⟨hp.1, hp.2, hwp⟩
  | remSus => exact sf .remSus (by simp [susNext]) i ⟨hp.1, hp.2, hwp⟩
  | impCommit =>
    exact wf .impCommit (.wCommitI .fin) rfl rfl (fun x _ hp => by simp [fire, hp.2.2]) i ⟨hp.1, hp.2, hwp⟩
  | remCommit =>
    exact wf .remCommit (.wCommitR .finish) rfl rfl (fun x _ hp => by simp [fire, hp.2.2]) i ⟨hp.1, hp.2, hwp⟩
  | impRes o =>
    refine wf (.impRes o) .res rfl rfl ?_ i ⟨hp.1, hp.2, hwp⟩
    intro x hx ⟨_, _, h3⟩
    have h1 := hwin x hx (by rw [h3]; rfl)
    have h2 := hx.nq
    cases o <;> simp [fire, resNext, h1, h2, h3]
  | remRes o =>
    refine wf (.remRes o) .res rfl rfl ?_ i ⟨hp.1, hp.2, hwp⟩
    intro x hx ⟨_, _, h3⟩
    have h1 := hwin x hx (by rw [h3]; rfl)
    have h2 := hx.nq
    cases o <;> simp [fire, resNext, h1, h2, h3]
  | remChk =>
    refine wf .remChk .wChkGo rfl rfl ?_ i ⟨hp.1, hp.2, hwp⟩
    intro x hx ⟨_, _, h3⟩
    simp [fire, h3, hx.nq]
  | push =>
    refine wf .push .wPush rfl rfl ?_ i ⟨hp.1, hp.2, hwp⟩
    intro x hx ⟨_, _, h3⟩
    have hnd := (no_drop_of_inv hc hx.xinv.inv).1
    simp [fire, h3] at hnd
    simp [fire, h3]
    omega
  | done =>
    have := (ha i).xinv.inv.wDone hwp
    rw [(ha i).nq] at this
    cases this

/-- a task that is in the queue or in the worker's hands eventually finishes -/
theorem task_live (hc : c.busy < c.cap) (he : Exec c xs ls) (ha : ∀ i, Amb c B (xs i)) (hf : Fair c xs ls)
    (k : Nat) : LeadsTo xs (fun x => Pend k x.g) (fun x => k ∈ x.g.fin) :=
  leadsTo_wf lexLt lexLt_wf (rank B k) (task_rank hc he ha hf k)

/-- every task accepted by instant `i` has finished by some instant `j` -/
theorem accepted_live (hc : c.busy < c.cap) (he : Exec c xs ls) (ha : ∀ i, Amb c B (xs i)) (hf : Fair c xs ls)
    (i k : Nat) (hk : k < (xs i).g.next) : ∃ j, i ≤ j ∧ k ∈ (xs j).g.fin := by
  have hx := (ha i).xinv
  rcases hx.acc k hk with h | h | h | h
  · exact task_live hc he ha hf k i h
  · exact ⟨i, Nat.le_refl i, h⟩
  · rw [hx.ab (ha i).nq] at h; cases h
  · rw [hx.lost] at h; cases h

end exec

-- ------------------------------------------------------------------ plain runs of `fire`

section run
variable {c : Cfg} {run : Nat → St} {ls : Nat → Option Label}

/-- a run of `fire` with its observers is an execution of the model with observers -/
theorem exec_of_run (hr : IsRun c run ls) : Exec c (fun i => ⟨run i, obs run ls i⟩) ls := by
  refine ⟨hr.init, rfl, ?_⟩
  intro i
  have h := hr.step i
  cases hl : ls i with
  | none =>
    rw [hl] at h
    show (⟨run (i + 1), obs run ls (i + 1)⟩ : XSt) = ⟨run i, obs run ls i⟩
    rw [h]
    simp [obs, hl]
  | some l =>
    rw [hl] at h
    show xstep c l ⟨run i, obs run ls i⟩ = some ⟨run (i + 1), obs run ls (i + 1)⟩
    simp [xstep, h, obs, hl]

theorem en_run (l : Label) (j : Nat) :
    En (xstep c) l (⟨run j, obs run ls j⟩ : XSt) ↔ En (fire .fixed c) l (run j) := en_iff

theorem fair_of_run (hf : FairRun c run ls) : Fair c (fun i => ⟨run i, obs run ls i⟩) ls := by
  refine ⟨fun l hl i h => hf.weak l hl i (fun j hj => (en_run l j).1 (h j hj)), ?_, ?_, ?_⟩
  · exact fun i h => hf.sus i (fun j hj => (h j hj).imp fun k hk => ⟨hk.1, (en_run _ k).1 hk.2⟩)
  · exact fun i h => hf.blk i (fun j hj => (h j hj).imp fun k hk => ⟨hk.1, (en_run _ k).1 hk.2⟩)
  · exact fun i h => hf.tx i (fun j hj => (h j hj).imp fun k hk => ⟨hk.1, (en_run _ k).1 hk.2⟩)

end run

/-- all of it, for a plain run of `fire` -/
theorem progress_run {c : Cfg} (hc : c.busy < c.cap) (B : Nat → Nat) {run : Nat → St} {ls : Nat → Option Label}
    (hr : IsRun c run ls) (hf : FairRun c run ls) (hnq : ∀ i, (run i).quit = false)
    (hbud : ∀ i t, (obs run ls i).used t ≤ B t) :
    (∀ i, ∃ j, i ≤ j ∧ (obs run ls i).annB ≤ (obs run ls j).procB) ∧
    (∀ i, ∃ j, i ≤ j ∧ (obs run ls i).annT ≤ (obs run ls j).procT) ∧
    (∀ i k, k < (obs run ls i).next → ∃ j, i ≤ j ∧ k ∈ (obs run ls j).fin) ∧
    (∀ i, (obs run ls i).lost = [] ∧
      ∀ k, k < (obs run ls i).next → Pend k (obs run ls i) ∨ k ∈ (obs run ls i).fin) := by
  have he := exec_of_run hr
  have hfx := fair_of_run hf
  have hx := exec_xinv hc he
  have ha : ∀ i, Amb c B (⟨run i, obs run ls i⟩ : XSt) := fun i => ⟨hx i, hnq i, hbud i⟩
  refine ⟨blocks_live he (fun i => (ha i).to0) hfx, txs_live he (fun i => (ha i).to0) hfx, accepted_live hc he ha hfx, ?_⟩
  intro i
  refine ⟨(hx i).lost, fun k hk => ?_⟩
  rcases (hx i).acc k hk with h | h | h | h
  · exact Or.inl h
  · exact Or.inr h
  · rw [(hx i).ab (hnq i)] at h; cases h
  · rw [(hx i).lost] at h; cases h

/-- the follower's half needs no budget: however often the worker's tasks are retried -/
theorem follower_run {c : Cfg} (hc : c.busy < c.cap) {run : Nat → St} {ls : Nat → Option Label}
    (hr : IsRun c run ls) (hf : FairRun c run ls) (hnq : ∀ i, (run i).quit = false) :
    (∀ i, ∃ j, i ≤ j ∧ (obs run ls i).annB ≤ (obs run ls j).procB) ∧
    (∀ i, ∃ j, i ≤ j ∧ (obs run ls i).annT ≤ (obs run ls j).procT) := by
  have he := exec_of_run hr
  have hfx := fair_of_run hf
  have hx := exec_xinv hc he
  have ha : ∀ i, Amb0 c (⟨run i, obs run ls i⟩ : XSt) := fun i => ⟨hx i, hnq i⟩
  exact ⟨blocks_live he ha hfx, txs_live he ha hfx⟩

end MW.Lemmas.ProtoLive
