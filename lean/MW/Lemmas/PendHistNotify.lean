/-
  C09 history-level refinement: A REORGANISING NOTIFICATION IS A RUN OF `stepH`.

  `processBlock_trace_dc` (PendHistTrace) says that a successful notification is a sequence of `disconnectBlock` calls
  followed by `filterBlock` calls, but forgets WHICH heights are disconnected and which blocks are connected.  Here the
  trace is read off again with that information (structural, no hypothesis):
    DReachFrom c h s s' n     `n` disconnects at the heights h, h-1, …, h-n+1
    CReachL c ready s s' bs   connects of the blocks `bs`, in order, with the ready set `ready`
    processBlock_trace_h      a successful notification = DReachFrom from `v.best.height`, then CReachL with the ready set
                              read at the fork point
  and then linked to the typed histories: when the follower's best block is the tip of the wallet's chain
  (`v.best.height + 1 = chain length`; C01's `processBlock_reaches` keeps `v.best = tipMeta chain`), every disconnect of the
  trace is `stepH .disconnect` (the tip: heights from the domain's `HeightsOK`) and every connect is `stepH (.connect b)`
  (the ready set does not change along the run: `connect_step_inv`, `disconnect_step_inv`), so the store `processBlock`
  returns IS the store of `runH` over  n × disconnect ++ connects  — provided these steps are inside the domain `HOK` of
  `pending_refines` (`notify_run`); `HInv` / `HInvC` then hold after the notification.
-/
import MW.Lemmas.PendHistCredRollback
import MW.Lemmas.PendHistTrace
namespace MW.Lemmas.PendHist.Notify
open MW MW.Model.Ledger MW.Spec.Pending MW.Lemmas.LedgerPending MW.Lemmas.Ledger MW.Lemmas.PendHist
open MW.Lemmas.PendHist.Cred MW.Lemmas.PendHist.CredRb

-- ------------------------------------------------------------------ the trace, with heights and blocks

/-- `n` successful disconnects at the heights `h, h-1, …` -/
inductive DReachFrom (c : Ctx) : Nat → Store → Store → Nat → Prop
  | refl {h : Nat} {s : Store} : DReachFrom c h s s 0
  | step {h : Nat} {s s1 s' : Store} {n : Nat} : disconnectBlock c s h = .ok s1 → DReachFrom c (h - 1) s1 s' n →
      DReachFrom c h s s' (n + 1)

/-- connects of the blocks `bs` with the ready set `ready` -/
inductive CReachL (c : Ctx) (ready : List Wid) : Store → Store → List Block → Prop
  | refl {s : Store} : CReachL c ready s s []
  | step {s s1 s' : Store} {bs : List Block} (b : Block) (conf : List TxId) :
      filterBlock c s ready b = .ok (s1, conf) → CReachL c ready s1 s' bs → CReachL c ready s s' (b :: bs)

theorem disconnectBlock_pos {c : Ctx} {s s' : Store} {h : Nat} (hd : disconnectBlock c s h = .ok s') : h ≠ 0 := by
  intro h0
  unfold disconnectBlock at hd
  rw [if_pos h0] at hd
  cases hd

theorem DReachFrom.cast {c : Ctx} {h h' : Nat} {s s' : Store} {n n' : Nat} (d : DReachFrom c h s s' n) (e1 : h = h')
    (e2 : n = n') : DReachFrom c h' s s' n' := by subst e1; subst e2; exact d

theorem DReachFrom.trans {c : Ctx} {h : Nat} {s s1 s2 : Store} {n m : Nat} (d1 : DReachFrom c h s s1 n)
    (d2 : DReachFrom c (h - n) s1 s2 m) : DReachFrom c h s s2 (n + m) := by
  induction d1 with
  | refl => exact d2.cast (by omega) (by omega)
  | @step h s sa sb n hd _ ih =>
    exact (DReachFrom.step hd (ih (d2.cast (by omega) rfl))).cast rfl (by omega)

theorem DReachFrom.snoc {c : Ctx} {h : Nat} {s s1 s2 : Store} {n : Nat} (d1 : DReachFrom c h s s1 n)
    (hd : disconnectBlock c s1 (h - n) = .ok s2) : DReachFrom c h s s2 (n + 1) :=
  d1.trans (DReachFrom.step hd DReachFrom.refl)

theorem disconnectDown_reachH (c : Ctx) (nbH : Nat) :
    ∀ (fuel : Nat) (s : Store) (curH : Nat) (rolled : List Nat) (r : Store × Nat × List Nat),
      disconnectDown c nbH fuel s curH rolled = .ok r → ∃ n, DReachFrom c curH s r.1 n ∧ r.2.1 + n = curH := by
  intro fuel
  induction fuel with
  | zero =>
    intro s curH rolled r h
    simp only [disconnectDown, pure, Except.pure, Except.ok.injEq] at h
    rw [← h]; exact ⟨0, DReachFrom.refl, rfl⟩
  | succ fuel ih =>
    intro s curH rolled r h
    simp only [disconnectDown] at h
    split at h
    · simp only [bind, Except.bind] at h
      cases hd : disconnectBlock c s curH with
      | error e => rw [hd] at h; cases h
      | ok s1 =>
        rw [hd] at h
        obtain ⟨n, d, e⟩ := ih _ _ _ _ h
        have := disconnectBlock_pos hd
        exact ⟨n + 1, DReachFrom.step hd d, by omega⟩
    · simp only [pure, Except.pure, Except.ok.injEq] at h
      rw [← h]; exact ⟨0, DReachFrom.refl, rfl⟩

theorem walkBack_reachH (c : Ctx) :
    ∀ (fuel : Nat) (w w' : Walk) (d : Bool), walkBack c fuel w = .ok (w', d) →
      ∃ n, DReachFrom c (w.prevH + 1) w.s w'.s n ∧ w'.prevH + n = w.prevH := by
  intro fuel
  induction fuel with
  | zero =>
    intro w w' d h
    simp only [walkBack, pure, Except.pure, Except.ok.injEq, Prod.mk.injEq] at h
    rw [← h.1]; exact ⟨0, DReachFrom.refl, rfl⟩
  | succ fuel ih =>
    intro w w' d h
    simp only [walkBack] at h
    split at h
    · simp only [bind, Except.bind, throw, throwThe, MonadExceptOf.throw] at h
      cases hd : disconnectBlock c w.s (w.prevH + 1) with
      | error e => rw [hd] at h; cases h
      | ok s1 =>
        rw [hd] at h
        simp only at h
        split at h
        · cases h
        · rename_i hp0
          split at h
          · cases h
          · split at h
            · cases h
            · obtain ⟨n, d1, e⟩ := ih _ _ _ h
              simp only at d1 e
              exact ⟨n + 1, DReachFrom.step hd (d1.cast (by omega) rfl), by omega⟩
    · simp only [pure, Except.pure, Except.ok.injEq, Prod.mk.injEq] at h
      rw [← h.1]; exact ⟨0, DReachFrom.refl, rfl⟩

theorem connectAll_reachL (c : Ctx) (ready : List Wid) :
    ∀ (bs : List Block) (s : Store) (added : List (Nat × List TxId)) (r : Store × List (Nat × List TxId)),
      connectAll c ready bs s added = .ok r → CReachL c ready s r.1 bs := by
  intro bs
  induction bs with
  | nil =>
    intro s added r h
    simp only [connectAll, pure, Except.pure, Except.ok.injEq] at h
    rw [← h]; exact CReachL.refl
  | cons b rest ih =>
    intro s added r h
    simp only [connectAll, bind, Except.bind] at h
    cases hf : filterBlock c s ready b with
    | error e => rw [hf] at h; cases h
    | ok sc =>
      rw [hf] at h
      obtain ⟨s1, cf⟩ := sc
      exact CReachL.step b cf hf (ih _ _ _ h)

theorem reorgDisconnect_reachH (c : Ctx) (s : Store) (best : BlockMeta) (nb : Block) (tc : List Block)
    (r : Store × List Nat × List Block) (h : reorgDisconnect c s best nb tc = .ok r) :
    ∃ n, DReachFrom c best.height s r.1 n := by
  unfold reorgDisconnect at h
  split at h
  · simp only [pure, Except.pure, Except.ok.injEq] at h
    rw [← h]; exact ⟨0, DReachFrom.refl⟩
  · simp only [bind, Except.bind, throw, throwThe, MonadExceptOf.throw] at h
    cases hd : disconnectDown c nb.height (best.height + 1) s best.height [] with
    | error e => rw [hd] at h; cases h
    | ok r1 =>
      rw [hd] at h
      obtain ⟨s1, curH, rolled⟩ := r1
      obtain ⟨n1, hr1, e1⟩ := disconnectDown_reachH c _ _ _ _ _ _ hd
      simp only at hr1 e1
      simp only at h
      split at h
      · cases h
      · split at h
        · simp only [pure, Except.pure, Except.ok.injEq] at h
          rw [← h]; exact ⟨n1, hr1⟩
        · split at h
          · cases h
          · rename_i hc0
            split at h
            · cases h
            · rename_i ph hph
              cases hw : walkBack c (best.height + 2)
                  { s := s1, prevH := curH - 1, prevHash := ph, tail := nb, tc := tc, rolled := rolled } with
              | error e => rw [hw] at h; cases h
              | ok wd =>
                rw [hw] at h
                obtain ⟨w, d⟩ := wd
                obtain ⟨n2, hr2, e2⟩ := walkBack_reachH c _ _ _ _ hw
                simp only at hr2 e2
                simp only at h
                split at h
                · cases h
                · cases hd2 : disconnectBlock c w.s (w.prevH + 1) with
                  | error e => rw [hd2] at h; cases h
                  | ok s3 =>
                    rw [hd2] at h
                    simp only [pure, Except.pure, Except.ok.injEq] at h
                    rw [← h]
                    have h12 := hr1.trans (hr2.cast (by omega) rfl)
                    exact ⟨n1 + n2 + 1, h12.snoc (by rw [show best.height - (n1 + n2) = w.prevH + 1 by omega]; exact hd2)⟩

theorem reorg_reachH (c : Ctx) (s : Store) (best : BlockMeta) (newBest : Block)
    (r : Store × List Nat × List (Nat × List TxId)) (h : reorg c s best newBest = .ok r) :
    ∃ sm n bs, DReachFrom c best.height s sm n ∧ CReachL c (readyWallets sm c.wallets) sm r.1 bs := by
  unfold reorg at h
  simp only [bind, Except.bind] at h
  cases ha : alignNew c best.height (newBest.height + 1) newBest [] with
  | error e => rw [ha] at h; cases h
  | ok a =>
    rw [ha] at h
    obtain ⟨nb, tc⟩ := a
    simp only at h
    cases hd : reorgDisconnect c s best nb tc with
    | error e => rw [hd] at h; cases h
    | ok d =>
      rw [hd] at h
      obtain ⟨sm, rolled, tc'⟩ := d
      simp only at h
      cases hc : connectAll c (readyWallets sm c.wallets) tc' sm [] with
      | error e => rw [hc] at h; cases h
      | ok cr =>
        rw [hc] at h
        obtain ⟨s2, added⟩ := cr
        simp only [pure, Except.pure, Except.ok.injEq] at h
        rw [← h]
        obtain ⟨n, hn⟩ := reorgDisconnect_reachH c s best nb tc _ hd
        exact ⟨sm, n, tc', hn, connectAll_reachL c _ _ _ _ _ hc⟩

/-- **a successful tip notification = `n` disconnects at the heights `v.best.height, v.best.height - 1, …`, then the
    connects of the blocks `bs` with the ready set read at the fork point** (structural; no hypothesis) -/
theorem processBlock_trace_h (c : Ctx) (s s' : Store) (v v' : Vol) (b : Block)
    (h : processBlock c s v b = (s', v', true)) :
    ∃ sm n bs, DReachFrom c v.best.height s sm n ∧ CReachL c (readyWallets sm c.wallets) sm s' bs := by
  obtain ⟨rolled, added, hr⟩ := processBlock_ok c s s' v v' b h
  unfold processResult at hr
  split at hr
  · simp only [bind, Except.bind] at hr
    cases hf : filterBlock c s (readyWallets s c.wallets) b with
    | error e => rw [hf] at hr; cases hr
    | ok sc =>
      rw [hf] at hr
      obtain ⟨s1, cf⟩ := sc
      simp only [pure, Except.pure, Except.ok.injEq, Prod.mk.injEq] at hr
      rw [← hr.1]
      exact ⟨s, 0, [b], DReachFrom.refl, CReachL.step b cf hf CReachL.refl⟩
  · exact reorg_reachH c s v.best b _ hr


-- ------------------------------------------------------------------ the trace as a run of `stepH`

theorem mem_worldsH_ev (E : HEnv) : ∀ (evs : List HEv) (w : HW) (x : HW × HEv), x ∈ worldsH E w evs → x.2 ∈ evs := by
  intro evs
  induction evs with
  | nil => intro w x h; cases h
  | cons ev evs ih =>
    intro w x h
    simp only [worldsH, List.mem_cons] at h
    rcases h with rfl | h
    · exact List.mem_cons_self ..
    · exact List.mem_cons_of_mem _ (ih _ x h)

theorem runH_append (E : HEnv) (w : HW) (a b : List HEv) : runH E w (a ++ b) = runH E (runH E w a) b := by
  unfold runH; rw [List.foldl_append]

theorem worldsH_append (E : HEnv) : ∀ (a : List HEv) (w : HW) (b : List HEv),
    worldsH E w (a ++ b) = worldsH E w a ++ worldsH E (runH E w a) b := by
  intro a
  induction a with
  | nil => intro w b; rfl
  | cons ev a ih => intro w b; simp only [List.cons_append, worldsH, ih]; rfl

theorem getLast?_of_length {α : Type} : ∀ (l : List α) (h : Nat), h + 1 = l.length → ∃ b, l.getLast? = some b
  | [], _, e => by simp at e
  | a :: l, _, _ => ⟨(a :: l).getLast (by simp), List.getLast?_eq_some_getLast (by simp)⟩

/-- THE DISCONNECTS of the trace are `stepH .disconnect`: from a world whose chain has `h + 1` blocks, `n` disconnects
    at the heights `h, h-1, …` are the run of `n` disconnect events, inside the domain -/
theorem dreach_run {rank : TxId → Nat} {E : HEnv} {nd : Node} :
    ∀ {h : Nat} {s sm : Store} {n : Nat}, DReachFrom (E.ctx nd) h s sm n →
    ∀ w : HW, w.node = nd → w.s = s → HInv rank E w → h + 1 = w.sp.chain.length →
      (∀ x ∈ worldsH E w (List.replicate n .disconnect), HOK rank E x.1 x.2) →
      (runH E w (List.replicate n .disconnect)).s = sm ∧ (runH E w (List.replicate n .disconnect)).node = nd ∧
      HInv rank E (runH E w (List.replicate n .disconnect)) := by
  intro h s sm n d
  induction d with
  | refl => intro w hn hs H _ _; exact ⟨hs, hn, H⟩
  | @step h s s1 s' n hd _ ih =>
    intro w hn hs H hlen hD
    have D := hD (w, .disconnect) (by simp [List.replicate_succ, worldsH])
    obtain ⟨b, hl⟩ := getLast?_of_length w.sp.chain h hlen
    have hsplit : w.sp.chain = w.sp.chain.dropLast ++ [b] := split_last _ b hl
    obtain ⟨hc0, _, hHt, _, _⟩ := D _ b hsplit
    have hbh : b.height = w.sp.chain.dropLast.length := hHt _ b (by simp)
    have hlen2 : w.sp.chain.length = w.sp.chain.dropLast.length + 1 := by
      conv => lhs; rw [hsplit]
      simp
    have hpos : 0 < w.sp.chain.dropLast.length := List.length_pos_iff.2 hc0
    have hbh' : b.height = h := by omega
    have hd' : disconnectBlock (E.ctx w.node) w.s b.height = .ok s1 := by rw [hn, hs, hbh']; exact hd
    have hst : stepH E w .disconnect =
        { w with s := s1, sp := Spec.Pending.step w.sp (.moved E.env w.sp.chain.dropLast) } := by
      simp only [stepH, hl, hd']
    have H1 := hinv_step H .disconnect D
    have hrun : runH E w (List.replicate (n + 1) .disconnect) =
        runH E (stepH E w .disconnect) (List.replicate n .disconnect) := by
      rw [List.replicate_succ]; rfl
    rw [hrun]
    refine ih (stepH E w .disconnect) (by rw [hst]; exact hn) (by rw [hst]) H1 ?_ ?_
    · rw [hst]
      show h - 1 + 1 = w.sp.chain.dropLast.length
      omega
    · intro x hx
      exact hD x (by rw [List.replicate_succ]; simp only [worldsH, List.mem_cons]; exact Or.inr hx)

/-- THE CONNECTS of the trace are `stepH (.connect b)`: the ready set read at the start is the ready set of every
    later store (connecting does not change it) -/
theorem creach_run {rank : TxId → Nat} {E : HEnv} {nd : Node} {ready : List Wid} :
    ∀ {s s' : Store} {bs : List Block}, CReachL (E.ctx nd) ready s s' bs →
    ∀ w : HW, w.node = nd → w.s = s → ready = readyWallets w.s E.wallets → HInv rank E w →
      (∀ x ∈ worldsH E w (bs.map .connect), HOK rank E x.1 x.2) →
      (runH E w (bs.map .connect)).s = s' ∧ HInv rank E (runH E w (bs.map .connect)) := by
  intro s s' bs d
  induction d with
  | refl => intro w _ hs _ H _; exact ⟨hs, H⟩
  | @step s s1 s' bs b conf hf _ ih =>
    intro w hn hs hr H hD
    have D := hD (w, .connect b) (by simp [worldsH])
    have hf' : filterBlock (E.ctx w.node) w.s (readyWallets w.s E.wallets) b = .ok (s1, conf) := by
      rw [hn, hs, ← hs, ← hr, hs]; exact hf
    have hst : stepH E w (.connect b) =
        { w with s := s1, sp := Spec.Pending.step w.sp (.moved E.env (w.sp.chain ++ [b])) } := by
      simp only [stepH, hf']
    have H1 := hinv_step H (.connect b) D
    obtain ⟨⟨rest, hnode⟩, hvalid, hheight, hok, hsrcB⟩ := D
    obtain ⟨_, i2, _⟩ := connect_step_inv rank E w.node w.s s1 w.sp.chain rest b w.sp.pend conf H.inv H.ar H.ne
      hnode hvalid hheight H.rel H.cons H.sidx H.nocb H.relv H.srcP hok hsrcB hf'
    have hrun : runH E w ((b :: bs).map .connect) = runH E (stepH E w (.connect b)) (bs.map .connect) := rfl
    rw [hrun]
    refine ih (stepH E w (.connect b)) (by rw [hst]; exact hn) (by rw [hst]) ?_ H1 ?_
    · rw [hst]
      show ready = readyWallets s1 E.wallets
      rw [i2, hr]
    · intro x hx
      exact hD x (by simp only [List.map_cons, worldsH, List.mem_cons]; exact Or.inr hx)

/-- the events of a notification: `n` disconnects, then the connects of `bs` -/
def notifyEvs (n : Nat) (bs : List Block) : List HEv := List.replicate n .disconnect ++ bs.map .connect

/-- THE TRACE AS A RUN: in a world satisfying `HInv` whose follower's best block is the tip of the wallet's chain, `n`
    disconnects from `v.best.height` down followed by the connects of `bs` (ready set read at the fork point) are the run
    of the events  n × disconnect ++ connect bs,  provided these are inside the domain `HOK` of `pending_refines` -/
theorem trace_run {rank : TxId → Nat} {E : HEnv} (w : HW) (H : HInv rank E w)
    (hbest : w.v.best.height + 1 = w.sp.chain.length) {sm s' : Store} {n : Nat} {bs : List Block}
    (hd : DReachFrom (E.ctx w.node) w.v.best.height w.s sm n)
    (hc : CReachL (E.ctx w.node) (readyWallets sm E.wallets) sm s' bs)
    (hD : ∀ x ∈ worldsH E w (notifyEvs n bs), HOK rank E x.1 x.2) :
    (runH E w (notifyEvs n bs)).s = s' ∧ HInv rank E (runH E w (notifyEvs n bs)) := by
  unfold notifyEvs at hD ⊢
  rw [worldsH_append] at hD
  have hD1 : ∀ x ∈ worldsH E w (List.replicate n .disconnect), HOK rank E x.1 x.2 :=
    fun x hx => hD x (List.mem_append_left _ hx)
  obtain ⟨e1, e2, H1⟩ := dreach_run hd w rfl rfl H hbest hD1
  rw [runH_append]
  refine creach_run hc _ e2 e1 ?_ H1 (fun x hx => hD x (List.mem_append_right _ hx))
  rw [e1]

/-- **A SUCCESSFUL NOTIFICATION IS A RUN OF `stepH`.**  In a world satisfying `HInv` whose follower's best block is the
    tip of the wallet's chain, a successful `processBlock` (direct extension or reorganisation) determines `n` and `bs`
    such that, whenever the events  n × disconnect ++ connect bs  are inside the domain `HOK` of `pending_refines`, the
    store the notification returns is the store of that run, and `HInv` holds after it -/
theorem notify_run {rank : TxId → Nat} {E : HEnv} (w : HW) (H : HInv rank E w)
    (hbest : w.v.best.height + 1 = w.sp.chain.length) (b : Block) (s' : Store) (v' : Vol)
    (h : processBlock (E.ctx w.node) w.s w.v b = (s', v', true)) :
    ∃ n bs, (∀ x ∈ worldsH E w (notifyEvs n bs), HOK rank E x.1 x.2) →
      (runH E w (notifyEvs n bs)).s = s' ∧ HInv rank E (runH E w (notifyEvs n bs)) := by
  obtain ⟨sm, n, bs, hd, hc⟩ := processBlock_trace_h (E.ctx w.node) w.s s' w.v v' b h
  exact ⟨n, bs, trace_run w H hbest hd hc⟩

/-- … with the credit relation: `HInvC` before gives `HInvC` after (the events of a notification are no receive events,
    so `HOK` is the full domain `HOKf`) -/
theorem notify_run_cred {rank : TxId → Nat} {E : HEnv} (w : HW) (H : HInvC rank E w)
    (hbest : w.v.best.height + 1 = w.sp.chain.length) (b : Block) (s' : Store) (v' : Vol)
    (h : processBlock (E.ctx w.node) w.s w.v b = (s', v', true)) :
    ∃ n bs, (∀ x ∈ worldsH E w (notifyEvs n bs), HOK rank E x.1 x.2) →
      (runH E w (notifyEvs n bs)).s = s' ∧ HInvC rank E (runH E w (notifyEvs n bs)) := by
  obtain ⟨n, bs, hr⟩ := notify_run w H.inv hbest b s' v' h
  refine ⟨n, bs, fun hD => ⟨(hr hD).1, hinvc_run_full _ w H (fun x hx => ?_)⟩⟩
  have := hD x hx
  have hev : x.2 ∈ notifyEvs n bs := MW.Lemmas.PendHist.Notify.mem_worldsH_ev E _ w x hx
  obtain ⟨xw, xe⟩ := x
  cases xe with
  | node nd => exact this
  | vol v => exact this
  | recv t =>
    exfalso
    unfold notifyEvs at hev
    rcases List.mem_append.1 hev with h1 | h1
    · have := List.eq_of_mem_replicate h1; cases this
    · obtain ⟨_, _, h2⟩ := List.mem_map.1 h1; cases h2
  | connect b => exact this
  | disconnect => exact this

end MW.Lemmas.PendHist.Notify
