/-
  WELL-FORMEDNESS OF THE CREDIT BUCKET (part 4): the importing path (`MW.Model.Import.importStep`, one batch of
  asyncImport).  It calls the same ledger functions (`updateMinedBalance`, `addCredits`, `unpendMined`,
  `removeDoubleSpends`) plus a record merge that does not touch `credits`.
-/
import MW.Lemmas.LedgerWFCred2
import MW.Model.Import
namespace MW.Lemmas.LedgerWFCred
open MW MW.Model.Ledger MW.Model.Import MW.Lemmas.Ledger

/-- `List.foldlM` in any `Except ε`: a predicate preserved by every successful step is preserved by a successful loop -/
theorem foldlM_preserves_exc {ε α β : Type} (Q : β → Prop) (f : β → α → Except ε β) (l : List α)
    (hf : ∀ b a b', a ∈ l → Q b → f b a = .ok b' → Q b') {b b' : β}
    (hb : Q b) (h : l.foldlM f b = .ok b') : Q b' := by
  induction l generalizing b with
  | nil =>
    have : b = b' := by simpa [pure, Except.pure] using h
    exact this ▸ hb
  | cons a l ih =>
    rw [List.foldlM_cons] at h
    cases h1 : f b a with
    | error e => rw [h1] at h; cases h
    | ok b1 =>
      rw [h1] at h
      exact ih (fun b a' b' ha' => hf b a' b' (List.mem_cons_of_mem _ ha'))
        (hf b a b1 (List.mem_cons_self ..) hb h1) h

theorem recordForImporting_credits {s s' : Store} {tr : TxRec} {blk : BlockMeta}
    (h : recordForImporting s tr blk = .ok s') : s'.credits = s.credits := by
  unfold recordForImporting at h
  repeat' split at h
  all_goals cases h
  all_goals rfl

theorem cn_insertMinedTxForImporting {own : Own} {s : Store} {bals : Bals} {tr : TxRec} {blk : BlockMeta}
    {r : Store × Bals} (hq : KeysNodup s.credits) (h : insertMinedTxForImporting own s bals tr blk = .ok r) :
    KeysNodup r.1.credits := by
  unfold insertMinedTxForImporting at h
  split at h
  · cases h
  · rename_i s1 hrec
    split at h
    · cases h
    · rename_i s2 bals2 hum
      cases h
      show KeysNodup (removeDoubleSpends own (unpendMined s2 tr.tx) tr).credits
      rw [(minedEq_removeDoubleSpends own _ tr).credits, (minedEq_unpendMined _ tr.tx).credits]
      have := cn_updateMinedBalance (s := s1) (by rw [recordForImporting_credits hrec]; exact hq) hum
      exact this

theorem cn_addRelevantTxForImporting {p : Params} {own : Own} {s : Store} {bals : Bals} {tr : TxRec}
    {blk : BlockMeta} {r : Store × Bals} (hq : KeysNodup s.credits)
    (h : addRelevantTxForImporting p own s bals tr blk = .ok r) : KeysNodup r.1.credits := by
  unfold addRelevantTxForImporting at h
  cases h1 : insertMinedTxForImporting own s bals tr blk with
  | error e => rw [h1] at h; cases h
  | ok r1 =>
    rw [h1] at h
    have hq1 := cn_insertMinedTxForImporting hq h1
    simp only [bind, Except.bind] at h
    cases h2 : addCredits p r1.1 r1.2 tr blk with
    | error e => rw [h2] at h; cases h
    | ok r2 =>
      rw [h2] at h
      cases h
      exact cn_addCredits hq1 h2

theorem cn_applyItem {c : Ctx} {w : Wid} {acc acc' : Store × AMap.T Wid Nat} {it : Item}
    (hq : KeysNodup acc.1.credits) (h : applyItem c w acc it = .ok acc') : KeysNodup acc'.1.credits := by
  unfold applyItem at h
  cases h1 : filterTxForImporting c.node w c.own it.tx it.blk.height with
  | error e => rw [h1] at h; cases h
  | ok o =>
    rw [h1] at h
    simp only [bind, Except.bind] at h
    cases o with
    | none => cases h; exact hq
    | some tr =>
      simp only at h
      split at h
      · rename_i r h2
        cases h
        exact cn_addRelevantTxForImporting hq h2
      · cases h
      · cases h

theorem finishBatch_credits (w : Wid) (hd : BatchHead) (s : Store) (bals : AMap.T Wid Nat) :
    (finishBatch w hd s bals).credits = s.credits := rfl

/-- one batch of the import keeps the credit bucket well formed -/
theorem credNodup_importStep {batch : Nat} {c : Ctx} {w : Wid} {s : Store} {v : Vol} {r : Store × Vol × Bool}
    (hq : KeysNodup s.credits) (h : importStep batch c w s v = .ok r) : KeysNodup r.1.credits := by
  unfold importStep at h
  split at h
  · cases h
  · rename_i hd _
    dsimp only at h
    split at h
    · cases h
    · rename_i s' bals hfold
      cases h
      show KeysNodup (finishBatch w hd s' bals).credits
      rw [finishBatch_credits]
      exact foldlM_preserves_exc (fun (x : Store × AMap.T Wid Nat) => KeysNodup x.1.credits) (applyItem c w) _
        (fun _ _ _ _ hb hf => cn_applyItem hb hf) (b := (s, [(w, hd.bal)])) hq hfold

end MW.Lemmas.LedgerWFCred
