/-
  C10, non-vacuity: a five-block chain with two staking deposits and two binding deposits, one staking deposit
  withdrawn again, and a staking output of a COINBASE (needs coinbase maturity AND its frozen period); the store the follower builds for it (`dpS`), `ObsHyp` for it (`dpHyp`), and the concrete
  deposits, ledger entries and coins the examples of MW/Props/C10.lean use.
-/
import MW.Lemmas.LedgerDeposit
import MW.Lemmas.LedgerObsEx
namespace MW.Lemmas.Ledger
open MW MW.Model.Ledger MW.Spec.Chain MW.Spec.Books

deriving instance DecidableEq for MW.Spec.Chain.Deposit
deriving instance DecidableEq for MW.Spec.Books.Occ

/-- wallet "w1": "a1" external, "a2" change, "s1" a staking address, "k1" a binding address -/
def dpOwn : Own := [("a1", ("w1", false)), ("a2", ("w1", true)), ("s1", ("w1", false)), ("k1", ("w1", false))]

/-- height 1: coinbase to "a1".  height 2: `t1` turns it into a staking deposit frozen 1 block (20), a staking
    deposit frozen 2 blocks (25) and a MASSIP-2 binding deposit (5) and an old-style binding deposit (4).  height 3: the coinbase `c3` pays a staking output
    frozen 3 blocks (7) to "s1": coinbase-mature after 1 block, withdrawable only after 3 + 1.
    height 4: `t2` withdraws the first staking deposit (2 + 1 + 1 ≤ 4) to "a2". -/
def dpBlocks : List Block :=
  [ ⟨"b1", "G", 1, [⟨"c1", true, [⟨"", 0, 0⟩], [⟨"a1", 54, .std⟩]⟩]⟩,
    ⟨"b2", "b1", 2, [⟨"c2", true, [⟨"", 0, 0⟩], [⟨"x", 50, .std⟩]⟩,
                     ⟨"t1", false, [⟨"c1", 0, 0⟩],
                       [⟨"s1", 20, .stk 1⟩, ⟨"s1", 25, .stk 2⟩, ⟨"k1", 5, .bindNew "T"⟩, ⟨"k1", 4, .bindOld "O"⟩]⟩]⟩,
    ⟨"b3", "b2", 3, [⟨"c3", true, [⟨"", 0, 0⟩], [⟨"x", 50, .std⟩, ⟨"s1", 7, .stk 3⟩]⟩]⟩,
    ⟨"b4", "b3", 4, [⟨"c4", true, [⟨"", 0, 0⟩], [⟨"x", 50, .std⟩]⟩,
                     ⟨"t2", false, [⟨"t1", 0, 2⟩], [⟨"a2", 20, .std⟩]⟩]⟩ ]

def dpChain : List Block := ⟨"G", "", 0, []⟩ :: dpBlocks

def dpCtx : Ctx := ⟨{ cbMaturity := 1 }, dpOwn, ["w1"], { chain := dpChain }⟩

theorem dpValid : ChainValid dpOwn dpChain := by decide

theorem dpHeights : HeightsOK dpChain := by
  intro i b h
  match i with
  | 0 => simp [dpChain] at h; rw [← h]
  | 1 => simp [dpChain, dpBlocks] at h; rw [← h]
  | 2 => simp [dpChain, dpBlocks] at h; rw [← h]
  | 3 => simp [dpChain, dpBlocks] at h; rw [← h]
  | 4 => simp [dpChain, dpBlocks] at h; rw [← h]
  | n + 5 => simp [dpChain, dpBlocks] at h

theorem dpReady : readyWallets obS0 dpCtx.wallets = ["w1"] := by decide

theorem dpInv0 : Inv dpCtx obS0 [⟨"G", "", 0, []⟩] := by
  have hB : bookOf dpCtx.p dpCtx.own [⟨"G", "", 0, []⟩] = {} := rfl
  constructor
  · rw [hB]
    exact ⟨fun _ _ _ => rfl, fun _ => rfl, fun _ => rfl, fun _ => rfl, fun _ => rfl, fun _ => rfl⟩
  · intro w hw
    rw [hB, dpReady] at *
    have : w = "w1" := by simpa using hw
    subst this
    rfl
  · exact obInv0.sync
  · rfl

theorem dpAllReady : AllReady dpOwn ["w1"] := by
  intro a w ch h
  simp only [dpOwn, AMap.get_cons, AMap.get_nil] at h
  repeat' split at h
  all_goals first
    | (simp only [Option.some.injEq, Prod.mk.injEq] at h; rw [← h.1]; rfl)
    | cases h

/-- the store the follower reaches on `dpChain` -/
def dpS : Store :=
  match connectAll dpCtx (readyWallets obS0 dpCtx.wallets) dpBlocks obS0 [] with
  | .ok (s, _) => s
  | .error _ => obS0

/-- the spec ledger: the four unspent deposits and the withdrawn 20 as an ordinary coin -/
theorem dpLedger : ledgerOf dpOwn dpChain =
    [⟨"w1", "t1", 1, 25, 2, false, .stk 2, "s1"⟩, ⟨"w1", "t1", 2, 5, 2, false, .bindNew "T", "k1"⟩,
     ⟨"w1", "t1", 3, 4, 2, false, .bindOld "O", "k1"⟩, ⟨"w1", "c3", 1, 7, 3, true, .stk 3, "s1"⟩,
     ⟨"w1", "t2", 0, 20, 4, false, .std, "a2"⟩] := by decide

theorem dpHyp : ObsHyp dpCtx dpS dpChain ∧ (readyWallets dpS dpCtx.wallets).contains "w1" = true := by
  obtain ⟨s', added, h, hI, hst, _⟩ := connectAll_sound (c := dpCtx) dpBlocks obS0 [⟨"G", "", 0, []⟩] [] []
    dpInv0 (by simp [dpCtx, dpChain]) dpValid dpHeights (by rw [dpReady]; exact dpAllReady)
    (by rw [dpReady]; rfl)
  have hs : dpS = s' := by unfold dpS; rw [h]
  rw [hs]
  refine ⟨⟨hI, ?_, dpValid, dpHeights, by decide, by decide, ?_⟩, ?_⟩
  · rw [← hs]; unfold KeysNodup; decide
  · intro x hx f hf
    have hl := dpLedger
    change ledgerOf dpOwn dpChain = _ at hl
    change x ∈ ledgerOf dpOwn dpChain at hx
    rw [hl] at hx
    simp only [List.mem_cons, List.not_mem_nil, or_false] at hx
    rcases hx with rfl | rfl | rfl | rfl | rfl
    · cases hf; decide
    · cases hf
    · cases hf
    · cases hf; decide
    · cases hf
  · rw [readyWallets_congr hst, dpReady]; rfl

-- ------------------------------------------------------------------ the concrete objects

/-- the five deposits of the chain; the first one withdrawn (by `t2`), the last one a coinbase output -/
theorem dpDeposits : deposits dpOwn dpChain "w1" =
    [⟨"t1", 0, 20, 2, .stk 1, "s1", true⟩, ⟨"t1", 1, 25, 2, .stk 2, "s1", false⟩,
     ⟨"t1", 2, 5, 2, .bindNew "T", "k1", false⟩, ⟨"t1", 3, 4, 2, .bindOld "O", "k1", false⟩,
     ⟨"c3", 1, 7, 3, .stk 3, "s1", false⟩] := by decide

/-- the withdrawn staking deposit -/
def dpD0 : Deposit := ⟨"t1", 0, 20, 2, .stk 1, "s1", true⟩
/-- the staking deposit still frozen / just withdrawable -/
def dpD1 : Deposit := ⟨"t1", 1, 25, 2, .stk 2, "s1", false⟩
/-- the binding deposit -/
def dpD2 : Deposit := ⟨"t1", 2, 5, 2, .bindNew "T", "k1", false⟩
/-- the old-style binding deposit -/
def dpD3 : Deposit := ⟨"t1", 3, 4, 2, .bindOld "O", "k1", false⟩
/-- the staking output of the coinbase of block 3 -/
def dpD4 : Deposit := ⟨"c3", 1, 7, 3, .stk 3, "s1", false⟩

theorem dpD0_mem : dpD0 ∈ deposits dpCtx.own dpChain "w1" := by
  show dpD0 ∈ deposits dpOwn dpChain "w1"
  rw [dpDeposits]; simp [dpD0]

theorem dpD1_mem : dpD1 ∈ deposits dpCtx.own dpChain "w1" := by
  show dpD1 ∈ deposits dpOwn dpChain "w1"
  rw [dpDeposits]; simp [dpD1]

theorem dpD2_mem : dpD2 ∈ deposits dpCtx.own dpChain "w1" := by
  show dpD2 ∈ deposits dpOwn dpChain "w1"
  rw [dpDeposits]; simp [dpD2]

theorem dpD4_mem : dpD4 ∈ deposits dpCtx.own dpChain "w1" := by
  show dpD4 ∈ deposits dpOwn dpChain "w1"
  rw [dpDeposits]; simp [dpD4]

/-- the ledger entries of the five deposits -/
def dpU0 : UCoin := ⟨"w1", "t1", 0, ⟨2, "b2"⟩, false, ⟨"s1", 20, .stk 1⟩, false⟩
def dpU1 : UCoin := ⟨"w1", "t1", 1, ⟨2, "b2"⟩, false, ⟨"s1", 25, .stk 2⟩, false⟩
def dpU2 : UCoin := ⟨"w1", "t1", 2, ⟨2, "b2"⟩, false, ⟨"k1", 5, .bindNew "T"⟩, false⟩
def dpU3 : UCoin := ⟨"w1", "t1", 3, ⟨2, "b2"⟩, false, ⟨"k1", 4, .bindOld "O"⟩, false⟩
def dpU4 : UCoin := ⟨"w1", "c3", 1, ⟨3, "b3"⟩, true, ⟨"s1", 7, .stk 3⟩, false⟩

theorem dpBookL : (bookOf dpCtx.p dpCtx.own dpChain).L =
    [dpU1, dpU2, dpU3, dpU4, ⟨"w1", "t2", 0, ⟨4, "b4"⟩, false, ⟨"a2", 20, .std⟩, true⟩] := by decide

theorem dpU1_mem : dpU1 ∈ (bookOf dpCtx.p dpCtx.own dpChain).L := by rw [dpBookL]; simp

theorem dpU2_mem : dpU2 ∈ (bookOf dpCtx.p dpCtx.own dpChain).L := by rw [dpBookL]; simp

theorem dpU3_mem : dpU3 ∈ (bookOf dpCtx.p dpCtx.own dpChain).L := by rw [dpBookL]; simp

theorem dpU4_mem : dpU4 ∈ (bookOf dpCtx.p dpCtx.own dpChain).L := by rw [dpBookL]; simp

theorem dpU4_created : CreatedIn dpCtx.own (occs dpChain) dpU4 :=
  ((glob_bookOf (p := dpCtx.p) dpValid).mem dpU4).1 dpU4_mem |>.1

theorem dpU0_created : CreatedIn dpCtx.own (occs dpChain) dpU0 :=
  ⟨⟨⟨2, "b2"⟩, 1, ⟨"t1", false, [⟨"c1", 0, 0⟩],
      [⟨"s1", 20, .stk 1⟩, ⟨"s1", 25, .stk 2⟩, ⟨"k1", 5, .bindNew "T"⟩, ⟨"k1", 4, .bindOld "O"⟩]⟩⟩, by decide, rfl, rfl, rfl, rfl, rfl⟩

theorem dpU1_created : CreatedIn dpCtx.own (occs dpChain) dpU1 :=
  ((glob_bookOf (p := dpCtx.p) dpValid).mem dpU1).1 dpU1_mem |>.1

/-- the coins the wallet lists: the four unspent deposits (classes staking, binding) and the withdrawn 20;
    the coinbase staking output c3:1 carries maturity max 1 (3 + 1) = 4 -/
theorem dpCoins : (coinsOf dpS "w1").map (fun x => (x.tx, x.idx, x.cred.amt, x.cred.cls, x.cred.maturity)) =
    [("t2", 0, 20, .standard, 0), ("c3", 1, 7, .staking, 4), ("t1", 3, 4, .binding, 0), ("t1", 2, 5, .binding, 0xfffffffe),
     ("t1", 1, 25, .staking, 3)] := by decide

/-- the deposit-history bucket of the store: five records, the first in the withdrawn partition -/
theorem dpGame : dpS.game.map (·.1) =
    [⟨"w1", false, true, "t1", 2, 0⟩, ⟨"w1", false, false, "c3", 3, 1⟩, ⟨"w1", true, false, "t1", 2, 3⟩, ⟨"w1", true, false, "t1", 2, 2⟩,
     ⟨"w1", false, false, "t1", 2, 1⟩] := by
  decide

/-- the balance: 61 in total, 20 spendable (the withdrawn deposit), 25 withdrawable staking, 4 withdrawable
    binding (old style), the MASSIP-2 binding deposit locked, the coinbase staking output (7) still frozen
    although the coinbase itself is mature -/
theorem dpBalance : walletBalance dpS "w1" 1 = some ⟨61, 20, 25, 4⟩ := by decide

end MW.Lemmas.Ledger
