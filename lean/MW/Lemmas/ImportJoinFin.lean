/-
  C07 stage 1 with other wallets in the instance, part 4 — THE JOIN OF THE TWO HALVES IS THE WHOLE
  (pure MW.Spec.Books).  With `or` = the keystore table without wallet `w` and `ow` = its restriction to `w`
  (`OwnSub own or (· ≠ w)`, `OwnSub own ow (· = w)`), for a chain valid for the full table `own`:
    credits / debits / deposit records / tx records of `bookOf p own chain` are the `orE`-join of those of
    `bookOf p or chain` and `bookOf p ow chain`; looking up an outpoint in the concatenation of the two ledger
    lists is looking it up in the full ledger list; the totals of the wallets agree.
  First the generalisation of C08's `fold_L_minus` to an arbitrary sub-view: the ledger list of a sub-view is
  the ledger list of the full view filtered by `keep u.wallet`.
-/
import MW.Lemmas.ImportJoinTx
import MW.Lemmas.RemoveProj2
namespace MW.Lemmas.ImportJoin
open MW MW.Model.Ledger MW.Model.Import MW.Spec.Chain MW.Spec.Books MW.Lemmas.Ledger

-- ------------------------------------------------------------------ the ledger list of a sub-view

section
variable {own own' : Own} {keep : Wid → Bool}

theorem mkU_sub (hO : OwnSub own own' keep) (t : Tx) (bm : BlockMeta) (oj : Out × Nat) :
    mkU own' t bm oj = (mkU own t bm oj).filter (fun u => keep u.wallet) := by
  unfold mkU
  rw [ownerOf_sub hO]
  cases h : ownerOf own oj.1 with
  | none => rfl
  | some x =>
    by_cases hx : keep x.1 = true <;> simp [Option.filter, hx]

theorem applyOcc_L_sub (hO : OwnSub own own' keep) (p : Params) (B B' : Book) (oc : Occ)
    (h : B'.L = B.L.filter (fun u => keep u.wallet)) :
    (applyOcc p own' B' oc).L = (applyOcc p own B oc).L.filter (fun u => keep u.wallet) := by
  rw [applyOcc_L, applyOcc_L, List.filter_append, h]
  have h2 : (oc.t.outs.zipIdx 0).filterMap (mkU own' oc.t oc.bm) =
      ((oc.t.outs.zipIdx 0).filterMap (mkU own oc.t oc.bm)).filter (fun u => keep u.wallet) := by
    rw [← MW.Lemmas.RemoveProj.filterMap_filter_opt]
    congr 1
    funext oj
    exact mkU_sub hO oc.t oc.bm oj
  rw [h2]
  congr 1
  by_cases hcb : oc.t.cb = true
  · simp [hcb]
  · have hcb' : oc.t.cb = false := by simpa using hcb
    rw [hcb']
    simp only [Bool.false_eq_true, if_false]
    rw [List.filter_filter, List.filter_filter]
    apply List.filter_congr
    intro u _
    exact Bool.and_comm _ _

/-- the ledger list of a sub-view is the ledger list of the full view, filtered -/
theorem fold_L_sub (hO : OwnSub own own' keep) (p : Params) (ocs : List Occ) (B B' : Book)
    (h : B'.L = B.L.filter (fun u => keep u.wallet)) :
    (ocs.foldl (applyOcc p own') B').L = (ocs.foldl (applyOcc p own) B).L.filter (fun u => keep u.wallet) := by
  induction ocs generalizing B B' with
  | nil => exact h
  | cons oc ocs ih => exact ih _ _ (applyOcc_L_sub hO p B B' oc h)

theorem bookOf_L_sub (hO : OwnSub own own' keep) (p : Params) (chain : List Block) :
    (bookOf p own' chain).L = (bookOf p own chain).L.filter (fun u => keep u.wallet) :=
  fold_L_sub hO p (occs chain) {} {} rfl

end

/-- a filter that keeps every coin of `w'` does not change the total of `w'` -/
theorem totalU_filterQ (L : List UCoin) (q : UCoin → Bool) {w' : Wid} (h : ∀ u, u.wallet = w' → q u = true) :
    totalU (L.filter q) w' = totalU L w' := by
  unfold totalU
  rw [List.filter_filter]
  congr 2
  apply List.filter_congr
  intro u _
  by_cases hu : u.wallet = w'
  · simp [hu, h u hu]
  · simp [hu]

/-- looking up an outpoint in a filtered ledger list (one entry per outpoint) -/
theorem lookupU_filterQ {L : List UCoin} (hk : ∀ u ∈ L, ∀ u' ∈ L, u.tx = u'.tx → u.idx = u'.idx → u = u')
    (q : UCoin → Bool) (tx : TxId) (idx : Nat) :
    lookupU (L.filter q) tx idx = (lookupU L tx idx).filter q := by
  cases h : lookupU L tx idx with
  | none =>
    cases h' : lookupU (L.filter q) tx idx with
    | none => rfl
    | some u =>
      obtain ⟨hm, ht, hi⟩ := lookupU_some h'
      exact absurd ⟨ht, hi⟩ (lookupU_none h u (List.mem_filter.1 hm).1)
  | some u =>
    obtain ⟨hm, ht, hi⟩ := lookupU_some h
    by_cases hu : q u = true
    · simp only [Option.filter, hu, if_true]
      cases h' : lookupU (L.filter q) tx idx with
      | none =>
        exact absurd ⟨ht, hi⟩ (lookupU_none h' u (List.mem_filter.2 ⟨hm, hu⟩))
      | some u' =>
        obtain ⟨hm', ht', hi'⟩ := lookupU_some h'
        rw [hk u' (List.mem_filter.1 hm').1 u hm (ht'.trans ht.symm) (hi'.trans hi.symm)]
    · simp only [Option.filter, hu, Bool.false_eq_true, if_false]
      cases h' : lookupU (L.filter q) tx idx with
      | none => rfl
      | some u' =>
        obtain ⟨hm', ht', hi'⟩ := lookupU_some h'
        have := hk u' (List.mem_filter.1 hm').1 u hm (ht'.trans ht.symm) (hi'.trans hi.symm)
        rw [this] at hm'
        exact absurd (List.mem_filter.1 hm').2 hu

-- ------------------------------------------------------------------ credits of a sub-view

section
variable {own own' : Own} {keep : Wid → Bool} {p : Params} {P : List Occ} {B B' : Book}

/-- a coin the sub-view keeps has the same credit in both books -/
theorem cred_sub_eq (hO : OwnSub own own' keep) (hC : CredInv p own P B) (hC' : CredInv p own' P B') {u : UCoin}
    (hu : CreatedIn own P u) (hk : keep u.wallet = true) : B'.credits u.credKey = B.credits u.credKey := by
  have hu' := (createdIn_sub hO).2 ⟨hu, hk⟩
  by_cases hs : (u.tx, u.idx) ∈ spentOps P
  · obtain ⟨dk, hdk⟩ := mem_spentOps_spentBy hs
    rw [hC.spent u dk hu hdk, hC'.spent u dk hu' hdk]
  · rw [hC.unspent u hu hs, hC'.unspent u hu' hs]

/-- a credit of the sub-view is a credit of the full view -/
theorem cred_sub_back (hO : OwnSub own own' keep) (hC : CredInv p own P B) (hC' : CredInv p own' P B')
    {ck : CredKey} {cr : Credit} (h : B'.credits ck = some cr) : B.credits ck = some cr := by
  obtain ⟨u, hu', hck⟩ := hC'.only ck cr h
  obtain ⟨hu, hk⟩ := (createdIn_sub hO).1 hu'
  rw [hck, ← cred_sub_eq hO hC hC' hu hk, ← hck]; exact h

end

-- ------------------------------------------------------------------ touching the halves

section
variable {own or ow : Own} {w : Wid}

/-- a transaction touches the full books iff it touches one of the halves -/
theorem touches_join (hOr : OwnSub own or (fun x => decide (x ≠ w))) (hOw : OwnSub own ow (fun x => decide (x = w)))
    {B Br Bw : Book} (hk : ∀ u ∈ B.L, ∀ u' ∈ B.L, u.tx = u'.tx → u.idx = u'.idx → u = u')
    (hLr : Br.L = B.L.filter (fun u => decide (u.wallet ≠ w)))
    (hLw : Bw.L = B.L.filter (fun u => decide (u.wallet = w))) (t : Tx) :
    Spec.Books.touches own B t = true ↔ Spec.Books.touches or Br t = true ∨ Spec.Books.touches ow Bw t = true := by
  unfold Spec.Books.touches
  simp only [Bool.or_eq_true, Bool.and_eq_true, Bool.not_eq_true', List.any_eq_true]
  constructor
  · rintro (⟨hcb, i, hi, hl⟩ | ⟨o, ho, hoo⟩)
    · obtain ⟨u, hu⟩ := Option.isSome_iff_exists.1 hl
      by_cases hw : u.wallet = w
      · refine Or.inr (Or.inl ⟨hcb, i, hi, ?_⟩)
        rw [hLw, lookupU_filterQ hk, hu]
        simp [Option.filter, hw]
      · refine Or.inl (Or.inl ⟨hcb, i, hi, ?_⟩)
        rw [hLr, lookupU_filterQ hk, hu]
        simp [Option.filter, hw]
    · obtain ⟨x, hx⟩ := Option.isSome_iff_exists.1 hoo
      by_cases hw : x.1 = w
      · refine Or.inr (Or.inr ⟨o, ho, ?_⟩)
        rw [(ownerOf_sub_some hOw).2 ⟨hx, by simpa using hw⟩]; rfl
      · refine Or.inl (Or.inr ⟨o, ho, ?_⟩)
        rw [(ownerOf_sub_some hOr).2 ⟨hx, by simpa using hw⟩]; rfl
  · rintro ((⟨hcb, i, hi, hl⟩ | ⟨o, ho, hoo⟩) | (⟨hcb, i, hi, hl⟩ | ⟨o, ho, hoo⟩))
    · refine Or.inl ⟨hcb, i, hi, ?_⟩
      rw [hLr, lookupU_filterQ hk] at hl
      cases h : lookupU B.L i.tx i.idx with
      | none => rw [h] at hl; simp at hl
      | some _ => rfl
    · exact Or.inr ⟨o, ho, ownerOf_sub_isSome hOr hoo⟩
    · refine Or.inl ⟨hcb, i, hi, ?_⟩
      rw [hLw, lookupU_filterQ hk] at hl
      cases h : lookupU B.L i.tx i.idx with
      | none => rw [h] at hl; simp at hl
      | some _ => rfl
    · exact Or.inr ⟨o, ho, ownerOf_sub_isSome hOw hoo⟩

/-- the tx records of a sequence of transactions valid for the full view -/
theorem fold_join_txrecs {p : Params} (hOr : OwnSub own or (fun x => decide (x ≠ w)))
    (hOw : OwnSub own ow (fun x => decide (x = w))) {P : List Occ} (hV : ValidFrom own [] P) :
    ∀ k, (P.foldl (applyOcc p own) {}).txrecs k =
      orE ((P.foldl (applyOcc p or) {}).txrecs k) ((P.foldl (applyOcc p ow) {}).txrecs k) := by
  intro key
  have hn : (idsOf P).Nodup := by
    have : Glob own P (P.foldl (applyOcc p own) {}) := by simpa using glob_fold (p := p) (glob_nil own) hV
    exact this.idsNodup
  have hT : ∀ P₁ oc P₂, P = P₁ ++ oc :: P₂ →
      (Spec.Books.touches own (P₁.foldl (applyOcc p own) {}) oc.t = true ↔
        Spec.Books.touches or (P₁.foldl (applyOcc p or) {}) oc.t = true ∨ Spec.Books.touches ow (P₁.foldl (applyOcc p ow) {}) oc.t = true) := by
    intro P₁ oc P₂ hsplit
    have hV1 : ValidFrom own [] P₁ := by rw [hsplit] at hV; exact (validFrom_append.1 hV).1
    have hG1 : Glob own P₁ (P₁.foldl (applyOcc p own) {}) := by
      simpa using glob_fold (p := p) (glob_nil own) hV1
    exact touches_join hOr hOw (char_keysOK hG1) (fold_L_sub hOr p P₁ {} {} rfl) (fold_L_sub hOw p P₁ {} {} rfl) oc.t
  cases hB : (P.foldl (applyOcc p own) {}).txrecs key with
  | none =>
    have h1 : (P.foldl (applyOcc p or) {}).txrecs key = none := by
      cases h : (P.foldl (applyOcc p or) {}).txrecs key with
      | none => rfl
      | some loc =>
        obtain ⟨P₁, oc, P₂, hsplit, ht, hk, hl⟩ := (fold_txrecs_iff p or P hn key loc).1 h
        have := (fold_txrecs_iff p own P hn key loc).2 ⟨P₁, oc, P₂, hsplit, (hT _ _ _ hsplit).2 (Or.inl ht), hk, hl⟩
        rw [hB] at this; cases this
    have h2 : (P.foldl (applyOcc p ow) {}).txrecs key = none := by
      cases h : (P.foldl (applyOcc p ow) {}).txrecs key with
      | none => rfl
      | some loc =>
        obtain ⟨P₁, oc, P₂, hsplit, ht, hk, hl⟩ := (fold_txrecs_iff p ow P hn key loc).1 h
        have := (fold_txrecs_iff p own P hn key loc).2 ⟨P₁, oc, P₂, hsplit, (hT _ _ _ hsplit).2 (Or.inr ht), hk, hl⟩
        rw [hB] at this; cases this
    rw [h1, h2]; rfl
  | some loc =>
    obtain ⟨P₁, oc, P₂, hsplit, ht, hk, hl⟩ := (fold_txrecs_iff p own P hn key loc).1 hB
    rcases (hT _ _ _ hsplit).1 ht with h | h
    · rw [(fold_txrecs_iff p or P hn key loc).2 ⟨P₁, oc, P₂, hsplit, h, hk, hl⟩]; rfl
    · have hw := (fold_txrecs_iff p ow P hn key loc).2 ⟨P₁, oc, P₂, hsplit, h, hk, hl⟩
      cases hr : (P.foldl (applyOcc p or) {}).txrecs key with
      | none => rw [hw]; rfl
      | some loc' =>
        obtain ⟨Q₁, oc', Q₂, hsplit', _, hk', hl'⟩ := (fold_txrecs_iff p or P hn key loc').1 hr
        have hid : oc.t.id = oc'.t.id := congrArg Prod.fst (hk.symm.trans hk')
        have he : oc = oc' := occ_eq_of_id hn (by rw [hsplit]; simp) (by rw [hsplit']; simp) hid
        subst he
        rw [hl, hl']; rfl

end

-- ------------------------------------------------------------------ THE JOIN OF THE HALVES

section
variable {p : Params} {own or ow : Own} {w : Wid} {chain : List Block}

/-- 1. CREDITS -/
theorem join_credits (hOr : OwnSub own or (fun x => decide (x ≠ w))) (hOw : OwnSub own ow (fun x => decide (x = w)))
    (hV : ChainValid own chain) :
    ∀ k, (bookOf p own chain).credits k = orE ((bookOf p or chain).credits k) ((bookOf p ow chain).credits k) := by
  intro k
  have hC := credInv_bookOf (p := p) hV
  have hCr := credInv_bookOf (p := p) (chainValid_sub hOr hV)
  have hCw := credInv_bookOf (p := p) (chainValid_sub hOw hV)
  have hS := sepR_bookOf (p := p) hOr hV
  cases hB : (bookOf p own chain).credits k with
  | none =>
    have h1 : (bookOf p or chain).credits k = none := by
      cases h : (bookOf p or chain).credits k with
      | none => rfl
      | some cr => have := cred_sub_back hOr hC hCr h; rw [hB] at this; cases this
    have h2 : (bookOf p ow chain).credits k = none := by
      cases h : (bookOf p ow chain).credits k with
      | none => rfl
      | some cr => have := cred_sub_back hOw hC hCw h; rw [hB] at this; cases this
    rw [h1, h2]; rfl
  | some cr =>
    obtain ⟨u, hu, hck⟩ := hC.only k cr hB
    subst hck
    by_cases hw : u.wallet = w
    · rw [sep_cred hS ⟨hu, hw⟩, cred_sub_eq hOw hC hCw hu (by simpa using hw), hB]; rfl
    · rw [cred_sub_eq hOr hC hCr hu (by simpa using hw), hB]; rfl

/-- 2. DEBITS -/
theorem join_debits (hOr : OwnSub own or (fun x => decide (x ≠ w))) (hOw : OwnSub own ow (fun x => decide (x = w)))
    (hV : ChainValid own chain) :
    ∀ k, (bookOf p own chain).debits k = orE ((bookOf p or chain).debits k) ((bookOf p ow chain).debits k) := by
  intro k
  have hD := debitInv_bookOf (p := p) hV
  have hDr := debitInv_bookOf (p := p) (chainValid_sub hOr hV)
  have hDw := debitInv_bookOf (p := p) (chainValid_sub hOw hV)
  have hS := sepR_bookOf (p := p) hOr hV
  cases hB : (bookOf p own chain).debits k with
  | none =>
    have h1 : (bookOf p or chain).debits k = none := by
      cases h : (bookOf p or chain).debits k with
      | none => rfl
      | some d =>
        obtain ⟨amt, ck⟩ := d
        obtain ⟨u, hu', hsp, ha, hck⟩ := (hDr k amt ck).1 h
        have := (hD k amt ck).2 ⟨u, ((createdIn_sub hOr).1 hu').1, hsp, ha, hck⟩
        rw [hB] at this; cases this
    have h2 : (bookOf p ow chain).debits k = none := by
      cases h : (bookOf p ow chain).debits k with
      | none => rfl
      | some d =>
        obtain ⟨amt, ck⟩ := d
        obtain ⟨u, hu', hsp, ha, hck⟩ := (hDw k amt ck).1 h
        have := (hD k amt ck).2 ⟨u, ((createdIn_sub hOw).1 hu').1, hsp, ha, hck⟩
        rw [hB] at this; cases this
    rw [h1, h2]; rfl
  | some d =>
    obtain ⟨amt, ck⟩ := d
    obtain ⟨u, hu, hsp, ha, hck⟩ := (hD k amt ck).1 hB
    by_cases hw : u.wallet = w
    · rw [sep_debit hS ⟨hu, hw⟩ hsp,
        (hDw k amt ck).2 ⟨u, (createdIn_sub hOw).2 ⟨hu, by simpa using hw⟩, hsp, ha, hck⟩]; rfl
    · rw [(hDr k amt ck).2 ⟨u, (createdIn_sub hOr).2 ⟨hu, by simpa using hw⟩, hsp, ha, hck⟩]; rfl

/-- 3. DEPOSIT RECORDS -/
theorem join_game (hOr : OwnSub own or (fun x => decide (x ≠ w))) (hOw : OwnSub own ow (fun x => decide (x = w)))
    (hV : ChainValid own chain) :
    ∀ k, (bookOf p own chain).game k = orE ((bookOf p or chain).game k) ((bookOf p ow chain).game k) := by
  intro k
  have hG := gameInv_bookOf (p := p) hV
  have hGr := gameInv_bookOf (p := p) (chainValid_sub hOr hV)
  have hGw := gameInv_bookOf (p := p) (chainValid_sub hOw hV)
  have hS := sepR_bookOf (p := p) hOr hV
  cases hB : (bookOf p own chain).game k with
  | none =>
    have h1 : (bookOf p or chain).game k = none := by
      cases h : (bookOf p or chain).game k with
      | none => rfl
      | some x =>
        cases x
        obtain ⟨u, hu', hd, hgk⟩ := (hGr k).1 h
        have := (hG k).2 ⟨u, ((createdIn_sub hOr).1 hu').1, hd, hgk⟩
        rw [hB] at this; cases this
    have h2 : (bookOf p ow chain).game k = none := by
      cases h : (bookOf p ow chain).game k with
      | none => rfl
      | some x =>
        cases x
        obtain ⟨u, hu', hd, hgk⟩ := (hGw k).1 h
        have := (hG k).2 ⟨u, ((createdIn_sub hOw).1 hu').1, hd, hgk⟩
        rw [hB] at this; cases this
    rw [h1, h2]; rfl
  | some x =>
    cases x
    obtain ⟨u, hu, hd, hgk⟩ := (hG k).1 hB
    by_cases hw : u.wallet = w
    · rw [sep_game hS k (by rw [hgk]; exact hw),
        (hGw k).2 ⟨u, (createdIn_sub hOw).2 ⟨hu, by simpa using hw⟩, hd, hgk⟩]; rfl
    · rw [(hGr k).2 ⟨u, (createdIn_sub hOr).2 ⟨hu, by simpa using hw⟩, hd, hgk⟩]; rfl

/-- 4. TX RECORDS -/
theorem join_txrecs (hOr : OwnSub own or (fun x => decide (x ≠ w))) (hOw : OwnSub own ow (fun x => decide (x = w)))
    (hV : ChainValid own chain) :
    ∀ k, (bookOf p own chain).txrecs k = orE ((bookOf p or chain).txrecs k) ((bookOf p ow chain).txrecs k) :=
  fold_join_txrecs hOr hOw hV

/-- 5. the ledger: LOOKUPS in the concatenation of the halves -/
theorem join_lookup (hOr : OwnSub own or (fun x => decide (x ≠ w))) (hOw : OwnSub own ow (fun x => decide (x = w)))
    (hV : ChainValid own chain) :
    ∀ tx idx, lookupU ((bookOf p or chain).L ++ (bookOf p ow chain).L) tx idx = lookupU (bookOf p own chain).L tx idx := by
  intro tx idx
  have hk := char_keysOK (glob_bookOf (p := p) hV)
  have hLr : (bookOf p or chain).L = (bookOf p own chain).L.filter (fun u => decide (u.wallet ≠ w)) :=
    bookOf_L_sub hOr p chain
  have hLw : (bookOf p ow chain).L = (bookOf p own chain).L.filter (fun u => decide (u.wallet = w)) :=
    bookOf_L_sub hOw p chain
  rw [lookupU_append, hLr, hLw, lookupU_filterQ hk, lookupU_filterQ hk]
  cases h : lookupU (bookOf p own chain).L tx idx with
  | none => rfl
  | some u => by_cases hu : u.wallet = w <;> simp [Option.filter, hu]

/-- 6a. the ledger: TOTALS of the ready wallets -/
theorem join_total_r (hOr : OwnSub own or (fun x => decide (x ≠ w))) :
    ∀ w', w' ≠ w → totalU (bookOf p or chain).L w' = totalU (bookOf p own chain).L w' := by
  intro w' hw'
  have hLr : (bookOf p or chain).L = (bookOf p own chain).L.filter (fun u => decide (u.wallet ≠ w)) :=
    bookOf_L_sub hOr p chain
  rw [hLr]
  apply totalU_filterQ
  intro u hu
  rw [hu]; simpa using hw'

/-- 6b. the ledger: TOTAL of the restored wallet -/
theorem join_total_w (hOw : OwnSub own ow (fun x => decide (x = w))) :
    totalU (bookOf p ow chain).L w = totalU (bookOf p own chain).L w := by
  have hLw : (bookOf p ow chain).L = (bookOf p own chain).L.filter (fun u => decide (u.wallet = w)) :=
    bookOf_L_sub hOw p chain
  rw [hLw]
  apply totalU_filterQ
  intro u hu
  simpa using hu

end
end MW.Lemmas.ImportJoin
