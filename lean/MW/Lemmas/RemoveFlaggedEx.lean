/-
  C08 — non-vacuity of `inv_flag_to_fj` and `fj_processBlock` (MW.Lemmas.RemoveFlagged) on the two-chain witness of
  MW.Lemmas.LedgerD2Ex with TWO wallets: W1 owns "A1", W2 owns "X1" (every coinbase and T1's change).
    follower's stored chain  S = G ── B1 ── B2
    node's best chain        N = G ── B1 ── B2a ── B3a
  Both wallets are followed over S, then W1 is FLAGGED FOR REMOVAL (`removeWallet` answers `.ok`) at the tip (ghost
  height 2); the node switches to N and the follower is notified of B3a only: it rolls B2 back — a disconnect AT the
  ghost height, which drops to 1 — and connects B2a, B3a for W2 alone (T1's payment of 10 to W1's "A1" is not booked,
  so T2, which spends it, is irrelevant).
-/
import MW.Lemmas.RemoveFlagged
import MW.Lemmas.LedgerD2Ex
namespace MW.Lemmas.RemoveFlagged.Ex
open MW MW.Model.Ledger MW.Model.Import MW.Model.Remove MW.Spec.Chain MW.Spec.Books MW.Lemmas.Ledger
open MW.Lemmas.ImportJoin MW.Lemmas.RemoveFlagged

def own2 : Own := [("A1", ("W1", false)), ("X1", ("W2", false))]
/-- the follower's context while the node's best chain was `d2S`, and after it moved on to `d2N` -/
def ctxS : Ctx := ⟨{ cbMaturity := 1 }, own2, ["W1", "W2"], { chain := d2S, known := d2Known }⟩
def ctxN : Ctx := ⟨{ cbMaturity := 1 }, own2, ["W1", "W2"], { chain := d2N, known := d2Known }⟩

/-- two fresh wallets synced to genesis -/
def s0 : Store :=
  { balance := [("W1", 0), ("W2", 0)], sync := [(0, "G")], syncedTo := 0,
    status := [("W1", ⟨none, false⟩), ("W2", ⟨none, false⟩)] }

/-- the store the follower built for `d2S` -/
def sS : Store :=
  match connectAll ctxS (readyWallets s0 ctxS.wallets) [d2B1, d2B2] s0 [] with
  | .ok (s, _) => s
  | .error _ => s0

/-- … with W1 flagged for removal -/
def sF : Store := (removeWallet 0 ["W1", "W2"] true sS "W1").2

theorem ready0 : readyWallets s0 ["W1", "W2"] = ["W1", "W2"] := by decide

theorem allReady2 : AllReady own2 ["W1", "W2"] := by
  intro a w ch h
  simp only [own2, AMap.get_cons, AMap.get_nil] at h
  split at h
  · simp only [Option.some.injEq, Prod.mk.injEq] at h; rw [← h.1]; rfl
  · split at h
    · simp only [Option.some.injEq, Prod.mk.injEq] at h; rw [← h.1]; rfl
    · cases h

theorem fresh0 : FreshStore ctxS s0 d2G where
  credits := rfl
  unspent := rfl
  debits := rfl
  game := rfl
  txrecs := rfl
  blocks := rfl
  sync := rfl
  syncedTo := rfl
  balance := by
    intro w hw
    change (readyWallets s0 ["W1", "W2"]).contains w = true at hw
    rw [ready0] at hw
    have : w = "W1" ∨ w = "W2" := by simpa using hw
    rcases this with rfl | rfl <;> rfl
  genesis := rfl

theorem validS : ChainValid own2 d2S := by decide
theorem validN : ChainValid own2 d2N := by decide

/-- C01's invariant for the stored chain, both wallets ready -/
theorem invS : Inv ctxN sS d2S ∧ readyWallets sS ["W1", "W2"] = ["W1", "W2"] := by
  obtain ⟨s', added, h, hI, hst, _⟩ := connectAll_sound (c := ctxS) [d2B1, d2B2] s0 [d2G] [] []
    (inv_fresh fresh0) rfl validS d2GoodS.heights
    (by show AllReady own2 (readyWallets s0 ["W1", "W2"]); rw [ready0]; exact allReady2)
    (by show (readyWallets s0 ["W1", "W2"]).isEmpty = false; rw [ready0]; rfl)
  have hs : sS = s' := by unfold sS; rw [h]
  rw [hs]
  exact ⟨(inv_ctx_irrel (c := ctxS) (c' := ctxN) rfl rfl rfl).1 hI, by rw [readyWallets_congr hst, ready0]⟩

/-- the gate accepts the request; the flag is set and nothing else -/
example : (removeWallet 0 ["W1", "W2"] true sS "W1").1 = .ok ∧
    AMap.get sF.status "W1" = some ⟨none, true⟩ ∧ readyWallets sF ["W1", "W2"] = ["W2"] := by decide

/-- **the hypotheses of `inv_flag_to_fj` hold**: the flagged store follows the stored chain -/
theorem fjS : FJ ctxN "W1" sF d2S :=
  inv_flag_to_fj (c := ctxN) (by unfold KeysNodup; decide) invS.1 validS d2GoodS.heights (by decide)
    (by show (readyWallets sS ["W1", "W2"]).contains "W1" = true; rw [invS.2]; rfl)
    (by show AllReady own2 (readyWallets sS ["W1", "W2"]); rw [invS.2]; exact allReady2)
    ⟨"W2", by decide, by show (readyWallets sS ["W1", "W2"]).contains "W2" = true; rw [invS.2]; rfl⟩
    (by decide)

/-- **the hypotheses of `fj_processBlock` hold** for the notification of B3a (a reorganisation that goes BELOW the
    height at which W1 was flagged): the follower ends on the node's chain, W1 still flagged, W2 followed -/
theorem fjN (v : Vol) (hv : v.best = tipMeta d2S) :
    ∃ s' v', processBlock ctxN sF v d2B3a = (s', v', true) ∧ FJ ctxN "W1" s' d2N ∧ v'.best = ⟨3, "B3a"⟩ :=
  fj_processBlock (c := ctxN) (w := "W1") (S := d2S) (b := d2B3a) (by unfold KeysNodup; decide)
    d2GoodN d2GoodS rfl d2IdInj validN validS d2KnownS fjS rfl hv (by intro h; cases h)

/-- the same run, computed: W2's balance is that of `N` (coinbases C1, C3, C4 of which C1 is spent by T1, plus T1's
    change: 490 + 100 + 100), W1's bucket keeps what it had when flagged (0), nothing of W1 is booked -/
example : (let r := processBlock ctxN sF { best := ⟨2, "B2"⟩ } d2B3a
           (r.2.2, r.2.1.best, AMap.get r.1.status "W1", AMap.get r.1.balance "W1", AMap.get r.1.balance "W2",
            r.1.unspent.map (·.1.1), (AMap.get r.1.blocks 2).map (·.2), (AMap.get r.1.blocks 3).map (·.2))) =
    (true, ⟨3, "B3a"⟩, some ⟨none, true⟩, some 0, some 690, ["W2", "W2", "W2"], some ["C3", "T1"], some ["C4"]) := by rfl

end MW.Lemmas.RemoveFlagged.Ex
