/-
  Helper lemmas for C12: the abstract issuing machine (order, restarts, gap invariant) and the
  restore scan loop.
-/
import MW.Lemmas.KsIssue
namespace MW.Lemmas.KsAbs
open MW MW.Model.Keystore MW.Spec.Keystore MW.Lemmas.KsIssue

variable {Addr : Type}

/-- the successful outputs of a run -/
def oks : List (Except Err Addr) → List Addr
  | [] => []
  | .ok a :: l => a :: oks l
  | .error _ :: l => oks l

theorem mayIssue_iff (used : Nat → Bool) (gap n : Nat) :
    mayIssue used gap n = true ↔ n = 0 ∨ n + 1 ≤ gap ∨ ∃ k, n - gap ≤ k ∧ k < n - gap + gap ∧ used k = true := by
  unfold mayIssue
  simp only [Bool.or_eq_true, decide_eq_true_eq, List.any_eq_true, List.mem_range']
  constructor
  · rintro ((h | h) | ⟨k, ⟨i, hi, rfl⟩, hu⟩)
    · exact Or.inl h
    · exact Or.inr (Or.inl h)
    · exact Or.inr (Or.inr ⟨n - gap + 1 * i, by omega, by omega, hu⟩)
  · rintro (h | h | ⟨k, h1, h2, hu⟩)
    · exact Or.inl (Or.inl h)
    · exact Or.inl (Or.inr h)
    · exact Or.inr ⟨k, ⟨k - (n - gap), by omega, by omega⟩, hu⟩

/-- refusing means: at least `gap` addresses issued and none of the last `gap` has history -/
theorem not_mayIssue_iff (used : Nat → Bool) (gap n : Nat) (hg : gap ≠ 0) :
    mayIssue used gap n = false ↔ gap ≤ n ∧ ∀ k, n - gap ≤ k → k < n → used k = false := by
  rw [← Bool.not_eq_true, mayIssue_iff]
  constructor
  · intro h
    have h0 : n ≠ 0 := fun h0 => h (Or.inl h0)
    have h1 : ¬ (n + 1 ≤ gap) := fun h1 => h (Or.inr (Or.inl h1))
    refine ⟨by omega, ?_⟩
    intro k hk1 hk2
    cases hu : used k with
    | false => rfl
    | true => exact absurd (Or.inr (Or.inr ⟨k, hk1, by omega, hu⟩)) h
  · rintro ⟨hge, hall⟩ (h | h | ⟨k, h1, h2, hu⟩)
    · omega
    · omega
    · have := hall k h1 (by omega)
      rw [this] at hu; exact Bool.noConfusion hu

section
variable (A : Nat → Addr) (gap : Nat)

/-- the n-th successful request returns the address at index n: outputs are the chain in order -/
theorem abs_in_order (evs : List (Ev Addr)) :
    ∀ (n : Nat) (u : Addr → Bool),
      oks (absRun A gap (n, u) evs).2 = (List.range' n ((absRun A gap (n, u) evs).1.1 - n)).map A ∧
      n ≤ (absRun A gap (n, u) evs).1.1 := by
  induction evs with
  | nil => intro n u; simp [absRun, oks]
  | cons e es ih =>
    intro n u
    cases e with
    | issue =>
      simp only [absRun, absStep]
      by_cases h1 : n + 1 > maxAddrs
      · simp only [h1, if_true]; obtain ⟨a, b⟩ := ih n u; exact ⟨by simpa [oks] using a, b⟩
      · by_cases hg : gap = 0
        · simp only [h1, hg, if_false, if_true]; obtain ⟨a, b⟩ := ih n u
          exact ⟨by simpa [oks, hg] using a, by simpa [hg] using b⟩
        · cases hm : mayIssue (fun i => u (A i)) gap n with
          | false =>
            simp only [h1, hg, if_false]; obtain ⟨a, b⟩ := ih n u
            exact ⟨by simpa [oks] using a, b⟩
          | true =>
            simp only [h1, hg, if_false, if_true]
            obtain ⟨a, b⟩ := ih (n + 1) u
            refine ⟨?_, by omega⟩
            simp only [oks]
            rw [a]
            have : (absRun A gap (n + 1, u) es).1.1 - n = ((absRun A gap (n + 1, u) es).1.1 - (n + 1)) + 1 := by omega
            rw [this, List.range'_succ]
            simp
    | chain u' => simp only [absRun, absStep]; exact ih n u'
    | restart => simp only [absRun, absStep]; exact ih n u
    | loadPriv => simp only [absRun, absStep]; exact ih n u
    | clearPriv => simp only [absRun, absStep]; exact ih n u

/-- restarts (and loading / clearing private keys) are invisible to the abstract machine -/
def visible : Ev Addr → Bool
  | .issue => true
  | .chain _ => true
  | _ => false

theorem abs_filter (evs : List (Ev Addr)) :
    ∀ (s : Nat × (Addr → Bool)), absRun A gap s (evs.filter visible) = absRun A gap s evs := by
  induction evs with
  | nil => intro s; rfl
  | cons e es ih =>
    intro s
    cases e with
    | issue => simp only [List.filter, visible, absRun]; rw [ih]
    | chain u => simp only [List.filter, visible, absRun]; rw [ih]
    | restart => simp only [List.filter, visible, absRun, absStep]; rw [ih]
    | loadPriv => simp only [List.filter, visible, absRun, absStep]; rw [ih]
    | clearPriv => simp only [List.filter, visible, absRun, absStep]; rw [ih]

/-- usage only grows along the run (no payment that was seen disappears) -/
def MonoRun : (Addr → Bool) → List (Ev Addr) → Prop
  | _, [] => True
  | u, .chain u' :: es => (∀ i, u (A i) = true → u' (A i) = true) ∧ MonoRun u' es
  | u, _ :: es => MonoRun u es

theorem gapOK_mono (u u' : Nat → Bool) (n : Nat) (h : ∀ i, u i = true → u' i = true) (hG : GapOK u gap n) :
    GapOK u' gap n := by
  intro j h1 h2
  obtain ⟨k, a, b, c⟩ := hG j h1 h2
  exact ⟨k, a, b, h k c⟩

theorem gapOK_issue (u : Nat → Bool) (n : Nat) (hg : gap ≠ 0) (hG : GapOK u gap n)
    (hm : mayIssue u gap n = true) : GapOK u gap (n + 1) := by
  intro j h1 h2
  by_cases hj : j < n
  · exact hG j h1 hj
  · have hjn : j = n := by omega
    subst hjn
    rw [mayIssue_iff] at hm
    rcases hm with h | h | ⟨k, a, b, c⟩
    · omega
    · omega
    · exact ⟨k, a, by omega, c⟩

/-- GAP INVARIANT: along any run whose usage only grows, every issued index j ≥ gap keeps a used index
    among the gap indexes before it -/
theorem abs_gap_invariant (evs : List (Ev Addr)) :
    ∀ (n : Nat) (u : Addr → Bool), GapOK (fun i => u (A i)) gap n → MonoRun A u evs →
      GapOK (fun i => (absRun A gap (n, u) evs).1.2 (A i)) gap (absRun A gap (n, u) evs).1.1 := by
  induction evs with
  | nil => intro n u hG _; exact hG
  | cons e es ih =>
    intro n u hG hM
    cases e with
    | issue =>
      simp only [absRun, absStep]
      by_cases h1 : n + 1 > maxAddrs
      · simp only [h1, if_true]; exact ih n u hG hM
      · by_cases hg : gap = 0
        · simp only [h1, hg, if_false, if_true]; subst hg; exact ih n u hG hM
        · cases hm : mayIssue (fun i => u (A i)) gap n with
          | false => simp only [h1, hg, if_false]; exact ih n u hG hM
          | true =>
            simp only [h1, hg, if_false, if_true]
            exact ih (n + 1) u (gapOK_issue gap _ n hg hG hm) hM
    | chain u' =>
      simp only [absRun, absStep]
      exact ih n u' (gapOK_mono gap _ _ n hM.1 hG) hM.2
    | restart => simp only [absRun, absStep]; exact ih n u hG hM
    | loadPriv => simp only [absRun, absStep]; exact ih n u hG hM
    | clearPriv => simp only [absRun, absStep]; exact ih n u hG hM

end

-- ------------------------------------------------------------------ the restore scan

theorem safeAdd_eq (a b : Nat) (h : a + b < 2^32) : safeAdd a b = a + b := by
  unfold safeAdd; simp [h]

/-- loop invariant of `scan`: `next` is one past the last used index below `i` (or 0) -/
def ScanInv (used : Nat → Bool) (i next : Nat) : Prop :=
  next ≤ i ∧ ∀ k, k < i → used k = true → k < next

theorem scanInv_step (used : Nat → Bool) (i next : Nat) (h : ScanInv used i next) :
    ScanInv used (i + 1) (if used i then i + 1 else next) := by
  obtain ⟨h1, h2⟩ := h
  cases hu : used i with
  | true =>
    simp only [if_true]
    exact ⟨Nat.le_refl _, fun k hk _ => hk⟩
  | false =>
    simp only [Bool.false_eq_true, if_false]
    refine ⟨by omega, fun k hk huk => ?_⟩
    by_cases hki : k = i
    · subst hki; rw [hu] at huk; exact Bool.noConfusion huk
    · exact h2 k (by omega) huk

/-- what `scan` returns: the invariant at exit, and the exit condition (no saturation below 2^32) -/
theorem scan_exit (used : Nat → Bool) (gap hint : Nat) :
    ∀ (fuel i next cnt nx : Nat), ScanInv used i next →
      scan used gap hint fuel i next = some (cnt, nx) →
      ScanInv used cnt nx ∧ ¬ (cnt < safeAdd nx gap) ∧ ¬ (cnt < safeAdd hint gap) := by
  intro fuel
  induction fuel with
  | zero => intro i next cnt nx _ h; simp [scan] at h
  | succ f ih =>
    intro i next cnt nx hI h
    unfold scan at h
    by_cases hc : (decide (i < safeAdd next gap) || decide (i < safeAdd hint gap)) = true
    · rw [if_pos hc] at h
      exact ih (i + 1) _ cnt nx (scanInv_step used i next hI) h
    · rw [if_neg hc] at h
      simp only [Option.some.injEq, Prod.mk.injEq] at h
      obtain ⟨rfl, rfl⟩ := h
      simp only [Bool.or_eq_true, decide_eq_true_eq, not_or] at hc
      exact ⟨hI, hc.1, hc.2⟩

/-- RESTORE DISCOVERS: if every issued index j ≥ gap has a used index among the gap indexes before it
    (what the issuing rule guarantees as long as usage only grows), the scan passes every used issued
    index, whatever the hint. -/
theorem scan_discovers (used : Nat → Bool) (gap hint n fuel cnt nx : Nat)
    (hG : GapOK used gap n) (hov : n + gap < 2^32)
    (h : scan used gap hint fuel 0 0 = some (cnt, nx)) :
    ∀ k, k < n → used k = true → k < nx := by
  obtain ⟨⟨hle, hI⟩, hx1, hx2⟩ := scan_exit used gap hint fuel 0 0 cnt nx ⟨Nat.le_refl 0, fun k hk => absurd hk (Nat.not_lt_zero k)⟩ h
  -- strong induction on k
  intro k
  induction k using Nat.strongRecOn with
  | _ k ih =>
    intro hk hu
    by_cases hkc : k < cnt
    · exact hI k hkc hu
    · -- k ≥ cnt: there is a used k' in [k-gap, k), found by induction, which pushes the exit beyond k
      have hnx : nx + gap < 2^32 ∨ ¬ (nx + gap < 2^32) := Classical.em _
      have hcnt_ge : nx + gap ≤ cnt := by
        by_cases hs : nx + gap < 2^32
        · rw [safeAdd_eq nx gap hs] at hx1; omega
        · unfold safeAdd at hx1; simp only [hs, if_false] at hx1; omega
      by_cases hkg : gap ≤ k
      · obtain ⟨k', a, b, c⟩ := hG k hkg hk
        have := ih k' b (by omega) c
        omega
      · -- k < gap ≤ hint + gap ≤ cnt
        have : gap ≤ cnt := by omega
        omega

/-- the scan terminates when only finitely many indexes are used: any fuel above `max N hint + gap + 1 - i` suffices -/
theorem scan_fuel (used : Nat → Bool) (gap hint N : Nat) (hN : ∀ i, N ≤ i → used i = false)
    (hov1 : N + gap < 2^32) (hov2 : hint + gap < 2^32) :
    ∀ (fuel i next : Nat), next ≤ N → (max N hint + gap + 1 - i < fuel) →
      ∃ r, scan used gap hint fuel i next = some r := by
  intro fuel
  induction fuel with
  | zero =>
    intro i next hn hf
    -- fuel 0 is only enough when the loop has already ended: impossible here
    omega
  | succ f ih =>
    intro i next hn hf
    unfold scan
    by_cases hc : (decide (i < safeAdd next gap) || decide (i < safeAdd hint gap)) = true
    · rw [if_pos hc]
      have hi : i < max N hint + gap := by
        simp only [Bool.or_eq_true, decide_eq_true_eq] at hc
        rw [safeAdd_eq next gap (by omega), safeAdd_eq hint gap hov2] at hc
        omega
      apply ih (i + 1)
      · cases hu : used i with
        | true =>
          simp only [if_true]
          have : ¬ (N ≤ i) := fun h => by rw [hN i h] at hu; exact Bool.noConfusion hu
          omega
        | false => simpa using hn
      · omega
    · rw [if_neg hc]; exact ⟨_, rfl⟩

end MW.Lemmas.KsAbs
