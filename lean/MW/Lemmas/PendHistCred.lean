/-
  C09 history-level refinement, the PENDING-CREDIT bucket and the UNMINED-DEPOSIT bucket, part 2:
  the CREDIT RELATION `CredRel e s P` between the two buckets of the model store and the specification's pending
  list, its observable forms (`pendingCredits`, `pendingDeposits` of MW.Spec.Pending), its preservation by every
  operation that is a credit frame (`CFr`: purges, confirmations), and the RECEIVE step.
-/
import MW.Lemmas.PendHistCredFrame
import MW.Lemmas.PendHistRun
namespace MW.Lemmas.PendHist.Cred
open MW MW.Model.Ledger MW.Spec.Pending MW.Lemmas.LedgerPending MW.Lemmas.Ledger MW.Spec.Books

/-- the pending-credit record of output `o` -/
def CredOf (o : Out) (cr : Credit) : Prop := cr.amt = o.amt ∧ cr.cls = uclassOf o.cls ∧ cr.sh = o.addr

/-- THE CREDIT RELATION: the pending credits are exactly the owned outputs of the spec-pending transactions (amount,
    class, script hash); the unmined deposit records are exactly their staking / binding outputs that pay an
    owned address (wallet, kind, transaction, output index) -/
structure CredRel (e : Spec.Pending.Env) (s : Store) (P : List Tx) : Prop where
  csound : ∀ id j cr, AMap.get s.pendCred (id, j) = some cr →
    ∃ t ∈ P, t.id = id ∧ ∃ o, t.outs[j]? = some o ∧ ownedOut e o = true ∧ CredOf o cr
  ccomplete : ∀ t ∈ P, ∀ j o, t.outs[j]? = some o → ownedOut e o = true →
    (AMap.get s.pendCred (t.id, j)).isSome = true
  gsound : ∀ w b id j, (AMap.get s.pendGame (w, b, id, j)).isSome = true →
    ∃ t ∈ P, t.id = id ∧ GameOut e.own t j w b
  gcomplete : ∀ t ∈ P, ∀ j w b, GameOut e.own t j w b → (AMap.get s.pendGame (w, b, t.id, j)).isSome = true

theorem keyId_of_rel {rank : TxId → Nat} {s : Store} {P : List Tx} (h : PendRel rank s P) : KeyId s :=
  fun id t hg => h.wf.key_id id t hg

/-- NO RESIDUE (the former hypothesis `RecvDom.residue`): no pending-credit record and no deposit record of a
    transaction that is not pending -/
theorem CredRel.residue {e : Spec.Pending.Env} {s : Store} {P : List Tx} (h : CredRel e s P) (id : TxId)
    (hn : hasId P id = false) :
    (∀ j, AMap.get s.pendCred (id, j) = none) ∧ (∀ w b j, AMap.get s.pendGame (w, b, id, j) = none) := by
  rw [hasId_false_iff] at hn
  constructor
  · intro j
    cases hg : AMap.get s.pendCred (id, j) with
    | none => rfl
    | some cr =>
      obtain ⟨t, ht, hid, _⟩ := h.csound id j cr hg
      exact absurd hid (hn t ht)
  · intro w b j
    cases hg : AMap.get s.pendGame (w, b, id, j) with
    | none => rfl
    | some u =>
      obtain ⟨t, ht, hid, _⟩ := h.gsound w b id j (by rw [hg]; rfl)
      exact absurd hid (hn t ht)

/-- a credit frame that ends in a store representing a sub-list of `P` keeps the relation -/
theorem CredRel.frame {rank : TxId → Nat} {e : Spec.Pending.Env} {s s' : Store} {P P' : List Tx} (h : CredRel e s P)
    (hrel : PendRel rank s P) (hrel' : PendRel rank s' P') (hf : CFr e.own s s') : CredRel e s' P' := by
  have hsubP : ∀ t ∈ P', t ∈ P := fun t ht => hrel.mem_of_pending (hf.pend _ _ (hrel'.pending_of_mem ht))
  have hkeep : ∀ t ∈ P, t ∉ P' → AMap.get s'.pending t.id = none := by
    intro t ht hn
    cases hg : AMap.get s'.pending t.id with
    | none => rfl
    | some t' =>
      have h1 := hf.pend _ _ hg
      rw [hrel.pending_of_mem ht] at h1
      cases h1
      exact absurd (hrel'.mem_of_pending hg) hn
  refine ⟨?_, ?_, ?_, ?_⟩
  · intro id j cr hg
    have hg0 : AMap.get s.pendCred (id, j) ≠ none := fun hn => by rw [hf.credSub _ hn] at hg; cases hg
    cases hg1 : AMap.get s.pendCred (id, j) with
    | none => exact absurd hg1 hg0
    | some cr0 =>
      obtain ⟨t, ht, hid, o, ho, hown, hcr⟩ := h.csound id j cr0 hg1
      by_cases hin : t ∈ P'
      · have hp : (AMap.get s'.pending id).isSome = true := by rw [← hid, hrel'.pending_of_mem hin]; rfl
        have := hf.cred id j (fun hx => hx) hp
        rw [hg, hg1] at this
        cases this
        exact ⟨t, hin, hid, o, ho, hown, hcr⟩
      · have hgone := (hf.gone t (fun hx => hx) (hrel.pending_of_mem ht) (hkeep t ht hin)).1 j
          (by have := List.getElem?_eq_some_iff.1 ho; exact this.1)
        rw [hid, hg] at hgone; cases hgone
  · intro t ht j o ho hown
    have hp : (AMap.get s'.pending t.id).isSome = true := by rw [hrel'.pending_of_mem ht]; rfl
    rw [hf.cred t.id j (fun hx => hx) hp]
    exact h.ccomplete t (hsubP t ht) j o ho hown
  · intro w b id j hg
    have hg1 : (AMap.get s.pendGame (w, b, id, j)).isSome = true := by
      cases hx : AMap.get s.pendGame (w, b, id, j) with
      | none => rw [hf.gameSub _ hx] at hg; cases hg
      | some _ => rfl
    obtain ⟨t, ht, hid, hgo⟩ := h.gsound w b id j hg1
    by_cases hin : t ∈ P'
    · exact ⟨t, hin, hid, hgo⟩
    · have hgone := (hf.gone t (fun hx => hx) (hrel.pending_of_mem ht) (hkeep t ht hin)).2 j w b hgo
      rw [hid] at hgone; rw [hgone] at hg; cases hg
  · intro t ht j w b hgo
    have hp : (AMap.get s'.pending t.id).isSome = true := by rw [hrel'.pending_of_mem ht]; rfl
    rw [hf.game w b t.id j (fun hx => hx) hp]
    exact h.gcomplete t (hsubP t ht) j w b hgo

/-- the relation only reads the pending records and the two buckets -/
theorem CredRel.congr {e : Spec.Pending.Env} {s s' : Store} {P : List Tx} (h : CredRel e s P)
    (h2 : s'.pendCred = s.pendCred) (h3 : s'.pendGame = s.pendGame) : CredRel e s' P :=
  ⟨fun id j cr hg => h.csound id j cr (by rw [← h2]; exact hg),
   fun t ht j o ho hown => by rw [h2]; exact h.ccomplete t ht j o ho hown,
   fun w b id j hg => h.gsound w b id j (by rw [← h3]; exact hg),
   fun t ht j w b hgo => by rw [h3]; exact h.gcomplete t ht j w b hgo⟩

-- ------------------------------------------------------------------ the relevance records: owned outputs

theorem mem_ownedFrom_iff (own : Own) : ∀ (os : List Out) (n : Nat) (r : Rel),
    r ∈ ownedFrom own os n ↔ ∃ j, r.index = n + j ∧ os[j]? = some r.out ∧ ownerOf own r.out = some (r.wallet, r.change) := by
  intro os
  induction os with
  | nil => intro n r; simp [ownedFrom]
  | cons o os ih =>
    intro n r
    unfold ownedFrom
    rw [List.mem_append, ih]
    constructor
    · rintro (h | ⟨j, h1, h2, h3⟩)
      · cases ho : ownerOf own o with
        | none => rw [ho] at h; simp at h
        | some wc =>
          obtain ⟨w, ch⟩ := wc
          rw [ho] at h
          simp only [List.mem_singleton] at h
          subst h
          exact ⟨0, rfl, rfl, ho⟩
      · exact ⟨j + 1, by omega, by simpa using h2, h3⟩
    · rintro ⟨j, h1, h2, h3⟩
      cases j with
      | zero =>
        left
        simp only [List.getElem?_cons_zero, Option.some.injEq] at h2
        subst h2
        rw [h3]
        simp only [List.mem_singleton]
        cases r; simp_all
      | succ j =>
        right
        exact ⟨j, by omega, by simpa using h2, h3⟩

theorem filterIn_relOut (c : Ctx) (s : Store) (mined : Bool) (inBlk : List Tx) (ready : List Wid)
    (tr tr' : TxRec) (cur : Nat) (i : Inp) (h : filterIn c s mined inBlk ready tr cur i = .ok tr') :
    tr'.relOut = tr.relOut := by
  unfold filterIn at h
  simp only [throw, throwThe, MonadExceptOf.throw, pure, Except.pure] at h
  repeat' split at h
  all_goals first | (cases h; done) | (cases h; rfl)

/-- filterTx: the relevant outputs of a record are the owned outputs of the transaction (all wallets ready) -/
theorem filterTxRel_relOut (c : Ctx) (s : Store) (tx : Tx) (mined : Bool) (inBlk : List Tx) (ready : List Wid)
    (hAR : AllReady c.own ready) (tr : TxRec) (h : filterTxRel c s tx mined inBlk ready = .ok (some tr)) :
    tr.relOut = ownedFrom c.own tx.outs 0 := by
  rw [filterTxRel_eq] at h
  simp only [bind, Except.bind] at h
  split at h
  · cases h
  · rename_i tr1 h1
    have e1 : tr1.relOut = [] := by
      split at h1
      · cases h1; rfl
      · exact foldIdxM_ok_inv (fun _ (a : TxRec) => a.relOut = []) _ _ _ _ _ rfl
          (fun a i x b' ha hf => (filterIn_relOut c s mined inBlk ready a b' i x hf).trans ha) h1
    have e2 := (filterOuts_spec (c := c) hAR tx.outs 0 tr1).1
    rw [e1, List.nil_append] at e2
    split at h
    · cases h
    · split at h
      · cases h
      · cases h; exact e2

-- ------------------------------------------------------------------ addUnminedCredits, exactly

/-- the first loop of addUnminedCredits: every relevant output gets its record at a key that was free -/
theorem addUnminedCredit_loop_exact (tr : TxRec) : ∀ (l : List Rel) (a r : Store),
    List.foldlM (addUnminedCredit tr) a l = .ok r →
    r.pending = a.pending ∧ r.pendGame = a.pendGame ∧
    (∀ k cr, AMap.get a.pendCred k = some cr → AMap.get r.pendCred k = some cr) ∧
    (∀ rel ∈ l, AMap.get r.pendCred (tr.tx.id, rel.index) = some (unminedCreditOf rel) ∧
      AMap.get a.pendCred (tr.tx.id, rel.index) = none) ∧
    (∀ k cr, AMap.get r.pendCred k = some cr → AMap.get a.pendCred k = some cr ∨
      ∃ rel ∈ l, k = (tr.tx.id, rel.index) ∧ cr = unminedCreditOf rel) := by
  intro l
  induction l with
  | nil =>
    intro a r hr
    simp [List.foldlM, pure, Except.pure] at hr; subst hr
    exact ⟨rfl, rfl, fun _ _ h => h, fun _ h => (by cases h), fun _ _ h => Or.inl h⟩
  | cons x l ih =>
    intro a r hr
    simp only [List.foldlM, bind, Except.bind] at hr
    cases hx : addUnminedCredit tr a x with
    | error e => rw [hx] at hr; cases hr
    | ok a' =>
      rw [hx] at hr
      obtain ⟨e1, e2, _⟩ := addUnminedCredit_ok tr a a' x hx
      obtain ⟨r1, r2, r3, r4, r5⟩ := ih a' r hr
      have hget : ∀ k, AMap.get a'.pendCred k =
          if (tr.tx.id, x.index) = k then some (unminedCreditOf x) else AMap.get a.pendCred k := by
        intro k; rw [e1]; exact AMap.get_put _ _ _ _
      refine ⟨r1.trans (by rw [e1]), r2.trans (by rw [e1]), ?_, ?_, ?_⟩
      · intro k cr hk
        apply r3
        rw [hget]
        split
        · rename_i he; rw [← he, e2] at hk; cases hk
        · exact hk
      · intro rel hrel
        rcases List.mem_cons.1 hrel with rfl | hrel
        · exact ⟨r3 _ _ (by rw [hget, if_pos rfl]), e2⟩
        · obtain ⟨q1, q2⟩ := r4 rel hrel
          refine ⟨q1, ?_⟩
          rw [hget] at q2
          split at q2
          · cases q2
          · exact q2
      · intro k cr hk
        rcases r5 k cr hk with h | ⟨rel, hrel, h1, h2⟩
        · rw [hget] at h
          split at h
          · rename_i he
            cases h
            exact Or.inr ⟨x, List.mem_cons_self .., he.symm, rfl⟩
          · exact Or.inl h
        · exact Or.inr ⟨rel, List.mem_cons_of_mem _ hrel, h1, h2⟩

theorem gamePut_exact (id : TxId) : ∀ (g : List Rel) (a : Store),
    (g.foldl (fun s rel => { s with pendGame := AMap.put s.pendGame (rel.wallet, rel.out.cls.isBinding, id, rel.index) () }) a).pending = a.pending ∧
    (g.foldl (fun s rel => { s with pendGame := AMap.put s.pendGame (rel.wallet, rel.out.cls.isBinding, id, rel.index) () }) a).pendCred = a.pendCred ∧
    ∀ k, (AMap.get (g.foldl (fun s rel =>
        { s with pendGame := AMap.put s.pendGame (rel.wallet, rel.out.cls.isBinding, id, rel.index) () }) a).pendGame k).isSome =
      ((AMap.get a.pendGame k).isSome || g.any (fun rel => decide ((rel.wallet, rel.out.cls.isBinding, id, rel.index) = k))) := by
  intro g
  induction g with
  | nil => intro a; simp
  | cons x g ih =>
    intro a
    simp only [List.foldl]
    obtain ⟨h1, h2, h3⟩ := ih { a with pendGame := AMap.put a.pendGame (x.wallet, x.out.cls.isBinding, id, x.index) () }
    refine ⟨h1, h2, fun k => ?_⟩
    rw [h3]
    show ((AMap.get (AMap.put a.pendGame _ ()) k).isSome || _) = _
    rw [AMap.get_put, List.any_cons]
    by_cases he : (x.wallet, x.out.cls.isBinding, id, x.index) = k
    · simp [he]
    · simp [he]

/-- addUnminedCredits, exactly -/
theorem addUnminedCredits_exact (s s' : Store) (tr : TxRec) (h : addUnminedCredits s tr = .ok s') :
    s'.pending = s.pending ∧
    (∀ k cr, AMap.get s.pendCred k = some cr → AMap.get s'.pendCred k = some cr) ∧
    (∀ rel ∈ tr.relOut, AMap.get s'.pendCred (tr.tx.id, rel.index) = some (unminedCreditOf rel) ∧
      AMap.get s.pendCred (tr.tx.id, rel.index) = none) ∧
    (∀ k cr, AMap.get s'.pendCred k = some cr → AMap.get s.pendCred k = some cr ∨
      ∃ rel ∈ tr.relOut, k = (tr.tx.id, rel.index) ∧ cr = unminedCreditOf rel) ∧
    (∀ k, (AMap.get s'.pendGame k).isSome = ((AMap.get s.pendGame k).isSome ||
      (gameOuts tr).any (fun rel => decide ((rel.wallet, rel.out.cls.isBinding, tr.tx.id, rel.index) = k)))) := by
  unfold addUnminedCredits at h
  simp only [bind, Except.bind] at h
  cases hf : List.foldlM (addUnminedCredit tr) s tr.relOut with
  | error e => rw [hf] at h; cases h
  | ok s1 =>
    rw [hf] at h
    simp only [pure, Except.pure, Except.ok.injEq] at h
    obtain ⟨l1, l2, l3, l4, l5⟩ := addUnminedCredit_loop_exact tr tr.relOut s s1 hf
    obtain ⟨g1, g2, g3⟩ := gamePut_exact tr.tx.id (gameOuts tr) s1
    rw [← h]
    refine ⟨g1.trans l1, fun k cr hk => by rw [g2]; exact l3 k cr hk, fun rel hrel => by rw [g2]; exact l4 rel hrel,
      fun k cr hk => l5 k cr (by rw [← g2]; exact hk), fun k => by rw [g3, l2]⟩

-- ------------------------------------------------------------------ RECEIVE

theorem ownedOut_iff_ownerOf (e : Spec.Pending.Env) (o : Out) : ownedOut e o = true ↔ ∃ w ch, ownerOf e.own o = some (w, ch) := by
  rw [ownedOut_eq]
  cases h : ownerOf e.own o with
  | none => simp
  | some wc => obtain ⟨w, ch⟩ := wc; simp

theorem credOf_unmined (rel : Rel) : CredOf rel.out (unminedCreditOf rel) := ⟨rfl, rfl, rfl⟩

theorem gameOut_iff_rel (own : Own) (t : Tx) (j : Nat) (w : Wid) (b : Bool) :
    GameOut own t j w b ↔ ∃ rel ∈ (ownedFrom own t.outs 0).filter (fun r => r.out.cls.isStaking || r.out.cls.isBinding),
      (rel.wallet, rel.out.cls.isBinding, rel.index) = (w, b, j) := by
  constructor
  · rintro ⟨o, ch, ho, hcls, hown, hb⟩
    have hne : o.cls ≠ .raw := by
      intro hr; rw [hr] at hcls; simp [Cls.isStaking, Cls.isBinding] at hcls
    refine ⟨⟨j, o, w, ch⟩, ?_, by simp [hb]⟩
    rw [List.mem_filter]
    refine ⟨(mem_ownedFrom_iff own t.outs 0 _).2 ⟨j, by simp, ho, ?_⟩, hcls⟩
    unfold ownerOf; rw [if_neg hne]; exact hown
  · rintro ⟨rel, hrel, he⟩
    rw [List.mem_filter] at hrel
    obtain ⟨j', h1, h2, h3⟩ := (mem_ownedFrom_iff own t.outs 0 rel).1 hrel.1
    simp only [Prod.mk.injEq] at he
    obtain ⟨e1, e2, e3⟩ := he
    have hj : j' = j := by omega
    subst hj
    refine ⟨rel.out, rel.change, h2, hrel.2, ?_, e2.symm⟩
    unfold ownerOf at h3
    split at h3
    · cases h3
    · rw [h3, e1]

theorem addUnminedCredits_nil (s : Store) (tr : TxRec) (h : tr.relOut = []) : addUnminedCredits s tr = .ok s := by
  unfold addUnminedCredits gameOuts
  rw [h]
  rfl

/-- RECEIVE keeps the credit relation (same domain as `recv_step`; the `nocred` clause of `RecvOK` is not used for
    the credit buckets: it follows from the relation, `CredRel.residue`).  `hsame`: ids determine transactions. -/
theorem recv_cred (rank : TxId → Nat) (e : Spec.Pending.Env) (ctx : Ctx) (s : Store) (v : Vol) (c : List Block) (P : List Tx)
    (t : Tx) (hrel : PendRel rank s P) (hcr : CredRel e s P) (hown : e.own = ctx.own)
    (hAR : AllReady ctx.own (readyWallets s ctx.wallets))
    (hid : ∀ t0, AMap.get s.pending t.id = some t0 → t0 = t)
    (hrel' : PendRel rank (recvTx ctx s v t).1 (onRecv e ctx.node.chain c P t)) :
    CredRel e (recvTx ctx s v t).1 (onRecv e ctx.node.chain c P t) := by
  -- when the store does not change, neither does the pending list
  have hsame : (recvTx ctx s v t).1 = s → CredRel e (recvTx ctx s v t).1 (onRecv e ctx.node.chain c P t) := by
    intro hs
    rw [hs] at hrel' ⊢
    rcases onRecv_cases e ctx.node.chain c P t with h | ⟨h, _, g2, _, _⟩
    · rw [h]; exact hcr
    · rw [h] at hrel'
      have : AMap.get s.pending t.id = some t := hrel'.pending_of_mem (List.mem_append_right _ List.mem_cons_self)
      have := hrel.mem_of_pending this
      rw [hasId_false_iff] at g2
      exact absurd rfl (g2 t this)
  by_cases hm : v.mempool.contains t.id = true
  · exact hsame (recvTx_of_mem ctx s v t hm)
  cases hf : filterTxRel ctx s t false [] (readyWallets s ctx.wallets) with
  | error err => exact hsame (recvTx_of_error ctx s v t err hf)
  | ok r =>
    cases r with
    | none => exact hsame (recvTx_of_none ctx s v t hf)
    | some tr =>
      have htx : tr.tx = t := filterTxRel_tx ctx s t false [] _ tr hf
      have hro : tr.relOut = ownedFrom ctx.own t.outs 0 := filterTxRel_relOut ctx s t false [] _ hAR tr hf
      have hmemRel : ∀ rel, rel ∈ tr.relOut ↔ ∃ j, rel.index = j ∧ t.outs[j]? = some rel.out ∧
          ownerOf e.own rel.out = some (rel.wallet, rel.change) := by
        intro rel
        rw [hro, mem_ownedFrom_iff, hown]
        constructor
        · rintro ⟨j, h1, h2, h3⟩; exact ⟨j, by omega, h2, h3⟩
        · rintro ⟨j, h1, h2, h3⟩; exact ⟨j, by omega, h2, h3⟩
      cases ha : addRelevantUnmined s tr with
      | error err => exact hsame (recvTx_of_adderr ctx s v t tr err hf ha)
      | ok s' =>
        have hs' := recvTx_of_addok ctx s v t tr s' hm hf ha
        cases hp : AMap.get s.pending tr.tx.id with
        | some t0 =>
          -- already pending: its credits are there (completeness), a second AddCredits fails with a duplicate
          have ht0 : t0 = t := hid t0 (by rw [← htx]; exact hp)
          subst ht0
          unfold addRelevantUnmined at ha
          split at ha
          · cases ha
          · rw [hp] at ha
            simp only [Option.isSome_some, if_true] at ha
            split at ha
            · cases ha; exact hsame hs'
            · rename_i hne
              exfalso
              obtain ⟨_, _, a3, _, _⟩ := addUnminedCredits_exact s s' tr ha
              cases hl : tr.relOut with
              | nil => rw [hl] at hne; exact hne rfl
              | cons rel rest =>
                have hmem : rel ∈ tr.relOut := by rw [hl]; exact List.mem_cons_self ..
                have hnone := (a3 rel hmem).2
                obtain ⟨j, h1, h2, h3⟩ := (hmemRel rel).1 hmem
                have := hcr.ccomplete t0 (hrel.mem_of_pending hp) j rel.out h2
                  ((ownedOut_iff_ownerOf e _).2 ⟨_, _, h3⟩)
                rw [htx, h1] at hnone; rw [hnone] at this; cases this
        | none =>
          obtain ⟨n1, _, _, _, _⟩ := addRelevantUnmined_new s s' tr ha hp
          rw [hs'] at hrel' ⊢
          -- the pending list grew by t
          have hPt : onRecv e ctx.node.chain c P t = P ++ [t] := by
            rcases onRecv_cases e ctx.node.chain c P t with h | ⟨h, _⟩
            · exfalso
              rw [h] at hrel'
              have : AMap.get s'.pending t.id = some t := by rw [n1, htx, AMap.get_put, if_pos rfl]
              have := hrel.pending_of_mem (hrel'.mem_of_pending this)
              rw [← htx, hp] at this; cases this
            · exact h
          rw [hPt]
          -- the step is addUnminedCredits on a store with the same two buckets
          have hfr := insertUnminedInputs_frame { s with pending := AMap.put s.pending tr.tx.id tr.tx } tr
          simp only [exceptIns, Prod.mk.injEq] at hfr
          obtain ⟨_, f2, f3, _⟩ := hfr
          have ha' : addUnminedCredits (insertUnminedInputs { s with pending := AMap.put s.pending tr.tx.id tr.tx } tr) tr = .ok s' := by
            unfold addRelevantUnmined at ha
            split at ha
            · cases ha
            · rw [hp] at ha
              simp only [Option.isSome_none, Bool.false_eq_true, if_false] at ha
              split at ha
              · rename_i hemp
                rw [addUnminedCredits_nil _ _ (List.isEmpty_iff.1 hemp)]
                exact ha
              · exact ha
          obtain ⟨_, a2, a3, a4, a5⟩ := addUnminedCredits_exact _ s' tr ha'
          rw [f2] at a2 a3 a4
          rw [f3] at a5
          refine ⟨?_, ?_, ?_, ?_⟩
          · intro id j cr hg
            rcases a4 _ _ hg with h | ⟨rel, hrel0, hk, hcr0⟩
            · obtain ⟨t', ht', r1, r2⟩ := hcr.csound id j cr h
              exact ⟨t', List.mem_append_left _ ht', r1, r2⟩
            · obtain ⟨j', h1, h2, h3⟩ := (hmemRel rel).1 hrel0
              simp only [Prod.mk.injEq] at hk
              refine ⟨t, List.mem_append_right _ List.mem_cons_self, by rw [hk.1, htx], rel.out, ?_,
                (ownedOut_iff_ownerOf e _).2 ⟨_, _, h3⟩, by rw [hcr0]; exact credOf_unmined rel⟩
              rw [hk.2, h1]; exact h2
          · intro t' ht' j o ho hown'
            rcases List.mem_append.1 ht' with ht' | ht'
            · cases hx : AMap.get s.pendCred (t'.id, j) with
              | none => have := hcr.ccomplete t' ht' j o ho hown'; rw [hx] at this; cases this
              | some cr => rw [a2 _ _ hx]; rfl
            · rw [List.mem_singleton.1 ht'] at ho ⊢
              obtain ⟨w, ch, hw⟩ := (ownedOut_iff_ownerOf e o).1 hown'
              have hmem : (⟨j, o, w, ch⟩ : Rel) ∈ tr.relOut := (hmemRel _).2 ⟨j, rfl, ho, hw⟩
              have := (a3 _ hmem).1
              rw [htx] at this
              rw [this]; rfl
          · intro w b id j hg
            rw [a5] at hg
            rcases Bool.or_eq_true_iff.1 hg with h | h
            · obtain ⟨t', ht', r1, r2⟩ := hcr.gsound w b id j h
              exact ⟨t', List.mem_append_left _ ht', r1, r2⟩
            · obtain ⟨rel, hrel0, hk⟩ := List.any_eq_true.1 h
              have hk' := of_decide_eq_true hk
              simp only [Prod.mk.injEq] at hk'
              refine ⟨t, List.mem_append_right _ List.mem_cons_self, by rw [← hk'.2.2.1, htx], ?_⟩
              rw [gameOut_iff_rel, hown, ← hro]
              exact ⟨rel, hrel0, by simp [hk'.1, hk'.2.1, hk'.2.2.2]⟩
          · intro t' ht' j w b hgo
            rw [a5]
            rcases List.mem_append.1 ht' with ht' | ht'
            · rw [hcr.gcomplete t' ht' j w b hgo]; rfl
            · rw [List.mem_singleton.1 ht'] at hgo ⊢
              rw [gameOut_iff_rel, hown, ← hro] at hgo
              obtain ⟨rel, hrel0, hk⟩ := hgo
              simp only [Prod.mk.injEq] at hk
              apply Bool.or_eq_true_iff.2; right
              apply List.any_eq_true.2
              refine ⟨rel, hrel0, decide_eq_true ?_⟩
              rw [hk.1, hk.2.1, hk.2.2, htx]

end MW.Lemmas.PendHist.Cred
