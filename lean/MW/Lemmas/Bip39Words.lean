/-
  Facts about the word list (C13): the list regenerated from wordlists/english.go equals the pinned
  BIP-39 English list, has 2048 words, is strictly sorted in byte order (hence without repetition), and
  every word is a non-empty string of a..z.  Proved chunk by chunk with `decide` (16 chunks of 128 words;
  each `decide` evaluates the whole chunk in the kernel – these are complete checks, not samples) and
  combined by lemmas.  Then: the reverse map `wordMapGet` and `List.idxOf` invert indexing.
-/
import MW.Model.Bip39
import MW.Spec.Bip39
import Mathlib.Tactic.Ring
namespace MW.Lemmas.Bip39Words
open MW MW.B39

/-- strict lexicographic order on byte strings (the order of Go strings) -/
def bytesLt : Bytes → Bytes → Bool
  | [], [] => false
  | [], _ :: _ => true
  | _ :: _, [] => false
  | a :: as, b :: bs => decide (a.toNat < b.toNat) || (a == b && bytesLt as bs)

/-- every element is smaller than its successor -/
def sortedB : List Bytes → Bool
  | a :: b :: r => bytesLt a b && sortedB (b :: r)
  | _ => true

def lowerWord (w : Bytes) : Bool := !w.isEmpty && w.all (fun b => decide (97 ≤ b.toNat) && decide (b.toNat ≤ 122))

/-- last word of `a` is smaller than the first word of `b` (both non-empty) -/
def boundary (a b : List Bytes) : Bool :=
  match a.getLast?, b.head? with
  | some x, some y => bytesLt x y
  | _, _ => false

theorem bytesLt_irrefl : ∀ a, bytesLt a a = false := by
  intro a; induction a with
  | nil => rfl
  | cons x xs ih => simp [bytesLt, ih]

theorem bytesLt_trans : ∀ a b c, bytesLt a b = true → bytesLt b c = true → bytesLt a c = true := by
  intro a
  induction a with
  | nil =>
    intro b c h1 h2
    cases b with
    | nil => simp [bytesLt] at h1
    | cons y ys => cases c with
      | nil => simp [bytesLt] at h2
      | cons z zs => rfl
  | cons x xs ih =>
    intro b c h1 h2
    cases b with
    | nil => simp [bytesLt] at h1
    | cons y ys =>
      cases c with
      | nil => simp [bytesLt] at h2
      | cons z zs =>
        simp only [bytesLt, Bool.or_eq_true, decide_eq_true_eq, Bool.and_eq_true, beq_iff_eq] at h1 h2 ⊢
        rcases h1 with h1 | ⟨e1, h1⟩ <;> rcases h2 with h2 | ⟨e2, h2⟩
        · left; omega
        · left; subst e2; exact h1
        · left; subst e1; exact h2
        · right; exact ⟨e1.trans e2, ih ys zs h1 h2⟩

theorem sortedB_head_lt : ∀ (l : List Bytes) (a : Bytes), sortedB (a :: l) = true → ∀ x ∈ l, bytesLt a x = true := by
  intro l
  induction l with
  | nil => intro a _ x hx; simp at hx
  | cons b r ih =>
    intro a h x hx
    simp only [sortedB, Bool.and_eq_true] at h
    rcases List.mem_cons.mp hx with rfl | hx
    · exact h.1
    · exact bytesLt_trans _ _ _ h.1 (ih b h.2 x hx)

theorem sortedB_tail (a : Bytes) (l : List Bytes) (h : sortedB (a :: l) = true) : sortedB l = true := by
  cases l with
  | nil => rfl
  | cons b r => simp only [sortedB, Bool.and_eq_true] at h; exact h.2

theorem sortedB_pairwise : ∀ (l : List Bytes), sortedB l = true → l.Pairwise (fun a b => bytesLt a b = true) := by
  intro l
  induction l with
  | nil => intro _; exact List.Pairwise.nil
  | cons a l ih =>
    intro h
    exact List.pairwise_cons.mpr ⟨sortedB_head_lt l a h, ih (sortedB_tail a l h)⟩

theorem sortedB_nodup (l : List Bytes) (h : sortedB l = true) : l.Nodup := by
  have := sortedB_pairwise l h
  refine List.Pairwise.imp ?_ this
  intro a b hab e
  subst e
  rw [bytesLt_irrefl] at hab
  exact Bool.noConfusion hab

theorem sortedB_append : ∀ (a b : List Bytes), sortedB a = true → sortedB b = true → boundary a b = true →
    sortedB (a ++ b) = true := by
  intro a
  induction a with
  | nil => intro b _ hb _; exact hb
  | cons x xs ih =>
    intro b ha hb hab
    cases xs with
    | nil =>
      cases b with
      | nil => simp [boundary] at hab
      | cons y ys =>
        simp only [boundary, List.getLast?_singleton, List.head?_cons] at hab
        simp only [List.cons_append, List.nil_append, sortedB, Bool.and_eq_true]
        exact ⟨hab, hb⟩
    | cons x' xs' =>
      simp only [sortedB, Bool.and_eq_true] at ha
      have hb' : boundary (x' :: xs') b = true := by
        simpa [boundary, List.getLast?_cons_cons] using hab
      have := ih b ha.2 hb hb'
      simp only [List.cons_append, sortedB, Bool.and_eq_true]
      exact ⟨ha.1, by simpa using this⟩

theorem boundary_append_left (a b c : List Bytes) (hb : b ≠ []) : boundary (a ++ b) c = boundary b c := by
  unfold boundary
  rw [List.getLast?_append]
  cases b with
  | nil => exact absurd rfl hb
  | cons y ys =>
    have : ∃ z, (y :: ys).getLast? = some z := by
      cases h : (y :: ys).getLast? with
      | none => simp at h
      | some z => exact ⟨z, rfl⟩
    obtain ⟨z, hz⟩ := this
    rw [hz]; rfl

/-! ### the sixteen chunks -/

abbrev G (c : List String) : List Bytes := c.map strBytes

theorem eq0 : Gen.Wordlist.chunk0 = Spec.Bip39English.chunk0 := by rfl
theorem len0 : Gen.Wordlist.chunk0.length = 128 := by rfl
set_option maxRecDepth 100000 in
theorem sorted0 : sortedB (G Gen.Wordlist.chunk0) = true := by decide
set_option maxRecDepth 100000 in
theorem lower0 : (G Gen.Wordlist.chunk0).all lowerWord = true := by decide
set_option maxRecDepth 100000 in
theorem bnd0 : boundary (G Gen.Wordlist.chunk0) (G Gen.Wordlist.chunk1) = true := by decide

theorem eq1 : Gen.Wordlist.chunk1 = Spec.Bip39English.chunk1 := by rfl
theorem len1 : Gen.Wordlist.chunk1.length = 128 := by rfl
set_option maxRecDepth 100000 in
theorem sorted1 : sortedB (G Gen.Wordlist.chunk1) = true := by decide
set_option maxRecDepth 100000 in
theorem lower1 : (G Gen.Wordlist.chunk1).all lowerWord = true := by decide
set_option maxRecDepth 100000 in
theorem bnd1 : boundary (G Gen.Wordlist.chunk1) (G Gen.Wordlist.chunk2) = true := by decide

theorem eq2 : Gen.Wordlist.chunk2 = Spec.Bip39English.chunk2 := by rfl
theorem len2 : Gen.Wordlist.chunk2.length = 128 := by rfl
set_option maxRecDepth 100000 in
theorem sorted2 : sortedB (G Gen.Wordlist.chunk2) = true := by decide
set_option maxRecDepth 100000 in
theorem lower2 : (G Gen.Wordlist.chunk2).all lowerWord = true := by decide
set_option maxRecDepth 100000 in
theorem bnd2 : boundary (G Gen.Wordlist.chunk2) (G Gen.Wordlist.chunk3) = true := by decide

theorem eq3 : Gen.Wordlist.chunk3 = Spec.Bip39English.chunk3 := by rfl
theorem len3 : Gen.Wordlist.chunk3.length = 128 := by rfl
set_option maxRecDepth 100000 in
theorem sorted3 : sortedB (G Gen.Wordlist.chunk3) = true := by decide
set_option maxRecDepth 100000 in
theorem lower3 : (G Gen.Wordlist.chunk3).all lowerWord = true := by decide
set_option maxRecDepth 100000 in
theorem bnd3 : boundary (G Gen.Wordlist.chunk3) (G Gen.Wordlist.chunk4) = true := by decide

theorem eq4 : Gen.Wordlist.chunk4 = Spec.Bip39English.chunk4 := by rfl
theorem len4 : Gen.Wordlist.chunk4.length = 128 := by rfl
set_option maxRecDepth 100000 in
theorem sorted4 : sortedB (G Gen.Wordlist.chunk4) = true := by decide
set_option maxRecDepth 100000 in
theorem lower4 : (G Gen.Wordlist.chunk4).all lowerWord = true := by decide
set_option maxRecDepth 100000 in
theorem bnd4 : boundary (G Gen.Wordlist.chunk4) (G Gen.Wordlist.chunk5) = true := by decide

theorem eq5 : Gen.Wordlist.chunk5 = Spec.Bip39English.chunk5 := by rfl
theorem len5 : Gen.Wordlist.chunk5.length = 128 := by rfl
set_option maxRecDepth 100000 in
theorem sorted5 : sortedB (G Gen.Wordlist.chunk5) = true := by decide
set_option maxRecDepth 100000 in
theorem lower5 : (G Gen.Wordlist.chunk5).all lowerWord = true := by decide
set_option maxRecDepth 100000 in
theorem bnd5 : boundary (G Gen.Wordlist.chunk5) (G Gen.Wordlist.chunk6) = true := by decide

theorem eq6 : Gen.Wordlist.chunk6 = Spec.Bip39English.chunk6 := by rfl
theorem len6 : Gen.Wordlist.chunk6.length = 128 := by rfl
set_option maxRecDepth 100000 in
theorem sorted6 : sortedB (G Gen.Wordlist.chunk6) = true := by decide
set_option maxRecDepth 100000 in
theorem lower6 : (G Gen.Wordlist.chunk6).all lowerWord = true := by decide
set_option maxRecDepth 100000 in
theorem bnd6 : boundary (G Gen.Wordlist.chunk6) (G Gen.Wordlist.chunk7) = true := by decide

theorem eq7 : Gen.Wordlist.chunk7 = Spec.Bip39English.chunk7 := by rfl
theorem len7 : Gen.Wordlist.chunk7.length = 128 := by rfl
set_option maxRecDepth 100000 in
theorem sorted7 : sortedB (G Gen.Wordlist.chunk7) = true := by decide
set_option maxRecDepth 100000 in
theorem lower7 : (G Gen.Wordlist.chunk7).all lowerWord = true := by decide
set_option maxRecDepth 100000 in
theorem bnd7 : boundary (G Gen.Wordlist.chunk7) (G Gen.Wordlist.chunk8) = true := by decide

theorem eq8 : Gen.Wordlist.chunk8 = Spec.Bip39English.chunk8 := by rfl
theorem len8 : Gen.Wordlist.chunk8.length = 128 := by rfl
set_option maxRecDepth 100000 in
theorem sorted8 : sortedB (G Gen.Wordlist.chunk8) = true := by decide
set_option maxRecDepth 100000 in
theorem lower8 : (G Gen.Wordlist.chunk8).all lowerWord = true := by decide
set_option maxRecDepth 100000 in
theorem bnd8 : boundary (G Gen.Wordlist.chunk8) (G Gen.Wordlist.chunk9) = true := by decide

theorem eq9 : Gen.Wordlist.chunk9 = Spec.Bip39English.chunk9 := by rfl
theorem len9 : Gen.Wordlist.chunk9.length = 128 := by rfl
set_option maxRecDepth 100000 in
theorem sorted9 : sortedB (G Gen.Wordlist.chunk9) = true := by decide
set_option maxRecDepth 100000 in
theorem lower9 : (G Gen.Wordlist.chunk9).all lowerWord = true := by decide
set_option maxRecDepth 100000 in
theorem bnd9 : boundary (G Gen.Wordlist.chunk9) (G Gen.Wordlist.chunk10) = true := by decide

theorem eq10 : Gen.Wordlist.chunk10 = Spec.Bip39English.chunk10 := by rfl
theorem len10 : Gen.Wordlist.chunk10.length = 128 := by rfl
set_option maxRecDepth 100000 in
theorem sorted10 : sortedB (G Gen.Wordlist.chunk10) = true := by decide
set_option maxRecDepth 100000 in
theorem lower10 : (G Gen.Wordlist.chunk10).all lowerWord = true := by decide
set_option maxRecDepth 100000 in
theorem bnd10 : boundary (G Gen.Wordlist.chunk10) (G Gen.Wordlist.chunk11) = true := by decide

theorem eq11 : Gen.Wordlist.chunk11 = Spec.Bip39English.chunk11 := by rfl
theorem len11 : Gen.Wordlist.chunk11.length = 128 := by rfl
set_option maxRecDepth 100000 in
theorem sorted11 : sortedB (G Gen.Wordlist.chunk11) = true := by decide
set_option maxRecDepth 100000 in
theorem lower11 : (G Gen.Wordlist.chunk11).all lowerWord = true := by decide
set_option maxRecDepth 100000 in
theorem bnd11 : boundary (G Gen.Wordlist.chunk11) (G Gen.Wordlist.chunk12) = true := by decide

theorem eq12 : Gen.Wordlist.chunk12 = Spec.Bip39English.chunk12 := by rfl
theorem len12 : Gen.Wordlist.chunk12.length = 128 := by rfl
set_option maxRecDepth 100000 in
theorem sorted12 : sortedB (G Gen.Wordlist.chunk12) = true := by decide
set_option maxRecDepth 100000 in
theorem lower12 : (G Gen.Wordlist.chunk12).all lowerWord = true := by decide
set_option maxRecDepth 100000 in
theorem bnd12 : boundary (G Gen.Wordlist.chunk12) (G Gen.Wordlist.chunk13) = true := by decide

theorem eq13 : Gen.Wordlist.chunk13 = Spec.Bip39English.chunk13 := by rfl
theorem len13 : Gen.Wordlist.chunk13.length = 128 := by rfl
set_option maxRecDepth 100000 in
theorem sorted13 : sortedB (G Gen.Wordlist.chunk13) = true := by decide
set_option maxRecDepth 100000 in
theorem lower13 : (G Gen.Wordlist.chunk13).all lowerWord = true := by decide
set_option maxRecDepth 100000 in
theorem bnd13 : boundary (G Gen.Wordlist.chunk13) (G Gen.Wordlist.chunk14) = true := by decide

theorem eq14 : Gen.Wordlist.chunk14 = Spec.Bip39English.chunk14 := by rfl
theorem len14 : Gen.Wordlist.chunk14.length = 128 := by rfl
set_option maxRecDepth 100000 in
theorem sorted14 : sortedB (G Gen.Wordlist.chunk14) = true := by decide
set_option maxRecDepth 100000 in
theorem lower14 : (G Gen.Wordlist.chunk14).all lowerWord = true := by decide
set_option maxRecDepth 100000 in
theorem bnd14 : boundary (G Gen.Wordlist.chunk14) (G Gen.Wordlist.chunk15) = true := by decide

theorem eq15 : Gen.Wordlist.chunk15 = Spec.Bip39English.chunk15 := by rfl
theorem len15 : Gen.Wordlist.chunk15.length = 128 := by rfl
set_option maxRecDepth 100000 in
theorem sorted15 : sortedB (G Gen.Wordlist.chunk15) = true := by decide
set_option maxRecDepth 100000 in
theorem lower15 : (G Gen.Wordlist.chunk15).all lowerWord = true := by decide

/-! ### combination -/

theorem ne_of_len (c : List String) (h : c.length = 128) : G c ≠ [] := by
  intro e
  have := congrArg List.length e
  simp [h] at this

/-- the model's word list, chunk by chunk -/
theorem wordList_chunks : Model.Bip39.wordList = ((((((((((((((G Gen.Wordlist.chunk0 ++ G Gen.Wordlist.chunk1) ++ G Gen.Wordlist.chunk2) ++ G Gen.Wordlist.chunk3) ++ G Gen.Wordlist.chunk4) ++ G Gen.Wordlist.chunk5) ++ G Gen.Wordlist.chunk6) ++ G Gen.Wordlist.chunk7) ++ G Gen.Wordlist.chunk8) ++ G Gen.Wordlist.chunk9) ++ G Gen.Wordlist.chunk10) ++ G Gen.Wordlist.chunk11) ++ G Gen.Wordlist.chunk12) ++ G Gen.Wordlist.chunk13) ++ G Gen.Wordlist.chunk14) ++ G Gen.Wordlist.chunk15 := by
  simp only [Model.Bip39.wordList, Gen.Wordlist.wordlist, List.map_append]

theorem s1 : sortedB (G Gen.Wordlist.chunk0 ++ G Gen.Wordlist.chunk1) = true :=
  sortedB_append _ _ sorted0 sorted1 bnd0

theorem s2 : sortedB ((G Gen.Wordlist.chunk0 ++ G Gen.Wordlist.chunk1) ++ G Gen.Wordlist.chunk2) = true :=
  sortedB_append _ _ s1 sorted2 (by rw [boundary_append_left _ _ _ (ne_of_len _ len1)]; exact bnd1)

theorem s3 : sortedB (((G Gen.Wordlist.chunk0 ++ G Gen.Wordlist.chunk1) ++ G Gen.Wordlist.chunk2) ++ G Gen.Wordlist.chunk3) = true :=
  sortedB_append _ _ s2 sorted3 (by rw [boundary_append_left _ _ _ (ne_of_len _ len2)]; exact bnd2)

theorem s4 : sortedB ((((G Gen.Wordlist.chunk0 ++ G Gen.Wordlist.chunk1) ++ G Gen.Wordlist.chunk2) ++ G Gen.Wordlist.chunk3) ++ G Gen.Wordlist.chunk4) = true :=
  sortedB_append _ _ s3 sorted4 (by rw [boundary_append_left _ _ _ (ne_of_len _ len3)]; exact bnd3)

theorem s5 : sortedB (((((G Gen.Wordlist.chunk0 ++ G Gen.Wordlist.chunk1) ++ G Gen.Wordlist.chunk2) ++ G Gen.Wordlist.chunk3) ++ G Gen.Wordlist.chunk4) ++ G Gen.Wordlist.chunk5) = true :=
  sortedB_append _ _ s4 sorted5 (by rw [boundary_append_left _ _ _ (ne_of_len _ len4)]; exact bnd4)

theorem s6 : sortedB ((((((G Gen.Wordlist.chunk0 ++ G Gen.Wordlist.chunk1) ++ G Gen.Wordlist.chunk2) ++ G Gen.Wordlist.chunk3) ++ G Gen.Wordlist.chunk4) ++ G Gen.Wordlist.chunk5) ++ G Gen.Wordlist.chunk6) = true :=
  sortedB_append _ _ s5 sorted6 (by rw [boundary_append_left _ _ _ (ne_of_len _ len5)]; exact bnd5)

theorem s7 : sortedB (((((((G Gen.Wordlist.chunk0 ++ G Gen.Wordlist.chunk1) ++ G Gen.Wordlist.chunk2) ++ G Gen.Wordlist.chunk3) ++ G Gen.Wordlist.chunk4) ++ G Gen.Wordlist.chunk5) ++ G Gen.Wordlist.chunk6) ++ G Gen.Wordlist.chunk7) = true :=
  sortedB_append _ _ s6 sorted7 (by rw [boundary_append_left _ _ _ (ne_of_len _ len6)]; exact bnd6)

theorem s8 : sortedB ((((((((G Gen.Wordlist.chunk0 ++ G Gen.Wordlist.chunk1) ++ G Gen.Wordlist.chunk2) ++ G Gen.Wordlist.chunk3) ++ G Gen.Wordlist.chunk4) ++ G Gen.Wordlist.chunk5) ++ G Gen.Wordlist.chunk6) ++ G Gen.Wordlist.chunk7) ++ G Gen.Wordlist.chunk8) = true :=
  sortedB_append _ _ s7 sorted8 (by rw [boundary_append_left _ _ _ (ne_of_len _ len7)]; exact bnd7)

theorem s9 : sortedB (((((((((G Gen.Wordlist.chunk0 ++ G Gen.Wordlist.chunk1) ++ G Gen.Wordlist.chunk2) ++ G Gen.Wordlist.chunk3) ++ G Gen.Wordlist.chunk4) ++ G Gen.Wordlist.chunk5) ++ G Gen.Wordlist.chunk6) ++ G Gen.Wordlist.chunk7) ++ G Gen.Wordlist.chunk8) ++ G Gen.Wordlist.chunk9) = true :=
  sortedB_append _ _ s8 sorted9 (by rw [boundary_append_left _ _ _ (ne_of_len _ len8)]; exact bnd8)

theorem s10 : sortedB ((((((((((G Gen.Wordlist.chunk0 ++ G Gen.Wordlist.chunk1) ++ G Gen.Wordlist.chunk2) ++ G Gen.Wordlist.chunk3) ++ G Gen.Wordlist.chunk4) ++ G Gen.Wordlist.chunk5) ++ G Gen.Wordlist.chunk6) ++ G Gen.Wordlist.chunk7) ++ G Gen.Wordlist.chunk8) ++ G Gen.Wordlist.chunk9) ++ G Gen.Wordlist.chunk10) = true :=
  sortedB_append _ _ s9 sorted10 (by rw [boundary_append_left _ _ _ (ne_of_len _ len9)]; exact bnd9)

theorem s11 : sortedB (((((((((((G Gen.Wordlist.chunk0 ++ G Gen.Wordlist.chunk1) ++ G Gen.Wordlist.chunk2) ++ G Gen.Wordlist.chunk3) ++ G Gen.Wordlist.chunk4) ++ G Gen.Wordlist.chunk5) ++ G Gen.Wordlist.chunk6) ++ G Gen.Wordlist.chunk7) ++ G Gen.Wordlist.chunk8) ++ G Gen.Wordlist.chunk9) ++ G Gen.Wordlist.chunk10) ++ G Gen.Wordlist.chunk11) = true :=
  sortedB_append _ _ s10 sorted11 (by rw [boundary_append_left _ _ _ (ne_of_len _ len10)]; exact bnd10)

theorem s12 : sortedB ((((((((((((G Gen.Wordlist.chunk0 ++ G Gen.Wordlist.chunk1) ++ G Gen.Wordlist.chunk2) ++ G Gen.Wordlist.chunk3) ++ G Gen.Wordlist.chunk4) ++ G Gen.Wordlist.chunk5) ++ G Gen.Wordlist.chunk6) ++ G Gen.Wordlist.chunk7) ++ G Gen.Wordlist.chunk8) ++ G Gen.Wordlist.chunk9) ++ G Gen.Wordlist.chunk10) ++ G Gen.Wordlist.chunk11) ++ G Gen.Wordlist.chunk12) = true :=
  sortedB_append _ _ s11 sorted12 (by rw [boundary_append_left _ _ _ (ne_of_len _ len11)]; exact bnd11)

theorem s13 : sortedB (((((((((((((G Gen.Wordlist.chunk0 ++ G Gen.Wordlist.chunk1) ++ G Gen.Wordlist.chunk2) ++ G Gen.Wordlist.chunk3) ++ G Gen.Wordlist.chunk4) ++ G Gen.Wordlist.chunk5) ++ G Gen.Wordlist.chunk6) ++ G Gen.Wordlist.chunk7) ++ G Gen.Wordlist.chunk8) ++ G Gen.Wordlist.chunk9) ++ G Gen.Wordlist.chunk10) ++ G Gen.Wordlist.chunk11) ++ G Gen.Wordlist.chunk12) ++ G Gen.Wordlist.chunk13) = true :=
  sortedB_append _ _ s12 sorted13 (by rw [boundary_append_left _ _ _ (ne_of_len _ len12)]; exact bnd12)

theorem s14 : sortedB ((((((((((((((G Gen.Wordlist.chunk0 ++ G Gen.Wordlist.chunk1) ++ G Gen.Wordlist.chunk2) ++ G Gen.Wordlist.chunk3) ++ G Gen.Wordlist.chunk4) ++ G Gen.Wordlist.chunk5) ++ G Gen.Wordlist.chunk6) ++ G Gen.Wordlist.chunk7) ++ G Gen.Wordlist.chunk8) ++ G Gen.Wordlist.chunk9) ++ G Gen.Wordlist.chunk10) ++ G Gen.Wordlist.chunk11) ++ G Gen.Wordlist.chunk12) ++ G Gen.Wordlist.chunk13) ++ G Gen.Wordlist.chunk14) = true :=
  sortedB_append _ _ s13 sorted14 (by rw [boundary_append_left _ _ _ (ne_of_len _ len13)]; exact bnd13)

theorem s15 : sortedB (((((((((((((((G Gen.Wordlist.chunk0 ++ G Gen.Wordlist.chunk1) ++ G Gen.Wordlist.chunk2) ++ G Gen.Wordlist.chunk3) ++ G Gen.Wordlist.chunk4) ++ G Gen.Wordlist.chunk5) ++ G Gen.Wordlist.chunk6) ++ G Gen.Wordlist.chunk7) ++ G Gen.Wordlist.chunk8) ++ G Gen.Wordlist.chunk9) ++ G Gen.Wordlist.chunk10) ++ G Gen.Wordlist.chunk11) ++ G Gen.Wordlist.chunk12) ++ G Gen.Wordlist.chunk13) ++ G Gen.Wordlist.chunk14) ++ G Gen.Wordlist.chunk15) = true :=
  sortedB_append _ _ s14 sorted15 (by rw [boundary_append_left _ _ _ (ne_of_len _ len14)]; exact bnd14)

theorem wordList_sorted : sortedB Model.Bip39.wordList = true := by
  rw [wordList_chunks]; exact s15

theorem wordList_nodup : Model.Bip39.wordList.Nodup := sortedB_nodup _ wordList_sorted

theorem wordList_length : Model.Bip39.wordList.length = 2048 := by
  rw [wordList_chunks]
  simp only [List.length_append, List.length_map, len0, len1, len2, len3, len4, len5, len6, len7, len8, len9, len10, len11, len12, len13, len14, len15]

theorem wordList_lower : Model.Bip39.wordList.all lowerWord = true := by
  rw [wordList_chunks]
  simp only [List.all_append, lower0, lower1, lower2, lower3, lower4, lower5, lower6, lower7, lower8, lower9, lower10, lower11, lower12, lower13, lower14, lower15, Bool.and_true]

theorem gen_eq_english : Gen.Wordlist.wordlist = Spec.Bip39English.english := by
  simp only [Gen.Wordlist.wordlist, Spec.Bip39English.english, eq0, eq1, eq2, eq3, eq4, eq5, eq6, eq7, eq8, eq9, eq10, eq11, eq12, eq13, eq14, eq15]

/-- the list the wallet uses IS the BIP-39 English list of the spec -/
theorem wordList_eq_spec : Model.Bip39.wordList = Spec.Bip39.wordlist := by
  simp only [Model.Bip39.wordList, Spec.Bip39.wordlist, gen_eq_english]

/-! ### reverse lookups -/

theorem mapGet_ge : ∀ (l : List Bytes) (k : Nat) (w : Bytes) (j : Nat), Model.Bip39.mapGet l k w = some j →
    k ≤ j ∧ l[j - k]? = some w := by
  intro l
  induction l with
  | nil => intro k w j h; simp [Model.Bip39.mapGet] at h
  | cons v vs ih =>
    intro k w j h
    simp only [Model.Bip39.mapGet] at h
    split at h
    · rename_i j' hj'
      cases h
      obtain ⟨h1, h2⟩ := ih (k + 1) w j hj'
      refine ⟨by omega, ?_⟩
      have : j - k = (j - (k + 1)) + 1 := by omega
      rw [this, List.getElem?_cons_succ]; exact h2
    · split at h
      · cases h; rename_i hv; subst hv; simp
      · cases h

theorem mapGet_none : ∀ (l : List Bytes) (k : Nat) (w : Bytes), Model.Bip39.mapGet l k w = none → w ∉ l := by
  intro l
  induction l with
  | nil => intro k w _; simp
  | cons v vs ih =>
    intro k w h
    simp only [Model.Bip39.mapGet] at h
    split at h
    · cases h
    · rename_i hn
      split at h
      · cases h
      · rename_i hv
        intro hm
        rcases List.mem_cons.mp hm with e | e
        · exact hv e.symm
        · exact ih (k + 1) w hn e

theorem mapGet_nodup : ∀ (l : List Bytes) (k i : Nat) (h : i < l.length), l.Nodup →
    Model.Bip39.mapGet l k l[i] = some (k + i) := by
  intro l
  induction l with
  | nil => intro k i h; simp at h
  | cons v vs ih =>
    intro k i h nd
    rw [List.nodup_cons] at nd
    cases i with
    | zero =>
      simp only [List.getElem_cons_zero, Model.Bip39.mapGet]
      cases hm : Model.Bip39.mapGet vs (k + 1) v with
      | none => simp
      | some j =>
        exfalso
        obtain ⟨_, h2⟩ := mapGet_ge vs (k + 1) v j hm
        exact nd.1 (List.mem_of_getElem? h2)
    | succ i =>
      simp only [List.getElem_cons_succ, Model.Bip39.mapGet]
      have hi : i < vs.length := by simpa using h
      rw [ih (k + 1) i hi nd.2]
      simp; omega

/-- `wordMap[wordList[i]] = i` -/
theorem wordMapGet_getElem (i : Nat) (h : i < Model.Bip39.wordList.length) :
    Model.Bip39.wordMapGet Model.Bip39.wordList[i] = some i := by
  unfold Model.Bip39.wordMapGet
  rw [mapGet_nodup _ 0 i h wordList_nodup]; simp

/-- `wordMap[w] = i` only if `wordList[i] = w` -/
theorem wordMapGet_some (w : Bytes) (i : Nat) (h : Model.Bip39.wordMapGet w = some i) :
    Model.Bip39.wordList[i]? = some w := by
  have := (mapGet_ge _ 0 w i h).2
  simpa using this

theorem wordMapGet_none (w : Bytes) (h : Model.Bip39.wordMapGet w = none) : w ∉ Model.Bip39.wordList :=
  mapGet_none _ 0 w h

theorem wordMapGet_isSome_iff (w : Bytes) : (Model.Bip39.wordMapGet w).isSome = true ↔ w ∈ Model.Bip39.wordList := by
  constructor
  · intro h
    cases hm : Model.Bip39.wordMapGet w with
    | none => rw [hm] at h; cases h
    | some i => exact List.mem_of_getElem? (wordMapGet_some w i hm)
  · intro h
    cases hm : Model.Bip39.wordMapGet w with
    | none => exact absurd h (wordMapGet_none w hm)
    | some i => rfl

theorem idxOf_getElem_nodup : ∀ (l : List Bytes) (i : Nat) (h : i < l.length), l.Nodup → l.idxOf l[i] = i := by
  intro l
  induction l with
  | nil => intro i h; simp at h
  | cons v vs ih =>
    intro i h nd
    rw [List.nodup_cons] at nd
    cases i with
    | zero => simp
    | succ i =>
      have hi : i < vs.length := by simpa using h
      simp only [List.getElem_cons_succ, List.idxOf_cons]
      have : (v == vs[i]) = false := by
        apply beq_false_of_ne
        intro e; exact nd.1 (e ▸ List.getElem_mem hi)
      rw [this, ih i hi nd.2]; rfl

/-- the index found by the wallet's map is the spec's `idxOf` -/
theorem wordMapGet_eq_idxOf (w : Bytes) (i : Nat) (h : Model.Bip39.wordMapGet w = some i) :
    Spec.Bip39.wordlist.idxOf w = i ∧ i < 2048 := by
  have h1 := wordMapGet_some w i h
  obtain ⟨hi, e⟩ := List.getElem?_eq_some_iff.mp h1
  rw [← wordList_eq_spec]
  refine ⟨?_, by rw [← wordList_length]; exact hi⟩
  rw [← e]; exact idxOf_getElem_nodup _ i hi wordList_nodup

end MW.Lemmas.Bip39Words
