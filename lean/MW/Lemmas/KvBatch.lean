/-
  The pending batch of a write transaction (type batch of leveldb.go): the sequence-numbered
  `puts` / `deletes` maps describe exactly the net effect of replaying the op log.
-/
import MW.Model.KV
import MW.Lemmas.KvOrder
namespace MW.Model.KV
open MW MW.KV

/-- what the maps of the batch say about key `k` on top of the store `db` -/
def view (db : Store) (b : Batch) (k : Bytes) : Option Bytes :=
  match b.get k with
  | (_, true) => none
  | (some v, false) => some v
  | (none, false) => db.get k

/-- invariant of every batch built by Put / Delete from newBatch() -/
structure Batch.Inv (b : Batch) : Prop where
  putSeq : ∀ k v s, b.puts.get k = some (v, s) → 0 < s ∧ s ≤ b.seqNo
  delSeq : ∀ k s, b.deletes.get k = some s → 0 < s ∧ s ≤ b.seqNo
  /-- a key's put and delete never carry the same sequence number -/
  seqNe : ∀ k v sp sd, b.puts.get k = some (v, sp) → b.deletes.get k = some sd → sp ≠ sd
  putsSorted : SMap.Sorted b.puts
  deletesSorted : SMap.Sorted b.deletes
  /-- replaying the log on any store gives, key by key, what the maps say -/
  viewOk : ∀ db k, (applyLog db b.log).get k = view db b k

theorem applyLog_append (db : Store) (log : List BOp) (op : BOp) :
    applyLog db (log ++ [op]) = applyOp (applyLog db log) op := by
  simp [applyLog, List.foldl_append]

theorem Batch.inv_empty : Batch.Inv {} where
  putSeq := by intro k v s h; simp at h
  delSeq := by intro k s h; simp at h
  seqNe := by intro k v sp sd h; simp at h
  putsSorted := SMap.sorted_nil
  deletesSorted := SMap.sorted_nil
  viewOk := by intro db k; simp [applyLog, view, Batch.get]

theorem Batch.get_put (b : Batch) (hb : b.Inv) (k0 v0 k : Bytes) :
    (b.put k0 v0).get k = if k = k0 then (some v0, false) else b.get k := by
  unfold Batch.get Batch.put
  simp only [SMap.get_insert]
  by_cases hk : k = k0
  · subst hk
    simp only [if_true]
    cases hd : b.deletes.get k with
    | none => rfl
    | some sd =>
      have := (hb.delSeq k sd hd).2
      have : ¬ sd > b.seqNo + 1 := by omega
      simp [this]
  · simp [hk]

theorem Batch.get_delete (b : Batch) (hb : b.Inv) (k0 k : Bytes) :
    (b.delete k0).get k = if k = k0 then (none, true) else b.get k := by
  unfold Batch.get Batch.delete
  simp only [SMap.get_insert]
  by_cases hk : k = k0
  · subst hk
    simp only [if_true]
    cases hp : b.puts.get k with
    | none => rfl
    | some vs =>
      obtain ⟨v, sp⟩ := vs
      have := (hb.putSeq k v sp hp).2
      have : b.seqNo + 1 > sp := by omega
      simp [this]
  · simp [hk]

theorem Batch.Inv.put {b : Batch} (hb : b.Inv) (k0 v0 : Bytes) : (b.put k0 v0).Inv where
  putSeq := by
    intro k v s h
    simp only [Batch.put, SMap.get_insert] at h
    by_cases hk : k = k0
    · simp [hk] at h; obtain ⟨_, rfl⟩ := h; simp [Batch.put]
    · simp only [hk, if_false] at h
      have := hb.putSeq k v s h
      simp only [Batch.put]; omega
  delSeq := by
    intro k s h
    have := hb.delSeq k s h
    simp only [Batch.put]; omega
  seqNe := by
    intro k v sp sd hp hd
    simp only [Batch.put, SMap.get_insert] at hp hd
    by_cases hk : k = k0
    · simp [hk] at hp
      have := (hb.delSeq k sd hd).2
      omega
    · simp only [hk, if_false] at hp
      exact hb.seqNe k v sp sd hp hd
  putsSorted := SMap.insert_sorted hb.putsSorted _ _
  deletesSorted := hb.deletesSorted
  viewOk := by
    intro db k
    have hlog : (b.put k0 v0).log = b.log ++ [.put k0 v0] := rfl
    rw [hlog, applyLog_append]
    simp only [applyOp, SMap.get_insert, view, Batch.get_put b hb]
    by_cases hk : k = k0
    · simp [hk]
    · simp only [hk, if_false]; exact hb.viewOk db k

theorem Batch.Inv.delete {b : Batch} (hb : b.Inv) (k0 : Bytes) : (b.delete k0).Inv where
  putSeq := by
    intro k v s h
    have := hb.putSeq k v s h
    simp only [Batch.delete]; omega
  delSeq := by
    intro k s h
    simp only [Batch.delete, SMap.get_insert] at h
    by_cases hk : k = k0
    · simp [hk] at h; subst h; simp [Batch.delete]
    · simp only [hk, if_false] at h
      have := hb.delSeq k s h
      simp only [Batch.delete]; omega
  seqNe := by
    intro k v sp sd hp hd
    simp only [Batch.delete, SMap.get_insert] at hp hd
    by_cases hk : k = k0
    · simp [hk] at hd
      have := (hb.putSeq k v sp hp).2
      omega
    · simp only [hk, if_false] at hd
      exact hb.seqNe k v sp sd hp hd
  putsSorted := hb.putsSorted
  deletesSorted := SMap.insert_sorted hb.deletesSorted _ _
  viewOk := by
    intro db k
    have hlog : (b.delete k0).log = b.log ++ [.del k0] := rfl
    rw [hlog, applyLog_append]
    simp only [applyOp, SMap.get_erase, view, Batch.get_delete b hb]
    by_cases hk : k = k0
    · simp [hk]
    · simp only [hk, if_false]; exact hb.viewOk db k

/-- replaying an op log from an empty batch -/
def Batch.step (b : Batch) : BOp → Batch
  | .put k v => b.put k v
  | .del k => b.delete k

def Batch.replay (log : List BOp) : Batch := log.foldl Batch.step {}

theorem Batch.inv_foldl (log : List BOp) (b : Batch) (hb : b.Inv) : (log.foldl Batch.step b).Inv := by
  induction log generalizing b with
  | nil => exact hb
  | cons op rest ih =>
    cases op with
    | put k v => exact ih _ (hb.put k v)
    | del k => exact ih _ (hb.delete k)

theorem Batch.inv_replay (log : List BOp) : (Batch.replay log).Inv := Batch.inv_foldl log {} Batch.inv_empty

/-! ### sortedness of the store is kept by batch application -/

theorem applyOp_sorted {s : Store} (hs : SMap.Sorted s) (op : BOp) : SMap.Sorted (applyOp s op) := by
  cases op with
  | put k v => exact SMap.insert_sorted hs k v
  | del k => exact SMap.erase_sorted hs k

theorem applyLog_sorted {s : Store} (hs : SMap.Sorted s) (log : List BOp) : SMap.Sorted (applyLog s log) := by
  induction log generalizing s with
  | nil => exact hs
  | cons op rest ih => exact ih (applyOp_sorted hs op)

/-! ### the three-way case split of batch.Get, and what `netPuts` contains -/

theorem Batch.get_cases (b : Batch) (k : Bytes) :
    b.get k = (none, true) ∨ (∃ v, b.get k = (some v, false)) ∨ b.get k = (none, false) := by
  unfold Batch.get
  cases b.deletes.get k with
  | none =>
    cases b.puts.get k with
    | none => exact Or.inr (Or.inr rfl)
    | some vs => exact Or.inr (Or.inl ⟨vs.1, rfl⟩)
  | some sd =>
    cases b.puts.get k with
    | none => exact Or.inl rfl
    | some vs =>
      obtain ⟨v, sp⟩ := vs
      by_cases h : sd > sp
      · simp [h]
      · simp only [h, if_false]; exact Or.inr (Or.inl ⟨v, rfl⟩)

theorem Batch.get_eq_some_iff {b : Batch} (hb : b.Inv) (k v : Bytes) :
    b.get k = (some v, false) ↔
      ∃ s, b.puts.get k = some (v, s) ∧ (match b.deletes.get k with | none => True | some sd => s > sd) := by
  unfold Batch.get
  cases hd : b.deletes.get k with
  | none =>
    cases hp : b.puts.get k with
    | none => simp
    | some vs => obtain ⟨v', sp⟩ := vs; simp
  | some sd =>
    cases hp : b.puts.get k with
    | none => simp
    | some vs =>
      obtain ⟨v', sp⟩ := vs
      have hne := hb.seqNe k v' sp sd hp hd
      by_cases h : sd > sp
      · simp only [h, if_true]
        constructor
        · intro h'; cases h'
        · rintro ⟨s, hs, hgt⟩
          simp at hs; obtain ⟨_, rfl⟩ := hs
          simp at hgt; omega
      · simp only [h, if_false]
        constructor
        · intro h'
          simp at h'; subst h'
          exact ⟨sp, rfl, by simp; omega⟩
        · rintro ⟨s, hs, _⟩
          simp at hs; obtain ⟨rfl, _⟩ := hs; rfl

/-- GetNetPutsByPrefix: the puts under the prefix that no later delete of the batch cancels -/
theorem Batch.mem_netPuts {b : Batch} (hb : b.Inv) (pfx k v : Bytes) :
    (k, v) ∈ b.netPuts pfx ↔ pfx <+: k ∧ b.get k = (some v, false) := by
  rw [Batch.get_eq_some_iff hb]
  unfold Batch.netPuts
  simp only [List.mem_filterMap]
  constructor
  · rintro ⟨e, he, hf⟩
    obtain ⟨k', v', s⟩ := e
    have hg := SMap.get_of_mem hb.putsSorted he
    by_cases hpre : (pfx.length != 0 && !pfx.isPrefixOf k') = true
    · simp [hpre] at hf
    · simp only [hpre, Bool.false_eq_true, if_false] at hf
      have hp : pfx <+: k' := by
        simp only [Bool.and_eq_true, bne_iff_ne, ne_eq, Bool.not_eq_true', not_and, Bool.not_eq_false] at hpre
        by_cases hl : pfx.length = 0
        · have : pfx = [] := List.length_eq_zero_iff.mp hl
          subst this; exact List.nil_prefix
        · exact List.isPrefixOf_iff_prefix.mp (hpre hl)
      cases hd : b.deletes.get k' with
      | none =>
        simp only [hd] at hf
        simp at hf; obtain ⟨rfl, rfl⟩ := hf
        exact ⟨hp, s, hg, by simp [hd]⟩
      | some sd =>
        simp only [hd] at hf
        by_cases hgt : s > sd
        · simp [hgt] at hf; obtain ⟨rfl, rfl⟩ := hf
          exact ⟨hp, s, hg, by simp [hd, hgt]⟩
        · simp [hgt] at hf
  · rintro ⟨hp, s, hg, hd⟩
    refine ⟨(k, v, s), SMap.mem_of_get hg, ?_⟩
    have hpre : ¬ ((pfx.length != 0 && !pfx.isPrefixOf k) = true) := by
      simp only [Bool.and_eq_true, bne_iff_ne, ne_eq, Bool.not_eq_true', not_and, Bool.not_eq_false]
      intro _; exact List.isPrefixOf_iff_prefix.mpr hp
    simp only [hpre, if_false]
    cases hd' : b.deletes.get k with
    | none => rfl
    | some sd => rw [hd'] at hd; simp at hd; simp [hd]

/-- the keys of `netPuts` ascend strictly (they come from the sorted `puts`) -/
theorem Batch.netPuts_sorted {b : Batch} (hb : b.Inv) (pfx : Bytes) : SMap.Sorted (b.netPuts pfx) := by
  unfold Batch.netPuts SMap.Sorted
  have hs := hb.putsSorted
  unfold SMap.Sorted at hs
  refine List.Pairwise.filterMap _ ?_ hs
  intro e e' hlt x hx y hy
  -- the filterMap keeps the key
  have hxk : x.1 = e.1 := by
    by_cases h1 : (pfx.length != 0 && !pfx.isPrefixOf e.1) = true
    · simp [h1] at hx
    · simp only [h1, Bool.false_eq_true, if_false] at hx
      cases hd : b.deletes.get e.1 with
      | none => simp [hd] at hx; rw [← hx]
      | some sd =>
        simp only [hd] at hx
        by_cases h2 : e.2.2 > sd
        · simp [h2] at hx; rw [← hx]
        · simp [h2] at hx
  have hyk : y.1 = e'.1 := by
    by_cases h1 : (pfx.length != 0 && !pfx.isPrefixOf e'.1) = true
    · simp [h1] at hy
    · simp only [h1, Bool.false_eq_true, if_false] at hy
      cases hd : b.deletes.get e'.1 with
      | none => simp [hd] at hy; rw [← hy]
      | some sd =>
        simp only [hd] at hy
        by_cases h2 : e'.2.2 > sd
        · simp [h2] at hy; rw [← hy]
        · simp [h2] at hy
  rw [hxk, hyk]; exact hlt

end MW.Model.KV
