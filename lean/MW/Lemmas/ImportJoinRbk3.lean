/-
  C07 stage 2 with other wallets in the instance — DISCONNECTING the tip block of the stored chain while wallet `w` is
  being restored: ABOVE the cursor (`disconnect_scanJS_above`: `rollback_tipJ` with the ready wallets' half active and
  `w`'s half passive; the cursor stays) and, together with `disconnect_scanJS_at`, in general (`disconnect_scanJS`:
  the cursor becomes `min k (new tip)`).
-/
import MW.Lemmas.ImportJoinRbk2
namespace MW.Lemmas.ImportJoin
open MW MW.Model.Ledger MW.Model.Import MW.Spec.Chain MW.Spec.Books MW.Lemmas.Ledger MW.Lemmas.RemoveBooks
open MW.Lemmas.ImportExact MW.Lemmas.ImportReorg

theorem totalU_join_left {A B : List UCoin} {w : Wid} (h : ∀ u ∈ B, u.wallet ≠ w) : totalU (A ++ B) w = totalU A w := by
  rw [totalU_append, totalU_zero h, Nat.add_zero]

theorem totalU_join_right {A B : List UCoin} {w : Wid} (h : ∀ u ∈ A, u.wallet ≠ w) : totalU (A ++ B) w = totalU B w := by
  rw [totalU_append, totalU_zero h, Nat.zero_add]

/-- **disconnecting the tip block ABOVE the cursor of the wallet being restored**, other wallets followed live -/
theorem disconnect_scanJS_above' {c : Ctx} {w : Wid} {s : Store} {chain : List Block} {b : Block} {k : Nat}
    (hKN : KeysNodup c.own) (hV : ChainValid c.own (chain ++ [b])) (hH : HeightsOK (chain ++ [b])) (hne : chain ≠ [])
    (hkn : AMap.get c.node.known b.id = some b) (hS : ScanJS c w s (chain ++ [b]) k) (hlt : k + 1 ≤ chain.length)
    (hAR : AllReady (ownR c.own w) (readyWallets s c.wallets)) :
    ∃ s', disconnectBlock c s b.height = .ok s' ∧ ScanJS c w s' chain k ∧
      s'.status = s.status.map (pullBack (b.height - 1)) ∧
      (∀ x ws, AMap.get s.status x = some ws → ws.synced = none → AMap.get s'.status x = some ws) ∧
      (∀ l, readyWallets s' l = readyWallets s l) := by
  have hOr := ownR_sub hKN w
  have hOw := ownW_sub hKN w
  have hbh : b.height = chain.length := heightsOK_mid hH
  have hlen : chain.length ≠ 0 := fun h => hne (List.eq_nil_of_length_eq_zero h)
  have h0 : b.height ≠ 0 := by omega
  have hsto : s.syncedTo = b.height := by
    have := hS.syncedTo
    simp only [List.length_append, List.length_singleton] at this
    omega
  have hVc : ChainValid c.own chain := chainValid_prefix hV
  have hHc : HeightsOK chain := heightsOK_prefix hH
  have htake : (chain ++ [b]).take (k + 1) = chain.take (k + 1) := List.take_append_of_le_length hlt
  have hA := hS.agree
  have hBl := hS.bal
  rw [htake] at hA hBl
  have hn : (idsOf (occs (chain ++ [b]))).Nodup := (glob_bookOf (p := c.p) hV).idsNodup
  -- the chain splits at the cursor
  have hsplitX : chain ++ [b] = chain.take (k + 1) ++ (chain.drop (k + 1) ++ [b]) := by
    rw [← List.append_assoc, List.take_append_drop]
  have hsplitC : chain = chain.take (k + 1) ++ chain.drop (k + 1) := (List.take_append_drop _ _).symm
  have hVr' : ChainValid (ownR c.own w) (chain ++ [b]) := chainValid_sub hOr hV
  have hVr : ChainValid (ownR c.own w) chain := chainValid_prefix hVr'
  have hVwk : ChainValid (ownW c.own w) (chain.take (k + 1)) :=
    chainValid_sub hOw (chainValid_prefix (b := chain.drop (k + 1)) (by rw [← hsplitC]; exact hVc))
  -- separation, relative to the stored chain and to the shorter chain
  have hSwX : SepP c.own (fun x => decide (x ≠ w)) (occs (chain ++ [b])) (bookOf c.p (ownW c.own w) (chain.take (k + 1))) := by
    have := sepP_bookOf (p := c.p) (keepA := fun x => decide (x ≠ w)) hOw (by intro w' hw'; simpa using hw')
      (pre := chain.take (k + 1)) (post := chain.drop (k + 1) ++ [b]) (by rw [← hsplitX]; exact hV)
    rw [← hsplitX] at this; exact this
  have hSrX : SepP c.own (fun x => decide (x = w)) (occs (chain ++ [b])) (bookOf c.p (ownR c.own w) (chain ++ [b])) := by
    have := sepP_bookOf (p := c.p) (keepA := fun x => decide (x = w)) hOr (by intro w' hw'; simpa using hw')
      (pre := chain ++ [b]) (post := []) (by rw [List.append_nil]; exact hV)
    rw [List.append_nil] at this; exact this
  have hTrX : TxLoc (occs (chain ++ [b])) (bookOf c.p (ownR c.own w) (chain ++ [b])) := by
    have := txLoc_bookOf (p := c.p) (post := []) hVr'
    rw [List.append_nil] at this; exact this
  have hTwX : TxLoc (occs (chain ++ [b])) (bookOf c.p (ownW c.own w) (chain.take (k + 1))) := by
    have := txLoc_bookOf (p := c.p) (post := chain.drop (k + 1) ++ [b]) hVwk
    rw [← hsplitX] at this; exact this
  have hSwC : SepP c.own (fun x => decide (x ≠ w)) (occs chain) (bookOf c.p (ownW c.own w) (chain.take (k + 1))) := by
    have := sepP_bookOf (p := c.p) (keepA := fun x => decide (x ≠ w)) hOw (by intro w' hw'; simpa using hw')
      (pre := chain.take (k + 1)) (post := chain.drop (k + 1)) (by rw [← hsplitC]; exact hVc)
    rw [← hsplitC] at this; exact this
  have hSrC : SepP c.own (fun x => decide (x = w)) (occs chain) (bookOf c.p (ownR c.own w) chain) := by
    have := sepP_bookOf (p := c.p) (keepA := fun x => decide (x = w)) hOr (by intro w' hw'; simpa using hw')
      (pre := chain) (post := []) (by rw [List.append_nil]; exact hVc)
    rw [List.append_nil] at this; exact this
  have hTrC : TxLoc (occs chain) (bookOf c.p (ownR c.own w) chain) := by
    have := txLoc_bookOf (p := c.p) (post := []) hVr
    rw [List.append_nil] at this; exact this
  have hTwC : TxLoc (occs chain) (bookOf c.p (ownW c.own w) (chain.take (k + 1))) := by
    have := txLoc_bookOf (p := c.p) (post := chain.drop (k + 1)) hVwk
    rw [← hsplitC] at this; exact this
  -- the active half last
  have hA0 : AgreeJ s (bookOf c.p (ownW c.own w) (chain.take (k + 1))) (bookOf c.p (ownR c.own w) (chain ++ [b])) :=
    agreeJ_symm (kX := fun x => decide (x = w)) (kY := fun x => decide (x ≠ w))
      (by intro w' hw'; simpa using hw') hSrX hSwX hTrX hTwX hA
  obtain ⟨hLw, hGw⟩ := loc_bookOf (p := c.p) hVwk
  have hWw := locW_bookOf (p := c.p) hVwk
  have hActR := fun ch => act_bookOf (p := c.p) hOr ch
  have hActW := act_bookOf (p := c.p) hOw (chain.take (k + 1))
  have hRnoW : ∀ ch, ∀ u ∈ (bookOf c.p (ownR c.own w) ch).L, u.wallet ≠ w := by
    intro ch u hu; simpa using (hActR ch).1 u hu
  have hWonly : ∀ u ∈ (bookOf c.p (ownW c.own w) (chain.take (k + 1))).L, u.wallet = w := by
    intro u hu; simpa using hActW.1 u hu
  -- every balance the store tracks
  have hARall : AllReady c.own (w :: readyWallets s c.wallets) := by
    intro a w' ch ha
    by_cases hww : w' = w
    · rw [hww]; simp
    · have : AMap.get (ownR c.own w) a = some (w', ch) := by
        rw [hOr a, ha]; simp [Option.filter, hww]
      have := hAR a w' ch this
      rw [List.contains_iff_mem] at this ⊢
      exact List.mem_cons_of_mem _ this
  have hbalAll : AgreeBal (w :: readyWallets s c.wallets) s.balance
      (joinBook (bookOf c.p (ownW c.own w) (chain.take (k + 1))) (bookOf c.p (ownR c.own w) (chain ++ [b]))) := by
    intro w' hw'
    show _ = some (totalU (_ ++ _) w')
    by_cases hww : w' = w
    · rw [hww, totalU_join_left (hRnoW _), hBl]
    · rw [totalU_join_right (fun u hu he => hww (he.symm.trans (hWonly u hu)))]
      apply hS.balR w' hww
      rw [List.contains_iff_mem] at hw' ⊢
      rcases List.mem_cons.1 hw' with h | h
      · exact absurd h hww
      · exact h
  -- the passive half knows nothing of the block
  have hPF : ∀ oc ∈ occsOfBlock b, PFresh (bookOf c.p (ownW c.own w) (chain.take (k + 1))) oc := by
    intro oc hoc
    apply pFresh_of_glob (glob_bookOf (p := c.p) hVwk) (glob2_bookOf (p := c.p) hVwk)
    intro hmem
    obtain ⟨oc', hoc', hid⟩ := List.mem_map.1 hmem
    have h1 : oc' ∈ occs (chain ++ [b]) := by
      rw [hsplitX, occs_append]; exact List.mem_append_left _ hoc'
    have h2 : oc ∈ occs (chain ++ [b]) := by
      rw [occs_append, occs_singleton]; exact List.mem_append_right _ hoc
    have := occ_eq_of_id hn h1 h2 hid
    obtain ⟨b', hb', hbm'⟩ := mem_occs_height hoc'
    have hbm : oc.bm = ⟨b.height, b.id⟩ := mem_occsFrom_bm hoc
    rw [this, hbm] at hbm'
    have hb'c : b' ∈ chain := List.mem_of_mem_take hb'
    have := heightsOK_lt hH b' hb'c
    injection hbm' with h4 _
    omega
  have hblk : AMap.get s.blocks b.height = (bookOf c.p (ownR c.own w) (chain ++ [b])).blocks b.height := by
    rw [hS.blocks b.height, blocks_eq_blockRecOf c.p (ownR c.own w) (chain ++ [b]) hVr' hH b.height]
    unfold blockRecOf
    have hxb : (chain ++ [b])[b.height]? = some b := by rw [hbh]; simp
    rw [hxb]
    have : recIdsP (hasRec s) (occsOfBlock b) =
        recIdsP (fun k => ((bookOf c.p (ownR c.own w) (chain ++ [b])).txrecs k).isSome) (occsOfBlock b) := by
      apply recIdsP_congr
      intro oc hoc
      unfold hasRec
      rw [hS.agree.txrecs, htake, (hPF oc hoc).2.1]
      simp
    simp only [this]
  obtain ⟨s1, hrun, hR1, hbl1, hbal1, hsy1, hst1, hstat1⟩ :=
    rollback_tipJ (c := c) (ready := w :: readyWallets s c.wallets) (oa := ownR c.own w) (op := ownW c.own w)
      hARall hOr hOw hSwX hLw hGw hWw hVr' hH hkn hPF
      (fun u hu => ((createdIn_sub hOr).1 hu).1) (agreeR_of_agreeJ hA0) hblk hbalAll hsto
  obtain ⟨s', hd, e1, e2, e3, e4, e5, e6, e7, e8, e9, e10, e11⟩ := disconnect_tail' h0 hsto hrun hst1
  have hrdy : ∀ l, readyWallets s' l = readyWallets s l := fun l => (e11 l).trans (readyWallets_congr hstat1 l)
  -- back to the orientation of the scan invariant
  have hA2 : AgreeJ s' (bookOf c.p (ownW c.own w) (chain.take (k + 1))) (bookOf c.p (ownR c.own w) chain) := by
    have := agreeJ_of_agreeR hR1
    constructor
    · intro a x y; rw [e1]; exact this.unspent a x y
    · intro x; rw [e2]; exact this.credits x
    · intro x; rw [e3]; exact this.debits x
    · intro x; rw [e4]; exact this.game x
    · intro x; rw [e5]; exact this.txrecs x
  have hA3 : AgreeJ s' (bookOf c.p (ownR c.own w) chain) (bookOf c.p (ownW c.own w) (chain.take (k + 1))) :=
    agreeJ_symm (kX := fun x => decide (x ≠ w)) (kY := fun x => decide (x = w))
      (by intro w' hw'; simpa using hw') hSwC hSrC hTwC hTrC hA2
  have hTP : TxPos (occs chain) s' := txPos_of_agreeJ hA3 hTrC hTwC
  refine ⟨s', hd, ⟨hA3, ?_, hTP, ?_, ?_, ?_, ?_⟩, by rw [e10, hstat1], ?_, hrdy⟩
  · -- block records
    intro h'
    rw [e6, hbl1 h']
    by_cases hh : b.height = h'
    · simp only [hh, if_true]
      unfold blockRecOf
      have : chain[h']? = none := List.getElem?_eq_none (by omega)
      rw [this]
    · simp only [hh, if_false]
      rw [hS.blocks h']
      unfold blockRecOf
      have hx : (chain ++ [b])[h']? = chain[h']? := by
        rcases Nat.lt_or_ge h' chain.length with hl | hl
        · exact List.getElem?_append_left hl
        · rw [List.getElem?_eq_none (by simp; omega), List.getElem?_eq_none hl]
      rw [hx]
      cases hc : chain[h']? with
      | none => rfl
      | some b' =>
        have hb'h : b'.height = h' := hHc h' b' hc
        have : recIdsP (hasRec s) (occsOfBlock b') = recIdsP (hasRec s') (occsOfBlock b') := by
          apply recIdsP_congr
          intro oc hoc
          have hbm : oc.bm = ⟨b'.height, b'.id⟩ := mem_occsFrom_bm hoc
          unfold hasRec
          rw [hS.agree.txrecs, hA3.txrecs, htake]
          congr 2
          rw [bookOf_snoc]
          apply fold_txrecs_keep
          intro oc' hoc' he
          have hbm' : oc'.bm = ⟨b.height, b.id⟩ := mem_occsFrom_bm hoc'
          have h3 : oc'.bm = oc.bm := congrArg Prod.snd he
          rw [hbm, hbm'] at h3
          injection h3 with h4 _
          omega
        simp only [this]
  · rw [e7, hbal1 w (by simp)]
    show some (totalU (_ ++ _) w) = _
    rw [totalU_join_left (hRnoW _)]
  · intro w' hww hr
    rw [hrdy c.wallets] at hr
    rw [e7, hbal1 w' (by rw [List.contains_iff_mem] at hr ⊢; exact List.mem_cons_of_mem _ hr)]
    show some (totalU (_ ++ _) w') = _
    rw [totalU_join_right (fun u hu he => hww (he.symm.trans (hWonly u hu)))]
  · intro h'
    rw [e8, hsy1]; exact sync_erase_tip hbh hS.sync h'
  · rw [e9]; omega
  · intro x ws hx hn
    rw [e10, hstat1]; exact pullBack_get_none hx hn

/-- `disconnect_scanJS_above'` for a wallet being restored: its cursor stays -/
theorem disconnect_scanJS_above {c : Ctx} {w : Wid} {s : Store} {chain : List Block} {b : Block} {k : Nat} {ws : WStatus}
    (hKN : KeysNodup c.own) (hV : ChainValid c.own (chain ++ [b])) (hH : HeightsOK (chain ++ [b])) (hne : chain ≠ [])
    (hkn : AMap.get c.node.known b.id = some b) (hS : ScanJS c w s (chain ++ [b]) k)
    (hst : AMap.get s.status w = some ws) (hk : ws.synced = some k) (hlt : k + 1 ≤ chain.length)
    (hAR : AllReady (ownR c.own w) (readyWallets s c.wallets)) :
    ∃ s', disconnectBlock c s b.height = .ok s' ∧ ScanJS c w s' chain k ∧
      AMap.get s'.status w = some ws ∧ (∀ l, readyWallets s' l = readyWallets s l) := by
  obtain ⟨s', hd, hS', hstat, _, hrdy⟩ := disconnect_scanJS_above' hKN hV hH hne hkn hS hlt hAR
  refine ⟨s', hd, hS', ?_, hrdy⟩
  have hbh : b.height = chain.length := heightsOK_mid hH
  rw [hstat, pullBack_get, hst]
  simp only [Option.map_some, hk]
  have hgt : ¬ k > b.height - 1 := by omega
  simp only [hgt, if_false]

end MW.Lemmas.ImportJoin
