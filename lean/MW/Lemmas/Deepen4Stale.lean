/-
  C06 deepening (round 4): STALE NOTIFICATIONS inside an import window — the TOTAL version of C07's `ij_processBlock`.

  (1) `processBlock_totalI`: C01's `processBlock_total` (LedgerReorg3) re-proved for the ABSTRACT store invariant of
      `MW.Lemmas.ImportReorg` (`RIface` / `ConnSpec`): for an ARBITRARY notified block `b` (ids determine blocks among
      `b`, the followed chain `S` and the node's chain) `processBlock` either fails and changes nothing, or succeeds
      with the followed chain being the prefix ending with `b` of the node's chain, or of `S` (a duplicate / old
      notification: pure rollback, nothing connected);
  (2) `ij_processBlock_total`: its instance for C07's joined import invariant `IJ`;
  (3) `block_ij_total`: the same through the persistence model's `opBlock`.
-/
import MW.Lemmas.Deepen4Start
namespace MW.Lemmas.Deepen4
open MW MW.Model.Ledger MW.Model.Persist MW.Spec.Persist MW.Spec.Chain MW.Spec.Books MW.Lemmas.Ledger
  MW.Lemmas.PersistOp MW.Lemmas.PersistFault MW.Lemmas.PersistCrash MW.Lemmas.Deepen3 MW.Lemmas.ImportJoin
  MW.Lemmas.ImportReorg

-- ------------------------------------------------------------------ (1) the abstract total statement

/-- `reorgDisconnect` towards a block `b` that is not above the followed tip, when it returns nothing to connect:
    `b` is a block of the FOLLOWED chain and the store has been rolled back to it (abstract invariant) -/
theorem reorgDisconnect_staleI {c : Ctx} {S : List Block} {I : Store → List Block → Prop} {Rdy : Store → Prop}
    (H : RIface c S I Rdy) {s : Store} {b : Block}
    {s2 : Store} {rolled : List Nat} (hinj : IdInj (b :: (S ++ c.node.chain))) (hI : I s S)
    (hle : b.height < S.length) (hAR : Rdy s)
    (h : reorgDisconnect c s (tipMeta S) b [] = .ok (s2, rolled, [])) :
    S[b.height]? = some b ∧ I s2 (S.take (b.height + 1)) ∧ Rdy s2 := by
  obtain ⟨xH, hxH, htip⟩ := tipMeta_good H.goodS
  have hSlen : S.length - 1 + 1 = S.length := by omega
  have hItop : I s (S.take (S.length - 1 + 1)) := by rw [hSlen, List.take_length]; exact hI
  have hS : ∀ {i : Nat} {x : Block}, S[i]? = some x → x.id = b.id → x = b := fun hx hid =>
    hinj _ (List.mem_cons_of_mem _ (List.mem_append_left _ (mem_of_get hx))) b List.mem_cons_self hid
  unfold reorgDisconnect at h
  rw [htip] at h
  simp only at h
  by_cases hid : xH.id = b.id
  · simp only [hid, if_true, M_pure_eq, Except.ok.injEq, Prod.mk.injEq] at h
    have hxb := hS hxH hid
    have hpos : b.height = S.length - 1 := by rw [← hxb]; exact H.goodS.height_at hxH
    rw [hpos, ← h.1]
    exact ⟨by rw [hxH, hxb], hItop, hAR⟩
  · simp only [hid, if_false] at h
    obtain ⟨s1, h1, hI1, hr1⟩ := ImportReorg.disconnectDown_loop H b.height (S.length - 1 + 1) s (S.length - 1) []
      hItop (by omega) (by omega) (by omega) hAR
    rw [h1] at h
    simp only [M_ok_bind, List.nil_append] at h
    have hxh : S[b.height]? = some S[b.height] := List.getElem?_eq_getElem hle
    rw [H.sync hI1 (Nat.lt_succ_self _) hxh] at h
    simp only at h
    by_cases hid2 : S[b.height].id = b.id
    · simp only [hid2, if_true, M_pure_eq, Except.ok.injEq, Prod.mk.injEq] at h
      rw [← h.1]
      exact ⟨by rw [hxh, hS hxh hid2], hI1, hr1⟩
    · exfalso
      simp only [hid2, if_false] at h
      by_cases h0 : b.height = 0
      · simp only [h0, if_true] at h; cases h
      · simp only [h0, if_false] at h
        have hx' : S[b.height - 1]? = some S[b.height - 1] := List.getElem?_eq_getElem (by omega)
        rw [H.sync hI1 (by omega) hx'] at h
        simp only at h
        cases hw : walkBack c (S.length - 1 + 2)
            { s := s1, prevH := b.height - 1, prevHash := S[b.height - 1].id, tail := b, tc := [],
              rolled := descList (S.length - 1) b.height } with
        | error e => rw [hw] at h; cases h
        | ok r =>
          obtain ⟨w, d⟩ := r
          rw [hw] at h
          simp only [M_ok_bind] at h
          cases d with
          | false => simp at h
          | true =>
            simp only [Bool.not_true, Bool.false_eq_true, if_false] at h
            cases hd2 : disconnectBlock c w.s (w.prevH + 1) with
            | error e => rw [hd2] at h; cases h
            | ok s3 =>
              rw [hd2] at h
              simp only [M_ok_bind, M_pure_eq, Except.ok.injEq, Prod.mk.injEq] at h
              exact absurd h.2.2 (by simp)

/-- a successful database transaction for a block that is NOT on the node's best chain: the block is on the followed
    chain and the store has been rolled back to it (nothing was connected) — abstract invariant -/
theorem processM_staleI {c : Ctx} {S : List Block} {I : Store → List Block → Prop} {Rdy : Store → Prop}
    (H : RIface c S I Rdy) {s : Store} {v : Vol} {b : Block}
    {s' : Store} {rolled : List Nat} {added : List (Nat × List TxId)}
    (hinj : IdInj (b :: (S ++ c.node.chain))) (hI : I s S) (hv : v.best = tipMeta S)
    (hAR : Rdy s) (hoff : c.node.chain[b.height]? ≠ some b)
    (h : processM c s v b = .ok (s', rolled, added)) :
    S[b.height]? = some b ∧ I s' (S.take (b.height + 1)) ∧ added = [] ∧ Rdy s' := by
  obtain ⟨xH, hxH, htip⟩ := tipMeta_good H.goodS
  unfold processM at h
  rw [hv] at h
  by_cases hp : b.prev = (tipMeta S).hash
  · simp only [hp, if_true] at h
    cases hf : filterBlock c s (readyWallets s c.wallets) b with
    | error e => rw [hf] at h; cases h
    | ok r => exact absurd (filterBlock_ok_onChain hinj hf) hoff
  · simp only [hp, if_false] at h
    unfold reorg at h
    cases ha : alignNew c (tipMeta S).height (b.height + 1) b [] with
    | error e => rw [ha] at h; cases h
    | ok r =>
      obtain ⟨nb, tc⟩ := r
      rw [ha] at h
      simp only [M_ok_bind] at h
      cases hr : reorgDisconnect c s (tipMeta S) nb tc with
      | error e => rw [hr] at h; cases h
      | ok r =>
        obtain ⟨s2, rolled2, tc2⟩ := r
        rw [hr] at h
        simp only [M_ok_bind] at h
        cases hc : connectAll c (readyWallets s2 c.wallets) tc2 s2 [] with
        | error e => rw [hc] at h; cases h
        | ok r =>
          obtain ⟨s3, added3⟩ := r
          rw [hc] at h
          simp only [M_ok_bind, M_pure_eq, Except.ok.injEq, Prod.mk.injEq] at h
          obtain ⟨rfl, rfl, rfl⟩ := h
          obtain ⟨hl1, hl2⟩ := alignNew_last _ _ _ _ _ _ ha
          simp only [List.getLast?_singleton] at hl1
          -- no block of the list to connect is `b`
          have hnotin : b ∉ tc2 := by
            intro hm
            obtain ⟨s0, r0, hf⟩ := connectAll_ok_mem _ _ _ _ hc b hm
            exact hoff (filterBlock_ok_onChain hinj hf)
          have hlast : ∀ l : List Block, l.getLast? = some b → l ≠ [] → b ∈ l := by
            intro l hl _
            exact List.mem_of_getLast? hl
          have htc2 : tc2 = tc := by
            rcases reorgDisconnect_last hr with e | ⟨hne, hl⟩
            · exact e
            · exact absurd (hlast _ (hl.trans hl1) hne) hnotin
          subst htc2
          have htc : tc2 = [] := by
            cases tc2 with
            | nil => rfl
            | cons a t =>
              rw [List.getLast?_cons_cons] at hl1
              exact absurd (hlast _ hl1 (by simp)) hnotin
          subst htc
          obtain ⟨_, hnb, hfu⟩ := hl2 rfl
          rw [hnb] at hr
          have hle : b.height < S.length := by
            rw [htip] at hfu
            simp only at hfu
            have := H.goodS.length_pos
            omega
          simp only [connectAll, M_pure_eq, Except.ok.injEq, Prod.mk.injEq] at hc
          obtain ⟨rfl, rfl⟩ := hc
          obtain ⟨g1, g2, g3⟩ := reorgDisconnect_staleI H hinj hI hle hAR hr
          exact ⟨g1, g2, rfl, g3⟩

/-- TOTALITY for the abstract invariant: for an ARBITRARY notified block `b` (not necessarily on the node's best chain;
    ids determine blocks among `b`, the followed chain and the node's chain), `processBlock` either fails and leaves
    store and follower state untouched, or succeeds with the follower's tip at `b` and the store following exactly the
    prefix ending with `b` of the node's chain or of the followed chain. `hext`: the direct path, as in
    `processBlock_reachesI`. -/
theorem processBlock_totalI {c : Ctx} {S : List Block} {I : Store → List Block → Prop} {Rdy : Store → Prop}
    (H : RIface c S I Rdy) (hconn : ConnSpec c I Rdy) {s : Store} {v : Vol} {b : Block}
    (hinj : IdInj (b :: (S ++ c.node.chain))) (hI : I s S) (hv : v.best = tipMeta S)
    (hgen : b.height = 0 → b.prev ≠ (tipMeta S).hash) (hR : Rdy s)
    (hext : c.node.chain[b.height]? = some b → ∀ k, S = c.node.chain.take (k + 1) → b.height = k + 1 →
      ∃ s' conf, filterBlock c s (readyWallets s c.wallets) b = .ok (s', conf) ∧ I s' (c.node.chain.take (k + 2)) ∧ Rdy s') :
    ∃ s' v' ok, processBlock c s v b = (s', v', ok) ∧
      ((ok = false ∧ s' = s ∧ v' = v) ∨
       (ok = true ∧ v'.best = ⟨b.height, b.id⟩ ∧ Rdy s' ∧
        ((c.node.chain[b.height]? = some b ∧ I s' (c.node.chain.take (b.height + 1))) ∨
         (S[b.height]? = some b ∧ I s' (S.take (b.height + 1)))))) := by
  by_cases hb : c.node.chain[b.height]? = some b
  · obtain ⟨s', v', h1, h2, h3, _, h5⟩ := processBlock_reachesI H hconn hI hb hv hgen hR (hext hb)
    exact ⟨s', v', true, h1, Or.inr ⟨rfl, h3, h5, Or.inl ⟨hb, h2⟩⟩⟩
  · cases hr : processM c s v b with
    | error e => exact ⟨s, v, false, processBlock_of_error hr, Or.inl ⟨rfl, rfl, rfl⟩⟩
    | ok r =>
      obtain ⟨s', rolled, added⟩ := r
      obtain ⟨v', h1, h2⟩ := processBlock_of_ok hr
      obtain ⟨g1, g2, _, g4⟩ := processM_staleI H hinj hI hv hR hb hr
      exact ⟨s', v', true, h1, Or.inr ⟨rfl, h2, g4, Or.inr ⟨g1, g2⟩⟩⟩

-- ------------------------------------------------------------------ (2) the instance for `IJ`

/-- **a notification for ANY block** (also a STALE one: a block of a branch the node has left, a duplicate, an old
    notification) while wallet `w` is being restored and the other wallets are followed live: `processBlock` fails and
    changes nothing, or ends with `IJ` for the prefix ending with `b` of the node's chain / of the followed chain -/
theorem ij_processBlock_total {c : Ctx} {w : Wid} (hKN : KeysNodup c.own) (hw : w ∈ c.wallets) {S : List Block}
    (hgN : GoodChain c.node.chain) (hgS : GoodChain S) (hgen : S[0]? = c.node.chain[0]?)
    {b : Block} (hinj : IdInj (b :: (S ++ c.node.chain))) (hvN : ChainValid c.own c.node.chain) (hvS : ChainValid c.own S)
    (hkn : ∀ x ∈ S, AMap.get c.node.known x.id = some x)
    {s : Store} {v : Vol} (hI : IJ c w s S) (hv : v.best = tipMeta S) (hg0 : b.height = 0 → b.prev ≠ (tipMeta S).hash) :
    ∃ s' v' ok, processBlock c s v b = (s', v', ok) ∧
      ((ok = false ∧ s' = s ∧ v' = v) ∨
       (ok = true ∧ v'.best = ⟨b.height, b.id⟩ ∧
         ((c.node.chain[b.height]? = some b ∧ IJ c w s' (c.node.chain.take (b.height + 1))) ∨
          (S[b.height]? = some b ∧ IJ c w s' (S.take (b.height + 1)))))) := by
  have hinj' : IdInj (S ++ c.node.chain) := fun x hx y hy hid =>
    hinj x (List.mem_cons_of_mem _ hx) y (List.mem_cons_of_mem _ hy) hid
  have H : RIface c S (IJ c w) (fun _ => True) :=
    ⟨hgN, hgS, hgen, hinj',
     fun {s n k x} hI hk hx => by
       rw [ij_sync hI, syncOf, getElem?_take_of_lt hk, hx]; rfl,
     fun {s k} hk0 hkl hI _ => by
       obtain ⟨s', h1, h2⟩ := ij_disc hKN hw hgS hvS hkn hk0 hkl hI
       exact ⟨s', h1, h2, trivial⟩⟩
  obtain ⟨s', v', ok, h1, hcase⟩ := processBlock_totalI H (ij_connSpec hKN hw hgN hvN) (v := v) hinj hI hv hg0 trivial
    (by
      intro hb k hS hk
      rw [hS] at hI
      have hb' : c.node.chain[k + 1]? = some b := by rw [← hk]; exact hb
      obtain ⟨s', conf, hfb, hI', _⟩ := ij_connect hKN hw hgN hvN hb' hI
      exact ⟨s', conf, hfb, hI', trivial⟩)
  refine ⟨s', v', ok, h1, ?_⟩
  rcases hcase with h | ⟨h2, h3, _, h5⟩
  · exact Or.inl h
  · exact Or.inr ⟨h2, h3, h5⟩

-- ------------------------------------------------------------------ (3) through the persistence model

/-- **one notification for ANY known block** (stale ones included), processed by the persistence model's `opBlock` on a
    store that follows a chain `X` in the sense of `IJ`: keystore, key cache and task queue are kept, nobody's
    readiness changes, and the store follows — `IJ` — a chain `X'` that is `X` itself (failure: nothing changed), the
    prefix of the node's chain ending with `b`, or the prefix of `X` ending with `b` -/
theorem block_ij_total {st : Static} {G : Block} (E : StaticOK st G) {ks : AMap.T Wid KsRec} {chain X : List Block}
    (hN : ChainOK (lenv st ks) G chain) (hX : ChainOK (lenv st ks) G X) (n : Nat) {P : PStore} {V : PVol} {w : Wid}
    (hks : P.ks = ks) (hkeys : V.keys = ks) (hKN : KeysNodup (ownOf ks)) (hw : w ∈ walletsOf ks)
    (hI : IJ ((lenv st ks).ctx chain) w P.led X) (hv : V.led.best = tipMeta X)
    {b : Block} (hbk : AMap.get st.known b.id = some b) :
    ((opBlock (envAt st chain) n b).run none P V).P.ks = ks ∧
    ((opBlock (envAt st chain) n b).run none P V).V.keys = ks ∧
    ((opBlock (envAt st chain) n b).run none P V).V.tasks = V.tasks ∧
    (∀ l, readyWallets ((opBlock (envAt st chain) n b).run none P V).P.led l = readyWallets P.led l) ∧
    ∃ X', ChainOK (lenv st ks) G X' ∧ (X' <+: X ∨ X' <+: chain) ∧
      IJ ((lenv st ks).ctx chain) w ((opBlock (envAt st chain) n b).run none P V).P.led X' ∧
      ((opBlock (envAt st chain) n b).run none P V).V.led.best = tipMeta X' ∧
      (((opBlock (envAt st chain) n b).run none P V).ok = false →
        X' = X ∧ ((opBlock (envAt st chain) n b).run none P V).P = P ∧
          ((opBlock (envAt st chain) n b).run none P V).V = V) ∧
      (((opBlock (envAt st chain) n b).run none P V).ok = true →
        (chain[b.height]? = some b ∧ X' = chain.take (b.height + 1)) ∨
        (X[b.height]? = some b ∧ X' = X.take (b.height + 1))) := by
  have hc : ctxOf (envAt st chain) V = (lenv st ks).ctx chain := by rw [ctx_eq, hkeys]
  have hbk' : AMap.get (lenv st ks).known b.id = some b := hbk
  have hR := reorgHyp_of hN hX
  have hinj : IdInj (b :: (X ++ ((lenv st ks).ctx chain).node.chain)) :=
    idInj_of_known (known := (lenv st ks).known) (fun x hx => by
      rcases List.mem_cons.1 hx with h | h
      · rw [h]; exact hbk'
      · rcases List.mem_append.1 h with h | h
        · exact hX.known x h
        · exact hN.known x h)
  obtain ⟨s', v', ok, h1, hcase⟩ := ij_processBlock_total (c := (lenv st ks).ctx chain) (w := w) (S := X) hKN hw
    hN.good hX.good hR.genesis hinj hN.valid hX.valid hX.known (s := P.led) (v := V.led) hI hv
    (hgen_of (E.envHyp ks) hX hbk')
  have hrd := processBlock_ready ((lenv st ks).ctx chain) P.led V.led b
  obtain ⟨e1, e2, e3⟩ := opBlock_processBlock (envAt st chain) n b P V
  rw [hc] at e1 e2 e3
  rw [h1] at e1 e2 e3 hrd
  refine ⟨by rw [e1]; exact hks, by rw [e2]; exact hkeys, by rw [e2], by rw [e1]; exact hrd, ?_⟩
  rcases hcase with ⟨hok, hs, hv'⟩ | ⟨hok, hvb, hcase⟩
  · subst hok hs hv'
    refine ⟨X, hX, Or.inl (List.prefix_refl _), by rw [e1]; exact hI, by rw [e2]; exact hv,
      fun _ => ⟨rfl, by rw [e1], by rw [e2]⟩, fun h => ?_⟩
    rw [e3] at h; cases h
  · subst hok
    rcases hcase with ⟨hb, hI'⟩ | ⟨hb, hI'⟩
    · refine ⟨chain.take (b.height + 1), hN.take _, Or.inr (List.take_prefix _ _), by rw [e1]; exact hI',
        ?_, fun h => ?_, fun _ => Or.inl ⟨hb, rfl⟩⟩
      · rw [e2]
        show v'.best = _
        rw [hvb]; exact (tipMeta_take hN.good hb).symm
      · rw [e3] at h; cases h
    · refine ⟨X.take (b.height + 1), hX.take _, Or.inl (List.take_prefix _ _), by rw [e1]; exact hI',
        ?_, fun h => ?_, fun _ => Or.inr ⟨hb, rfl⟩⟩
      · rw [e2]
        show v'.best = _
        rw [hvb]; exact (tipMeta_take hX.good hb).symm
      · rw [e3] at h; cases h

end MW.Lemmas.Deepen4
