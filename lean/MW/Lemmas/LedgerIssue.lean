/-
  C01, HISTORIES WITH ADDRESS ISSUANCE (part 1). The histories of LedgerWorld.lean keep the keystore view
  `e.own` FIXED. Here wallets issue new addresses while the chain moves: the world carries the current keystore
  view (`WorldI.own`), node events run against the view of that moment, and `issue a w ch` adds the address `a`
  (of wallet `w`, change flag `ch`) to it.

  This file: the worlds / events / runs (`WorldI`, `EvI`, `stepI`, `runI`, `chainsI`), `addrUsed` of a prefix of
  a chain, the step invariant of LedgerHistory.lean with its stored chain `S` made explicit (`JS`) and what
  every node event does to that chain (`JS_step`: it stays, or becomes a prefix of itself or of the node's
  chain), and what issuing an address does (`JS_issue`: nothing, if neither `S` nor the node's chain pays it).
-/
import MW.Lemmas.LedgerHistory2
import MW.Lemmas.LedgerOwn
namespace MW.Lemmas.Ledger
open MW MW.Model.Ledger MW.Spec.Chain MW.Spec.Books

-- ------------------------------------------------------------------ 1. worlds, events, runs

/-- an event of a history with address issuance: an event of the node / follower, or a wallet issues an
    address -/
inductive EvI
  | node (ev : Ev)
  | issue (a : Addr) (w : Wid) (ch : Bool)

/-- the current keystore view + the rest of the world -/
structure WorldI where
  own : Own
  w : World

/-- `e.own` is ignored: a node event runs against the keystore view of that moment, `x.own` -/
def stepI (e : Env) (x : WorldI) : EvI → WorldI
  | .node ev => { x with w := stepW { e with own := x.own } x.w ev }
  | .issue a w ch => { x with own := AMap.put x.own a (w, ch) }

def runI (e : Env) (x : WorldI) (evs : List EvI) : WorldI := evs.foldl (stepI e) x

/-- the node's chain after each prefix of the history (the last one is the current chain) -/
def chainsI (e : Env) (x : WorldI) : List EvI → List (List Block)
  | [] => [x.w.chain]
  | ev :: evs => x.w.chain :: chainsI e (stepI e x ev) evs

theorem runI_nil (e : Env) (x : WorldI) : runI e x [] = x := rfl

theorem runI_cons (e : Env) (x : WorldI) (ev : EvI) (evs : List EvI) :
    runI e x (ev :: evs) = runI e (stepI e x ev) evs := rfl

theorem runI_append (e : Env) (x : WorldI) (l₁ l₂ : List EvI) :
    runI e x (l₁ ++ l₂) = runI e (runI e x l₁) l₂ := by
  unfold runI; rw [List.foldl_append]

theorem runI_snoc (e : Env) (x : WorldI) (l : List EvI) (ev : EvI) :
    runI e x (l ++ [ev]) = stepI e (runI e x l) ev := by
  rw [runI_append]; rfl

theorem chainsI_snoc (e : Env) (x : WorldI) (l : List EvI) (ev : EvI) :
    chainsI e x (l ++ [ev]) = chainsI e x l ++ [(runI e x (l ++ [ev])).w.chain] := by
  induction l generalizing x with
  | nil => rfl
  | cons a l ih =>
    show x.w.chain :: chainsI e (stepI e x a) (l ++ [ev]) = _
    rw [ih]; rfl

/-- the current chain is the last of `chainsI` -/
theorem chainsI_cur_mem (e : Env) (x : WorldI) (l : List EvI) : (runI e x l).w.chain ∈ chainsI e x l := by
  induction l generalizing x with
  | nil => exact List.mem_singleton.2 rfl
  | cons a l ih => exact List.mem_cons_of_mem _ (ih (stepI e x a))

/-- `chainsI` spelled out: the node's chains after the prefixes of the history -/
theorem mem_chainsI {e : Env} {x : WorldI} {l : List EvI} {c : List Block} :
    c ∈ chainsI e x l ↔ ∃ p, p <+: l ∧ c = (runI e x p).w.chain := by
  induction l generalizing x with
  | nil =>
    constructor
    · intro h; exact ⟨[], List.prefix_refl _, List.mem_singleton.1 h⟩
    · rintro ⟨p, hp, rfl⟩
      rw [List.prefix_nil.1 hp]; exact List.mem_singleton.2 rfl
  | cons a l ih =>
    show c ∈ x.w.chain :: chainsI e (stepI e x a) l ↔ _
    rw [List.mem_cons, ih]
    constructor
    · rintro (rfl | ⟨p, hp, rfl⟩)
      · exact ⟨[], List.nil_prefix, rfl⟩
      · exact ⟨a :: p, (List.prefix_cons_inj a).2 hp, rfl⟩
    · rintro ⟨p, hp, rfl⟩
      cases p with
      | nil => exact Or.inl rfl
      | cons b p =>
        obtain ⟨rfl, hp'⟩ := List.cons_prefix_cons.1 hp
        exact Or.inr ⟨p, hp', rfl⟩

/-- induction on a list from the right -/
theorem list_snoc_induction {α : Type} {P : List α → Prop} (nil : P [])
    (snoc : ∀ l a, P l → P (l ++ [a])) : ∀ l, P l := by
  have h : ∀ l : List α, P l.reverse := by
    intro l
    induction l with
    | nil => exact nil
    | cons a l ih => rw [List.reverse_cons]; exact snoc _ _ ih
  intro l
  have := h l.reverse
  rwa [List.reverse_reverse] at this

-- ------------------------------------------------------------------ 2. `addrUsed` of a prefix

theorem addrUsed_append {l₁ l₂ : List Block} {a : Addr} :
    addrUsed (l₁ ++ l₂) a = (addrUsed l₁ a || addrUsed l₂ a) := by
  unfold addrUsed; rw [List.any_append]

/-- a prefix of a chain that does not pay `a` does not pay `a` -/
theorem addrUsed_prefix {S ch : List Block} {a : Addr} (hp : S <+: ch) (h : addrUsed ch a = false) :
    addrUsed S a = false := by
  obtain ⟨t, rfl⟩ := hp
  rw [addrUsed_append, Bool.or_eq_false_iff] at h
  exact h.1

theorem addrUsed_take {ch : List Block} {a : Addr} (n : Nat) (h : addrUsed ch a = false) :
    addrUsed (ch.take n) a = false :=
  addrUsed_prefix (List.take_prefix n ch) h

-- ------------------------------------------------------------------ 3. the step invariant, `S` explicit

/-- the body of the step invariant `J` of LedgerHistory.lean, for an explicit stored chain `S` -/
def JS (e : Env) (G : Block) (w : World) (S : List Block) : Prop :=
  Inv (e.ctx w.chain) w.s S ∧ w.v.best = tipMeta S ∧ ChainOK e G S ∧
    AllReady e.own (readyWallets w.s e.wallets) ∧ (readyWallets w.s e.wallets).isEmpty = false ∧
    (∀ b ∈ w.queue, AMap.get e.known b.id = some b) ∧
    (w.queue = [] → S = w.chain) ∧ (w.queue ≠ [] → w.queue.getLast? = w.chain.getLast?)

theorem J_iff_JS {e : Env} {G : Block} {w : World} : J e G w ↔ ∃ S, JS e G w S := Iff.rfl

/-- a node event keeps the stored chain -/
theorem JS_node {e : Env} {G : Block} {w : World} {S N' bs : List Block} (hJ : JS e G w S)
    (hN' : ChainOK e G N') (hbs : bs ≠ []) (hsub : ∀ x ∈ bs, x ∈ N') (hlast : N'.getLast? = bs.getLast?) :
    JS e G { w with chain := N', queue := w.queue ++ bs } S := by
  obtain ⟨hI, hv, hS, hAR, hne, hq, _, _⟩ := hJ
  refine ⟨(inv_env_chain e _ _).1 hI, hv, hS, hAR, hne, ?_, ?_, ?_⟩
  · intro b hb
    rcases List.mem_append.1 hb with h | h
    · exact hq b h
    · exact hN'.known b (hsub b h)
  · intro h
    exact absurd (List.append_eq_nil_iff.1 h).2 hbs
  · intro _
    show (w.queue ++ bs).getLast? = N'.getLast?
    rw [hlast, getLast?_append_ne hbs]

/-- a handler step on a non-empty queue: the new stored chain is a prefix of the old one or of the node's -/
theorem JS_handle {e : Env} {G : Block} (E : EnvHyp e G) {w : World} {S : List Block} {b : Block}
    {q : List Block} (hJ : JS e G w S) (hN : ChainOK e G w.chain) (hqueue : w.queue = b :: q) :
    ∃ S', JS e G (stepW e w .handle) S' ∧ (S' <+: S ∨ S' <+: w.chain) ∧
      ∀ ws, readyWallets (stepW e w .handle).s ws = readyWallets w.s ws := by
  rw [stepW_handle_cons hqueue]
  obtain ⟨hI, hv, hS, hAR, hne, hq, hq0, hq1⟩ := hJ
  have H := reorgHyp_of hN hS
  have hbk : AMap.get e.known b.id = some b := hq b (by rw [hqueue]; exact List.mem_cons_self)
  have hgen := hgen_of E hS hbk
  have hqk : ∀ x ∈ q, AMap.get e.known x.id = some x :=
    fun x hx => hq x (by rw [hqueue]; exact List.mem_cons_of_mem _ hx)
  have hlastN : (b :: q).getLast? = w.chain.getLast? := by
    rw [← hqueue]; exact hq1 (by rw [hqueue]; simp)
  by_cases hqe : q = []
  · subst hqe
    rw [List.getLast?_singleton] at hlastN
    obtain ⟨hb, hlen⟩ := hN.good.getLast_at hlastN.symm
    obtain ⟨s', v', h1, h2, _, h4, h5⟩ :=
      processBlock_reaches H (v := w.v) hI hb hv hgen hAR hne
    have htk : w.chain.take (b.height + 1) = w.chain := by rw [hlen, List.take_length]
    change (e.ctx w.chain).node.chain.take (b.height + 1) = _ at htk
    rw [htk] at h2 h4
    rw [h1]
    refine ⟨w.chain, ⟨h2, h4, hN, ?_, ?_, fun (x : Block) (hx : x ∈ []) => (by cases hx), fun _ => rfl,
      fun h => absurd rfl h⟩, Or.inr (List.prefix_refl _), h5⟩
    · show AllReady e.own (readyWallets s' e.wallets)
      rw [h5]; exact hAR
    · show (readyWallets s' e.wallets).isEmpty = false
      rw [h5]; exact hne
  · have hinj : IdInj (b :: (S ++ (e.ctx w.chain).node.chain)) :=
      idInj_of_known (known := e.known) (fun x hx => by
        rcases List.mem_cons.1 hx with h | h
        · rw [h]; exact hbk
        · rcases List.mem_append.1 h with h | h
          · exact hS.known x h
          · exact hN.known x h)
    have hlastq : q.getLast? = w.chain.getLast? := by
      rw [← hlastN]
      cases q with
      | nil => exact absurd rfl hqe
      | cons a t => rw [List.getLast?_cons_cons]
    obtain ⟨s', v', ok, h1, hcase⟩ := processBlock_total H (v := w.v) hinj hI hv hgen hAR hne
    rw [h1]
    rcases hcase with ⟨_, rfl, rfl⟩ | ⟨_, hvb, hr, hcase⟩
    · exact ⟨S, ⟨hI, hv, hS, hAR, hne, hqk, fun h => absurd h hqe, fun _ => hlastq⟩,
        Or.inl (List.prefix_refl _), fun _ => rfl⟩
    · have hAR' : AllReady e.own (readyWallets s' e.wallets) := by rw [hr]; exact hAR
      have hne' : (readyWallets s' e.wallets).isEmpty = false := by rw [hr]; exact hne
      rcases hcase with ⟨hb, hI'⟩ | ⟨hb, hI'⟩
      · exact ⟨_, ⟨hI', by rw [hvb]; exact (tipMeta_take hN.good hb).symm, hN.take _, hAR', hne', hqk,
          fun h => absurd h hqe, fun _ => hlastq⟩, Or.inr (List.take_prefix _ _), hr⟩
      · exact ⟨_, ⟨hI', by rw [hvb]; exact (tipMeta_take hS.good hb).symm, hS.take _, hAR', hne', hqk,
          fun h => absurd h hqe, fun _ => hlastq⟩, Or.inl (List.take_prefix _ _), hr⟩

/-- EVERY NODE / HANDLER EVENT preserves the invariant; the new stored chain is a prefix of the old stored
    chain or of the node's chain BEFORE the event; the ready wallets do not change. (`J_step` with the stored
    chain tracked.) -/
theorem JS_step {e : Env} {G : Block} (E : EnvHyp e G) {w : World} {S : List Block} (ev : Ev)
    (hJ : JS e G w S) (hN : ChainOK e G w.chain) (hN' : ChainOK e G (stepW e w ev).chain) (hev : EvOK ev) :
    ∃ S', JS e G (stepW e w ev) S' ∧ (S' <+: S ∨ S' <+: w.chain) ∧
      ∀ ws, readyWallets (stepW e w ev).s ws = readyWallets w.s ws := by
  cases ev with
  | extend b =>
    exact ⟨S, JS_node (bs := [b]) hJ hN' (by simp) (fun x hx => by
      rw [List.mem_singleton.1 hx]; exact List.mem_append_right _ List.mem_cons_self)
      (by show (w.chain ++ [b]).getLast? = _; simp), Or.inl (List.prefix_refl _), fun _ => rfl⟩
  | reorgTo k bs =>
    have hbs : bs ≠ [] := hev
    exact ⟨S, JS_node (bs := bs) hJ hN' hbs (fun x hx => List.mem_append_right _ hx)
      (by show (w.chain.take (w.chain.length - k) ++ bs).getLast? = _
          rw [getLast?_append_ne hbs]), Or.inl (List.prefix_refl _), fun _ => rfl⟩
  | handle =>
    cases hq : w.queue with
    | nil =>
      have : stepW e w .handle = w := by simp only [stepW, hq]
      rw [this]; exact ⟨S, hJ, Or.inl (List.prefix_refl _), fun _ => rfl⟩
    | cons b q => exact JS_handle E hJ hN hq

-- ------------------------------------------------------------------ 4. issuing an address

/-- `ChainOK` for the larger keystore view, for a chain that does not pay the new address -/
theorem ChainOK.put_own {e : Env} {G : Block} {c : List Block} {a : Addr} {w : Wid} {ch : Bool}
    (h : ChainOK e G c) (hu : addrUsed c a = false) :
    ChainOK { e with own := AMap.put e.own a (w, ch) } G c :=
  ⟨h.good, (chainValid_put_own hu).2 h.valid, h.genesis, h.known⟩

/-- ISSUING AN ADDRESS that neither the stored chain nor (hence) anything the wallet has booked pays, for a
    ready wallet, preserves the invariant – for the larger keystore view, the same stored chain. -/
theorem JS_issue {e : Env} {G : Block} {wd : World} {S : List Block} {a : Addr} {w : Wid} {ch : Bool}
    (hJ : JS e G wd S) (hu : addrUsed S a = false)
    (hw : (readyWallets wd.s e.wallets).contains w = true) :
    JS { e with own := AMap.put e.own a (w, ch) } G wd S := by
  obtain ⟨hI, hv, hS, hAR, hne, hq, hq0, hq1⟩ := hJ
  exact ⟨inv_put_own hu hI, hv, hS.put_own hu, allReady_put_own hAR hw, hne, hq, hq0, hq1⟩

end MW.Lemmas.Ledger
