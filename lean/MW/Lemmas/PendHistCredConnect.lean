/-
  C09 history-level refinement, the pending-credit and unmined-deposit buckets, part 3: CONNECTING A BLOCK.
  `filterBlock` is a credit frame (`CFr`): each relevant record confirms (`insertMinedTx` = mined bookkeeping ;
  `confirmPending`, which erases the pending credits of the confirmed transaction and purges its conflicts) and
  `AddCredits` erases its unmined deposit records (`gameOne`); the irrelevant transactions purge their double
  spends.  With `CredRel.frame`: the credit relation after the block is the relation for the survivors.
-/
import MW.Lemmas.PendHistCred
namespace MW.Lemmas.PendHist.Cred
open MW MW.Model.Ledger MW.Spec.Pending MW.Lemmas.LedgerPending MW.Lemmas.Ledger MW.Spec.Books

/-- closing the exception of a confirm step: the records of the confirmed transaction are gone IF it was pending -/
theorem CFrX.close' {own : Own} {a a' : Store} {tx : Tx} (h : CFrX own (fun id => id = tx.id) a a')
    (hroot : ∀ t, AMap.get a.pending tx.id = some t → t = tx)
    (hgone : AMap.get a'.pending tx.id = none)
    (hc : AMap.get a.pending tx.id = some tx → ∀ j, j < tx.outs.length → AMap.get a'.pendCred (tx.id, j) = none)
    (hg : AMap.get a.pending tx.id = some tx → ∀ j w b, GameOut own tx j w b →
      AMap.get a'.pendGame (w, b, tx.id, j) = none) : CFr own a a' := by
  refine ⟨h.pend, h.credSub, h.gameSub, ?_, ?_, ?_⟩
  · intro id j _ hp
    apply h.cred id j _ hp
    intro he; rw [he, hgone] at hp; cases hp
  · intro w b id j _ hp
    apply h.game w b id j _ hp
    intro he; rw [he, hgone] at hp; cases hp
  · intro t _ ha hn
    by_cases he : t.id = tx.id
    · have : t = tx := hroot t (by rw [← he]; exact ha)
      subst this
      exact ⟨hc ha, hg ha⟩
    · exact h.gone t he ha hn

theorem CFrX.keyId {own : Own} {ex : TxId → Prop} {a a' : Store} (h : CFrX own ex a a') (hk : KeyId a) : KeyId a' :=
  fun id t hg => hk id t (h.pend id t hg)

/-- the second loop of AddCredits (mined): the unmined deposit records of the relevant staking / binding outputs go -/
theorem gameErase_exact (tr : TxRec) (blk : BlockMeta) : ∀ (g : List Rel) (a : Store),
    (g.foldl (gameOne tr blk) a).pending = a.pending ∧ (g.foldl (gameOne tr blk) a).pendCred = a.pendCred ∧
    ∀ k, AMap.get (g.foldl (gameOne tr blk) a).pendGame k =
      if g.any (fun rel => decide ((rel.wallet, rel.out.cls.isBinding, tr.tx.id, rel.index) = k)) then none
      else AMap.get a.pendGame k := by
  intro g
  induction g with
  | nil => intro a; simp
  | cons x g ih =>
    intro a
    simp only [List.foldl]
    obtain ⟨h1, h2, h3⟩ := ih (gameOne tr blk a x)
    refine ⟨h1, h2, fun k => ?_⟩
    rw [h3, List.any_cons]
    show (if _ then none else AMap.get (AMap.erase a.pendGame _) k) = _
    rw [AMap.get_erase]
    by_cases he : (x.wallet, x.out.cls.isBinding, tr.tx.id, x.index) = k
    · simp [he]
    · simp [he]

theorem creditOne_pendSide (p : Params) (tr : TxRec) (blk : BlockMeta) (sb sb' : Store × Bals) (rel : Rel)
    (h : creditOne p tr blk sb rel = .ok sb') : pendSide sb'.1 = pendSide sb.1 := by
  unfold creditOne at h
  simp only [throw, throwThe, MonadExceptOf.throw, pure, Except.pure] at h
  split at h
  · cases h
  · cases h; rfl

/-- AddCredits (mined), exactly, on the pending side -/
theorem addCredits_exact (p : Params) (s s' : Store) (bals bals' : Bals) (tr : TxRec) (blk : BlockMeta)
    (h : addCredits p s bals tr blk = .ok (s', bals')) :
    s'.pending = s.pending ∧ s'.pendCred = s.pendCred ∧
    ∀ k, AMap.get s'.pendGame k =
      if (gameOuts tr).any (fun rel => decide ((rel.wallet, rel.out.cls.isBinding, tr.tx.id, rel.index) = k)) then none
      else AMap.get s.pendGame k := by
  unfold addCredits at h
  split at h
  · rename_i hemp
    cases h
    refine ⟨rfl, rfl, fun k => ?_⟩
    have : gameOuts tr = [] := by unfold gameOuts; rw [List.isEmpty_iff.1 hemp]; rfl
    rw [this]; simp
  · simp only [bind, Except.bind, pure, Except.pure] at h
    split at h
    · cases h
    · rename_i r hr
      cases h
      have h1 : pendSide r.1 = pendSide s :=
        foldlM_ok_inv (fun (a : Store × Bals) => pendSide a.1 = pendSide s) _ _ _ _ rfl
          (fun a x b' ha hf => (creditOne_pendSide p tr blk a b' x hf).trans ha) hr
      simp only [pendSide, Prod.mk.injEq] at h1
      obtain ⟨g1, g2, g3⟩ := gameErase_exact tr blk (gameOuts tr) r.1
      exact ⟨g1.trans h1.1, g2.trans h1.2.2.1, fun k => by rw [g3, h1.2.2.2]⟩

/-- one relevant record of the block: a credit frame; the record is written -/
theorem addRelevantMined_cfr (p : Params) (own : Own) (s s' : Store) (bals bals' : Bals) (tr : TxRec)
    (blk : BlockMeta) (h : addRelevantMined p own s bals tr blk = .ok (s', bals'))
    (hno : AMap.get s.txrecs (tr.tx.id, blk) = none) (hk : KeyId s)
    (hsame : ∀ t, AMap.get s.pending tr.tx.id = some t → t = tr.tx)
    (hro : tr.relOut = ownedFrom own tr.tx.outs 0) :
    CFr own s s' ∧ s'.txrecs = AMap.put s.txrecs (tr.tx.id, blk) tr.loc := by
  obtain ⟨_, _, _, _, _, htr⟩ := addRelevantMined_trace p own s s' bals bals' tr blk h hno
  refine ⟨?_, htr⟩
  unfold addRelevantMined at h
  simp only [bind, Except.bind] at h
  cases hi : insertMinedTx own s bals tr blk with
  | error e => rw [hi] at h; cases h
  | ok r =>
    rw [hi] at h
    obtain ⟨sa, ba, ex⟩ := r
    simp only at h
    have hex : ex = false := by
      unfold insertMinedTx at hi
      rw [hno] at hi
      simp only [Option.isSome_none, Bool.false_eq_true, if_false, bind, Except.bind] at hi
      split at hi
      · cases hi
      · simp only [pure, Except.pure, Except.ok.injEq, Prod.mk.injEq] at hi
        exact hi.2.2.symm
    subst hex
    obtain ⟨s1, hps, hsa⟩ := insertMinedTx_pending own s bals tr blk sa ba hi
    simp only [pendSide, Prod.mk.injEq] at hps
    obtain ⟨q1, _, q3, q4⟩ := hps
    have c1 : CFrX own (fun id => id = tr.tx.id) s s1 := cfr_of_eq own _ q1 q3 q4
    have hk1 : KeyId s1 := c1.keyId hk
    have c2 := confirmPending_cfrx own s1 hk1 tr
    rw [← hsa] at c2
    obtain ⟨a1, a2, a3⟩ := addCredits_exact p sa s' ba bals' tr blk h
    have c3 : CFrX own (fun id => id = tr.tx.id) sa s' := by
      refine ⟨fun id t hg => by rw [← a1]; exact hg, fun k hn => by rw [a2]; exact hn, fun k hn => ?_,
        fun _ _ _ _ => by rw [a2], fun w b id j hne _ => ?_, fun t _ ha hn => by rw [a1, ha] at hn; cases hn⟩
      · rw [a3]; split
        · rfl
        · exact hn
      · rw [a3, if_neg]
        intro hany
        obtain ⟨rel, _, hd⟩ := List.any_eq_true.1 hany
        have := of_decide_eq_true hd
        simp only [Prod.mk.injEq] at this
        exact hne this.2.2.1.symm
    have hall := c1.trans (c2.trans c3)
    have hk' : KeyId (unpendMined s1 tr.tx) := hk1.mono (sub_unpendMined s1 tr.tx)
    have hgone : AMap.get s'.pending tr.tx.id = none := by
      rw [a1, hsa]
      cases hg : AMap.get (confirmPending own s1 tr).pending tr.tx.id with
      | none => rfl
      | some t =>
        have := (removeDoubleSpends_cfr own _ hk' tr).pend _ _ hg
        rw [unpendMined_pending] at this; cases this
    apply hall.close' hsame hgone
    · intro hp j hj
      rw [a2, hsa]
      have h0 : AMap.get (unpendMined s1 tr.tx).pendCred (tr.tx.id, j) = none :=
        unpendMined_cred s1 tr.tx (by rw [q1, hp]; rfl) j hj
      exact (removeDoubleSpends_cfr own _ hk' tr).credSub _ h0
    · intro _ j w b hgo
      rw [a3, if_pos]
      rw [gameOut_iff_rel, ← hro] at hgo
      obtain ⟨rel, hrel, hkk⟩ := hgo
      simp only [Prod.mk.injEq] at hkk
      apply List.any_eq_true.2
      refine ⟨rel, hrel, decide_eq_true ?_⟩
      rw [hkk.1, hkk.2.1, hkk.2.2]

/-- the loop of onRelevantBlockConnected -/
theorem relevantFold_cfr (p : Params) (own : Own) (bm : BlockMeta) :
    ∀ (recs : List TxRec) (sb r : Store × Bals),
      recs.foldlM (fun (sb : Store × Bals) tr => addRelevantMined p own sb.1 sb.2 tr bm) sb = .ok r →
      (∀ tr ∈ recs, AMap.get sb.1.txrecs (tr.tx.id, bm) = none) →
      (recs.map (·.tx.id)).Nodup → KeyId sb.1 →
      (∀ tr ∈ recs, ∀ t, AMap.get sb.1.pending tr.tx.id = some t → t = tr.tx) →
      (∀ tr ∈ recs, tr.relOut = ownedFrom own tr.tx.outs 0) →
      CFr own sb.1 r.1 := by
  intro recs
  induction recs with
  | nil =>
    intro sb r h _ _ _ _ _
    simp only [List.foldlM, pure, Except.pure, Except.ok.injEq] at h
    rw [← h]; exact CFrX.refl _ _ _
  | cons tr rest ih =>
    intro sb r h hno hnd hk hsame hro
    simp only [List.foldlM, bind, Except.bind] at h
    cases hf : addRelevantMined p own sb.1 sb.2 tr bm with
    | error e => rw [hf] at h; cases h
    | ok sb' =>
      rw [hf] at h
      obtain ⟨c1, h5⟩ := addRelevantMined_cfr p own sb.1 sb'.1 sb.2 sb'.2 tr bm hf (hno tr (List.mem_cons_self ..)) hk
        (hsame tr (List.mem_cons_self ..)) (hro tr (List.mem_cons_self ..))
      rw [List.map_cons, List.nodup_cons] at hnd
      refine c1.trans (ih sb' r h ?_ hnd.2 (c1.keyId hk) ?_ (fun tr' h' => hro tr' (List.mem_cons_of_mem _ h')))
      · intro tr' htr'
        rw [h5, AMap.get_put]
        have hne : ¬ (tr.tx.id, bm) = (tr'.tx.id, bm) := by
          intro he
          have : tr.tx.id = tr'.tx.id := (Prod.mk.inj he).1
          exact hnd.1 (this ▸ List.mem_map.2 ⟨tr', htr', rfl⟩)
        rw [if_neg hne]
        exact hno tr' (List.mem_cons_of_mem _ htr')
      · intro tr' htr' t ht
        exact hsame tr' (List.mem_cons_of_mem _ htr') t (c1.pend _ _ ht)

theorem applyRelevant_cfr (c : Ctx) (s s' : Store) (ready : List Wid) (bm : BlockMeta) (recs : List TxRec)
    (h : applyRelevant c s ready bm recs = .ok s')
    (hno : ∀ tr ∈ recs, AMap.get s.txrecs (tr.tx.id, bm) = none) (hnd : (recs.map (·.tx.id)).Nodup)
    (hk : KeyId s) (hsame : ∀ tr ∈ recs, ∀ t, AMap.get s.pending tr.tx.id = some t → t = tr.tx)
    (hro : ∀ tr ∈ recs, tr.relOut = ownedFrom c.own tr.tx.outs 0) : CFr c.own s s' := by
  unfold applyRelevant at h
  split at h
  · cases h; exact CFrX.refl _ _ _
  · simp only [bind, Except.bind, pure, Except.pure] at h
    split at h
    · cases h
    · rename_i r hr
      cases h
      exact (relevantFold_cfr c.p c.own bm recs _ r hr hno hnd hk hsame hro).trans (cfr_of_eq _ _ rfl rfl rfl)

theorem purgeUnrelated_cfr (own : Own) : ∀ (txs : List Tx) (s : Store), KeyId s → CFr own s (purgeUnrelated own s txs) := by
  intro txs
  induction txs with
  | nil => intro s _; exact CFrX.refl _ _ _
  | cons t txs ih =>
    intro s hk
    have h1 := removeDoubleSpends_cfr own s hk { tx := t }
    exact h1.trans (ih _ (h1.keyId hk))

theorem putSyncedTo_cred (s s' : Store) (blk : BlockMeta) (h : putSyncedTo s blk = .ok s') :
    s'.pending = s.pending ∧ s'.pendCred = s.pendCred ∧ s'.pendGame = s.pendGame := by
  unfold putSyncedTo at h
  simp only [throw, throwThe, MonadExceptOf.throw, pure, Except.pure] at h
  repeat' split at h
  all_goals first | (cases h; done) | (cases h; exact ⟨rfl, rfl, rfl⟩)

/-- the records of the first loop of filterBlock list the owned outputs -/
theorem filterTxs_relOut (c : Ctx) (s : Store) (ready : List Wid) (hAR : AllReady c.own ready) (bid : BlkId) :
    ∀ (post seen : List Tx) (ti : Nat) (acc r : List TxRec),
      filterTxs c s ready bid post seen ti acc = .ok r →
      (∀ tr ∈ acc, tr.relOut = ownedFrom c.own tr.tx.outs 0) → ∀ tr ∈ r, tr.relOut = ownedFrom c.own tr.tx.outs 0 := by
  intro post
  induction post with
  | nil =>
    intro seen ti acc r h hacc
    simp only [filterTxs, pure, Except.pure, Except.ok.injEq] at h
    rw [← h]; exact hacc
  | cons tx rest ih =>
    intro seen ti acc r h hacc
    simp only [filterTxs, bind, Except.bind] at h
    cases hx : filterTxRel c s tx true (seen ++ [tx]) ready with
    | error e => rw [hx] at h; cases h
    | ok o =>
      rw [hx] at h
      cases o with
      | none => exact ih _ _ _ _ h hacc
      | some tr =>
        refine ih _ _ _ _ h ?_
        intro tr' htr'
        rcases List.mem_append.1 htr' with h1 | h1
        · exact hacc tr' h1
        · rw [List.mem_singleton.1 h1]
          have e1 := filterTxRel_tx c s tx true _ ready tr hx
          have e2 := filterTxRel_relOut c s tx true _ ready hAR tr hx
          show tr.relOut = ownedFrom c.own tr.tx.outs 0
          rw [e1]; exact e2

/-- CONNECTING A BLOCK is a credit frame -/
theorem filterBlock_cfr (c : Ctx) (s s' : Store) (ready : List Wid) (b : Block) (conf : List TxId)
    (h : filterBlock c s ready b = .ok (s', conf)) (hne : ready.isEmpty = false) (hAR : AllReady c.own ready)
    (hnorec : ∀ u ∈ b.txs, AMap.get s.txrecs (u.id, ⟨b.height, b.id⟩) = none)
    (hbnd : (b.txs.map (·.id)).Nodup) (hk : KeyId s)
    (hsame : ∀ u ∈ b.txs, ∀ t, AMap.get s.pending u.id = some t → t = u) : CFr c.own s s' := by
  unfold filterBlock at h
  simp only [throw, throwThe, MonadExceptOf.throw] at h
  split at h
  · cases h
  · split at h
    · cases h
    · simp only [hne, Bool.false_eq_true, if_false, bind, Except.bind] at h
      cases hf : filterTxs c s ready b.id b.txs [] 0 [] with
      | error e => rw [hf] at h; cases h
      | ok recs =>
        rw [hf] at h
        simp only at h
        obtain ⟨recs', hr, hsub⟩ := filterTxs_sublist c s ready b.id b.txs [] 0 [] recs hf
        rw [List.nil_append] at hr
        subst hr
        cases ha : applyRelevant c s ready ⟨b.height, b.id⟩ recs with
        | error e => rw [ha] at h; cases h
        | ok s1 =>
          rw [ha] at h
          simp only at h
          cases hp : putSyncedTo (purgeUnrelated c.own s1 (unrelatedTxs b.txs recs)) ⟨b.height, b.id⟩ with
          | error e => rw [hp] at h; cases h
          | ok s2 =>
            rw [hp] at h
            simp only [pure, Except.pure, Except.ok.injEq, Prod.mk.injEq] at h
            obtain ⟨hs2, _⟩ := h
            subst hs2
            have hrecb : ∀ tr ∈ recs, tr.tx ∈ b.txs := fun tr htr => hsub.subset (List.mem_map.2 ⟨tr, htr, rfl⟩)
            have hnd : (recs.map (·.tx.id)).Nodup := by
              have : recs.map (·.tx.id) = (recs.map (·.tx)).map (·.id) := by rw [List.map_map]; rfl
              rw [this]
              exact (hsub.map (·.id)).nodup hbnd
            have hno : ∀ tr ∈ recs, AMap.get s.txrecs (tr.tx.id, ⟨b.height, b.id⟩) = none :=
              fun tr htr => hnorec tr.tx (hrecb tr htr)
            have c1 := applyRelevant_cfr c s s1 ready _ recs ha hno hnd hk
              (fun tr htr => hsame tr.tx (hrecb tr htr))
              (filterTxs_relOut c s ready hAR b.id b.txs [] 0 [] recs hf (fun _ h => by cases h))
            have c2 := purgeUnrelated_cfr c.own (unrelatedTxs b.txs recs) s1 (c1.keyId hk)
            obtain ⟨q1, q2, q3⟩ := putSyncedTo_cred _ _ _ hp
            exact c1.trans (c2.trans (cfr_of_eq _ _ q1 q2 q3))

/-- CONNECT keeps the credit relation: the pending credits and the unmined deposit records after the block are those
    of the surviving pending transactions (`hrel'` = the conclusion of `connect_step`) -/
theorem connect_cred (rank : TxId → Nat) (e : Spec.Pending.Env) (ctx : Ctx) (s s' : Store) (c : List Block) (b : Block)
    (P : List Tx) (ready : List Wid) (conf : List TxId)
    (h : filterBlock ctx s ready b = .ok (s', conf)) (hne : ready.isEmpty = false) (hown : e.own = ctx.own)
    (hAR : AllReady ctx.own ready)
    (hnorec : ∀ u ∈ b.txs, AMap.get s.txrecs (u.id, ⟨b.height, b.id⟩) = none)
    (hrel : PendRel rank s P) (hcr : CredRel e s P) (hok : ConnOK c b P)
    (hrel' : PendRel rank s' (onChainMoved e c (c ++ [b]) P)) :
    CredRel e s' (onChainMoved e c (c ++ [b]) P) := by
  have hf := filterBlock_cfr ctx s s' ready b conf h hne hAR hnorec hok.bnd (keyId_of_rel hrel) (by
    intro u hu t ht
    obtain ⟨h1, h2⟩ := (hrel.ids _ _).1 ht
    exact (hok.ident u hu t h1 h2.symm).symm)
  rw [← hown] at hf
  exact hcr.frame hrel hrel' hf

end MW.Lemmas.PendHist.Cred
