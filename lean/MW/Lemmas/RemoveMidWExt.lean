/-
  C08, reorganisations below the floor — the two extension facts for the relaxed ghost/real relation `SubW`:
    `filterBlock_simW_full`  `RemoveSimW.filterBlock_simW` with `NewEq` and the frame clauses of `RemoveSim.filterBlock_sim`
    `midUW_ext`              `midC_ext` for `MidCW` / `SubW`
-/
import MW.Lemmas.RemoveInterleave5
import MW.Lemmas.RemoveSimWConn
import MW.Lemmas.RemoveMidWDefs

namespace MW.Lemmas.RemoveSimW
open MW MW.Model.Ledger MW.Model.Remove MW.Lemmas.Ledger MW.Lemmas.LedgerWFCred MW.Lemmas.RemoveSim

theorem filterBlock_simW_full {w : Wid} {addrs : List Addr} {ready : List Wid} {c : Ctx} {g s g' : Store} {b : Block} {conf : List TxId}
    (hSub : SubW w addrs g s) (hnr : ready.contains w = false)
    (hng : KeysNodup g.credits) (hns : KeysNodup s.credits)
    (hF : Fresh ⟨b.height, b.id⟩ g) (hFs : AMap.get s.blocks b.height = none) (hC : CoinsOK addrs ready g)
    (hfind : ∀ id, existCreditFromTx g id = true → (c.node.fetchTx id).isSome = true)
    (hown : ∀ (id : TxId) (pt : Tx) (idx : Nat) (o : Out) (w' : Wid) (ch : Bool), existCreditFromTx g id = true →
      existCreditFromTx s id = false → c.node.fetchTx id = some pt → pt.outs[idx]? = some o → o.cls ≠ .raw →
      AMap.get c.own o.addr = some (w', ch) → ready.contains w' = false)
    (hrel : ∀ a w' ch, AMap.get c.own a = some (w', ch) → ready.contains w' = true → addrs.contains a = false)
    (hdeb : ∀ dk d, AMap.get g.debits dk = some d → d.2.blk ≠ ⟨b.height, b.id⟩)
    (hg : filterBlock c g ready b = .ok (g', conf)) :
    ∃ s', filterBlock c s ready b = .ok (s', conf) ∧ SubW w addrs g' s' ∧ NewEq ⟨b.height, b.id⟩ g' s' ∧
      KeysNodup s'.credits ∧ KeysNodup g'.credits ∧ CoinsOK addrs ready g' ∧
      (∀ k, k.2 ≠ ⟨b.height, b.id⟩ → AMap.get s'.txrecs k = AMap.get s.txrecs k) ∧
      (∀ h, h ≠ b.height → AMap.get s'.blocks h = AMap.get s.blocks h) ∧
      (∀ k, k.blk ≠ ⟨b.height, b.id⟩ → AMap.get s'.debits k = AMap.get s.debits k) ∧
      (∀ k, k.blk ≠ ⟨b.height, b.id⟩ → AMap.get s'.credits k = AMap.get s.credits k ∨
        (∃ c0, AMap.get s.credits k = some c0 ∧ AMap.get g.credits k = some c0 ∧ addrs.contains c0.sh = false ∧
          AMap.get s'.credits k = AMap.get g'.credits k)) ∧
      (∀ k cr, AMap.get g.credits k = some cr → addrs.contains cr.sh = true → AMap.get g'.credits k = some cr) ∧
      (∀ k cr, AMap.get g'.credits k = some cr → addrs.contains cr.sh = true → AMap.get g.credits k = some cr) ∧
      (∀ k, k.2 ≠ ⟨b.height, b.id⟩ → AMap.get g'.txrecs k = AMap.get g.txrecs k) ∧
      (∀ h, h ≠ b.height → AMap.get g'.blocks h = AMap.get g.blocks h) ∧
      (∀ k, k.blk ≠ ⟨b.height, b.id⟩ → AMap.get g'.debits k = AMap.get g.debits k) := by
  obtain ⟨s', hs, hI⟩ := filterBlock_simInvW hSub hnr hng hns hF hFs hC hfind hown hrel hg
  obtain ⟨s2, hs2, hSub', hn1, hn2, hC'⟩ := filterBlock_simW hSub hnr hng hns hF hFs hC hfind hown hrel hdeb hg
  have e : s2 = s' := by
    rw [hs] at hs2
    exact ((Prod.mk.inj (Except.ok.inj hs2)).1).symm
  subst e
  refine ⟨s2, hs, hSub',
    ⟨fun id => hI.tx.new (id, _) rfl, hI.blk.new _ rfl, fun id i => hI.cred.new ⟨id, _, i⟩ rfl,
      fun id i => hI.deb.new ⟨id, _, i⟩ rfl⟩,
    hn1, hn2, hC', hI.tx.frame, hI.blk.frame, hI.deb.frame, ?_, ?_, ?_,
    hI.tx.gframe, hI.blk.gframe, hI.deb.gframe⟩
  · intro k hk
    rcases hI.cred.old k hk with ⟨_, e⟩ | ⟨c0, _, a1, a2, a3, a4, _, _⟩
    · exact Or.inl e
    · exact Or.inr ⟨c0, a1, a2, a3, a4⟩
  · intro k cr hk hsh
    by_cases hb : k.blk = ⟨b.height, b.id⟩
    · have : AMap.get g.credits k = none := by cases k; cases hb; exact hF.credits _ _
      rw [this] at hk; cases hk
    · rcases hI.cred.old k hb with ⟨e, _⟩ | ⟨c0, _, _, a2, a3, _, _, _⟩
      · rw [e]; exact hk
      · rw [hk] at a2; cases a2; rw [hsh] at a3; cases a3
  · intro k cr hk hsh
    by_cases hb : k.blk = ⟨b.height, b.id⟩
    · rw [hI.cred.newc k cr hb hk] at hsh; cases hsh
    · rcases hI.cred.old k hb with ⟨e, _⟩ | ⟨c0, c1, _, _, a3, _, a5, a6⟩
      · rw [← e]; exact hk
      · rw [hk] at a5; cases a5; rw [a6, a3] at hsh; cases hsh

end MW.Lemmas.RemoveSimW

namespace MW.Lemmas.RemoveInterleave
open MW MW.Model.Ledger MW.Model.Remove MW.Spec.Chain MW.Spec.Books MW.Lemmas.Ledger MW.Lemmas.RemoveProj
  MW.Lemmas.RemoveInv MW.Lemmas.RemoveMain MW.Lemmas.RemoveUpper MW.Lemmas.RemoveJoin MW.Lemmas.RemoveGlue
  MW.Lemmas.RemoveFlagged MW.Lemmas.ImportReorg MW.Lemmas.ImportJoin MW.Lemmas.RemoveChar MW.Lemmas.RemoveStep
  MW.Lemmas.RemoveBooks MW.Lemmas.RemoveSim MW.Lemmas.RemoveSimW

section extW
variable {c : Ctx} {w : Wid} {addrs : List Addr} {own' : Own} {X : List Block} {b : Block} {k : Nat}
  {g g' s s' : Store}

/-- **`MidCW` for the longer chain** (`midC_ext` for the relaxed relation `SubW`): the id-keyed buckets are compared off
    the removed wallet only -/
theorem midUW_ext (H : RemHyp c w addrs own' X) (H' : RemHyp c w addrs own' (X ++ [b])) (hKN : KeysNodup c.own)
    (hk : k + 1 ≤ X.length) (hbh : b.height = X.length)
    (hS : ScanJS c w g X k) (hS' : ScanJS c w g' (X ++ [b]) k)
    (hnr' : (readyWallets g' c.wallets).contains w = false) (hng' : KeysNodup g'.credits)
    (hM : MidCW c w addrs own' s X (joinBookK c w own' X k))
    (hSub : SubW w addrs g s) (hSub' : SubW w addrs g' s') (hNew : NewEq ⟨b.height, b.id⟩ g' s')
    (hns' : KeysNodup s'.credits)
    (f_tx : ∀ k : TxId × BlockMeta, k.2 ≠ ⟨b.height, b.id⟩ → AMap.get s'.txrecs k = AMap.get s.txrecs k)
    (f_blk : ∀ h, h ≠ b.height → AMap.get s'.blocks h = AMap.get s.blocks h)
    (f_deb : ∀ k : CredKey, k.blk ≠ ⟨b.height, b.id⟩ → AMap.get s'.debits k = AMap.get s.debits k)
    (f_cred : ∀ k : CredKey, k.blk ≠ ⟨b.height, b.id⟩ → AMap.get s'.credits k = AMap.get s.credits k ∨
      (∃ c0, AMap.get s.credits k = some c0 ∧ AMap.get g.credits k = some c0 ∧ addrs.contains c0.sh = false ∧
        AMap.get s'.credits k = AMap.get g'.credits k))
    (gc1 : ∀ k cr, AMap.get g.credits k = some cr → addrs.contains cr.sh = true → AMap.get g'.credits k = some cr)
    (gc2 : ∀ k cr, AMap.get g'.credits k = some cr → addrs.contains cr.sh = true → AMap.get g.credits k = some cr)
    (gf_tx : ∀ k : TxId × BlockMeta, k.2 ≠ ⟨b.height, b.id⟩ → AMap.get g'.txrecs k = AMap.get g.txrecs k)
    (gf_deb : ∀ k : CredKey, k.blk ≠ ⟨b.height, b.id⟩ → AMap.get g'.debits k = AMap.get g.debits k) :
    MidCW c w addrs own' s' (X ++ [b]) (joinBookK c w own' (X ++ [b]) k) := by
  have hk' : k + 1 ≤ (X ++ [b]).length := by rw [List.length_append]; omega
  have htake : (X ++ [b]).take (k + 1) = X.take (k + 1) := List.take_append_of_le_length hk
  have hU' : joinBookK c w own' (X ++ [b]) k =
      joinB (bookOf c.p own' (X ++ [b])) (bookOf c.p (ownW c.own w) (X.take (k + 1))) := by
    unfold joinBookK; rw [htake]
  have hA := ghost_agree H hKN hS
  have hA' := ghost_agree H' hKN hS'
  rw [htake] at hA'
  have HU := upperOK_join (k := k) H hKN hk
  have HU' := upperOK_join (k := k) H' hKN hk'
  rw [hU'] at HU'
  have hFresh : Fresh ⟨b.height, b.id⟩ g := ghost_fresh H hKN hk hS hbh
  have hOw := ownW_sub hKN w
  have hVw : ChainValid (ownW c.own w) (X.take (k + 1)) := chainValid_sub hOw (chainValid_take H.valid _)
  -- the balances of the other wallets: from the ghost store
  have hMg' : MidU c w addrs own' { g' with pendCred := [] } (X ++ [b]) (joinBookK c w own' (X ++ [b]) k) :=
    scanJS_to_midU H' hKN hk'
      (scanJS_congr hS' (s' := { g' with pendCred := [] }) ⟨rfl, rfl, rfl, rfl, rfl, rfl, rfl, rfl, rfl, rfl, rfl⟩)
      hnr' hng' (fun _ he => by cases he)
  rw [hU'] at hMg' ⊢
  -- a credit of `w` that is in the real store stays
  have keep_cred : ∀ ck cr, AMap.get s.credits ck = some cr → isW c.own w cr.sh = true →
      AMap.get s'.credits ck = some cr := by
    intro ck cr hs hw
    have hcon : addrs.contains cr.sh = true := by rw [H.managed]; exact hw
    have hg : AMap.get g.credits ck = some cr := by
      rcases hSub.credits ck with h | ⟨h, _⟩
      · rw [← h]; exact hs
      · rw [hs] at h; cases h
    have hb : ck.blk ≠ ⟨b.height, b.id⟩ := by
      intro e
      obtain ⟨tx, blk, i⟩ := ck
      simp only at e
      subst e
      rw [hFresh.credits tx i] at hg; cases hg
    rcases f_cred ck hb with h | ⟨c0, h1, _, h3, _⟩
    · rw [h]; exact hs
    · rw [hs] at h1
      injection h1 with h1
      rw [← h1, hcon] at h3; cases h3
  refine ⟨hns', ?_, ?_, ?_, ?_, ?_, ?_, ?_, ?_, ?_, ?_, ?_, fun _ he => by cases he⟩
  · -- credits
    intro ck
    show AMap.get s'.credits ck = _ ∨ (AMap.get s'.credits ck = none ∧ _)
    rcases hSub'.credits ck with h | ⟨h1, cr, h2, h3⟩
    · exact Or.inl (h.trans (hA'.credits ck))
    · exact Or.inr ⟨h1, cr, (hA'.credits ck).symm.trans h2, by rw [← H.managed]; exact h3⟩
  · -- debits
    intro dk
    show AMap.get s'.debits dk = _ ∨ (AMap.get s'.debits dk = none ∧ _)
    by_cases hb : dk.blk = ⟨b.height, b.id⟩
    · left
      obtain ⟨tx, blk, i⟩ := dk
      simp only at hb
      subst hb
      exact (hNew.debits tx i).trans (hA'.debits _)
    · have e1 := f_deb dk hb
      have e2 := gf_deb dk hb
      rcases hM.debits dk with h | ⟨h1, d, cr, h2, h3, h4⟩
      · exact Or.inl (e1.trans (h.trans ((hA.debits dk).symm.trans (e2.symm.trans (hA'.debits dk)))))
      · refine Or.inr ⟨e1.trans h1, d, cr, (hA'.debits dk).symm.trans (e2.trans ((hA.debits dk).trans h2)), ?_, h4⟩
        exact (hA'.credits d.2).symm.trans (gc1 d.2 cr ((hA.credits d.2).trans h3) (by rw [H.managed]; exact h4))
  · -- debitsW
    intro dk d cr hd hc hw
    show AMap.get s'.credits d.2 = some cr
    have hd : AMap.get s'.debits dk = some d := hd
    have hcon : addrs.contains cr.sh = true := by rw [H.managed]; exact hw
    have hg' : AMap.get g'.credits d.2 = some cr := (hA'.credits d.2).trans hc
    have hg : AMap.get g.credits d.2 = some cr := gc2 _ _ hg' hcon
    have hUc : (joinBookK c w own' X k).credits d.2 = some cr := (hA.credits d.2).symm.trans hg
    by_cases hb : dk.blk = ⟨b.height, b.id⟩
    · exfalso
      have hUd : (joinB (bookOf c.p own' (X ++ [b])) (bookOf c.p (ownW c.own w) (X.take (k + 1)))).debits dk = some d := by
        obtain ⟨tx, blk, i⟩ := dk
        simp only at hb
        subst hb
        rw [← hd, hNew.debits tx i]; exact (hA'.debits _).symm
      obtain ⟨cr2, hcr2, hsp⟩ := HU'.debitCredit dk d hUd
      rw [hc] at hcr2
      injection hcr2 with hcr2
      subst hcr2
      obtain ⟨_, oc, hoc, _, hbm⟩ := HU.spKeyDebit d.2 dk cr hUc hsp
      have := occ_height_lt H.heights hoc
      rw [hbm, hb] at this
      simp only [hbh] at this
      exact Nat.lt_irrefl _ this
    · have hsd : AMap.get s.debits dk = some d := by rw [← f_deb dk hb]; exact hd
      exact keep_cred d.2 cr (hM.debitsW dk d cr hsd hUc hw) hw
  · -- unspent
    intro w' tx idx hw'
    show AMap.get s'.unspent (w', tx, idx) = _
    rw [hSub'.unspent (w', tx, idx) hw']; exact hA'.unspent w' tx idx
  · -- game
    intro gk hgk
    show AMap.get s'.game gk = _
    rw [hSub'.game gk hgk]; exact hA'.game gk
  · -- txrecs
    intro key
    show AMap.get s'.txrecs key = _ ∨ (AMap.get s'.txrecs key = none ∧ _)
    by_cases hb : key.2 = ⟨b.height, b.id⟩
    · left
      obtain ⟨id, blk⟩ := key
      simp only at hb
      subst hb
      exact (hNew.txrecs id).trans (hA'.txrecs _)
    · have e1 := f_tx key hb
      have e2 := gf_tx key hb
      rcases hM.txrecs key with h | ⟨h1, h2⟩
      · exact Or.inl (e1.trans (h.trans ((hA.txrecs key).symm.trans (e2.symm.trans (hA'.txrecs key)))))
      · exact Or.inr ⟨e1.trans h1, (bookOf_snoc_txrecs c.p own' X b key hb).trans h2⟩
  · -- txrecsW
    intro key loc hs hB'
    show ∃ ck cr, AMap.get s'.credits ck = some cr ∧ _
    have hs : AMap.get s'.txrecs key = some loc := hs
    by_cases hb : key.2 = ⟨b.height, b.id⟩
    · exfalso
      have hw : (bookOf c.p (ownW c.own w) (X.take (k + 1))).txrecs key = some loc := by
        obtain ⟨id, blk⟩ := key
        simp only at hb
        subst hb
        rw [hNew.txrecs id, hA'.txrecs, hB'] at hs
        exact hs
      obtain ⟨P₁, oc, P₂, hsp, _, hkey, _⟩ := txrec_occ hVw hw
      have hoc : oc ∈ occs X := by
        have h1 : oc ∈ occs (X.take (k + 1)) := by rw [hsp]; simp
        have h2 := mem_occs_pre (post := X.drop (k + 1)) h1
        rw [List.take_append_drop] at h2
        exact h2
      have := occ_height_lt H.heights hoc
      have e : key.2 = oc.bm := congrArg Prod.snd hkey
      rw [← e, hb] at this
      simp only [hbh] at this
      exact Nat.lt_irrefl _ this
    · have hs0 : AMap.get s.txrecs key = some loc := by rw [← f_tx key hb]; exact hs
      have hB0 : (bookOf c.p own' X).txrecs key = none := by rw [← bookOf_snoc_txrecs c.p own' X b key hb]; exact hB'
      obtain ⟨ck, cr, h1, h2, h3⟩ := hM.txrecsW key loc hs0 hB0
      exact ⟨ck, cr, keep_cred ck cr h1 h2, h2, h3⟩
  · -- blocks
    intro h
    show AMap.get s'.blocks h = blockRecOf (fun k => (AMap.get s'.txrecs k).isSome) (X ++ [b]) h
    by_cases hh : h = b.height
    · subst hh
      rw [hNew.blocks, hS'.blocks b.height]
      apply blockRecOf_congr_at rfl
      intro b0 hb0 oc hoc
      have hget : (X ++ [b])[b.height]? = some b := by rw [hbh]; simp
      rw [hget] at hb0
      injection hb0 with hb0
      subst hb0
      have hbm : oc.bm = ⟨b.height, b.id⟩ := mem_occsFrom_bm hoc
      unfold hasRec
      rw [hbm, hNew.txrecs]
    · rw [f_blk h hh]
      have := hM.blocks h
      rw [show AMap.get s.blocks h = _ from this]
      have hne : h ≠ X.length := by rw [← hbh]; exact hh
      apply blockRecOf_congr_at
      · by_cases hl : h < X.length
        · rw [List.getElem?_append_left hl]
        · rw [List.getElem?_eq_none (by omega), List.getElem?_eq_none (by rw [List.length_append]; simp; omega)]
      · intro b0 hb0 oc hoc
        have hbm : oc.bm = ⟨b0.height, b0.id⟩ := mem_occsFrom_bm hoc
        have hb0h : b0.height = h := H.heights h b0 hb0
        have hkey : (oc.t.id, oc.bm).2 ≠ ⟨b.height, b.id⟩ := by
          intro e
          simp only [hbm] at e
          injection e with e1 _
          exact hh (hb0h.symm.trans e1)
        show (AMap.get s.txrecs (oc.t.id, oc.bm)).isSome = (AMap.get s'.txrecs (oc.t.id, oc.bm)).isSome
        rw [f_tx _ hkey]
  · -- bal
    intro w' hw' hr
    show AMap.get s'.balance w' = _
    rw [hSub'.balance w' hw']
    have hr' : (readyWallets { g' with pendCred := [] } c.wallets).contains w' = true := by
      have : readyWallets { s' with pendCred := [] } c.wallets = readyWallets { g' with pendCred := [] } c.wallets :=
        readyWallets_congr (s := { g' with pendCred := [] }) (s' := { s' with pendCred := [] }) hSub'.status c.wallets
      rw [← this]; exact hr
    exact hMg'.bal w' hw' hr'
  · -- sync
    intro h
    show AMap.get s'.sync h = _
    rw [hSub'.sync]; exact hS'.sync h
  · -- syncedTo
    show s'.syncedTo + 1 = _
    rw [hSub'.syncedTo]; exact hS'.syncedTo

end extW

end MW.Lemmas.RemoveInterleave
