/-
  Read-your-writes: inside a write transaction every read form of leveldb.go returns what a
  read-only transaction would return on the store `apply committed batch` (= what Commit writes).
-/
import MW.Model.KVSys
import MW.Lemmas.KvBatch
import MW.Lemmas.KvPrefix
namespace MW.Model.KV
open MW MW.KV

/-- the read-only transaction on the store that `tx` would commit -/
def Tx.roView (tx : Tx) : Tx := { readOnly := true, db := tx.commit, b := {} }

structure Tx.Inv (tx : Tx) : Prop where
  dbSorted : SMap.Sorted tx.db
  batch : tx.b.Inv

theorem Tx.commit_sorted {tx : Tx} (h : tx.Inv) : SMap.Sorted tx.commit := by
  unfold Tx.commit
  by_cases hr : tx.readOnly
  · simp [hr, h.dbSorted]
  · simp only [hr]; exact applyLog_sorted h.dbSorted _

theorem Tx.commit_get {tx : Tx} (h : tx.Inv) (k : Bytes) :
    tx.commit.get k = if tx.readOnly then tx.db.get k else view tx.db tx.b k := by
  unfold Tx.commit
  by_cases hr : tx.readOnly
  · simp [hr]
  · simp only [hr]; exact h.batch.viewOk tx.db k

theorem Tx.roView_commit (tx : Tx) : tx.roView.commit = tx.commit := by
  simp [Tx.roView, Tx.commit]

/-- bucket lookups (TopLevelBucket / Bucket / NewBucket's existence test) read their own writes -/
theorem Tx.bucketExists_ryw {tx : Tx} (h : tx.Inv) (key : Bytes) :
    tx.bucketExists key = (tx.commit.get key).isSome := by
  rw [Tx.commit_get h]
  unfold Tx.bucketExists view
  by_cases hr : tx.readOnly
  · simp [hr]
  · simp only [hr, Bool.false_eq_true, if_false]
    rcases Batch.get_cases tx.b key with hg | ⟨v, hg⟩ | hg <;> simp [hg]

theorem Tx.bucketExists_roView {tx : Tx} (h : tx.Inv) (key : Bytes) :
    tx.bucketExists key = tx.roView.bucketExists key := by
  rw [Tx.bucketExists_ryw h]
  simp [Tx.roView, Tx.bucketExists]

theorem Bucket.innerKey_nil (b : Bucket) : b.innerKey [] false = .error .illegalKey := rfl

theorem Bucket.innerKey_cons (b : Bucket) (c : UInt8) (cs : Bytes) :
    b.innerKey (c :: cs) false = .ok (b.path ++ sep :: c :: cs) := rfl

/-- `get_ryw`, as an equation on the effective store -/
theorem Bucket.get_eq {tx : Tx} (h : tx.Inv) (b : Bucket) (key : Bytes) :
    b.get tx key = if key.length == 0 then none else tx.commit.get (b.path ++ sep :: key) := by
  cases key with
  | nil => simp [Bucket.get, Bucket.innerKey_nil]
  | cons c cs =>
    simp only [Bucket.get, Bucket.innerKey_cons, List.length_cons, Nat.add_one_ne_zero, beq_iff_eq,
      if_false]
    rw [Tx.commit_get h]
    by_cases hr : tx.readOnly
    · simp only [hr, if_true]
      cases tx.db.get (b.path ++ sep :: c :: cs) <;> rfl
    · simp only [hr, Bool.false_eq_true, if_false, view]
      cases hd : tx.db.get (b.path ++ sep :: c :: cs) with
      | none =>
        rcases Batch.get_cases tx.b (b.path ++ sep :: c :: cs) with hg | ⟨v, hg⟩ | hg <;> simp [hg]
      | some value =>
        rcases Batch.get_cases tx.b (b.path ++ sep :: c :: cs) with hg | ⟨v, hg⟩ | hg <;> simp [hg]

theorem Bucket.get_ryw {tx : Tx} (h : tx.Inv) (b : Bucket) (key : Bytes) :
    b.get tx key = b.get tx.roView key := by
  have hro : tx.roView.Inv := ⟨Tx.commit_sorted h, Batch.inv_empty⟩
  rw [Bucket.get_eq h, Bucket.get_eq hro, Tx.roView_commit]

theorem Tx.topLevelBucket_ryw {tx : Tx} (h : tx.Inv) (name : Bytes) :
    tx.topLevelBucket name = tx.roView.topLevelBucket name := by
  simp only [Tx.topLevelBucket, Tx.bucketExists_roView h]

theorem Bucket.bucket_ryw {tx : Tx} (h : tx.Inv) (b : Bucket) (name : Bytes) :
    b.bucket tx name = b.bucket tx.roView name := by
  unfold Bucket.bucket
  cases b.subBucket name with
  | error e => rfl
  | ok sub => simp only; rw [Tx.bucketExists_roView h]

theorem navFrom_ryw {tx : Tx} (h : tx.Inv) (b : Bucket) (names : List Bytes) :
    navFrom tx b names = navFrom tx.roView b names := by
  induction names generalizing b with
  | nil => rfl
  | cons n rest ih =>
    simp only [navFrom, Bucket.bucket_ryw h]
    cases b.bucket tx.roView n with
    | none => rfl
    | some sub => exact ih sub

/-- navigation inside a write transaction sees the transaction's own bucket creations and deletions -/
theorem nav_ryw {tx : Tx} (h : tx.Inv) (p : Path) : nav tx p = nav tx.roView p := by
  cases p with
  | nil => rfl
  | cons n rest =>
    simp only [nav, Tx.topLevelBucket_ryw h]
    cases tx.roView.topLevelBucket n with
    | none => rfl
    | some b => exact navFrom_ryw h b rest

/-! ### prefix reads -/

theorem SMap.Sorted.nodup {α : Type} {m : SMap α} (h : SMap.Sorted m) : m.Nodup := by
  unfold SMap.Sorted at h
  exact List.Pairwise.imp (fun {a b} hab e => by subst e; simp [blt_irrefl] at hab) h

theorem SMap.Sorted.mem_iff_get {α : Type} {m : SMap α} (h : SMap.Sorted m) (k : Bytes) (v : α) :
    (k, v) ∈ m ↔ m.get k = some v :=
  ⟨SMap.get_of_mem h, SMap.mem_of_get⟩

theorem Tx.overlay_ro {tx : Tx} (hr : tx.readOnly = true) (k v : Bytes) : tx.overlay k v = some v := by
  simp [Tx.overlay, hr]

theorem Tx.overlayEntries_ro {tx : Tx} (hr : tx.readOnly = true) (es : List (Bytes × Bytes)) :
    tx.overlayEntries es = es := by
  unfold Tx.overlayEntries
  induction es with
  | nil => rfl
  | cons e rest ih => simp [Tx.overlay_ro hr]

theorem Tx.overlay_w {tx : Tx} (hw : tx.readOnly = false) (k v0 v : Bytes) :
    tx.overlay k v0 = some v ↔ tx.b.get k = (some v, false) ∨ (tx.b.get k = (none, false) ∧ v = v0) := by
  unfold Tx.overlay
  simp only [hw, Bool.false_eq_true, if_false]
  rcases Batch.get_cases tx.b k with hg | ⟨v', hg⟩ | hg
  · simp [hg]
  · simp [hg]
  · simp [hg, eq_comm]

theorem Tx.mem_overlayEntries {tx : Tx} (es : List (Bytes × Bytes)) (k v : Bytes) :
    (k, v) ∈ tx.overlayEntries es ↔ ∃ v0, (k, v0) ∈ es ∧ tx.overlay k v0 = some v := by
  unfold Tx.overlayEntries
  simp only [List.mem_filterMap, Option.map_eq_some_iff]
  constructor
  · rintro ⟨e, he, v', hv', heq⟩
    cases heq
    exact ⟨e.2, he, hv'⟩
  · rintro ⟨v0, he, hv⟩
    exact ⟨(k, v0), he, v, hv, rfl⟩

theorem Tx.overlayEntries_sorted {tx : Tx} {es : List (Bytes × Bytes)} (hs : SMap.Sorted es) :
    SMap.Sorted (tx.overlayEntries es) := by
  unfold Tx.overlayEntries SMap.Sorted
  refine List.Pairwise.filterMap _ ?_ hs
  intro a a' hlt x hx y hy
  simp only [Option.map_eq_some_iff] at hx hy
  obtain ⟨_, _, rfl⟩ := hx
  obtain ⟨_, _, rfl⟩ := hy
  exact hlt

/-- The two parts GetByPrefix / BucketNames assemble inside a write transaction – the committed
    entries under the prefix overlaid with the batch, then the batch's net puts not seen yet – are,
    as a set with each entry once, the entries under the prefix of the store that Commit would write. -/
theorem Tx.scan_parts_perm {tx : Tx} (h : tx.Inv) (hw : tx.readOnly = false) (ip : Bytes) :
    let part1 := tx.overlayEntries (tx.db.scan ip)
    let part2 := (tx.b.netPuts ip).filter fun e => !(part1.map (·.1)).contains e.1
    (part1 ++ part2).Perm (tx.commit.scan ip) := by
  intro part1 part2
  have hdbs := h.dbSorted
  have hcs := Tx.commit_sorted h
  have hscan_sorted : SMap.Sorted (tx.db.scan ip) := SMap.range_sorted hdbs _ _
  have h1s : SMap.Sorted part1 := Tx.overlayEntries_sorted hscan_sorted
  have hnp : SMap.Sorted (tx.b.netPuts ip) := Batch.netPuts_sorted h.batch ip
  have h2s : SMap.Sorted part2 := List.Pairwise.filter _ hnp
  -- membership in the two parts
  have hm1 : ∀ k v, (k, v) ∈ part1 ↔
      ip <+: k ∧ ∃ v0, tx.db.get k = some v0 ∧
        (tx.b.get k = (some v, false) ∨ (tx.b.get k = (none, false) ∧ v = v0)) := by
    intro k v
    rw [Tx.mem_overlayEntries]
    constructor
    · rintro ⟨v0, hmem, hov⟩
      rw [mem_scan] at hmem
      exact ⟨hmem.2, v0, SMap.get_of_mem hdbs hmem.1, (Tx.overlay_w hw k v0 v).mp hov⟩
    · rintro ⟨hp, v0, hg, hov⟩
      exact ⟨v0, mem_scan.mpr ⟨SMap.mem_of_get hg, hp⟩, (Tx.overlay_w hw k v0 v).mpr hov⟩
  have hk1 : ∀ k, k ∈ part1.map (·.1) ↔
      ip <+: k ∧ (tx.db.get k).isSome ∧ (tx.b.get k).2 = false := by
    intro k
    simp only [List.mem_map]
    constructor
    · rintro ⟨e, he, rfl⟩
      obtain ⟨hp, v0, hg, hov⟩ := (hm1 e.1 e.2).mp he
      refine ⟨hp, by simp [hg], ?_⟩
      rcases hov with hov | ⟨hov, _⟩ <;> simp [hov]
    · rintro ⟨hp, hs, hnd⟩
      cases hg : tx.db.get k with
      | none => simp [hg] at hs
      | some v0 =>
        rcases Batch.get_cases tx.b k with hb | ⟨v, hb⟩ | hb
        · simp [hb] at hnd
        · exact ⟨(k, v), (hm1 k v).mpr ⟨hp, v0, hg, Or.inl hb⟩, rfl⟩
        · exact ⟨(k, v0), (hm1 k v0).mpr ⟨hp, v0, hg, Or.inr ⟨hb, rfl⟩⟩, rfl⟩
  have hm2 : ∀ k v, (k, v) ∈ part2 ↔
      ip <+: k ∧ tx.b.get k = (some v, false) ∧ tx.db.get k = none := by
    intro k v
    have hc : ((part1.map (·.1)).contains k = false) ↔ ¬ (k ∈ part1.map (·.1)) := by
      rw [← List.contains_iff_mem]; simp
    simp only [part2, List.mem_filter, Batch.mem_netPuts h.batch, Bool.not_eq_true']
    rw [hc, hk1]
    constructor
    · rintro ⟨⟨hp, hb⟩, hn⟩
      refine ⟨hp, hb, ?_⟩
      cases hg : tx.db.get k with
      | none => rfl
      | some v0 => exact absurd ⟨hp, by simp [hg], by simp [hb]⟩ hn
    · rintro ⟨hp, hb, hg⟩
      exact ⟨⟨hp, hb⟩, by simp [hg]⟩
  have hnd : (part1 ++ part2).Nodup := by
    rw [List.nodup_append]
    refine ⟨SMap.Sorted.nodup h1s, SMap.Sorted.nodup h2s, ?_⟩
    rintro ⟨k, v⟩ h1 ⟨k', v'⟩ h2 heq
    cases heq
    obtain ⟨_, v0, hg, _⟩ := (hm1 k v).mp h1
    obtain ⟨_, _, hg'⟩ := (hm2 k v).mp h2
    rw [hg] at hg'; cases hg'
  have hnd2 : (tx.commit.scan ip).Nodup := SMap.Sorted.nodup (SMap.range_sorted hcs _ _)
  rw [List.perm_ext_iff_of_nodup hnd hnd2]
  rintro ⟨k, v⟩
  rw [List.mem_append, hm1, hm2, mem_scan, SMap.Sorted.mem_iff_get hcs, Tx.commit_get h]
  simp only [hw, Bool.false_eq_true, if_false, view]
  constructor
  · rintro (⟨hp, v0, hg, hov⟩ | ⟨hp, hb, hg⟩)
    · rcases hov with hb | ⟨hb, rfl⟩
      · simp [hb, hp]
      · simp [hb, hp, hg]
    · simp [hb, hp]
  · rintro ⟨hv, hp⟩
    rcases Batch.get_cases tx.b k with hb | ⟨v', hb⟩ | hb
    · simp [hb] at hv
    · simp [hb] at hv; subst hv
      cases hg : tx.db.get k with
      | none => exact Or.inr ⟨hp, hb, rfl⟩
      | some v0 => exact Or.inl ⟨hp, v0, rfl, Or.inl hb⟩
    · simp [hb] at hv
      exact Or.inl ⟨hp, v, hv, Or.inr ⟨hb, rfl⟩⟩

/-- `getByPrefix_ryw`: inside a write transaction GetByPrefix returns, each entry once, exactly
    the entries a read-only transaction finds in the store `apply committed batch` -/
theorem Bucket.getByPrefix_ryw {tx : Tx} (h : tx.Inv) (b : Bucket) (pfx : Bytes) :
    (b.getByPrefix tx pfx).Perm (b.getByPrefix tx.roView pfx) := by
  by_cases hr : tx.readOnly = true
  · -- a read transaction: both sides are the same scan
    have : tx.roView.commit = tx.db := by simp [Tx.roView, Tx.commit, hr]
    unfold Bucket.getByPrefix
    simp only [hr, if_true, Tx.overlayEntries_ro hr, List.append_nil]
    have hr' : tx.roView.readOnly = true := rfl
    simp only [hr', if_true, Tx.overlayEntries_ro hr', List.append_nil]
    have : tx.roView.db = tx.db := by simp [Tx.roView, Tx.commit, hr]
    rw [this]
  · have hw : tx.readOnly = false := by simpa using hr
    have hp := Tx.scan_parts_perm h hw (b.path ++ sep :: pfx)
    unfold Bucket.getByPrefix
    have hr' : tx.roView.readOnly = true := rfl
    simp only [hw, Bool.false_eq_true, if_false, hr', if_true, Tx.overlayEntries_ro hr', List.append_nil]
    exact List.Perm.map _ hp

end MW.Model.KV
