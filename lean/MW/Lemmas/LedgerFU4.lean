/-
  ADDRESS RECORDS = FIRST-USE HEIGHTS, part 4: HISTORIES.

  The invariant `JI` of the histories with address issuance (LedgerIssue2.lean), with the address clause for
  the same stored chain (`JIA`); every event keeps it (`JIA_run`), hence
    addr_correct_issue     after ANY history (extend / reorganise / handle in any order, addresses issued along
                           the way), no notification pending: every address record is the first-use height of its
                           key on the node's best chain
    addr_consistent_issue  at ANY point: … of the chain the store holds
  and the used flag (`used_iff`): records > 0 ⇔ `Spec.Chain.addrUsed`.
-/
import MW.Lemmas.LedgerIssue2
import MW.Lemmas.LedgerFU3
namespace MW.Lemmas.LedgerFU
open MW MW.Model.Ledger MW.Spec.Chain MW.Spec.Books MW.Lemmas.Ledger

-- ------------------------------------------------------------------ 1. small facts

/-- the address clause reads the context only through the keystore view -/
theorem addrInv_ctx_irrel {c c' : Ctx} {s : Store} {S : List Block} (ho : c.own = c'.own) :
    AddrInv c s S ↔ AddrInv c' s S := by
  unfold AddrInv; rw [ho]

theorem addrInv_env_chain (e : Env) (ch₁ ch₂ : List Block) {s : Store} {S : List Block} :
    AddrInv (e.ctx ch₁) s S ↔ AddrInv (e.ctx ch₂) s S := addrInv_ctx_irrel rfl

/-- a block that pays key (`stk`, `a`) pays `a` -/
theorem blockPays_of_paysKey {stk : Bool} {a : Addr} {b : Block} (h : paysKey stk a b = true) :
    b.txs.any (fun t => t.outs.any (fun o => o.addr = a && o.cls ≠ .raw)) = true := by
  unfold paysKey txPays outPays at h
  simp only [List.any_eq_true, Bool.and_eq_true, decide_eq_true_eq, beq_iff_eq] at h ⊢
  obtain ⟨t, ht, o, ho, ⟨h1, h2⟩, _⟩ := h
  exact ⟨t, ht, o, ho, h1, h2⟩

theorem paysKey_of_blockPays {a : Addr} {b : Block}
    (h : b.txs.any (fun t => t.outs.any (fun o => o.addr = a && o.cls ≠ .raw)) = true) :
    paysKey false a b = true ∨ paysKey true a b = true := by
  unfold paysKey txPays outPays
  simp only [List.any_eq_true, Bool.and_eq_true, decide_eq_true_eq, beq_iff_eq] at h ⊢
  obtain ⟨t, ht, o, ho, h1, h2⟩ := h
  cases hs : o.cls.isStaking with
  | false => exact Or.inl ⟨t, ht, o, ho, ⟨h1, h2⟩, hs⟩
  | true => exact Or.inr ⟨t, ht, o, ho, ⟨h1, h2⟩, hs⟩

/-- a chain that does not pay `a` has no first use of `a` -/
theorem firstUse_of_not_used {S : List Block} {a : Addr} (h : addrUsed S a = false) (stk : Bool) :
    firstUse S stk a = 0 := by
  by_cases hne : firstUse S stk a = 0
  · exact hne
  exfalso
  have hpos : 0 < firstUse S stk a := Nat.pos_of_ne_zero hne
  rw [firstUse_pos_iff, List.any_eq_true] at hpos
  obtain ⟨b, hb, hp⟩ := hpos
  have : addrUsed S a = true := by
    unfold addrUsed
    rw [List.any_eq_true]
    exact ⟨b, List.mem_of_mem_drop hb, blockPays_of_paysKey hp⟩
  rw [h] at this; cases this

/-- THE USED FLAG: above the genesis block, some record of the address is positive iff the chain pays it -/
theorem firstUse_pos_iff_used (S : List Block) (a : Addr) :
    (0 < firstUse S false a ∨ 0 < firstUse S true a) ↔ addrUsed (S.drop 1) a = true := by
  rw [firstUse_pos_iff, firstUse_pos_iff]
  unfold addrUsed
  rw [List.any_eq_true, List.any_eq_true, List.any_eq_true]
  constructor
  · rintro (⟨b, hb, hp⟩ | ⟨b, hb, hp⟩)
    · exact ⟨b, hb, blockPays_of_paysKey hp⟩
    · exact ⟨b, hb, blockPays_of_paysKey hp⟩
  · rintro ⟨b, hb, hp⟩
    rcases paysKey_of_blockPays hp with h | h
    · exact Or.inl ⟨b, hb, h⟩
    · exact Or.inr ⟨b, hb, h⟩

theorem addrUsed_split (S : List Block) (a : Addr) :
    addrUsed S a = (addrUsed (S.take 1) a || addrUsed (S.drop 1) a) := by
  rw [← addrUsed_append, List.take_append_drop]

/-- issuing an address the stored chain does not pay keeps the address clause (for the larger keystore view) -/
theorem addrInv_put_own {c : Ctx} {s : Store} {S : List Block} {a : Addr} {w : Wid} {ch : Bool}
    (hu : addrUsed S a = false) (hA : AddrInv c s S) :
    AddrInv { c with own := AMap.put c.own a (w, ch) } s S := by
  intro k
  rw [hA k]
  unfold recOf ownsB
  simp only
  rw [AMap.get_put]
  by_cases ha : a = k.2.2
  · simp only [ha, if_true]
    rw [← ha, firstUse_of_not_used hu]
    simp
  · simp only [ha, if_false]

/-- a store without address records satisfies the clause for the genesis block -/
theorem addrInv_genesis {c : Ctx} {s : Store} {G : Block} (h : ∀ k, gA s k = 0) : AddrInv c s [G] := by
  intro k
  rw [h k]
  unfold recOf
  rw [firstUse_singleton]
  simp

-- ------------------------------------------------------------------ 2. one handler step

theorem processM_of_true {c : Ctx} {s s' : Store} {v v' : Vol} {b : Block}
    (h : processBlock c s v b = (s', v', true)) : ∃ rolled added, processM c s v b = .ok (s', rolled, added) := by
  cases hr : processM c s v b with
  | error e =>
    rw [processBlock_of_error hr] at h
    simp only [Prod.mk.injEq] at h
    exact absurd h.2.2 (by simp)
  | ok r =>
    obtain ⟨s2, rolled, added⟩ := r
    obtain ⟨v2, h2, _⟩ := processBlock_of_ok hr
    rw [h2] at h
    simp only [Prod.mk.injEq] at h
    exact ⟨rolled, added, by rw [h.1]⟩

/-- a handler step on a non-empty queue keeps `JS` together with the address clause -/
theorem JSA_handle {e : Env} {G : Block} (E : EnvHyp e G) {w : World} {S : List Block} {b : Block}
    {q : List Block} (hJ : JS e G w S) (hA : AddrInv (e.ctx w.chain) w.s S) (hN : ChainOK e G w.chain)
    (hqueue : w.queue = b :: q) :
    ∃ S', JS e G (stepW e w .handle) S' ∧ AddrInv (e.ctx (stepW e w .handle).chain) (stepW e w .handle).s S' ∧
      (S' <+: S ∨ S' <+: w.chain) ∧
      ∀ ws, readyWallets (stepW e w .handle).s ws = readyWallets w.s ws := by
  rw [stepW_handle_cons hqueue]
  obtain ⟨hI, hv, hS, hAR, hne, hq, hq0, hq1⟩ := hJ
  have H := reorgHyp_of hN hS
  have hbk : AMap.get e.known b.id = some b := hq b (by rw [hqueue]; exact List.mem_cons_self)
  have hgen := hgen_of E hS hbk
  have hqk : ∀ x ∈ q, AMap.get e.known x.id = some x :=
    fun x hx => hq x (by rw [hqueue]; exact List.mem_cons_of_mem _ hx)
  have hlastN : (b :: q).getLast? = w.chain.getLast? := by
    rw [← hqueue]; exact hq1 (by rw [hqueue]; simp)
  have hinj : IdInj (b :: (S ++ (e.ctx w.chain).node.chain)) :=
    idInj_of_known (known := e.known) (fun x hx => by
      rcases List.mem_cons.1 hx with h | h
      · rw [h]; exact hbk
      · rcases List.mem_append.1 h with h | h
        · exact hS.known x h
        · exact hN.known x h)
  have hq0' : q = [] → ∃ hb : w.chain[b.height]? = some b, w.chain.take (b.height + 1) = w.chain := by
    intro hqe
    subst hqe
    rw [List.getLast?_singleton] at hlastN
    obtain ⟨hb, hlen⟩ := hN.good.getLast_at hlastN.symm
    exact ⟨hb, by rw [hlen, List.take_length]⟩
  have hlastq : q ≠ [] → q.getLast? = w.chain.getLast? := by
    intro hqe
    rw [← hlastN]
    cases q with
    | nil => exact absurd rfl hqe
    | cons a t => rw [List.getLast?_cons_cons]
  by_cases hb : (e.ctx w.chain).node.chain[b.height]? = some b
  · -- the block is on the node's chain: the step succeeds and reaches it
    obtain ⟨s', v', h1, h2, _, h4, h5⟩ := processBlock_reaches H (v := w.v) hI hb hv hgen hAR hne
    obtain ⟨rolled, added, hM⟩ := processM_of_true h1
    have hA' := (processM_addr H hinj hI hA hv hgen hAR hne hM).1 hb
    rw [h1]
    have hAR' : AllReady e.own (readyWallets s' e.wallets) := by rw [h5]; exact hAR
    have hne' : (readyWallets s' e.wallets).isEmpty = false := by rw [h5]; exact hne
    refine ⟨w.chain.take (b.height + 1), ⟨h2, h4, hN.take _, hAR', hne', hqk, ?_, ?_⟩, hA',
      Or.inr (List.take_prefix _ _), h5⟩
    · intro hqe
      exact (hq0' hqe).2
    · intro hqe
      exact hlastq hqe
  · -- a stale block
    have hqe : q ≠ [] := fun hqe => hb (hq0' hqe).1
    obtain ⟨s', v', ok, h1, hcase⟩ := processBlock_total H (v := w.v) hinj hI hv hgen hAR hne
    rw [h1]
    rcases hcase with ⟨_, rfl, rfl⟩ | ⟨hok, hvb, hr, hcase⟩
    · exact ⟨S, ⟨hI, hv, hS, hAR, hne, hqk, fun h => absurd h hqe, fun _ => hlastq hqe⟩, hA,
        Or.inl (List.prefix_refl _), fun _ => rfl⟩
    · subst hok
      have hAR' : AllReady e.own (readyWallets s' e.wallets) := by rw [hr]; exact hAR
      have hne' : (readyWallets s' e.wallets).isEmpty = false := by rw [hr]; exact hne
      obtain ⟨rolled, added, hM⟩ := processM_of_true h1
      have hA' := (processM_addr H hinj hI hA hv hgen hAR hne hM).2 hb
      rcases hcase with ⟨hb', _⟩ | ⟨hb', hI'⟩
      · exact absurd hb' hb
      · exact ⟨_, ⟨hI', by rw [hvb]; exact (tipMeta_take hS.good hb').symm, hS.take _, hAR', hne', hqk,
          fun h => absurd h hqe, fun _ => hlastq hqe⟩, hA', Or.inl (List.take_prefix _ _), hr⟩

/-- EVERY NODE / HANDLER EVENT keeps `JS` and the address clause (`JS_step` with the clause) -/
theorem JSA_step {e : Env} {G : Block} (E : EnvHyp e G) {w : World} {S : List Block} (ev : Ev)
    (hJ : JS e G w S) (hA : AddrInv (e.ctx w.chain) w.s S) (hN : ChainOK e G w.chain)
    (hN' : ChainOK e G (stepW e w ev).chain) (hev : EvOK ev) :
    ∃ S', JS e G (stepW e w ev) S' ∧ AddrInv (e.ctx (stepW e w ev).chain) (stepW e w ev).s S' ∧
      (S' <+: S ∨ S' <+: w.chain) ∧
      ∀ ws, readyWallets (stepW e w ev).s ws = readyWallets w.s ws := by
  cases ev with
  | extend b =>
    exact ⟨S, JS_node (bs := [b]) hJ hN' (by simp) (fun x hx => by
      rw [List.mem_singleton.1 hx]; exact List.mem_append_right _ List.mem_cons_self)
      (by show (w.chain ++ [b]).getLast? = _; simp), (addrInv_env_chain e _ _).1 hA,
      Or.inl (List.prefix_refl _), fun _ => rfl⟩
  | reorgTo k bs =>
    have hbs : bs ≠ [] := hev
    exact ⟨S, JS_node (bs := bs) hJ hN' hbs (fun x hx => List.mem_append_right _ hx)
      (by show (w.chain.take (w.chain.length - k) ++ bs).getLast? = _
          rw [getLast?_append_ne hbs]), (addrInv_env_chain e _ _).1 hA,
      Or.inl (List.prefix_refl _), fun _ => rfl⟩
  | handle =>
    cases hq : w.queue with
    | nil =>
      have : stepW e w .handle = w := by simp only [stepW, hq]
      rw [this]; exact ⟨S, hJ, hA, Or.inl (List.prefix_refl _), fun _ => rfl⟩
    | cons b q => exact JSA_handle E hJ hA hN hq

-- ------------------------------------------------------------------ 3. histories with address issuance

/-- `JI` with the address clause for the same stored chain -/
def JIA (e : Env) (G : Block) (x0 x : WorldI) (hist : List (List Block)) : Prop :=
  ∃ S, JS { e with own := x.own } G x.w S ∧ AddrInv ({ e with own := x.own }.ctx x.w.chain) x.w.s S ∧
    (∃ c ∈ hist, S <+: c) ∧ ChainOK { e with own := x.own } G x.w.chain ∧
    ∀ ws, readyWallets x.w.s ws = readyWallets x0.w.s ws

theorem JIA.toJI {e : Env} {G : Block} {x0 x : WorldI} {hist : List (List Block)} (h : JIA e G x0 x hist) :
    JI e G x0 x hist :=
  let ⟨S, h1, _, h3, h4, h5⟩ := h
  ⟨S, h1, h3, h4, h5⟩

theorem JIA_init {e : Env} {G : Block} {x0 : WorldI} {evs : List EvI} (H : RunHypI e G x0 evs)
    (h0 : Inv ({ e with own := x0.own }.ctx x0.w.chain) x0.w.s x0.w.chain)
    (hA0 : AddrInv ({ e with own := x0.own }.ctx x0.w.chain) x0.w.s x0.w.chain)
    (hv0 : x0.w.v.best = tipMeta x0.w.chain) (hq0 : x0.w.queue = []) :
    JIA e G x0 x0 [x0.w.chain] :=
  ⟨x0.w.chain, ⟨h0, hv0, H.chain0, H.ready, H.readyNe, fun b hb => (by rw [hq0] at hb; cases hb),
    fun _ => rfl, fun h => absurd hq0 h⟩, hA0, ⟨_, List.mem_singleton.2 rfl, List.prefix_refl _⟩, H.chain0,
    fun _ => rfl⟩

theorem JIA_node {e : Env} {G : Block} {x0 x : WorldI} {hist : List (List Block)}
    (E : EnvHyp { e with own := x.own } G) (ev : Ev) (hJ : JIA e G x0 x hist) (hcur : x.w.chain ∈ hist)
    (hN' : ChainOK { e with own := x.own } G (stepI e x (.node ev)).w.chain) (hev : EvOK ev) :
    JIA e G x0 (stepI e x (.node ev)) (hist ++ [(stepI e x (.node ev)).w.chain]) := by
  obtain ⟨S, hJS, hA, ⟨c, hc, hSc⟩, hN, hr⟩ := hJ
  obtain ⟨S', hJS', hA', hpre, hr'⟩ := JSA_step E ev hJS hA hN hN' hev
  refine ⟨S', hJS', hA', ?_, hN', fun ws => (hr' ws).trans (hr ws)⟩
  rcases hpre with h | h
  · exact ⟨c, List.mem_append_left _ hc, h.trans hSc⟩
  · exact ⟨_, List.mem_append_left _ hcur, h⟩

theorem JIA_issue {e : Env} {G : Block} {x0 x : WorldI} {hist : List (List Block)} {a : Addr} {w : Wid}
    {ch : Bool} (hJ : JIA e G x0 x hist) (hcur : x.w.chain ∈ hist)
    (hpaid : ∀ c ∈ hist, addrUsed c a = false)
    (hw : (readyWallets x0.w.s e.wallets).contains w = true) :
    JIA e G x0 (stepI e x (.issue a w ch)) (hist ++ [(stepI e x (.issue a w ch)).w.chain]) := by
  obtain ⟨S, hJS, hA, ⟨c, hc, hSc⟩, hN, hr⟩ := hJ
  have huS : addrUsed S a = false := addrUsed_prefix hSc (hpaid c hc)
  have huN : addrUsed x.w.chain a = false := hpaid _ hcur
  have hw' : (readyWallets x.w.s e.wallets).contains w = true := by rw [hr]; exact hw
  exact ⟨S, JS_issue (e := { e with own := x.own }) hJS huS hw',
    addrInv_put_own (c := { e with own := x.own }.ctx x.w.chain) huS hA,
    ⟨c, List.mem_append_left _ hc, hSc⟩,
    ChainOK.put_own (e := { e with own := x.own }) hN huN, hr⟩

theorem JIA_run {e : Env} {G : Block} {x0 : WorldI} {evs : List EvI} (H : RunHypI e G x0 evs)
    (h0 : Inv ({ e with own := x0.own }.ctx x0.w.chain) x0.w.s x0.w.chain)
    (hA0 : AddrInv ({ e with own := x0.own }.ctx x0.w.chain) x0.w.s x0.w.chain)
    (hv0 : x0.w.v.best = tipMeta x0.w.chain) (hq0 : x0.w.queue = []) :
    ∀ pre, (∃ post, evs = pre ++ post) → JIA e G x0 (runI e x0 pre) (chainsI e x0 pre) := by
  intro pre
  induction pre using list_snoc_induction with
  | nil => intro _; exact JIA_init H h0 hA0 hv0 hq0
  | snoc pre ev ih =>
    rintro ⟨post, heq⟩
    have heq' : evs = pre ++ ev :: post := by rw [heq, List.append_assoc]; rfl
    have hJ := ih ⟨_, heq'⟩
    have hcur := chainsI_cur_mem e x0 pre
    have hmem : ev ∈ evs := by rw [heq']; exact List.mem_append_right _ List.mem_cons_self
    rw [chainsI_snoc, runI_snoc]
    cases ev with
    | node nv =>
      have hN' := H.chains pre nv post heq'
      rw [runI_snoc] at hN'
      exact JIA_node (H.envHyp _) nv hJ hcur hN' (H.reorgNonempty nv hmem)
    | issue a w ch =>
      exact JIA_issue hJ hcur (H.paid pre a w ch post heq') (H.issuer a w ch hmem)

theorem JIA_final {e : Env} {G : Block} {x0 : WorldI} {evs : List EvI} (H : RunHypI e G x0 evs)
    (h0 : Inv ({ e with own := x0.own }.ctx x0.w.chain) x0.w.s x0.w.chain)
    (hA0 : AddrInv ({ e with own := x0.own }.ctx x0.w.chain) x0.w.s x0.w.chain)
    (hv0 : x0.w.v.best = tipMeta x0.w.chain) (hq0 : x0.w.queue = []) :
    JIA e G x0 (runI e x0 evs) (chainsI e x0 evs) :=
  JIA_run H h0 hA0 hv0 hq0 evs ⟨[], (List.append_nil _).symm⟩

/-- ADDRESS RECORDS OVER HISTORIES WITH ISSUANCE. For EVERY finite history of node events (extend, reorganise
    to any branch), handler steps and address issuances in any order (hypotheses `RunHypI` of
    `ledger_correct_issue`), started from a wallet in sync whose address records are first-use heights: if no
    notification is pending at the end, EVERY address record of the store is the first-use height of its key on
    the node's best chain (for the final keystore view) – and the ledger invariant holds. -/
theorem addr_correct_issue (e : Env) (G : Block) (x0 : WorldI) (evs : List EvI) (H : RunHypI e G x0 evs)
    (h0 : Inv ({ e with own := x0.own }.ctx x0.w.chain) x0.w.s x0.w.chain)
    (hA0 : AddrInv ({ e with own := x0.own }.ctx x0.w.chain) x0.w.s x0.w.chain)
    (hv0 : x0.w.v.best = tipMeta x0.w.chain) (hq0 : x0.w.queue = []) :
    (runI e x0 evs).w.queue = [] →
      Inv ({ e with own := (runI e x0 evs).own }.ctx (runI e x0 evs).w.chain) (runI e x0 evs).w.s
          (runI e x0 evs).w.chain ∧
      AddrInv ({ e with own := (runI e x0 evs).own }.ctx (runI e x0 evs).w.chain) (runI e x0 evs).w.s
          (runI e x0 evs).w.chain := by
  intro hq
  obtain ⟨S, ⟨hI, _, _, _, _, _, hS, _⟩, hA, _, _, _⟩ := JIA_final H h0 hA0 hv0 hq0
  have := hS hq
  subst this
  exact ⟨hI, hA⟩

/-- at ANY point of the history (notifications may be pending) the store holds books AND first-use heights of
    one and the same chain `S`: a well-formed valid chain from genesis, a prefix of a chain the node has had,
    whose tip is the follower's tip -/
theorem addr_consistent_issue (e : Env) (G : Block) (x0 : WorldI) (evs : List EvI) (H : RunHypI e G x0 evs)
    (h0 : Inv ({ e with own := x0.own }.ctx x0.w.chain) x0.w.s x0.w.chain)
    (hA0 : AddrInv ({ e with own := x0.own }.ctx x0.w.chain) x0.w.s x0.w.chain)
    (hv0 : x0.w.v.best = tipMeta x0.w.chain) (hq0 : x0.w.queue = []) :
    ∃ S, Inv ({ e with own := (runI e x0 evs).own }.ctx (runI e x0 evs).w.chain) (runI e x0 evs).w.s S ∧
      AddrInv ({ e with own := (runI e x0 evs).own }.ctx (runI e x0 evs).w.chain) (runI e x0 evs).w.s S ∧
      (runI e x0 evs).w.v.best = tipMeta S ∧ ChainOK { e with own := (runI e x0 evs).own } G S ∧
      (∃ c ∈ chainsI e x0 evs, S <+: c) := by
  obtain ⟨S, ⟨hI, hv, hS, _⟩, hA, hp, _, _⟩ := JIA_final H h0 hA0 hv0 hq0
  exact ⟨S, hI, hA, hv, hS, hp⟩

-- ------------------------------------------------------------------ 4. the used flag

/-- THE USED FLAG of an owned address, from the address clause: the standard-form entry is listed as used
    (its own record or the staking-form record positive – wallet.go GetAddresses / `Drv.Led.addrFlag`) iff the
    chain pays the script hash in any recognised form; the staking-form record is positive iff the chain pays
    it in staking form. `hG`: the genesis block does not pay the address. -/
theorem used_iff {c : Ctx} {s : Store} {S : List Block} (hA : AddrInv c s S) {a : Addr} {w : Wid} {ch : Bool}
    (ho : AMap.get c.own a = some (w, ch)) (hG : addrUsed (S.take 1) a = false) :
    (decide (0 < gA s (w, false, a) ∨ 0 < gA s (w, true, a)) = addrUsed S a) ∧
    (decide (0 < gA s (w, true, a)) = (S.drop 1).any (paysKey true a)) := by
  have hown : ownsB c.own w a = true := by unfold ownsB; simp [ho]
  have e1 : gA s (w, false, a) = firstUse S false a := by rw [hA]; unfold recOf; simp [hown]
  have e2 : gA s (w, true, a) = firstUse S true a := by rw [hA]; unfold recOf; simp [hown]
  rw [e1, e2]
  constructor
  · rw [addrUsed_split, hG, Bool.false_or]
    have := firstUse_pos_iff_used S a
    by_cases hu : addrUsed (S.drop 1) a = true
    · rw [hu]; exact decide_eq_true (this.2 hu)
    · have hu' : addrUsed (S.drop 1) a = false := by simpa using hu
      rw [hu']; exact decide_eq_false (fun h => hu (this.1 h))
  · have := firstUse_pos_iff S true a
    by_cases hu : (S.drop 1).any (paysKey true a) = true
    · rw [hu]; exact decide_eq_true (this.2 hu)
    · have hu' : (S.drop 1).any (paysKey true a) = false := by simpa using hu
      rw [hu']; exact decide_eq_false (fun h => hu (this.1 h))

-- ------------------------------------------------------------------ 5. corollaries

/-- the fixed-keystore histories of `ledger_correct` (no issuance) are a special case -/
theorem addr_correct (e : Env) (G : Block) (w0 : World) (evs : List Ev) (H : RunHyp e G w0 evs)
    (h0 : Inv (e.ctx w0.chain) w0.s w0.chain) (hA0 : AddrInv (e.ctx w0.chain) w0.s w0.chain)
    (hv0 : w0.v.best = tipMeta w0.chain) (hq0 : w0.queue = []) :
    (runW e w0 evs).queue = [] → AddrInv (e.ctx (runW e w0 evs).chain) (runW e w0 evs).s (runW e w0 evs).chain := by
  intro hq
  have h := addr_correct_issue e G ⟨e.own, w0⟩ (evs.map .node) H.toRunHypI h0 hA0 hv0 hq0
  rw [runI_map_node] at h
  exact (h hq).2

/-- THE USED FLAG AFTER ANY HISTORY (hypotheses of `ledger_correct_issue` + initial address clause): once no
    notification is pending, for every address the final keystore view gives to a wallet, the listed flag
    (standard-form record or staking-form record positive) is `Spec.Chain.addrUsed` of the node's best chain, and
    the staking-form record is positive iff a block above the genesis pays the address in staking form.
    `hG`: the genesis block does not pay the address. -/
theorem used_flag_issue (e : Env) (G : Block) (x0 : WorldI) (evs : List EvI) (H : RunHypI e G x0 evs)
    (h0 : Inv ({ e with own := x0.own }.ctx x0.w.chain) x0.w.s x0.w.chain)
    (hA0 : AddrInv ({ e with own := x0.own }.ctx x0.w.chain) x0.w.s x0.w.chain)
    (hv0 : x0.w.v.best = tipMeta x0.w.chain) (hq0 : x0.w.queue = [])
    (hq : (runI e x0 evs).w.queue = [])
    {a : Addr} {w : Wid} {ch : Bool} (ho : AMap.get (runI e x0 evs).own a = some (w, ch))
    (hG : addrUsed [G] a = false) :
    (decide (0 < gA (runI e x0 evs).w.s (w, false, a) ∨ 0 < gA (runI e x0 evs).w.s (w, true, a)) =
        addrUsed (runI e x0 evs).w.chain a) ∧
    (decide (0 < gA (runI e x0 evs).w.s (w, true, a)) =
        ((runI e x0 evs).w.chain.drop 1).any (paysKey true a)) := by
  obtain ⟨S, ⟨_, _, _, _, _, _, hS, _⟩, hA, _, hN, _⟩ := JIA_final H h0 hA0 hv0 hq0
  have := hS hq
  subst this
  have hlen := hN.good.length_pos
  have hg : (runI e x0 evs).w.chain[0]? = some G := hN.genesis
  have ht : (runI e x0 evs).w.chain.take 1 = [G] := by
    rw [take_succ_of_get hg]; simp
  exact used_iff hA (c := { e with own := (runI e x0 evs).own }.ctx (runI e x0 evs).w.chain) ho (by rw [ht]; exact hG)

/-- for an address ISSUED during the history the genesis hypothesis follows from `RunHypI.paid` -/
theorem genesis_not_paid_of_issued {e : Env} {G : Block} {x0 : WorldI} {evs : List EvI} (H : RunHypI e G x0 evs)
    {a : Addr} {w : Wid} {ch : Bool} (hi : .issue a w ch ∈ evs) : addrUsed [G] a = false := by
  obtain ⟨pre, post, heq⟩ := List.append_of_mem hi
  have hp := H.paid pre a w ch post heq x0.w.chain (by
    cases pre with
    | nil => exact List.mem_singleton.2 rfl
    | cons x xs => exact List.mem_cons_self)
  have hg : x0.w.chain[0]? = some G := H.chain0.genesis
  have ht : x0.w.chain.take 1 = [G] := by rw [take_succ_of_get hg]; simp
  rw [← ht]
  exact addrUsed_take 1 hp

end MW.Lemmas.LedgerFU
