/-
  Lemmas for the CLI amount reader (C15 round 6): token stripping is sound and complete for prefix-free token
  sets, Go's white-space tokens are prefix- and suffix-free, and both the model `Model.Amount.cliParse` and the
  scanner `Spec.Amount.cliParse` accept exactly `Spec.Amount.Accepts`.
-/
import MW.Model.AmountCli
import MW.Spec.AmountCli
import MW.Lemmas.AmountParse
namespace MW.Spec.Amount
open MW MW.Dec MW.Space

/-! ### concatenations of tokens -/

theorem Cat.append {ts : List Bytes} {a b : Bytes} (ha : Cat ts a) (hb : Cat ts b) : Cat ts (a ++ b) := by
  induction ha with
  | nil => simpa using hb
  | cons ht _ ih => rw [List.append_assoc]; exact .cons ht ih

theorem Cat.single {ts : List Bytes} {t : Bytes} (ht : t ∈ ts) : Cat ts t := by
  have : Cat ts (t ++ []) := .cons ht .nil
  simpa using this

theorem Cat.reverse {ts : List Bytes} {w : Bytes} (h : Cat ts w) : Cat (ts.map List.reverse) w.reverse := by
  induction h with
  | nil => exact .nil
  | @cons t w ht _ ih =>
    rw [List.reverse_append]
    exact ih.append (Cat.single (List.mem_map.mpr ⟨t, ht, rfl⟩))

/-- every token is non-empty and its first byte does not satisfy `P` -/
def headsOK (P : UInt8 → Bool) (ts : List Bytes) : Bool :=
  ts.all fun t => match t with | [] => false | c :: _ => !P c

def HeadsOK (P : UInt8 → Bool) (ts : List Bytes) : Prop :=
  ∀ t ∈ ts, match t with | [] => False | c :: _ => P c = false

theorem HeadsOK.of_bool {P ts} (h : headsOK P ts = true) : HeadsOK P ts := by
  intro t ht
  have := List.all_eq_true.mp h t ht
  cases t with
  | nil => simp at this
  | cons c t' => simpa using this

theorem HeadsOK.noPrefix {P ts} (h : HeadsOK P ts) {b : UInt8} (hb : P b = true) (r : Bytes) :
    ∀ t ∈ ts, t.isPrefixOf (b :: r) = false := by
  intro t ht
  have := h t ht
  cases t with
  | nil => exact this.elim
  | cons c t' =>
    have hne : c ≠ b := by intro e; subst e; simp [hb] at this
    simp [List.isPrefixOf, hne]

theorem HeadsOK.noPrefix_nil {P ts} (h : HeadsOK P ts) : ∀ t ∈ ts, t.isPrefixOf ([] : Bytes) = false := by
  intro t ht
  have := h t ht
  cases t with
  | nil => exact this.elim
  | cons c t' => rfl

theorem HeadsOK.ne_nil {P ts} (h : HeadsOK P ts) : ∀ t ∈ ts, t ≠ [] := by
  intro t ht e
  have := h t ht
  subst e; exact this

/-- the first byte of `w ++ y` (w tokens) does not satisfy `P` when that of `y` does not -/
theorem Cat.head_not {P ts} (hh : HeadsOK P ts) {w y : Bytes} (hw : Cat ts w)
    (hy : ∀ b r, y = b :: r → P b = false) : ∀ b r, w ++ y = b :: r → P b = false := by
  cases hw with
  | nil => simpa using hy
  | @cons t w' ht _ =>
    intro b r e
    have := hh t ht
    cases t with
    | nil => exact this.elim
    | cons c t' =>
      simp at e
      rw [← e.1]; exact this

/-! ### stripping -/

theorem stripAux_sound (ts : List Bytes) : ∀ (k : Nat) (s : Bytes), ∃ w, Cat ts w ∧ s = w ++ stripAux ts k s
  | 0, s => ⟨[], .nil, rfl⟩
  | k + 1, s => by
    unfold stripAux
    split
    · rename_i t h
      have hm := List.mem_of_find?_eq_some h
      have hp := List.find?_some (p := fun t : Bytes => t.isPrefixOf s) h
      obtain ⟨w, hw, e⟩ := stripAux_sound ts k (s.drop t.length)
      have hs : s = t ++ s.drop t.length := by
        obtain ⟨r, rfl⟩ := List.isPrefixOf_iff_prefix.mp hp
        simp
      refine ⟨t ++ w, .cons hm hw, ?_⟩
      rw [List.append_assoc, ← e]; exact hs
    · exact ⟨[], .nil, rfl⟩

def PrefixFree (ts : List Bytes) : Prop := ∀ t ∈ ts, ∀ t' ∈ ts, t'.isPrefixOf t = true → t' = t

theorem find_tok {ts : List Bytes} (hpf : PrefixFree ts) {t : Bytes} (ht : t ∈ ts) (r : Bytes) :
    ts.find? (fun t' => t'.isPrefixOf (t ++ r)) = some t := by
  cases h : ts.find? (fun t' => t'.isPrefixOf (t ++ r)) with
  | none =>
    have := List.find?_eq_none.mp h t ht
    simp at this
  | some t' =>
    have hm := List.mem_of_find?_eq_some h
    have hp := List.isPrefixOf_iff_prefix.mp (List.find?_some (p := fun t' : Bytes => t'.isPrefixOf (t ++ r)) h)
    have hp2 : t <+: t ++ r := List.prefix_append t r
    rcases List.prefix_or_prefix_of_prefix hp hp2 with h1 | h1
    · rw [hpf t ht t' hm (List.isPrefixOf_iff_prefix.mpr h1)]
    · rw [hpf t' hm t ht (List.isPrefixOf_iff_prefix.mpr h1)]

theorem stripAux_complete {ts : List Bytes} (hpf : PrefixFree ts) (hne : ∀ t ∈ ts, t ≠ []) {w x : Bytes}
    (hw : Cat ts w) (hx : ∀ t ∈ ts, t.isPrefixOf x = false) :
    ∀ k, (w ++ x).length ≤ k → stripAux ts k (w ++ x) = x := by
  induction hw with
  | nil =>
    intro k _
    cases k with
    | zero => rfl
    | succ k =>
      have : ts.find? (fun t => t.isPrefixOf x) = none :=
        List.find?_eq_none.mpr (fun t ht => by simp [hx t ht])
      simp [stripAux, this]
  | @cons t w' ht _ ih =>
    intro k hk
    have hl : 0 < t.length := List.length_pos_iff.mpr (hne t ht)
    cases k with
    | zero => simp only [List.length_append] at hk; omega
    | succ k =>
      rw [List.append_assoc]
      simp only [stripAux, find_tok hpf ht]
      rw [List.drop_left]
      apply ih
      simp only [List.length_append] at hk ⊢; omega

/-! ### Go's white-space tokens -/

def prefixFree (ts : List Bytes) : Bool := ts.all fun t => ts.all fun t' => !(t'.isPrefixOf t) || t' == t

theorem PrefixFree.of_bool {ts} (h : prefixFree ts = true) : PrefixFree ts := by
  intro t ht t' ht' hp
  have := List.all_eq_true.mp (List.all_eq_true.mp h t ht) t' ht'
  simpa [hp] using this

def numOrM (b : UInt8) : Bool := isNumCh b || b == 77
def numOrS (b : UInt8) : Bool := isNumCh b || b == 83

theorem toks_pf : PrefixFree toks := .of_bool (by decide)
theorem rtoks_pf : PrefixFree rtoks := .of_bool (by decide)
theorem toks_heads : HeadsOK numOrM toks := .of_bool (by decide)
theorem rtoks_heads : HeadsOK numOrS rtoks := .of_bool (by decide)
theorem rtoks_headsS : HeadsOK (· == 83) rtoks := .of_bool (by decide)
theorem toks_headsN : HeadsOK isNumCh toks := .of_bool (by decide)
theorem rtoks_rev : rtoks.map List.reverse = toks := by decide

theorem trimLeft_sound (s : Bytes) : ∃ w, WS w ∧ s = w ++ trimLeft s := stripAux_sound toks _ s

theorem trimRight_sound (s : Bytes) : ∃ w, WS w ∧ s = trimRight s ++ w := by
  obtain ⟨w, hw, e⟩ := stripAux_sound rtoks s.length s.reverse
  refine ⟨w.reverse, ?_, ?_⟩
  · have := hw.reverse
    rwa [rtoks_rev] at this
  · have := congrArg List.reverse e
    simpa [trimRight] using this

theorem trimLeft_append {w x : Bytes} (hw : WS w) (hx : ∀ t ∈ toks, t.isPrefixOf x = false) :
    trimLeft (w ++ x) = x :=
  stripAux_complete toks_pf toks_heads.ne_nil hw hx _ (Nat.le_refl _)

theorem trimRight_append {w x : Bytes} (hw : WS w) (hx : ∀ t ∈ rtoks, t.isPrefixOf x.reverse = false) :
    trimRight (x ++ w) = x := by
  unfold trimRight
  rw [List.reverse_append, stripAux_complete rtoks_pf rtoks_heads.ne_nil hw.reverse hx _ (by simp [Nat.add_comm]),
    List.reverse_reverse]

theorem trimSuffix_spec (s x : Bytes) : trimSuffix s x = s ∨ s = trimSuffix s x ++ x := by
  unfold trimSuffix
  split
  · rename_i h
    obtain ⟨t, rfl⟩ := List.isSuffixOf_iff_suffix.mp h
    right; simp
  · left; rfl

/-! ### numerals -/

theorem numeral_chars {n : Bytes} {v : Nat} (h : parse n = some v) : ∀ b ∈ n, isNumCh b = true := by
  intro b hb
  cases hc : isNumCh b with
  | true => rfl
  | false =>
    simp only [isNumCh, Bool.or_eq_false_iff, beq_eq_false_iff_ne] at hc
    rw [parse_none_of_foreign_byte hb hc.1 hc.2] at h
    cases h

theorem numeral_head {n : Bytes} {v : Nat} (h : parse n = some v) :
    ∃ c n', n = c :: n' ∧ isNumCh c = true := by
  cases n with
  | nil => have h0 : parse ([] : Bytes) = none := by decide
           rw [h0] at h; cases h
  | cons c n' => exact ⟨c, n', rfl, numeral_chars h c (by simp)⟩

theorem numeral_last {n : Bytes} {v : Nat} (h : parse n = some v) :
    ∃ c n', n.reverse = c :: n' ∧ isNumCh c = true := by
  cases hr : n.reverse with
  | nil =>
    have : n = [] := by simpa using hr
    subst this
    have h0 : parse ([] : Bytes) = none := by decide
    rw [h0] at h; cases h
  | cons c n' =>
    refine ⟨c, n', rfl, numeral_chars h c ?_⟩
    have : c ∈ n.reverse := by rw [hr]; simp
    simpa using this

theorem numOrM_of {c : UInt8} (h : isNumCh c = true) : numOrM c = true := by simp [numOrM, h]
theorem numOrS_of {c : UInt8} (h : isNumCh c = true) : numOrS c = true := by simp [numOrS, h]

/-! ### the model accepts exactly `Accepts` -/

theorem model_parse_ok_iff (s : Bytes) (v : Nat) : Model.Amount.parse s = .ok v ↔ parse s = some v := by
  rw [← Model.Amount.parse_toOption]
  cases Model.Amount.parse s with
  | ok a => simp [Except.toOption]
  | error e => simp [Except.toOption]

theorem cli_sound {s : Bytes} {v : Nat} (h : Model.Amount.cliParse s = .ok v) : Accepts s v := by
  unfold Model.Amount.cliParse at h
  simp only [trimSpace] at h
  obtain ⟨w1, hw1, e1⟩ := trimLeft_sound (trimSuffix s Model.Amount.massSfx)
  obtain ⟨w2, hw2, e2⟩ := trimRight_sound (trimLeft (trimSuffix s Model.Amount.massSfx))
  have hv := (model_parse_ok_iff _ _).mp h
  rcases trimSuffix_spec s Model.Amount.massSfx with e | e
  · refine ⟨w1, _, w2, [], ?_, hw1, hw2, Or.inl rfl, hv⟩
    rw [List.append_nil, List.append_assoc, ← e2, ← e1, e]
  · refine ⟨w1, _, w2, massSfx, ?_, hw1, hw2, Or.inr rfl, hv⟩
    rw [List.append_assoc w1, ← e2, ← e1]; exact e

theorem cli_complete {s : Bytes} {v : Nat} (h : Accepts s v) : Model.Amount.cliParse s = .ok v := by
  obtain ⟨w1, n, w2, u, rfl, hw1, hw2, hu, hv⟩ := h
  obtain ⟨c, n', hn, hc⟩ := numeral_head hv
  obtain ⟨d, m', hm, hd⟩ := numeral_last hv
  have hts : trimSuffix (w1 ++ n ++ w2 ++ u) Model.Amount.massSfx = w1 ++ n ++ w2 := by
    rcases hu with rfl | rfl
    · unfold trimSuffix
      rw [if_neg, List.append_nil]
      intro hs
      have hp : List.isPrefixOf [83, 83, 65, 77] (w2.reverse ++ (n.reverse ++ w1.reverse)) = true := by
        have := hs
        rw [List.isSuffixOf] at this
        simpa [Model.Amount.massSfx, List.append_assoc] using this
      cases hx : w2.reverse ++ (n.reverse ++ w1.reverse) with
      | nil => rw [hx] at hp; simp [List.isPrefixOf] at hp
      | cons b r =>
        have hd83 : (d == 83) = false := by
          rw [beq_eq_false_iff_ne]; intro e; subst e; exact absurd hd (by decide)
        have hb := Cat.head_not rtoks_headsS hw2.reverse (y := n.reverse ++ w1.reverse)
          (by intro b r e; rw [hm] at e; simp at e; rw [← e.1]; exact hd83) b r hx
        rw [hx] at hp
        simp [List.isPrefixOf] at hp
        rw [hp.1] at hb; simp at hb
    · unfold trimSuffix
      have : Model.Amount.massSfx.isSuffixOf (w1 ++ n ++ w2 ++ massSfx) = true :=
        List.isSuffixOf_iff_suffix.mpr ⟨_, rfl⟩
      rw [if_pos this]
      exact List.take_left' (by simp [Model.Amount.massSfx, massSfx]; omega)
  unfold Model.Amount.cliParse
  simp only [hts, trimSpace]
  have hL : trimLeft (w1 ++ n ++ w2) = n ++ w2 := by
    rw [List.append_assoc]
    apply trimLeft_append hw1
    rw [hn]; exact toks_heads.noPrefix (numOrM_of hc) _
  rw [hL, trimRight_append hw2 (by rw [hm]; exact rtoks_heads.noPrefix (numOrS_of hd) _)]
  exact (model_parse_ok_iff _ _).mpr hv

/-! ### the scanner accepts exactly `Accepts` -/

theorem scan_sound {s : Bytes} {v : Nat} (h : cliParse s = some v) : Accepts s v := by
  unfold cliParse at h
  simp only at h
  split at h
  · rename_i hr
    obtain ⟨w1, hw1, e1⟩ := trimLeft_sound s
    obtain ⟨w2, hw2, e2⟩ := trimLeft_sound ((trimLeft s).dropWhile isNumCh)
    refine ⟨w1, _, w2, _, ?_, hw1, hw2, hr, h⟩
    rw [List.append_assoc, List.append_assoc, ← e2, List.takeWhile_append_dropWhile]; exact e1
  · cases h

theorem scan_complete {s : Bytes} {v : Nat} (h : Accepts s v) : cliParse s = some v := by
  obtain ⟨w1, n, w2, u, rfl, hw1, hw2, hu, hv⟩ := h
  obtain ⟨c, n', hn, hc⟩ := numeral_head hv
  have hu' : ∀ b r, u = b :: r → isNumCh b = false := by
    intro b r e
    rcases hu with rfl | rfl
    · cases e
    · injection e with e1 _; rw [← e1]; decide
  have hL : trimLeft (w1 ++ n ++ w2 ++ u) = n ++ (w2 ++ u) := by
    rw [List.append_assoc, List.append_assoc]
    apply trimLeft_append hw1
    rw [hn]; exact toks_heads.noPrefix (numOrM_of hc) _
  have hrest : ∀ b r, w2 ++ u = b :: r → isNumCh b = false := by
    intro b r e
    exact Cat.head_not toks_headsN hw2 hu' b r e
  have htw : (w2 ++ u).takeWhile isNumCh = [] := by
    cases hx : w2 ++ u with
    | nil => rfl
    | cons b r => simp [List.takeWhile, hrest b r hx]
  have hdw : (w2 ++ u).dropWhile isNumCh = w2 ++ u := by
    cases hx : w2 ++ u with
    | nil => rfl
    | cons b r => simp [List.dropWhile, hrest b r hx]
  have hT : (n ++ (w2 ++ u)).takeWhile isNumCh = n := by
    rw [List.takeWhile_append_of_pos (numeral_chars hv), htw, List.append_nil]
  have hD : (n ++ (w2 ++ u)).dropWhile isNumCh = w2 ++ u := by
    rw [List.dropWhile_append_of_pos (numeral_chars hv), hdw]
  have hR : trimLeft (w2 ++ u) = u := by
    apply trimLeft_append hw2
    rcases hu with rfl | rfl
    · exact toks_heads.noPrefix_nil
    · exact toks_heads.noPrefix (b := 77) (by decide) _
  unfold cliParse
  simp only [hL, hT, hD, hR]
  rw [if_pos hu]; exact hv

theorem model_eq_scan (s : Bytes) : (Model.Amount.cliParse s).toOption = cliParse s := by
  cases hm : Model.Amount.cliParse s with
  | ok v => exact (scan_complete (cli_sound hm)).symm
  | error e =>
    cases hs : cliParse s with
    | none => rfl
    | some v => rw [cli_complete (scan_sound hs)] at hm; cases hm

end MW.Spec.Amount
