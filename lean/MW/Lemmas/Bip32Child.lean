/-
  Lemmas for C14: `Child` / `NewMaster` / `Neuter` of the model, rewritten in the vocabulary of the
  spec (what HMAC is asked, what is stored), under the laws of the parameters.
-/
import MW.Model.Bip32Repr
import MW.Lemmas.Bip32Laws
import MW.Lemmas.Bip32Num
namespace MW.Bip32L
open MW MW.GoSlice MW.Model.Bip32 MW.Spec.Bip32

/-! ### Go slices -/

theorem copyAt_exact (pre l post src : Bytes) (h : src.length = l.length) :
    copyAt (pre ++ l ++ post) pre.length src = pre ++ src ++ post := by
  unfold copyAt
  have h1 : min src.length ((pre ++ l ++ post).length - pre.length) = src.length := by
    simp; omega
  rw [h1]
  have h2 : src.take l.length = src := by rw [← h]; exact List.take_length
  have h3 : (pre ++ l ++ post).drop (pre.length + src.length) = post := by
    rw [h, ← List.length_append]; simp
  have h4 : (pre ++ l ++ post).take pre.length = pre := by simp
  show (pre ++ l ++ post).take pre.length ++ src.take src.length ++
      (pre ++ l ++ post).drop (pre.length + src.length) = pre ++ src ++ post
  rw [h3, h4, h, h2]

theorem zeros_add (a b : Nat) : zeros (a + b) = zeros a ++ zeros b := by
  simp [zeros]

/-- hardened: `data = 0x00 ‖ key ‖ ser32(i)` when the key is held in exactly 32 bytes -/
theorem data_hard (key : Bytes) (i : Nat) (h : key.length = 32) :
    copyAt (copyAt (zeros (33 + 4)) 1 key) 33 (BE.fixed 4 i) = [0] ++ key ++ BE.fixed 4 i := by
  have e1 : zeros (33 + 4) = zeros 1 ++ zeros 32 ++ zeros 4 := by
    rw [show 33 + 4 = 1 + 32 + 4 from rfl, zeros_add, zeros_add]
  have s1 : copyAt (zeros (33 + 4)) 1 key = zeros 1 ++ key ++ zeros 4 := by
    rw [e1]
    exact copyAt_exact (zeros 1) (zeros 32) (zeros 4) key (by simp [zeros, h])
  rw [s1]
  have := copyAt_exact (zeros 1 ++ key) (zeros 4) [] (BE.fixed 4 i) (by simp [zeros])
  simp only [List.append_nil] at this
  have hl : (zeros 1 ++ key).length = 33 := by simp [zeros, h]
  rw [hl] at this
  rw [this]; rfl

/-- not hardened: `data = serP(K) ‖ ser32(i)` when the public key is 33 bytes -/
theorem data_norm (pk : Bytes) (i : Nat) (h : pk.length = 33) :
    copyAt (copyAt (zeros (33 + 4)) 0 pk) 33 (BE.fixed 4 i) = pk ++ BE.fixed 4 i := by
  have e1 : zeros (33 + 4) = [] ++ zeros 33 ++ zeros 4 := by
    rw [zeros_add]; rfl
  have s1 : copyAt (zeros (33 + 4)) 0 pk = [] ++ pk ++ zeros 4 := by
    rw [e1]
    exact copyAt_exact [] (zeros 33) (zeros 4) pk (by simp [zeros, h])
  rw [s1]
  have := copyAt_exact ([] ++ pk) (zeros 4) [] (BE.fixed 4 i) (by simp [zeros])
  simp only [List.append_nil, List.nil_append] at this
  rw [h] at this
  simpa using this

/-! ### numbers -/

theorem ser256_length (k : Nat) : (ser256 k).length = 32 := by simp [ser256]
theorem ofBytes_ser256 {k : Nat} (h : k < 2 ^ 256) : BE.ofBytes (ser256 k) = k := by
  rw [ser256, BE.ofBytes_fixed]
  exact Nat.mod_eq_of_lt (by simpa using h)

theorem storeKey_eq {s : Nat} (h : s < 2 ^ 256) : storeKey s = ser256 s := by
  simp only [storeKey, paddedAppend, zeros, List.nil_append, ser256]
  exact BE.pad_toBytes 32 s (by simpa using h)

theorem hardenedKeyStart_eq : hardenedKeyStart = 2 ^ 31 := by decide


/-! ### Child in the vocabulary of the spec -/

section
variable {C : CurveOps} {H : HashOps} (LC : CurveLaws C) (LH : HashLaws H)
include LC LH

omit LC LH in
theorem pubKeyBytes_priv {m : XKey} {k : Nat} (hp : m.isPrivate = true) (hk : m.key = ser256 k) (hlt : k < 2 ^ 256) :
    pubKeyBytes C m = C.enc (C.mulG k) := by
  simp [pubKeyBytes, hp, hk, ofBytes_ser256 hlt]

/-- private parent held as ser256(k): what `Child` computes, in spec terms -/
theorem child_priv_eq {m : XKey} {k i : Nat} (hp : m.isPrivate = true) (hk : m.key = ser256 k) (hlt : k < 2 ^ 256) :
    child C H m i =
      if m.depth = 255 then .error .depth else
      let I := Ipriv C H k m.chainCode i
      let il := parse256 (I.take 32)
      if il ≥ C.n ∨ il = 0 then .error .invalidChild else
      .ok { key := ser256 ((il + k) % C.n), chainCode := I.drop 32, depth := m.depth + 1,
            parentFP := fingerprint C H (C.mulG k), childNum := i, version := m.version, isPrivate := true } := by
  have hpk := pubKeyBytes_priv (C := C) hp hk hlt
  have hdata : copyAt (if decide (i ≥ hardenedKeyStart) = true then copyAt (zeros (33 + 4)) 1 m.key
        else copyAt (zeros (33 + 4)) 0 (pubKeyBytes C m)) 33 (BE.fixed 4 i)
      = (if hardened i = true then [0] ++ ser256 k ++ ser32 i else serP C (point C k) ++ ser32 i) := by
    simp only [hardened, hardenedKeyStart_eq]
    by_cases hh : i ≥ 2 ^ 31
    · simp only [hh, decide_true, if_true]
      rw [hk]; exact data_hard _ _ (ser256_length k)
    · simp only [hh, decide_false, if_false]
      rw [hpk]; exact data_norm _ _ (LC.enc_len _)
  have hI : H.hmac512 m.chainCode (copyAt (if decide (i ≥ hardenedKeyStart) = true then copyAt (zeros (33 + 4)) 1 m.key
        else copyAt (zeros (33 + 4)) 0 (pubKeyBytes C m)) 33 (BE.fixed 4 i)) = Ipriv C H k m.chainCode i := by
    rw [hdata]; unfold Ipriv; split <;> rfl
  have hlen : (Ipriv C H k m.chainCode i).length / 2 = 32 := by
    have : (Ipriv C H k m.chainCode i).length = 64 := by unfold Ipriv; split <;> exact LH.hmac_len _ _
    rw [this]
  have hsum : (parse256 ((Ipriv C H k m.chainCode i).take 32) + k) % C.n < 2 ^ 256 :=
    Nat.lt_of_lt_of_le (Nat.mod_lt _ LC.n_pos) LC.n_le
  unfold child childCore
  simp only [hp, Bool.not_true, Bool.false_and, Bool.false_eq_true, if_false] at hI ⊢
  rw [show Gen.Bip32.maxUint8 = 255 from rfl]
  by_cases hd : m.depth = 255
  · simp [hd]
  · simp only [hd, if_false]
    simp only [hI, hlen, parse256]
    by_cases hil : BE.ofBytes ((Ipriv C H k m.chainCode i).take 32) ≥ C.n ∨ BE.ofBytes ((Ipriv C H k m.chainCode i).take 32) = 0
    · have : (decide (BE.ofBytes ((Ipriv C H k m.chainCode i).take 32) ≥ C.n) || decide (BE.ofBytes ((Ipriv C H k m.chainCode i).take 32) = 0)) = true := by
        simpa using hil
      simp only [this, if_true, hil]
    · have : (decide (BE.ofBytes ((Ipriv C H k m.chainCode i).take 32) ≥ C.n) || decide (BE.ofBytes ((Ipriv C H k m.chainCode i).take 32) = 0)) = false := by
        simpa using hil
      simp only [this, Bool.false_eq_true, if_false, hil]
      rw [hk, ofBytes_ser256 hlt, storeKey_eq (by simpa [parse256] using hsum), hpk]
      rfl


/-- public parent held as serP(K): what `Child` computes, in spec terms -/
theorem child_pub_eq {m : XKey} {K : C.Pt} {i : Nat} (hp : m.isPrivate = false) (hk : m.key = C.enc K)
    (hparse : C.parse (C.enc K) = some K) :
    child C H m i =
      if m.depth = 255 then .error .depth else
      if hardened i = true then .error .hardFromPub else
      let I := Ipub C H K m.chainCode i
      let il := parse256 (I.take 32)
      if il ≥ C.n ∨ il = 0 then .error .invalidChild else
      if C.xyZero (C.mulG il) = true then .error .invalidChild else
      .ok { key := C.enc (C.add (C.mulG il) K), chainCode := I.drop 32, depth := m.depth + 1,
            parentFP := fingerprint C H K, childNum := i, version := m.version, isPrivate := false } := by
  have hpk : pubKeyBytes C m = C.enc K := by simp [pubKeyBytes, hp, hk]
  have hlen : (Ipub C H K m.chainCode i).length / 2 = 32 := by
    have : (Ipub C H K m.chainCode i).length = 64 := LH.hmac_len _ _
    rw [this]
  unfold child childCore
  simp only [hp, Bool.not_false, Bool.true_and, Bool.false_eq_true, if_false]
  rw [show Gen.Bip32.maxUint8 = 255 from rfl]
  by_cases hd : m.depth = 255
  · simp [hd]
  · simp only [hd, if_false, hardened, hardenedKeyStart_eq]
    by_cases hh : i ≥ 2 ^ 31
    · simp only [hh, decide_true, if_true]
    · simp only [hh, decide_false, Bool.false_eq_true, if_false]
      rw [hpk, data_norm _ _ (LC.enc_len _)]
      have hI : H.hmac512 m.chainCode (C.enc K ++ BE.fixed 4 i) = Ipub C H K m.chainCode i := rfl
      simp only [hI, hlen, parse256, hk, hparse]
      by_cases hil : BE.ofBytes ((Ipub C H K m.chainCode i).take 32) ≥ C.n ∨ BE.ofBytes ((Ipub C H K m.chainCode i).take 32) = 0
      · have : (decide (BE.ofBytes ((Ipub C H K m.chainCode i).take 32) ≥ C.n) || decide (BE.ofBytes ((Ipub C H K m.chainCode i).take 32) = 0)) = true := by
          simpa using hil
        simp only [this, if_true, hil]
      · have : (decide (BE.ofBytes ((Ipub C H K m.chainCode i).take 32) ≥ C.n) || decide (BE.ofBytes ((Ipub C H K m.chainCode i).take 32) = 0)) = false := by
          simpa using hil
        simp only [this, Bool.false_eq_true, if_false, hil]
        rfl

/-! ### the refinement step: Child computes CKD (outside the degenerate HMAC outputs) -/

theorem child_refines {m : XKey} {x : Spec.Bip32.XKey C.Pt} {i : Nat} (hr : Rep C m x) (hi : i < 2 ^ 32)
    (hnd : ¬ Degenerate C H x i) :
    RelE (Rep C) (child C H m i) (ckd C H x i) := by
  obtain ⟨hv, hd, hdl, hfp, hcn, hcc, ⟨hwv, hwf, hwn, hwc⟩, hkey⟩ := hr
  cases hxk : x.key with
  | priv k =>
    rw [hxk] at hkey
    obtain ⟨hp, hkb, hkpos, hkn⟩ := hkey
    have hklt : k < 2 ^ 256 := Nat.lt_of_lt_of_le hkn LC.n_le
    rw [child_priv_eq LC LH hp hkb hklt]
    simp only [Degenerate, hxk] at hnd
    unfold ckd ckdPriv
    simp only [hxk, hd, hcc]
    by_cases hd255 : x.depth = 255
    · simp [hd255, RelE]
    · have hge : ¬ x.depth ≥ 255 := by omega
      simp only [hd255, hge, if_false]
      by_cases hil : parse256 ((Ipriv C H k x.chain i).take 32) ≥ C.n
      · simp [hil, RelE]
      · have h0 : ¬ parse256 ((Ipriv C H k x.chain i).take 32) = 0 := fun h => hnd (Or.inl h)
        have hs : ¬ (parse256 ((Ipriv C H k x.chain i).take 32) + k) % C.n = 0 := fun h => hnd (Or.inr h)
        simp only [hil, h0, hs, or_self, if_false, RelE, Rep]
        simp only [true_and]
        have hIlen : (Ipriv C H k x.chain i).length = 64 := by unfold Ipriv; split <;> exact LH.hmac_len _ _
        exact ⟨hv, by omega, rfl, ⟨hwv, by simp [fingerprint, HashOps.hash160, LH.rmd_len], hi, by simp [hIlen]⟩,
          by omega, Nat.mod_lt _ LC.n_pos⟩
  | pub K =>
    rw [hxk] at hkey
    obtain ⟨hp, hkb, hparse⟩ := hkey
    rw [child_pub_eq LC LH hp hkb hparse]
    simp only [Degenerate, hxk] at hnd
    unfold ckd ckdPub
    simp only [hxk, hd, hcc]
    by_cases hd255 : x.depth = 255
    · simp [hd255, RelE]
    · have hge : ¬ x.depth ≥ 255 := by omega
      simp only [hd255, hge, if_false]
      by_cases hh : hardened i = true
      · simp [hh, RelE]
      · simp only [hh, Bool.false_eq_true, if_false]
        by_cases hil : parse256 ((Ipub C H K x.chain i).take 32) ≥ C.n
        · simp [hil, RelE]
        · have h0 : ¬ parse256 ((Ipub C H K x.chain i).take 32) = 0 := fun h => hnd (Or.inl h)
          have hinf : ¬ C.isInf (C.add (point C (parse256 ((Ipub C H K x.chain i).take 32))) K) = true :=
            fun h => hnd (Or.inr h)
          have hxy : C.xyZero (C.mulG (parse256 ((Ipub C H K x.chain i).take 32))) = false :=
            LC.xyZero_mulG _ (by omega) (by omega)
          simp only [hil, h0, hinf, hxy, or_self, Bool.false_eq_true, if_false, RelE, Rep]
          simp only [true_and]
          have hIlen : (Ipub C H K x.chain i).length = 64 := LH.hmac_len _ _
          refine ⟨hv, by omega, ⟨hwv, by simp [fingerprint, HashOps.hash160, LH.rmd_len], hi, by simp [hIlen]⟩, rfl, ?_⟩
          apply LC.parse_enc
          simpa [point] using hinf

end
end MW.Bip32L
