/-
  Helper lemmas for C02 (topK_spec): the invariant of the selector over any submission sequence.
-/
import MW.Lemmas.SelectHeap
namespace MW.Lemmas.SelectTopK
open MW MW.Model.Select MW.Lemmas.SelectHeap

/-- coins that go to the base: amount not above the required amount -/
def low (req : Nat) (l : List Coin) : List Coin := l.filter (fun c => decide (c.amt ≤ req))

/-- what the selector holds after having been fed `seen` -/
structure Inv (s : Sel) (seen : List Coin) : Prop where
  size_le : s.base.size ≤ s.k
  heap : s.base.size = s.k → HeapFrom s.k s.base 0
  rest : ∃ rest : List Coin, (s.base.toList ++ rest).Perm (low s.req seen) ∧
          (∀ r ∈ rest, ∀ b ∈ s.base.toList, r.amt ≤ b.amt) ∧ (s.base.size < s.k → rest = [])
  guardNone : s.guard = none → ∀ c ∈ seen, c.amt ≤ s.req
  guardSome : ∀ g, s.guard = some g → g ∈ seen ∧ s.req < g.amt ∧ ∀ c ∈ seen, s.req < c.amt → g.amt ≤ c.amt

theorem inv_init (k req : Nat) : Inv (newSel k req) [] := by
  refine ⟨by simp [newSel], ?_, ⟨[], by simp [newSel, low], by simp, by simp⟩, by simp, by simp [newSel]⟩
  intro h i _
  have hk : k = 0 := by simpa [newSel] using h.symm
  subst hk
  constructor <;> intro hh <;> simp [newSel] at hh

theorem submit_k (s : Sel) (x : Coin) : (submit s x).k = s.k := by
  unfold submit
  simp only []
  repeat' split
  all_goals rfl

theorem submit_req (s : Sel) (x : Coin) : (submit s x).req = s.req := by
  unfold submit
  simp only []
  repeat' split
  all_goals rfl

theorem low_append_high (req : Nat) (seen : List Coin) (x : Coin) (h : x.amt > req) :
    low req (seen ++ [x]) = low req seen := by
  unfold low
  rw [List.filter_append]
  have : ¬ x.amt ≤ req := by omega
  simp [this]

theorem low_append_low (req : Nat) (seen : List Coin) (x : Coin) (h : ¬ x.amt > req) :
    low req (seen ++ [x]) = low req seen ++ [x] := by
  unfold low
  rw [List.filter_append]
  have : x.amt ≤ req := by omega
  simp [this]

theorem amtAt_of_lt (a : Array Coin) (i : Nat) (h : i < a.size) : amtAt a i = a[i].amt := by
  unfold amtAt
  simp [h]

theorem exists_idx_of_mem (a : Array Coin) (b : Coin) (h : b ∈ a.toList) : ∃ i, i < a.size ∧ amtAt a i = b.amt := by
  obtain ⟨i, hi, e⟩ := List.getElem_of_mem h
  have hi' : i < a.size := by simpa using hi
  refine ⟨i, hi', ?_⟩
  rw [amtAt_of_lt a i hi']
  have : a[i] = b := by simpa using e
  rw [this]

/-- in a full heap every element is at least the root -/
theorem root_le_mem (k : Nat) (a : Array Coin) (hsz : a.size = k) (h : HeapFrom k a 0) (b : Coin) (hb : b ∈ a.toList) :
    amtAt a 0 ≤ b.amt := by
  obtain ⟨i, hi, e⟩ := exists_idx_of_mem a b hb
  rw [← e]
  exact root_le k a h i (by omega)

theorem toList_eq_cons (a : Array Coin) (h : 0 < a.size) : a.toList = a[0] :: a.toList.tail := by
  cases a with
  | mk l =>
    cases l with
    | nil => simp at h
    | cons x t => simp

/-- the submission step preserves the invariant -/
theorem inv_submit (s : Sel) (seen : List Coin) (x : Coin) (inv : Inv s seen) : Inv (submit s x) (seen ++ [x]) := by
  obtain ⟨hle, hheap, ⟨rest, hperm, hbound, hrest⟩, hgn, hgs⟩ := inv
  unfold submit
  by_cases hx : x.amt > s.req
  · -- above the required amount: guard candidate
    simp only [hx, if_true]
    cases hg : s.guard with
    | none =>
      simp only []
      refine ⟨hle, hheap, ⟨rest, ?_, hbound, hrest⟩, by simp, ?_⟩
      · simp only []; rw [low_append_high _ _ _ hx]; exact hperm
      · intro g hg'
        simp at hg'
        subst hg'
        refine ⟨by simp, hx, ?_⟩
        intro c hc hcr
        dsimp only at hcr ⊢
        rcases List.mem_append.mp hc with hc | hc
        · have := hgn hg c hc; omega
        · simp at hc; subst hc; exact Nat.le_refl _
    | some g =>
      simp only []
      obtain ⟨hgm, hgr, hgmin⟩ := hgs g hg
      by_cases hlt : x.amt < g.amt
      · simp only [hlt, if_true]
        refine ⟨hle, hheap, ⟨rest, ?_, hbound, hrest⟩, by simp, ?_⟩
        · simp only []; rw [low_append_high _ _ _ hx]; exact hperm
        · intro g' hg'
          simp at hg'
          subst hg'
          refine ⟨by simp, hx, ?_⟩
          intro c hc hcr
          dsimp only at hcr ⊢
          rcases List.mem_append.mp hc with hc | hc
          · have := hgmin c hc hcr; omega
          · simp at hc; subst hc; exact Nat.le_refl _
      · simp only [hlt, if_false]
        refine ⟨hle, hheap, ⟨rest, ?_, hbound, hrest⟩, ?_, ?_⟩
        · rw [low_append_high _ _ _ hx]; exact hperm
        · intro h; rw [hg] at h; cases h
        · intro g' hg'
          rw [hg] at hg'
          cases hg'
          refine ⟨by simp [hgm], hgr, ?_⟩
          intro c hc hcr
          rcases List.mem_append.mp hc with hc | hc
          · exact hgmin c hc hcr
          · simp at hc; subst hc; omega
  · simp only [hx, if_false]
    have hguardN : s.guard = none → ∀ c ∈ seen ++ [x], c.amt ≤ s.req := by
      intro h c hc
      rcases List.mem_append.mp hc with hc | hc
      · exact hgn h c hc
      · simp at hc; subst hc; omega
    have hguardS : ∀ g, s.guard = some g → g ∈ seen ++ [x] ∧ s.req < g.amt ∧ ∀ c ∈ seen ++ [x], s.req < c.amt → g.amt ≤ c.amt := by
      intro g hg
      obtain ⟨hgm, hgr, hgmin⟩ := hgs g hg
      refine ⟨by simp [hgm], hgr, ?_⟩
      intro c hc hcr
      rcases List.mem_append.mp hc with hc | hc
      · exact hgmin c hc hcr
      · simp at hc; subst hc; omega
    by_cases hfull : s.base.size < s.k
    · -- the base is not full: append (and build the heap when it becomes full)
      simp only [hfull, if_true]
      have hr := hrest hfull
      subst hr
      have hp : ((s.base.push x).toList ++ []).Perm (low s.req (seen ++ [x])) := by
        rw [low_append_low _ _ _ hx]
        simp only [Array.toList_push, List.append_nil]
        have := hperm
        simp only [List.append_nil] at this
        exact this.append_right _
      by_cases hk : (s.base.push x).size = s.k
      · simp only [hk, if_true]
        refine ⟨?_, ?_, ⟨[], ?_, by simp, by simp⟩, hguardN, hguardS⟩
        · simp only []; rw [size_heapify, hk]; exact Nat.le_refl _
        · intro _; simp only []; exact heapify_heap s.k _ hk
        · simp only [List.append_nil]
          simp only [List.append_nil] at hp
          exact (heapify_perm _ _ _).trans hp
      · simp only [hk, if_false]
        have hsz : (s.base.push x).size = s.base.size + 1 := by simp
        refine ⟨?_, ?_, ⟨[], hp, by simp, by simp⟩, hguardN, hguardS⟩
        · simp only []; omega
        · intro h; exact absurd h hk
    · simp only [hfull, if_false]
      have hsz : s.base.size = s.k := by omega
      have hH := hheap hsz
      by_cases hrep : s.k > 0 ∧ x.amt > amtAt s.base 0
      · -- replace the root
        simp only [hrep, and_self, if_true]
        have hpos : 0 < s.base.size := by omega
        have hcons := toList_eq_cons s.base hpos
        have hroot : amtAt s.base 0 = (s.base[0]).amt := amtAt_of_lt _ _ hpos
        have hsetsz : (s.base.setIfInBounds 0 x).size = s.k := by simp [hsz]
        have hset : (s.base.setIfInBounds 0 x).toList = x :: s.base.toList.tail := by
          rw [Array.toList_setIfInBounds, hcons]
          simp
        refine ⟨?_, ?_, ⟨s.base[0] :: rest, ?_, ?_, ?_⟩, hguardN, hguardS⟩
        · simp only []; rw [size_adjust, hsetsz]; exact Nat.le_refl _
        · intro _; simp only []; exact replaceRoot_heap s.k s.base x hsz hH
        · simp only []
          rw [low_append_low _ _ _ hx]
          have h1 : ((adjust s.k (s.base.setIfInBounds 0 x) 0).toList ++ s.base[0] :: rest).Perm
              ((x :: s.base.toList.tail) ++ s.base[0] :: rest) := by
            apply List.Perm.append_right
            rw [← hset]
            exact adjust_perm _ _ _
          refine h1.trans ?_
          have h2 : ((x :: s.base.toList.tail) ++ s.base[0] :: rest).Perm (x :: (s.base.toList ++ rest)) := by
            rw [List.cons_append]
            apply List.Perm.cons
            have : (s.base.toList.tail ++ s.base[0] :: rest).Perm (s.base[0] :: (s.base.toList.tail ++ rest)) :=
              List.perm_middle
            refine this.trans ?_
            rw [← List.cons_append, ← hcons]
          refine h2.trans ?_
          exact (List.Perm.cons x hperm).trans (List.perm_append_singleton x _).symm
        · simp only []
          intro r hr b hb
          have hb' : b ∈ x :: s.base.toList.tail := by
            have := (adjust_perm s.k (s.base.setIfInBounds 0 x) 0).mem_iff.mp hb
            rw [hset] at this
            exact this
          have hrootmem : s.base[0] ∈ s.base.toList := by rw [hcons]; simp
          have hr_le_root : r.amt ≤ (s.base[0]).amt := by
            rcases List.mem_cons.mp hr with hr | hr
            · subst hr; exact Nat.le_refl _
            · exact hbound r hr _ hrootmem
          rcases List.mem_cons.mp hb' with hb' | hb'
          · subst hb'; omega
          · have hbm : b ∈ s.base.toList := List.mem_of_mem_tail hb'
            have := root_le_mem s.k s.base hsz hH b hbm
            omega
        · simp only []; intro h; rw [size_adjust, hsetsz] at h; omega
      · -- not larger than the root (or k = 0): dropped
        simp only [hrep, if_false]
        refine ⟨hle, hheap, ⟨rest ++ [x], ?_, ?_, ?_⟩, hguardN, hguardS⟩
        · rw [low_append_low _ _ _ hx, ← List.append_assoc]
          exact hperm.append_right _
        · intro r hr b hb
          rcases List.mem_append.mp hr with hr | hr
          · exact hbound r hr b hb
          · simp at hr
            subst hr
            have hk0 : s.k > 0 := by
              have : 0 < s.base.size := by
                cases hbl : s.base.toList with
                | nil => rw [hbl] at hb; cases hb
                | cons y t =>
                  have : s.base.toList.length = s.base.size := by simp
                  rw [hbl] at this
                  simp at this
                  omega
              omega
            have hle0 : ¬ r.amt > amtAt s.base 0 := fun h => hrep ⟨hk0, h⟩
            have := root_le_mem s.k s.base hsz hH b hb
            omega
        · intro h; omega

theorem submitAll_k (s : Sel) (xs : List Coin) : (submitAll s xs).k = s.k := by
  induction xs generalizing s with
  | nil => rfl
  | cons x t ih => simp only [submitAll, List.foldl_cons] at *; rw [ih, submit_k]

theorem submitAll_req (s : Sel) (xs : List Coin) : (submitAll s xs).req = s.req := by
  induction xs generalizing s with
  | nil => rfl
  | cons x t ih => simp only [submitAll, List.foldl_cons] at *; rw [ih, submit_req]

theorem inv_submitAll (s : Sel) (seen xs : List Coin) (inv : Inv s seen) : Inv (submitAll s xs) (seen ++ xs) := by
  induction xs generalizing s seen with
  | nil => simpa [submitAll] using inv
  | cons x t ih =>
    have := ih (submit s x) (seen ++ [x]) (inv_submit s seen x inv)
    simpa [submitAll, List.append_assoc] using this

end MW.Lemmas.SelectTopK
