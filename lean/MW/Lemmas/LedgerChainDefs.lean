/-
  Block-structure hypotheses for the reorg theorems (C01 goal 3) and the interface between the
  rollback proofs and the reorg proofs.
-/
import MW.Lemmas.LedgerConnect
namespace MW.Lemmas.Ledger
open MW MW.Model.Ledger MW.Spec.Chain MW.Spec.Books

/-- every block points at its predecessor in the chain (hash chain) -/
def Linked (chain : List Block) : Prop :=
  ∀ (i : Nat) (x y : Block), chain[i]? = some x → chain[i + 1]? = some y → y.prev = x.id

/-- a block id (hash) determines the block, among the blocks of `bs` -/
def IdInj (bs : List Block) : Prop := ∀ x ∈ bs, ∀ y ∈ bs, x.id = y.id → x = y

/-- a well-formed chain of the block universe: positions = heights, hash-linked -/
structure GoodChain (chain : List Block) : Prop where
  heights : HeightsOK chain
  linked : Linked chain
  nonempty : chain ≠ []

/-- the meta (height, id) of the last block -/
def tipMeta (chain : List Block) : BlockMeta :=
  match chain.getLast? with
  | some b => ⟨b.height, b.id⟩
  | none => ⟨0, ""⟩

/-- WHAT THE ROLLBACK PROOFS PROVIDE (`disconnect_sound`): disconnecting the tip block of the wallet's chain
    succeeds and yields the invariant for the chain without it. -/
def DisconnectSpec (c : Ctx) : Prop :=
  ∀ (s : Store) (chain : List Block) (b : Block),
    Inv c s (chain ++ [b]) → chain ≠ [] → ChainValid c.own (chain ++ [b]) → HeightsOK (chain ++ [b]) →
    AMap.get c.node.known b.id = some b → AllReady c.own (readyWallets s c.wallets) →
    ∃ s', disconnectBlock c s b.height = .ok s' ∧ Inv c s' chain ∧
      (∀ ws, readyWallets s' ws = readyWallets s ws)

end MW.Lemmas.Ledger
