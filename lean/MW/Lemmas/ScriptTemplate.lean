/-
  C16 helper lemmas, part 2: a byte string matches a consensus template (MW.Spec.Script.template)
  exactly when the tokenizer yields the opcode shape the txscript predicates accept.
-/
import MW.Lemmas.ScriptTok
import MW.Spec.Script
namespace MW.Lemmas.ScriptTemplate
open MW MW.Model.Script MW.Lemmas.ScriptTok


inductive Toks : Bytes → List Pop → Prop
  | nil : Toks [] []
  | cons {b : UInt8} {r : Bytes} {p : Pop} {n : Nat} {ps : List Pop} :
      stepG b r = .ok (p, n) → Toks ((b :: r).drop n) ps → Toks (b :: r) (p :: ps)

theorem tokF_ok_iff : ∀ (f : Nat) (t : Bytes) (pops : List Pop), t.length ≤ f →
    (tokF f t = .ok pops ↔ Toks t pops) := by
  intro f
  induction f with
  | zero =>
    intro t pops ht
    have : t = [] := List.eq_nil_of_length_eq_zero (by omega)
    subst this
    simp only [tokF]
    constructor
    · intro h; cases h; exact Toks.nil
    · intro h; cases h; rfl
  | succ f ih =>
    intro t pops ht
    cases t with
    | nil =>
      simp only [tokF]
      constructor
      · intro h; cases h; exact Toks.nil
      · intro h; cases h; rfl
    | cons b r =>
      simp only [tokF]
      constructor
      · intro h
        cases hs : stepG b r with
        | error e => simp [hs] at h
        | ok pn =>
          obtain ⟨p, n⟩ := pn
          have hc := stepG_consumed hs
          have hl : ((b :: r).drop n).length ≤ f := by
            rw [List.length_drop]; simp at ht ⊢; omega
          simp only [hs] at h
          cases ht2 : tokF f ((b :: r).drop n) with
          | error e => simp [ht2] at h
          | ok ps =>
            simp only [ht2] at h
            cases h
            exact Toks.cons hs ((ih _ _ hl).mp ht2)
      · intro h
        cases h with
        | cons hs htk =>
          rename_i p n ps
          have hc := stepG_consumed hs
          have hl : ((b :: r).drop n).length ≤ f := by
            rw [List.length_drop]; simp at ht ⊢; omega
          simp only [hs, (ih _ _ hl).mpr htk]

theorem stepG_zero (r : Bytes) : stepG 0 r = .ok (⟨0, []⟩, 1) := by
  unfold stepG; simp

theorem stepG_data (b : UInt8) (r : Bytes) (h1 : 1 ≤ b.toNat) (h2 : b.toNat ≤ 75) :
    stepG b r = if r.length < b.toNat then fail .shortScript else .ok (⟨b, r.take b.toNat⟩, b.toNat + 1) := by
  unfold stepG
  have : ¬ (b.toNat = 0 ∨ 78 < b.toNat) := by omega
  simp only [this, h2, if_true, if_false]

theorem toks_prefix (h rest : Bytes) (ps : List Pop) (hlen : h.length = 32) (hk : Toks rest ps) :
    Toks (0 :: 0x20 :: (h ++ rest)) (⟨0, []⟩ :: ⟨0x20, h⟩ :: ps) := by
  refine Toks.cons (stepG_zero _) ?_
  have e : stepG 0x20 (h ++ rest) = .ok (⟨0x20, h⟩, 33) := by
    rw [stepG_data 0x20 _ (by decide) (by decide)]
    have : ¬ (h ++ rest).length < (0x20 : UInt8).toNat := by
      simp [hlen]
    rw [if_neg this]
    have e1 : (0x20 : UInt8).toNat = 32 := by decide
    rw [e1]
    simp [← hlen]
  refine Toks.cons e ?_
  have : List.drop 33 (0x20 :: (h ++ rest)) = rest := by
    simp [← hlen]
  simpa [this] using hk

theorem toks_push (m : UInt8) (d : Bytes) (h1 : 1 ≤ m.toNat) (h2 : m.toNat ≤ 75) (hd : d.length = m.toNat) :
    Toks (m :: d) [⟨m, d⟩] := by
  have e : stepG m d = .ok (⟨m, d⟩, m.toNat + 1) := by
    rw [stepG_data m _ h1 h2]
    simp [hd]
    rw [← hd]; simp
  refine Toks.cons e ?_
  have : List.drop (m.toNat + 1) (m :: d) = [] := by simp [hd]
  rw [this]; exact Toks.nil

open Spec.Script in
/-- the byte-level content of `template`: a script of the form 00 20 r -/
theorem template_cons (r : Bytes) : template (0 :: 0x20 :: r) =
    if r.length < 32 then .none else
      match r.drop 32 with
      | [] => .wsh (r.take 32)
      | 0x08 :: f => if f.length = 8 then .staking (r.take 32) f else .none
      | 0x14 :: t => if t.length = 20 then .binding (r.take 32) t else .none
      | 0x16 :: t => if t.length = 22 then .binding (r.take 32) t else .none
      | _ => .none := rfl

open Spec.Script in
theorem template_ne_none (s : Bytes) (h : template s ≠ .none) : ∃ r, s = 0 :: 0x20 :: r := by
  unfold template at h
  split at h
  · exact ⟨_, rfl⟩
  · exact absurd rfl h

open Spec.Script in
/-- what matching a template means for the tokenizer -/
def TemplateToks (s : Bytes) : Template → Prop
  | .none => True
  | .wsh h => h.length = 32 ∧ s = 0 :: 0x20 :: h ∧ Toks s [⟨0, []⟩, ⟨0x20, h⟩]
  | .staking h f => h.length = 32 ∧ f.length = 8 ∧ s = 0 :: 0x20 :: (h ++ 0x08 :: f) ∧
      Toks s [⟨0, []⟩, ⟨0x20, h⟩, ⟨0x08, f⟩]
  | .binding h t => h.length = 32 ∧ (t.length = 20 ∨ t.length = 22) ∧
      s = 0 :: 0x20 :: (h ++ UInt8.ofNat t.length :: t) ∧
      Toks s [⟨0, []⟩, ⟨0x20, h⟩, ⟨UInt8.ofNat t.length, t⟩]

open Spec.Script in
/-- forward: a script matching a template tokenizes into exactly the template's opcodes -/
theorem toks_of_template (s : Bytes) : TemplateToks s (template s) := by
  generalize hT : template s = T
  by_cases hn : T = .none
  · subst hn; trivial
  obtain ⟨r, rfl⟩ := template_ne_none s (by rw [hT]; exact hn)
  rw [template_cons] at hT
  by_cases hr : r.length < 32
  · rw [if_pos hr] at hT; exact absurd hT.symm hn
  rw [if_neg hr] at hT
  have hsplit : r = r.take 32 ++ r.drop 32 := (List.take_append_drop 32 r).symm
  have hlen : (r.take 32).length = 32 := by rw [List.length_take]; omega
  generalize r.take 32 = h at hsplit hlen hT
  generalize r.drop 32 = tl at hsplit hT
  subst hsplit
  split at hT
  · subst hT
    refine ⟨hlen, by simp, ?_⟩
    simpa using toks_prefix h [] [] hlen Toks.nil
  · rename_i f
    by_cases hf : f.length = 8
    · rw [if_pos hf] at hT; subst hT
      exact ⟨hlen, hf, rfl, toks_prefix _ _ _ hlen (toks_push 0x08 f (by decide) (by decide) (by rw [hf]; decide))⟩
    · rw [if_neg hf] at hT; exact absurd hT.symm hn
  · rename_i t
    by_cases hf : t.length = 20
    · rw [if_pos hf] at hT; subst hT
      refine ⟨hlen, Or.inl hf, ?_, ?_⟩
      · rw [hf]; rfl
      · rw [hf]; exact toks_prefix _ _ _ hlen (toks_push 0x14 t (by decide) (by decide) (by rw [hf]; decide))
    · rw [if_neg hf] at hT; exact absurd hT.symm hn
  · rename_i t
    by_cases hf : t.length = 22
    · rw [if_pos hf] at hT; subst hT
      refine ⟨hlen, Or.inr hf, ?_, ?_⟩
      · rw [hf]; rfl
      · rw [hf]; exact toks_prefix _ _ _ hlen (toks_push 0x16 t (by decide) (by decide) (by rw [hf]; decide))
    · rw [if_neg hf] at hT; exact absurd hT.symm hn
  · exact absurd hT.symm hn

/-- the opcode shapes the three witness predicates of txscript accept -/
def templateShape : List Pop → Bool
  | [p0, p1] => p0.op == 0 && p1.op == 0x20
  | [p0, p1, p2] => p0.op == 0 && p1.op == 0x20 && (p2.op == 0x08 || p2.op == 0x14 || p2.op == 0x16)
  | _ => false

theorem toks_nil_inv {t : Bytes} (h : Toks t []) : t = [] := by cases h; rfl

theorem toks_data_inv {b : UInt8} {r : Bytes} {p : Pop} {ps : List Pop} (h1 : 1 ≤ b.toNat) (h2 : b.toNat ≤ 75)
    (h : Toks (b :: r) (p :: ps)) : b.toNat ≤ r.length ∧ p = ⟨b, r.take b.toNat⟩ ∧ Toks (r.drop b.toNat) ps := by
  cases h with
  | cons hs hk =>
    rw [stepG_data b r h1 h2] at hs
    by_cases hr : r.length < b.toNat
    · rw [if_pos hr] at hs; cases hs
    · rw [if_neg hr] at hs
      cases hs
      refine ⟨by omega, rfl, ?_⟩
      simpa using hk

theorem toks_head_op {t : Bytes} {p : Pop} {ps : List Pop} (h : Toks t (p :: ps)) :
    ∃ r, t = p.op :: r := by
  cases h with
  | cons hs hk => exact ⟨_, by rw [(stepG_consumed hs).2.2]⟩

open Spec.Script in
theorem template_of_toks (s : Bytes) (pops : List Pop) (hk : Toks s pops) (hs : templateShape pops = true) :
    template s ≠ .none := by
  -- first opcode is OP_0, second OP_DATA_32
  have key : ∃ p0 p1 rest, pops = p0 :: p1 :: rest ∧ p0.op = 0 ∧ p1.op = 0x20 ∧
      (rest = [] ∨ ∃ p2, rest = [p2] ∧ (p2.op = 0x08 ∨ p2.op = 0x14 ∨ p2.op = 0x16)) := by
    match pops, hs with
    | [p0, p1], hs =>
      simp [templateShape] at hs
      exact ⟨p0, p1, [], rfl, hs.1, hs.2, Or.inl rfl⟩
    | [p0, p1, p2], hs =>
      simp [templateShape] at hs
      exact ⟨p0, p1, [p2], rfl, hs.1.1, hs.1.2, Or.inr ⟨p2, rfl, or_assoc.mp hs.2⟩⟩
  obtain ⟨p0, p1, rest, rfl, h0, h1, hrest⟩ := key
  obtain ⟨r0, rfl⟩ := toks_head_op hk
  rw [h0] at hk ⊢
  cases hk with
  | cons hs0 hk1 =>
    rw [stepG_zero] at hs0
    cases hs0
    simp only [List.drop_succ_cons, List.drop_zero] at hk1
    obtain ⟨r1, rfl⟩ := toks_head_op hk1
    rw [h1] at hk1 ⊢
    obtain ⟨hlen, hp1, hk2⟩ := toks_data_inv (by decide) (by decide) hk1
    have e32 : (0x20 : UInt8).toNat = 32 := by decide
    rw [e32] at hlen hk2
    rw [template_cons, if_neg (by omega)]
    rcases hrest with rfl | ⟨p2, rfl, hp2⟩
    · rw [toks_nil_inv hk2]; simp
    · obtain ⟨r2, hr2⟩ := toks_head_op hk2
      rw [hr2] at hk2 ⊢
      rcases hp2 with h | h | h <;> rw [h] at hk2 ⊢
      · obtain ⟨hl2, _, hk3⟩ := toks_data_inv (by decide) (by decide) hk2
        have := toks_nil_inv hk3
        have e : (0x08 : UInt8).toNat = 8 := by decide
        rw [e] at hl2 this
        have : r2.length = 8 := by
          have := List.drop_eq_nil_iff.mp this; omega
        simp [this]
      · obtain ⟨hl2, _, hk3⟩ := toks_data_inv (by decide) (by decide) hk2
        have := toks_nil_inv hk3
        have e : (0x14 : UInt8).toNat = 20 := by decide
        rw [e] at hl2 this
        have : r2.length = 20 := by
          have := List.drop_eq_nil_iff.mp this; omega
        simp [this]
      · obtain ⟨hl2, _, hk3⟩ := toks_data_inv (by decide) (by decide) hk2
        have := toks_nil_inv hk3
        have e : (0x16 : UInt8).toNat = 22 := by decide
        rw [e] at hl2 this
        have : r2.length = 22 := by
          have := List.drop_eq_nil_iff.mp this; omega
        simp [this]

end MW.Lemmas.ScriptTemplate
