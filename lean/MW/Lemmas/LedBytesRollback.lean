/-
  LedBytes, part 8 — Rollback's inner loop (`rollbackTx`) on bytes: existsTxRecord / readTxRecordLoc / FetchTxByFileLoc /
  Delete; the coinbase TxOut loop (existsCredit, Delete, ParsePkScript, the keystore lookup, existsUnspent + deleteRawUnspent +
  Amount.Sub, the address-record repair, the deposit record); for an ordinary transaction valueUnmined + putRawUnmined, the
  TxIn loop (putRawUnminedInput, existsDebit + deleteRawDebit, unspendRawCredit's value rewrite, the keystore lookup by
  script hash, fetchNsUnspentValueFromRawCredit + putRawUnspent, Amount.Add, unwithdrawGame) and the TxOut loop
  (existsCredit, deleteRawCredit, valueUnminedCreditFromMined + putRawUnminedCredit, …, putUnminedGameHistory) —
  and the simulation of each by MW.Model.Ledger (`rollbackAddr`, `rollbackOwnedOut`, `rollbackCbOut`, `rollbackIn`,
  `rollbackOut`, `rollbackTx`), error exits included, `CanonS` kept.
-/
import MW.Lemmas.LedBytesOps
namespace MW.LedBytes
open MW MW.Gen.Codec MW.Model.TxmgrCodec MW.TxmgrCodec MW.Model.Ledger

-- ------------------------------------------------------------------ transactions as the byte level sees them

structure OutB where
  addr : Bytes
  amt : Nat
  cls : Cls
def OutB.nm (N : Names) (o : OutB) : Out := ⟨N.adr o.addr, o.amt, o.cls⟩

structure InB where
  hash : Bytes
  index : Nat
  seq : Nat
def InB.nm (N : Names) (i : InB) : Inp := ⟨N.tx i.hash, i.index, i.seq⟩

/-- a transaction read from a block file: hash, inputs, parsed outputs, and its wire.DB serialization -/
structure TxB where
  hash : Bytes
  cb : Bool
  ins : List InB
  outs : List OutB
  ser : Bytes
def TxB.nm (N : Names) (t : TxB) : Tx := ⟨N.tx t.hash, t.cb, t.ins.map (InB.nm N), t.outs.map (OutB.nm N)⟩

structure TxB.WF (t : TxB) : Prop where
  hash : t.hash.length = 32
  ins : ∀ i ∈ t.ins, i.hash.length = 32 ∧ i.index < 256 ^ 4
  nIns : t.ins.length ≤ 256 ^ 4
  nOuts : t.outs.length ≤ 256 ^ 4

/-- the environment of Rollback at byte level: the node's block files (FetchTxByFileLoc) and the keystore
    (GetManagedAddressByStdAddress, GetManagedAddressByScriptHash), each tied to the ledger model's `Ctx` -/
structure RbEnv (E : Env) (c : Ctx) where
  fetch : TxLocB → Option TxB
  ownA : Bytes → Option (Bytes × Bool)
  ownS : Bytes → Option (Bytes × Bool)
  fetch_sim : ∀ l, c.node.txByFileLoc (E.loc l) = (fetch l).map (TxB.nm E.N)
  fetch_wf : ∀ l t, fetch l = some t → t.WF ∧ E.deser t.ser = t.nm E.N
  ownA_sim : ∀ a, AMap.get c.own (E.N.adr a) = (ownA a).map (fun x => (E.N.wal x.1, x.2))
  ownS_sim : ∀ h, AMap.get c.own (E.N.sh h) = (ownS h).map (fun x => (E.N.wal x.1, x.2))
  ownA_wf : ∀ a x, ownA a = some x → x.1.length = 42
  ownS_wf : ∀ h x, ownS h = some x → x.1.length = 42

-- ------------------------------------------------------------------ indexed loops

/-- simulation of an indexed error-exiting loop from the simulation of its body (`i < B`: the index fits its field) -/
theorem foldIdxM_sim {α αB β βB : Type} (absF : βB → β) (P : βB → Prop) (fB : βB → Nat → αB → M βB) (f : β → Nat → α → M β)
    (g : αB → α) (Q : αB → Prop) (B : Nat)
    (hstep : ∀ b i a, P b → Q a → i < B → (fB b i a).map absF = f (absF b) i (g a) ∧ ∀ b', fB b i a = .ok b' → P b') :
    ∀ (l : List αB) (n : Nat) (b : βB), P b → (∀ a ∈ l, Q a) → n + l.length ≤ B →
      (foldIdxM fB l n b).map absF = foldIdxM f (l.map g) n (absF b) ∧ ∀ b', foldIdxM fB l n b = .ok b' → P b' := by
  intro l
  induction l with
  | nil => intro n b hb _ _; exact ⟨rfl, fun b' h => by cases h; exact hb⟩
  | cons a l ih =>
    intro n b hb hq hn
    obtain ⟨h1, h2⟩ := hstep b n a hb (hq a List.mem_cons_self) (by simp at hn; omega)
    simp only [foldIdxM, List.map_cons]
    cases hf : fB b n a with
    | error e =>
      rw [hf] at h1
      rw [← h1]
      exact ⟨rfl, fun b' h => by cases h⟩
    | ok b1 =>
      rw [hf] at h1
      rw [← h1]
      exact ih (n + 1) b1 (h2 b1 hf) (fun x hx => hq x (List.mem_cons_of_mem _ hx)) (by simp at hn; omega)

-- ------------------------------------------------------------------ the address record repair

/-- Rollback: existsRawAddressRecord, readAddressHeight, putRawAddressRecord with height 0 -/
def rollbackAddrB (bs : BStore) (w : Bytes) (o : OutB) (cur : Nat) : BStore :=
  let ak := encode wKeyAddressRecord (AddrKeyB.vals ⟨w, boolNat o.cls.isStaking, o.addr⟩)
  match AMap.get bs.a ak with
  | some v => if cur > 0 && (readAddressHeight v).getD 0 = cur then { bs with a := AMap.put bs.a ak (valueAddressRecord 0) } else bs
  | none => bs

theorem nmAK_bool (N : Names) (w a : Bytes) (st : Bool) : nmAK N ⟨w, boolNat st, a⟩ = (N.wal w, st, N.adr a) := by
  cases st <;> rfl

theorem rollbackAddr_on_bytes (E : Env) {bs : BStore} (hC : CanonS E bs) {w : Bytes} (hw : w.length = 42) (o : OutB) (cur : Nat) :
    absStore E (rollbackAddrB bs w o cur) = rollbackAddr (absStore E bs) (E.N.wal w) (o.nm E.N) cur ∧
    CanonS E (rollbackAddrB bs w o cur) := by
  have hk := addrKey_wf (a := o.addr) hw o.cls.isStaking
  have hnm := nmAK_bool E.N w o.addr o.cls.isStaking
  unfold rollbackAddrB rollbackAddr
  simp only []
  rcases a_get E hC.a hk with ⟨g1, g2⟩ | ⟨v, hv, g1, g2⟩
  · rw [hnm] at g2
    have g2' : AMap.get (absStore E bs).addrs (E.N.wal w, (o.nm E.N).cls.isStaking, (o.nm E.N).addr) = none := g2
    rw [g1, g2']
    exact ⟨rfl, hC⟩
  · rw [hnm] at g2
    have g2' : AMap.get (absStore E bs).addrs (E.N.wal w, (o.nm E.N).cls.isStaking, (o.nm E.N).addr) = some v := g2
    have hr : readAddressHeight (valueAddressRecord v) = some v := (cdA_laws E.N).decV_encV v hv
    rw [g1, g2']
    simp only [hr, Option.getD_some]
    by_cases hc : (decide (cur > 0) && decide (v = cur)) = true
    · simp only [hc, if_true]
      obtain ⟨p1, p2⟩ := a_put E hC.a (k := ⟨w, boolNat o.cls.isStaking, o.addr⟩) (v := 0) hk (by decide)
      rw [hnm] at p1
      refine ⟨?_, { hC with a := p2 }⟩
      simp only [absStore]
      rw [p1]; rfl
    · simp only [hc, Bool.false_eq_true, if_false]
      exact ⟨trivial, hC⟩

-- ------------------------------------------------------------------ rollbackOwnedOut

def rollbackOwnedOutB (txh : Bytes) (blk : BlockMetaB) (sb : SB) (i : Nat) (o : OutB) (w : Bytes) : M SB :=
  if (AMap.get sb.1.u (canonicalUnspentKey ⟨w, txh, i⟩)).isSome then
    if getBalB sb.2 w < o.amt then throw (.other "balance underflow")
    else pure (rollbackAddrB { sb.1 with u := AMap.erase sb.1.u (canonicalUnspentKey ⟨w, txh, i⟩) } w o blk.height,
               AMap.put sb.2 w (getBalB sb.2 w - o.amt))
  else pure (rollbackAddrB sb.1 w o blk.height, sb.2)

theorem rollbackOwnedOut_on_bytes (E : Env) {sb : SB} (hC : CanonS E sb.1) {txh : Bytes} (hh : txh.length = 32)
    (blk : BlockMetaB) {i : Nat} (hi : i < 256 ^ 4) (o : OutB) {w : Bytes} (hw : w.length = 42) :
    (rollbackOwnedOutB txh blk sb i o w).map (absSB E)
      = rollbackOwnedOut (E.N.tx txh) (nmBlk E.N blk) (absSB E sb) i (o.nm E.N) (E.N.wal w) ∧
    ∀ sb', rollbackOwnedOutB txh blk sb i o w = .ok sb' → CanonS E sb'.1 := by
  have hk := unspentKey_wf hw hh hi
  have hhas : (AMap.get (absSB E sb).1.unspent (E.N.wal w, E.N.tx txh, i)).isSome
      = (AMap.get sb.1.u (canonicalUnspentKey ⟨w, txh, i⟩)).isSome := abs_has (cdU_laws E.N) hC.u hk
  have hbal : getBal (absSB E sb).2 (E.N.wal w) = getBalB sb.2 w := getBal_abs E.N sb.2 w
  unfold rollbackOwnedOutB rollbackOwnedOut
  rw [hhas, hbal]
  have hamt : (o.nm E.N).amt = o.amt := rfl
  rw [hamt]
  by_cases hp : (AMap.get sb.1.u (canonicalUnspentKey ⟨w, txh, i⟩)).isSome = true
  · simp only [hp, if_true]
    by_cases hb : getBalB sb.2 w < o.amt
    · simp only [hb, if_true]
      exact ⟨rfl, fun _ h => by cases h⟩
    · simp only [hb, if_false]
      obtain ⟨e1, e2⟩ := u_erase E hC.u hk
      have hC' : CanonS E { sb.1 with u := AMap.erase sb.1.u (canonicalUnspentKey ⟨w, txh, i⟩) } := { hC with u := e2 }
      obtain ⟨a1, a2⟩ := rollbackAddr_on_bytes E hC' hw o blk.height
      refine ⟨?_, fun sb' h => by cases h; exact a2⟩
      show Except.ok (absSB E _) = Except.ok _
      simp only [absSB]
      rw [a1, absBals_put]
      have e3 : absStore E { sb.1 with u := AMap.erase sb.1.u (canonicalUnspentKey ⟨w, txh, i⟩) }
          = { absStore E sb.1 with unspent := AMap.erase (absStore E sb.1).unspent (E.N.wal w, E.N.tx txh, i) } := by
        simp only [absStore]; rw [e1]; rfl
      rw [e3]; rfl
  · simp only [hp, Bool.false_eq_true, if_false]
    obtain ⟨a1, a2⟩ := rollbackAddr_on_bytes E hC hw o blk.height
    refine ⟨?_, fun sb' h => by cases h; exact a2⟩
    show Except.ok (absSB E _) = Except.ok _
    simp only [absSB]
    rw [a1]; rfl

-- ------------------------------------------------------------------ the coinbase TxOut loop

abbrev CbAcc := SB × List OutPointB
def absCb (E : Env) (x : CbAcc) : (Store × Bals) × List (TxId × Nat) := (absSB E x.1, x.2.map (nmOP E.N))

/-- Rollback, coinbase: body of the TxOut loop on bytes -/
def rollbackCbOutB {E : Env} {c : Ctx} (R : RbEnv E c) (txh : Bytes) (blk : BlockMetaB) (acc : CbAcc) (i : Nat) (o : OutB) :
    M CbAcc :=
  match AMap.get acc.1.1.c (keyCredit ⟨txh, blk, i⟩) with
  | none => pure acc
  | some _ =>
    let bs := { acc.1.1 with c := AMap.erase acc.1.1.c (keyCredit ⟨txh, blk, i⟩) }
    if o.cls = .raw then throw (.other "parse")
    else match R.ownA o.addr with
      | none => pure ((bs, acc.1.2), acc.2 ++ [⟨txh, i⟩])
      | some (w, _) => do
        let sb ← rollbackOwnedOutB txh blk (bs, acc.1.2) i o w
        if o.cls.isStaking || o.cls.isBinding then
          pure (({ sb.1 with lg := AMap.erase sb.1.lg (keyGameHistory ⟨w, o.cls.isBinding, false, txh, blk.height, i⟩) }, sb.2),
                acc.2 ++ [⟨txh, i⟩])
        else pure (sb, acc.2 ++ [⟨txh, i⟩])

theorem rollbackCbOut_on_bytes {E : Env} {c : Ctx} (R : RbEnv E c) {acc : CbAcc} (hC : CanonS E acc.1.1) {txh : Bytes}
    {blk : BlockMetaB} (hs : StepWF txh blk) {i : Nat} (hi : i < 256 ^ 4) (o : OutB) :
    (rollbackCbOutB R txh blk acc i o).map (absCb E)
      = rollbackCbOut c (E.N.tx txh) (nmBlk E.N blk) (absCb E acc) i (o.nm E.N) ∧
    ∀ acc', rollbackCbOutB R txh blk acc i o = .ok acc' → CanonS E acc'.1.1 := by
  have hck := credKey_wf hs hi
  unfold rollbackCbOutB rollbackCbOut
  simp only []
  have hcls : (o.nm E.N).cls = o.cls := rfl
  have hadr : (o.nm E.N).addr = E.N.adr o.addr := rfl
  rcases c_get E hC.c hck with ⟨g1, g2⟩ | ⟨v, hv, g1, g2⟩
  · have g2' : AMap.get (absCb E acc).1.1.credits ⟨E.N.tx txh, nmBlk E.N blk, i⟩ = none := g2
    rw [g1, g2']
    exact ⟨rfl, fun _ h => by cases h; exact hC⟩
  · have g2' : AMap.get (absCb E acc).1.1.credits ⟨E.N.tx txh, nmBlk E.N blk, i⟩ = some (nmCredit E.N v) := g2
    rw [g1, g2', hcls, hadr, R.ownA_sim]
    simp only []
    by_cases hraw : o.cls = .raw
    · simp only [hraw, if_true]
      exact ⟨rfl, fun _ h => by cases h⟩
    · simp only [hraw, if_false]
      obtain ⟨e1, e2⟩ := c_erase E hC.c hck
      have hC1 : CanonS E { acc.1.1 with c := AMap.erase acc.1.1.c (keyCredit ⟨txh, blk, i⟩) } := { hC with c := e2 }
      have e3 : absStore E { acc.1.1 with c := AMap.erase acc.1.1.c (keyCredit ⟨txh, blk, i⟩) }
          = { (absCb E acc).1.1 with credits := AMap.erase (absCb E acc).1.1.credits ⟨E.N.tx txh, nmBlk E.N blk, i⟩ } := by
        simp only [absStore, absCb, absSB]; rw [e1]; rfl
      cases ho : R.ownA o.addr with
      | none =>
        simp only [Option.map_none]
        refine ⟨?_, fun _ h => by cases h; exact hC1⟩
        show Except.ok (absCb E _) = Except.ok _
        simp only [absCb, absSB]
        rw [e3]
        simp [nmOP, absCb, absSB]
      | some x =>
        obtain ⟨w, ch⟩ := x
        have hw := R.ownA_wf _ _ ho
        simp only [Option.map_some]
        obtain ⟨r1, r2⟩ := rollbackOwnedOut_on_bytes E
          (sb := ({ acc.1.1 with c := AMap.erase acc.1.1.c (keyCredit ⟨txh, blk, i⟩) }, acc.1.2)) hC1 hs.txh blk hi o hw
        have r1' : rollbackOwnedOut (E.N.tx txh) (nmBlk E.N blk)
            ({ (absCb E acc).1.1 with credits := AMap.erase (absCb E acc).1.1.credits ⟨E.N.tx txh, nmBlk E.N blk, i⟩ },
              (absCb E acc).1.2) i (o.nm E.N) (E.N.wal w)
            = (rollbackOwnedOutB txh blk ({ acc.1.1 with c := AMap.erase acc.1.1.c (keyCredit ⟨txh, blk, i⟩) }, acc.1.2) i o w).map (absSB E) := by
          rw [r1, ← e3]; rfl
        rw [r1']
        cases hf : rollbackOwnedOutB txh blk ({ acc.1.1 with c := AMap.erase acc.1.1.c (keyCredit ⟨txh, blk, i⟩) }, acc.1.2) i o w with
        | error e => exact ⟨rfl, fun _ h => by cases h⟩
        | ok sb =>
          have hC2 := r2 sb hf
          simp only [bind, Except.bind, Except.map]
          by_cases hg : (o.cls.isStaking || o.cls.isBinding) = true
          · simp only [hg, if_true]
            have hgk := gameKey_wf hw hs.txh o.cls.isBinding false hs.ht hi
            obtain ⟨l1, l2⟩ := lg_erase E hC2.lg hgk
            refine ⟨?_, fun _ h => by cases h; exact { hC2 with lg := l2 }⟩
            show Except.ok (absCb E _) = Except.ok _
            simp only [absCb, absSB, absStore]
            rw [l1]
            simp [nmOP, nmGK, nmBlk]
          · simp only [hg, Bool.false_eq_true, if_false]
            refine ⟨?_, fun _ h => by cases h; exact hC2⟩
            show Except.ok (absCb E _) = Except.ok _
            simp [absCb, absSB, nmOP]

-- ------------------------------------------------------------------ the TxIn loop of an ordinary transaction

/-- putRawUnminedInput: Get, append the 32-byte spender hash, Put -/
def putPendInB (mi : AMap.T Bytes Bytes) (k spender : Bytes) : AMap.T Bytes Bytes :=
  AMap.put mi k ((AMap.get mi k).getD [] ++ spender)

theorem putPendIn_on_bytes (E : Env) {mi : AMap.T Bytes Bytes} (hm : Canon (cdMI E.N) mi) {op : OutPointB} (hop : op.WF = true)
    {sp : Bytes} (hsp : sp.length = 32) :
    absBucket (cdMI E.N) (putPendInB mi (canonicalOutPoint op) sp)
      = putPendIn (absBucket (cdMI E.N) mi) (nmOP E.N op) (E.N.tx sp) ∧
    Canon (cdMI E.N) (putPendInB mi (canonicalOutPoint op) sp) := by
  unfold putPendInB putPendIn
  rcases mi_get E hm hop with ⟨g1, g2⟩ | ⟨v, hv, g1, g2⟩
  · rw [g1, g2]
    have hwf : ∀ h ∈ [sp], h.length = 32 := by intro h hh; simp at hh; rw [hh]; exact hsp
    obtain ⟨p1, p2⟩ := mi_put E hm (k := op) (v := [sp]) hop hwf
    simp only [List.flatten_cons, List.flatten_nil, List.append_nil, List.map_cons, List.map_nil] at p1 p2
    exact ⟨p1, p2⟩
  · rw [g1, g2]
    have hwf : ∀ h ∈ v ++ [sp], h.length = 32 := by
      intro h hh
      rcases List.mem_append.mp hh with h1 | h1
      · exact hv h h1
      · simp at h1; rw [h1]; exact hsp
    obtain ⟨p1, p2⟩ := mi_put E hm (k := op) (v := v ++ [sp]) hop hwf
    simp only [List.flatten_append, List.flatten_cons, List.flatten_nil, List.append_nil, List.map_append, List.map_cons,
      List.map_nil] at p1 p2
    exact ⟨p1, p2⟩

theorem nmCls_staking (c : ClassB) : decide (nmCls c = UClass.staking) = decide (c = ClassB.staking) := by cases c <;> rfl
theorem nmCls_binding (c : ClassB) : decide (nmCls c = UClass.binding) = decide (c = ClassB.binding) := by cases c <;> rfl

/-- Rollback, ordinary tx: body of the TxIn loop on bytes -/
def rollbackInB {E : Env} {c : Ctx} (R : RbEnv E c) (txh : Bytes) (blk : BlockMetaB) (sb : SB) (cur : Nat) (inp : InB) : M SB :=
  let bs := { sb.1 with mi := putPendInB sb.1.mi (canonicalOutPoint ⟨inp.hash, inp.index⟩) txh }
  match AMap.get bs.d (keyDebit ⟨txh, blk, cur⟩) with
  | none => pure (bs, sb.2)
  | some dv =>
    match readDebitCredKey dv with                                   -- existsDebit: len(v) < 84
    | none => throw (.other "short debit value")
    | some ck =>
      let bs := { bs with d := AMap.erase bs.d (keyDebit ⟨txh, blk, cur⟩) }
      match AMap.get bs.c ck with                                    -- unspendRawCredit
      | none => throw (.other "unspend non-existent credit")
      | some cv =>
        let newv := unspendCreditValue cv
        let bs := { bs with c := AMap.put bs.c ck newv }
        match readCreditValue newv with
        | none => throw (.other "readCreditValue")
        | some cred =>
          match R.ownS cred.scriptHash with                          -- GetManagedAddressByScriptHash
          | none => pure (bs, sb.2)
          | some (w, _) =>
            match fetchNsUnspentValueFromRawCredit ck, readRawCreditKey ck with
            | some uv, some k =>
              let bs := { bs with u := AMap.put bs.u (canonicalUnspentKey ⟨w, inp.hash, inp.index⟩) uv }
              let bals := AMap.put sb.2 w (getBalB sb.2 w + cred.amount)
              if cred.cls = .staking || cred.cls = .binding then
                let gk : GameKeyB := ⟨w, cred.cls = .binding, true, inp.hash, k.block.height, inp.index⟩
                if gameMissing bs.lg (keyGameHistory gk) then throw (.other "unwithdraw game not found")
                else pure ({ bs with
                    lg := AMap.put (AMap.erase bs.lg (keyGameHistory gk)) (keyGameHistory { gk with withdrawn := false })
                            Model.TxmgrCodec.valueGameHistory }, bals)
              else pure (bs, bals)
            | _, _ => throw (.other "short credit key")

theorem rollbackIn_on_bytes {E : Env} {c : Ctx} (R : RbEnv E c) {sb : SB} (hC : CanonS E sb.1) {txh : Bytes}
    {blk : BlockMetaB} (hs : StepWF txh blk) {cur : Nat} (hcur : cur < 256 ^ 4) {inp : InB} (hih : inp.hash.length = 32)
    (hii : inp.index < 256 ^ 4) :
    (rollbackInB R txh blk sb cur inp).map (absSB E)
      = rollbackIn c (E.N.tx txh) (nmBlk E.N blk) (absSB E sb) cur (inp.nm E.N) ∧
    ∀ sb', rollbackInB R txh blk sb cur inp = .ok sb' → CanonS E sb'.1 := by
  have hop : (⟨inp.hash, inp.index⟩ : OutPointB).WF = true := outPoint_wf_mk hih hii
  obtain ⟨m1, m2⟩ := putPendIn_on_bytes E hC.mi hop hs.txh
  have hdk := debitKey_wf hs hcur
  have hC1 : CanonS E { sb.1 with mi := putPendInB sb.1.mi (canonicalOutPoint ⟨inp.hash, inp.index⟩) txh } := { hC with mi := m2 }
  have e1 : absStore E { sb.1 with mi := putPendInB sb.1.mi (canonicalOutPoint ⟨inp.hash, inp.index⟩) txh }
      = { (absSB E sb).1 with pendIns := putPendIn (absSB E sb).1.pendIns ((inp.nm E.N).tx, (inp.nm E.N).idx) (E.N.tx txh) } := by
    simp only [absStore, absSB]; rw [m1]; rfl
  unfold rollbackInB rollbackIn
  simp only []
  rcases d_get E hC.d hdk with ⟨g1, g2⟩ | ⟨dv, hdv, g1, g2⟩
  · have g2' : AMap.get (absSB E sb).1.debits
        ⟨E.N.tx txh, nmBlk E.N blk, cur⟩ = none := g2
    rw [g1, g2']
    refine ⟨?_, fun _ h => by cases h; exact hC1⟩
    show Except.ok (absSB E _) = Except.ok _
    simp only [absSB]
    rw [e1]; rfl
  · have g2' : AMap.get (absSB E sb).1.debits
        ⟨E.N.tx txh, nmBlk E.N blk, cur⟩ = some (dv.1, nmCK E.N dv.2) := g2
    obtain ⟨amt, ckB⟩ := dv
    obtain ⟨hamt, hckB⟩ := hdv
    have hrd : readDebitCredKey (valueDebit amt (keyCredit ckB)) = some (keyCredit ckB) :=
      readDebitCredKey_valueDebit amt _ hamt (keyCredit_length ckB hckB)
    rw [g1, g2']
    simp only [hrd]
    obtain ⟨d1, d2⟩ := d_erase E hC.d hdk
    rcases c_get E hC.c hckB with ⟨c1, c2⟩ | ⟨x, hx, c1, c2⟩
    · have c2' : AMap.get (absSB E sb).1.credits
          (nmCK E.N ckB) = none := c2
      rw [c1, c2']
      exact ⟨rfl, fun _ h => by cases h⟩
    · have c2' : AMap.get (absSB E sb).1.credits
          (nmCK E.N ckB) = some (nmCredit E.N x) := c2
      rw [c1, c2']
      simp only []
      obtain ⟨cr, spo⟩ := x
      obtain ⟨hcr, _, _⟩ := hx
      have hcr' : ({ cr with spent := false } : CreditValB).WF := hcr
      have hun : unspendCreditValue (encCredit (cr, spo)) = enc45 { cr with spent := false } := by
        cases spo with
        | none => have := unspendCreditValue_enc45 cr hcr []; rwa [List.append_nil] at this
        | some dk => exact unspendCreditValue_enc45 cr hcr _
      have hrc : readCreditValue (enc45 { cr with spent := false }) = some { cr with spent := false } := by
        have := readCreditValue_enc45 _ hcr' []; rwa [List.append_nil] at this
      rw [hun, hrc]
      simp only []
      have hwfc : wfCredit (({ cr with spent := false } : CreditValB), none) := ⟨hcr', rfl, fun _ h => by cases h⟩
      obtain ⟨p1, p2⟩ : absBucket (cdC E.N) (AMap.put sb.1.c (keyCredit ckB) (enc45 { cr with spent := false }))
            = AMap.put (absBucket (cdC E.N) sb.1.c) (nmCK E.N ckB) (nmCredit E.N ({ cr with spent := false }, none)) ∧
          Canon (cdC E.N) (AMap.put sb.1.c (keyCredit ckB) (enc45 { cr with spent := false })) :=
        c_put E hC.c (k := ckB) (v := ({ cr with spent := false }, none)) hckB hwfc
      have hsh : (nmCredit E.N (cr, spo)).sh = E.N.sh cr.scriptHash := rfl
      rw [hsh, R.ownS_sim]
      -- the store after the mi / d / c writes
      have hC2 : CanonS E { sb.1 with
            mi := putPendInB sb.1.mi (canonicalOutPoint ⟨inp.hash, inp.index⟩) txh,
            d := AMap.erase sb.1.d (keyDebit ⟨txh, blk, cur⟩),
            c := AMap.put sb.1.c (keyCredit ckB) (enc45 { cr with spent := false }) } :=
            
        { hC with mi := m2, d := d2, c := p2 }
      have e2 : absStore E { sb.1 with
            mi := putPendInB sb.1.mi (canonicalOutPoint ⟨inp.hash, inp.index⟩) txh,
            d := AMap.erase sb.1.d (keyDebit ⟨txh, blk, cur⟩),
            c := AMap.put sb.1.c (keyCredit ckB) (enc45 { cr with spent := false }) }
            
          = { absStore E sb.1 with
                pendIns := putPendIn (absStore E sb.1).pendIns (E.N.tx inp.hash, inp.index) (E.N.tx txh),
                debits := AMap.erase (absStore E sb.1).debits ⟨E.N.tx txh, nmBlk E.N blk, cur⟩,
                credits := AMap.put (absStore E sb.1).credits (nmCK E.N ckB) (nmCredit E.N ({ cr with spent := false }, none)) } := by
        simp only [absStore]; rw [m1, d1, p1]; rfl
      cases ho : R.ownS cr.scriptHash with
      | none =>
        simp only [Option.map_none]
        refine ⟨?_, fun _ h => by cases h; exact hC2⟩
        show Except.ok (absSB E _) = Except.ok _
        simp only [absSB]
        rw [e2]; rfl
      | some wx =>
        obtain ⟨w, ch⟩ := wx
        have hw := R.ownS_wf _ _ ho
        simp only [Option.map_some]
        rw [unspentValue_of_keyCredit ckB hckB, readRawCreditKey_keyCredit ckB hckB]
        simp only []
        have hckB' := hckB
        simp [CredKeyB.WF, CredKeyB.vals, Fits, FitsV, wKeyCredit, Kind.isBytes] at hckB'
        obtain ⟨_, hcbt, hcbh, _⟩ := hckB'
        have hbwf : ckB.block.WF = true := by
          simp [BlockMetaB.WF, BlockMetaB.vals, Fits, FitsV, wValueUnspent, Kind.isBytes, hcbh]; exact hcbt
        have huk := unspentKey_wf hw hih hii
        obtain ⟨u1, u2⟩ := u_put E hC.u (k := ⟨w, inp.hash, inp.index⟩) (v := ckB.block) huk hbwf
        have hC3 : CanonS E { sb.1 with
              mi := putPendInB sb.1.mi (canonicalOutPoint ⟨inp.hash, inp.index⟩) txh,
              d := AMap.erase sb.1.d (keyDebit ⟨txh, blk, cur⟩),
              c := AMap.put sb.1.c (keyCredit ckB) (enc45 { cr with spent := false }),
              u := AMap.put sb.1.u (canonicalUnspentKey ⟨w, inp.hash, inp.index⟩) (valueUnspent ckB.block) } :=
              
          { hC with mi := m2, d := d2, c := p2, u := u2 }
        have e3 : absStore E { sb.1 with
              mi := putPendInB sb.1.mi (canonicalOutPoint ⟨inp.hash, inp.index⟩) txh,
              d := AMap.erase sb.1.d (keyDebit ⟨txh, blk, cur⟩),
              c := AMap.put sb.1.c (keyCredit ckB) (enc45 { cr with spent := false }),
              u := AMap.put sb.1.u (canonicalUnspentKey ⟨w, inp.hash, inp.index⟩) (valueUnspent ckB.block) }
              
            = { absStore E sb.1 with
                  pendIns := putPendIn (absStore E sb.1).pendIns (E.N.tx inp.hash, inp.index) (E.N.tx txh),
                  debits := AMap.erase (absStore E sb.1).debits ⟨E.N.tx txh, nmBlk E.N blk, cur⟩,
                  credits := AMap.put (absStore E sb.1).credits (nmCK E.N ckB) (nmCredit E.N ({ cr with spent := false }, none)),
                  unspent := AMap.put (absStore E sb.1).unspent (E.N.wal w, E.N.tx inp.hash, inp.index) (nmBlk E.N ckB.block) } := by
          simp only [absStore]; rw [m1, d1, p1, u1]; rfl
        have hbals : absBals E.N (AMap.put sb.2 w (getBalB sb.2 w + cr.amount))
            = AMap.put (absBals E.N sb.2) (E.N.wal w) (getBal (absBals E.N sb.2) (E.N.wal w) + cr.amount) := by
          rw [absBals_put, getBal_abs]
        have hclsS : decide ((nmCredit E.N (cr, spo)).cls = UClass.staking) = decide (cr.cls = ClassB.staking) := nmCls_staking cr.cls
        have hclsB : decide ((nmCredit E.N (cr, spo)).cls = UClass.binding) = decide (cr.cls = ClassB.binding) := nmCls_binding cr.cls
        by_cases hg : (decide (cr.cls = ClassB.staking) || decide (cr.cls = ClassB.binding)) = true
        · have hg' : (decide ((nmCredit E.N (cr, spo)).cls = UClass.staking) || decide ((nmCredit E.N (cr, spo)).cls = UClass.binding)) = true := by
            rw [hclsS, hclsB]; exact hg
          simp only [hg, hg', if_true]
          have hgk := gameKey_wf hw hih (decide (cr.cls = ClassB.binding)) true hcbt hii
          have hgk' := gameKey_wf hw hih (decide (cr.cls = ClassB.binding)) false hcbt hii
          rcases lg_get E hC.lg hgk with ⟨l1, l2⟩ | ⟨_, _, l1, l2⟩
          · have hm : gameMissing sb.1.lg (keyGameHistory ⟨w, decide (cr.cls = ClassB.binding), true, inp.hash, ckB.block.height, inp.index⟩) = true := by
              unfold gameMissing; rw [l1]; rfl
            simp only [hm, if_true]
            refine ⟨?_, fun _ h => by cases h⟩
            show Except.error _ = _
            simp only [nmGK] at l2
            simp only [hclsB]
            simp only [InB.nm, nmCK, nmBlk, nmCredit, absSB, absStore]
            simp only [l2]; rfl
          · have hm : gameMissing sb.1.lg (keyGameHistory ⟨w, decide (cr.cls = ClassB.binding), true, inp.hash, ckB.block.height, inp.index⟩) = false := by
              unfold gameMissing; rw [l1]; rfl
            simp only [hm, Bool.false_eq_true, if_false]
            obtain ⟨x1, x2⟩ := lg_erase E hC.lg hgk
            obtain ⟨y1, y2⟩ := lg_put E x2 (k := ⟨w, decide (cr.cls = ClassB.binding), false, inp.hash, ckB.block.height, inp.index⟩) (v := ()) hgk' trivial
            rw [x1] at y1
            refine ⟨?_, fun _ h => by cases h; exact { hC3 with lg := y2 }⟩
            show Except.ok (absSB E _) = _
            simp only [absSB, absStore]
            rw [m1, d1, p1, u1, y1, hbals]
            simp only [nmGK] at l2
            simp only [hclsB]
            simp only [InB.nm, nmCredit, nmGK, nmCK, nmBlk, nmOP]
            simp only [l2]
            rfl
        · have hg' : ¬ (decide ((nmCredit E.N (cr, spo)).cls = UClass.staking) || decide ((nmCredit E.N (cr, spo)).cls = UClass.binding)) = true := by
            rw [hclsS, hclsB]; exact hg
          simp only [hg, hg', Bool.false_eq_true, if_false]
          refine ⟨?_, fun _ h => by cases h; exact hC3⟩
          show Except.ok (absSB E _) = Except.ok _
          simp only [absSB]
          rw [e3, hbals]; rfl

-- ------------------------------------------------------------------ the TxOut loop of an ordinary transaction

/-- Rollback, ordinary tx: body of the TxOut loop on bytes -/
def rollbackOutB {E : Env} {c : Ctx} (R : RbEnv E c) (txh : Bytes) (blk : BlockMetaB) (sb : SB) (i : Nat) (o : OutB) : M SB :=
  match AMap.get sb.1.c (keyCredit ⟨txh, blk, i⟩) with
  | none => pure sb
  | some cv =>
    match valueUnminedCreditFromMined cv with
    | none => throw (.other "short credit value")
    | some mv =>
      let bs := { sb.1 with
          c := AMap.erase sb.1.c (keyCredit ⟨txh, blk, i⟩),
          mc := AMap.put sb.1.mc (canonicalOutPoint ⟨txh, i⟩) mv }
      if o.cls = .raw then throw (.other "parse")
      else match R.ownA o.addr with
        | none => pure (bs, sb.2)
        | some (w, _) => do
          let sb' ← rollbackOwnedOutB txh blk (bs, sb.2) i o w
          if o.cls.isStaking || o.cls.isBinding then
            pure ({ sb'.1 with
                lg := AMap.erase sb'.1.lg (keyGameHistory ⟨w, o.cls.isBinding, false, txh, blk.height, i⟩),
                LG := AMap.put sb'.1.LG (keyUnminedGameHistory ⟨w, o.cls.isBinding, false, txh, 0, i⟩)
                        Model.TxmgrCodec.valueGameHistory }, sb'.2)
          else pure sb'

theorem rollbackOut_on_bytes {E : Env} {c : Ctx} (R : RbEnv E c) {sb : SB} (hC : CanonS E sb.1) {txh : Bytes}
    {blk : BlockMetaB} (hs : StepWF txh blk) {i : Nat} (hi : i < 256 ^ 4) (o : OutB) :
    (rollbackOutB R txh blk sb i o).map (absSB E)
      = rollbackOut c (E.N.tx txh) (nmBlk E.N blk) (absSB E sb) i (o.nm E.N) ∧
    ∀ sb', rollbackOutB R txh blk sb i o = .ok sb' → CanonS E sb'.1 := by
  have hck := credKey_wf hs hi
  have hop : (⟨txh, i⟩ : OutPointB).WF = true := outPoint_wf_mk hs.txh hi
  unfold rollbackOutB rollbackOut
  simp only []
  have hcls : (o.nm E.N).cls = o.cls := rfl
  have hadr : (o.nm E.N).addr = E.N.adr o.addr := rfl
  rcases c_get E hC.c hck with ⟨g1, g2⟩ | ⟨v, hv, g1, g2⟩
  · have g2' : AMap.get (absSB E sb).1.credits ⟨E.N.tx txh, nmBlk E.N blk, i⟩ = none := g2
    rw [g1, g2']
    exact ⟨rfl, fun _ h => by cases h; exact hC⟩
  · have g2' : AMap.get (absSB E sb).1.credits ⟨E.N.tx txh, nmBlk E.N blk, i⟩ = some (nmCredit E.N v) := g2
    obtain ⟨cr, spo⟩ := v
    obtain ⟨hcr, _, _⟩ := hv
    have hmv : valueUnminedCreditFromMined (encCredit (cr, spo)) = some (enc45 cr) := by
      cases spo with
      | none => have := unminedFromMined_enc45 cr hcr []; rwa [List.append_nil] at this
      | some dk => exact unminedFromMined_enc45 cr hcr _
    rw [g1, g2', hcls, hadr, R.ownA_sim]
    simp only [hmv]
    by_cases hraw : o.cls = .raw
    · simp only [hraw, if_true]
      exact ⟨rfl, fun _ h => by cases h⟩
    · simp only [hraw, if_false]
      obtain ⟨e1, e2⟩ := c_erase E hC.c hck
      obtain ⟨q1, q2⟩ := mc_put E hC.mc (k := ⟨txh, i⟩) (v := cr) hop hcr
      have hC1 : CanonS E { sb.1 with
          c := AMap.erase sb.1.c (keyCredit ⟨txh, blk, i⟩),
          mc := AMap.put sb.1.mc (canonicalOutPoint ⟨txh, i⟩) (enc45 cr) } := { hC with c := e2, mc := q2 }
      have e3 : absStore E { sb.1 with
          c := AMap.erase sb.1.c (keyCredit ⟨txh, blk, i⟩),
          mc := AMap.put sb.1.mc (canonicalOutPoint ⟨txh, i⟩) (enc45 cr) }
          = { (absSB E sb).1 with
                credits := AMap.erase (absSB E sb).1.credits ⟨E.N.tx txh, nmBlk E.N blk, i⟩,
                pendCred := AMap.put (absSB E sb).1.pendCred (E.N.tx txh, i) { (nmCredit E.N (cr, spo)) with spentBy := none } } := by
        simp only [absStore, absSB]; rw [e1, q1]; rfl
      cases ho : R.ownA o.addr with
      | none =>
        simp only [Option.map_none]
        refine ⟨?_, fun _ h => by cases h; exact hC1⟩
        show Except.ok (absSB E _) = Except.ok _
        simp only [absSB]
        rw [e3]; rfl
      | some x =>
        obtain ⟨w, ch⟩ := x
        have hw := R.ownA_wf _ _ ho
        simp only [Option.map_some]
        obtain ⟨r1, r2⟩ := rollbackOwnedOut_on_bytes E
          (sb := ({ sb.1 with
              c := AMap.erase sb.1.c (keyCredit ⟨txh, blk, i⟩),
              mc := AMap.put sb.1.mc (canonicalOutPoint ⟨txh, i⟩) (enc45 cr) }, sb.2)) hC1 hs.txh blk hi o hw
        have r1' : rollbackOwnedOut (E.N.tx txh) (nmBlk E.N blk)
            ({ (absSB E sb).1 with
                credits := AMap.erase (absSB E sb).1.credits ⟨E.N.tx txh, nmBlk E.N blk, i⟩,
                pendCred := AMap.put (absSB E sb).1.pendCred (E.N.tx txh, i) { (nmCredit E.N (cr, spo)) with spentBy := none } },
              (absSB E sb).2) i (o.nm E.N) (E.N.wal w)
            = (rollbackOwnedOutB txh blk ({ sb.1 with
                  c := AMap.erase sb.1.c (keyCredit ⟨txh, blk, i⟩),
                  mc := AMap.put sb.1.mc (canonicalOutPoint ⟨txh, i⟩) (enc45 cr) }, sb.2) i o w).map (absSB E) := by
          rw [r1, ← e3]; rfl
        rw [r1']
        cases hf : rollbackOwnedOutB txh blk ({ sb.1 with
                  c := AMap.erase sb.1.c (keyCredit ⟨txh, blk, i⟩),
                  mc := AMap.put sb.1.mc (canonicalOutPoint ⟨txh, i⟩) (enc45 cr) }, sb.2) i o w with
        | error e => exact ⟨rfl, fun _ h => by cases h⟩
        | ok sb1 =>
          have hC2 := r2 sb1 hf
          simp only [bind, Except.bind, Except.map]
          by_cases hg : (o.cls.isStaking || o.cls.isBinding) = true
          · simp only [hg, if_true]
            have hgk := gameKey_wf hw hs.txh o.cls.isBinding false hs.ht hi
            have huk : (⟨w, o.cls.isBinding, false, txh, 0, i⟩ : GameKeyB).WFu = true ∧
                (⟨w, o.cls.isBinding, false, txh, 0, i⟩ : GameKeyB).withdrawn = false ∧
                (⟨w, o.cls.isBinding, false, txh, 0, i⟩ : GameKeyB).height = 0 :=
              ⟨ugameKey_wf hw hs.txh o.cls.isBinding hi, rfl, rfl⟩
            obtain ⟨l1, l2⟩ := lg_erase E hC2.lg hgk
            obtain ⟨k1, k2⟩ := LG_put E hC2.LG (k := ⟨w, o.cls.isBinding, false, txh, 0, i⟩) (v := ()) huk trivial
            refine ⟨?_, fun _ h => by cases h; exact { hC2 with lg := l2, LG := k2 }⟩
            show Except.ok (absSB E _) = Except.ok _
            simp only [absSB, absStore]
            rw [l1, k1]
            simp [nmGK, nmUGK, nmBlk]
          · simp only [hg, Bool.false_eq_true, if_false]
            exact ⟨rfl, fun _ h => by cases h; exact hC2⟩

-- ------------------------------------------------------------------ rollbackTx

abbrev RbRes := SB × List OutPointB
def absRb (E : Env) (x : RbRes) : Store × Bals × List (TxId × Nat) := (absStore E x.1.1, absBals E.N x.1.2, x.2.map (nmOP E.N))

/-- Rollback: one transaction of one block record, on bytes (`time`: the block record's timestamp, written back as the
    received time of the pending record) -/
def rollbackTxB {E : Env} {c : Ctx} (R : RbEnv E c) (txh : Bytes) (blk : BlockMetaB) (time : Nat) (sb : SB) : M RbRes :=
  match AMap.get sb.1.t (keyTxRecord ⟨txh, blk⟩) with
  | none => pure (sb, [])
  | some tv =>
    match readTxRecordLoc tv with
    | none => pure (sb, [])                                          -- "readTxRecordLoc failed": continue
    | some loc =>
      match R.fetch loc with
      | none => throw (.other "FetchTxByFileLoc")
      | some tx =>
        let bs := { sb.1 with t := AMap.erase sb.1.t (keyTxRecord ⟨txh, blk⟩) }
        if tx.cb then foldIdxM (rollbackCbOutB R txh blk) tx.outs 0 ((bs, sb.2), [])
        else do
          let bs := { bs with m := AMap.put bs.m txh (valueUnmined tx.ser (int64OfU64 time)) }
          let sb1 ← foldIdxM (rollbackInB R txh blk) tx.ins 0 (bs, sb.2)
          let sb2 ← foldIdxM (rollbackOutB R txh blk) tx.outs 0 sb1
          pure (sb2, [])

/-- **rollbackTx on bytes** -/
theorem rollbackTx_on_bytes {E : Env} {c : Ctx} (R : RbEnv E c) {sb : SB} (hC : CanonS E sb.1) {txh : Bytes}
    {blk : BlockMetaB} (hs : StepWF txh blk) {time : Nat} (htime : time < 256 ^ 8) :
    (rollbackTxB R txh blk time sb).map (absRb E)
      = rollbackTx c (absStore E sb.1) (absBals E.N sb.2) (nmBlk E.N blk) (E.N.tx txh) ∧
    ∀ x, rollbackTxB R txh blk time sb = .ok x → CanonS E x.1.1 := by
  have htk := txRecKey_wf hs
  unfold rollbackTxB rollbackTx
  rcases t_get E hC.t htk with ⟨g1, g2⟩ | ⟨loc, hloc, g1, g2⟩
  · have g2' : AMap.get (absStore E sb.1).txrecs (E.N.tx txh, nmBlk E.N blk) = none := g2
    rw [g1, g2']
    exact ⟨rfl, fun _ h => by cases h; exact hC⟩
  · have g2' : AMap.get (absStore E sb.1).txrecs (E.N.tx txh, nmBlk E.N blk) = some (E.loc loc) := g2
    rw [g1, g2']
    simp only [readTxRecordLoc_valueTxRecord loc hloc, R.fetch_sim]
    cases hf : R.fetch loc with
    | none => exact ⟨rfl, fun _ h => by cases h⟩
    | some tx =>
      obtain ⟨hwf, hser⟩ := R.fetch_wf _ _ hf
      simp only [Option.map_some]
      obtain ⟨t1, t2⟩ := t_erase E hC.t htk
      have hC1 : CanonS E { sb.1 with t := AMap.erase sb.1.t (keyTxRecord ⟨txh, blk⟩) } := { hC with t := t2 }
      have e1 : absStore E { sb.1 with t := AMap.erase sb.1.t (keyTxRecord ⟨txh, blk⟩) }
          = { absStore E sb.1 with txrecs := AMap.erase (absStore E sb.1).txrecs (E.N.tx txh, nmBlk E.N blk) } := by
        simp only [absStore]; rw [t1]; rfl
      have hcb : (tx.nm E.N).cb = tx.cb := rfl
      have houts : (tx.nm E.N).outs = tx.outs.map (OutB.nm E.N) := rfl
      have hins : (tx.nm E.N).ins = tx.ins.map (InB.nm E.N) := rfl
      rw [hcb, houts, hins]
      by_cases hc : tx.cb = true
      · simp only [hc, if_true]
        obtain ⟨f1, f2⟩ := foldIdxM_sim (absCb E) (fun a => CanonS E a.1.1) (rollbackCbOutB R txh blk)
          (rollbackCbOut c (E.N.tx txh) (nmBlk E.N blk)) (OutB.nm E.N) (fun _ => True) (256 ^ 4)
          (fun b i a hb _ hi => rollbackCbOut_on_bytes R hb hs hi a) tx.outs 0
          (({ sb.1 with t := AMap.erase sb.1.t (keyTxRecord ⟨txh, blk⟩) }, sb.2), []) hC1 (fun _ _ => trivial)
          (by simpa using hwf.nOuts)
        have f1' : foldIdxM (rollbackCbOut c (E.N.tx txh) (nmBlk E.N blk)) (tx.outs.map (OutB.nm E.N)) 0
            (({ absStore E sb.1 with txrecs := AMap.erase (absStore E sb.1).txrecs (E.N.tx txh, nmBlk E.N blk) }, absBals E.N sb.2), [])
            = (foldIdxM (rollbackCbOutB R txh blk) tx.outs 0
                (({ sb.1 with t := AMap.erase sb.1.t (keyTxRecord ⟨txh, blk⟩) }, sb.2), [])).map (absCb E) := by
          rw [f1, ← e1]; rfl
        rw [f1']
        cases hr : foldIdxM (rollbackCbOutB R txh blk) tx.outs 0
            (({ sb.1 with t := AMap.erase sb.1.t (keyTxRecord ⟨txh, blk⟩) }, sb.2), []) with
        | error e => exact ⟨rfl, fun _ h => by cases h⟩
        | ok r => exact ⟨rfl, fun _ h => by cases h; exact f2 r hr⟩
      · simp only [hc, Bool.false_eq_true, if_false]
        have hmk : (cdM E.N E.deser).wfK txh := hs.txh
        obtain ⟨p1, p2⟩ := m_put E hC.m (k := txh) (v := (int64OfU64 time, tx.ser)) hs.txh (int64OfU64_range time htime)
        have hC2 : CanonS E { sb.1 with
            t := AMap.erase sb.1.t (keyTxRecord ⟨txh, blk⟩),
            m := AMap.put sb.1.m txh (valueUnmined tx.ser (int64OfU64 time)) } := { hC with t := t2, m := p2 }
        have e2 : absStore E { sb.1 with
            t := AMap.erase sb.1.t (keyTxRecord ⟨txh, blk⟩),
            m := AMap.put sb.1.m txh (valueUnmined tx.ser (int64OfU64 time)) }
            = { absStore E sb.1 with
                  txrecs := AMap.erase (absStore E sb.1).txrecs (E.N.tx txh, nmBlk E.N blk),
                  pending := AMap.put (absStore E sb.1).pending (E.N.tx txh) (tx.nm E.N) } := by
          simp only [absStore]; rw [t1, p1, hser]; rfl
        obtain ⟨i1, i2⟩ := foldIdxM_sim (absSB E) (fun a => CanonS E a.1) (rollbackInB R txh blk)
          (rollbackIn c (E.N.tx txh) (nmBlk E.N blk)) (InB.nm E.N) (fun i => i.hash.length = 32 ∧ i.index < 256 ^ 4) (256 ^ 4)
          (fun b i a hb ha hi => rollbackIn_on_bytes R hb hs hi ha.1 ha.2) tx.ins 0
          ({ sb.1 with
              t := AMap.erase sb.1.t (keyTxRecord ⟨txh, blk⟩),
              m := AMap.put sb.1.m txh (valueUnmined tx.ser (int64OfU64 time)) }, sb.2) hC2 hwf.ins (by simpa using hwf.nIns)
        have i1' : foldIdxM (rollbackIn c (E.N.tx txh) (nmBlk E.N blk)) (tx.ins.map (InB.nm E.N)) 0
            ({ absStore E sb.1 with
                  txrecs := AMap.erase (absStore E sb.1).txrecs (E.N.tx txh, nmBlk E.N blk),
                  pending := AMap.put (absStore E sb.1).pending (E.N.tx txh) (tx.nm E.N) }, absBals E.N sb.2)
            = (foldIdxM (rollbackInB R txh blk) tx.ins 0 ({ sb.1 with
                  t := AMap.erase sb.1.t (keyTxRecord ⟨txh, blk⟩),
                  m := AMap.put sb.1.m txh (valueUnmined tx.ser (int64OfU64 time)) }, sb.2)).map (absSB E) := by
          rw [i1, ← e2]; rfl
        simp only [bind, Except.bind]
        rw [i1']
        cases hr : foldIdxM (rollbackInB R txh blk) tx.ins 0 ({ sb.1 with
                  t := AMap.erase sb.1.t (keyTxRecord ⟨txh, blk⟩),
                  m := AMap.put sb.1.m txh (valueUnmined tx.ser (int64OfU64 time)) }, sb.2) with
        | error e => exact ⟨rfl, fun _ h => by cases h⟩
        | ok sb1 =>
          obtain ⟨o1, o2⟩ := foldIdxM_sim (absSB E) (fun a => CanonS E a.1) (rollbackOutB R txh blk)
            (rollbackOut c (E.N.tx txh) (nmBlk E.N blk)) (OutB.nm E.N) (fun _ => True) (256 ^ 4)
            (fun b i a hb _ hi => rollbackOut_on_bytes R hb hs hi a) tx.outs 0 sb1 (i2 sb1 hr) (fun _ _ => trivial)
            (by simpa using hwf.nOuts)
          simp only [Except.map]
          rw [← o1]
          cases hr2 : foldIdxM (rollbackOutB R txh blk) tx.outs 0 sb1 with
          | error e => exact ⟨rfl, fun _ h => by cases h⟩
          | ok sb2 => exact ⟨rfl, fun _ h => by cases h; exact o2 sb2 hr2⟩

end MW.LedBytes
