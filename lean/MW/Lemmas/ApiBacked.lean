/-
  C19, the contracts of outside code: CLASSIFICATION of every callee that carries a contract, and the REDUCED
  outcome theorem: for an oracle that answers the class-(a) callees by running the Lean models of the other
  properties (C16 script, C01 ledger, C15 amount, C04/C12 keystore), no run of an entry point ends in a broken
  contract of those callees – only the contracts of classes (a-), (b), (c), (d) remain assumptions.

  Classes (column of notes/C19.md, Round 4 table):
    model      (a)  the contract is PROVED here from another property's Lean model, which computes the answer
    modelOpen  (a-) follows from such a model but relates two calls of a run (needs a run invariant): not proved
    goLang     (b)  Go-language / library fact: non-nil result on nil error, non-nil slice elements, stdlib
    external   (c)  node services, chain database contents, consensus validity of delivered data
    internal   (d)  a fact about the anchored code itself, or about request serialisation, that the numeric
                    abstraction does not track (maps made by callers, counts of appended elements, …)
-/
import MW.Lemmas.ApiBackedScript
import MW.Lemmas.ApiBackedLedger
import MW.Lemmas.ApiBackedAmount
import MW.Lemmas.ApiBackedKeystore
import MW.Lemmas.ApiSafe
namespace MW.Lemmas.ApiBacked
open MW MW.Model.Api MW.Lemmas.ApiContracts

inductive CClass | model | modelOpen | goLang | external | internal
  deriving DecidableEq, Repr

/-- class of every callee of the model that carries a contract (`mark:*` nodes are the driver's stop points,
    not contracts of code) -/
def classTable : List (String × CClass) := [
  ("<-h.queueBlock", .internal),
  ("<-h.queueMsgTx", .internal),
  ("ChainID()", .external),
  ("FetchBlockByHeight", .external),
  ("FetchBlockShaByHeight", .external),
  ("FetchTransaction", .external),
  ("GetTransactionInDB", .external),
  ("Switch()", .external),
  ("WalletBalance result", .internal),
  ("acctM.Address", .model),
  ("addedExpireMempool", .internal),
  ("addr.(*massutil.AddressWitnessScriptHash)", .goLang),
  ("addrs elements", .goLang),
  ("am.Address(addr)", .internal),
  ("blocksToConnect.Front()", .internal),
  ("cache[txIn.PreviousOutPoint.Hash]", .internal),
  ("consensus: input refers to an existing output", .external),
  ("detail.Utxo.BindingTarget.(*massutil.AddressBindingTarget)", .goLang),
  ("fetcher.FetchScriptHashRelatedTx", .external),
  ("fetcher.FetchTxByLoc", .external),
  ("from is witAddr of a successful checkWitnessAddress", .internal),
  ("h.expiredMempool", .internal),
  ("h.expiredMempool[height] or a new map", .internal),
  ("h.mempool", .internal),
  ("h.mempool, h.expiredMempool", .internal),
  ("h.walletMgr.server.SyncManager()", .external),
  ("i = len-1-k", .internal),
  ("ks.Address(from)", .model),
  ("len(in.Inputs)", .internal),
  ("len(senders)", .internal),
  ("m0[ma.String()]", .internal),
  ("m1[ma.String()]", .internal),
  ("mStd[stakingAddr.StdAddress]", .internal),
  ("maps made by the caller", .internal),
  ("massutil.DecodeAddress", .goLang),
  ("massutil.IsWitnessStakingAddress(witAddr)", .goLang),
  ("massutil.IsWitnessV0Address(witAddr)", .goLang),
  ("massutil.NewAddressStakingScriptHash", .goLang),
  ("massutil.NewAddressStakingScriptHash(h[:])", .goLang),
  ("massutil.NewAddressWitnessScriptHash", .goLang),
  ("massutil.NewBlock(block).TxLoc()", .goLang),
  ("mtx.TxOut[i]", .goLang),
  ("newTailBlock := newBest", .internal),
  ("prevMtx.TxOut[i]", .goLang),
  ("prevTx.TxOut[i]", .goLang),
  ("range ManagedAddresses()", .goLang),
  ("range addrs", .goLang),
  ("range ads", .internal),
  ("range all", .goLang),
  ("range bals", .internal),
  ("range cres", .goLang),
  ("range detail.MsgTx.TxIn", .goLang),
  ("range details", .goLang),
  ("range infos", .external),
  ("range irrelevantTxs", .internal),
  ("range list", .goLang),
  ("range m", .goLang),
  ("range mas", .goLang),
  ("range mtx.TxIn", .goLang),
  ("range mtx.TxOut", .goLang),
  ("range selectedUtIndex", .internal),
  ("range stakingAddrs", .goLang),
  ("range stakingTxs", .external),
  ("range summaries", .internal),
  ("range v", .internal),
  ("range wss", .goLang),
  ("rec of a relevant transaction", .internal),
  ("recInCurBlk[txIn.PreviousOutPoint.Hash]", .internal),
  ("rest = num - count", .internal),
  ("reward.Weight", .external),
  ("s.node.Blockchain()", .external),
  ("s.node.SyncManager()", .external),
  ("s.node.TxMemPool()", .external),
  ("safetype.NewUint128FromInt", .goLang),
  ("safetype.NewUint128FromUint", .goLang),
  ("selections[0]", .internal),
  ("senders[0]", .internal),
  ("sort.Slice: less(i, j)", .goLang),
  ("strings.Split(s, \".\")", .model),
  ("target of a successful parseBindingTarget", .internal),
  ("target.ScriptAddress() of an AddressBindingTarget", .goLang),
  ("tx.Hash()", .goLang),
  ("tx.MsgTx()", .goLang),
  ("txReply[len(txReply)-1].Tx", .external),
  ("txmgr.NewTxRecordFromMsgTx", .goLang),
  ("txscript.ExtractPkScriptAddrs", .modelOpen),
  ("txscript.NewEngine", .goLang),
  ("u.AddInt", .goLang),
  ("u.AddUint(MaxwellPerMass)", .goLang),
  ("u.MulInt", .goLang),
  ("u.String", .model),
  ("utils.ParsePkScript", .model),
  ("w.chainFetcher.FetchBlockLocByHeight", .external),
  ("w.chainFetcher.FetchLastTxUntilHeight", .external),
  ("w.chainFetcher.FetchScriptHashRelatedTx", .external),
  ("w.chainFetcher.FetchTxByLoc", .external),
  ("w.ksmgr.ChainParams()", .goLang),
  ("w.ksmgr.CurrentKeystore()", .internal),
  ("w.ksmgr.GetAddrManager", .model),
  ("w.ksmgr.GetAddrManagerByAccountID", .model),
  ("w.ksmgr.GetAddrManagerByAccountID(new wallet)", .internal),
  ("w.ksmgr.GetManagedAddressByScriptHashInCurrent", .model),
  ("w.ksmgr.ImportKeystore", .goLang),
  ("w.ksmgr.ImportKeystoreWithMnemonic", .goLang),
  ("w.ksmgr.NextAddresses", .model),
  ("w.server.Blockchain()", .external),
  ("w.server.TxMemPool()", .external),
  ("w.syncStore.GetWalletStatus", .goLang),
  ("w.syncStore.SyncedTo", .goLang),
  ("w.txStore.ExistUnminedTx", .model),
  ("w.txStore.ExistsTx", .model),
  ("w.txStore.ExistsUtxo", .modelOpen),
  ("w.utxoStore.WalletBalance", .goLang),
  ("wire.NewHashFromStr", .goLang),
  ("wire.NewHashFromStr(input.TxId)", .goLang),
  ("wire.NewHashFromStr(txin.TxId)", .goLang)]

def classOf (f : String) : Option CClass := (classTable.find? (fun p => p.1 == f)).map (·.2)

def isMark (f : String) : Bool := f.startsWith "mark:"

/-- THE TABLE IS COMPLETE: every call node of the model with a non-empty contract is a driver mark or a
    classified callee (a contract added to the model without a class breaks this) -/
theorem classTable_complete :
    progCalls.all (fun c => c.2.2.isEmpty || isMark c.1 || (classOf c.1).isSome) = true := by decide +kernel

/-- … and lists no callee twice and none that the model does not call with a contract -/
theorem classTable_exact :
    (classTable.map (·.1)).Nodup ∧
    classTable.all (fun p => progCalls.any (fun c => c.1 == p.1 && !c.2.2.isEmpty)) = true := by decide +kernel

/-- the callees whose contracts are proved (class `model`) -/
def backedNames : List String := (classTable.filter (fun p => p.2 == .model)).map (·.1)

def isBacked (f : String) : Bool := backedNames.contains f

/-- the call nodes of the backed callees, as proved in MW.Lemmas.ApiBacked{Script,Ledger,Amount,Keystore} -/
def backedNodes : List CallNode :=
  parseNodes ++ [existsTxNode, existUnminedNode, splitNode, stringNode, nextAddressesNode] ++ lookupNodes

/-- every call node of a backed callee in the model is one of the proved nodes -/
theorem backedNodes_complete :
    progCalls.all (fun c => !isBacked c.1 || c.2.2.isEmpty || backedNodes.contains c) = true := by decide +kernel

/-- the oracle answers every class-(a) callee by running the corresponding Lean model -/
structure Backed (O : Oracle) : Prop where
  script : ScriptBacked O
  ledger : LedgerBacked O
  amount : AmountBacked O
  keystore : KeystoreBacked O

theorem backed_holds {O : Oracle} (h : Backed O) : ∀ c ∈ backedNodes, Holds O c := by
  intro c hc
  simp only [backedNodes, List.mem_append, List.mem_cons, List.not_mem_nil, or_false] at hc
  rcases hc with (hc | rfl | rfl | rfl | rfl | rfl) | hc
  · exact contract_script_ParsePkScript h.script c hc
  · exact contract_ledger_ExistsTx h.ledger
  · exact contract_ledger_ExistUnminedTx h.ledger
  · exact contract_amount_Split h.amount
  · exact contract_amount_String h.amount
  · exact contract_keystore_NextAddresses h.keystore
  · exact contract_keystore_lookups h.keystore c hc

/-- NO BROKEN CONTRACT OF A BACKED CALLEE: for every entry statement `invoke r`, budget and state -/
theorem no_backed_contract_fault {O : Oracle} (h : Backed O) (r n : Nat) (σ : State) (g : String)
    (hg : isBacked g = true) : run prog O n (.invoke r) σ ≠ .error (.contract g) := by
  apply no_contract_fault
  intro c hoc hcg
  have hmem := occurs_prog hoc
  have := List.all_eq_true.1 backedNodes_complete c hmem
  rw [hcg, hg] at this
  simp only [Bool.not_true, Bool.false_or, Bool.or_eq_true] at this
  rcases this with he | hb
  · intro τ
    have : c.2.2 = [] := by simpa using he
    simp [HoldsAt, this]
  · exact backed_holds h c (by simpa using hb)

/-- every position the model invokes is a table position -/
theorem progInvokes_defined : progInvokes.all (fun f => decide (f < Fn.count)) = true := by decide +kernel

theorem prog_defined (f : Nat) (h : f < Fn.count) : (prog f).isSome = true := by
  unfold prog
  split <;> simp [h]

/-- no run of an entry point ends in `unknownFn` -/
theorem no_unknownFn_root (O : Oracle) (r : Nat) (hr : r < Fn.count) (n : Nat) (σ : State) (f : Nat) :
    run prog O n (.invoke r) σ ≠ .error (.unknownFn f) := by
  apply no_unknownFn
  intro g hg
  rcases hg with hg | ⟨k, body, hk, hg⟩
  · simp only [invokesOf, List.mem_singleton] at hg
    subst hg; exact prog_defined _ hr
  · have := List.all_eq_true.1 progInvokes_defined g (prog_invokes_sub hk hg)
    exact prog_defined g (by simpa using this)

theorem rootIds_defined : MW.Lemmas.ApiSafe.rootIdList.all (fun r => decide (r < Fn.count)) = true := by decide +kernel

/-- REDUCED OUTCOME of an entry point for a backed oracle: a value, the budget, or a broken contract of a callee
    that is not backed -/
theorem reduced_outcome {O : Oracle} (hB : Backed O) (r : Nat) (hr : r ∈ MW.Lemmas.ApiSafe.rootIdList) (n : Nat) (σ : State) :
    (∃ fl, run prog O n (.invoke r) σ = .ok fl) ∨ run prog O n (.invoke r) σ = .error .fuel ∨
    ∃ g, isBacked g = false ∧ run prog O n (.invoke r) σ = .error (.contract g) := by
  have hlt : r < Fn.count := by simpa using List.all_eq_true.1 rootIds_defined r hr
  cases hrun : run prog O n (.invoke r) σ with
  | ok fl => exact Or.inl ⟨fl, rfl⟩
  | error e =>
    cases e with
    | panic k t =>
      exact absurd hrun (MW.Lemmas.ApiSound.safe_never_panics prog exports imports closed MW.Lemmas.ApiSafe.closed_ok
        (.invoke r) checkFuel (MW.Lemmas.ApiSafe.roots_safe r hr) O n σ k t)
    | contract g =>
      by_cases hg : isBacked g = true
      · exact absurd hrun (no_backed_contract_fault hB r n σ g hg)
      · exact Or.inr (Or.inr ⟨g, by simpa using hg, rfl⟩)
    | fuel => exact Or.inr (Or.inl rfl)
    | unknownFn f => exact absurd hrun (no_unknownFn_root O r hlt n σ f)

theorem followerRoots_mem : ∀ r ∈ [Fn.handle, Fn.worker, Fn.processConnectedBlock, Fn.proccessReceivedTx, Fn.asyncImport,
    Fn.asyncRemove, Fn.Start_wallet], r ∈ MW.Lemmas.ApiSafe.rootIdList := by decide +kernel

end MW.Lemmas.ApiBacked
