/-
  C07 stage 2 (first part): rescan batches interleaved with TIP EXTENSIONS, single restored keystore.
  While the restored wallet — the instance's only keystore — is importing, nobody is ready: a tip notification
  only moves the synced-to table (`filterBlock` with no ready wallet = `putSyncedTo`), so the scan invariant
  `Scan c w s k` ("the store holds the books of the chain up to the cursor") survives with the longer chain; once
  the rescan is done the wallet is followed live and C01's `connect_sound` keeps `Inv`.
-/
import MW.Lemmas.ImportExact
import MW.Lemmas.LedgerReorg2
import MW.Lemmas.LedgerWF2
namespace MW.Lemmas.ImportExact
open MW MW.Model.Ledger MW.Model.Import MW.Spec.Chain MW.Spec.Books MW.Lemmas.Ledger MW.Lemmas.ImportPlan

/-- the context after the node appended block `b` to its best chain -/
def extCtx (c : Ctx) (b : Block) : Ctx := { c with node := { c.node with chain := c.node.chain ++ [b] } }

theorem readyWallets_importing {s : Store} {w : Wid} {ws : WStatus} {k : Nat}
    (hst : AMap.get s.status w = some ws) (hk : ws.synced = some k) : readyWallets s [w] = [] := by
  unfold readyWallets
  simp [List.filter, hst, hk]

theorem readyWallets_done {s : Store} {w : Wid} (hst : AMap.get s.status w = some ⟨none, false⟩) :
    readyWallets s [w] = [w] := by
  unfold readyWallets
  simp [List.filter, hst]

/-- with no ready wallet a connected block only moves the synced-to table -/
theorem filterBlock_noReady {c : Ctx} {s s' : Store} {b : Block} (hb : c.node.blockAt b.height = some b)
    (hp : putSyncedTo s ⟨b.height, b.id⟩ = .ok s') : filterBlock c s [] b = .ok (s', []) := by
  unfold filterBlock
  simp only [hb, ne_eq, not_true_eq_false, if_false, List.isEmpty_nil, if_true, bind, Except.bind, pure,
    Except.pure, applyRelevant, purgeUnrelated, List.foldl_nil, hp, List.map_nil]

theorem extCtx_heights {c : Ctx} {b : Block} (hC : ChainOK (extCtx c b)) : b.height = c.node.chain.length := by
  apply hC.heights
  show (c.node.chain ++ [b])[c.node.chain.length]? = some b
  simp

theorem chainOK_of_ext {c : Ctx} {b : Block} (hC : ChainOK (extCtx c b)) : ChainOK c :=
  ⟨chainValid_prefix (b := [b]) hC.valid, heightsOK_prefix (c := [b]) hC.heights⟩

/-- **a tip extension while the only keystore is importing** keeps the scan invariant at the same cursor -/
theorem extend_scan {c : Ctx} {w : Wid} {s : Store} {v : Vol} {b : Block} {k : Nat} {ws : WStatus}
    (hws : c.wallets = [w]) (hC : ChainOK (extCtx c b)) (hS : Scan c w s k)
    (hst : AMap.get s.status w = some ws) (hk : ws.synced = some k)
    (hlen : k + 1 ≤ c.node.chain.length) (hprev : b.prev = v.best.hash) :
    ∃ s' v', processBlock (extCtx c b) s v b = (s', v', true) ∧ v'.best = ⟨b.height, b.id⟩ ∧
      Scan (extCtx c b) w s' k ∧ s'.status = s.status := by
  have hbh := extCtx_heights hC
  have hblk : (extCtx c b).node.blockAt b.height = some b := by
    unfold Node.blockAt extCtx
    rw [hbh]; simp
  obtain ⟨s', hp, hsync, hsto, hsame⟩ := putSyncedTo_snoc (s := s) (chain := c.node.chain) (b := b) hS.sync (by omega) hbh
  have hfb := filterBlock_noReady (c := extCtx c b) hblk hp
  have hpm : processM (extCtx c b) s v b = .ok (s', [], [(b.height, [])]) := by
    unfold processM
    simp only [hprev, if_true]
    have : readyWallets s (extCtx c b).wallets = [] := by
      show readyWallets s c.wallets = []
      rw [hws]; exact readyWallets_importing hst hk
    rw [this, hfb]
    rfl
  obtain ⟨v', hpb, hv'⟩ := processBlock_of_ok hpm
  have htake : (c.node.chain ++ [b]).take (k + 1) = c.node.chain.take (k + 1) := List.take_append_of_le_length hlen
  refine ⟨s', v', hpb, hv', ?_, by rw [hsame]⟩
  constructor
  · show AgreeM s' (bookOf c.p c.own ((c.node.chain ++ [b]).take (k + 1)))
    rw [htake]
    have hA := hS.agree
    rw [hsame]
    exact ⟨hA.unspent, hA.credits, hA.debits, hA.game, hA.txrecs, hA.blocks⟩
  · show AMap.get s'.balance w = some (totalU (bookOf c.p c.own ((c.node.chain ++ [b]).take (k + 1))).L w)
    rw [htake, hsame]; exact hS.bal
  · exact hsync
  · exact hsto
  · rw [hsame]; exact hS.wf

/-- **a tip extension once the wallet is ready** is C01's `connect_sound` -/
theorem extend_inv {c : Ctx} {w : Wid} {s : Store} {v : Vol} {b : Block}
    (hAR : AllReady c.own [w]) (hws : c.wallets = [w]) (hC : ChainOK (extCtx c b))
    (hI : Inv c s c.node.chain) (hU : KeysNodup s.unspent) (hst : AMap.get s.status w = some ⟨none, false⟩)
    (hprev : b.prev = v.best.hash) :
    ∃ s' v', processBlock (extCtx c b) s v b = (s', v', true) ∧ v'.best = ⟨b.height, b.id⟩ ∧
      Inv (extCtx c b) s' (extCtx c b).node.chain ∧ KeysNodup s'.unspent ∧ s'.status = s.status := by
  have hrw : readyWallets s (extCtx c b).wallets = [w] := by
    show readyWallets s c.wallets = [w]
    rw [hws]; exact readyWallets_done hst
  have hI' : Inv (extCtx c b) s c.node.chain := ⟨hI.agree, hI.bal, hI.sync, hI.syncedTo⟩
  obtain ⟨s', conf, hfb, hI2, hst2⟩ := connect_sound (c := extCtx c b) (s := s) (chain := c.node.chain) (rest := []) (b := b)
    hI' rfl hC.valid (extCtx_heights hC) (by rw [hrw]; exact hAR) (by rw [hrw]; rfl)
  have hpm : processM (extCtx c b) s v b = .ok (s', [], [(b.height, conf)]) := by
    unfold processM
    simp only [hprev, if_true]
    rw [hfb]
    rfl
  obtain ⟨v', hpb, hv'⟩ := processBlock_of_ok hpm
  exact ⟨s', v', hpb, hv', hI2, wf_filterBlock hU hfb, hst2⟩

-- ------------------------------------------------------------------ interleavings of batches and tip extensions

/-- node, store, volatile state -/
structure XSys where
  node : Node
  s : Store
  v : Vol

inductive XEv
  | batch
  | extend (b : Block)

/-- one event of stage 2: a worker batch (the worker only holds tasks for wallets that are not ready; a failed
    batch changes nothing), or the node appends block `b` to its best chain and the follower is notified at once
    (handled here only if `b` extends the follower's tip) -/
def stepX (batch : Nat) (p : Params) (own : Own) (wallets : List Wid) (w : Wid) (sys : XSys) : XEv → XSys
  | .batch =>
    match AMap.get sys.s.status w with
    | some ⟨some _, _⟩ =>
      (match importStep batch { p := p, own := own, wallets := wallets, node := sys.node } w sys.s sys.v with
       | .ok (s', v', _) => { sys with s := s', v := v' }
       | .error _ => sys)
    | _ => sys
  | .extend b =>
    if b.prev = sys.v.best.hash then
      let node' : Node := { sys.node with chain := sys.node.chain ++ [b] }
      let r := processBlock { p := p, own := own, wallets := wallets, node := node' } sys.s sys.v b
      { node := node', s := r.1, v := r.2.1 }
    else sys

theorem stepX_chain (batch : Nat) (p : Params) (own : Own) (wallets : List Wid) (w : Wid) (sys : XSys) (e : XEv) :
    ∃ rest, (stepX batch p own wallets w sys e).node.chain = sys.node.chain ++ rest := by
  cases e with
  | batch =>
    simp only [stepX]
    split
    · split
      · exact ⟨[], by simp⟩
      · exact ⟨[], by simp⟩
    · exact ⟨[], by simp⟩
  | extend b =>
    simp only [stepX]
    split
    · exact ⟨[b], rfl⟩
    · exact ⟨[], by simp⟩

theorem foldX_chain (batch : Nat) (p : Params) (own : Own) (wallets : List Wid) (w : Wid) (evs : List XEv) :
    ∀ sys : XSys, ∃ rest, (evs.foldl (stepX batch p own wallets w) sys).node.chain = sys.node.chain ++ rest := by
  induction evs with
  | nil => intro sys; exact ⟨[], by simp⟩
  | cons e evs ih =>
    intro sys
    obtain ⟨r1, h1⟩ := stepX_chain batch p own wallets w sys e
    obtain ⟨r2, h2⟩ := ih (stepX batch p own wallets w sys e)
    exact ⟨r1 ++ r2, by rw [List.foldl_cons, h2, h1, List.append_assoc]⟩

theorem chainOK_prefix {c c' : Ctx} {rest : List Block} (hown : c'.own = c.own)
    (hch : c.node.chain = c'.node.chain ++ rest) (hC : ChainOK c) : ChainOK c' := by
  refine ⟨?_, ?_⟩
  · rw [hown]; exact chainValid_prefix (b := rest) (by rw [← hch]; exact hC.valid)
  · exact heightsOK_prefix (c := rest) (by rw [← hch]; exact hC.heights)

/-- the state invariant of stage 2: the follower is at the node's tip, and either the wallet is importing and the
    scan invariant holds at its cursor, or it is ready and C01's invariant holds -/
def XInv (p : Params) (own : Own) (wallets : List Wid) (w : Wid) (sys : XSys) : Prop :=
  sys.v.best.height + 1 = sys.node.chain.length ∧
  ((∃ ws k, AMap.get sys.s.status w = some ws ∧ ws.synced = some k ∧ ws.removed = false ∧ k ≤ sys.v.best.height ∧
      Scan { p := p, own := own, wallets := wallets, node := sys.node } w sys.s k) ∨
   (AMap.get sys.s.status w = some ⟨none, false⟩ ∧
      Inv { p := p, own := own, wallets := wallets, node := sys.node } sys.s sys.node.chain ∧ KeysNodup sys.s.unspent))

theorem stepX_inv {batch : Nat} (hb : batch > 0) {p : Params} {own : Own} {wallets : List Wid} {w : Wid}
    (hAR : AllReady own [w]) (hws : wallets = [w]) (sys : XSys) (e : XEv)
    (hC : ChainOK { p := p, own := own, wallets := wallets, node := (stepX batch p own wallets w sys e).node })
    (hnb : (stepX batch p own wallets w sys e).node.chain.length + batch < 2 ^ 64)
    (hI : XInv p own wallets w sys) : XInv p own wallets w (stepX batch p own wallets w sys e) := by
  obtain ⟨hbest, hcase⟩ := hI
  cases e with
  | batch =>
    rcases hcase with ⟨ws, k, hst, hk, hrm, hle, hS⟩ | ⟨hst, hI, hU⟩
    · obtain ⟨sy, rm⟩ := ws
      simp only at hk hrm
      subst hk hrm
      have hnode : (stepX batch p own wallets w sys .batch).node = sys.node := by
        unfold stepX; simp only [hst]; split <;> rfl
      rw [hnode] at hC hnb
      obtain ⟨s1, v1, h1, hS1, hst1, hv1⟩ := importStep_scan hb hAR hC hS (by rw [hws]; simp) hst rfl hbest hle
        (by omega)
      have hstep : stepX batch p own wallets w sys .batch = { sys with s := s1, v := v1 } := by
        unfold stepX; simp only [hst, h1]
      rw [hstep]
      refine ⟨by show v1.best.height + 1 = _; rw [hv1]; exact hbest, ?_⟩
      by_cases hfin : nextStop batch k sys.v.best.height = sys.v.best.height
      · right
        rw [hfin] at hS1 hst1
        refine ⟨?_, scan_tip_inv hws hS1 hbest, hS1.wf⟩
        show AMap.get s1.status w = _
        rw [hst1]; simp [statusAfter]
      · left
        have hle1 : nextStop batch k sys.v.best.height ≤ sys.v.best.height := by unfold nextStop; split <;> omega
        exact ⟨_, nextStop batch k sys.v.best.height, hst1, by simp [statusAfter, hfin], rfl,
          by show _ ≤ v1.best.height; rw [hv1]; exact hle1, hS1⟩
    · have hstep : stepX batch p own wallets w sys .batch = sys := by
        unfold stepX; simp only [hst]
      rw [hstep]
      exact ⟨hbest, Or.inr ⟨hst, hI, hU⟩⟩
  | extend b =>
    by_cases hprev : b.prev = sys.v.best.hash
    · have hstep : stepX batch p own wallets w sys (.extend b) =
          { node := { sys.node with chain := sys.node.chain ++ [b] },
            s := (processBlock (extCtx { p := p, own := own, wallets := wallets, node := sys.node } b) sys.s sys.v b).1,
            v := (processBlock (extCtx { p := p, own := own, wallets := wallets, node := sys.node } b) sys.s sys.v b).2.1 } := by
        unfold stepX; simp only [hprev, if_true]; rfl
      rw [hstep] at hC hnb ⊢
      have hC' : ChainOK (extCtx { p := p, own := own, wallets := wallets, node := sys.node } b) := hC
      have hbh := extCtx_heights hC'
      rcases hcase with ⟨ws, k, hst, hk, hrm, hle, hS⟩ | ⟨hst, hI, hU⟩
      · obtain ⟨s', v', hpb, hv', hS', hst'⟩ := extend_scan (c := { p := p, own := own, wallets := wallets, node := sys.node })
          hws hC' hS hst hk (by show k + 1 ≤ sys.node.chain.length; omega) hprev
        rw [hpb]
        refine ⟨?_, Or.inl ⟨ws, k, by show AMap.get s'.status w = _; rw [hst']; exact hst, hk, hrm, ?_, hS'⟩⟩
        · show v'.best.height + 1 = (sys.node.chain ++ [b]).length
          rw [hv']; simp only [List.length_append, List.length_cons, List.length_nil]
          exact congrArg (· + 1) hbh
        · show k ≤ v'.best.height
          rw [hv']; show k ≤ b.height
          have : b.height = sys.node.chain.length := hbh
          omega
      · obtain ⟨s', v', hpb, hv', hI', hU', hst'⟩ := extend_inv (c := { p := p, own := own, wallets := wallets, node := sys.node })
          hAR hws hC' hI hU hst hprev
        rw [hpb]
        refine ⟨?_, Or.inr ⟨by show AMap.get s'.status w = _; rw [hst']; exact hst, hI', hU'⟩⟩
        show v'.best.height + 1 = (sys.node.chain ++ [b]).length
        rw [hv']; simp only [List.length_append, List.length_cons, List.length_nil]
        exact congrArg (· + 1) hbh
    · have hstep : stepX batch p own wallets w sys (.extend b) = sys := by
        unfold stepX; simp only [hprev, if_false]
      rw [hstep]
      exact ⟨hbest, hcase⟩

/-- **stage 2, tip extensions**: the invariant survives every interleaving of batches and tip extensions whose
    final chain is valid -/
theorem foldX_inv {batch : Nat} (hb : batch > 0) {p : Params} {own : Own} {wallets : List Wid} {w : Wid}
    (hAR : AllReady own [w]) (hws : wallets = [w]) (evs : List XEv) :
    ∀ (sys : XSys),
      ChainOK { p := p, own := own, wallets := wallets, node := (evs.foldl (stepX batch p own wallets w) sys).node } →
      (evs.foldl (stepX batch p own wallets w) sys).node.chain.length + batch < 2 ^ 64 →
      XInv p own wallets w sys → XInv p own wallets w (evs.foldl (stepX batch p own wallets w) sys) := by
  induction evs with
  | nil => intro sys _ _ h; exact h
  | cons e evs ih =>
    intro sys hC hnb hI
    rw [List.foldl_cons] at hC hnb ⊢
    obtain ⟨rest, hrest⟩ := foldX_chain batch p own wallets w evs (stepX batch p own wallets w sys e)
    apply ih _ hC hnb
    apply stepX_inv hb hAR hws sys e
    · exact chainOK_prefix
        (c := { p := p, own := own, wallets := wallets,
                node := (evs.foldl (stepX batch p own wallets w) (stepX batch p own wallets w sys e)).node })
        (c' := { p := p, own := own, wallets := wallets, node := (stepX batch p own wallets w sys e).node })
        (rest := rest) rfl hrest hC
    · rw [hrest, List.length_append] at hnb; omega
    · exact hI

end MW.Lemmas.ImportExact
