/-
  Definitions for the ROLLBACK proofs (C01 goal 2).

  Rollback undoes the relevant transactions of a block last-to-first; within one transaction it first
  un-spends the inputs (ascending), then removes the outputs (ascending). The books it passes through are
  `Mid p own B oc k j` = the books BEFORE transaction `oc` with only the spends of inputs ≥ k and the
  credits / deposit records of outputs ≥ j applied (computed forwards from `B`, so that no "inverse" of
  an information-losing step is ever needed):
      Mid B oc 0 0 = applyOcc B oc (up to the tx/block record),      Mid B oc |ins| |outs| = B,
      Mid B oc k 0       = spendB … (Mid B oc (k+1) 0) k i_k          (the spend of input k commutes to the end),
      Mid B oc n (j+1)   = uncreateB … (Mid B oc n j) j o_j           (removing output j).
-/
import MW.Lemmas.LedgerLoc
import MW.Lemmas.LedgerInv
namespace MW.Lemmas.Ledger
open MW MW.Model.Ledger MW.Spec.Chain MW.Spec.Books

/-- more global invariants of the books after the transactions `P`: debits and deposit records only
    exist for transactions of `P` -/
structure Glob2 (P : List Occ) (B : Book) : Prop where
  debitIds : ∀ dk, (B.debits dk).isSome = true → dk.tx ∈ idsOf P
  gameIds : ∀ gk, (B.game gk).isSome = true → gk.tx ∈ idsOf P

/-- a coin that is still in the ledger has no withdrawn deposit record -/
def LocW (B : Book) : Prop := ∀ u ∈ B.L, B.game (u.gameKey true) = none

/-- the books before `oc` with only inputs ≥ k spent and outputs ≥ j credited (no tx / block record) -/
def Mid (p : Params) (own : Own) (B : Book) (oc : Occ) (k j : Nat) : Book :=
  foldIdx (depositB own oc.t oc.bm) (oc.t.outs.drop j) j
    (foldIdx (createB p own oc.t oc.bm) (oc.t.outs.drop j) j
      (if oc.t.cb then B else foldIdx (spendB p oc.t oc.bm) (oc.t.ins.drop k) k B))

/-- remove output `j` of `t` from the books: ledger entry, credit, deposit record -/
def uncreateB (own : Own) (t : Tx) (bm : BlockMeta) (B : Book) (j : Nat) (o : Out) : Book :=
  match ownerOf own o with
  | none => B
  | some (w, _) =>
    { B with
      L := B.L.filter (fun u => !UCoin.at t.id j u),
      credits := upd B.credits ⟨t.id, bm, j⟩ none,
      game := if isDeposit o.cls then upd B.game ⟨w, o.cls.isBinding, false, t.id, bm.height, j⟩ none else B.game }

/-- equality of the tables rollback works on (block records and address records are handled apart) -/
structure BookEq (B B' : Book) : Prop where
  L : B.L = B'.L
  credits : B.credits = B'.credits
  debits : B.debits = B'.debits
  game : B.game = B'.game
  txrecs : B.txrecs = B'.txrecs

theorem BookEq.refl (B : Book) : BookEq B B := ⟨rfl, rfl, rfl, rfl, rfl⟩
theorem BookEq.symm {B B' : Book} (h : BookEq B B') : BookEq B' B :=
  ⟨h.L.symm, h.credits.symm, h.debits.symm, h.game.symm, h.txrecs.symm⟩
theorem BookEq.trans {A B C : Book} (h₁ : BookEq A B) (h₂ : BookEq B C) : BookEq A C :=
  ⟨h₁.L.trans h₂.L, h₁.credits.trans h₂.credits, h₁.debits.trans h₂.debits, h₁.game.trans h₂.game,
   h₁.txrecs.trans h₂.txrecs⟩

/-- agreement of the store with the books on the buckets a transaction rollback restores
    (`Agree` without block records and address records) -/
structure AgreeR (s : Store) (B : Book) : Prop where
  unspent : ∀ w tx idx, AMap.get s.unspent (w, tx, idx) =
    ((lookupU B.L tx idx).filter (fun u => decide (u.wallet = w))).map (·.blk)
  credits : ∀ k, AMap.get s.credits k = B.credits k
  debits : ∀ k, AMap.get s.debits k = B.debits k
  game : ∀ k, AMap.get s.game k = B.game k
  txrecs : ∀ k, AMap.get s.txrecs k = B.txrecs k

theorem Agree.toR {s : Store} {B : Book} (h : Agree s B) : AgreeR s B :=
  ⟨h.unspent, h.credits, h.debits, h.game, h.txrecs⟩

theorem AgreeR.congr {s : Store} {B B' : Book} (h : AgreeR s B) (e : BookEq B B') : AgreeR s B' :=
  ⟨by rw [← e.L]; exact h.unspent, by rw [← e.credits]; exact h.credits, by rw [← e.debits]; exact h.debits,
   by rw [← e.game]; exact h.game, by rw [← e.txrecs]; exact h.txrecs⟩

/-- buckets a transaction rollback never touches -/
structure SameRest (s s' : Store) : Prop where
  sync : s'.sync = s.sync
  syncedTo : s'.syncedTo = s.syncedTo
  status : s'.status = s.status
  balance : s'.balance = s.balance
  blocks : s'.blocks = s.blocks

theorem SameRest.refl (s : Store) : SameRest s s := ⟨rfl, rfl, rfl, rfl, rfl⟩
theorem SameRest.trans {a b c : Store} (h₁ : SameRest a b) (h₂ : SameRest b c) : SameRest a c :=
  ⟨h₂.sync.trans h₁.sync, h₂.syncedTo.trans h₁.syncedTo, h₂.status.trans h₁.status, h₂.balance.trans h₁.balance,
   h₂.blocks.trans h₁.blocks⟩

end MW.Lemmas.Ledger
