/-
  The address table of the books is write-only for every other table: two books that agree on all
  tables but `addrs` still do after any transaction (`applyOcc_eqM`). Used to state the invariant
  without the address records (rollback resets a first-use height to 0 instead of restoring it).
-/
import MW.Lemmas.LedgerBlock
namespace MW.Lemmas.Ledger
open MW MW.Model.Ledger MW.Spec.Chain MW.Spec.Books

/-- equal on every table but the address records -/
structure EqM (B B' : Book) : Prop where
  L : B.L = B'.L
  credits : B.credits = B'.credits
  debits : B.debits = B'.debits
  game : B.game = B'.game
  txrecs : B.txrecs = B'.txrecs
  blocks : B.blocks = B'.blocks

theorem EqM.refl (B : Book) : EqM B B := ⟨rfl, rfl, rfl, rfl, rfl, rfl⟩
theorem EqM.symm {B B' : Book} (h : EqM B B') : EqM B' B :=
  ⟨h.L.symm, h.credits.symm, h.debits.symm, h.game.symm, h.txrecs.symm, h.blocks.symm⟩
theorem EqM.trans {A B C : Book} (h₁ : EqM A B) (h₂ : EqM B C) : EqM A C :=
  ⟨h₁.L.trans h₂.L, h₁.credits.trans h₂.credits, h₁.debits.trans h₂.debits, h₁.game.trans h₂.game,
   h₁.txrecs.trans h₂.txrecs, h₁.blocks.trans h₂.blocks⟩

theorem eqM_withAddrs (B : Book) (a : Wid × Bool × Addr → Option Nat) : EqM B { B with addrs := a } :=
  ⟨rfl, rfl, rfl, rfl, rfl, rfl⟩

theorem spendB_eqM {p : Params} {t : Tx} {bm : BlockMeta} {B B' : Book} {k : Nat} {i : Inp} (h : EqM B B') :
    EqM (spendB p t bm B k i) (spendB p t bm B' k i) := by
  obtain ⟨h1, h2, h3, h4, h5, h6⟩ := h
  unfold spendB
  rw [h1]
  cases lookupU B'.L i.tx i.idx with
  | none => exact ⟨h1, h2, h3, h4, h5, h6⟩
  | some u => exact ⟨rfl, by simp only [h2], by simp only [h3], by simp only [h4], h5, h6⟩

theorem createB_eqM {p : Params} {own : Own} {t : Tx} {bm : BlockMeta} {B B' : Book} {j : Nat} {o : Out}
    (h : EqM B B') : EqM (createB p own t bm B j o) (createB p own t bm B' j o) := by
  obtain ⟨h1, h2, h3, h4, h5, h6⟩ := h
  unfold createB
  cases ownerOf own o with
  | none => exact ⟨h1, h2, h3, h4, h5, h6⟩
  | some wc => exact ⟨by simp only [h1], by simp only [h2], h3, h4, h5, h6⟩

theorem depositB_eqM {own : Own} {t : Tx} {bm : BlockMeta} {B B' : Book} {j : Nat} {o : Out}
    (h : EqM B B') : EqM (depositB own t bm B j o) (depositB own t bm B' j o) := by
  obtain ⟨h1, h2, h3, h4, h5, h6⟩ := h
  unfold depositB
  cases ownerOf own o with
  | none => exact ⟨h1, h2, h3, h4, h5, h6⟩
  | some wc =>
    dsimp only
    split
    · exact ⟨h1, h2, h3, by simp only [h4], h5, h6⟩
    · exact ⟨h1, h2, h3, h4, h5, h6⟩

theorem foldIdx_eqM {α : Type} (f : Book → Nat → α → Book)
    (hf : ∀ B B' j a, EqM B B' → EqM (f B j a) (f B' j a)) (as : List α) :
    ∀ (j : Nat) (B B' : Book), EqM B B' → EqM (foldIdx f as j B) (foldIdx f as j B') := by
  induction as with
  | nil => intro j B B' h; exact h
  | cons a as ih => intro j B B' h; exact ih _ _ _ (hf _ _ _ _ h)

theorem recStep_eqM {own : Own} {B B' : Book} {oc : Occ} (h : EqM B B') :
    EqM (recStep own B oc) (recStep own B' oc) := by
  obtain ⟨h1, h2, h3, h4, h5, h6⟩ := h
  unfold recStep touches recordB
  rw [h1]
  split
  · exact ⟨rfl, h2, h3, h4, by simp only [h5], by simp only [h6]⟩
  · exact ⟨h1, h2, h3, h4, h5, h6⟩

theorem applyOcc_eqM {p : Params} {own : Own} {B B' : Book} {oc : Occ} (h : EqM B B') :
    EqM (applyOcc p own B oc) (applyOcc p own B' oc) := by
  rw [applyOcc_eq, applyOcc_eq]
  have h1 : EqM (spendStep p (recStep own B oc) oc) (spendStep p (recStep own B' oc) oc) := by
    unfold spendStep
    split
    · exact recStep_eqM h
    · exact foldIdx_eqM (spendB p oc.t oc.bm) (fun _ _ _ _ h => spendB_eqM h) _ _ _ _ (recStep_eqM h)
  have h2 := foldIdx_eqM (createB p own oc.t oc.bm) (fun _ _ _ _ h => createB_eqM h) oc.t.outs 0 _ _ h1
  exact foldIdx_eqM (depositB own oc.t oc.bm) (fun _ _ _ _ h => depositB_eqM h) oc.t.outs 0 _ _ h2

theorem foldOcc_eqM {p : Params} {own : Own} (ocs : List Occ) :
    ∀ (B B' : Book), EqM B B' → EqM (ocs.foldl (applyOcc p own) B) (ocs.foldl (applyOcc p own) B') := by
  induction ocs with
  | nil => intro B B' h; exact h
  | cons oc ocs ih => intro B B' h; exact ih _ _ (applyOcc_eqM h)

/-- `Agree` without the address records -/
structure AgreeM (s : Store) (B : Book) : Prop where
  unspent : ∀ w tx idx, AMap.get s.unspent (w, tx, idx) =
    ((lookupU B.L tx idx).filter (fun u => decide (u.wallet = w))).map (·.blk)
  credits : ∀ k, AMap.get s.credits k = B.credits k
  debits : ∀ k, AMap.get s.debits k = B.debits k
  game : ∀ k, AMap.get s.game k = B.game k
  txrecs : ∀ k, AMap.get s.txrecs k = B.txrecs k
  blocks : ∀ k, AMap.get s.blocks k = B.blocks k

theorem Agree.toM {s : Store} {B : Book} (h : Agree s B) : AgreeM s B :=
  ⟨h.unspent, h.credits, h.debits, h.game, h.txrecs, h.blocks⟩

/-- the books with the store's own address table agree with the store completely -/
theorem AgreeM.toAgree {s : Store} {B : Book} (h : AgreeM s B) :
    Agree s { B with addrs := fun k => AMap.get s.addrs k } :=
  ⟨h.unspent, h.credits, h.debits, h.game, h.txrecs, h.blocks, fun _ => rfl⟩

theorem AgreeM.congr {s : Store} {B B' : Book} (h : AgreeM s B) (e : EqM B B') : AgreeM s B' :=
  ⟨by rw [← e.L]; exact h.unspent, by rw [← e.credits]; exact h.credits, by rw [← e.debits]; exact h.debits,
   by rw [← e.game]; exact h.game, by rw [← e.txrecs]; exact h.txrecs, by rw [← e.blocks]; exact h.blocks⟩

theorem Glob.congrM {own : Own} {P : List Occ} {B B' : Book} (h : Glob own P B) (e : EqM B B') : Glob own P B' :=
  ⟨by rw [← e.L]; exact h.mem, by rw [← e.credits]; exact h.credAll, by rw [← e.credits]; exact h.credIds,
   by rw [← e.txrecs]; exact h.txrecIds, h.idsNodup, h.spentIds⟩

theorem Loc.congrM {p : Params} {own : Own} {B B' : Book} (h : Loc p own B) (e : EqM B B') : Loc p own B' :=
  h.congr e.L.symm e.credits.symm

theorem LocG.congrM {B B' : Book} (h : LocG B) (e : EqM B B') : LocG B' := by
  intro u hu hd
  rw [← e.L] at hu; rw [← e.game]; exact h u hu hd

theorem AgreeBal.congrM {ready : List Wid} {bals : Bals} {B B' : Book} (h : AgreeBal ready bals B) (e : EqM B B') :
    AgreeBal ready bals B' := h.congr e.L.symm

end MW.Lemmas.Ledger
