/-
  The reachable-state invariant of MW.Model.Secrets: the account bucket of every keystore and every
  exported keystore are sealed under the keystore's own passphrase, and the volatile state of every
  address manager is consistent with it (locked with nothing cached, or unlocked BY THAT PASSPHRASE with
  the valid master key derived).  Preservation by every operation.
-/
import MW.Model.Secrets
import MW.Lemmas.SecretsInv
import MW.Lemmas.SecretsDB
namespace MW.Lemmas.SecretsGate
open MW MW.Model.Secrets MW.Lemmas.SecretsInv MW.Lemmas.SecretsDB

/-- every keystore is locked and caches nothing -/
def AllLocked (st : St) : Prop := ∀ e ∈ st.wal, e.2.2 = ({} : AM)

/-- volatile state consistent with the keystore's passphrase and master-key salt -/
def AMOk (r : WRec) (salt : Term) (a : AM) : Prop :=
  a = {} ∨ (a.unlocked = true ∧ a.hashed = some r.pass ∧ a.mkey = some (.kdf salt (passT r.pass)) ∧ a.branch = true)

/-- the entries of bucket `w` the passphrase gate reads are sealed under the passphrase of record `r`,
    and the address manager state `a` is consistent with them -/
def Agree (db : DB) (w : String) (r : WRec) (a : AM) : Prop :=
  endsZero r.pass = false ∧
  ∃ salt ckE ckP x,
    dbGet db w .mpriv = .pair salt (.hash (.kdf salt (passT r.pass))) ∧
    dbGet db w .cent = .enc (.kdf salt (passT r.pass)) ckE ∧
    dbGet db w .ent = .enc ckE (.secret (.entropy r.ent)) ∧
    dbGet db w .cpriv = .enc (.kdf salt (passT r.pass)) ckP ∧
    dbGet db w (.acct 1) = .pair x (.enc ckP (.secret (.acctPriv r.ent r.pass))) ∧
    AMOk r salt a

def WalOk (st : St) : Prop := ∀ w r a, AMap.get st.wal w = some (r, a) → Agree st.db w r a

/-- an exported keystore is sealed under the passphrase `q` it was exported with -/
def ExpSealed (x : Export) (q : Pass) : Prop :=
  endsZero q = false ∧
  ∃ salt ckE e,
    x.privParams = .pair salt (.hash (.kdf salt (passT q))) ∧
    x.cEntEnc = .enc (.kdf salt (passT q)) ckE ∧
    x.entEnc = .enc ckE (.secret (.entropy e))

def ExpOk (st : St) : Prop := ∀ k x, AMap.get st.exports k = some x → ∃ q, ExpSealed x q

def Good (st : St) : Prop := WalOk st ∧ ExpOk st

theorem amOk_locked (r : WRec) (salt : Term) : AMOk r salt {} := Or.inl rfl

theorem amOk_rec {r r' : WRec} (h : r'.pass = r.pass) {salt : Term} {a : AM} (ha : AMOk r salt a) : AMOk r' salt a := by
  unfold AMOk at *
  rw [h]
  exact ha

-- ------------------------------------------------------------------ the KDF law, symbolically

/-- KDF.correct for the term model: DeriveKey on the parameters of passphrase `q` succeeds exactly for `q` -/
theorem deriveKey_iff (salt : Term) (q p : Pass) (hq : endsZero q = false) :
    (deriveKey (.pair salt (.hash (.kdf salt (passT q)))) p).isSome = true ↔ p = q := by
  unfold deriveKey
  constructor
  · intro h
    split at h
    · simp at h
    · dsimp only at h
      split at h
      · rename_i heq
        simp [passT] at heq
        exact heq
      · simp at h
  · rintro rfl
    simp [hq]

theorem deriveKey_right (salt : Term) (q : Pass) (hq : endsZero q = false) :
    deriveKey (.pair salt (.hash (.kdf salt (passT q)))) q = some (.kdf salt (passT q)) := by
  unfold deriveKey
  simp [hq]

theorem deriveKey_wrong (salt : Term) (q p : Pass) (hq : endsZero q = false) (hne : p ≠ q) :
    deriveKey (.pair salt (.hash (.kdf salt (passT q)))) p = none := by
  cases h : deriveKey (.pair salt (.hash (.kdf salt (passT q)))) p with
  | none => rfl
  | some k => exact absurd ((deriveKey_iff salt q p hq).mp (by rw [h]; rfl)) hne

theorem deriveKey_shape {salt : Term} {q p : Pass} {mk : Term} (hq : endsZero q = false)
    (h : deriveKey (.pair salt (.hash (.kdf salt (passT q)))) p = some mk) : p = q ∧ mk = .kdf salt (passT q) := by
  have hp : p = q := (deriveKey_iff salt q p hq).mp (by rw [h]; rfl)
  subst hp
  rw [deriveKey_right salt p hq] at h
  exact ⟨rfl, (Option.some.inj h).symm⟩

-- ------------------------------------------------------------------ the passphrase check in a consistent state

/-- checkPassword with a WRONG candidate is refused, locked or unlocked -/
theorem check_wrong {r : WRec} {salt : Term} {a : AM} (h0 : endsZero r.pass = false) (ha : AMOk r salt a)
    {p : Pass} (hne : p ≠ r.pass) :
    checkPassword (.pair salt (.hash (.kdf salt (passT r.pass)))) a p = none := by
  unfold checkPassword
  rcases ha with rfl | ⟨hu, hh, _, _⟩
  · simp [deriveKey_wrong salt r.pass p h0 hne]
  · simp only [hu, if_true, hh]
    have : ¬ (some r.pass = some p) := fun h => hne (Option.some.inj h).symm
    simp [this]

/-- checkPassword with the RIGHT passphrase: the manager afterwards holds the valid master key -/
theorem check_right {r : WRec} {salt : Term} {a : AM} (h0 : endsZero r.pass = false) (ha : AMOk r salt a) :
    checkPassword (.pair salt (.hash (.kdf salt (passT r.pass)))) a r.pass =
      some (if a.unlocked then a else { a with mkey := some (.kdf salt (passT r.pass)) }) := by
  unfold checkPassword
  rcases ha with rfl | ⟨hu, hh, _, _⟩
  · simp [deriveKey_right salt r.pass h0]
  · simp [hu, hh]

theorem safely_wrong {r : WRec} {salt : Term} {a : AM} (h0 : endsZero r.pass = false) (ha : AMOk r salt a)
    {p : Pass} (hne : p ≠ r.pass) :
    safelyCheckPassword (.pair salt (.hash (.kdf salt (passT r.pass)))) a p = none := by
  unfold safelyCheckPassword
  rw [check_wrong h0 ha hne]
  rfl

/-- safelyCheckPassword with the right passphrase returns the state unchanged -/
theorem safely_right {r : WRec} {salt : Term} {a : AM} (h0 : endsZero r.pass = false) (ha : AMOk r salt a) :
    safelyCheckPassword (.pair salt (.hash (.kdf salt (passT r.pass)))) a r.pass = some a := by
  unfold safelyCheckPassword
  rw [check_right h0 ha]
  rcases ha with rfl | ⟨hu, _, _, _⟩
  · rfl
  · simp [hu]

theorem locked_of_get {st : St} (h : AllLocked st) {w : String} {r : WRec} {a : AM}
    (hg : AMap.get st.wal w = some (r, a)) : a = {} := h _ (get_mem hg)

-- ------------------------------------------------------------------ bookkeeping

theorem good_fail {st : St} (h : Good st) (c : String) : Good (fail st c).1 := h

/-- a state that differs from a good one only in fields the invariant does not read -/
theorem good_of_eq {st st' : St} (h : Good st) (h1 : st'.wal = st.wal) (h2 : st'.db = st.db)
    (h3 : st'.exports = st.exports) : Good st' := by
  obtain ⟨b, c⟩ := h
  refine ⟨?_, ?_⟩
  · unfold WalOk; rw [h1, h2]; exact b
  · unfold ExpOk; rw [h3]; exact c

theorem agree_am {db : DB} {w : String} {r : WRec} {a a' : AM} (h : Agree db w r a)
    (ha : ∀ salt, dbGet db w .mpriv = .pair salt (.hash (.kdf salt (passT r.pass))) → AMOk r salt a → AMOk r salt a') :
    Agree db w r a' := by
  obtain ⟨h0, salt, ckE, ckP, x, h1, h2, h3, h4, h5, h6⟩ := h
  exact ⟨h0, salt, ckE, ckP, x, h1, h2, h3, h4, h5, ha salt h1 h6⟩

/-- rewriting the database without touching the five sealed entries of bucket w -/
theorem agree_db {db db' : DB} {w : String} {r : WRec} {a : AM} (h : Agree db w r a)
    (hf : ∀ k, k = KeyName.mpriv ∨ k = .cent ∨ k = .ent ∨ k = .cpriv ∨ k = .acct 1 → dbGet db' w k = dbGet db w k) :
    Agree db' w r a := by
  obtain ⟨h0, salt, ckE, ckP, x, h1, h2, h3, h4, h5, h6⟩ := h
  refine ⟨h0, salt, ckE, ckP, x, ?_, ?_, ?_, ?_, ?_, h6⟩
  · rw [hf _ (Or.inl rfl)]; exact h1
  · rw [hf _ (Or.inr (Or.inl rfl))]; exact h2
  · rw [hf _ (Or.inr (Or.inr (Or.inl rfl)))]; exact h3
  · rw [hf _ (Or.inr (Or.inr (Or.inr (Or.inl rfl))))]; exact h4
  · rw [hf _ (Or.inr (Or.inr (Or.inr (Or.inr rfl))))]; exact h5

theorem agree_rec {db : DB} {w : String} {r r' : WRec} {a : AM} (h1 : r'.ent = r.ent) (h2 : r'.pass = r.pass)
    (h : Agree db w r a) : Agree db w r' a := by
  unfold Agree AMOk at *
  rw [h1, h2]
  exact h

-- ------------------------------------------------------------------ fresh bucket

theorem agree_fresh (db : DB) (w : String) (nExt nInt : Nat) (salt : Term)
    (mkPubParams mkPub : Term) (kPub kPriv kEnt : Nat) (r : WRec) (hp : endsZero r.pass = false) :
    Agree (putAll db (acctEntries w r.ent r.pass nExt nInt (.pair salt (.hash (.kdf salt (passT r.pass)))) (.kdf salt (passT r.pass))
      mkPubParams mkPub kPub kPriv kEnt)) w r {} := by
  have := acctEntries_reads db w r.ent r.pass nExt nInt (.pair salt (.hash (.kdf salt (passT r.pass)))) (.kdf salt (passT r.pass))
    mkPubParams mkPub kPub kPriv kEnt
  obtain ⟨h1, h2, h3, h4, h5⟩ := this
  exact ⟨hp, salt, .secret (.key kEnt), .secret (.key kPriv), .enc (.secret (.key kPub)) (.pub "acct-xpub"),
    h1, h2, h3, h4, h5, amOk_locked r salt⟩

theorem agree_other {db : DB} {w w' : String} {r : WRec} {a : AM} (es : List (Key × Term)) (hes : ∀ e ∈ es, e.1.1 = w)
    (hne : w' ≠ w) (h : Agree db w' r a) : Agree (putAll db es) w' r a :=
  agree_db h (fun k _ => dbGet_putAll_other es db hes hne k)

/-- installing a fresh bucket `w` with record `r` keeps the invariant -/
theorem good_install {st : St} (h : Good st) (w e : String) (p : Pass) (nExt nInt : Nat) (salt : Term)
    (mkPubParams mkPub : Term) (kPub kPriv kEnt : Nat) (hp : endsZero p = false)
    (idents' : AMap.T String (String × Pass)) (nonce' : Nat) :
    Good { st with
      db := putAll st.db (acctEntries w e p nExt nInt (.pair salt (.hash (.kdf salt (passT p)))) (.kdf salt (passT p))
              mkPubParams mkPub kPub kPriv kEnt),
      wal := AMap.put st.wal w (⟨e, p, nExt, nInt⟩, {}), idents := idents', nonce := nonce' } := by
  obtain ⟨hw, hx⟩ := h
  refine ⟨?_, hx⟩
  intro w' r' a' hg
  simp only [AMap.get_put] at hg
  by_cases hww : w = w'
  · subst hww
    simp at hg
    obtain ⟨rfl, rfl⟩ := hg
    exact agree_fresh st.db w nExt nInt salt mkPubParams mkPub kPub kPriv kEnt ⟨e, p, nExt, nInt⟩ hp
  · simp [hww] at hg
    exact agree_other _ (acctEntries_wallet _ _ _ _ _ _ _ _ _ _ _ _) (Ne.symm hww) (hw w' r' a' hg)

-- ------------------------------------------------------------------ preservation per operation

theorem not_true_false {b : Bool} (h : ¬ b = true) : b = false := by
  cases b <;> simp_all

theorem create_good {st : St} (h : Good st) (w : String) (p : Pass) (b : Nat) : Good (create st w p b).1 := by
  unfold create
  split; · exact h
  split; · exact good_fail h _
  split; · exact good_fail h _
  split; · exact good_fail h _
  split; · exact good_fail h _
  split; · exact good_fail h _
  rename_i hz _ _
  simp only [paramsT, masterKey]
  exact good_install h w w p 0 0 (.rnd (st.nonce + 1)) _ _ _ _ _ (not_true_false hz) _ _

/-- replacing the entry of w by one with the same identity and a consistent manager state -/
theorem walOk_set {st : St} (hw : WalOk st) {w : String} {r : WRec} {a : AM} (hg : AMap.get st.wal w = some (r, a))
    (r' : WRec) (a' : AM) (hr1 : r'.ent = r.ent) (hr2 : r'.pass = r.pass)
    (ha : ∀ salt, dbGet st.db w .mpriv = .pair salt (.hash (.kdf salt (passT r.pass))) → AMOk r salt a → AMOk r salt a') :
    ∀ w'' r'' a'', AMap.get (AMap.put st.wal w (r', a')) w'' = some (r'', a'') → Agree st.db w'' r'' a'' := by
  intro w'' r'' a'' hg'
  simp only [AMap.get_put] at hg'
  by_cases hww : w = w''
  · subst hww
    simp at hg'
    obtain ⟨rfl, rfl⟩ := hg'
    exact agree_rec hr1 hr2 (agree_am (hw w r a hg) ha)
  · simp [hww] at hg'
    exact hw w'' r'' a'' hg'

theorem newAddr_good {st : St} (h : Good st) (w : String) : Good (newAddr st w).1 := by
  unfold newAddr
  split
  · exact h
  · rename_i r a hg
    split
    · exact h
    · obtain ⟨hw, hx⟩ := h
      refine ⟨?_, hx⟩
      intro w' r' a' hg'
      have hold : Agree st.db w' r' a' := walOk_set hw hg { r with nExt := r.nExt + 1 } a rfl rfl (fun _ _ h => h) w' r' a' hg'
      apply agree_db hold
      intro k hk
      simp only [dbGet_put, Prod.mk.injEq]
      rcases hk with rfl | rfl | rfl | rfl | rfl <;> simp

theorem exportKS_good {st : St} (h : Good st) (w : String) (p : Pass) (k : String) : Good (exportKS st w p k).1 := by
  unfold exportKS
  split
  · exact good_fail h _
  · rename_i r a hg
    obtain ⟨hw, hx⟩ := h
    obtain ⟨h0, salt, ckE, ckP, y, h1, h2, h3, h4, h5, h6⟩ := hw w r a hg
    rw [h1]
    by_cases hp : p = r.pass
    · subst hp
      rw [safely_right h0 h6]
      refine ⟨walOk_set hw hg r a rfl rfl (fun _ _ h => h), ?_⟩
      intro k' x hgx
      simp only [setAM, AMap.get_put] at hgx
      by_cases hkk : k = k'
      · simp [hkk] at hgx
        subst hgx
        exact ⟨r.pass, h0, salt, ckE, r.ent, h1, h2, h3⟩
      · simp [hkk] at hgx
        exact hx k' x hgx
    · rw [safely_wrong h0 h6 hp]
      exact good_fail ⟨hw, hx⟩ _

theorem mnemonic_good {st : St} (h : Good st) (w : String) (p : Pass) : Good (mnemonic st w p).1 := by
  unfold mnemonic
  split
  · exact good_fail h _
  · rename_i r a hg
    obtain ⟨hw, hx⟩ := h
    obtain ⟨h0, salt, ckE, ckP, y, h1, h2, h3, h4, h5, h6⟩ := hw w r a hg
    rw [h1]
    by_cases hp : p = r.pass
    · subst hp
      rw [check_right h0 h6]
      have hgood : ∀ a2, (∀ s, AMOk r s a → AMOk r s a2) → Good (setAM st w r a2) :=
        fun a2 ha2 => ⟨walOk_set hw hg r a2 rfl rfl (fun s _ h => ha2 s h), hx⟩
      have ha2 : ∀ s, AMOk r s a → AMOk r s
          (if (if a.unlocked = true then a else { a with mkey := some (.kdf salt (passT r.pass)) }).unlocked = true
           then (if a.unlocked = true then a else { a with mkey := some (.kdf salt (passT r.pass)) })
           else { (if a.unlocked = true then a else { a with mkey := some (.kdf salt (passT r.pass)) }) with mkey := none }) := by
        intro s hs
        rcases hs with rfl | ⟨hu, hh, hm, hb⟩
        · exact Or.inl rfl
        · simp only [hu, if_true]
          exact Or.inr ⟨hu, hh, hm, hb⟩
      simp only []
      split
      · exact hgood _ ha2
      · exact good_fail (hgood _ ha2) _
    · rw [check_wrong h0 h6 hp]
      exact good_fail ⟨hw, hx⟩ _

theorem remove_good {st : St} (h : Good st) (w : String) (p : Pass) : Good (remove st w p).1 := by
  unfold remove
  split
  · exact good_fail h _
  · split
    · exact good_fail h _
    · obtain ⟨hw, hx⟩ := h
      refine ⟨?_, hx⟩
      intro w' r' a' hg'
      simp only [AMap.get_erase] at hg'
      by_cases hww : w = w'
      · simp [hww] at hg'
      · simp [hww] at hg'
        exact agree_db (hw w' r' a' hg') (fun k _ => dbGet_eraseWallet_other st.db (Ne.symm hww) k)

theorem importKS_good {st : St} (h : Good st) (k : String) (p : Pass) : Good (importKS st k p).1 := by
  unfold importKS
  split
  · exact h
  · rename_i x hgx
    obtain ⟨q, hq, salt, ckE, e0, hp1, hp2, hp3⟩ := h.2 k x hgx
    split
    · exact good_fail h _
    · rename_i mkPriv hmk
      rw [hp1] at hmk
      obtain ⟨rfl, rfl⟩ := deriveKey_shape hq hmk
      split
      · split; · exact good_fail h _
        split; · exact good_fail h _
        rw [hp1]
        exact good_install h x.wallet _ p _ _ salt _ _ _ _ _ hq _ _
      · exact good_fail h _

theorem importMn_good {st : St} (h : Good st) (w : String) (p : Pass) (src : String) (e i : Nat) :
    Good (importMn st w p src e i).1 := by
  unfold importMn
  split
  · exact h
  · dsimp only
    generalize identName st _ p w = name
    split; · exact h
    split; · exact good_fail h _
    rename_i hz
    split; · exact good_fail h _
    simp only [paramsT, masterKey]
    have hp : endsZero p = false := by
      cases hzz : endsZero p
      · rfl
      · simp [hzz] at hz
    exact good_install h name _ p _ _ (.rnd (st.nonce + 1)) _ _ _ _ _ hp _ _

theorem chpub_good {st : St} (h : Good st) (o n : Pass) : Good (chpub st o n).1 := by
  unfold chpub
  split; · exact good_fail h _
  split; · exact good_fail h _
  split
  · exact good_fail h _
  · obtain ⟨hw, hx⟩ := h
    refine ⟨?_, hx⟩
    intro w r a hg
    apply agree_db (hw w r a hg)
    intro k hk
    apply chpubWrites_reads st o n w k <;> (rcases hk with rfl | rfl | rfl | rfl | rfl <;> simp)

theorem chpriv_good {st : St} (h : Good st) (w : String) (o n : Pass) : Good (chpriv st w o n).1 := by
  unfold chpriv
  split
  · exact h
  · split; · exact good_fail h _
    split; · exact good_fail h _
    split; · exact good_fail h _
    split; · exact good_fail h _
    exact good_fail h _

theorem good_clear {st : St} (h : Good st) : Good { st with wal := clearAll st.wal } := by
  obtain ⟨hw, hx⟩ := h
  refine ⟨?_, hx⟩
  intro w r a hg
  simp only [get_clearAll] at hg
  cases hg0 : AMap.get st.wal w with
  | none => simp [hg0] at hg
  | some ra =>
    simp [hg0] at hg
    obtain ⟨rfl, rfl⟩ := hg
    exact agree_am (hw w ra.1 ra.2 (by rw [hg0])) (fun s _ _ => amOk_locked _ s)

theorem signHash_good {st : St} (h : Good st) (w : String) (b i : Nat) (p : Pass) : Good (signHash st w b i p).1 := by
  unfold signHash
  split
  · exact h
  · dsimp only
    split
    · exact good_fail (good_clear h) _
    · exact good_clear h

theorem ksClear_good {st : St} (h : Good st) : Good (ksClear st).1 := good_clear h

/-- signBtcec with a wrong candidate returns the manager untouched and the passphrase error -/
theorem signBtcec_wrong {db : DB} {w : String} {r : WRec} {a : AM} (hag : Agree db w r a) (b i : Nat)
    {p : Pass} (hne : p ≠ r.pass) (hk : (if b = 0 then decide (i < r.nExt) else decide (b = 1) && decide (i < r.nInt)) = true) :
    signBtcec db w r a b i p = (a, .err "pass") := by
  obtain ⟨h0, salt, ckE, ckP, y, h1, h2, h3, h4, h5, h6⟩ := hag
  unfold signBtcec
  simp only [hk, Bool.not_true, Bool.false_eq_true, if_false, h1, check_wrong h0 h6 hne]

/-- signBtcec with the right passphrase on a known address succeeds and leaves a consistent unlocked manager -/
theorem signBtcec_right {db : DB} {w : String} {r : WRec} {a : AM} (hag : Agree db w r a) (b i : Nat)
    (hk : (if b = 0 then decide (i < r.nExt) else decide (b = 1) && decide (i < r.nInt)) = true) :
    ∃ a', signBtcec db w r a b i r.pass = (a', .ok) ∧
      ∀ salt, dbGet db w .mpriv = .pair salt (.hash (.kdf salt (passT r.pass))) → AMOk r salt a → AMOk r salt a' := by
  obtain ⟨h0, salt, ckE, ckP, y, h1, h2, h3, h4, h5, h6⟩ := hag
  unfold signBtcec
  simp only [hk, Bool.not_true, Bool.false_eq_true, if_false, h1, check_right h0 h6]
  rcases h6 with rfl | ⟨hu, hh, hm, hb⟩
  · -- locked: derive, mark unlocked, decrypt the account key, cache
    simp [h4, h5, dec]
    intro _
    exact Or.inr ⟨rfl, rfl, rfl, rfl⟩
  · -- unlocked by the right passphrase: cached key or cached branch keys
    simp only [hu, if_true]
    by_cases hc : a.privs.contains (b, i) = true
    · simp only [hc, if_true]
      exact ⟨a, rfl, fun s _ hs => hs⟩
    · simp only [hc, if_false, hb, if_true]
      refine ⟨_, rfl, ?_⟩
      intro s _ hs
      rcases hs with hE | ⟨_, h2', h3', _⟩
      · rw [hE] at hu; simp at hu
      · exact Or.inr ⟨rfl, h2', h3', rfl⟩

theorem ksSign_good {st : St} (h : Good st) (w : String) (b i : Nat) (p : Pass) : Good (ksSign st w b i p).1 := by
  unfold ksSign
  split
  · exact h
  · rename_i r a hg
    obtain ⟨hw, hx⟩ := h
    have hag := hw w r a hg
    by_cases hk : (if b = 0 then decide (i < r.nExt) else decide (b = 1) && decide (i < r.nInt)) = true
    · by_cases hp : p = r.pass
      · subst hp
        obtain ⟨a', hs, ha'⟩ := signBtcec_right hag b i hk
        rw [hs]
        simp only []
        exact ⟨walOk_set hw hg r a' rfl rfl ha', hx⟩
      · rw [signBtcec_wrong hag b i hp hk]
        simp
        exact good_fail ⟨hw, hx⟩ _
    · have : signBtcec st.db w r a b i p = (a, .err "key") := by
        unfold signBtcec
        simp [hk]
      rw [this]
      simp
      exact good_fail ⟨hw, hx⟩ _

theorem restart_good {st : St} (h : Good st) (p : Pass) : Good (restart st p).1 := by
  unfold restart
  dsimp only
  split
  · exact good_fail (good_clear h) _
  · split
    · exact good_of_eq (good_clear h) rfl rfl rfl
    · exact good_fail (good_clear h) _

theorem step_good {st : St} (h : Good st) (op : Op) : Good (step st op).1 := by
  cases op with
  | create w p b => exact create_good h w p b
  | newAddr w => exact newAddr_good h w
  | exportKS w p k => exact exportKS_good h w p k
  | importKS k p => exact importKS_good h k p
  | importMn w p s e i => exact importMn_good h w p s e i
  | mnemonic w p => exact mnemonic_good h w p
  | remove w p => exact remove_good h w p
  | chpub o n => exact chpub_good h o n
  | chpriv w o n => exact chpriv_good h w o n
  | signHash w b i p => exact signHash_good h w b i p
  | ksSign w b i p => exact ksSign_good h w b i p
  | ksClear => exact ksClear_good h
  | restart p => exact restart_good h p

theorem run_good (ops : List Op) : ∀ {st : St}, Good st → Good (run st ops) := by
  induction ops with
  | nil => intro st h; exact h
  | cons o os ih =>
    intro st h
    unfold run
    simp only [List.foldl_cons]
    exact ih (step_good h o)

theorem init_good : Good ({} : St) := by
  refine ⟨?_, ?_⟩
  · intro w r a hg; simp [AMap.get] at hg
  · intro k x hg; simp [AMap.get] at hg

end MW.Lemmas.SecretsGate
