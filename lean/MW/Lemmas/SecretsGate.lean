/-
  The reachable-state invariant of MW.Model.Secrets (every keystore locked between operations; the
  account bucket of every keystore and every exported keystore are sealed under the keystore's own
  passphrase) and the gate / refusal lemmas that follow from it.
-/
import MW.Model.Secrets
import MW.Lemmas.SecretsInv
import MW.Lemmas.SecretsDB
namespace MW.Lemmas.SecretsGate
open MW MW.Model.Secrets MW.Lemmas.SecretsInv MW.Lemmas.SecretsDB

/-- every keystore is locked and caches nothing -/
def AllLocked (st : St) : Prop := ∀ e ∈ st.wal, e.2.2 = ({} : AM)

/-- the entries of bucket `w` the passphrase gate reads are sealed under the passphrase of record `r` -/
def Agree (db : DB) (w : String) (r : WRec) : Prop :=
  endsZero r.pass = false ∧
  ∃ salt ckE ckP x,
    dbGet db w .mpriv = .pair salt (.hash (.kdf salt (passT r.pass))) ∧
    dbGet db w .cent = .enc (.kdf salt (passT r.pass)) ckE ∧
    dbGet db w .ent = .enc ckE (.secret (.entropy r.ent)) ∧
    dbGet db w .cpriv = .enc (.kdf salt (passT r.pass)) ckP ∧
    dbGet db w (.acct 1) = .pair x (.enc ckP (.secret (.acctPriv r.ent r.pass)))

def WalOk (st : St) : Prop := ∀ w r a, AMap.get st.wal w = some (r, a) → Agree st.db w r

/-- an exported keystore is sealed under the passphrase `q` it was exported with -/
def ExpSealed (x : Export) (q : Pass) : Prop :=
  endsZero q = false ∧
  ∃ salt ckE e,
    x.privParams = .pair salt (.hash (.kdf salt (passT q))) ∧
    x.cEntEnc = .enc (.kdf salt (passT q)) ckE ∧
    x.entEnc = .enc ckE (.secret (.entropy e))

def ExpOk (st : St) : Prop := ∀ k x, AMap.get st.exports k = some x → ∃ q, ExpSealed x q

def Good (st : St) : Prop := AllLocked st ∧ WalOk st ∧ ExpOk st

-- ------------------------------------------------------------------ the KDF law, symbolically

/-- KDF.correct for the term model: DeriveKey on the parameters of passphrase `q` succeeds exactly for `q` -/
theorem deriveKey_iff (salt : Term) (q p : Pass) (hq : endsZero q = false) :
    (deriveKey (.pair salt (.hash (.kdf salt (passT q)))) p).isSome = true ↔ p = q := by
  unfold deriveKey
  constructor
  · intro h
    split at h
    · simp at h
    · dsimp only at h
      split at h
      · rename_i heq
        simp [passT] at heq
        exact heq
      · simp at h
  · rintro rfl
    simp [hq]

theorem deriveKey_right (salt : Term) (q : Pass) (hq : endsZero q = false) :
    deriveKey (.pair salt (.hash (.kdf salt (passT q)))) q = some (.kdf salt (passT q)) := by
  unfold deriveKey
  simp [hq]

theorem deriveKey_wrong (salt : Term) (q p : Pass) (hq : endsZero q = false) (hne : p ≠ q) :
    deriveKey (.pair salt (.hash (.kdf salt (passT q)))) p = none := by
  cases h : deriveKey (.pair salt (.hash (.kdf salt (passT q)))) p with
  | none => rfl
  | some k => exact absurd ((deriveKey_iff salt q p hq).mp (by rw [h]; rfl)) hne

-- ------------------------------------------------------------------ locked AddrManager

theorem checkPassword_locked (params : Term) (p : Pass) :
    checkPassword params ({} : AM) p = (deriveKey params p).map (fun k => { ({} : AM) with mkey := some k }) := by
  unfold checkPassword
  simp only [Bool.false_eq_true, if_false]
  cases deriveKey params p <;> rfl

theorem safelyCheck_locked (params : Term) (p : Pass) :
    safelyCheckPassword params ({} : AM) p = (deriveKey params p).map (fun _ => ({} : AM)) := by
  unfold safelyCheckPassword
  rw [checkPassword_locked]
  cases deriveKey params p <;> rfl

theorem locked_of_get {st : St} (h : AllLocked st) {w : String} {r : WRec} {a : AM}
    (hg : AMap.get st.wal w = some (r, a)) : a = {} := h _ (get_mem hg)

-- ------------------------------------------------------------------ preservation: AllLocked

theorem allLocked_put {st : St} (h : AllLocked st) (w : String) (r : WRec) :
    ∀ e ∈ AMap.put st.wal w (r, ({} : AM)), e.2.2 = ({} : AM) := by
  intro e he
  rcases mem_put he with rfl | he
  · rfl
  · exact h e he

theorem fail_wal (st : St) (c : String) : (fail st c).1.wal = st.wal := rfl
theorem fail_db (st : St) (c : String) : (fail st c).1.db = st.db := rfl
theorem fail_exports (st : St) (c : String) : (fail st c).1.exports = st.exports := rfl

theorem good_fail {st : St} (h : Good st) (c : String) : Good (fail st c).1 := h

/-- a state that differs from a good one only in fields the invariant does not read -/
theorem good_of_eq {st st' : St} (h : Good st) (h1 : st'.wal = st.wal) (h2 : st'.db = st.db)
    (h3 : st'.exports = st.exports) : Good st' := by
  obtain ⟨a, b, c⟩ := h
  refine ⟨?_, ?_, ?_⟩
  · unfold AllLocked; rw [h1]; exact a
  · unfold WalOk; rw [h1, h2]; exact b
  · unfold ExpOk; rw [h3]; exact c

-- ------------------------------------------------------------------ fresh bucket

theorem agree_fresh (db : DB) (w e : String) (p : Pass) (nExt nInt : Nat) (salt : Term)
    (mkPubParams mkPub : Term) (kPub kPriv kEnt : Nat) (hp : endsZero p = false) (r : WRec)
    (hr1 : r.ent = e) (hr2 : r.pass = p) :
    Agree (putAll db (acctEntries w e p nExt nInt (.pair salt (.hash (.kdf salt (passT p)))) (.kdf salt (passT p))
      mkPubParams mkPub kPub kPriv kEnt)) w r := by
  subst hr1 hr2
  have := acctEntries_reads db w r.ent r.pass nExt nInt (.pair salt (.hash (.kdf salt (passT r.pass)))) (.kdf salt (passT r.pass))
    mkPubParams mkPub kPub kPriv kEnt
  obtain ⟨h1, h2, h3, h4, h5⟩ := this
  exact ⟨hp, salt, .secret (.key kEnt), .secret (.key kPriv), .enc (.secret (.key kPub)) (.pub "acct-xpub"),
    h1, h2, h3, h4, h5⟩

theorem agree_other {db : DB} {w w' : String} {r : WRec} (es : List (Key × Term)) (hes : ∀ e ∈ es, e.1.1 = w)
    (hne : w' ≠ w) (h : Agree db w' r) : Agree (putAll db es) w' r := by
  obtain ⟨h0, salt, ckE, ckP, x, h1, h2, h3, h4, h5⟩ := h
  refine ⟨h0, salt, ckE, ckP, x, ?_, ?_, ?_, ?_, ?_⟩ <;> rw [dbGet_putAll_other es db hes hne] <;> assumption

/-- installing a fresh bucket `w` with record `r` keeps the invariant -/
theorem good_install {st : St} (h : Good st) (w e : String) (p : Pass) (nExt nInt : Nat) (salt : Term)
    (mkPubParams mkPub : Term) (kPub kPriv kEnt : Nat) (hp : endsZero p = false)
    (idents' : AMap.T String (String × Pass)) (nonce' : Nat) :
    Good { st with
      db := putAll st.db (acctEntries w e p nExt nInt (.pair salt (.hash (.kdf salt (passT p)))) (.kdf salt (passT p))
              mkPubParams mkPub kPub kPriv kEnt),
      wal := AMap.put st.wal w (⟨e, p, nExt, nInt⟩, {}), idents := idents', nonce := nonce' } := by
  obtain ⟨hl, hw, hx⟩ := h
  refine ⟨allLocked_put hl w _, ?_, hx⟩
  intro w' r' a' hg
  simp only [AMap.get_put] at hg
  by_cases hww : w = w'
  · subst hww
    simp at hg
    obtain ⟨rfl, _⟩ := hg
    exact agree_fresh st.db w e p nExt nInt salt mkPubParams mkPub kPub kPriv kEnt hp _ rfl rfl
  · simp [hww] at hg
    exact agree_other _ (acctEntries_wallet _ _ _ _ _ _ _ _ _ _ _ _) (Ne.symm hww) (hw w' r' a' hg)

-- ------------------------------------------------------------------ preservation per operation

theorem validPass_not_endsZero_guard {p : Pass} (h : ¬ endsZero p = true) : endsZero p = false := by
  cases hz : endsZero p <;> simp_all

theorem create_good {st : St} (h : Good st) (w : String) (p : Pass) (b : Nat) : Good (create st w p b).1 := by
  unfold create
  split; · exact h
  split; · exact good_fail h _
  split; · exact good_fail h _
  split; · exact good_fail h _
  split; · exact good_fail h _
  split; · exact good_fail h _
  rename_i hz _ _
  simp only [paramsT, masterKey]
  exact good_install h w w p 0 0 (.rnd (st.nonce + 1)) _ _ _ _ _ (validPass_not_endsZero_guard hz) _ _

theorem agree_rec_irrel {db : DB} {w : String} {r r' : WRec} (h1 : r'.ent = r.ent) (h2 : r'.pass = r.pass)
    (h : Agree db w r) : Agree db w r' := by
  unfold Agree at *
  rw [h1, h2]
  exact h

theorem agree_put_other_key {db : DB} {w : String} {r : WRec} (k : Key) (v : Term)
    (hk : k.2 ≠ .mpriv ∧ k.2 ≠ .cent ∧ k.2 ≠ .ent ∧ k.2 ≠ .cpriv ∧ k.2 ≠ .acct 1)
    (h : Agree db w r) : Agree (AMap.put db k v) w r := by
  obtain ⟨h0, salt, ckE, ckP, x, h1, h2, h3, h4, h5⟩ := h
  obtain ⟨k1, k2, k3, k4, k5⟩ := hk
  have ne : ∀ kn, k.2 ≠ kn → ¬ k = (w, kn) := by
    intro kn hkn heq
    rw [heq] at hkn
    exact hkn rfl
  refine ⟨h0, salt, ckE, ckP, x, ?_, ?_, ?_, ?_, ?_⟩
  · rw [dbGet_put, if_neg (ne _ k1)]; exact h1
  · rw [dbGet_put, if_neg (ne _ k2)]; exact h2
  · rw [dbGet_put, if_neg (ne _ k3)]; exact h3
  · rw [dbGet_put, if_neg (ne _ k4)]; exact h4
  · rw [dbGet_put, if_neg (ne _ k5)]; exact h5

theorem newAddr_good {st : St} (h : Good st) (w : String) : Good (newAddr st w).1 := by
  unfold newAddr
  split
  · exact h
  · rename_i r a hg
    split
    · exact h
    · obtain ⟨hl, hw, hx⟩ := h
      have ha : a = {} := hl _ (get_mem hg)
      subst ha
      refine ⟨allLocked_put hl w _, ?_, hx⟩
      intro w' r' a' hg'
      simp only [AMap.get_put] at hg'
      have hput : ∀ r0, Agree st.db w' r0 → Agree (AMap.put (AMap.put st.db (w, .exNum) (.pub "n")) (w, .pubk 0 r.nExt)
          (.enc (match dbGet st.db w .exb with | .enc k _ => k | _ => .pub "missing") (.pub "pubkey"))) w' r0 := by
        intro r0 h0
        apply agree_put_other_key _ _ (by simp)
        exact agree_put_other_key _ _ (by simp) h0
      by_cases hww : w = w'
      · subst hww
        simp at hg'
        obtain ⟨rfl, _⟩ := hg'
        exact hput _ (agree_rec_irrel rfl rfl (hw w r _ hg))
      · simp [hww] at hg'
        exact hput _ (hw w' r' a' hg')

theorem walOk_setSame {st : St} (hw : WalOk st) {w : String} {r : WRec} {a : AM} (hg : AMap.get st.wal w = some (r, a))
    (a' : AM) : ∀ w' r' a'', AMap.get (AMap.put st.wal w (r, a')) w' = some (r', a'') → Agree st.db w' r' := by
  intro w' r' a'' hg'
  simp only [AMap.get_put] at hg'
  by_cases hww : w = w'
  · subst hww
    simp at hg'
    obtain ⟨rfl, _⟩ := hg'
    exact hw w r a hg
  · simp [hww] at hg'
    exact hw w' r' a'' hg'

theorem exportKS_good {st : St} (h : Good st) (w : String) (p : Pass) (k : String) : Good (exportKS st w p k).1 := by
  unfold exportKS
  split
  · exact good_fail h _
  · rename_i r a hg
    obtain ⟨hl, hw, hx⟩ := h
    have ha : a = {} := hl _ (get_mem hg)
    subst ha
    rw [safelyCheck_locked]
    cases hd : deriveKey (dbGet st.db w .mpriv) p with
    | none => exact good_fail ⟨hl, hw, hx⟩ _
    | some mk =>
      simp only [Option.map_some]
      refine ⟨allLocked_put hl w r, walOk_setSame hw hg _, ?_⟩
      intro k' x hgx
      simp only [setAM, AMap.get_put] at hgx
      by_cases hkk : k = k'
      · simp [hkk] at hgx
        subst hgx
        obtain ⟨h0, salt, ckE, ckP, y, h1, h2, h3, _, _⟩ := hw w r _ hg
        exact ⟨r.pass, h0, salt, ckE, r.ent, h1, h2, h3⟩
      · simp [hkk] at hgx
        exact hx k' x hgx

theorem mnemonic_good {st : St} (h : Good st) (w : String) (p : Pass) : Good (mnemonic st w p).1 := by
  unfold mnemonic
  split
  · exact good_fail h _
  · rename_i r a hg
    obtain ⟨hl, hw, hx⟩ := h
    have ha : a = {} := hl _ (get_mem hg)
    subst ha
    rw [checkPassword_locked]
    cases hd : deriveKey (dbGet st.db w .mpriv) p with
    | none => exact good_fail ⟨hl, hw, hx⟩ _
    | some mk =>
      simp only [Option.map_some]
      have hgood : Good (setAM st w r {}) := ⟨allLocked_put hl w r, walOk_setSame hw hg _, hx⟩
      split
      · exact hgood
      · exact good_fail hgood _

theorem remove_good {st : St} (h : Good st) (w : String) (p : Pass) : Good (remove st w p).1 := by
  unfold remove
  split
  · exact good_fail h _
  · split
    · exact good_fail h _
    · obtain ⟨hl, hw, hx⟩ := h
      refine ⟨?_, ?_, hx⟩
      · intro e he
        exact hl e (mem_erase he)
      · intro w' r' a' hg'
        simp only [AMap.get_erase] at hg'
        by_cases hww : w = w'
        · simp [hww] at hg'
        · simp [hww] at hg'
          obtain ⟨h0, salt, ckE, ckP, x, h1, h2, h3, h4, h5⟩ := hw w' r' a' hg'
          have hne : w' ≠ w := Ne.symm hww
          refine ⟨h0, salt, ckE, ckP, x, ?_, ?_, ?_, ?_, ?_⟩ <;> rw [dbGet_eraseWallet_other st.db hne] <;> assumption

theorem deriveKey_shape {salt : Term} {q p : Pass} {mk : Term} (hq : endsZero q = false)
    (h : deriveKey (.pair salt (.hash (.kdf salt (passT q)))) p = some mk) : p = q ∧ mk = .kdf salt (passT q) := by
  have hp : p = q := (deriveKey_iff salt q p hq).mp (by rw [h]; rfl)
  subst hp
  rw [deriveKey_right salt p hq] at h
  exact ⟨rfl, (Option.some.inj h).symm⟩

theorem importKS_good {st : St} (h : Good st) (k : String) (p : Pass) : Good (importKS st k p).1 := by
  unfold importKS
  split
  · exact h
  · rename_i x hgx
    obtain ⟨q, hq, salt, ckE, e0, hp1, hp2, hp3⟩ := h.2.2 k x hgx
    split
    · exact good_fail h _
    · rename_i mkPriv hmk
      rw [hp1] at hmk
      obtain ⟨rfl, rfl⟩ := deriveKey_shape hq hmk
      split
      · split; · exact good_fail h _
        split; · exact good_fail h _
        rw [hp1]
        exact good_install h x.wallet _ p _ _ salt _ _ _ _ _ hq _ _
      · exact good_fail h _

theorem importMn_good {st : St} (h : Good st) (w : String) (p : Pass) (src : String) (e i : Nat) :
    Good (importMn st w p src e i).1 := by
  unfold importMn
  split
  · exact h
  · dsimp only
    generalize identName st _ p w = name
    split; · exact h
    split; · exact good_fail h _
    rename_i hz
    split; · exact good_fail h _
    simp only [paramsT, masterKey]
    have hp : endsZero p = false := by
      cases hzz : endsZero p
      · rfl
      · simp [hzz] at hz
    exact good_install h name _ p _ _ (.rnd (st.nonce + 1)) _ _ _ _ _ hp _ _

theorem chpub_good {st : St} (h : Good st) (o n : Pass) : Good (chpub st o n).1 := by
  unfold chpub
  split; · exact good_fail h _
  split; · exact good_fail h _
  split
  · exact good_fail h _
  · obtain ⟨hl, hw, hx⟩ := h
    refine ⟨hl, ?_, hx⟩
    intro w r a hg
    obtain ⟨h0, salt, ckE, ckP, x, h1, h2, h3, h4, h5⟩ := hw w r a hg
    refine ⟨h0, salt, ckE, ckP, x, ?_, ?_, ?_, ?_, ?_⟩ <;>
      (simp only []; rw [chpubWrites_reads st o n w _ (by simp) (by simp)]; assumption)

theorem chpriv_good {st : St} (h : Good st) (w : String) (o n : Pass) : Good (chpriv st w o n).1 := by
  unfold chpriv
  split
  · exact h
  · split; · exact good_fail h _
    split; · exact good_fail h _
    split; · exact good_fail h _
    split; · exact good_fail h _
    exact good_fail h _

theorem good_clear {st : St} (h : Good st) : Good { st with wal := clearAll st.wal } := by
  obtain ⟨hl, hw, hx⟩ := h
  refine ⟨fun e he => mem_clearAll he, ?_, hx⟩
  intro w r a hg
  simp only [get_clearAll] at hg
  cases hg0 : AMap.get st.wal w with
  | none => simp [hg0] at hg
  | some ra =>
    simp [hg0] at hg
    obtain ⟨rfl, _⟩ := hg
    exact hw w ra.1 ra.2 (by rw [hg0])

theorem signHash_good {st : St} (h : Good st) (w : String) (b i : Nat) (p : Pass) : Good (signHash st w b i p).1 := by
  unfold signHash
  split
  · exact h
  · dsimp only
    split
    · exact good_fail (good_clear h) _
    · exact good_clear h

theorem restart_good {st : St} (h : Good st) (p : Pass) : Good (restart st p).1 := by
  unfold restart
  dsimp only
  split
  · exact good_fail (good_clear h) _
  · split
    · exact good_of_eq (good_clear h) rfl rfl rfl
    · exact good_fail (good_clear h) _

theorem step_good {st : St} (h : Good st) (op : Op) : Good (step st op).1 := by
  cases op with
  | create w p b => exact create_good h w p b
  | newAddr w => exact newAddr_good h w
  | exportKS w p k => exact exportKS_good h w p k
  | importKS k p => exact importKS_good h k p
  | importMn w p s e i => exact importMn_good h w p s e i
  | mnemonic w p => exact mnemonic_good h w p
  | remove w p => exact remove_good h w p
  | chpub o n => exact chpub_good h o n
  | chpriv w o n => exact chpriv_good h w o n
  | signHash w b i p => exact signHash_good h w b i p
  | restart p => exact restart_good h p

theorem run_good (ops : List Op) : ∀ {st : St}, Good st → Good (run st ops) := by
  induction ops with
  | nil => intro st h; exact h
  | cons o os ih =>
    intro st h
    unfold run
    simp only [List.foldl_cons]
    exact ih (step_good h o)

theorem init_good : Good ({} : St) := by
  refine ⟨?_, ?_, ?_⟩
  · intro e he; simp at he
  · intro w r a hg; simp [AMap.get] at hg
  · intro k x hg; simp [AMap.get] at hg

end MW.Lemmas.SecretsGate
