/-
  C06 deepening (round 4): NON-VACUITY of `crash_equiv_tasks` — a concrete history with an ImportWallet, a rescan in
  two batches, reorganisations during the rescan, batches against the moved node, CreateWallet and NewAddress inside the
  import window, a crash at a NON-quiet commit boundary inside the window, a STALE notification handled inside the
  window, and a two-iteration removal with a crash between the iterations:
    node:     G ── b1 ── c2          (c2's coinbase pays "a2" of w1)
                    └─── e2          (sibling of c2; its coinbase pays "a3" — an address of the RESTORED wallet w3 — and
                                      "a2" of w1: one transaction record needed by both wallets)
    history:  extend b1 · handle · extend c2 · handle · ImportWallet w3 (manages "a3") · batch (cursor 0 → 1) ·
              reorgTo 1 [e2] · batch (put off: the node's block at the top of the range is not the follower's) ·
              CreateWallet w2 · NewAddress w1 ("a4") · reorgTo 1 [c2] · reorgTo 1 [e2] ·
              CRASH (e2, c2, e2 queued in the run that never stops; wallet on c2, w3 importing with cursor 1) · batch ·
              handle (e2) · handle (c2: STALE) · handle (e2: duplicate) · importDrain ·
              RemoveWallet w1 · one iteration (step size 1: one of w1's two credits) · CreateWallet w4 · NewAddress w3 ("a9") ·
              unconfirmed u2 (spends w3's coin) · CRASH · removeDrain
  The crashing run rolls c2 back and connects e2 inside Start (the follower does not record the payment to the wallet
  being restored), finds the rescan queued again and picks the payment up in its second batch; the run that never
  stops has its second batch put off twice, works off three notifications (one of them stale) and finishes in the
  drain.  Both end with w3 ready, balance 30, and — after the removal — with w2, w3 and w4 as the only wallets.
-/
import MW.Lemmas.Deepen4Resume
import MW.Lemmas.Deepen4Unguarded
import MW.Lemmas.Deepen3Ex
namespace MW.Lemmas.Deepen4
open MW MW.Model.Ledger MW.Model.Persist MW.Spec.Persist MW.Spec.Chain MW.Spec.Books MW.Lemmas.Ledger
  MW.Lemmas.Deepen3

/-- sibling of c2: the coinbase pays the restored wallet AND the wallet that is removed later -/
def exE2 : Block := ⟨"e2", "b1", 2, [⟨"c4", true, [⟨"", 0, 0⟩], [⟨"a3", 30, .std⟩, ⟨"a2", 20, .std⟩]⟩]⟩

def exSt4 : Static :=
  { p := { cbMaturity := 1 },
    derive := fun _ n => match n with | 2 => "a4" | _ => "a9",
    known := [("G", hxG), ("b1", hxB1), ("e2", exE2), ("c2", hxC2)] }

def exCfg : Cfg := { st := exSt4, n := 1, batch := 1, limit := 1 }
def exR3 : KsRec := { next := 1, addrs := [(0, "a3")] }
def exKs3 : AMap.T Wid KsRec := ("w3", exR3) :: exKs0
/-- after CreateWallet w2 and NewAddress w1 -/
def exKs5 : AMap.T Wid KsRec :=
  [("w1", { next := 3, addrs := [(0, "a1"), (1, "a2"), (2, "a4")] }), ("w2", {}), ("w3", exR3)]
/-- at the end: w1 removed, w4 created and an address issued for w3 inside the removal window -/
def exKsE : AMap.T Wid KsRec :=
  [("w3", { next := 2, addrs := [(0, "a3"), (1, "a9")] }), ("w4", {}), ("w2", {})]

/-- an unconfirmed transaction spending the restored wallet's coin, delivered inside the removal window -/
def exU2 : Tx := ⟨"u2", false, [⟨"c4", 0, 0⟩], [⟨"a3", 30, .std⟩]⟩

def exEvsT : List EvT :=
  [.q (.extend hxB1), .q .handle, .q (.extend hxC2), .q .handle, .importStart "w3" exR3, .importStep "w3",
   .q (.reorgTo 1 [exE2]), .importStep "w3", .q (.create "w2"), .q (.newAddr "w1" false), .q (.reorgTo 1 [hxC2]),
   .q (.reorgTo 1 [exE2]), .q .crash, .importStep "w3", .q .handle, .q .handle, .q .handle, .importDrain "w3" 5,
   .removeMark "w1", .removeStep "w1", .q (.create "w4"), .q (.newAddr "w3" false), .q (.recvTx exU2), .q .crash,
   .removeDrain "w1"]

def exK0T : SkelT := { base := exK0 }

theorem ex4Known_cases {id : BlkId} {x : Block} (h : AMap.get exSt4.known id = some x) :
    x = hxG ∨ x = hxB1 ∨ x = exE2 ∨ x = hxC2 := by
  simp only [exSt4, AMap.get_cons, AMap.get_nil] at h
  repeat' split at h
  all_goals first | (cases h; simp) | cases h

theorem ex4StaticOK : StaticOK exSt4 hxG where
  genesisOnly := by
    intro id x h h0
    rcases ex4Known_cases h with rfl | rfl | rfl | rfl
    · rfl
    all_goals cases h0
  genesisPrev := by
    intro id x h
    rcases ex4Known_cases h with rfl | rfl | rfl | rfl <;> decide

theorem ex4OK (ks : AMap.T Wid KsRec) (x : Block) (hx : x = exE2 ∨ x = hxC2)
    (hv : ChainValid (ownOf ks) [hxG, hxB1, x]) : ChainOK (lenv exSt4 ks) hxG [hxG, hxB1, x] := by
  rcases hx with rfl | rfl
  · exact ⟨hxGood3 rfl rfl rfl rfl rfl, hv, rfl, by
      intro y hy
      simp only [List.mem_cons, List.not_mem_nil, or_false] at hy
      rcases hy with rfl | rfl | rfl <;> rfl⟩
  · exact ⟨hxGood3 rfl rfl rfl rfl rfl, hv, rfl, by
      intro y hy
      simp only [List.mem_cons, List.not_mem_nil, or_false] at hy
      rcases hy with rfl | rfl | rfl <;> rfl⟩

theorem exValid0c : ChainValid (ownOf exKs0) [hxG, hxB1, hxC2] := by decide
theorem exValid3c : ChainValid (ownOf exKs3) [hxG, hxB1, hxC2] := by decide
theorem exValid3e : ChainValid (ownOf exKs3) [hxG, hxB1, exE2] := by decide
theorem exValid5c : ChainValid (ownOf exKs5) [hxG, hxB1, hxC2] := by decide
theorem exValid5e : ChainValid (ownOf exKs5) [hxG, hxB1, exE2] := by decide

theorem ex4Inv0 : Ledger.Inv ((lenv exSt4 exKs0).ctx [hxG]) obS0 [hxG] :=
  ⟨exInv0.agree, exInv0.bal, exInv0.sync, exInv0.syncedTo⟩

/-- the initial state satisfies round 3's invariant … -/
theorem ex4JQ0 : JQ exSt4 hxG exX0 exK0 where
  chain := rfl
  ks := rfl
  keys := rfl
  js := ⟨[hxG], ⟨ex4Inv0, rfl, (ex4OK exKs0 hxC2 (Or.inr rfl) exValid0c).take 0, exAllReady0, by decide,
    fun b hb => (by cases hb), fun _ => rfl, fun h => absurd rfl h⟩, [hxG], List.mem_singleton.2 rfl, List.prefix_refl _⟩
  chainOK := (ex4OK exKs0 hxC2 (Or.inr rfl) exValid0c).take 0
  cur := List.mem_singleton.2 rfl
  keysOK := ⟨by decide, by decide, by decide⟩

/-- … hence this round's -/
theorem exJT0 : JT exCfg hxG exX0 exK0T where
  short := by
    intro c hc
    have : c = [hxG] := by simpa [exK0T, exK0] using hc
    subst this
    decide
  qsuf := List.suffix_refl _
  credN := List.nodup_nil
  phase := ex4JQ0

/-- the skeleton after the whole history: both windows closed, w1 gone -/
theorem exSkelT : skRunT exCfg exK0T exEvsT =
    { base := { chain := [hxG, hxB1, exE2], ks := exKsE,
                hist := [[hxG], [hxG, hxB1], [hxG, hxB1, hxC2], [hxG, hxB1, exE2], [hxG, hxB1, hxC2], [hxG, hxB1, exE2]] },
      queue := [], busy := none } := by rfl

/-- THE HYPOTHESES OF `crash_equiv_tasks` ON THE SKELETON hold for this history -/
theorem exRunOKT : RunOKT exCfg hxG exK0T exEvsT := by
  refine ⟨⟨(ex4OK exKs0 hxC2 (Or.inr rfl) exValid0c).take 1, (by show _ + _ < _; decide), trivial⟩, ⟨trivial, trivial, trivial⟩,
    ⟨ex4OK exKs0 hxC2 (Or.inr rfl) exValid0c, (by show _ + _ < _; decide), trivial⟩, ⟨trivial, trivial, trivial⟩,
    ⟨rfl, rfl, by decide, by show (List.map _ _).Nodup; decide, ?_⟩, rfl,
    ⟨⟨by simp, ex4OK exKs3 exE2 (Or.inl rfl) exValid3e⟩, (by show _ + _ < _; decide), trivial⟩, rfl,
    ⟨trivial, trivial, trivial⟩, ⟨?_, trivial, (by show "w1" ≠ "w3"; decide)⟩,
    ⟨⟨by simp, ex4OK exKs5 hxC2 (Or.inr rfl) exValid5c⟩, (by show _ + _ < _; decide), trivial⟩,
    ⟨⟨by simp, ex4OK exKs5 exE2 (Or.inl rfl) exValid5e⟩, (by show _ + _ < _; decide), trivial⟩,
    ⟨trivial, trivial, trivial⟩, rfl, ⟨trivial, trivial, trivial⟩, ⟨trivial, trivial, trivial⟩, ⟨trivial, trivial, trivial⟩,
    ⟨rfl, rfl, by decide⟩,
    ⟨rfl, ⟨_, rfl, by decide⟩, "w3", by decide, by decide⟩, rfl,
    ⟨trivial, trivial, (by show "w4" ≠ "w1"; decide)⟩, ⟨?_, trivial, (by show "w3" ≠ "w1"; decide)⟩, ⟨trivial, trivial, ?_⟩,
    ⟨trivial, trivial, rfl⟩, rfl, trivial⟩
  · intro c hc
    have : c = [hxG] ∨ c = [hxG, hxB1] ∨ c = [hxG, hxB1, hxC2] := by
      have h' : c ∈ [[hxG], [hxG, hxB1], [hxG, hxB1, hxC2]] := hc
      simpa using h'
    rcases this with rfl | rfl | rfl <;> decide
  · -- NewAddress w1: "a4" is paid by no chain the node has had and is new to the table
    intro r hr
    have : r = { next := 2, addrs := [(0, "a1"), (1, "a2")] } := by
      have h' : AMap.get (("w2", {}) :: exKs3) "w1" = some r := hr
      simp [exKs3, exKs0, AMap.get_cons] at h'
      exact h'.symm
    subst this
    refine ⟨?_, by decide⟩
    intro c hc
    have : c = [hxG] ∨ c = [hxG, hxB1] ∨ c = [hxG, hxB1, hxC2] ∨ c = [hxG, hxB1, exE2] := by
      have h' : c ∈ [[hxG], [hxG, hxB1], [hxG, hxB1, hxC2], [hxG, hxB1, exE2]] := hc
      simpa using h'
    rcases this with rfl | rfl | rfl | rfl <;> decide
  · -- NewAddress w3 inside the removal window: "a9" is paid by no chain and new to the table
    intro r hr
    have : r = exR3 := by
      have h' : AMap.get (("w4", {}) :: exKs5) "w3" = some r := hr
      simp [exKs5, AMap.get_cons] at h'
      exact h'.symm
    subst this
    refine ⟨?_, by decide⟩
    intro c hc
    have : c = [hxG] ∨ c = [hxG, hxB1] ∨ c = [hxG, hxB1, hxC2] ∨ c = [hxG, hxB1, exE2] := by
      have h' : c ∈ [[hxG], [hxG, hxB1], [hxG, hxB1, hxC2], [hxG, hxB1, exE2], [hxG, hxB1, hxC2], [hxG, hxB1, exE2]] := hc
      simp only [List.mem_cons, List.not_mem_nil, or_false] at h'
      rcases h' with h | h | h | h | h | h
      · exact Or.inl h
      · exact Or.inr (Or.inl h)
      · exact Or.inr (Or.inr (Or.inl h))
      · exact Or.inr (Or.inr (Or.inr h))
      · exact Or.inr (Or.inr (Or.inl h))
      · exact Or.inr (Or.inr (Or.inr h))
    rcases this with rfl | rfl | rfl | rfl <;> decide
  · -- the unconfirmed transaction u2 is in no chain the node has had
    intro c hc
    have : c = [hxG] ∨ c = [hxG, hxB1] ∨ c = [hxG, hxB1, hxC2] ∨ c = [hxG, hxB1, exE2] := by
      have h' : c ∈ [[hxG], [hxG, hxB1], [hxG, hxB1, hxC2], [hxG, hxB1, exE2], [hxG, hxB1, hxC2], [hxG, hxB1, exE2]] := hc
      simp only [List.mem_cons, List.not_mem_nil, or_false] at h'
      rcases h' with h | h | h | h | h | h
      · exact Or.inl h
      · exact Or.inr (Or.inl h)
      · exact Or.inr (Or.inr (Or.inl h))
      · exact Or.inr (Or.inr (Or.inr h))
      · exact Or.inr (Or.inr (Or.inl h))
      · exact Or.inr (Or.inr (Or.inr h))
    rcases this with rfl | rfl | rfl | rfl <;> decide

/-- the state hypothesis of the removal holds in both runs: no unmined credit when RemoveWallet is called -/
theorem exGuard (cr : Bool) : GuardT exCfg cr exX0 exEvsT := by
  refine ⟨trivial, trivial, trivial, trivial, trivial, trivial, trivial, trivial, trivial, trivial, trivial, trivial,
    trivial, trivial, trivial, trivial, trivial, trivial, ?_, trivial, trivial, trivial, trivial, trivial, trivial, trivial⟩
  intro X _ e he
  have : (runT exCfg cr exX0 (exEvsT.take 18)).P.led.pendCred = [] := by cases cr <;> decide
  have he' : e ∈ (runT exCfg cr exX0 (exEvsT.take 18)).P.led.pendCred := he
  rw [this] at he'
  cases he'

/-- the run that never stops ends with nothing queued … -/
theorem exQuietTT : (runT exCfg false exX0 exEvsT).queue = [] := by decide

/-- … so `crash_equiv_tasks` applies: the run with both crashes executed ends on the same chain with the same
    keystore, tip and extensionally equal confirmed buckets -/
theorem exEquivT : (runT exCfg true exX0 exEvsT).queue = [] ∧
    (runT exCfg true exX0 exEvsT).P.ks = (runT exCfg false exX0 exEvsT).P.ks ∧
    AMap.Equiv (runT exCfg true exX0 exEvsT).P.led.credits (runT exCfg false exX0 exEvsT).P.led.credits ∧
    AMap.Equiv (runT exCfg true exX0 exEvsT).P.led.unspent (runT exCfg false exX0 exEvsT).P.led.unspent := by
  have h := crash_equiv_tasks ex4StaticOK rfl (by decide) (by decide) exEvsT exX0 exK0T exJT0 exRunOKT (exGuard true) (exGuard false)
    (by rw [exSkelT]) exQuietTT
  exact ⟨h.1, h.2.2.1, h.2.2.2.2.1, h.2.2.2.2.2.1⟩

/-- the crash at event 13 was taken at a NON-quiet point inside the import window: the run that never stops has three
    notifications queued (the second one stale by then) and sits on c2; the crashing run has reorganised onto e2 inside
    Start, kept the cursor of the rescan (status "importing from 1"; the follower did NOT record the payment to the wallet
    being restored) and has the rescan in the worker's queue again -/
example : (runT exCfg false exX0 (exEvsT.take 13)).queue.map (·.id) = ["e2", "c2", "e2"] ∧
    (runT exCfg true exX0 (exEvsT.take 13)).queue.map (·.id) = [] ∧
    (runT exCfg false exX0 (exEvsT.take 13)).V.led.best = ⟨2, "c2"⟩ ∧ (runT exCfg true exX0 (exEvsT.take 13)).V.led.best = ⟨2, "e2"⟩ ∧
    AMap.get (runT exCfg true exX0 (exEvsT.take 13)).P.led.status "w3" = some ⟨some 1, false⟩ ∧
    (runT exCfg true exX0 (exEvsT.take 13)).V.tasks = [.imp "w3"] ∧
    AMap.get (runT exCfg true exX0 (exEvsT.take 13)).P.led.balance "w3" = some 0 ∧
    AMap.get (runT exCfg true exX0 (exEvsT.take 13)).P.led.balance "w1" = some 70 ∧
    (runT exCfg true exX0 (exEvsT.take 13)).P.ks = exKs5 := by decide

/-- after the next batch the crashing run is done (the rescan picked up the payment to "a3" that the follower had
    ignored in Start), the other run's batch has been put off (node moved, notification pending); the stale
    notification (event 16) changes nothing in the run that never stops -/
example : AMap.get (runT exCfg true exX0 (exEvsT.take 14)).P.led.status "w3" = some ⟨none, false⟩ ∧
    AMap.get (runT exCfg true exX0 (exEvsT.take 14)).P.led.balance "w3" = some 30 ∧
    AMap.get (runT exCfg false exX0 (exEvsT.take 14)).P.led.status "w3" = some ⟨some 1, false⟩ ∧
    (runT exCfg false exX0 (exEvsT.take 15)).V.led.best = ⟨2, "e2"⟩ ∧
    (runT exCfg false exX0 (exEvsT.take 16)).V.led.best = ⟨2, "e2"⟩ ∧
    (runT exCfg false exX0 (exEvsT.take 16)).queue.map (·.id) = ["e2"] := by decide

/-- when the import window is closed both runs agree; the removal of w1 (credits c1:0 and c4:1) takes two iterations,
    the crash between them (after a CreateWallet, a NewAddress and an unconfirmed transaction inside the window) finds the
    flag and queues the removal again; at the end w2, w3 and w4 are the only wallets and w3 keeps its coin c4:0 (the transaction record of c4 was needed by both wallets) -/
example : AMap.get (runT exCfg false exX0 (exEvsT.take 18)).P.led.balance "w3" = some 30 ∧
    (runT exCfg true exX0 (exEvsT.take 19)).P.led.credits.length = 3 ∧
    (runT exCfg true exX0 (exEvsT.take 20)).P.led.credits.length = 2 ∧
    (runT exCfg true exX0 (exEvsT.take 24)).V.tasks = [.rem "w1"] ∧
    (runT exCfg true exX0 exEvsT).P.ks = exKsE ∧ (runT exCfg true exX0 exEvsT).V.keys = exKsE ∧
    (runT exCfg true exX0 exEvsT).P.led.status.map (·.1) = ["w4", "w3", "w2"] ∧
    (runT exCfg true exX0 exEvsT).P.led.pending.map (·.1) = ["u2"] ∧
    AMap.get (runT exCfg true exX0 exEvsT).P.led.balance "w3" = some 30 ∧
    (runT exCfg true exX0 exEvsT).P.led.credits.map (fun e => (e.1.tx, e.1.idx)) = [("c4", 0)] ∧
    (runT exCfg true exX0 exEvsT).P.led.txrecs.map (·.1.1) = ["c4"] := by decide

/-- A QUIET POINT INSIDE THE OPEN IMPORT WINDOW (`crash_equiv_tasks_quiet`): the first 17 events, then one more batch —
    now the run that never stops has finished the rescan too (its follower has caught up), the window is still open in
    the skeleton, nothing is queued, no task is pending in either run -/
def exEvsW : List EvT := exEvsT.take 17 ++ [.importStep "w3"]

theorem exEquivW : (runT exCfg true exX0 exEvsW).queue = [] ∧
    AMap.Equiv (runT exCfg true exX0 exEvsW).P.led.credits (runT exCfg false exX0 exEvsW).P.led.credits ∧
    (runT exCfg true exX0 exEvsW).V.led.best = (runT exCfg false exX0 exEvsW).V.led.best := by
  have hsplit : exEvsT = exEvsT.take 17 ++ exEvsT.drop 17 := (List.take_append_drop 17 exEvsT).symm
  have hR : RunOKT exCfg hxG exK0T exEvsW := by
    refine (runOKT_append _ _ _).2 ⟨?_, ⟨rfl, trivial⟩⟩
    have := exRunOKT
    rw [hsplit] at this
    exact ((runOKT_append _ _ _).1 this).1
  have hg : ∀ cr, GuardT exCfg cr exX0 exEvsW := by
    intro cr
    refine (guardT_append _ _ _).2 ⟨?_, ⟨trivial, trivial⟩⟩
    have := exGuard cr
    rw [hsplit] at this
    exact ((guardT_append _ _ _).1 this).1
  have h := crash_equiv_tasks_quiet ex4StaticOK rfl (by decide) (by decide) exEvsW exX0 exK0T exJT0 hR (hg true) (hg false)
    (by show importDone (runT exCfg true exX0 exEvsW).P "w3" = true; decide)
    (by show importDone (runT exCfg false exX0 exEvsW).P "w3" = true; decide) (by decide)
  exact ⟨h.1, h.2.2.2.2.1, h.2.2.2.2.2.2.2.2.2.2.2.2.1⟩

example : (skRunT exCfg exK0T exEvsW).busy = some (.imp "w3") := by rfl

/-- the initial state satisfies the status / task-queue invariant, so on this history the worker that runs whatever
    is queued (`runU`) does exactly what `runT` does -/
theorem exStatOK0 : StatOK exX0 where
  nodup := by show (List.map _ _).Nodup; decide
  dom := by
    intro e he
    have : e = ("w1", ⟨none, false⟩) := by
      have h' : e ∈ [(("w1", ⟨none, false⟩) : Wid × WStatus)] := he
      simpa using h'
    subst this
    decide
  tasks := fun t ht => by cases ht
  excl := fun w hw => by cases hw

example : runU exCfg true exX0 exEvsT = runT exCfg true exX0 exEvsT := runU_eq_runT exCfg true exX0 exEvsT exStatOK0

end MW.Lemmas.Deepen4
