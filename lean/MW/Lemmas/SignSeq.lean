/-
  C03 round 5 / C10: the sequence rule of MW.Model.Sign (`seqOk`, incl. the MASSIP-2 class `bind2`) IS the rule the
  script VM enforces (both directions), the VM engine `vmOk` in closed form for BOTH settings of ScriptMASSip2, and the
  link to C10: the sequence `constructTxIn` chooses (`MW.Model.WithdrawSeq.seqChoice`) meets the signing hypothesis on
  both sides of the warm-up height.
-/
import MW.Lemmas.SignVM
import MW.Lemmas.WithdrawSeq
import MW.Model.SignTab
namespace MW.Lemmas.SignSeq
open MW MW.Model.Sign MW.Model.ScriptVM MW.Lemmas.ScriptVMParse MW.Lemmas.ScriptVMExec MW.Lemmas.ScriptVMMain
open MW.Lemmas.SignVM MW.Model.WithdrawSeq

variable {C : Crypto}

-- ------------------------------------------------------------------ helpers

theorem seqMasked_eq (s : Nat) : seqMasked s = s % 4294967296 + 274877906944 * (s / 274877906944 % 2) := by
  simp [seqMasked, Gen.Vm.sequenceLockTimeMask, Gen.Vm.sequenceLockTimeIsSeconds]

/-- the VM's CSV rule against a block-type lock `< 2^32`, for a 64-bit sequence number, in arithmetic form -/
theorem seqRule_small_iff (s l : Nat) (hl : l < 4294967296) (hs : s < 18446744073709551616) :
    SeqRule s l ↔ s < 9223372036854775808 ∧ s / 274877906944 % 2 = 0 ∧ l ≤ s % 4294967296 := by
  have ml : seqMasked l = l := MW.Lemmas.WithdrawSeq.seqMasked_small (by
    have : (2 : Nat) ^ 32 = 4294967296 := by decide
    omega)
  unfold SeqRule
  rw [ml, seqMasked_eq]
  simp only [Gen.Vm.sequenceLockTimeDisabled, Gen.Vm.sequenceLockTimeIsSeconds]
  rcases Nat.mod_two_eq_zero_or_one (s / 274877906944) with h | h
  · rw [h]; constructor
    · rintro ⟨a, _, c⟩; exact ⟨by omega, rfl, by omega⟩
    · rintro ⟨a, _, c⟩; exact ⟨by omega, by constructor <;> intro <;> omega, by omega⟩
  · rw [h]; constructor
    · rintro ⟨_, b, _⟩; omega
    · rintro ⟨_, b, _⟩; omega

-- ------------------------------------------------------------------ S1, S2

/-- S1: for staking outputs `seqOk` is exactly the VM's CSV rule (sequence numbers are 64-bit) -/
theorem seqOk_stk_iff (f s : Nat) (hf : f + 1 < 2^32) (hs : s < 2^64) :
    seqOk (.stk f) s = true ↔ SeqRule s (f + 1) := by
  have e32 : (2 : Nat) ^ 32 = 4294967296 := by decide
  have e64 : (2 : Nat) ^ 64 = 18446744073709551616 := by decide
  rw [seqRule_small_iff s (f + 1) (by omega) (by omega)]
  simp only [seqOk, Bool.and_eq_true, decide_eq_true_eq]
  have e63 : (2 : Nat) ^ 63 = 9223372036854775808 := by decide
  have e38 : (2 : Nat) ^ 38 = 274877906944 := by decide
  rw [e63, e38, e32]
  constructor
  · rintro ⟨⟨a, b⟩, c⟩; exact ⟨a, b, c⟩
  · rintro ⟨a, b, c⟩; exact ⟨⟨a, b⟩, c⟩

/-- S2: … and for binding outputs under ScriptMASSip2 -/
theorem seqOk_bind2_iff (s : Nat) (hs : s < 2^64) :
    seqOk .bind2 s = true ↔ SeqRule s Gen.Vm.bindingLockedPeriod := by
  have e32 : (2 : Nat) ^ 32 = 4294967296 := by decide
  have e64 : (2 : Nat) ^ 64 = 18446744073709551616 := by decide
  have e63 : (2 : Nat) ^ 63 = 9223372036854775808 := by decide
  have e38 : (2 : Nat) ^ 38 = 274877906944 := by decide
  have eb : Gen.Vm.bindingLockedPeriod = 4294967294 := rfl
  rw [eb, seqRule_small_iff s 4294967294 (by omega) (by omega)]
  simp only [seqOk, Bool.and_eq_true, decide_eq_true_eq]
  rw [e63, e38, e32]
  constructor
  · rintro ⟨⟨a, b⟩, c⟩; exact ⟨a, b, by omega⟩
  · rintro ⟨a, b, c⟩; exact ⟨⟨a, b⟩, by omega⟩

-- ------------------------------------------------------------------ S3, S4

/-- what `SigValid` says about the witness the model builds: the signature verifies -/
theorem sigValid_verify (K : Codec C) (tx : STx) (i seq amt : Nat) (b : Bool) (w : Witness C)
    (h : SigValid (vmPrims K) (vmCtx K tx i seq amt b) (K.encPK w.pk)
      (K.encSig w.sig ++ [UInt8.ofNat (flagByte w.flag)])) :
    C.verify w.pk (K.sighash tx i amt (redeem1 (K.encPK w.pk)) (flagByte w.flag)) w.sig = true := by
  have hfb := flagByte_lt w.flag
  have hlast : ((K.encSig w.sig ++ [UInt8.ofNat (flagByte w.flag)]).getLast?.getD 0).toNat = flagByte w.flag := by
    simp [UInt8.toNat_ofNat']; omega
  have hdrop : (K.encSig w.sig ++ [UInt8.ofNat (flagByte w.flag)]).dropLast = K.encSig w.sig := by simp
  obtain ⟨_, _, _, _, s, k, hps, hpk, hv⟩ := h
  rw [hdrop] at hps
  rw [hlast] at hv
  have e1 : s = w.sig := by
    have := K.parseSig_enc w.sig
    have h2 : (vmPrims K).parseSig (K.encSig w.sig) = K.parseSig (K.encSig w.sig) := rfl
    rw [h2, this] at hps
    exact (Option.some.inj hps).symm
  have e2 : k = w.pk := by
    have := K.parsePK_enc w.pk
    have h2 : (vmPrims K).parsePK (K.encPK w.pk) = K.parsePK (K.encPK w.pk) := rfl
    rw [h2, this] at hpk
    exact (Option.some.inj hpk).symm
  subst e1; subst e2
  exact hv

/-- S3: the VM engine in closed form, BOTH settings of ScriptMASSip2 (class bind = off, bind2 = on): it accepts the
    witness the model builds iff the class is a template, sha256(redeem script) is the program, the sequence rule
    `seqOk` holds and the signature verifies against the signature hash of the redeem script -/
theorem vmOk_iff (K : Codec C) (po : PrevOut Bytes) (tx : STx) (i : Nat) (w : Witness C) (inp : TxIn Unit)
    (hinp : tx.ins[i]? = some inp) (hs : inp.seq < 2^64) (hl : po.addr.length = 32)
    (hf : ∀ f, po.cls = .stk f → f + 1 < 2^32) :
    vmOk K po tx i (some w) = true ↔
      po.cls ≠ .other ∧ K.sha256 (redeem1 (K.encPK w.pk)) = po.addr ∧ seqOk po.cls inp.seq = true ∧
      C.verify w.pk (K.sighash tx i po.amt (redeem1 (K.encPK w.pk)) (flagByte w.flag)) w.sig = true := by
  constructor
  · intro h
    have hpk := encPK_len K w.pk
    obtain ⟨hs8, hs72⟩ := encSig_len K w.sig
    have hfull1 : 1 ≤ (K.encSig w.sig ++ [UInt8.ofNat (flagByte w.flag)]).length := by simp
    have hfull2 : (K.encSig w.sig ++ [UInt8.ofNat (flagByte w.flag)]).length ≤ 75 := by simp; omega
    cases hcls : po.cls with
    | other => simp [vmOk, hcls, kindOf] at h
    | std =>
      have hk : (Kind.std).wf := trivial
      simp only [vmOk, hcls, kindOf, hinp, witnessBytes, isOk_iff] at h
      rw [verify_template _ _ _ _ _ _ hl hk hpk hfull1 hfull2, verdict_ok_iff] at h
      obtain ⟨hh, _, hsig⟩ := h
      exact ⟨by simp, hh, rfl, sigValid_verify K tx i _ _ _ w hsig⟩
    | stk f =>
      have hf' := hf f hcls
      have hk : (Kind.stk f).wf := by
        show f + 1 < 2 ^ 63
        have e32 : (2 : Nat) ^ 32 = 4294967296 := by decide
        have e63 : (2 : Nat) ^ 63 = 9223372036854775808 := by decide
        omega
      simp only [vmOk, hcls, kindOf, hinp, witnessBytes, isOk_iff] at h
      rw [verify_template _ _ _ _ _ _ hl hk hpk hfull1 hfull2, verdict_ok_iff] at h
      obtain ⟨hh, hpre, hsig⟩ := h
      have hr : SeqRule inp.seq (f + 1) := hpre
      exact ⟨by simp, hh, (seqOk_stk_iff f inp.seq hf' hs).2 hr, sigValid_verify K tx i _ _ _ w hsig⟩
    | bind =>
      have hk : (Kind.bind (List.replicate 20 0)).wf := Or.inl (by simp)
      simp only [vmOk, hcls, kindOf, hinp, witnessBytes, isOk_iff] at h
      rw [verify_template _ _ _ _ _ _ hl hk hpk hfull1 hfull2, verdict_ok_iff] at h
      obtain ⟨hh, _, hsig⟩ := h
      exact ⟨by simp, hh, rfl, sigValid_verify K tx i _ _ _ w hsig⟩
    | bind2 =>
      have hk : (Kind.bind (List.replicate 20 0)).wf := Or.inl (by simp)
      simp only [vmOk, hcls, kindOf, hinp, witnessBytes, isOk_iff] at h
      rw [verify_template _ _ _ _ _ _ hl hk hpk hfull1 hfull2, verdict_ok_iff] at h
      obtain ⟨hh, hpre, hsig⟩ := h
      have hr : SeqRule inp.seq Gen.Vm.bindingLockedPeriod := hpre rfl
      exact ⟨by simp, hh, (seqOk_bind2_iff inp.seq hs).2 hr, sigValid_verify K tx i _ _ _ w hsig⟩
  · rintro ⟨hc, hh, hq, hv⟩
    exact vm_law K po tx i w inp.seq hc hh (by rw [hinp]; rfl) hq hv

/-- S4: the sequence hypothesis of sign_complete is NECESSARY: the engine refuses otherwise -/
theorem vmOk_seq_necessary (K : Codec C) (po : PrevOut Bytes) (tx : STx) (i : Nat) (w : Witness C) (inp : TxIn Unit)
    (hinp : tx.ins[i]? = some inp) (hs : inp.seq < 2^64) (hl : po.addr.length = 32)
    (hf : ∀ f, po.cls = .stk f → f + 1 < 2^32) (h : vmOk K po tx i (some w) = true) :
    seqOk po.cls inp.seq = true :=
  ((vmOk_iff K po tx i w inp hinp hs hl hf).1 h).2.2.1

-- ------------------------------------------------------------------ S5

/-- S5: forks.EnforceMASSIP0002WarmUp is translation invariant: a run with the warm-up height lowered to `W` is the
    regenerated-constant model evaluated at heights shifted by the difference -/
theorem enforceWarmUp_shift (W h : Nat) (hW : W ≤ Gen.Vm.massip2WarmUpHeight) :
    enforceWarmUp (h + (Gen.Vm.massip2WarmUpHeight - W)) = decide (W ≤ h) := by
  unfold enforceWarmUp
  apply decide_eq_decide.2
  omega

theorem classAt_shift (W : Nat) (c : Model.Ledger.Cls) (h : Nat) (hW : W ≤ Gen.Vm.massip2WarmUpHeight) :
    Model.SignTab.classAt W c h = Model.SignTab.classAt Gen.Vm.massip2WarmUpHeight c (h + (Gen.Vm.massip2WarmUpHeight - W)) := by
  unfold Model.SignTab.classAt Class.atHeight
  have e : (Gen.Vm.massip2WarmUpHeight ≤ h + (Gen.Vm.massip2WarmUpHeight - W)) ↔ W ≤ h := by omega
  simp only [e]

-- ------------------------------------------------------------------ S6

/-- S6 (C10 ↔ C03): the sequence constructTxIn / addTxIn choose satisfies the sequence rule signWitnessTx's engine
    run enforces, for every template class, every lock time, on BOTH sides of the warm-up height -/
theorem seqChoice_signable (lt : Nat) (c : Model.Ledger.Cls) (h : Nat) (hc : c ≠ .raw)
    (hf : ∀ f, c = .stk f → f + 1 < 2^32) :
    seqOk (Model.SignTab.classAt Gen.Vm.massip2WarmUpHeight c h) (seqChoice lt c h) = true := by
  cases c with
  | raw => exact absurd rfl hc
  | std => rfl
  | stk f =>
    have hf' := hf f rfl
    have e32 : (2 : Nat) ^ 32 = 4294967296 := by decide
    have e63 : (2 : Nat) ^ 63 = 9223372036854775808 := by decide
    have e38 : (2 : Nat) ^ 38 = 274877906944 := by decide
    have hcl : Model.SignTab.classAt Gen.Vm.massip2WarmUpHeight (.stk f) h = .stk f := by
      simp [Model.SignTab.classAt, Model.SignTab.clsOf, Class.atHeight]
    rw [hcl, MW.Lemmas.WithdrawSeq.seqChoice_stk]
    simp only [seqOk, Bool.and_eq_true, decide_eq_true_eq]
    rw [e63, e38, e32]
    omega
  | bindOld t =>
    by_cases hh : Gen.Vm.massip2WarmUpHeight ≤ h
    · have hcl : Model.SignTab.classAt Gen.Vm.massip2WarmUpHeight (.bindOld t) h = .bind2 := by
        simp [Model.SignTab.classAt, Model.SignTab.clsOf, Class.atHeight, hh]
      rw [hcl, MW.Lemmas.WithdrawSeq.seqChoice_bind rfl hh]
      decide
    · have hcl : Model.SignTab.classAt Gen.Vm.massip2WarmUpHeight (.bindOld t) h = .bind := by
        simp [Model.SignTab.classAt, Model.SignTab.clsOf, Class.atHeight, hh]
      rw [hcl]; rfl
  | bindNew t =>
    by_cases hh : Gen.Vm.massip2WarmUpHeight ≤ h
    · have hcl : Model.SignTab.classAt Gen.Vm.massip2WarmUpHeight (.bindNew t) h = .bind2 := by
        simp [Model.SignTab.classAt, Model.SignTab.clsOf, Class.atHeight, hh]
      rw [hcl, MW.Lemmas.WithdrawSeq.seqChoice_bind rfl hh]
      decide
    · have hcl : Model.SignTab.classAt Gen.Vm.massip2WarmUpHeight (.bindNew t) h = .bind := by
        simp [Model.SignTab.classAt, Model.SignTab.clsOf, Class.atHeight, hh]
      rw [hcl]; rfl

/-- … and in a run with a lowered warm-up height `W` (what the drivers compute) -/
theorem seqChoice_signable_shift (W lt : Nat) (c : Model.Ledger.Cls) (h : Nat) (hW : W ≤ Gen.Vm.massip2WarmUpHeight)
    (hc : c ≠ .raw) (hf : ∀ f, c = .stk f → f + 1 < 2^32) :
    seqOk (Model.SignTab.classAt W c h) (seqChoice lt c (h + (Gen.Vm.massip2WarmUpHeight - W))) = true := by
  rw [classAt_shift W c h hW]
  exact seqChoice_signable lt c _ hc hf

-- ------------------------------------------------------------------ S7

/-- S7: the default sequence (what a binding input would get below the warm-up height) is REFUSED under ScriptMASSip2 -/
theorem defaultSeq_refused_bind2 (lt : Nat) : seqOk .bind2 (defaultSeq lt) = false := by
  rw [MW.Lemmas.WithdrawSeq.defaultSeq_eq]
  by_cases h : lt ≠ 0
  · rw [if_pos h]; decide
  · rw [if_neg h]; decide

-- ------------------------------------------------------------------ non-vacuity

-- S1: f = 3: sequence 4 is accepted, sequence 3 is refused – by the model rule and (through the iff) by the VM rule
example : seqOk (.stk 3) 4 = true := by decide
example : seqOk (.stk 3) 3 = false := by decide
example : SeqRule 4 (3 + 1) := (seqOk_stk_iff 3 4 (by decide) (by decide)).1 (by decide)
example : ¬ SeqRule 3 (3 + 1) := fun h => by
  have := (seqOk_stk_iff 3 3 (by decide) (by decide)).2 h
  exact absurd this (by decide)

-- S2: the binding locked period is accepted, MaxTxInSequenceNum is refused
example : seqOk .bind2 4294967294 = true := by decide
example : seqOk .bind2 (2^64 - 1) = false := by decide
example : SeqRule 4294967294 Gen.Vm.bindingLockedPeriod := (seqOk_bind2_iff 4294967294 (by decide)).1 (by decide)
example : ¬ SeqRule (2^64 - 1) Gen.Vm.bindingLockedPeriod := fun h => by
  have := (seqOk_bind2_iff (2^64 - 1) (by decide)).2 h
  exact absurd this (by decide)

-- S5
example : enforceWarmUp (7 + (Gen.Vm.massip2WarmUpHeight - 10)) = false := by
  rw [enforceWarmUp_shift 10 7 (by decide)]; decide
example : enforceWarmUp (10 + (Gen.Vm.massip2WarmUpHeight - 10)) = true := by
  rw [enforceWarmUp_shift 10 10 (by decide)]; decide

-- S6: both binding templates on both sides of the warm-up height, and a staking output
example : Model.SignTab.classAt Gen.Vm.massip2WarmUpHeight (.bindNew "") 1398801 = .bind2 ∧
    seqChoice 0 (.bindNew "") 1398801 = 4294967294 ∧
    seqOk (Model.SignTab.classAt Gen.Vm.massip2WarmUpHeight (.bindNew "") 1398801) (seqChoice 0 (.bindNew "") 1398801) = true := by
  decide
example : Model.SignTab.classAt Gen.Vm.massip2WarmUpHeight (.bindOld "") 1398801 = .bind2 ∧
    seqOk (Model.SignTab.classAt Gen.Vm.massip2WarmUpHeight (.bindOld "") 1398801) (seqChoice 7 (.bindOld "") 1398801) = true := by
  decide
example : Model.SignTab.classAt Gen.Vm.massip2WarmUpHeight (.bindNew "") 5 = .bind ∧
    seqChoice 0 (.bindNew "") 5 = 2^64 - 1 ∧
    seqOk (Model.SignTab.classAt Gen.Vm.massip2WarmUpHeight (.bindNew "") 5) (seqChoice 0 (.bindNew "") 5) = true := by
  decide
example : Model.SignTab.classAt Gen.Vm.massip2WarmUpHeight (.bindOld "") 5 = .bind ∧
    seqOk (Model.SignTab.classAt Gen.Vm.massip2WarmUpHeight (.bindOld "") 5) (seqChoice 7 (.bindOld "") 5) = true := by
  decide
example : Model.SignTab.classAt Gen.Vm.massip2WarmUpHeight (.stk 3) 5 = .stk 3 ∧ seqChoice 0 (.stk 3) 5 = 4 ∧
    seqOk (Model.SignTab.classAt Gen.Vm.massip2WarmUpHeight (.stk 3) 5) (seqChoice 0 (.stk 3) 5) = true := by
  decide
-- the choice matters: a sequence chosen for the WRONG side of the warm-up height is refused (S7 instance)
example : seqOk (Model.SignTab.classAt Gen.Vm.massip2WarmUpHeight (.bindNew "") 1398801) (seqChoice 0 (.bindNew "") 5) = false := by
  decide
example : seqOk .bind2 (defaultSeq 0) = false ∧ seqOk .bind2 (defaultSeq 9) = false :=
  ⟨defaultSeq_refused_bind2 0, defaultSeq_refused_bind2 9⟩


end MW.Lemmas.SignSeq
