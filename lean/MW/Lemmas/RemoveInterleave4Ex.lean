/-
  C08, interleaved removal — non-vacuity of `remove_interleaved_extensions`: wallets and stores of
  `MW.Lemmas.RemoveMidCex` (store `stF` follows chain A = G – B1 – B2 with W2 flagged, step size 1); the history
      removal step (does not finish) · the unconfirmed transaction X4 is delivered (it spends W1's coin of B1 and pays
      W1 and the flagged W2: a pending record and ONE pending credit, for W1) · restart · the node announces B3 on top
      of chain A, which confirms X4 (the pending record and credit go: `PCI.owned` / `pci_connect`) · finishing step
  is inside `DomE` — nothing is assumed about the pending buckets along the way; every hypothesis holds, hence C01's
  invariant for W1 alone on chain E = A ++ [B3].
-/
import MW.Lemmas.RemoveInterleave4
import MW.Lemmas.RemoveInterleave2Ex
namespace MW.Lemmas.RemoveInterleave4Ex
open MW MW.Model.Ledger MW.Model.Remove MW.Spec.Chain MW.Spec.Books MW.Lemmas.Ledger MW.Lemmas.RemoveProj
  MW.Lemmas.RemoveInv MW.Lemmas.RemoveMain MW.Lemmas.RemoveInterleave MW.Lemmas.RemoveMidCex MW.Lemmas.RemoveGlue
  MW.Lemmas.RemoveInterleave2Ex MW.Lemmas.RemovePend

def c3 : Tx := ⟨"C3", true, [], [⟨"A2", 8, .std⟩, ⟨"A1", 11, .std⟩]⟩
def x4 : Tx := ⟨"X4", false, [⟨"C1", 2, 0⟩], [⟨"A1", 45, .std⟩, ⟨"A2", 5, .std⟩]⟩
def b3 : Block := ⟨"B3", "B2", 3, [c3, x4]⟩
def chainE : List Block := chainA ++ [b3]
def knownE : AMap.T BlkId Block := known ++ [("B3", b3)]
def nodeE : Node := { chain := chainE, known := knownE }

/-- removal step · unconfirmed X4 · restart · extension by B3 (confirms X4) · finishing removal step -/
def evsE : List IEv :=
  [.rem, .recv x4, .restart { best := ⟨2, "B2"⟩, mempool := ["X4"] }, .notify nodeE b3, .rem]

theorem goodE : GoodChain chainE := by
  refine ⟨?_, ?_, by simp [chainE, chainA]⟩
  · intro i x h
    match i with
    | 0 => simp [chainE, chainA] at h; rw [← h]; rfl
    | 1 => simp [chainE, chainA] at h; rw [← h]; rfl
    | 2 => simp [chainE, chainA] at h; rw [← h]; rfl
    | 3 => simp [chainE, chainA] at h; rw [← h]; rfl
    | n + 4 => simp [chainE, chainA] at h
  · intro i x y hx hy
    match i with
    | 0 => simp [chainE, chainA] at hx hy; rw [← hx, ← hy]; rfl
    | 1 => simp [chainE, chainA] at hx hy; rw [← hx, ← hy]; rfl
    | 2 => simp [chainE, chainA] at hx hy; rw [← hx, ← hy]; rfl
    | n + 3 => simp [chainE, chainA] at hy

theorem nodeE_ok : NodeOK own g known nodeE b3 where
  good := goodE
  valid := by show ChainValid own chainE; decide
  genesis := rfl
  known := by
    intro x hx
    change x ∈ chainA ++ [b3] at hx
    simp only [chainA, List.cons_append, List.nil_append, List.mem_cons, List.not_mem_nil, or_false] at hx
    rcases hx with rfl | rfl | rfl | rfl <;> rfl
  grows := fun _ _ h => get_append_left h
  tip := rfl

/-- the pending side is empty when the removal starts -/
theorem pci_x0 : PCI ctx ["A2"] x0.s x0.node.chain := by
  have h1 : x0.s.pending = [] := by decide
  have h2 : x0.s.pendCred = [] := by decide
  refine ⟨?_, ?_, ?_, ?_⟩
  · intro id t h; rw [h1] at h; cases h
  · intro id j cr h; rw [h2] at h; cases h
  · intro e he; rw [h2] at he; cases he
  · rw [h2]; exact List.nodup_nil

/-- the states of the history: the first step does not finish -/
theorem runE1 : (irun 1 ctx "W2" ["A2"] x0 (evsE.take 1)).map (fun x => (x.fin, x.s.credits.map (·.1.tx))) =
    some (false, ["C1", "C1"]) := by decide

/-- … X4 is pending with ONE credit, for W1's address (the output paying the flagged W2 is not booked) -/
theorem runE3 : (irun 1 ctx "W2" ["A2"] x0 (evsE.take 3)).map
    (fun x => (x.fin, x.v.best.hash, x.s.pending.map (·.1), x.s.pendCred.map (·.1.1), x.s.pendCred.map (·.2.sh))) =
    some (false, "B2", ["X4"], ["X4"], ["A1"]) := by decide

/-- … B3 confirms it: the pending record and credit are gone, W1 has the credits of X4 and C3 -/
theorem runE4 : (irun 1 ctx "W2" ["A2"] x0 (evsE.take 4)).map
    (fun x => (x.fin, x.v.best.hash, x.s.credits.map (·.1.tx), x.s.pending.length, x.s.pendCred.length)) =
    some (false, "B3", ["X4", "C1", "C3", "C1"], 0, 0) := by decide

/-- … the second removal step finishes -/
theorem runE5 : (irun 1 ctx "W2" ["A2"] x0 evsE).map (fun x => (x.fin, x.v.best.hash, x.s.credits.map (·.1.tx))) =
    some (true, "B3", ["X4", "C1", "C3"]) := by decide

/-- what `DomE` asks along the history, by evaluation (`EvDom` at the delivery and at the block, the best block at the
    restart) -/
theorem factsE :
    (irun 1 ctx "W2" ["A2"] x0 (evsE.take 1)).map (fun x => evDomb ctx ["A2"] x (.recv x4)) = some true ∧
    (irun 1 ctx "W2" ["A2"] x0 (evsE.take 2)).map (fun x => x.v.best) = some ⟨2, "B2"⟩ ∧
    (irun 1 ctx "W2" ["A2"] x0 (evsE.take 3)).map (fun x => evDomb ctx ["A2"] x (.notify nodeE b3)) = some true := by
  decide

theorem domE : DomE 1 ctx "W2" ["A2"] g x0 evsE := by
  obtain ⟨f1, f2, f3⟩ := factsE
  refine ⟨⟨trivial, trivial⟩, ?_⟩
  cases h1 : istep 1 ctx "W2" ["A2"] x0 .rem with
  | none => trivial
  | some x1 =>
    have hn1 : x1.node = nodeA := istep_node h1
    simp only [evsE, List.take, irun, h1, Option.map_some, Option.some.injEq] at f1 f2 f3
    refine ⟨⟨evDom_of_check f1 (fun _ _ h => by cases h), trivial⟩, ?_⟩
    cases h2 : istep 1 ctx "W2" ["A2"] x1 (.recv x4) with
    | none => trivial
    | some x2 =>
      have hn2 : x2.node = nodeA := (istep_node h2).trans hn1
      simp only [h2, Option.map_some, Option.some.injEq] at f2 f3
      refine ⟨⟨trivial, by show _ = x2.v.best; rw [f2]⟩, ?_⟩
      cases h3 : istep 1 ctx "W2" ["A2"] x2 (.restart { best := ⟨2, "B2"⟩, mempool := ["X4"] }) with
      | none => trivial
      | some x3 =>
        have hn3 : x3.node = nodeA := (istep_node h3).trans hn2
        simp only [h3, Option.map_some, Option.some.injEq] at f3
        refine ⟨⟨evDom_of_check f3 (fun n b h => by cases h; rw [hn3]; rfl), ?_⟩, ?_⟩
        · show NodeOK own g x3.node.known nodeE b3
          rw [hn3]; exact nodeE_ok
        cases h4 : istep 1 ctx "W2" ["A2"] x3 (.notify nodeE b3) with
        | none => trivial
        | some x4 =>
          refine ⟨⟨trivial, trivial⟩, ?_⟩
          cases istep 1 ctx "W2" ["A2"] x4 .rem <;> trivial

/-- **a transaction is delivered and then confirmed by a new block, between the two removal steps: C01's invariant for
    W1 alone on chain E** — no hypothesis about the pending buckets along the history -/
example (x : ISt) (h : irun 1 ctx "W2" ["A2"] x0 evsE = some x) :
    x.node = nodeE ∧ Inv { ctx with own := own', wallets := ["W1"], node := x.node } x.s x.node.chain := by
  have hr : (irun 1 ctx "W2" ["A2"] x0 evsE).map (·.fin) = some true := by decide
  rw [h] at hr
  simp only [Option.map_some, Option.some.injEq] at hr
  exact ⟨irun_node evsE x0 x h, remove_interleaved_extensions phase1_x0 static pci_x0 domE h hr only_w1⟩

theorem runE_some : (irun 1 ctx "W2" ["A2"] x0 evsE).isSome = true := by decide

-- ------------------------------------------------------------------ non-vacuity of `remove_interleaved_reachable`

/-- a C09 world: the fresh two-wallet store of `RemoveMidCex` on the genesis block, in sync with its node -/
def nodeG : Node := { chain := [g], known := known }
def envR : MW.Lemmas.PendHist.HEnv := { p := ctx.p, own := own, wallets := ["W1", "W2"], src := fun _ => none }
def wG : MW.Lemmas.PendHist.HW := { node := nodeG, s := s0, v := { best := ⟨0, "G"⟩ }, sp := { chain := [g] } }
def node1 : Node := { chain := [g, b1], known := known }
/-- after the flag: the node announces B1 (it pays W2 twice — not booked — and W1 once) · the removal step -/
def evsR : List IEv := [.notify node1 b1, .rem]

theorem freshR : FreshStore (envR.ctx nodeG) s0 g where
  credits := rfl
  unspent := rfl
  debits := rfl
  game := rfl
  txrecs := rfl
  blocks := rfl
  sync := rfl
  syncedTo := rfl
  balance := by
    intro w hw
    change (readyWallets s0 ["W1", "W2"]).contains w = true at hw
    rw [ready0] at hw
    have : w = "W1" ∨ w = "W2" := by simpa using hw
    rcases this with rfl | rfl <;> rfl
  genesis := rfl

theorem hinvR : MW.Lemmas.PendHist.Cred.HInvC (fun _ => 0) envR wG :=
  ⟨{ inv := MW.Lemmas.Ledger.inv_fresh freshR
     ar := by show AllReady own (readyWallets s0 ["W1", "W2"]); rw [ready0]; exact allReady
     ne := by decide
     rel := ⟨⟨fun _ _ h => (by cases h), fun _ _ h => (by obtain ⟨_, h, _⟩ := h; cases h), fun _ _ h => (by cases h),
       fun _ h => (by cases h), fun _ _ h => (by cases h)⟩, fun id t => ⟨fun h => (by cases h), fun h => (by cases h.1)⟩,
       List.nodup_nil⟩
     cons := fun _ h => by cases h
     sidx := fun _ h => by cases h
     nocb := fun _ h => by cases h
     relv := fun _ h => by cases h
     srcP := fun _ h => by cases h },
   ⟨fun _ _ _ h => (by cases h), fun _ h => (by cases h), fun _ _ _ _ h => (by cases h), fun _ h => (by cases h)⟩⟩

theorem good1 : GoodChain [g] := by
  refine ⟨?_, ?_, by simp⟩
  · intro i x h
    match i with
    | 0 => simp at h; rw [← h]; rfl
    | n + 1 => simp at h
  · intro i x y _ hy
    simp at hy

theorem good2 : GoodChain [g, b1] := by
  refine ⟨?_, ?_, by simp⟩
  · intro i x h
    match i with
    | 0 => simp at h; rw [← h]; rfl
    | 1 => simp at h; rw [← h]; rfl
    | n + 2 => simp at h
  · intro i x y hx hy
    match i with
    | 0 => simp at hx hy; rw [← hx, ← hy]; rfl
    | n + 1 => simp at hy

theorem node1_ok : NodeOK own g known node1 b1 where
  good := good2
  valid := by show ChainValid own [g, b1]; decide
  genesis := rfl
  known := by
    intro x hx
    change x ∈ [g, b1] at hx
    simp only [List.mem_cons, List.not_mem_nil, or_false] at hx
    rcases hx with rfl | rfl <;> rfl
  grows := fun _ _ h => h
  tip := rfl

theorem domR : DomE 1 (envR.ctx nodeG) "W2" ["A2"] g
    { s := (removeWallet 0 ["W1", "W2"] true s0 "W2").2, v := { best := ⟨0, "G"⟩ }, node := nodeG } evsR := by
  refine ⟨⟨evDom_of_check (by decide) (fun n b h => by cases h; rfl), node1_ok⟩, ?_⟩
  cases istep 1 (envR.ctx nodeG) "W2" ["A2"]
      { s := (removeWallet 0 ["W1", "W2"] true s0 "W2").2, v := { best := ⟨0, "G"⟩ }, node := nodeG }
      (.notify node1 b1) with
  | none => trivial
  | some x1 =>
    refine ⟨⟨trivial, trivial⟩, ?_⟩
    cases istep 1 (envR.ctx nodeG) "W2" ["A2"] x1 .rem <;> trivial

/-- **every hypothesis of `remove_interleaved_reachable` is met** (the C09 history is the empty one from the fresh
    world): RemoveWallet for W2 is accepted on the fresh two-wallet store, the node announces B1, the removal step
    finishes — C01's invariant for W1 alone on G – B1 -/
example (x : ISt)
    (h : irun 1 (envR.ctx nodeG) "W2" ["A2"]
      { s := (removeWallet 0 ["W1", "W2"] true s0 "W2").2, v := { best := ⟨0, "G"⟩ }, node := nodeG } evsR = some x) :
    Inv { (envR.ctx nodeG) with own := own', wallets := ["W1"], node := x.node } x.s x.node.chain := by
  have hr : (irun 1 (envR.ctx nodeG) "W2" ["A2"]
      { s := (removeWallet 0 ["W1", "W2"] true s0 "W2").2, v := { best := ⟨0, "G"⟩ }, node := nodeG } evsR).map (·.fin) =
      some true := by decide
  rw [h] at hr
  simp only [Option.map_some, Option.some.injEq] at hr
  exact remove_interleaved_reachable (rank := fun _ => 0) (E := envR) [] wG hinvR List.nodup_nil List.nodup_nil
    (fun _ hx => by cases hx) wG rfl rfl good1 (by show ChainValid own [g]; decide) rfl
    (by intro y hy; simp only [wG, List.mem_cons, List.not_mem_nil, or_false] at hy; subst hy; rfl)
    (q := 0) (ks := ["W1", "W2"]) (po := true) (w := "W2") (by decide)
    (by show (readyWallets s0 ["W1", "W2"]).contains "W2" = true; rw [ready0]; rfl)
    ⟨"W1", by decide, by show (readyWallets s0 ["W1", "W2"]).contains "W1" = true; rw [ready0]; rfl⟩
    (⟨remHyp.minus, managed, by decide, own_nodup⟩ : Static (envR.ctx nodeG) "W2" ["A2"] own')
    (v := { best := ⟨0, "G"⟩ }) (by decide) domR h hr only_w1

end MW.Lemmas.RemoveInterleave4Ex
