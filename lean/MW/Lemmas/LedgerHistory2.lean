/-
  C01, HISTORIES (part 2): `ledger_correct` – after ANY finite history of node events (extend, reorganise to
  any branch) interleaved in any order with handler steps, once the notification queue is empty the wallet
  store holds exactly the books of the node's best chain; `ledger_observed` – hence it reports exactly what
  that chain pays.
-/
import MW.Lemmas.LedgerHistory
import MW.Lemmas.LedgerObs3
namespace MW.Lemmas.Ledger
open MW MW.Model.Ledger MW.Spec.Chain MW.Spec.Books

theorem runW_cons (e : Env) (w : World) (ev : Ev) (evs : List Ev) :
    runW e w (ev :: evs) = runW e (stepW e w ev) evs := rfl

/-- `J` along a whole history; the ready wallets never change; the final node chain is one of `chainsOf` -/
theorem J_run {e : Env} {G : Block} (E : EnvHyp e G) :
    ∀ (evs : List Ev) (w : World), J e G w → (∀ ch ∈ chainsOf e w evs, ChainOK e G ch) →
      (∀ ev ∈ evs, EvOK ev) →
      J e G (runW e w evs) ∧ (∀ ws, readyWallets (runW e w evs).s ws = readyWallets w.s ws) ∧
        ChainOK e G (runW e w evs).chain := by
  intro evs
  induction evs with
  | nil => intro w hJ hch _; exact ⟨hJ, fun _ => rfl, hch _ (chainsOf_head_mem e w [])⟩
  | cons ev evs ih =>
    intro w hJ hch hev
    have hN : ChainOK e G w.chain := hch _ (chainsOf_head_mem e w _)
    have hch' : ∀ ch ∈ chainsOf e (stepW e w ev) evs, ChainOK e G ch :=
      fun ch h => hch ch (List.mem_cons_of_mem _ h)
    have hN' : ChainOK e G (stepW e w ev).chain := hch' _ (chainsOf_head_mem e _ evs)
    obtain ⟨hJ1, hr1⟩ := J_step E ev hJ hN hN' (hev ev List.mem_cons_self)
    obtain ⟨hJ2, hr2, hc2⟩ := ih (stepW e w ev) hJ1 hch' (fun x hx => hev x (List.mem_cons_of_mem _ hx))
    rw [runW_cons]
    exact ⟨hJ2, fun ws => (hr2 ws).trans (hr1 ws), hc2⟩

/-- the initial world satisfies `J` -/
theorem J_init {e : Env} {G : Block} {w0 : World} {evs : List Ev} (H : RunHyp e G w0 evs)
    (h0 : Inv (e.ctx w0.chain) w0.s w0.chain) (hv0 : w0.v.best = tipMeta w0.chain) (hq0 : w0.queue = []) :
    J e G w0 :=
  ⟨w0.chain, h0, hv0, H.chains _ (chainsOf_head_mem e w0 evs), H.ready, H.readyNe,
    fun b hb => (by rw [hq0] at hb; cases hb), fun _ => rfl, fun h => absurd hq0 h⟩

/-- `J` holds after every history satisfying `RunHyp` (whether or not the queue is empty) -/
theorem J_final {e : Env} {G : Block} {w0 : World} {evs : List Ev} (H : RunHyp e G w0 evs)
    (h0 : Inv (e.ctx w0.chain) w0.s w0.chain) (hv0 : w0.v.best = tipMeta w0.chain) (hq0 : w0.queue = []) :
    J e G (runW e w0 evs) ∧ (∀ ws, readyWallets (runW e w0 evs).s ws = readyWallets w0.s ws) ∧
      ChainOK e G (runW e w0 evs).chain :=
  J_run H.toEnvHyp evs w0 (J_init H h0 hv0 hq0) H.chains H.reorgNonempty

/-- LEDGER CORRECTNESS OVER HISTORIES (property C01). For EVERY finite history `evs` of node events
    (`extend b`, `reorgTo k bs` – reorganise to any branch) interleaved in any order with handler steps
    (`handle` – process the OLDEST queued tip notification against the node's chain as it is then), started
    from a wallet in sync with the node: if no notification is pending at the end, the wallet store satisfies
    the ledger invariant for the node's best chain and the follower's tip is the node's tip. -/
theorem ledger_correct (e : Env) (G : Block) (w0 : World) (evs : List Ev) (H : RunHyp e G w0 evs)
    (h0 : Inv (e.ctx w0.chain) w0.s w0.chain) (hv0 : w0.v.best = tipMeta w0.chain) (hq0 : w0.queue = []) :
    (runW e w0 evs).queue = [] →
      Inv (e.ctx (runW e w0 evs).chain) (runW e w0 evs).s (runW e w0 evs).chain ∧
        (runW e w0 evs).v.best = tipMeta (runW e w0 evs).chain := by
  intro hq
  obtain ⟨⟨S, hI, hv, _, _, _, _, hS, _⟩, _, _⟩ := J_final H h0 hv0 hq0
  have := hS hq
  subst this
  exact ⟨hI, hv⟩

/-- the wallets that are ready never change along the history -/
theorem ledger_ready (e : Env) (G : Block) (w0 : World) (evs : List Ev) (H : RunHyp e G w0 evs)
    (h0 : Inv (e.ctx w0.chain) w0.s w0.chain) (hv0 : w0.v.best = tipMeta w0.chain) (hq0 : w0.queue = []) :
    ∀ ws, readyWallets (runW e w0 evs).s ws = readyWallets w0.s ws :=
  (J_final H h0 hv0 hq0).2.1

/-- at ANY point of the history (notifications pending or not) the wallet store holds exactly the books of
    SOME well-formed valid chain from genesis made of known blocks, whose tip is the follower's tip -/
theorem ledger_consistent (e : Env) (G : Block) (w0 : World) (evs : List Ev) (H : RunHyp e G w0 evs)
    (h0 : Inv (e.ctx w0.chain) w0.s w0.chain) (hv0 : w0.v.best = tipMeta w0.chain) (hq0 : w0.queue = []) :
    ∃ S, Inv (e.ctx (runW e w0 evs).chain) (runW e w0 evs).s S ∧ (runW e w0 evs).v.best = tipMeta S ∧
      ChainOK e G S := by
  obtain ⟨⟨S, hI, hv, hS, _⟩, _, _⟩ := J_final H h0 hv0 hq0
  exact ⟨S, hI, hv, hS⟩

/-- the hypotheses of the observation theorems at the end of the history -/
theorem ledger_obsHyp (e : Env) (G : Block) (w0 : World) (evs : List Ev) (H : RunHyp e G w0 evs)
    (h0 : Inv (e.ctx w0.chain) w0.s w0.chain) (hv0 : w0.v.best = tipMeta w0.chain) (hq0 : w0.queue = [])
    (hq : (runW e w0 evs).queue = [])
    (hwf : KeysNodup (runW e w0 evs).s.unspent)
    (hlen : (runW e w0 evs).chain.length < 2^32) (hcb : e.p.cbMaturity < 2^32)
    (hstk : ∀ x ∈ ledgerOf e.own (runW e w0 evs).chain, ∀ f, x.cls = .stk f → f + 1 < 2^32) :
    ObsHyp (e.ctx (runW e w0 evs).chain) (runW e w0 evs).s (runW e w0 evs).chain :=
  have hN := (J_final H h0 hv0 hq0).2.2
  ⟨(ledger_correct e G w0 evs H h0 hv0 hq0 hq).1, hwf, hN.valid, hN.good.heights, hlen, hcb, hstk⟩

/-- WHAT THE WALLET REPORTS AFTER ANY HISTORY: once no notification is pending, for every ready wallet `w`
    the unspent outputs it lists are, item by item, those the node's best chain pays `w` and has not spent, and
    the balance it reports (any `minConf`) is the spec balance of that chain.
    (Extra hypotheses = those of `coins_perm` / `balance_correct`: a well-formed unspent index and the size
    bounds under which the 32-bit fields do not wrap.) -/
theorem ledger_observed (e : Env) (G : Block) (w0 : World) (evs : List Ev) (H : RunHyp e G w0 evs)
    (h0 : Inv (e.ctx w0.chain) w0.s w0.chain) (hv0 : w0.v.best = tipMeta w0.chain) (hq0 : w0.queue = [])
    (hq : (runW e w0 evs).queue = [])
    (hwf : KeysNodup (runW e w0 evs).s.unspent)
    (hlen : (runW e w0 evs).chain.length < 2^32) (hcb : e.p.cbMaturity < 2^32)
    (hstk : ∀ x ∈ ledgerOf e.own (runW e w0 evs).chain, ∀ f, x.cls = .stk f → f + 1 < 2^32)
    (w : Wid) (hw : (readyWallets w0.s e.wallets).contains w = true) (mc : Nat) :
    ((coinsOf (runW e w0 evs).s w).map (obsM (runW e w0 evs).s.syncedTo)).Perm
        ((utxosOf e.own (runW e w0 evs).chain w).map (obsS e.p ((runW e w0 evs).chain.length - 1))) ∧
      walletBalance (runW e w0 evs).s w mc =
        some (Spec.Chain.balance e.p e.own (runW e w0 evs).chain w mc) := by
  have HO := ledger_obsHyp e G w0 evs H h0 hv0 hq0 hq hwf hlen hcb hstk
  refine ⟨coins_perm HO w, balance_correct HO ?_ mc⟩
  show (readyWallets (runW e w0 evs).s e.wallets).contains w = true
  rw [ledger_ready e G w0 evs H h0 hv0 hq0]
  exact hw

/-- WHY `reorgNonempty` IS A HYPOTHESIS: a bare detach (`reorgTo 1 []`: the node drops its tip and announces
    nothing) leaves the queue empty and the wallet on the old chain – the conclusion of `ledger_correct` fails. -/
theorem bare_detach_breaks (e : Env) (w0 : World) (h0 : Inv (e.ctx w0.chain) w0.s w0.chain)
    (hq0 : w0.queue = []) (hlen : 2 ≤ w0.chain.length) :
    (runW e w0 [.reorgTo 1 []]).queue = [] ∧
      ¬ Inv (e.ctx (runW e w0 [.reorgTo 1 []]).chain) (runW e w0 [.reorgTo 1 []]).s
          (runW e w0 [.reorgTo 1 []]).chain := by
  have hr : runW e w0 [.reorgTo 1 []] =
      { w0 with chain := w0.chain.take (w0.chain.length - 1) ++ [], queue := w0.queue ++ [] } := rfl
  rw [hr]
  refine ⟨by simp [hq0], fun h => ?_⟩
  have h1 := h.syncedTo
  have h2 := h0.syncedTo
  simp only [List.append_nil, List.length_take] at h1
  omega

end MW.Lemmas.Ledger
