/-
  C16: the results of the three modelled readers (wallet utils.ParsePkScript, library
  txscript.GetScriptClass + ExtractPkScriptAddrs + GetParsedOpcode, API api.extractAddressInfos)
  expressed in the vocabulary of MW.Spec.Script.Reading.  `none` = a result that is no legitimate
  reading (an error other than the expected one, a panic, inconsistent fields).
-/
import MW.Lemmas.ScriptBuild
namespace MW.Lemmas.ScriptView
open MW MW.Model.Script MW.Lemmas.ScriptClassify
open MW.Spec.Script (Reading Kind Second)

/-- utils.ParsePkScript: `ErrUnsupportedScript` ↦ unsupported; a PkScript ↦ class, owner, second address, maturity -/
def walletView : M PkInfo → Option Reading
  | .error (.err .unsupported) => some .unsupported
  | .ok ⟨.witnessV0ScriptHash, 0, some (.wsh 0 h), none, m⟩ => some (.ok .standard h .none m)
  | .ok ⟨.stakingScriptHash, 1, some (.wsh 0 h), some (.wsh 1 h'), m⟩ =>
      if h = h' then some (.ok .staking h (.staking h) m) else none
  | .ok ⟨.bindingScriptHash, 0, some (.wsh 0 h), some (.pkh t), m⟩ => some (.ok .binding h (.pubKeyHash t) m)
  | .ok ⟨.bindingScriptHash, 0, some (.wsh 0 h), some (.target t), m⟩ => some (.ok .binding h (.target t) m)
  | _ => none

def isTemplateClass : Class → Bool
  | .witnessV0ScriptHash | .stakingScriptHash | .bindingScriptHash => true
  | _ => false

/-- the consensus library: class by GetScriptClass; for the three templates the addresses of
    ExtractPkScriptAddrs (a binding target it cannot encode is omitted ↦ undecodable) -/
def libView (pkValid : Bytes → Bool) (s : Bytes) : Option Reading :=
  match getScriptClass s with
  | .error _ => none
  | .ok c =>
    if !isTemplateClass c then some .unsupported
    else match extractPkScriptAddrs pkValid s with
      | .ok ⟨.witnessV0ScriptHash, [.wsh 0 h], 1⟩ => if c = .witnessV0ScriptHash then some (.ok .standard h .none 0) else none
      | .ok ⟨.stakingScriptHash, [.wsh 1 h], 1⟩ => if c = .stakingScriptHash then some (.ok .staking h (.staking h) 0) else none
      | .ok ⟨.bindingScriptHash, [.wsh 0 h, .pkh t], 1⟩ => if c = .bindingScriptHash then some (.ok .binding h (.pubKeyHash t) 0) else none
      | .ok ⟨.bindingScriptHash, [.wsh 0 h, .target t], 1⟩ => if c = .bindingScriptHash then some (.ok .binding h (.target t) 0) else none
      | .ok ⟨.bindingScriptHash, [.wsh 0 h], 1⟩ => if c = .bindingScriptHash then some (.undecodable h) else none
      | _ => none

/-- the frozen period / script hash the library extracts (GetScriptInfo + GetParsedOpcode) -/
def libParsedOpcode (s : Bytes) : M (Nat × Bytes) := do
  let (c, pops) ← getScriptInfo s
  getParsedOpcode pops c

/-- api.extractAddressInfos: an error or an address-less result ↦ unsupported -/
def apiView : M AddrInfos → Option Reading
  | .error (.err _) => some .unsupported
  | .error (.panic _) => none
  | .ok ⟨.witnessV0ScriptHash, some (.wsh 0 h), none, none, 1⟩ => some (.ok .standard h .none 0)
  | .ok ⟨.stakingScriptHash, some (.wsh 0 h), some (.wsh 1 h'), none, 1⟩ =>
      if h = h' then some (.ok .staking h (.staking h) 0) else none
  | .ok ⟨.bindingScriptHash, some (.wsh 0 h), none, some ⟨.pkh t, false, 0⟩, 1⟩ => some (.ok .binding h (.pubKeyHash t) 0)
  | .ok ⟨.bindingScriptHash, some (.wsh 0 h), none, some ⟨.target t, chia, size⟩, 1⟩ =>
      if targetView t = ⟨.target t, chia, size⟩ then some (.ok .binding h (.target t) 0) else none
  | .ok ⟨c, none, none, none, _⟩ => if isTemplateClass c then none else some .unsupported
  | _ => none

end MW.Lemmas.ScriptView
