/-
  Helper lemmas for C08: which buckets each part of RemoveRelevantTx / asyncRemove touches (frames), and
  what the finishing step leaves behind.
-/
import MW.Lemmas.RemoveScan
namespace MW.Lemmas.RemoveStep
open MW MW.Model.Ledger MW.Model.Remove MW.Lemmas.RemoveScan

/-- the buckets keyed by the wallet id, and the sync table -/
def core (s : Store) := (s.unspent, s.addrs, s.game, s.pendGame, s.balance, s.status, s.sync, s.syncedTo)
/-- credits and debits -/
def cd (s : Store) := (s.credits, s.debits)
/-- the transaction / block records Rollback walks -/
def recs (s : Store) := (s.txrecs, s.blocks)

-- removeRelevantUnminedCredit: touches pendCred, pendIns only
section unminedCredit
variable (s : Store) (addrs : List Addr)

theorem unminedCredit_proj {γ : Type} (p : Store → γ)
    (hq : ∀ (s : Store) (m : AMap.T (TxId × Nat) Credit), p { s with pendCred := m } = p s) :
    p (removeRelevantUnminedCredit s addrs).1 = p s := by
  unfold removeRelevantUnminedCredit
  exact hq s _

theorem unminedCredit_core : core (removeRelevantUnminedCredit s addrs).1 = core s :=
  unminedCredit_proj s addrs core (fun _ _ => rfl)
theorem unminedCredit_cd : cd (removeRelevantUnminedCredit s addrs).1 = cd s :=
  unminedCredit_proj s addrs cd (fun _ _ => rfl)
theorem unminedCredit_recs : recs (removeRelevantUnminedCredit s addrs).1 = recs s :=
  unminedCredit_proj s addrs recs (fun _ _ => rfl)
theorem unminedCredit_pending : (removeRelevantUnminedCredit s addrs).1.pending = s.pending :=
  unminedCredit_proj s addrs Store.pending (fun _ _ => rfl)

theorem unminedCredit_pendCred :
    (removeRelevantUnminedCredit s addrs).1.pendCred = s.pendCred.filter (fun e => !addrs.contains e.2.sh) := by
  unfold removeRelevantUnminedCredit
  rfl
end unminedCredit

/-- removeUnminedInputsOf touches the unmined-input marks only -/
theorem removeUnminedInputsOf_proj {γ : Type} (p : Store → γ)
    (hi : ∀ (s : Store) (m : AMap.T (TxId × Nat) (List TxId)), p { s with pendIns := m } = p s)
    (s : Store) (tx : Tx) : p (removeUnminedInputsOf s tx) = p s := by
  unfold removeUnminedInputsOf
  refine foldl_proj _ p ?_ _ s
  intro b a
  split
  · dsimp only
    split <;> exact hi _ _
  · rfl

-- removeUnminedTxs: touches pending and the unmined-input marks only
theorem unminedTxs_proj {γ : Type} (p : Store → γ)
    (hp : ∀ (s : Store) (m : AMap.T TxId Tx), p { s with pending := m } = p s)
    (hi : ∀ (s : Store) (m : AMap.T (TxId × Nat) (List TxId)), p { s with pendIns := m } = p s)
    (own : Own) (s : Store) (addrs : List Addr) (hs : List TxId) :
    p (removeUnminedTxs own s addrs hs).1 = p s := by
  unfold removeUnminedTxs
  refine foldl_proj _ (fun (acc : Store × List TxId) => p acc.1) ?_ hs (s, [])
  intro b a
  unfold unminedStep
  split
  · rfl
  · rename_i tx _
    split
    · show p { removeUnminedInputsOf b.1 tx with pending := _ } = p b.1
      rw [hp, removeUnminedInputsOf_proj p hi]
    · rfl

-- removeMinedTxs: touches txrecs only
theorem minedTxs_proj {γ : Type} (p : Store → γ)
    (hp : ∀ (s : Store) (m : AMap.T (TxId × BlockMeta) (BlkId × Nat)), p { s with txrecs := m } = p s)
    (c : Ctx) (s : Store) (addrs : List Addr) (hOf : AMap.T TxId Nat)
    (r : Store × List (Nat × TxId)) (h : removeMinedTxs c s addrs hOf = some r) : p r.1 = p s := by
  unfold removeMinedTxs at h
  refine foldlM_proj _ (fun (acc : Store × List (Nat × TxId)) => p acc.1) ?_ hOf (s, []) r h
  intro b a b' hb
  unfold minedStep at hb
  split at hb
  · cases hb; rfl
  · split at hb
    · cases hb
    · split at hb
      · cases hb; exact hp _ _
      · cases hb; rfl

-- checkBlockRecords: touches blocks only
theorem blockRecords_proj {γ : Type} (p : Store → γ)
    (hp : ∀ (s : Store) (m : AMap.T Nat (BlkId × List TxId)), p { s with blocks := m } = p s)
    (s : Store) (deleted : List (Nat × TxId)) : p (checkBlockRecords s deleted) = p s := by
  unfold checkBlockRecords
  refine foldl_proj _ p ?_ _ s
  intro b a
  unfold blockStep
  split
  · rfl
  · dsimp only
    split <;> exact hp _ _

-- the credit scan: idPart (RemoveScan) covers core, pendCred, pending, txrecs, blocks
theorem scan_core (limit : Nat) (s : Store) (addrs : List Addr) :
    core (removeRelevantCredit limit s addrs).s = core s := by
  have := scan_idPart limit addrs s.credits { s := s }
  simp only [idPart, Prod.mk.injEq] at this
  obtain ⟨h1, h2, h3, h4, h5, h6, _, _, _, _, h11, h12⟩ := this
  simp only [core, removeRelevantCredit, h1, h2, h3, h4, h5, h6, h11, h12]

theorem scan_pendCred (limit : Nat) (s : Store) (addrs : List Addr) :
    (removeRelevantCredit limit s addrs).s.pendCred = s.pendCred := by
  have := scan_idPart limit addrs s.credits { s := s }
  simp only [idPart, Prod.mk.injEq] at this
  exact this.2.2.2.2.2.2.1

theorem scan_recs_pending (limit : Nat) (s : Store) (addrs : List Addr) :
    recs (removeRelevantCredit limit s addrs).s = recs s ∧ (removeRelevantCredit limit s addrs).s.pending = s.pending := by
  have := scan_idPart limit addrs s.credits { s := s }
  simp only [idPart, Prod.mk.injEq] at this
  obtain ⟨_, _, _, _, _, _, _, h8, h9, h10, _, _⟩ := this
  exact ⟨by simp only [recs, removeRelevantCredit, h9, h10], h8⟩

/-- the pieces RemoveRelevantTx is made of, named -/
structure Pipeline (limit : Nat) (c : Ctx) (s : Store) (addrs : List Addr) (o : StepOut) : Prop where
  ex : ∃ (uh : List TxId) (del1 : List TxId) (del3 : List TxId) (s2 : Store) (del2 : List (Nat × TxId)),
    let s0 := (removeRelevantUnminedCredit s addrs).1
    let s1 := (removeUnminedTxs c.own s0 addrs uh).1
    let sc := removeRelevantCredit limit s1 addrs
    let s1' := (removeUnminedTxs c.own sc.s addrs sc.spenders).1
    sc.failed = false ∧ removeMinedTxs c s1' addrs sc.heightOf = some (s2, del2) ∧
    o = ⟨checkBlockRecords s2 del2, del1 ++ del3 ++ del2.map (·.2), sc.finish⟩

theorem removeRelevantTx_pipeline (limit : Nat) (c : Ctx) (s : Store) (addrs : List Addr) (o : StepOut)
    (hne : addrs ≠ []) (h : removeRelevantTx limit c s addrs = some o) : Pipeline limit c s addrs o := by
  unfold removeRelevantTx at h
  have hemp : addrs.isEmpty = false := by cases addrs <;> simp_all
  simp only [hemp, Bool.false_eq_true, if_false] at h
  split at h
  · cases h
  · rename_i hnf
    split at h
    · cases h
    · rename_i s2 del2 hr
      cases h
      exact ⟨⟨_, _, _, s2, del2, by simpa using hnf, hr, rfl⟩⟩

/-- what RemoveRelevantTx does to the credits / debits, the unmined credits and the id-keyed buckets -/
structure Rrt (limit : Nat) (s : Store) (addrs : List Addr) (o : StepOut) : Prop where
  credits : ∃ s1 : Store, cd s1 = cd s ∧ cd o.s = cd (removeRelevantCredit limit s1 addrs).s ∧
      o.finish = (removeRelevantCredit limit s1 addrs).finish ∧ (removeRelevantCredit limit s1 addrs).failed = false
  pendCred : o.s.pendCred = s.pendCred.filter (fun e => !addrs.contains e.2.sh)
  ids : core o.s = core s

theorem removeRelevantTx_spec (limit : Nat) (c : Ctx) (s : Store) (addrs : List Addr) (o : StepOut)
    (hne : addrs ≠ []) (h : removeRelevantTx limit c s addrs = some o) : Rrt limit s addrs o := by
  obtain ⟨uh, del1, del3, s2, del2, hnf, hr, rfl⟩ := (removeRelevantTx_pipeline limit c s addrs o hne h).ex
  refine ⟨⟨(removeUnminedTxs c.own (removeRelevantUnminedCredit s addrs).1 addrs uh).1, ?_, ?_, rfl, hnf⟩, ?_, ?_⟩
  · rw [unminedTxs_proj cd (fun _ _ => rfl) (fun _ _ => rfl), unminedCredit_cd]
  · show cd (checkBlockRecords s2 del2) = _
    rw [blockRecords_proj cd (fun _ _ => rfl), minedTxs_proj cd (fun _ _ => rfl) c _ addrs _ (s2, del2) hr,
        unminedTxs_proj cd (fun _ _ => rfl) (fun _ _ => rfl)]
  · show (checkBlockRecords s2 del2).pendCred = _
    rw [blockRecords_proj Store.pendCred (fun _ _ => rfl),
        minedTxs_proj Store.pendCred (fun _ _ => rfl) c _ addrs _ (s2, del2) hr,
        unminedTxs_proj Store.pendCred (fun _ _ => rfl) (fun _ _ => rfl), scan_pendCred,
        unminedTxs_proj Store.pendCred (fun _ _ => rfl) (fun _ _ => rfl), unminedCredit_pendCred]
  · show core (checkBlockRecords s2 del2) = _
    rw [blockRecords_proj core (fun _ _ => rfl), minedTxs_proj core (fun _ _ => rfl) c _ addrs _ (s2, del2) hr,
        unminedTxs_proj core (fun _ _ => rfl) (fun _ _ => rfl), scan_core, unminedTxs_proj core (fun _ _ => rfl) (fun _ _ => rfl), unminedCredit_core]

end MW.Lemmas.RemoveStep
