/-
  Frame lemmas: the pending-side functions (unmined inputs / credits / deposit records, conflict removal)
  never touch a mined bucket, the synced-to table, the wallet status or the balances.
-/
import MW.Lemmas.LedgerRefine
namespace MW.Lemmas.Ledger
open MW MW.Model.Ledger MW.Spec.Chain MW.Spec.Books

/-- everything except the pending buckets is unchanged -/
structure MinedEq (s s' : Store) : Prop where
  credits : s'.credits = s.credits
  unspent : s'.unspent = s.unspent
  debits : s'.debits = s.debits
  balance : s'.balance = s.balance
  txrecs : s'.txrecs = s.txrecs
  blocks : s'.blocks = s.blocks
  sync : s'.sync = s.sync
  syncedTo : s'.syncedTo = s.syncedTo
  status : s'.status = s.status
  addrs : s'.addrs = s.addrs
  game : s'.game = s.game

theorem MinedEq.refl (s : Store) : MinedEq s s := ⟨rfl, rfl, rfl, rfl, rfl, rfl, rfl, rfl, rfl, rfl, rfl⟩

theorem MinedEq.trans {a b c : Store} (h₁ : MinedEq a b) (h₂ : MinedEq b c) : MinedEq a c :=
  ⟨h₂.credits.trans h₁.credits, h₂.unspent.trans h₁.unspent, h₂.debits.trans h₁.debits,
   h₂.balance.trans h₁.balance, h₂.txrecs.trans h₁.txrecs, h₂.blocks.trans h₁.blocks, h₂.sync.trans h₁.sync,
   h₂.syncedTo.trans h₁.syncedTo, h₂.status.trans h₁.status, h₂.addrs.trans h₁.addrs, h₂.game.trans h₁.game⟩

theorem MinedEq.sameSync {s s' : Store} (h : MinedEq s s') : SameSync s s' :=
  ⟨h.sync, h.syncedTo, h.status, h.balance⟩

theorem MinedEq.agree {s s' : Store} {B : Book} (h : MinedEq s s') (hR : Agree s B) : Agree s' B := by
  constructor
  · intro w tx idx; rw [h.unspent]; exact hR.unspent w tx idx
  · intro k; rw [h.credits]; exact hR.credits k
  · intro k; rw [h.debits]; exact hR.debits k
  · intro k; rw [h.game]; exact hR.game k
  · intro k; rw [h.txrecs]; exact hR.txrecs k
  · intro k; rw [h.blocks]; exact hR.blocks k
  · intro k; rw [h.addrs]; exact hR.addrs k

theorem minedEq_foldl {α : Type} (f : Store → α → Store) (l : List α) (s : Store)
    (h : ∀ s a, a ∈ l → MinedEq s (f s a)) : MinedEq s (l.foldl f s) := by
  induction l generalizing s with
  | nil => exact MinedEq.refl s
  | cons a l ih =>
    rw [List.foldl_cons]
    exact (h s a (List.mem_cons_self ..)).trans (ih _ (fun s a' ha' => h s a' (List.mem_cons_of_mem _ ha')))

theorem minedEq_deleteUnminedInputs (s : Store) (tx : Tx) : MinedEq s (deleteUnminedInputs s tx) := by
  unfold deleteUnminedInputs
  apply minedEq_foldl
  intro s i _
  split
  · exact ⟨rfl, rfl, rfl, rfl, rfl, rfl, rfl, rfl, rfl, rfl, rfl⟩
  · exact MinedEq.refl s

theorem minedEq_deleteUnminedCredits (s : Store) (tx : Tx) : MinedEq s (deleteUnminedCredits s tx) := by
  unfold deleteUnminedCredits
  apply minedEq_foldl
  intro s i _
  exact ⟨rfl, rfl, rfl, rfl, rfl, rfl, rfl, rfl, rfl, rfl, rfl⟩

theorem minedEq_insertUnminedInputs (s : Store) (tr : TxRec) : MinedEq s (insertUnminedInputs s tr) := by
  unfold insertUnminedInputs
  apply minedEq_foldl
  intro s i _
  exact ⟨rfl, rfl, rfl, rfl, rfl, rfl, rfl, rfl, rfl, rfl, rfl⟩

theorem minedEq_foldIdx {α : Type} (f : Store → Nat → α → Store) (l : List α) (i : Nat) (s : Store)
    (h : ∀ s i a, a ∈ l → MinedEq s (f s i a)) : MinedEq s (foldIdx f l i s) := by
  induction l generalizing s i with
  | nil => exact MinedEq.refl s
  | cons a l ih =>
    rw [foldIdx_cons]
    exact (h s i a (List.mem_cons_self ..)).trans (ih _ _ (fun s i a' ha' => h s i a' (List.mem_cons_of_mem _ ha')))

theorem minedEq_removeUnminedInputsOf (s : Store) (tx : Tx) : MinedEq s (removeUnminedInputsOf s tx) := by
  unfold removeUnminedInputsOf
  apply minedEq_foldl
  intro s i _
  split
  · dsimp only
    split <;> exact ⟨rfl, rfl, rfl, rfl, rfl, rfl, rfl, rfl, rfl, rfl, rfl⟩
  · exact MinedEq.refl s

theorem minedEq_removeUnminedGameHistory (own : Own) (s : Store) (tx : Tx) :
    MinedEq s (removeUnminedGameHistory own s tx) := by
  unfold removeUnminedGameHistory
  apply minedEq_foldIdx
  intro s i o _
  split
  · split
    · exact ⟨rfl, rfl, rfl, rfl, rfl, rfl, rfl, rfl, rfl, rfl, rfl⟩
    · exact MinedEq.refl s
  · exact MinedEq.refl s

theorem minedEq_removeConflict (own : Own) : ∀ (fuel : Nat) (s : Store) (tx : Tx),
    MinedEq s (removeConflict own fuel s tx) := by
  intro fuel
  induction fuel with
  | zero => intro s tx; exact MinedEq.refl s
  | succ fuel ih =>
    intro s tx
    unfold removeConflict
    refine MinedEq.trans (MinedEq.trans (MinedEq.trans ?_ (minedEq_removeUnminedInputsOf _ tx))
      (minedEq_removeUnminedGameHistory own _ tx)) ⟨rfl, rfl, rfl, rfl, rfl, rfl, rfl, rfl, rfl, rfl, rfl⟩
    apply minedEq_foldl
    intro s i _
    dsimp only
    refine MinedEq.trans (b := List.foldl _ s ((AMap.get s.pendIns (tx.id, i)).getD [])) ?_
      ⟨rfl, rfl, rfl, rfl, rfl, rfl, rfl, rfl, rfl, rfl, rfl⟩
    apply minedEq_foldl
    intro s sp _
    split
    · exact ih _ _
    · exact MinedEq.refl s

theorem minedEq_purgeSpenders (own : Own) (s : Store) (op : TxId × Nat) : MinedEq s (purgeSpenders own s op) := by
  unfold purgeSpenders
  apply minedEq_foldl
  intro s ds _
  split
  · exact minedEq_removeConflict own _ _ _
  · exact MinedEq.refl s

theorem minedEq_removeDoubleSpends (own : Own) (s : Store) (tr : TxRec) :
    MinedEq s (removeDoubleSpends own s tr) := by
  unfold removeDoubleSpends
  refine MinedEq.trans ?_ (minedEq_deleteUnminedInputs _ tr.tx)
  apply minedEq_foldl
  intro s' i _
  apply minedEq_foldl
  intro s'' ds _
  split
  · exact minedEq_removeConflict own _ _ _
  · exact MinedEq.refl _

theorem minedEq_purgeUnrelated (own : Own) (s : Store) (txs : List Tx) : MinedEq s (purgeUnrelated own s txs) := by
  unfold purgeUnrelated
  apply minedEq_foldl
  intro s t _
  exact minedEq_removeDoubleSpends own s _

theorem minedEq_unpendMined (s : Store) (tx : Tx) : MinedEq s (unpendMined s tx) := by
  unfold unpendMined
  split
  · exact (minedEq_deleteUnminedCredits s tx).trans ⟨rfl, rfl, rfl, rfl, rfl, rfl, rfl, rfl, rfl, rfl, rfl⟩
  · exact MinedEq.refl s

end MW.Lemmas.Ledger
