/-
  C07 stage 2 with other wallets in the instance — the joined scan invariant for an EXPLICIT stored chain (`ScanJS`:
  during a reorganisation the follower's chain is not the node's), connecting the next block of a longer node chain
  (`connect_scanJS`, the general form of `extend_scanJ`), and disconnecting the tip block AT the cursor of the wallet
  being restored (`disconnect_scanJS_at`: the joined store then IS the books of the full keystore table, so C01's
  rollback applies — `rollback_tipR` with the balances of ALL wallets — and `pullBack` moves the cursor to the new tip).
-/
import MW.Lemmas.ImportJoinExt
import MW.Lemmas.ImportReorgS
namespace MW.Lemmas.ImportJoin
open MW MW.Model.Ledger MW.Model.Import MW.Spec.Chain MW.Spec.Books MW.Lemmas.Ledger MW.Lemmas.RemoveBooks
open MW.Lemmas.ImportExact MW.Lemmas.ImportReorg

-- ------------------------------------------------------------------ block records against a longer / shorter chain

theorem noRecs_above {X : List Block} {s : Store} (hTP : TxPos (occs X) s) (hX : ∀ b' ∈ X, b'.height < X.length)
    {b : Block} (hb : X.length ≤ b.height) : recIdsP (hasRec s) (occsOfBlock b) = [] := by
  unfold recIdsP
  rw [List.filterMap_eq_nil_iff]
  intro oc hoc
  have hbm : oc.bm = ⟨b.height, b.id⟩ := mem_occsFrom_bm hoc
  cases hr : hasRec s (oc.t.id, oc.bm) with
  | false => simp
  | true =>
    exfalso
    unfold hasRec at hr
    obtain ⟨loc, hl⟩ := Option.isSome_iff_exists.1 hr
    obtain ⟨oc', hoc', hkey, _⟩ := hTP _ _ hl
    obtain ⟨b', hb', hbm'⟩ := mem_occs_height hoc'
    have h3 : oc.bm = oc'.bm := congrArg Prod.snd hkey
    rw [hbm, hbm'] at h3
    have := hX b' hb'
    injection h3 with h4 _
    omega

theorem blockRecOf_ext {X R : List Block} {s : Store} (hH : HeightsOK (X ++ R)) (hTP : TxPos (occs X) s) (h' : Nat) :
    blockRecOf (hasRec s) (X ++ R) h' = blockRecOf (hasRec s) X h' := by
  have hX : ∀ b' ∈ X, b'.height < X.length := heightsOK_lt hH
  unfold blockRecOf
  rcases Nat.lt_or_ge h' X.length with hl | hl
  · rw [List.getElem?_append_left hl]
  · have h1 : X[h']? = none := List.getElem?_eq_none hl
    rw [h1]
    cases h2 : (X ++ R)[h']? with
    | none => rfl
    | some b =>
      have hbh : b.height = h' := hH h' b h2
      simp only
      rw [noRecs_above hTP hX (by omega)]

theorem blocksOK_ext {X R : List Block} {s : Store} (hH : HeightsOK (X ++ R)) (hBO : BlocksOK X s)
    (hTP : TxPos (occs X) s) : BlocksOK (X ++ R) s := by
  intro h'; rw [hBO h', blockRecOf_ext hH hTP]

theorem blocksOK_restrict {X R : List Block} {s : Store} (hH : HeightsOK (X ++ R)) (hBO : BlocksOK (X ++ R) s)
    (hTP : TxPos (occs X) s) : BlocksOK X s := by
  intro h'; rw [hBO h', blockRecOf_ext hH hTP]

-- ------------------------------------------------------------------ the joined scan invariant, stored chain explicit

/-- `ScanJ` with the follower's stored chain `X` made explicit -/
structure ScanJS (c : Ctx) (w : Wid) (s : Store) (X : List Block) (k : Nat) : Prop where
  agree : AgreeJ s (bookOf c.p (ownR c.own w) X) (bookOf c.p (ownW c.own w) (X.take (k + 1)))
  blocks : BlocksOK X s
  txpos : TxPos (occs X) s
  bal : AMap.get s.balance w = some (totalU (bookOf c.p (ownW c.own w) (X.take (k + 1))).L w)
  balR : ∀ w', w' ≠ w → (readyWallets s c.wallets).contains w' = true →
    AMap.get s.balance w' = some (totalU (bookOf c.p (ownR c.own w) X).L w')
  sync : ∀ h, AMap.get s.sync h = syncOf X h
  syncedTo : s.syncedTo + 1 = X.length

theorem scanJS_of_scanJ {c : Ctx} {w : Wid} {s : Store} {k : Nat} (h : ScanJ c w s k) : ScanJS c w s c.node.chain k :=
  ⟨h.agree, h.blocks, h.txpos, h.bal, h.balR, h.sync, h.syncedTo⟩

theorem scanJ_of_scanJS {c : Ctx} {w : Wid} {s : Store} {k : Nat} (h : ScanJS c w s c.node.chain k) : ScanJ c w s k :=
  ⟨h.agree, h.blocks, h.txpos, h.bal, h.balR, h.sync, h.syncedTo⟩

/-- tx records of a joined store belong to transactions of the stored chain -/
theorem txPos_of_agreeJ {C : List Occ} {s : Store} {X Y : Book} (hA : AgreeJ s X Y) (hX : TxLoc C X) (hY : TxLoc C Y) :
    TxPos C s := by
  intro k loc hl
  rw [hA.txrecs] at hl
  cases hx : X.txrecs k with
  | some a => rw [hx] at hl; simp only [orE_some, Option.some.injEq] at hl; rw [← hl]; exact hX k a hx
  | none => rw [hx] at hl; exact hY k loc hl

-- ------------------------------------------------------------------ connecting the node's next block

/-- **connecting the next block of the node's chain on a joined store** (`X` = the follower's stored chain, a prefix of
    the node's chain; `b` the node's next block): the live follower books it for the ready wallets; `w`'s half stays
    "up to the cursor" -/
theorem connect_scanJS' {c : Ctx} {w : Wid} {s : Store} {b : Block} {k : Nat} {X rest : List Block}
    (hKN : KeysNodup c.own) (hC : ChainOK c) (hnode : c.node.chain = X ++ b :: rest) (hS : ScanJS c w s X k)
    (hnr : (readyWallets s c.wallets).contains w = false) (hlen : k + 1 ≤ X.length)
    (hAR : AllReady (ownR c.own w) (readyWallets s c.wallets)) (hne : (readyWallets s c.wallets).isEmpty = false) :
    ∃ s' conf, filterBlock c s (readyWallets s c.wallets) b = .ok (s', conf) ∧
      ScanJS c w s' (X ++ [b]) k ∧ s'.status = s.status ∧ (KeysNodup s.unspent → KeysNodup s'.unspent) := by
  have hOw := ownW_sub hKN w
  have hOr := ownR_sub hKN w
  have hN : c.node.chain = (X ++ [b]) ++ rest := by rw [hnode]; simp
  have hbh : b.height = X.length := by
    apply hC.heights
    rw [hnode]; simp
  have hVN : ChainValid c.own ((X ++ [b]) ++ rest) := by rw [← hN]; exact hC.valid
  have hHN : HeightsOK ((X ++ [b]) ++ rest) := by rw [← hN]; exact hC.heights
  have hV' : ChainValid c.own (X ++ [b]) := chainValid_prefix hVN
  have hH' : HeightsOK (X ++ [b]) := heightsOK_prefix hHN
  have hVr' : ChainValid (ownR c.own w) (X ++ [b]) := chainValid_sub hOr hV'
  have hVr : ChainValid (ownR c.own w) X := chainValid_prefix hVr'
  have hlen0 : 0 < X.length := by omega
  have hrk : ∀ w', (readyWallets s c.wallets).contains w' = true → w' ≠ w := by
    intro w' hw' he; rw [he, hnr] at hw'; cases hw'
  -- the two halves, separated both ways (relative to the longer chain)
  have hsplitk : X ++ [b] = X.take (k + 1) ++ (X.drop (k + 1) ++ [b]) := by
    rw [← List.append_assoc, List.take_append_drop]
  have hsplitN : c.node.chain = X.take (k + 1) ++ (X.drop (k + 1) ++ b :: rest) := by
    rw [hnode, ← List.append_assoc, List.take_append_drop]
  have hSr : SepP c.own (fun x => decide (x = w)) (occs c.node.chain) (bookOf c.p (ownR c.own w) X) := by
    have := sepP_bookOf (p := c.p) (keepA := fun x => decide (x = w)) hOr (by intro w' hw'; simpa using hw')
      (pre := X) (post := b :: rest) (by rw [← hnode]; exact hC.valid)
    rw [← hnode] at this; exact this
  have hSw : SepP c.own (fun x => decide (x ≠ w)) (occs c.node.chain)
      (bookOf c.p (ownW c.own w) (X.take (k + 1))) := by
    have := sepP_bookOf (p := c.p) (keepA := fun x => decide (x ≠ w)) hOw (by intro w' hw'; simpa using hw')
      (pre := X.take (k + 1)) (post := X.drop (k + 1) ++ b :: rest) (by rw [← hsplitN]; exact hC.valid)
    rw [← hsplitN] at this; exact this
  have hVwk : ChainValid (ownW c.own w) (X.take (k + 1)) := by
    apply chainValid_sub hOw
    exact chainValid_prefix (b := X.drop (k + 1) ++ [b]) (by rw [← hsplitk]; exact hV')
  have hTr : TxLoc (occs c.node.chain) (bookOf c.p (ownR c.own w) X) := by
    have := txLoc_bookOf (p := c.p) (post := b :: rest) hVr
    rw [← hnode] at this; exact this
  have hTw : TxLoc (occs c.node.chain) (bookOf c.p (ownW c.own w) (X.take (k + 1))) := by
    have := txLoc_bookOf (p := c.p) (post := X.drop (k + 1) ++ b :: rest) hVwk
    rw [← hsplitN] at this; exact this
  have hA0 : AgreeJ s (bookOf c.p (ownW c.own w) (X.take (k + 1))) (bookOf c.p (ownR c.own w) X) :=
    agreeJ_symm (kX := fun x => decide (x = w)) (kY := fun x => decide (x ≠ w))
      (by intro w' hw'; simpa using hw') hSr hSw hTr hTw hS.agree
  obtain ⟨hLw, hGw⟩ := loc_bookOf (p := c.p) hVwk
  obtain ⟨hLr, hGr⟩ := loc_bookOf (p := c.p) hVr
  -- filter phase
  have F : FilterCtx { c with own := ownR c.own w } s (readyWallets s c.wallets) X rest b
      (bookOf c.p (ownR c.own w) X) :=
    ⟨hnode, chainValid_sub hOr hC.valid, hAR, glob_bookOf (p := c.p) hVr, by
      intro key hkey
      rw [hS.agree.credits]
      cases hc : (bookOf c.p (ownR c.own w) X).credits key with
      | none => rw [hc] at hkey; cases hkey
      | some x => rfl⟩
  obtain ⟨recs, hf0, hM⟩ := filterTxs_block F F.valid_block
  have hf : filterTxs c s (readyWallets s c.wallets) b.id b.txs [] 0 [] = .ok recs := by
    rw [← filterTxs_sub (c := c) (or := ownR c.own w) (w := w) hOr hnr]; exact hf0
  -- apply phase
  have hb : c.node.chain[X.length]? = some b := by
    rw [hnode]; simp
  have hoccs : occs c.node.chain =
      occs X ++ (occsFrom ⟨X.length, b.id⟩ b.txs 0 ++ occs rest) := by
    rw [hnode, occs_append]
    congr 1
    unfold occs occsOfBlock
    simp [hbh]
  have hMat : Matches c.p (ownR c.own w) (bookOf c.p (ownR c.own w) X)
      (occsFrom ⟨X.length, b.id⟩ b.txs 0) recs := by
    have := hM
    unfold occsOfBlock at this
    rw [hbh] at this
    exact this
  have hVb : ValidFrom (ownR c.own w) (occs X) (occsFrom ⟨X.length, b.id⟩ b.txs 0) := by
    have := F.valid_block
    unfold occsOfBlock at this
    rw [hbh] at this
    exact this
  have hB0 : AgreeBal (readyWallets s c.wallets)
      (s.balance.filter (fun e => (readyWallets s c.wallets).contains e.1)) (bookOf c.p (ownR c.own w) X) := by
    intro w' hw'
    rw [get_filter_key s.balance (fun k => (readyWallets s c.wallets).contains k) w']
    simp only [hw', if_true]
    exact hS.balR w' (hrk w' hw') hw'
  have hnone0 : ∀ id loc, AMap.get s.txrecs (id, (⟨X.length, b.id⟩ : BlockMeta)) = some loc → loc.2 < 0 := by
    intro id loc hl
    exfalso
    obtain ⟨oc', hoc', hkey, _⟩ := hS.txpos _ _ hl
    obtain ⟨b', hb', hbm'⟩ := mem_occs_height hoc'
    have h3 : (⟨X.length, b.id⟩ : BlockMeta) = oc'.bm := congrArg Prod.snd hkey
    rw [hbm'] at h3
    have := heightsOK_lt hH' b' hb'
    injection h3 with h4 _
    omega
  have hTP' : TxPos (occs c.node.chain) s :=
    txPos_mono hS.txpos (by
      intro oc hoc
      rw [hnode, occs_append]; exact List.mem_append_left _ hoc)
  obtain ⟨sb, hs, hA1, hB1, hSS, hBO1, hTP1, hQ1, hU1⟩ :=
    applyPhaseJ (c := c) (w := w) hKN hC hb (ready := readyWallets s c.wallets) hAR hrk hSw hLw hGw
      b.txs 0 (occs X) (occs rest) (bookOf c.p (ownR c.own w) X) recs s
      (s.balance.filter (fun e => (readyWallets s c.wallets).contains e.1))
      hoccs (by intro m t hm; simpa using hm) hMat (glob_bookOf (p := c.p) hVr) hVb hA0 hB0 hLr hGr
      (by rw [hnode]; exact blocksOK_ext (by rw [← hnode]; exact hC.heights) hS.blocks hS.txpos) hTP' hnone0
      (by rw [get_filter_key s.balance (fun k => (readyWallets s c.wallets).contains k) w, hnr]; rfl)
  -- the books of the longer chain
  have hbook : (occsFrom ⟨X.length, b.id⟩ b.txs 0).foldl (applyOcc c.p (ownR c.own w))
      (bookOf c.p (ownR c.own w) X) = bookOf c.p (ownR c.own w) (X ++ [b]) := by
    rw [bookOf_snoc]
    unfold occsOfBlock
    rw [hbh]
  have hA1' : AgreeJ sb.1 (bookOf c.p (ownW c.own w) (X.take (k + 1)))
      (bookOf c.p (ownR c.own w) (X ++ [b])) := by rw [← hbook]; exact hA1
  have hB1' : AgreeBal (readyWallets s c.wallets) sb.2 (bookOf c.p (ownR c.own w) (X ++ [b])) := by
    rw [← hbook]; exact hB1
  -- the store after onRelevantBlockConnected
  let s1 : Store := if recs.isEmpty then s else { sb.1 with balance := mergeBalances sb.2 sb.1.balance }
  have h1 : applyRelevant c s (readyWallets s c.wallets) ⟨b.height, b.id⟩ recs = .ok s1 := by
    unfold applyRelevant
    by_cases he : recs.isEmpty = true
    · simp [s1, he]
    · simp only [he, Bool.false_eq_true, if_false, s1]
      rw [hbh]
      show (do
        let x ← recs.foldlM (fun sb tr => addRelevantMined c.p c.own sb.1 sb.2 tr ⟨X.length, b.id⟩)
          (s, s.balance.filter (fun e => (readyWallets s c.wallets).contains e.1))
        pure { x.1 with balance := mergeBalances x.2 x.1.balance }) = _
      rw [hs]; rfl
  have hsbnil : recs.isEmpty = true → sb = (s, s.balance.filter (fun e => (readyWallets s c.wallets).contains e.1)) := by
    intro he
    have : recs = [] := List.isEmpty_iff.1 he
    subst this
    simp only [List.foldlM_nil] at hs
    injection hs with h; exact h.symm
  have hmined1 : s1.unspent = sb.1.unspent ∧ s1.credits = sb.1.credits ∧ s1.debits = sb.1.debits ∧ s1.game = sb.1.game ∧
      s1.txrecs = sb.1.txrecs ∧ s1.blocks = sb.1.blocks ∧ s1.status = s.status ∧ s1.sync = s.sync ∧
      s1.syncedTo = s.syncedTo := by
    by_cases he : recs.isEmpty = true
    · have := hsbnil he
      simp only [s1, he, if_true]
      rw [this]
      refine ⟨?_, ?_, ?_, ?_, ?_, ?_, ?_, ?_, ?_⟩ <;> first | rfl | trivial
    · simp only [he, Bool.false_eq_true, if_false, s1]
      refine ⟨?_, ?_, ?_, ?_, ?_, ?_, ?_, ?_, ?_⟩ <;>
        first | rfl | trivial | exact hSS.status | exact hSS.sync | exact hSS.syncedTo
  have hbalR1 : ∀ w', (readyWallets s c.wallets).contains w' = true →
      AMap.get s1.balance w' = some (totalU (bookOf c.p (ownR c.own w) (X ++ [b])).L w') := by
    intro w' hw'
    by_cases he : recs.isEmpty = true
    · have hsb := hsbnil he
      simp only [s1, he, if_true]
      have h2 := hB1' w' hw'
      rw [hsb] at h2
      have h3 := hB0 w' hw'
      rw [h3] at h2
      rw [hS.balR w' (hrk w' hw') hw']
      exact h2
    · simp only [he, Bool.false_eq_true, if_false, s1]
      rw [get_mergeBalances, hB1' w' hw']
  have hbalw1 : AMap.get s1.balance w = AMap.get s.balance w := by
    by_cases he : recs.isEmpty = true
    · simp only [s1, he, if_true]
    · simp only [he, Bool.false_eq_true, if_false, s1]
      rw [get_mergeBalances, hQ1, hSS.balance]
  -- the conflict purge through the irrelevant transactions only touches pending buckets
  have hM1 : MinedEq s1 (purgeUnrelated c.own s1 (unrelatedTxs b.txs recs)) := minedEq_purgeUnrelated _ _ _
  obtain ⟨s2, hp, hsync2, hst2, hs2eq⟩ := putSyncedTo_snoc
    (s := purgeUnrelated c.own s1 (unrelatedTxs b.txs recs)) (chain := X) (b := b)
    (by intro h; rw [hM1.sync, hmined1.2.2.2.2.2.2.2.1]; exact hS.sync h) hlen0 hbh
  have hfb : filterBlock c s (readyWallets s c.wallets) b = .ok (s2, recs.map (·.tx.id)) := by
    unfold filterBlock
    have hblk : c.node.blockAt b.height = some b := by
      unfold Node.blockAt
      rw [hbh]; exact hb
    simp only [hblk, ne_eq, not_true_eq_false, if_false, hne, Bool.false_eq_true]
    rw [hf]
    simp only [M_ok_bind]
    rw [h1]
    simp only [M_ok_bind]
    rw [hp]; rfl
  -- the mined buckets of the final store are those after the apply phase
  have hfin : s2.unspent = sb.1.unspent ∧ s2.credits = sb.1.credits ∧ s2.debits = sb.1.debits ∧ s2.game = sb.1.game ∧
      s2.txrecs = sb.1.txrecs ∧ s2.blocks = sb.1.blocks ∧ s2.status = s.status ∧ s2.balance = s1.balance := by
    rw [hs2eq]
    exact ⟨hM1.unspent.trans hmined1.1, hM1.credits.trans hmined1.2.1, hM1.debits.trans hmined1.2.2.1,
      hM1.game.trans hmined1.2.2.2.1, hM1.txrecs.trans hmined1.2.2.2.2.1, hM1.blocks.trans hmined1.2.2.2.2.2.1,
      hM1.status.trans hmined1.2.2.2.2.2.2.1, hM1.balance⟩
  have hA2 : AgreeJ s2 (bookOf c.p (ownW c.own w) (X.take (k + 1)))
      (bookOf c.p (ownR c.own w) (X ++ [b])) := by
    constructor
    · intro a x y; rw [hfin.1]; exact hA1'.unspent a x y
    · intro x; rw [hfin.2.1]; exact hA1'.credits x
    · intro x; rw [hfin.2.2.1]; exact hA1'.debits x
    · intro x; rw [hfin.2.2.2.1]; exact hA1'.game x
    · intro x; rw [hfin.2.2.2.2.1]; exact hA1'.txrecs x
  -- back to the orientation of the scan invariant
  have hSr2 : SepP c.own (fun x => decide (x = w)) (occs c.node.chain)
      (bookOf c.p (ownR c.own w) (X ++ [b])) := by
    have := sepP_bookOf (p := c.p) (keepA := fun x => decide (x = w)) hOr (by intro w' hw'; simpa using hw')
      (pre := X ++ [b]) (post := rest) hVN
    rw [← hN] at this; exact this
  have hTr2 : TxLoc (occs c.node.chain) (bookOf c.p (ownR c.own w) (X ++ [b])) := by
    have := txLoc_bookOf (p := c.p) (post := rest) hVr'
    rw [← hN] at this; exact this
  have hA3 : AgreeJ s2 (bookOf c.p (ownR c.own w) (X ++ [b]))
      (bookOf c.p (ownW c.own w) (X.take (k + 1))) :=
    agreeJ_symm (kX := fun x => decide (x ≠ w)) (kY := fun x => decide (x = w))
      (by intro w' hw'; simpa using hw') hSw hSr2 hTw hTr2 hA2
  have htake : (X ++ [b]).take (k + 1) = X.take (k + 1) := List.take_append_of_le_length hlen
  -- tx records and block records relative to the new stored chain `X ++ [b]`
  have hTP2 : TxPos (occs (X ++ [b])) s2 := by
    apply txPos_of_agreeJ hA3
    · have := txLoc_bookOf (p := c.p) (post := []) hVr'
      rw [List.append_nil] at this; exact this
    · have := txLoc_bookOf (p := c.p) (post := X.drop (k + 1) ++ [b]) hVwk
      rw [← hsplitk] at this; exact this
  have hBO2 : BlocksOK (X ++ [b]) s2 := by
    apply blocksOK_restrict (R := rest) hHN _ hTP2
    rw [← hN]
    exact blocksOK_congr hBO1 (fun x => by rw [hfin.2.2.2.2.1]) (fun x => by rw [hfin.2.2.2.2.2.1])
  refine ⟨s2, recs.map (·.tx.id), hfb, ?_, hfin.2.2.2.2.2.2.1, ?_⟩
  · constructor
    · show AgreeJ s2 (bookOf c.p (ownR c.own w) (X ++ [b]))
        (bookOf c.p (ownW c.own w) ((X ++ [b]).take (k + 1)))
      rw [htake]; exact hA3
    · exact hBO2
    · exact hTP2
    · show AMap.get s2.balance w = some (totalU (bookOf c.p (ownW c.own w) ((X ++ [b]).take (k + 1))).L w)
      rw [htake, hfin.2.2.2.2.2.2.2, hbalw1]; exact hS.bal
    · intro w' hw' hr
      show AMap.get s2.balance w' = some (totalU (bookOf c.p (ownR c.own w) (X ++ [b])).L w')
      rw [hfin.2.2.2.2.2.2.2]
      apply hbalR1 w'
      rw [← hr]
      symm
      apply ready_contains_congr
      rw [hfin.2.2.2.2.2.2.1]
    · exact hsync2
    · exact hst2
  · intro hU
    rw [hs2eq]
    show KeysNodup (purgeUnrelated c.own s1 (unrelatedTxs b.txs recs)).unspent
    rw [hM1.unspent, hmined1.1]
    exact hU1 hU


/-- a wallet whose restore cursor is set is not ready -/
theorem notReady_of_synced {s : Store} {l : List Wid} {w : Wid} {ws : WStatus} {k : Nat}
    (hst : AMap.get s.status w = some ws) (hk : ws.synced = some k) : (readyWallets s l).contains w = false := by
  cases hc : (readyWallets s l).contains w with
  | false => rfl
  | true =>
    have := ((ready_contains_iff s l w).1 hc).2
    rw [hst] at this
    simp [hk] at this

/-- a wallet flagged for removal is not ready -/
theorem notReady_of_removed {s : Store} {l : List Wid} {w : Wid} {ws : WStatus}
    (hst : AMap.get s.status w = some ws) (hr : ws.removed = true) : (readyWallets s l).contains w = false := by
  cases hc : (readyWallets s l).contains w with
  | false => rfl
  | true =>
    have := ((ready_contains_iff s l w).1 hc).2
    rw [hst] at this
    simp [hr] at this

/-- `connect_scanJS'` for a wallet being restored (cursor `k`) -/
theorem connect_scanJS {c : Ctx} {w : Wid} {s : Store} {b : Block} {k : Nat} {ws : WStatus} {X rest : List Block}
    (hKN : KeysNodup c.own) (hC : ChainOK c) (hnode : c.node.chain = X ++ b :: rest) (hS : ScanJS c w s X k)
    (hst : AMap.get s.status w = some ws) (hk : ws.synced = some k) (hlen : k + 1 ≤ X.length)
    (hAR : AllReady (ownR c.own w) (readyWallets s c.wallets)) (hne : (readyWallets s c.wallets).isEmpty = false) :
    ∃ s' conf, filterBlock c s (readyWallets s c.wallets) b = .ok (s', conf) ∧
      ScanJS c w s' (X ++ [b]) k ∧ s'.status = s.status ∧ (KeysNodup s.unspent → KeysNodup s'.unspent) :=
  connect_scanJS' hKN hC hnode hS (notReady_of_synced hst hk) hlen hAR hne

/-- the cursor pull-back leaves a status without cursor (ready, or flagged for removal) alone -/
theorem pullBack_get_none {status : AMap.T Wid WStatus} {n : Nat} {x : Wid} {ws : WStatus}
    (h : AMap.get status x = some ws) (hn : ws.synced = none) : AMap.get (status.map (pullBack n)) x = some ws := by
  rw [pullBack_get, h]
  simp only [Option.map_some, hn]


-- ------------------------------------------------------------------ disconnecting the tip block AT the cursor

/-- **disconnecting the tip block when the cursor of the wallet being restored is AT the tip**: the joined store is
    then the books of the FULL keystore table for the stored chain, C01's rollback undoes the block for both halves
    (Rollback looks owners up in all keystores and works on all balances), and the cursor is pulled back to the new tip -/
theorem disconnect_scanJS_at' {c : Ctx} {w : Wid} {s : Store} {chain : List Block} {b : Block}
    (hKN : KeysNodup c.own) (hV : ChainValid c.own (chain ++ [b])) (hH : HeightsOK (chain ++ [b])) (hne : chain ≠ [])
    (hkn : AMap.get c.node.known b.id = some b) (hS : ScanJS c w s (chain ++ [b]) chain.length)
    (hAR : AllReady (ownR c.own w) (readyWallets s c.wallets)) :
    ∃ s', disconnectBlock c s b.height = .ok s' ∧ ScanJS c w s' chain (chain.length - 1) ∧
      s'.status = s.status.map (pullBack (b.height - 1)) ∧
      (∀ x ws, AMap.get s.status x = some ws → ws.synced = none → AMap.get s'.status x = some ws) ∧
      (∀ l, readyWallets s' l = readyWallets s l) := by
  have hOr := ownR_sub hKN w
  have hOw := ownW_sub hKN w
  have hbh : b.height = chain.length := heightsOK_mid hH
  have hlen : chain.length ≠ 0 := fun h => hne (List.eq_nil_of_length_eq_zero h)
  have h0 : b.height ≠ 0 := by omega
  have hsto : s.syncedTo = b.height := by
    have := hS.syncedTo
    simp only [List.length_append, List.length_singleton] at this
    omega
  have hVc : ChainValid c.own chain := chainValid_prefix hV
  have hHc : HeightsOK chain := heightsOK_prefix hH
  have htake : (chain ++ [b]).take (chain.length + 1) = chain ++ [b] := by
    apply List.take_of_length_le
    simp
  have hA := hS.agree
  have hBl := hS.bal
  rw [htake] at hA hBl
  -- the joined store is the books of the full table
  have hAM : AgreeM s (bookOf c.p c.own (chain ++ [b])) := by
    refine ⟨?_, ?_, ?_, ?_, ?_, ?_⟩
    · intro w' tx idx
      rw [hA.unspent, join_lookup (p := c.p) hOr hOw hV]
    · intro key; rw [hA.credits, join_credits (p := c.p) hOr hOw hV]
    · intro key; rw [hA.debits, join_debits (p := c.p) hOr hOw hV]
    · intro key; rw [hA.game, join_game (p := c.p) hOr hOw hV]
    · intro key; rw [hA.txrecs, join_txrecs (p := c.p) hOr hOw hV]
    · intro h
      rw [hS.blocks h, blocks_eq_blockRecOf c.p c.own (chain ++ [b]) hV hH h]
      apply blockRecOf_congr
      intro key
      unfold hasRec
      rw [hA.txrecs, join_txrecs (p := c.p) hOr hOw hV]
  have hbalAll : ∀ w', (w :: readyWallets s c.wallets).contains w' = true →
      AMap.get s.balance w' = some (totalU (bookOf c.p c.own (chain ++ [b])).L w') := by
    intro w' hw'
    by_cases hww : w' = w
    · rw [hww, hBl, join_total_w (p := c.p) hOw]
    · rw [← join_total_r (p := c.p) (chain := chain ++ [b]) hOr w' hww]
      apply hS.balR w' hww
      rw [List.contains_iff_mem] at hw' ⊢
      rcases List.mem_cons.1 hw' with h | h
      · exact absurd h hww
      · exact h
  have hARall : AllReady c.own (w :: readyWallets s c.wallets) := by
    intro a w' ch ha
    by_cases hww : w' = w
    · rw [hww]; simp
    · have : AMap.get (ownR c.own w) a = some (w', ch) := by
        rw [hOr a, ha]; simp [Option.filter, hww]
      have := hAR a w' ch this
      rw [List.contains_iff_mem] at this ⊢
      exact List.mem_cons_of_mem _ this
  obtain ⟨s1, hrun, hA1, hbal1, hsy1, hst1, hstat1⟩ := rollback_tipR hAM hbalAll hsto hV hH hkn hARall
  obtain ⟨s', hd, e1, e2, e3, e4, e5, e6, e7, e8, e9, e10, e11⟩ := disconnect_tail' h0 hsto hrun hst1
  have hrdy : ∀ l, readyWallets s' l = readyWallets s l := fun l => (e11 l).trans (readyWallets_congr hstat1 l)
  have hk1 : chain.take (chain.length - 1 + 1) = chain := by
    rw [show chain.length - 1 + 1 = chain.length by omega, List.take_length]
  refine ⟨s', hd, ?_, by rw [e10, hstat1], ?_, hrdy⟩
  · refine ⟨?_, ?_, ?_, ?_, ?_, ?_, ?_⟩
    · rw [hk1]
      constructor
      · intro w' tx idx
        rw [e1, hA1.unspent, join_lookup (p := c.p) hOr hOw hVc]
      · intro key; rw [e2, hA1.credits, join_credits (p := c.p) hOr hOw hVc]
      · intro key; rw [e3, hA1.debits, join_debits (p := c.p) hOr hOw hVc]
      · intro key; rw [e4, hA1.game, join_game (p := c.p) hOr hOw hVc]
      · intro key; rw [e5, hA1.txrecs, join_txrecs (p := c.p) hOr hOw hVc]
    · intro h
      rw [e6, hA1.blocks, blocks_eq_blockRecOf c.p c.own chain hVc hHc h]
      apply blockRecOf_congr
      intro key
      unfold hasRec
      rw [e5, hA1.txrecs]
    · intro key loc hl
      rw [e5, hA1.txrecs] at hl
      obtain ⟨P₁, oc, P₂, hsp, _, hk', hloc⟩ := txrec_occ hVc hl
      exact ⟨oc, by rw [hsp]; simp, hk', hloc⟩
    · rw [e7, hk1, hbal1 w (by simp), join_total_w (p := c.p) hOw]
    · intro w' hww hr
      rw [hrdy c.wallets] at hr
      rw [e7, hbal1 w' (by rw [List.contains_iff_mem] at hr ⊢; exact List.mem_cons_of_mem _ hr),
        join_total_r (p := c.p) (chain := chain) hOr w' hww]
    · intro h'
      rw [e8, hsy1]; exact sync_erase_tip hbh hS.sync h'
    · rw [e9]; omega
  · intro x ws hx hn
    rw [e10, hstat1]; exact pullBack_get_none hx hn

/-- `disconnect_scanJS_at'` for a wallet being restored: its cursor is pulled back to the new tip -/
theorem disconnect_scanJS_at {c : Ctx} {w : Wid} {s : Store} {chain : List Block} {b : Block} {ws : WStatus}
    (hKN : KeysNodup c.own) (hV : ChainValid c.own (chain ++ [b])) (hH : HeightsOK (chain ++ [b])) (hne : chain ≠ [])
    (hkn : AMap.get c.node.known b.id = some b) (hS : ScanJS c w s (chain ++ [b]) chain.length)
    (hst : AMap.get s.status w = some ws) (hk : ws.synced = some chain.length)
    (hAR : AllReady (ownR c.own w) (readyWallets s c.wallets)) :
    ∃ s', disconnectBlock c s b.height = .ok s' ∧ ScanJS c w s' chain (chain.length - 1) ∧
      AMap.get s'.status w = some { ws with synced := some (chain.length - 1) } ∧
      (∀ l, readyWallets s' l = readyWallets s l) := by
  obtain ⟨s', hd, hS', hstat, _, hrdy⟩ := disconnect_scanJS_at' hKN hV hH hne hkn hS hAR
  refine ⟨s', hd, hS', ?_, hrdy⟩
  have hbh : b.height = chain.length := heightsOK_mid hH
  have hlen : chain.length ≠ 0 := fun h => hne (List.eq_nil_of_length_eq_zero h)
  rw [hstat, pullBack_get, hst]
  simp only [Option.map_some, hk]
  have hgt : chain.length > b.height - 1 := by omega
  simp only [hgt, if_true]
  rw [hbh]

end MW.Lemmas.ImportJoin
