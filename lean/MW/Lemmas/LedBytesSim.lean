/-
  LedBytes, part 4 — byte-level steps of the mined side of the ledger (the bucket writes of AddCredits,
  updateMinedBalance, insertMinedTx as the Go code issues them: key builder, value builder, Put / Get / Delete on
  the named bucket) and the simulation: `abs ∘ byte step = ledger step ∘ abs`, with `CanonS` kept.
-/
import MW.Lemmas.LedBytesStore
import MW.Lemmas.LedBytesCredit
namespace MW.LedBytes
open MW MW.Gen.Codec MW.Model.TxmgrCodec MW.TxmgrCodec MW.Model.Ledger

/-- a relevant output / input as the byte level sees it (RelevantMeta: index, wallet id, change flag; the parsed
    script: class, encoded address recorded in bucket `a`, 32-byte script hash stored in the credit; the amount) -/
structure RelB where
  index : Nat
  wallet : Bytes
  change : Bool
  amt : Nat
  cls : Cls
  addr : Bytes
  sh : Bytes

def RelB.nm (N : Names) (r : RelB) : Rel :=
  { index := r.index, out := ⟨N.adr r.addr, r.amt, r.cls⟩, wallet := N.wal r.wallet, change := r.change }

/-- widths; the ledger model writes the script hash of a credit as the address it pays (`N.sh sh = N.adr addr`) -/
structure RelB.WF (N : Names) (r : RelB) : Prop where
  wallet : r.wallet.length = 42
  amt : r.amt ≤ maxAmount
  sh : r.sh.length = 32
  index : r.index < 256 ^ 4
  name : N.sh r.sh = N.adr r.addr

/-- transaction hash and block the step works on -/
structure StepWF (txh : Bytes) (blk : BlockMetaB) : Prop where
  txh : txh.length = 32
  bh : blk.hash.length = 32
  ht : blk.height < 256 ^ 8

def clsB (c : Cls) : ClassB := if c.isStaking then .staking else if c.isBinding then .binding else .standard

theorem nmCls_clsB (c : Cls) : nmCls (clsB c) = uclassOf c := by
  unfold clsB uclassOf
  by_cases h1 : c.isStaking = true
  · simp [h1, nmCls]
  · by_cases h2 : c.isBinding = true <;> simp [h1, h2, nmCls]

abbrev SB := BStore × BBals
def absSB (E : Env) (sb : SB) : Store × Bals := (absStore E sb.1, absBals E.N sb.2)

theorem maxAmount_lt : maxAmount < 256 ^ 8 := by decide

-- ------------------------------------------------------------------ key well-formedness from the widths

theorem credKey_wf {txh : Bytes} {blk : BlockMetaB} (h : StepWF txh blk) {i : Nat} (hi : i < 256 ^ 4) :
    (⟨txh, blk, i⟩ : CredKeyB).WF = true := by
  simp [CredKeyB.WF, CredKeyB.vals, Fits, FitsV, wKeyCredit, Kind.isBytes, h.txh, h.bh]
  exact ⟨h.ht, hi⟩

theorem debitKey_wf {txh : Bytes} {blk : BlockMetaB} (h : StepWF txh blk) {i : Nat} (hi : i < 256 ^ 4) :
    (⟨txh, blk, i⟩ : CredKeyB).WFd = true := by
  simp [CredKeyB.WFd, CredKeyB.vals, Fits, FitsV, wKeyDebit, Kind.isBytes, h.txh, h.bh]
  exact ⟨h.ht, hi⟩

theorem unspentKey_wf {w txh : Bytes} (hw : w.length = 42) (ht : txh.length = 32) {i : Nat} (hi : i < 256 ^ 4) :
    (⟨w, txh, i⟩ : UnspentKeyB).WF = true := by
  simp [UnspentKeyB.WF, UnspentKeyB.vals, Fits, FitsV, wCanonicalUnspentKey, Kind.isBytes, hw, ht]
  exact hi

theorem blockMeta_wf {txh : Bytes} {blk : BlockMetaB} (h : StepWF txh blk) : blk.WF = true := by
  simp [BlockMetaB.WF, BlockMetaB.vals, Fits, FitsV, wValueUnspent, Kind.isBytes, h.bh]
  exact h.ht

theorem addrKey_wf {w a : Bytes} (hw : w.length = 42) (b : Bool) :
    (⟨w, boolNat b, a⟩ : AddrKeyB).WF = true ∧ (boolNat b = 0 ∨ boolNat b = 1) := by
  cases b <;> simp [AddrKeyB.WF, AddrKeyB.vals, Fits, FitsV, wKeyAddressRecord, Kind.isBytes, hw, boolNat]

theorem txRecKey_wf {txh : Bytes} {blk : BlockMetaB} (h : StepWF txh blk) : (⟨txh, blk⟩ : TxRecKeyB).WF = true := by
  simp [TxRecKeyB.WF, TxRecKeyB.vals, Fits, FitsV, wKeyTxRecord, Kind.isBytes, h.txh, h.bh]
  exact h.ht

theorem gameKey_wf {w txh : Bytes} (hw : w.length = 42) (ht : txh.length = 32) (b wd : Bool) {h i : Nat}
    (hh : h < 256 ^ 8) (hi : i < 256 ^ 4) : (⟨w, b, wd, txh, h, i⟩ : GameKeyB).WFm = true := by
  cases b <;> cases wd <;>
    simp [GameKeyB.WFm, GameKeyB.valsM, Fits, FitsV, wKeyGameHistory, Kind.isBytes, hw, ht, boolNat] <;> exact ⟨hh, hi⟩

theorem ugameKey_wf {w txh : Bytes} (hw : w.length = 42) (ht : txh.length = 32) (b : Bool) {i : Nat}
    (hi : i < 256 ^ 4) : (⟨w, b, false, txh, 0, i⟩ : GameKeyB).WFu = true := by
  cases b <;>
    simp [GameKeyB.WFu, GameKeyB.valsU, Fits, FitsV, wKeyUnminedGameHistory, Kind.isBytes, hw, ht, boolNat] <;> exact hi

-- ------------------------------------------------------------------ AddCredits (mined): first loop

/-- the credit AddCredits builds for a relevant output (valueUnspentCredit's argument) -/
def minedCreditB (p : Params) (cb : Bool) (r : RelB) : CreditValB :=
  ⟨r.amt, false, r.change, clsB r.cls,
   (if cb then max p.cbMaturity r.cls.maturity else r.cls.maturity) % 2 ^ 32, r.sh⟩

theorem minedCreditB_wf (p : Params) (cb : Bool) {N : Names} {r : RelB} (h : r.WF N) :
    wfCredit (minedCreditB p cb r, none) := by
  refine ⟨⟨h.amt, ?_, h.sh⟩, rfl, fun _ hd => by cases hd⟩
  show _ % 2 ^ 32 < 256 ^ 4
  exact Nat.mod_lt _ (by decide)

theorem nmCredit_mined (p : Params) (cb : Bool) (N : Names) {r : RelB} (h : r.WF N) :
    nmCredit N (minedCreditB p cb r, none) = minedCreditOf p cb (r.nm N) := by
  simp [nmCredit, minedCreditB, minedCreditOf, RelB.nm, nmCls_clsB, h.name]

/-- AddCredits (mined), body of the first loop after the duplicate check, on bytes: keyAddressRecord +
    existsRawAddressRecord / readAddressHeight / putRawAddressRecord on `a`; keyCredit + valueUnspentCredit +
    putRawCredit on `c`; putUnspent on `u`; the working balance -/
def creditApplyB (p : Params) (txh : Bytes) (cb : Bool) (blk : BlockMetaB) (sb : SB) (r : RelB) : SB :=
  let ak := encode wKeyAddressRecord (AddrKeyB.vals ⟨r.wallet, boolNat r.cls.isStaking, r.addr⟩)
  ({ sb.1 with
      a := match AMap.get sb.1.a ak with
        | some v => if (readAddressHeight v).getD 0 = 0 then AMap.put sb.1.a ak (valueAddressRecord blk.height) else sb.1.a
        | none => AMap.put sb.1.a ak (valueAddressRecord blk.height),
      c := AMap.put sb.1.c (keyCredit ⟨txh, blk, r.index⟩) (enc45 (minedCreditB p cb r)),
      u := AMap.put sb.1.u (canonicalUnspentKey ⟨r.wallet, txh, r.index⟩) (valueUnspent blk) },
   AMap.put sb.2 r.wallet (getBalB sb.2 r.wallet + r.amt))

/-- the address record step alone -/
theorem addr_step (E : Env) {a : AMap.T Bytes Bytes} (ha : Canon (cdA E.N) a) {w ad : Bytes} (hw : w.length = 42)
    (st : Bool) {ht : Nat} (hht : ht < 256 ^ 8) :
    let ak := encode wKeyAddressRecord (AddrKeyB.vals ⟨w, boolNat st, ad⟩)
    let a' := match AMap.get a ak with
      | some v => if (readAddressHeight v).getD 0 = 0 then AMap.put a ak (valueAddressRecord ht) else a
      | none => AMap.put a ak (valueAddressRecord ht)
    let tk : Wid × Bool × Addr := (E.N.wal w, st, E.N.adr ad)
    absBucket (cdA E.N) a' = (match AMap.get (absBucket (cdA E.N) a) tk with
      | some h => if h = 0 then AMap.put (absBucket (cdA E.N) a) tk ht else absBucket (cdA E.N) a
      | none => AMap.put (absBucket (cdA E.N) a) tk ht) ∧ Canon (cdA E.N) a' := by
  intro ak a' tk
  have L := cdA_laws E.N
  have hk : (cdA E.N).wfK ⟨w, boolNat st, ad⟩ := addrKey_wf hw st
  have hnm : (cdA E.N).nmK ⟨w, boolNat st, ad⟩ = tk := by cases st <;> rfl
  have hput := abs_put L ha (k := ⟨w, boolNat st, ad⟩) (v := ht) hk hht
  have hcput := canon_put ha (cd := cdA E.N) (k := ⟨w, boolNat st, ad⟩) (v := ht) hk hht
  rw [hnm] at hput
  cases hg : AMap.get a ak with
  | none =>
    have := abs_get_none L ha hk hg
    rw [hnm] at this
    simp only [a', hg, this]
    exact ⟨hput, hcput⟩
  | some v =>
    obtain ⟨h0, hh0, rfl, hg'⟩ := abs_get_some L ha hk hg
    rw [hnm] at hg'
    have hr : readAddressHeight ((cdA E.N).encV h0) = some h0 := L.decV_encV h0 hh0
    simp only [a', hg, hg', hr, Option.getD_some]
    have hnv : (cdA E.N).nmV h0 = h0 := rfl
    rw [hnv]
    by_cases hz : h0 = 0
    · simp only [hz, if_true]; exact ⟨hput, hcput⟩
    · simp only [hz, if_false]; exact ⟨trivial, ha⟩

/-- **creditApply on bytes** -/
theorem creditApply_on_bytes (E : Env) (p : Params) {sb : SB} (hC : CanonS E sb.1)
    {txh : Bytes} {blk : BlockMetaB} (hs : StepWF txh blk) {r : RelB} (hr : r.WF E.N) (tr : TxRec)
    (hid : tr.tx.id = E.N.tx txh) :
    absSB E (creditApplyB p txh tr.tx.cb blk sb r) = creditApply p tr (nmBlk E.N blk) (absSB E sb) (r.nm E.N) ∧
    CanonS E (creditApplyB p txh tr.tx.cb blk sb r).1 := by
  have LC := cdC_laws E.N
  obtain ⟨ha, hca⟩ := addr_step E hC.a (ad := r.addr) hr.wallet r.cls.isStaking hs.ht
  have hck := credKey_wf hs hr.index
  have huk := unspentKey_wf hr.wallet hs.txh hr.index
  have hbm := blockMeta_wf hs
  have hcv := minedCreditB_wf p tr.tx.cb hr
  have hc := abs_put LC hC.c (k := ⟨txh, blk, r.index⟩) (v := (minedCreditB p tr.tx.cb r, none)) hck hcv
  have hu := abs_put (cdU_laws E.N) hC.u (k := ⟨r.wallet, txh, r.index⟩) (v := blk) huk hbm
  constructor
  · simp only [absSB, creditApplyB, creditApply, absStore, Prod.mk.injEq]
    refine ⟨?_, ?_⟩
    · have e1 : (cdC E.N).nmK ⟨txh, blk, r.index⟩ = ⟨tr.tx.id, nmBlk E.N blk, (r.nm E.N).index⟩ := by
        rw [hid]; rfl
      have e2 : (cdC E.N).nmV (minedCreditB p tr.tx.cb r, none) = minedCreditOf p tr.tx.cb (r.nm E.N) :=
        nmCredit_mined p tr.tx.cb E.N hr
      have e3 : (cdU E.N).nmK ⟨r.wallet, txh, r.index⟩ = ((r.nm E.N).wallet, tr.tx.id, (r.nm E.N).index) := by
        rw [hid]; rfl
      rw [e1, e2] at hc
      rw [e3] at hu
      have hc' : absBucket (cdC E.N) (AMap.put sb.1.c (keyCredit ⟨txh, blk, r.index⟩) (enc45 (minedCreditB p tr.tx.cb r)))
          = _ := hc
      have hu' : absBucket (cdU E.N) (AMap.put sb.1.u (canonicalUnspentKey ⟨r.wallet, txh, r.index⟩) (valueUnspent blk))
          = _ := hu
      rw [hc', hu', ha]
      rfl
    · rw [absBals_put]
      show AMap.put _ (E.N.wal r.wallet) _ =
        AMap.put _ (E.N.wal r.wallet) (getBal (absBals E.N sb.2) (E.N.wal r.wallet) + r.amt)
      rw [getBal_abs]
  · exact { hC with a := hca
                    c := canon_put hC.c (cd := cdC E.N) (k := ⟨txh, blk, r.index⟩) (v := (minedCreditB p tr.tx.cb r, none)) hck hcv
                    u := canon_put hC.u (cd := cdU E.N) (k := ⟨r.wallet, txh, r.index⟩) (v := blk) huk hbm }

/-- AddCredits (mined), body of the first loop: existsCredit, then the writes -/
def creditOneB (p : Params) (txh : Bytes) (cb : Bool) (blk : BlockMetaB) (sb : SB) (r : RelB) : M SB :=
  if (AMap.get sb.1.c (keyCredit ⟨txh, blk, r.index⟩)).isSome then throw .duplicate
  else pure (creditApplyB p txh cb blk sb r)

theorem creditOne_on_bytes (E : Env) (p : Params) {sb : SB} (hC : CanonS E sb.1)
    {txh : Bytes} {blk : BlockMetaB} (hs : StepWF txh blk) {r : RelB} (hr : r.WF E.N) (tr : TxRec)
    (hid : tr.tx.id = E.N.tx txh) :
    (creditOneB p txh tr.tx.cb blk sb r).map (absSB E) = creditOne p tr (nmBlk E.N blk) (absSB E sb) (r.nm E.N) ∧
    ∀ sb', creditOneB p txh tr.tx.cb blk sb r = .ok sb' → CanonS E sb'.1 := by
  have hck := credKey_wf hs hr.index
  have hh := abs_has (cdC_laws E.N) hC.c (k := ⟨txh, blk, r.index⟩) hck
  have e1 : (cdC E.N).nmK ⟨txh, blk, r.index⟩ = ⟨tr.tx.id, nmBlk E.N blk, (r.nm E.N).index⟩ := by rw [hid]; rfl
  rw [e1] at hh
  obtain ⟨h1, h2⟩ := creditApply_on_bytes E p hC hs hr tr hid
  unfold creditOneB creditOne
  have hh' : (AMap.get (absSB E sb).1.credits ⟨tr.tx.id, nmBlk E.N blk, (r.nm E.N).index⟩).isSome
      = (AMap.get sb.1.c (keyCredit ⟨txh, blk, r.index⟩)).isSome := hh
  rw [hh']
  by_cases hd : (AMap.get sb.1.c (keyCredit ⟨txh, blk, r.index⟩)).isSome = true
  · simp only [hd, if_true]
    exact ⟨rfl, fun sb' h => by cases h⟩
  · simp only [hd, Bool.false_eq_true, if_false]
    refine ⟨?_, fun sb' h => ?_⟩
    · show Except.ok (absSB E _) = Except.ok _
      rw [h1]
    · cases h; exact h2

/-- simulation of an error-exiting loop from the simulation of its body -/
theorem foldlM_sim {α αB β βB : Type} (absF : βB → β) (P : βB → Prop) (fB : βB → αB → M βB) (f : β → α → M β)
    (g : αB → α) (Q : αB → Prop)
    (hstep : ∀ b a, P b → Q a → (fB b a).map absF = f (absF b) (g a) ∧ ∀ b', fB b a = .ok b' → P b') :
    ∀ (l : List αB) (b : βB), P b → (∀ a ∈ l, Q a) →
      (l.foldlM fB b).map absF = (l.map g).foldlM f (absF b) ∧ ∀ b', l.foldlM fB b = .ok b' → P b' := by
  intro l
  induction l with
  | nil => intro b hb _; exact ⟨rfl, fun b' h => by cases h; exact hb⟩
  | cons a l ih =>
    intro b hb hq
    obtain ⟨h1, h2⟩ := hstep b a hb (hq a List.mem_cons_self)
    simp only [List.foldlM_cons, List.map_cons]
    cases hf : fB b a with
    | error e =>
      rw [hf] at h1
      rw [← h1]
      exact ⟨rfl, fun b' h => by cases h⟩
    | ok b1 =>
      rw [hf] at h1
      rw [← h1]
      exact ih b1 (h2 b1 hf) (fun x hx => hq x (List.mem_cons_of_mem _ hx))

/-- AddCredits (mined), second loop body: deleteUnminedGameHistory on `LG`, putGameHistory on `lg` -/
def gameOneB (txh : Bytes) (blk : BlockMetaB) (bs : BStore) (r : RelB) : BStore :=
  { bs with
    LG := AMap.erase bs.LG (keyUnminedGameHistory ⟨r.wallet, r.cls.isBinding, false, txh, 0, r.index⟩),
    lg := AMap.put bs.lg (keyGameHistory ⟨r.wallet, r.cls.isBinding, false, txh, blk.height, r.index⟩)
            Model.TxmgrCodec.valueGameHistory }

theorem gameOne_on_bytes (E : Env) {bs : BStore} (hC : CanonS E bs) {txh : Bytes} {blk : BlockMetaB}
    (hs : StepWF txh blk) {r : RelB} (hr : r.WF E.N) (tr : TxRec) (hid : tr.tx.id = E.N.tx txh) :
    absStore E (gameOneB txh blk bs r) = gameOne tr (nmBlk E.N blk) (absStore E bs) (r.nm E.N) ∧
    CanonS E (gameOneB txh blk bs r) := by
  have hgk := gameKey_wf hr.wallet hs.txh r.cls.isBinding false hs.ht hr.index
  have huk : (cdUG E.N).wfK ⟨r.wallet, r.cls.isBinding, false, txh, 0, r.index⟩ :=
    ⟨ugameKey_wf hr.wallet hs.txh r.cls.isBinding hr.index, rfl, rfl⟩
  have h1 := abs_erase (cdUG_laws E.N) hC.LG huk
  have h2 := abs_put (cdG_laws E.N) hC.lg (k := ⟨r.wallet, r.cls.isBinding, false, txh, blk.height, r.index⟩) (v := ()) hgk trivial
  constructor
  · simp only [gameOneB, gameOne, absStore]
    have h1' : absBucket (cdUG E.N) (AMap.erase bs.LG (keyUnminedGameHistory ⟨r.wallet, r.cls.isBinding, false, txh, 0, r.index⟩))
        = AMap.erase (absBucket (cdUG E.N) bs.LG) ((r.nm E.N).wallet, (r.nm E.N).out.cls.isBinding, tr.tx.id, (r.nm E.N).index) := by
      rw [hid]; exact h1
    have h2' : absBucket (cdG E.N) (AMap.put bs.lg (keyGameHistory ⟨r.wallet, r.cls.isBinding, false, txh, blk.height, r.index⟩)
          Model.TxmgrCodec.valueGameHistory)
        = AMap.put (absBucket (cdG E.N) bs.lg)
            ⟨(r.nm E.N).wallet, (r.nm E.N).out.cls.isBinding, false, tr.tx.id, (nmBlk E.N blk).height, (r.nm E.N).index⟩ () := by
      rw [hid]; exact h2
    rw [h1', h2']
  · exact { hC with LG := canon_erase hC.LG _
                    lg := canon_put hC.lg (cd := cdG E.N) (k := ⟨r.wallet, r.cls.isBinding, false, txh, blk.height, r.index⟩) (v := ()) hgk trivial }

theorem foldl_game_sim (E : Env) {txh : Bytes} {blk : BlockMetaB} (hs : StepWF txh blk) (tr : TxRec)
    (hid : tr.tx.id = E.N.tx txh) : ∀ (l : List RelB) (bs : BStore), CanonS E bs → (∀ r ∈ l, r.WF E.N) →
      absStore E (l.foldl (gameOneB txh blk) bs) = (l.map (RelB.nm E.N)).foldl (gameOne tr (nmBlk E.N blk)) (absStore E bs) ∧
      CanonS E (l.foldl (gameOneB txh blk) bs) := by
  intro l
  induction l with
  | nil => intro bs hC _; exact ⟨rfl, hC⟩
  | cons r l ih =>
    intro bs hC hq
    obtain ⟨h1, h2⟩ := gameOne_on_bytes E hC hs (hq r List.mem_cons_self) tr hid
    simp only [List.foldl_cons, List.map_cons]
    rw [← h1]
    exact ih _ h2 (fun x hx => hq x (List.mem_cons_of_mem _ hx))

/-- createGameHistory: the staking / binding outputs among the relevant ones -/
def gameOutsB (rs : List RelB) : List RelB := rs.filter (fun r => r.cls.isStaking || r.cls.isBinding)

/-- AddCredits for a mined transaction, on bytes -/
def addCreditsB (p : Params) (txh : Bytes) (cb : Bool) (blk : BlockMetaB) (sb : SB) (rs : List RelB) : M SB :=
  if rs.isEmpty then pure sb
  else do
    let sb' ← rs.foldlM (creditOneB p txh cb blk) sb
    pure ((gameOutsB rs).foldl (gameOneB txh blk) sb'.1, sb'.2)

/-- **AddCredits (mined) on bytes**: the whole function — duplicate checks, address records, credits, unspent
    entries, working balances, deposit records — commutes with the abstraction, errors included -/
theorem addCredits_on_bytes (E : Env) (p : Params) {sb : SB} (hC : CanonS E sb.1) {txh : Bytes} {blk : BlockMetaB}
    (hs : StepWF txh blk) {rs : List RelB} (hrs : ∀ r ∈ rs, r.WF E.N) (tr : TxRec) (hid : tr.tx.id = E.N.tx txh)
    (hrel : tr.relOut = rs.map (RelB.nm E.N)) :
    (addCreditsB p txh tr.tx.cb blk sb rs).map (absSB E)
      = addCredits p (absStore E sb.1) (absBals E.N sb.2) tr (nmBlk E.N blk) ∧
    ∀ sb', addCreditsB p txh tr.tx.cb blk sb rs = .ok sb' → CanonS E sb'.1 := by
  unfold addCreditsB addCredits
  have hemp : tr.relOut.isEmpty = rs.isEmpty := by rw [hrel]; cases rs <;> rfl
  rw [hemp]
  by_cases he : rs.isEmpty = true
  · simp only [he, if_true]
    exact ⟨rfl, fun sb' h => by cases h; exact hC⟩
  · simp only [he, Bool.false_eq_true, if_false]
    obtain ⟨f1, f2⟩ := foldlM_sim (absSB E) (fun sb => CanonS E sb.1) (creditOneB p txh tr.tx.cb blk)
      (fun sb r => creditOne p tr (nmBlk E.N blk) sb r) (RelB.nm E.N) (RelB.WF E.N)
      (fun b a hb ha => creditOne_on_bytes E p hb hs ha tr hid) rs sb hC hrs
    have hg : gameOuts tr = (gameOutsB rs).map (RelB.nm E.N) := by
      unfold gameOuts gameOutsB
      rw [hrel, List.filter_map]; rfl
    rw [hrel, hg]
    have f1' : (List.map (RelB.nm E.N) rs).foldlM (creditOne p tr (nmBlk E.N blk)) (absStore E sb.1, absBals E.N sb.2)
        = (rs.foldlM (creditOneB p txh tr.tx.cb blk) sb).map (absSB E) := f1.symm
    rw [f1']
    cases hf : rs.foldlM (creditOneB p txh tr.tx.cb blk) sb with
    | error e => exact ⟨rfl, fun sb' h => by cases h⟩
    | ok sb1 =>
      obtain ⟨g1, g2⟩ := foldl_game_sim E hs tr hid (gameOutsB rs) sb1.1 (f2 sb1 hf)
        (fun r hr => hrs r (List.mem_filter.mp hr).1)
      refine ⟨?_, fun sb' h => ?_⟩
      · show Except.ok (absSB E _) = Except.ok _
        simp only [absSB]
        rw [g1]
      · cases h; exact g2

end MW.LedBytes
