/-
  C08, `remove ⊨ project`, part 4b — two more facts about the books of a valid chain: a credit has the tx record of
  its (creating) transaction, a debit has the tx record of the spending transaction.
-/
import MW.Lemmas.RemoveBooks
namespace MW.Lemmas.RemoveBooks
open MW MW.Model.Ledger MW.Spec.Chain MW.Spec.Books MW.Lemmas.Ledger MW.Lemmas.RemoveProj MW.Lemmas.RemoveChar

variable {p : Params} {own : Own} {chain : List Block}

/-- a credit of the books of a valid chain has the tx record of its transaction (same tx id, same block) -/
theorem credit_txrec (hV : ChainValid own chain) {ck : CredKey} {cr : Credit}
    (h : (bookOf p own chain).credits ck = some cr) :
    ∃ loc, (bookOf p own chain).txrecs (ck.tx, ck.blk) = some loc := by
  obtain ⟨u, ⟨oc, hoc, hid, hout, hown, hblk, _⟩, hck⟩ := (credInv_bookOf (p := p) hV).only ck cr h
  obtain ⟨P₁, P₂, hsplit⟩ := List.append_of_mem hoc
  refine ⟨(oc.bm.hash, oc.ti), (bookOf_txrecs_iff hV _ _).2 ⟨P₁, oc, P₂, hsplit, ?_, ?_, rfl⟩⟩
  · unfold touches
    rw [Bool.or_eq_true]
    refine Or.inr (List.any_eq_true.2 ⟨u.out, List.mem_of_getElem? hout, ?_⟩)
    rw [hown]; rfl
  · rw [hck, hid, ← hblk]; rfl

/-- a debit of the books of a valid chain has the tx record of the SPENDING transaction (the debit key is
    spender tx id ‖ spender block ‖ input index) -/
theorem debit_txrec (hV : ChainValid own chain) {dk : CredKey} {d : Nat × CredKey}
    (h : (bookOf p own chain).debits dk = some d) :
    ∃ loc, (bookOf p own chain).txrecs (dk.tx, dk.blk) = some loc := by
  obtain ⟨amt, ck⟩ := d
  obtain ⟨u, ⟨oc0, hoc0, hid0, hout0, hown0, hblk0, hcb0⟩, ⟨oc, hoc, hcb, k, i, hk, hop, hdk⟩, _, _⟩ :=
    (debitInv_bookOf (p := p) hV dk amt ck).1 h
  obtain ⟨P₁, P₂, hsplit⟩ := List.append_of_mem hoc
  have hn : (idsOf (occs chain)).Nodup := idsNodup hV
  -- validity of the prefix and of `oc` after it; the global invariant of the prefix book
  have hV' : ValidFrom own [] (P₁ ++ oc :: P₂) := by rw [← hsplit]; exact hV
  obtain ⟨hV1, hV2⟩ := validFrom_append.1 hV'
  have hOV : OccValid own P₁ oc := by
    rw [List.nil_append] at hV2; exact hV2.1
  have hG : Glob own P₁ (P₁.foldl (applyOcc p own) {}) := by
    have := glob_fold (p := p) (glob_nil own) hV1
    simpa using this
  obtain ⟨_, hsrc, _, hunsp, _⟩ := hOV
  have hi : i ∈ oc.t.ins := List.mem_of_getElem? hk
  have hitx : i.tx = u.tx := congrArg Prod.fst hop
  have hiidx : i.idx = u.idx := congrArg Prod.snd hop
  -- the creating transaction is in the prefix
  have h0 : oc0 ∈ P₁ := by
    have := srcOut_isSome_mem (hsrc hcb i hi)
    obtain ⟨oc1, hoc1, hid1⟩ := List.mem_map.1 this
    have hoc1' : oc1 ∈ occs chain := by rw [hsplit]; exact List.mem_append_left _ hoc1
    have : oc1 = oc0 := occ_eq_of_id hn hoc1' hoc0 (by rw [hid1, hid0, hitx])
    rw [← this]; exact hoc1
  have hmem : u ∈ (P₁.foldl (applyOcc p own) {}).L := by
    refine (hG.mem u).2 ⟨⟨oc0, h0, hid0, hout0, hown0, hblk0, hcb0⟩, ?_⟩
    have := hunsp hcb i hi
    rw [hop] at this; exact this
  refine ⟨(oc.bm.hash, oc.ti), (bookOf_txrecs_iff hV _ _).2 ⟨P₁, oc, P₂, hsplit, ?_, ?_, rfl⟩⟩
  · unfold touches
    rw [Bool.or_eq_true]
    refine Or.inl ?_
    rw [hcb]
    simp only [Bool.not_false, Bool.true_and]
    refine List.any_eq_true.2 ⟨i, hi, ?_⟩
    unfold lookupU
    rw [List.find?_isSome]
    exact ⟨u, hmem, by simp [UCoin.at, hitx, hiidx]⟩
  · rw [hdk]

end MW.Lemmas.RemoveBooks
