/-
  C08, removal in progress relative to an abstract upper book — the RELAXED invariant `MidUW`: `MidU` in which the
  buckets keyed by wallet id (`unspent`, `game`) are characterised only OFF the removed wallet `w`.  After a
  reorganisation below the first removal step's tip the store has stale entries keyed by `w` in these two buckets; the
  finishing step (`removeWalletIndexes`) deletes every entry keyed by `w` anyway.
    `midUW_of_midU`, `mid_step_UW`, `parked_step_UW`, `finish_projects_UW`, `run_projects_UW`, `mid_survivors_UW`
  (proofs: those of RemoveUpper.lean, with the two relaxed clauses used only off `w`)
-/
import MW.Lemmas.RemoveUpper
namespace MW.Lemmas.RemoveUpper
open MW MW.Model.Ledger MW.Model.Remove MW.Spec.Chain MW.Spec.Books MW.Lemmas.Ledger MW.Lemmas.RemoveProj
  MW.Lemmas.RemoveChar MW.Lemmas.RemoveBooks MW.Lemmas.RemoveScan MW.Lemmas.RemoveStep MW.Lemmas.RemoveFrame
  MW.Lemmas.RemoveInv MW.Lemmas.RemoveMain

/-- `MidU` with the buckets keyed by wallet id characterised only OFF the removed wallet `w` -/
structure MidUW (c : Ctx) (w : Wid) (addrs : List Addr) (own' : Own) (s : Store) (chain : List Block) (U : Book) : Prop where
  nodup : KeysNodup s.credits
  credits : ∀ k, AMap.get s.credits k = U.credits k ∨
    (AMap.get s.credits k = none ∧ ∃ cr, U.credits k = some cr ∧ isW c.own w cr.sh = true)
  debits : ∀ dk, AMap.get s.debits dk = U.debits dk ∨
    (AMap.get s.debits dk = none ∧ ∃ d cr, U.debits dk = some d ∧ U.credits d.2 = some cr ∧ isW c.own w cr.sh = true)
  debitsW : ∀ dk d cr, AMap.get s.debits dk = some d → U.credits d.2 = some cr →
    isW c.own w cr.sh = true → AMap.get s.credits d.2 = some cr
  unspent : ∀ w' tx idx, w' ≠ w → AMap.get s.unspent (w', tx, idx) =
    ((lookupU U.L tx idx).filter (fun u => decide (u.wallet = w'))).map (·.blk)
  game : ∀ k : GameKey, k.wallet ≠ w → AMap.get s.game k = U.game k
  txrecs : ∀ k, AMap.get s.txrecs k = U.txrecs k ∨
    (AMap.get s.txrecs k = none ∧ (bookOf c.p own' chain).txrecs k = none)
  txrecsW : ∀ k loc, AMap.get s.txrecs k = some loc → (bookOf c.p own' chain).txrecs k = none →
    ∃ ck cr, AMap.get s.credits ck = some cr ∧ isW c.own w cr.sh = true ∧
      ((ck.tx = k.1 ∧ ck.blk.height = k.2.height) ∨
        ∃ dk, spKey cr = some dk ∧ dk.tx = k.1 ∧ dk.blk.height = k.2.height)
  blocks : ∀ h, AMap.get s.blocks h = blockRecOf (fun k => (AMap.get s.txrecs k).isSome) chain h
  /-- balances of the OTHER ready wallets -/
  bal : ∀ w', w' ≠ w → (readyWallets s c.wallets).contains w' = true →
    AMap.get s.balance w' = some (totalU U.L w')
  sync : ∀ h, AMap.get s.sync h = syncOf chain h
  syncedTo : s.syncedTo + 1 = chain.length
  pendOff : ∀ e ∈ s.pendCred, addrs.contains e.2.sh = false → e.1.1 ∉ idsOf (occs chain)

section
variable {c : Ctx} {w : Wid} {addrs : List Addr} {own' : Own} {chain : List Block} {U : Book}

theorem midUW_of_midU {s : Store} (h : MidU c w addrs own' s chain U) : MidUW c w addrs own' s chain U :=
  ⟨h.nodup, h.credits, h.debits, h.debitsW, fun w' tx idx _ => h.unspent w' tx idx, fun k _ => h.game k, h.txrecs,
    h.txrecsW, h.blocks, h.bal, h.sync, h.syncedTo, h.pendOff⟩

-- ------------------------------------------------------------------ one RemoveRelevantTx preserves MidUW

theorem mid_step_UW (limit : Nat) (H : RemHyp c w addrs own' chain) (HU : UpperOK c w own' chain U) {s : Store}
    (hM : MidUW c w addrs own' s chain U)
    {o : StepOut} (h : removeRelevantTx limit c s addrs = some o) :
    MidUW c w addrs own' o.s chain U ∧
      (o.finish = true → ∀ k cr, AMap.get o.s.credits k = some cr → isW c.own w cr.sh = false) := by
  obtain ⟨DEL, HOF, ERA, hR⟩ := rrt_char limit c s addrs o H.ne h
  have hn' := rrt_nodup limit c s addrs o H.ne h hM.nodup
  have hBM := HU.minus
  have hcore := hR.core
  simp only [core, Prod.mk.injEq] at hcore
  obtain ⟨hu, ha, hg, hpg, hb, hst, hsy, hsyt⟩ := hcore
  -- the deleted credits are credits of `w` in the books
  have hDEL : ∀ e ∈ DEL, AMap.get s.credits e.1 = some e.2 ∧
      U.credits e.1 = some e.2 ∧ isW c.own w e.2.sh = true := by
    intro e he
    obtain ⟨hm, hc⟩ := hR.sub e he
    have hge : AMap.get s.credits e.1 = some e.2 := (mem_iff_get_of_nodup hM.nodup e.1 e.2).1 hm
    refine ⟨hge, ?_, by rw [← H.managed]; exact hc⟩
    rcases hM.credits e.1 with h1 | ⟨h1, _⟩
    · rw [← h1]; exact hge
    · rw [hge] at h1; cases h1
  -- the other wallets' credits are all still there …
  have hcrO : ∀ ck cr, U.credits ck = some cr → isW c.own w cr.sh = false →
      AMap.get o.s.credits ck = some cr := by
    intro ck cr hck hw
    rw [hR.credits]
    have hnd : ck ∉ DEL.map (·.1) := by
      intro hd
      obtain ⟨e, he, hek⟩ := (mem_keys_iff DEL ck).1 hd
      have := (hDEL e he).2
      rw [hek, hck] at this
      have h2 := this.2
      rw [← Option.some.inj this.1, hw] at h2; cases h2
    rw [if_neg hnd]
    rcases hM.credits ck with h1 | ⟨_, cr', h2, h3⟩
    · rw [h1]; exact hck
    · rw [hck] at h2
      rw [← Option.some.inj h2, hw] at h3; cases h3
  -- … and what is left of other script hashes is a credit of the books
  have hcrO' : ∀ e ∈ o.s.credits, addrs.contains e.2.sh = false →
      U.credits e.1 = some e.2 := by
    intro e he _
    have hge : AMap.get o.s.credits e.1 = some e.2 := (mem_iff_get_of_nodup hn' e.1 e.2).1 he
    rw [hR.credits] at hge
    by_cases hd : e.1 ∈ DEL.map (·.1)
    · rw [if_pos hd] at hge; cases hge
    · rw [if_neg hd] at hge
      rcases hM.credits e.1 with h1 | ⟨h1, _⟩
      · rw [← h1]; exact hge
      · rw [hge] at h1; cases h1
  have hpendO : ∀ oc ∈ occs chain, oc.t.cb = false → ∀ i ∈ oc.t.ins, ∀ cc,
      AMap.get o.s.pendCred (i.tx, i.idx) = some cc → addrs.contains cc.sh = true := by
    intro oc hoc hcb i hi cc hgp
    cases hc : addrs.contains cc.sh with
    | true => rfl
    | false =>
      exfalso
      have hm := get_mem hgp
      rw [hR.pendCred] at hm
      exact hM.pendOff _ (List.mem_filter.1 hm).1 hc (ins_ids H.valid hoc hcb hi)
  -- visible tx records of `s` are tx records of the books
  have htxB : ∀ k loc, AMap.get s.txrecs k = some loc → U.txrecs k = some loc := by
    intro k loc hk
    rcases hM.txrecs k with h1 | ⟨h1, _⟩
    · rw [← h1]; exact hk
    · rw [hk] at h1; cases h1
  have hU : TxrecU s.txrecs := by
    intro k k' hk hk' hid _
    obtain ⟨l, hl⟩ := Option.isSome_iff_exists.1 hk
    obtain ⟨l', hl'⟩ := Option.isSome_iff_exists.1 hk'
    exact txrec_key_unique_U H HU (by rw [htxB k l hl]; rfl) (by rw [htxB k' l' hl']; rfl) hid
  -- a tx record of the books, its transaction, its location
  have hrec : ∀ k loc, U.txrecs k = some loc → ∃ oc ∈ occs chain, k = (oc.t.id, oc.bm) ∧
      c.node.txByFileLoc loc = some oc.t := by
    intro k loc hk
    obtain ⟨oc, hoc, hkk, hl⟩ := HU.txrecOcc k loc hk
    exact ⟨oc, hoc, hkk, by rw [hl]; exact txByFileLoc_of_occ H.known hoc⟩
  have hnotNeeded : ∀ k loc oc, U.txrecs k = some loc → (bookOf c.p own' chain).txrecs k = none →
      oc ∈ occs chain → k = (oc.t.id, oc.bm) → ¬ NeededBy c.own own' w U oc.t := by
    intro k loc oc hk hk' hoc hkk hN
    have := (hBM.txrecs k loc).2 ⟨hk, oc, hoc, hkk, hN⟩
    rw [hk'] at this; cases this
  -- the examined pairs are (transaction of the chain, its height)
  have hHOF : ∀ x ∈ HOF, ∃ oc ∈ occs chain, oc.t.id = x.1 ∧ oc.bm.height = x.2 := by
    intro x hx
    obtain ⟨e, he, hor⟩ := hR.hofBack x hx
    rcases hor with rfl | ⟨dk, hdk, rfl⟩
    · obtain ⟨oc, hoc, h1, h2⟩ := HU.creditOcc _ _ (hDEL e he).2.1
      exact ⟨oc, hoc, h1, by rw [h2]⟩
    · obtain ⟨_, oc, hoc, h1, h2⟩ := HU.spKeyDebit _ _ _ (hDEL e he).2.1 hdk
      exact ⟨oc, hoc, h1, by rw [h2]⟩
  have hERA : ∀ k ∈ ERA, ∃ loc, U.txrecs k = some loc := by
    intro k hk
    obtain ⟨_, _, loc, _, hgl, _, _⟩ := hR.sound k hk
    exact ⟨loc, htxB k loc hgl⟩
  refine ⟨⟨hn', ?_, ?_, ?_, ?_, ?_, ?_, ?_, ?_, ?_, ?_, ?_, ?_⟩, ?_⟩
  · -- credits
    intro k
    rw [hR.credits]
    by_cases hk : k ∈ DEL.map (·.1)
    · obtain ⟨e, he, hek⟩ := (mem_keys_iff DEL k).1 hk
      rw [if_pos hk]
      exact Or.inr ⟨rfl, e.2, by rw [← hek]; exact (hDEL e he).2.1, (hDEL e he).2.2⟩
    · rw [if_neg hk]; exact hM.credits k
  · -- debits
    intro dk
    rw [hR.debits]
    by_cases hk : dk ∈ DEL.filterMap (fun e => spKey e.2)
    · obtain ⟨e, he, hsp⟩ := List.mem_filterMap.1 hk
      obtain ⟨⟨amt, hd⟩, _⟩ := HU.spKeyDebit _ _ _ (hDEL e he).2.1 hsp
      rw [if_pos hk]
      exact Or.inr ⟨rfl, (amt, e.1), e.2, hd, (hDEL e he).2.1, (hDEL e he).2.2⟩
    · rw [if_neg hk]; exact hM.debits dk
  · -- debitsW
    intro dk d cr hgd hcr hw
    rw [hR.debits] at hgd
    by_cases hk : dk ∈ DEL.filterMap (fun e => spKey e.2)
    · rw [if_pos hk] at hgd; cases hgd
    · rw [if_neg hk] at hgd
      have hgc := hM.debitsW dk d cr hgd hcr hw
      rw [hR.credits]
      by_cases hd : d.2 ∈ DEL.map (·.1)
      · exfalso
        obtain ⟨e, he, hek⟩ := (mem_keys_iff DEL d.2).1 hd
        have he2 : e.2 = cr := by
          have := (hDEL e he).1
          rw [hek, hgc] at this
          exact (Option.some.inj this).symm
        have hBd : U.debits dk = some d := by
          rcases hM.debits dk with h1 | ⟨h1, _⟩
          · rw [← h1]; exact hgd
          · rw [hgd] at h1; cases h1
        obtain ⟨cr', hcr', hsp'⟩ := HU.debitCredit _ _ hBd
        rw [hcr] at hcr'
        rw [← Option.some.inj hcr', ← he2] at hsp'
        exact hk (List.mem_filterMap.2 ⟨e, he, hsp'⟩)
      · rw [if_neg hd]; exact hgc
  · intro w' tx idx hne; rw [hu]; exact hM.unspent w' tx idx hne
  · intro k hne; rw [hg]; exact hM.game k hne
  · -- txrecs
    intro k
    rw [hR.txrecs]
    by_cases hk : k ∈ ERA
    · rw [if_pos hk]
      refine Or.inr ⟨rfl, ?_⟩
      obtain ⟨_, _, loc, tx, hgl, hloc, hrem⟩ := hR.sound k hk
      cases hB' : (bookOf c.p own' chain).txrecs k with
      | none => rfl
      | some loc' =>
        exfalso
        obtain ⟨hB, oc, hoc, hkk, hN⟩ := (hBM.txrecs k loc').1 hB'
        have hBl := htxB k loc hgl
        obtain ⟨oc1, hoc1, hkk1, hloc1⟩ := hrec k loc hBl
        have : oc = oc1 := occ_eq_of_id (idsNodup H.valid) hoc hoc1 (by
          have := hkk.symm.trans hkk1
          exact congrArg Prod.fst this)
        subst this
        rw [hloc] at hloc1
        rw [Option.some.inj hloc1, not_removable_of_needed_U H hcrO hN] at hrem
        cases hrem
    · rw [if_neg hk]; exact hM.txrecs k
  · -- txrecsW
    intro k loc hgk hB'
    rw [hR.txrecs] at hgk
    by_cases hk : k ∈ ERA
    · rw [if_pos hk] at hgk; cases hgk
    · rw [if_neg hk] at hgk
      obtain ⟨ck, cr, hgc, hw, halt⟩ := hM.txrecsW k loc hgk hB'
      by_cases hd : ck ∈ DEL.map (·.1)
      · by_cases hnu : inUse o.s k = false
        case neg =>
          -- D45 repair: the record stays because a credit or a debit under its key is left: that one leads to it
          have hiu : inUse o.s k = true := by cases h' : inUse o.s k with | true => rfl | false => exact absurd h' hnu
          unfold inUse at hiu
          simp only [Bool.or_eq_true, List.any_eq_true, Bool.and_eq_true, decide_eq_true_eq] at hiu
          have hV' : ChainValid own' chain := chainValid_minus H.minus H.valid
          rcases hiu with ⟨e, he, he1, he2⟩ | ⟨e, he, he1, he2⟩
          · have hge : AMap.get o.s.credits e.1 = some e.2 := (mem_iff_get_of_nodup hn' e.1 e.2).1 he
            cases hc : addrs.contains e.2.sh with
            | true => exact ⟨e.1, e.2, hge, by rw [← H.managed]; exact hc, Or.inl ⟨he1, by rw [he2]⟩⟩
            | false =>
              exfalso
              have hUc := hcrO' e he hc
              have hB'c : (bookOf c.p own' chain).credits e.1 = some e.2 :=
                (hBM.credits e.1 e.2).2 ⟨hUc, by rw [← H.managed]; exact hc⟩
              obtain ⟨loc', hl'⟩ := credit_txrec hV' hB'c
              have hkk : (e.1.tx, e.1.blk) = k := by rw [he1, he2]
              rw [hkk, hB'] at hl'; cases hl'
          · obtain ⟨d', hd'⟩ := Option.isSome_iff_exists.1 (mem_get_isSome he)
            have hgs : AMap.get s.debits e.1 = some d' := by
              have hd'' := hd'
              rw [hR.debits] at hd''
              by_cases hx : e.1 ∈ DEL.filterMap (fun e => spKey e.2)
              · rw [if_pos hx] at hd''; cases hd''
              · rw [if_neg hx] at hd''; exact hd''
            have hUd : U.debits e.1 = some d' := by
              rcases hM.debits e.1 with h1 | ⟨h1, _⟩
              · rw [← h1]; exact hgs
              · rw [hgs] at h1; cases h1
            obtain ⟨cr', hcr', hsp'⟩ := HU.debitCredit _ _ hUd
            cases hw' : isW c.own w cr'.sh with
            | true =>
              have hgc' := hM.debitsW e.1 d' cr' hgs hcr' hw'
              refine ⟨d'.2, cr', ?_, hw', Or.inr ⟨e.1, hsp', he1, by rw [he2]⟩⟩
              rw [hR.credits]
              by_cases hx : d'.2 ∈ DEL.map (·.1)
              · exfalso
                obtain ⟨e0, he0, hek0⟩ := (mem_keys_iff DEL d'.2).1 hx
                have he02 : e0.2 = cr' := by
                  have := (hDEL e0 he0).1
                  rw [hek0, hgc'] at this
                  exact (Option.some.inj this).symm
                have hmem : e.1 ∈ DEL.filterMap (fun e => spKey e.2) :=
                  List.mem_filterMap.2 ⟨e0, he0, by rw [he02]; exact hsp'⟩
                rw [hR.debits, if_pos hmem] at hd'; cases hd'
              · rw [if_neg hx]; exact hgc'
            | false =>
              exfalso
              have hB'd : (bookOf c.p own' chain).debits e.1 = some d' :=
                (hBM.debits e.1 d').2 ⟨hUd, cr', hcr', hw'⟩
              obtain ⟨loc', hl'⟩ := debit_txrec hV' hB'd
              have hkk : (e.1.tx, e.1.blk) = k := by rw [he1, he2]
              rw [hkk, hB'] at hl'; cases hl'
        exfalso
        apply hk
        obtain ⟨e, he, hek⟩ := (mem_keys_iff DEL ck).1 hd
        have he2 : e.2 = cr := by
          have := (hDEL e he).1
          rw [hek, hgc] at this
          exact (Option.some.inj this).symm
        have hBl := htxB k loc hgk
        obtain ⟨oc1, hoc1, hkk1, hloc1⟩ := hrec k loc hBl
        -- the pair examined for this record
        have hx : ∃ x ∈ HOF, x.1 = k.1 ∧ x.2 = k.2.height := by
          have key : ∀ id, id = k.1 → ∀ h', (id, h') ∈ HOF → ∃ x ∈ HOF, x.1 = k.1 ∧ x.2 = k.2.height := by
            intro id hid h' hm
            obtain ⟨oc, hoc, h1, h2⟩ := hHOF _ hm
            have : oc = oc1 := occ_eq_of_id (idsNodup H.valid) hoc hoc1 (by
              rw [h1]; show id = oc1.t.id; rw [hid, hkk1])
            refine ⟨_, hm, hid, ?_⟩
            show h' = k.2.height
            have h2' : oc.bm.height = h' := h2
            rw [← h2', this, hkk1]
          rcases halt with ⟨h1, _⟩ | ⟨dk, hdk, h1, _⟩
          · obtain ⟨h', hm⟩ := hR.hofTx e he
            exact key e.1.tx (by rw [hek]; exact h1) h' hm
          · obtain ⟨h', hm⟩ := hR.hofSp e he dk (by rw [he2]; exact hdk)
            exact key dk.tx h1 h' hm
        obtain ⟨x, hxm, hx1, hx2⟩ := hx
        refine hR.complete hU x hxm k loc oc1.t hx1.symm hx2.symm hgk hloc1 ?_ hnu
        exact removable_of_not_needed_U H hcrO' (fun hcb => hpendO oc1 hoc1 hcb)
          (hnotNeeded k loc oc1 hBl hB' hoc1 hkk1)
      · exact ⟨ck, cr, by rw [hR.credits, if_neg hd]; exact hgc, hw, halt⟩
  · -- blocks
    intro h'
    rw [hR.blocks h', hM.blocks h']
    have hhas : ∀ k, (AMap.get o.s.txrecs k).isSome =
        ((AMap.get s.txrecs k).isSome && !(ERA.contains k)) := by
      intro k
      rw [hR.txrecs]
      by_cases hk : k ∈ ERA
      · rw [if_pos hk]; simp [hk]
      · rw [if_neg hk]; simp [hk]
    rw [blockRecOf_congr (has' := fun k => (AMap.get s.txrecs k).isSome && !(ERA.contains k)) chain h' hhas]
    unfold blockRecOf
    cases hb' : chain[h']? with
    | none => simp [trimRec]
    | some b =>
      have hbh : b.height = h' := H.heights h' b hb'
      have hbm : ∀ oc ∈ occsOfBlock b, oc.bm = ⟨b.height, b.id⟩ := fun oc hoc => mem_occsFrom_bm hoc
      simp only
      rw [recIdsP_filter _ (fun k => !(ERA.contains k)) ⟨b.height, b.id⟩ _ hbm]
      -- erased keys at this height carry this block's hash
      have hhash : ∀ k ∈ ERA, k.2.height = h' → k.2.hash = b.id := by
        intro k hk hkh
        obtain ⟨loc, hl⟩ := hERA k hk
        obtain ⟨oc, hoc, hkk, _⟩ := hrec k loc hl
        obtain ⟨b1, hb1, hbm1⟩ := mem_occs_height hoc
        have hk2 : k.2 = ⟨b1.height, b1.id⟩ := by rw [hkk]; exact hbm1
        have : b1 = b := block_at_height H.heights hb' hb1 (by rw [← hkh, hk2])
        rw [hk2, this]
      have hpred : ∀ t, (!(ERA.map (fun k => (k.2.height, k.1))).contains (h', t)) =
          !(ERA.contains (t, (⟨b.height, b.id⟩ : BlockMeta))) := by
        intro t
        congr 1
        rw [Bool.eq_iff_iff]
        simp only [List.contains_eq_mem, List.mem_map, decide_eq_true_eq, Prod.mk.injEq]
        constructor
        · rintro ⟨k, hk, hkh, hkt⟩
          have := hhash k hk hkh
          have hk' : k = (t, (⟨b.height, b.id⟩ : BlockMeta)) := by
            obtain ⟨k1, k2h, k2x⟩ := k
            simp only at hkh hkt this
            rw [hkt, hkh, this, hbh]
          rw [← hk']; exact hk
        · intro hk
          exact ⟨_, hk, hbh, rfl⟩
      generalize hids : recIdsP (fun k => (AMap.get s.txrecs k).isSome) (occsOfBlock b) = ids
      cases ids with
      | nil => simp [trimRec]
      | cons a l =>
        simp only
        by_cases hh : h' ∈ ERA.map (·.2.height)
        · rw [if_pos hh]
          show trimRec _ h' (some (b.id, a :: l)) = _
          unfold trimRec
          simp only
          rw [List.filter_congr (fun t _ => hpred t)]
          generalize (a :: l).filter (fun t => !(ERA.contains (t, (⟨b.height, b.id⟩ : BlockMeta)))) = keep
          cases keep <;> rfl
        · rw [if_neg hh]
          have hall : (a :: l).filter (fun t => !(ERA.contains (t, (⟨b.height, b.id⟩ : BlockMeta)))) = a :: l := by
            apply List.filter_eq_self.2
            intro t _
            simp only [Bool.not_eq_true', List.contains_eq_mem, decide_eq_false_iff_not]
            intro hk
            apply hh
            exact List.mem_map.2 ⟨_, hk, hbh⟩
          rw [hall]
  · -- balances of ready wallets
    intro w' hne hw'
    rw [readyWallets_congr hst] at hw'
    rw [hb]; exact hM.bal w' hne hw'
  · intro h'; rw [hsy]; exact hM.sync h'
  · rw [hsyt]; exact hM.syncedTo
  · intro e he hc
    rw [hR.pendCred] at he
    exact hM.pendOff e (List.mem_filter.1 he).1 hc
  · -- finish: nothing of `w` is left among the credits
    intro hf k cr hgk
    rw [hR.credits] at hgk
    by_cases hk : k ∈ DEL.map (·.1)
    · rw [if_pos hk] at hgk; cases hgk
    · rw [if_neg hk] at hgk
      rw [← H.managed]
      cases hc : addrs.contains cr.sh with
      | false => rfl
      | true =>
        exfalso
        apply hk
        exact List.mem_map.2 ⟨(k, cr), hR.all hf (k, cr) (get_mem hgk) hc, rfl⟩

-- ------------------------------------------------------------------ the results, relative to the upper book

/-- every non-finishing step keeps the in-progress invariant -/
theorem parked_step_UW (limit : Nat) (H : RemHyp c w addrs own' chain) (HU : UpperOK c w own' chain U) {s : Store}
    (hM : MidUW c w addrs own' s chain U)
    {o : StepOut} (h : removeStep limit c w addrs s = some o) (hf : o.finish = false) :
    MidUW c w addrs own' o.s chain U := (mid_step_UW limit H HU hM (removeStep_parked h hf)).1

/-- THE FINISHING STEP: from the in-progress invariant to C01's invariant for the context without the keystore -/
theorem finish_projects_UW (limit : Nat) (H : RemHyp c w addrs own' chain) (HU : UpperOK c w own' chain U) {s : Store}
    (hM : MidUW c w addrs own' s chain U)
    (ws' : List Wid) (hws : ∀ x ∈ ws', x ∈ c.wallets)
    {o : StepOut} (h : removeStep limit c w addrs s = some o) (hf : o.finish = true) :
    Inv { c with own := own', wallets := ws' } o.s chain := by
  obtain ⟨o1, hr, hfin, hos⟩ := removeStep_finish h hf
  obtain ⟨hM1, hDone⟩ := mid_step_UW limit H HU hM hr
  have hDone := hDone hfin
  have hBM := HU.minus
  have hV' : ChainValid own' chain := chainValid_minus H.minus H.valid
  have hkeys := HU.keys
  have hcred : ∀ k, AMap.get o1.s.credits k = (bookOf c.p own' chain).credits k := by
    intro k
    rcases hM1.credits k with h1 | ⟨h1, cr, h2, h3⟩
    · cases hb : U.credits k with
      | none =>
        rw [h1, hb]
        cases hb' : (bookOf c.p own' chain).credits k with
        | none => rfl
        | some cr' => rw [((hBM.credits k cr').1 hb').1] at hb; cases hb
      | some cr =>
        rw [h1, hb]
        exact ((hBM.credits k cr).2 ⟨hb, hDone k cr (by rw [h1]; exact hb)⟩).symm
    · rw [h1]
      cases hb' : (bookOf c.p own' chain).credits k with
      | none => rfl
      | some cr' =>
        obtain ⟨h4, h5⟩ := (hBM.credits k cr').1 hb'
        rw [h2] at h4
        rw [← Option.some.inj h4, h3] at h5; cases h5
  have hdeb : ∀ dk, AMap.get o1.s.debits dk = (bookOf c.p own' chain).debits dk := by
    intro dk
    rcases hM1.debits dk with h1 | ⟨h1, d, cr, h2, h3, h4⟩
    · cases hb : U.debits dk with
      | none =>
        rw [h1, hb]
        cases hb' : (bookOf c.p own' chain).debits dk with
        | none => rfl
        | some d' => rw [((hBM.debits dk d').1 hb').1] at hb; cases hb
      | some d =>
        rw [h1, hb]
        obtain ⟨cr, hcr, _⟩ := HU.debitCredit _ _ hb
        have hw : isW c.own w cr.sh = false := by
          cases hw : isW c.own w cr.sh with
          | false => rfl
          | true =>
            have := hM1.debitsW dk d cr (by rw [h1]; exact hb) hcr hw
            rw [hDone d.2 cr this] at hw; cases hw
        exact ((hBM.debits dk d).2 ⟨hb, cr, hcr, hw⟩).symm
    · rw [h1]
      cases hb' : (bookOf c.p own' chain).debits dk with
      | none => rfl
      | some d' =>
        obtain ⟨h5, cr', h6, h7⟩ := (hBM.debits dk d').1 hb'
        rw [h2] at h5
        rw [← Option.some.inj h5, h3] at h6
        rw [← Option.some.inj h6, h4] at h7; cases h7
  have htx : ∀ k, AMap.get o1.s.txrecs k = (bookOf c.p own' chain).txrecs k := by
    intro k
    rcases hM1.txrecs k with h1 | ⟨h1, h2⟩
    · cases hb : U.txrecs k with
      | none =>
        rw [h1, hb]
        cases hb' : (bookOf c.p own' chain).txrecs k with
        | none => rfl
        | some l' => rw [((hBM.txrecs k l').1 hb').1] at hb; cases hb
      | some loc =>
        rw [h1, hb]
        cases hb' : (bookOf c.p own' chain).txrecs k with
        | some l' => rw [((hBM.txrecs k l').1 hb').1] at hb; exact hb.symm
        | none =>
          exfalso
          obtain ⟨ck, cr, hgc, hw, _⟩ := hM1.txrecsW k loc (by rw [h1]; exact hb) hb'
          rw [hDone ck cr hgc] at hw; cases hw
    · rw [h1, h2]
  have e1 : o.s.credits = o1.s.credits := by rw [hos]; rfl
  have e2 : o.s.debits = o1.s.debits := by rw [hos]; rfl
  have e3 : o.s.txrecs = o1.s.txrecs := by rw [hos]; rfl
  have e4 : o.s.blocks = o1.s.blocks := by rw [hos]; rfl
  have e5 : o.s.unspent = o1.s.unspent.filter (fun e => (fun k : Wid × TxId × Nat => k.1 != w) e.1) := by rw [hos]; rfl
  have e6 : o.s.game = o1.s.game.filter (fun e => (fun k : GameKey => k.wallet != w) e.1) := by rw [hos]; rfl
  have e7 : o.s.balance = AMap.erase o1.s.balance w := by rw [hos]; rfl
  have e8 : o.s.status = AMap.erase o1.s.status w := by rw [hos]; rfl
  have e9 : o.s.sync = o1.s.sync := by rw [hos]; rfl
  have e10 : o.s.syncedTo = o1.s.syncedTo := by rw [hos]; rfl
  refine ⟨⟨?_, ?_, ?_, ?_, ?_, ?_⟩, ?_, ?_, ?_⟩
  · -- unspent
    intro w' tx idx
    show AMap.get o.s.unspent (w', tx, idx) =
      ((lookupU (bookOf c.p own' chain).L tx idx).filter (fun u => decide (u.wallet = w'))).map (·.blk)
    rw [e5, get_filter_key o1.s.unspent (fun k : Wid × TxId × Nat => k.1 != w), hBM.L, lookupU_minus hkeys,
      filter_keep_wallet]
    by_cases hw' : w' = w
    · simp [hw']
    · rw [hM1.unspent w' tx idx hw']; simp [hw']
  · intro k; show AMap.get o.s.credits k = _; rw [e1]; exact hcred k
  · intro k; show AMap.get o.s.debits k = _; rw [e2]; exact hdeb k
  · -- game
    intro k
    show AMap.get o.s.game k = (bookOf c.p own' chain).game k
    rw [e6, get_filter_key o1.s.game (fun k : GameKey => k.wallet != w)]
    have := hBM.game k
    by_cases hkw : k.wallet = w
    · have h1 : (k.wallet != w) = false := by simp [hkw]
      rw [h1]
      simp only [Bool.false_eq_true, if_false]
      cases hb' : (bookOf c.p own' chain).game k with
      | none => rfl
      | some u => exact absurd hkw (this.1 hb').2
    · have h1 : (k.wallet != w) = true := by simp [hkw]
      rw [h1]
      simp only [if_true]
      rw [hM1.game k hkw]
      cases hb : U.game k with
      | none =>
        cases hb' : (bookOf c.p own' chain).game k with
        | none => rfl
        | some u => rw [(this.1 hb').1] at hb; cases hb
      | some u => exact (this.2 ⟨hb, hkw⟩).symm
  · intro k; show AMap.get o.s.txrecs k = _; rw [e3]; exact htx k
  · -- blocks
    intro h'
    show AMap.get o.s.blocks h' = (bookOf c.p own' chain).blocks h'
    rw [e4, hM1.blocks h', blocks_eq_blockRecOf c.p own' chain hV' H.heights h']
    exact blockRecOf_congr chain h' (fun k => by rw [htx])
  · -- balances
    intro w' hw'
    show AMap.get o.s.balance w' = some (totalU (bookOf c.p own' chain).L w')
    obtain ⟨hmem, hst⟩ := (ready_iff o.s ws' w').1 hw'
    rw [e8, AMap.get_erase] at hst
    have hne : w' ≠ w := by
      intro he
      rw [he] at hst
      simp at hst
    have hne' : ¬ w = w' := fun he => hne he.symm
    rw [if_neg hne'] at hst
    rw [e7, AMap.get_erase, if_neg hne', hBM.L, totalU_minus _ hne]
    exact hM1.bal w' hne ((ready_iff o1.s c.wallets w').2 ⟨hws w' hmem, hst⟩)
  · intro h'; rw [e9]; exact hM1.sync h'
  · rw [e10]; exact hM1.syncedTo

/-- the worker loop, however many transactions it takes: every intermediate store satisfies `Mid`, and completion
    gives C01's invariant for the context without the removed keystore -/
theorem run_projects_UW (limit : Nat) (H : RemHyp c w addrs own' chain) (HU : UpperOK c w own' chain U) (ws' : List Wid)
    (hws : ∀ x ∈ ws', x ∈ c.wallets) (n : Nat) {s s' : Store} (hM : MidUW c w addrs own' s chain U) (h : run limit c w addrs n s = .done s') :
    Inv { c with own := own', wallets := ws' } s' chain := by
  induction n generalizing s with
  | zero => simp [run] at h
  | succ n ih =>
    unfold run at h
    cases hstep : removeStep limit c w addrs s with
    | none => simp [hstep] at h
    | some o =>
      simp only [hstep] at h
      by_cases hfin : o.finish = true
      · simp only [hfin, if_true, RunRes.done.injEq] at h
        subst h
        exact finish_projects_UW limit H HU hM ws' hws hstep hfin
      · simp only [hfin, Bool.false_eq_true, if_false] at h
        exact ih (parked_step_UW limit H HU hM hstep (by simpa using hfin)) h

/-- in EVERY state of a removal in progress, what the queries read for another wallet `w'` — its unspent index,
    the credits of its coins, its balance — is what the books of the chain imply for the keystore view without `w` -/
theorem mid_survivors_UW (HU : UpperOK c w own' chain U) {s : Store} (hM : MidUW c w addrs own' s chain U)
    {w' : Wid} (hw' : w' ≠ w) :
    (∀ tx idx, AMap.get s.unspent (w', tx, idx) =
      ((lookupU (bookOf c.p own' chain).L tx idx).filter (fun u => decide (u.wallet = w'))).map (·.blk)) ∧
    (∀ k cr, (bookOf c.p own' chain).credits k = some cr → AMap.get s.credits k = some cr) ∧
    ((readyWallets s c.wallets).contains w' = true →
      AMap.get s.balance w' = some (totalU (bookOf c.p own' chain).L w')) := by
  have hBM := HU.minus
  have hkeys := HU.keys
  refine ⟨?_, ?_, ?_⟩
  · intro tx idx
    rw [hM.unspent w' tx idx hw', hBM.L, lookupU_minus hkeys, filter_keep_wallet, if_neg hw']
  · intro k cr hk
    obtain ⟨h1, h2⟩ := (hBM.credits k cr).1 hk
    rcases hM.credits k with h3 | ⟨_, cr', h4, h5⟩
    · rw [h3]; exact h1
    · rw [h1] at h4
      rw [← Option.some.inj h4, h2] at h5; cases h5
  · intro hr
    rw [hBM.L, totalU_minus _ hw']
    exact hM.bal w' hw' hr

end

end MW.Lemmas.RemoveUpper
