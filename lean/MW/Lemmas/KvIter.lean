/-
  Read-only iterators: the committed range an iterator of bucket `p` walks is exactly the bucket's
  entries within [start, limit), ascending, each once; Seek / Next behave as the specification's
  cursor over that list.
-/
import MW.Lemmas.KvRead
namespace MW.Model.KV
open MW MW.KV
open MW.Spec.KV (DB Cursor)

/-- anything between two strings that share a prefix has that prefix -/
theorem between_prefix (P a b x : Bytes) (h1 : ble (P ++ a) x = true) (h2 : blt x (P ++ b) = true) : P <+: x := by
  induction P generalizing x with
  | nil => exact List.nil_prefix
  | cons c cs ih =>
    cases x with
    | nil => simp [ble, blt] at h1
    | cons y ys =>
      simp only [List.cons_append, ble, blt] at h1 h2
      have hyc : ¬ y < c := by
        intro h; simp [h] at h1
      have hcy : ¬ c < y := by
        intro h; simp [hyc, h] at h2
      have : c = y := u8_eq_of_not_lt hcy hyc
      subst this
      simp only [UInt8.lt_irrefl, if_false] at h1 h2
      have := ih ys (by simpa [ble] using h1) h2
      exact List.cons_prefix_cons.mpr ⟨rfl, this⟩

variable {s : Store} {d : DB}

/-- the upper bound NewIterator computes -/
def iterLimit (p : Path) (limit : Bytes) : Option Bytes :=
  if limit.length == 0 then bytesPrefixLimit (dataKey p []) else some (dataKey p limit)

/-- membership in the committed range of an iterator of bucket `p` -/
theorem Rel.mem_iterRange (h : Rel s d) {p : Path} (hp : p ∈ d.buckets) (start limit : Bytes) (e : Bytes × Bytes) :
    e ∈ s.range (dataKey p start) (iterLimit p limit) ↔
      ∃ k, e = (dataKey p k, e.2) ∧ ((p, k), e.2) ∈ d.data ∧ ble start k = true ∧
        (limit.length == 0 || blt k limit) = true := by
  rw [SMap.mem_range]
  constructor
  · rintro ⟨hm, hlo, hhi⟩
    -- the key lies under the bucket prefix
    have hpre : dataKey p [] <+: e.1 := by
      unfold iterLimit at hhi
      by_cases hl : (limit.length == 0) = true
      · simp only [hl, if_true] at hhi
        have hlo' : ble (dataKey p []) e.1 = true := by
          refine ble_trans (ble_prefix ?_) hlo
          exact ⟨start, by simp [dataKey]⟩
        exact (inRange_bytesPrefix_iff _ _).mp ⟨hlo', hhi⟩
      · simp only [hl, Bool.false_eq_true, if_false] at hhi
        have e1 : dataKey p start = dataKey p [] ++ start := by simp [dataKey]
        have e2 : dataKey p limit = dataKey p [] ++ limit := by simp [dataKey]
        rw [e1] at hlo; rw [e2] at hhi
        exact between_prefix _ _ _ _ hlo hhi
    have hscan : e ∈ s.scan (dataKey p []) := mem_scan.mpr ⟨hm, hpre⟩
    obtain ⟨k, hek, hd, _⟩ := (h.mem_scan_data hp [] e).mp hscan
    refine ⟨k, hek, hd, ?_, ?_⟩
    · have h1 : e.1 = dataKey p k := by rw [hek]
      rw [h1] at hlo
      unfold dataKey at hlo
      rw [show pathBytes p ++ sep :: start = (pathBytes p ++ [sep]) ++ start by simp,
        show pathBytes p ++ sep :: k = (pathBytes p ++ [sep]) ++ k by simp, ble_append_left] at hlo
      exact hlo
    · unfold iterLimit at hhi
      by_cases hl : (limit.length == 0) = true
      · simp [hl]
      · simp only [hl, Bool.false_eq_true, if_false] at hhi
        have h1 : e.1 = dataKey p k := by rw [hek]
        rw [h1, blt_dataKey] at hhi
        simp [hhi]
  · rintro ⟨k, hek, hd, hlo, hhi⟩
    have hg := (h.mem (dataKey p k) e.2).mpr (Or.inr ⟨_, hd, rfl, rfl⟩)
    have h1 : e.1 = dataKey p k := by rw [hek]
    refine ⟨by rw [hek]; exact SMap.mem_of_get hg, ?_, ?_⟩
    · rw [h1]
      unfold dataKey
      rw [show pathBytes p ++ sep :: start = (pathBytes p ++ [sep]) ++ start by simp,
        show pathBytes p ++ sep :: k = (pathBytes p ++ [sep]) ++ k by simp, ble_append_left]
      exact hlo
    · unfold iterLimit
      by_cases hl : (limit.length == 0) = true
      · simp only [hl, if_true]
        have : inRange (dataKey p []) (bytesPrefixLimit (dataKey p [])) e.1 := by
          rw [inRange_bytesPrefix_iff, h1]
          exact ⟨k, by simp [dataKey]⟩
        exact this.2
      · simp only [hl, Bool.false_eq_true, if_false]
        rw [h1, blt_dataKey]
        simpa [hl] using hhi

/-- strip the bucket prefix of an entry -/
def strip (n : Nat) (e : Bytes × Bytes) : Bytes × Bytes := (e.1.drop n, e.2)

/-- `iter_sorted`, list form: the range walked by a read-only iterator, with the bucket prefix
    stripped, is the bucket's entries in [start, limit) in ascending key order, each once -/
theorem Rel.iterRange_eq (h : Rel s d) {p : Path} (hp : p ∈ d.buckets) (start limit : Bytes) :
    (s.range (dataKey p start) (iterLimit p limit)).map (strip ((pathBytes p).length + 1)) =
      (d.bucketEntries p).filter fun e => ble start e.1 && (limit.length == 0 || blt e.1 limit) := by
  apply pairwise_ext (R := fun a b : Bytes × Bytes => blt a.1 b.1 = true)
    (fun a => by simp [blt_irrefl]) (fun a b c => blt_trans)
  · rw [List.pairwise_map]
    have hs : SMap.Sorted (s.range (dataKey p start) (iterLimit p limit)) := SMap.range_sorted h.sorted _ _
    refine List.Pairwise.imp_of_mem ?_ hs
    intro x y hx hy hlt
    obtain ⟨kx, hex, _⟩ := (h.mem_iterRange hp start limit x).mp hx
    obtain ⟨ky, hey, _⟩ := (h.mem_iterRange hp start limit y).mp hy
    have h1 : x.1 = dataKey p kx := by rw [hex]
    have h2 : y.1 = dataKey p ky := by rw [hey]
    simp only [strip, h1, h2, drop_dataKey]
    rw [h1, h2, blt_dataKey] at hlt
    exact hlt
  · exact List.Pairwise.filter _ (DB.bucketEntries_sorted d h.dNodup p)
  · rintro ⟨k, v⟩
    simp only [List.mem_map, List.mem_filter, DB.mem_bucketEntries, Bool.and_eq_true]
    constructor
    · rintro ⟨e, he, heq⟩
      obtain ⟨k', hek, hd, hlo, hhi⟩ := (h.mem_iterRange hp start limit e).mp he
      have h1 : e.1 = dataKey p k' := by rw [hek]
      simp only [strip, h1, drop_dataKey] at heq
      cases heq
      exact ⟨hd, hlo, hhi⟩
    · rintro ⟨hd, hlo, hhi⟩
      refine ⟨(dataKey p k, v), (h.mem_iterRange hp start limit _).mpr ⟨k, rfl, hd, hlo, hhi⟩, ?_⟩
      simp [strip, drop_dataKey]

end MW.Model.KV

namespace MW.Model.KV
open MW MW.KV
open MW.Spec.KV (DB Cursor)

/-- a read-only levelIterator and a specification cursor in lock step -/
structure IterSim (P : Bytes) (it : LevelIter) (c : Cursor) : Prop where
  ro : it.readOnly = true
  plen : it.pathLen + 1 = P.length
  shape : ∀ e ∈ it.rng, ∃ k, e.1 = P ++ k
  pne : P ≠ []
  all : c.all = it.rng.map (strip P.length)
  todo : c.todo = it.todo.map (strip P.length)
  cur : c.cur = it.cur.map (strip P.length)
  sub : ∀ e ∈ it.todo, e ∈ it.rng
  curIn : ∀ e, it.cur = some e → e ∈ it.rng
  len : it.todo.length ≤ it.rng.length
  done : it.iterEnd = true → it.todo = [] ∧ it.cur = none

theorem IterSim.obs {P : Bytes} {it : LevelIter} {c : Cursor} (h : IterSim P it c) (ok : Bool) :
    (ok, it.key, it.value) = c.obs ok := by
  unfold Cursor.obs LevelIter.key LevelIter.value LevelIter.data
  rw [h.cur]
  by_cases he : it.iterEnd = true
  · have := h.done he
    simp [he, h.ro, this.2]
  · simp only [he, Bool.not_false, if_true]
    cases hc : it.cur with
    | none => simp
    | some e =>
      obtain ⟨k, hk⟩ := h.shape e (h.curIn e hc)
      have hne : e.1.length > 0 := by
        rw [hk]
        have : P.length > 0 := List.length_pos_iff.mpr h.pne
        simp; omega
      obtain ⟨ek, ev⟩ := e
      simp only at hne
      simp [hne, strip, h.plen]

def LevelIter.moved (it : LevelIter) (todo : List (Bytes × Bytes)) (cur : Option (Bytes × Bytes)) (e : Bool) : LevelIter :=
  { it with todo := todo, cur := cur, iterEnd := e }

def cursorMoved (c : Cursor) (todo : List (Bytes × Bytes)) (cur : Option (Bytes × Bytes)) : Cursor :=
  { c with todo := todo, cur := cur }

/-- moving a read-only iterator and the cursor to the same position keeps them in lock step -/
theorem IterSim.move {P : Bytes} {it : LevelIter} {c : Cursor} (h : IterSim P it c)
    (todo' : List (Bytes × Bytes)) (cur' : Option (Bytes × Bytes)) (end' : Bool)
    (hsub : ∀ x ∈ todo', x ∈ it.rng) (hcur : ∀ e, cur' = some e → e ∈ it.rng)
    (hlen : todo'.length ≤ it.rng.length) (hdone : end' = true → todo' = [] ∧ cur' = none) :
    IterSim P (it.moved todo' cur' end')
      (cursorMoved c (todo'.map (strip P.length)) (cur'.map (strip P.length))) :=
  ⟨h.ro, h.plen, h.shape, h.pne, h.all, rfl, rfl, hsub, hcur, hlen, hdone⟩

/-- levelIterator.Next of a read-only iterator -/
theorem LevelIter.next_ro {it : LevelIter} (hr : it.readOnly = true) :
    it.next =
      if it.iterEnd = true then (it, false)
      else match it.todo with
        | [] => (it.moved [] none true, false)
        | e :: rest => (it.moved rest (some e) it.iterEnd, true) := by
  obtain ⟨ro, pl, rng, todo, cur, ie, bi⟩ := it
  simp only at hr
  subst hr
  unfold LevelIter.next LevelIter.ldbNext LevelIter.moved
  cases ie with
  | true => simp
  | false =>
    cases todo with
    | nil => simp
    | cons e rest => simp

theorem Cursor.next_nil {c : Cursor} (h : c.todo = []) : c.next = (cursorMoved c [] none, false) := by
  unfold Spec.KV.Cursor.next cursorMoved; rw [h]

theorem Cursor.next_cons {c : Cursor} {e : Bytes × Bytes} {rest : List (Bytes × Bytes)} (h : c.todo = e :: rest) :
    c.next = (cursorMoved c rest (some e), true) := by
  unfold Spec.KV.Cursor.next cursorMoved; rw [h]

theorem IterSim.next {P : Bytes} {it : LevelIter} {c : Cursor} (h : IterSim P it c) :
    IterSim P it.next.1 c.next.1 ∧ it.next.2 = c.next.2 := by
  rw [LevelIter.next_ro h.ro]
  by_cases he : it.iterEnd = true
  · have hd := h.done he
    have hct : c.todo = [] := by rw [h.todo, hd.1]; rfl
    have hcc : c.cur = none := by rw [h.cur, hd.2]; rfl
    rw [if_pos he, Cursor.next_nil hct]
    have : cursorMoved c [] none = c := by
      obtain ⟨a, t, cu⟩ := c
      simp only at hct hcc
      subst hct; subst hcc; rfl
    rw [this]
    exact ⟨h, rfl⟩
  · rw [if_neg he]
    cases ht : it.todo with
    | nil =>
      have hct : c.todo = [] := by rw [h.todo, ht]; rfl
      rw [Cursor.next_nil hct]
      exact ⟨h.move [] none true (by intro x hx; cases hx) (by intro e he'; cases he') (by simp)
        (by intro _; exact ⟨rfl, rfl⟩), rfl⟩
    | cons e rest =>
      have hct : c.todo = strip P.length e :: rest.map (strip P.length) := by rw [h.todo, ht]; rfl
      rw [Cursor.next_cons hct]
      refine ⟨h.move rest (some e) it.iterEnd ?_ ?_ ?_ ?_, rfl⟩
      · intro x hx; exact h.sub x (by rw [ht]; exact List.mem_cons_of_mem _ hx)
      · intro x hx
        have : x = e := by cases hx; rfl
        subst this; exact h.sub x (by rw [ht]; exact List.mem_cons_self)
      · have := h.len; rw [ht] at this; simp at this; omega
      · intro hie; exact absurd hie he

theorem dropWhile_map_strip (P : Bytes) (k : Bytes) (l : List (Bytes × Bytes)) (hl : ∀ e ∈ l, ∃ k', e.1 = P ++ k') :
    (l.dropWhile fun e => blt e.1 (P ++ k)).map (strip P.length) =
      (l.map (strip P.length)).dropWhile fun e => blt e.1 k := by
  induction l with
  | nil => rfl
  | cons e r ih =>
    obtain ⟨k', hk'⟩ := hl e List.mem_cons_self
    have hb : blt e.1 (P ++ k) = blt (strip P.length e).1 k := by
      simp only [strip, hk', blt_append_left, List.drop_left]
    simp only [List.dropWhile_cons, List.map_cons, hb]
    by_cases hc : blt (strip P.length e).1 k = true
    · simp only [hc, if_true]; exact ih (fun x hx => hl x (List.mem_cons_of_mem _ hx))
    · simp [hc]

theorem dropWhile_sub {α : Type} (f : α → Bool) (l : List α) : ∀ x ∈ l.dropWhile f, x ∈ l := by
  intro x hx
  exact (List.dropWhile_sublist f).subset hx

/-- levelIterator.Seek of a read-only iterator -/
theorem LevelIter.seek_ro {it : LevelIter} (hr : it.readOnly = true) (b : Bucket) (k : Bytes) :
    it.seek b k =
      match it.rng.dropWhile (fun e => blt e.1 (b.path ++ sep :: k)) with
      | [] => (it.moved [] none true, false)
      | e :: rest => (it.moved rest (some e) false, true) := by
  obtain ⟨ro, pl, rng, todo, cur, ie, bi⟩ := it
  simp only at hr
  subst hr
  unfold LevelIter.seek LevelIter.ldbSeek LevelIter.ldbNext LevelIter.moved Bucket.innerKeyForIterator
  simp only
  cases rng.dropWhile (fun e => blt e.1 (b.path ++ sep :: k)) with
  | nil => simp
  | cons e rest => simp

theorem IterSim.seek {P : Bytes} {it : LevelIter} {c : Cursor} (h : IterSim P it c) (b : Bucket)
    (hb : b.path ++ [sep] = P) (k : Bytes) :
    IterSim P (it.seek b k).1 (c.seek k).1 ∧ (it.seek b k).2 = (c.seek k).2 := by
  rw [LevelIter.seek_ro h.ro]
  have hik : b.path ++ sep :: k = P ++ k := by rw [← hb]; simp
  rw [hik]
  have hdw := dropWhile_map_strip P k it.rng h.shape
  have hcs : c.seek k = (cursorMoved c (c.all.dropWhile fun e => blt e.1 k) c.cur).next := rfl
  rw [hcs, h.all, ← hdw]
  cases ht : it.rng.dropWhile (fun e => blt e.1 (P ++ k)) with
  | nil =>
    simp only [List.map_nil]
    rw [Cursor.next_nil (c := cursorMoved c [] c.cur) rfl]
    exact ⟨h.move [] none true (by intro x hx; cases hx) (by intro e he'; cases he') (by simp)
      (by intro _; exact ⟨rfl, rfl⟩), rfl⟩
  | cons e rest =>
    have hsub : ∀ x ∈ e :: rest, x ∈ it.rng := by
      intro x hx; rw [← ht] at hx; exact dropWhile_sub _ _ x hx
    simp only [List.map_cons]
    rw [Cursor.next_cons (c := cursorMoved c _ c.cur) (e := strip P.length e) (rest := rest.map (strip P.length)) rfl]
    refine ⟨h.move rest (some e) false ?_ ?_ ?_ ?_, rfl⟩
    · intro x hx; exact hsub x (List.mem_cons_of_mem _ hx)
    · intro x hx
      have : x = e := by cases hx; rfl
      subst this; exact hsub x List.mem_cons_self
    · have : (e :: rest).length ≤ it.rng.length := by
        rw [← ht]; exact (List.dropWhile_sublist _).length_le
      simp at this; omega
    · intro hie; cases hie

/-- the `for it.Next() {}` loop of a read-only iterator lists the remaining entries in order -/
theorem IterSim.drain {P : Bytes} (b : Bucket) : ∀ (fuel : Nat) {it : LevelIter} {c : Cursor}, IterSim P it c →
    it.todo.length < fuel →
    IterSim P (drain b fuel it).1 c.drain.1 ∧ (drain b fuel it).2 = c.drain.2 := by
  intro fuel
  induction fuel with
  | zero => intro it c _ hf; omega
  | succ fuel ih =>
    intro it c h hf
    have hn := h.next
    simp only [MW.Model.KV.drain]
    cases ht : it.todo with
    | nil =>
      -- Next fails at once
      have hct : c.todo = [] := by rw [h.todo, ht]; rfl
      have hnf : it.next.2 = false := by rw [hn.2]; simp [Cursor.next, hct]
      have hobs := hn.1.obs false
      simp only [hnf, Bool.false_eq_true, if_false]
      have hc1 : c.next.1 = { c with todo := [], cur := none } := by simp [Cursor.next, hct]
      unfold Cursor.drain
      rw [hct]
      refine ⟨?_, ?_⟩
      · have := hn.1; rw [hc1] at this; exact this
      · simp only [List.map_nil, List.nil_append]
        rw [hobs, hc1]; rfl
    | cons e rest =>
      have hct : c.todo = strip P.length e :: rest.map (strip P.length) := by rw [h.todo, ht]; rfl
      have hnt : it.next.2 = true := by rw [hn.2]; simp [Cursor.next, hct]
      simp only [hnt, if_true]
      have hc1 : c.next.1 = { c with todo := rest.map (strip P.length), cur := some (strip P.length e) } := by
        simp [Cursor.next, hct]
      have hlen : it.next.1.todo.length < fuel := by
        have : it.next.1.todo.map (strip P.length) = rest.map (strip P.length) := by
          rw [← hn.1.todo, hc1]
        have := congrArg List.length this
        simp at this
        rw [ht] at hf; simp at hf; omega
      have ih' := ih hn.1 hlen
      have hobs := hn.1.obs true
      refine ⟨?_, ?_⟩
      · have : c.next.1.drain.1 = c.drain.1 := by
          rw [hc1]; simp [Cursor.drain]
        rw [← this]; exact ih'.1
      · rw [ih'.2, hobs, hc1]
        simp [Cursor.drain, Cursor.obs, hct]

theorem LevelIter.next_batchIter {it : LevelIter} (hr : it.readOnly = true) : it.next.1.batchIter = it.batchIter := by
  rw [LevelIter.next_ro hr]
  split
  · rfl
  · split <;> rfl

theorem LevelIter.next_readOnly {it : LevelIter} (hr : it.readOnly = true) : it.next.1.readOnly = true := by
  rw [LevelIter.next_ro hr]
  split
  · exact hr
  · split <;> exact hr

theorem LevelIter.seek_batchIter {it : LevelIter} (hr : it.readOnly = true) (b : Bucket) (k : Bytes) :
    (it.seek b k).1.batchIter = it.batchIter := by
  rw [LevelIter.seek_ro hr]
  split <;> rfl

theorem drain_batchIter (b : Bucket) : ∀ (fuel : Nat) (it : LevelIter), it.readOnly = true →
    (drain b fuel it).1.batchIter = it.batchIter := by
  intro fuel
  induction fuel with
  | zero => intro it _; rfl
  | succ fuel ih =>
    intro it hr
    simp only [MW.Model.KV.drain]
    split
    · rw [ih _ (LevelIter.next_readOnly hr), LevelIter.next_batchIter hr]
    · exact LevelIter.next_batchIter hr

/-- a script on a read-only iterator gives what the specification cursor gives -/
theorem IterSim.run {P : Bytes} (b : Bucket) (hb : b.path ++ [sep] = P) :
    ∀ (sc : List IterStep) {it : LevelIter} {c : Cursor}, IterSim P it c →
      runScript b it sc = c.run sc := by
  intro sc
  induction sc with
  | nil => intro it c _; rfl
  | cons st rest ih =>
    intro it c h
    cases st with
    | next =>
      simp only [runScript, Cursor.run]
      have hn := h.next
      rw [hn.1.obs, hn.2, ih hn.1]
    | seek k =>
      simp only [runScript, Cursor.run]
      have hn := h.seek b hb k
      rw [hn.1.obs, hn.2, ih hn.1]
    | all =>
      simp only [runScript, Cursor.run]
      have hf : it.todo.length < drainFuel it := by
        unfold drainFuel; have := h.len; omega
      have hn := h.drain b (drainFuel it) hf
      rw [hn.2, ih hn.1]

end MW.Model.KV

namespace MW.Model.KV
open MW MW.KV
open MW.Spec.KV (DB Cursor)

variable {s : Store} {d : DB}

/-- clamping an inverted limit to the start does not change the (empty) range -/
theorem range_clampLimit {α : Type} (m : SMap α) (s0 : Bytes) (l : Option Bytes) :
    m.range s0 (clampLimit s0 l) = m.range s0 l := by
  cases l with
  | none => rfl
  | some l =>
    unfold clampLimit
    by_cases hl : blt l s0 = true
    · simp only [hl, if_true, SMap.range]
      apply List.filter_congr
      intro e _
      cases h1 : ble s0 e.1 with
      | false => rfl
      | true =>
        have h2 : blt e.1 s0 = false := by simpa [ble] using h1
        have h3 : blt e.1 l = false := by
          cases h3 : blt e.1 l with
          | false => rfl
          | true => rw [blt_trans h3 hl] at h2; cases h2
        simp [h2, h3]
    · simp [hl]

theorem Bucket.iterBounds_eq {b : Bucket} {p : Path} (hb : b.IsAt p) (start limit : Bytes) :
    b.iterBounds start limit = (dataKey p start, clampLimit (dataKey p start) (iterLimit p limit)) := by
  unfold Bucket.iterBounds Bucket.innerKeyForIterator iterLimit
  simp only [hb.path]
  by_cases hl : (limit.length == 0) = true
  · have : limit = [] := List.length_eq_zero_iff.mp (by simpa using hl)
    subst this
    simp [dataKey]
  · simp [hl, dataKey]

theorem Bucket.newIterator_rng {b : Bucket} {p : Path} (hb : b.IsAt p) (s : Store) (start limit : Bytes) :
    (b.newIterator (ro s) start limit).rng = s.range (dataKey p start) (iterLimit p limit) := by
  unfold Bucket.newIterator
  simp only [Bucket.iterBounds_eq hb]
  exact range_clampLimit s _ _

/-- `iter_sorted`: a script of Seek / Next steps on a read-only iterator of an existing bucket
    observes exactly what a cursor over the bucket's entries in [start, limit), ascending, observes -/
theorem Rel.iter (h : Rel s d) {b : Bucket} {p : Path} (hb : b.IsAt p) (hp : p ∈ d.buckets)
    (start limit : Bytes) (sc : List IterStep) :
    Obs.steps (runScript b (b.newIterator (ro s) start limit) sc) = d.iter p start limit sc := by
  unfold DB.iter
  simp only
  congr 1
  have hrng := Bucket.newIterator_rng hb s start limit
  have hP : (b.path ++ [sep]).length = (pathBytes p).length + 1 := by rw [hb.path]; simp
  apply IterSim.run b rfl sc
  refine ⟨rfl, ?_, ?_, by simp, ?_, ?_, rfl, ?_, ?_, ?_, ?_⟩
  · show b.pathLen + 1 = _
    unfold Bucket.pathLen; simp
  · intro e he
    rw [hrng] at he
    obtain ⟨k, hek, _⟩ := (h.mem_iterRange hp start limit e).mp he
    exact ⟨k, by rw [hek, hb.path]; simp [dataKey]⟩
  · show _ = (b.newIterator (ro s) start limit).rng.map _
    rw [hrng, hP, h.iterRange_eq hp]
  · show _ = (b.newIterator (ro s) start limit).todo.map _
    have : (b.newIterator (ro s) start limit).todo = (b.newIterator (ro s) start limit).rng := rfl
    rw [this, hrng, hP, h.iterRange_eq hp]
  · intro e he; exact he
  · intro e he; cases he
  · exact Nat.le_refl _
  · intro he; cases he

end MW.Model.KV
