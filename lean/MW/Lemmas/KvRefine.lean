/-
  The system model refines the specification: every operation history gives the same observable
  results (given the postcondition of the recursive bucket deletion, `DeleteSpec`).
-/
import MW.Lemmas.KvSim
namespace MW.Model.KV
open MW MW.KV
open MW.Spec.KV (DB)

structure SysRel (m : Sys) (σ : Spec.KV.Sys) : Prop where
  committed : Rel m.db σ.committed
  /-- the snapshot of the open read transaction is related to the database the specification
      captured at its begin -/
  reader : match m.reader, σ.reader with
    | none, none => True
    | some snap, some d => Rel snap d
    | _, _ => False
  pending : match m.w, σ.pending with
    | none, none => True
    | some bt, some d => bt.Inv ∧ Rel (eff m.db bt) d
    | _, _ => False

/-- results read through a write transaction whose order comes from a Go map are compared sorted -/
def canonFor (op : Op) (o : Obs) : Obs := if slotOf op = some Slot.w then o.canon else o

/-- model result vs specification result of one operation -/
def ObsAgree (op : Op) (o o' : Obs) : Prop := o' = .unspecified ∨ canonFor op o = o'

theorem slotOf_eq (op : Op) : Spec.KV.slotOf op = slotOf op := by cases op <;> rfl

theorem SysRel.init : SysRel {} {} := ⟨Rel.init, trivial, trivial⟩

theorem ObsAgree.same (op : Op) {o : Obs} (h : o.canon = o) : ObsAgree op o o := by
  unfold ObsAgree canonFor; right; split <;> simp [h]

theorem Sys.step_data {m : Sys} {op : Op} {sl : Slot} (h : slotOf op = some sl) :
    m.step op =
      match sl with
      | .w => (match m.w with
          | none => (m, Obs.notx)
          | some bt => ({ m with w := some (dataOp { readOnly := false, db := m.db, b := bt } op).2.b },
                        (dataOp { readOnly := false, db := m.db, b := bt } op).1))
      | .r => (match m.reader with
          | none => (m, Obs.notx)
          | some snap => (m, (dataOp { readOnly := true, db := snap } op).1)) := by
  cases sl <;> cases op <;> simp only [slotOf, Option.some.injEq, reduceCtorEq] at h <;> subst h <;> rfl

theorem SpecSys.step_data {σ : Spec.KV.Sys} {op : Op} {sl : Slot} (h : slotOf op = some sl) :
    σ.step op =
      match sl with
      | .w => (match σ.pending with
          | none => (σ, Obs.notx)
          | some d => ({ σ with pending := some (Spec.KV.dataOp d false op).2 }, (Spec.KV.dataOp d false op).1))
      | .r => (match σ.reader with
          | none => (σ, Obs.notx)
          | some d => (σ, (Spec.KV.dataOp d true op).1)) := by
  cases sl <;> cases op <;> simp only [slotOf, Option.some.injEq, reduceCtorEq] at h <;> subst h <;> rfl

theorem step_sim (hds : DeleteSpec) {m : Sys} {σ : Spec.KV.Sys} (h : SysRel m σ) (op : Op) :
    SysRel (m.step op).1 (σ.step op).1 ∧ ObsAgree op (m.step op).2 (σ.step op).2 := by
  obtain ⟨hc, hr, hp⟩ := h
  cases hso : slotOf op with
  | some sl =>
    -- a data operation
    rw [Sys.step_data hso, SpecSys.step_data hso]
    cases sl with
    | r =>
      cases hmr : m.reader with
      | none =>
        cases hsr : σ.reader with
        | some d => rw [hmr, hsr] at hr; exact absurd hr (by simp)
        | none => exact ⟨⟨hc, by rw [hmr, hsr]; trivial, hp⟩, ObsAgree.same _ rfl⟩
      | some snap =>
        cases hsr : σ.reader with
        | none => rw [hmr, hsr] at hr; exact absurd hr (by simp)
        | some d =>
          have hrel : Rel snap d := by rw [hmr, hsr] at hr; exact hr
          have hro : TxRel { readOnly := true, db := snap } d :=
            ⟨⟨hrel.sorted, Batch.inv_empty⟩, by simpa [Tx.commit] using hrel⟩
          simp only
          refine ⟨⟨hc, by rw [hmr, hsr]; exact hrel, hp⟩, ?_⟩
          rcases (dataOp_sim hds hro op (by rw [hso]; simp)).2 with hu | ha
          · exact Or.inl hu
          · right; simp only [canonFor, hso]; simpa using ha
    | w =>
      cases hmw : m.w with
      | none =>
        cases hsp : σ.pending with
        | some d => rw [hmw, hsp] at hp; exact absurd hp (by simp)
        | none => exact ⟨⟨hc, hr, by rw [hmw, hsp]; trivial⟩, ObsAgree.same _ rfl⟩
      | some bt =>
        cases hsp : σ.pending with
        | none => rw [hmw, hsp] at hp; exact absurd hp (by simp)
        | some d =>
          rw [hmw, hsp] at hp
          obtain ⟨hbi, hbr⟩ := hp
          have htx : TxRel { readOnly := false, db := m.db, b := bt } d := ⟨⟨hc.sorted, hbi⟩, hbr⟩
          obtain ⟨⟨hinv', hrel'⟩, hag⟩ := dataOp_sim hds htx op (by rw [hso]; simp)
          have hcont := dataOp_cont htx.inv op
          simp only
          refine ⟨⟨hc, hr, ?_⟩, ?_⟩
          · simp only
            refine ⟨hinv'.batch, ?_⟩
            have hdb := hcont.2.1
            have hro' := hcont.2.2
            simp only at hdb hro'
            rw [commit_w hro', hdb] at hrel'
            exact hrel'
          · rcases hag with hu | ha
            · exact Or.inl hu
            · right; simp only [canonFor, hso]; simpa using ha
  | none =>
    -- transaction control
    have hiff : m.w.isSome = σ.pending.isSome := by
      cases hmw : m.w <;> cases hsp : σ.pending <;> simp_all
    have hrs : m.reader.isSome = σ.reader.isSome := by
      cases hmr : m.reader <;> cases hsr : σ.reader <;> simp_all
    cases op with
    | create sl p | delb sl p | has sl p | clear sl p | names sl p
    | put sl p k v | get sl p k | del sl p k | pfx sl p k | iter sl p a b sc => simp [slotOf] at hso
    | raw => simp only [Sys.step, Spec.KV.Sys.step]; exact ⟨⟨hc, hr, hp⟩, Or.inl rfl⟩
    | beginR =>
      simp only [Sys.step, Spec.KV.Sys.step, hrs]
      by_cases hrd : σ.reader.isSome = true
      · simp only [hrd, if_true]; exact ⟨⟨hc, hr, hp⟩, ObsAgree.same _ rfl⟩
      · simp only [hrd, Bool.false_eq_true, if_false]; exact ⟨⟨hc, hc, hp⟩, ObsAgree.same _ rfl⟩
    | endR =>
      simp only [Sys.step, Spec.KV.Sys.step, hrs]
      by_cases hrd : σ.reader.isSome = true
      · simp only [hrd, if_true]; exact ⟨⟨hc, trivial, hp⟩, ObsAgree.same _ rfl⟩
      · simp only [hrd, Bool.false_eq_true, if_false]; exact ⟨⟨hc, hr, hp⟩, ObsAgree.same _ rfl⟩
    | reopen =>
      simp only [Sys.step, Spec.KV.Sys.step, hrs, hiff]
      by_cases hcd : (σ.pending.isSome || σ.reader.isSome) = true
      · simp only [hcd, if_true]; exact ⟨⟨hc, hr, hp⟩, ObsAgree.same _ rfl⟩
      · simp only [hcd, Bool.false_eq_true, if_false]; exact ⟨⟨hc, hr, hp⟩, ObsAgree.same _ rfl⟩
    | probe =>
      simp only [Sys.step, Spec.KV.Sys.step, hiff]
      by_cases hcd : σ.pending.isSome = true
      · simp only [hcd, if_true]; exact ⟨⟨hc, hr, hp⟩, ObsAgree.same _ rfl⟩
      · simp only [hcd, Bool.false_eq_true, if_false]; exact ⟨⟨hc, hr, hp⟩, ObsAgree.same _ rfl⟩
    | beginW =>
      cases hmw : m.w with
      | none =>
        cases hsp : σ.pending with
        | some d => rw [hmw, hsp] at hp; exact absurd hp (by simp)
        | none =>
          simp only [Sys.step, Spec.KV.Sys.step, hmw, hsp, Option.isSome_none, Bool.false_eq_true, if_false]
          exact ⟨⟨hc, hr, ⟨Batch.inv_empty, hc⟩⟩, ObsAgree.same _ rfl⟩
      | some bt =>
        cases hsp : σ.pending with
        | none => rw [hmw, hsp] at hp; exact absurd hp (by simp)
        | some d =>
          simp only [Sys.step, Spec.KV.Sys.step, hmw, hsp, Option.isSome_some, if_true]
          exact ⟨⟨hc, hr, by rw [hmw, hsp] at hp ⊢; exact hp⟩, ObsAgree.same _ rfl⟩
    | commit =>
      cases hmw : m.w with
      | none =>
        cases hsp : σ.pending with
        | some d => rw [hmw, hsp] at hp; exact absurd hp (by simp)
        | none =>
          simp only [Sys.step, Spec.KV.Sys.step, hmw, hsp]
          exact ⟨⟨hc, hr, by rw [hmw, hsp]; trivial⟩, ObsAgree.same _ rfl⟩
      | some bt =>
        cases hsp : σ.pending with
        | none => rw [hmw, hsp] at hp; exact absurd hp (by simp)
        | some d =>
          rw [hmw, hsp] at hp
          simp only [Sys.step, Spec.KV.Sys.step, hmw, hsp]
          exact ⟨⟨hp.2, hr, trivial⟩, ObsAgree.same _ rfl⟩
    | rollback =>
      cases hmw : m.w with
      | none =>
        cases hsp : σ.pending with
        | some d => rw [hmw, hsp] at hp; exact absurd hp (by simp)
        | none =>
          simp only [Sys.step, Spec.KV.Sys.step, hmw, hsp, Option.isSome_none, Bool.false_eq_true, if_false]
          exact ⟨⟨hc, hr, by rw [hmw, hsp]; trivial⟩, ObsAgree.same _ rfl⟩
      | some bt =>
        cases hsp : σ.pending with
        | none => rw [hmw, hsp] at hp; exact absurd hp (by simp)
        | some d =>
          simp only [Sys.step, Spec.KV.Sys.step, hmw, hsp, Option.isSome_some, if_true, Tx.rollback]
          exact ⟨⟨hc, hr, trivial⟩, ObsAgree.same _ rfl⟩

/-- results of two runs agree operation by operation -/
def RunsAgree : List Op → List Obs → List Obs → Prop
  | [], [], [] => True
  | op :: ops, o :: os, o' :: os' => ObsAgree op o o' ∧ RunsAgree ops os os'
  | _, _, _ => False

theorem run_sim (hds : DeleteSpec) : ∀ (ops : List Op) (m : Sys) (σ : Spec.KV.Sys), SysRel m σ →
    RunsAgree ops (run m ops) (Spec.KV.run σ ops) := by
  intro ops
  induction ops with
  | nil => intro m σ _; simp [run, Spec.KV.run, RunsAgree]
  | cons op rest ih =>
    intro m σ h
    have hs := step_sim hds h op
    simp only [run, Spec.KV.run, RunsAgree]
    exact ⟨hs.2, ih _ _ hs.1⟩

end MW.Model.KV
