/-
  C09, history level: the pending-side TRACE of connecting one block (`filterBlock_trace`) and the structural
  trace of a whole tip notification (`processBlock_trace`).
-/
import MW.Lemmas.PendHistDefs
import MW.Lemmas.LedgerPendingConfirm
import MW.Lemmas.LedgerFrame
import MW.Lemmas.LedgerFilter
namespace MW.Lemmas.PendHist
open MW MW.Model.Ledger MW.Lemmas.LedgerPending

-- ------------------------------------------------------------------ (a) filterTxRel / filterTxs keep `.tx`

theorem filterIn_tx (c : Ctx) (s : Store) (mined : Bool) (inBlk : List Tx) (ready : List Wid)
    (tr tr' : TxRec) (cur : Nat) (i : Inp) (h : filterIn c s mined inBlk ready tr cur i = .ok tr') :
    tr'.tx = tr.tx := by
  unfold filterIn at h
  simp only [throw, throwThe, MonadExceptOf.throw, pure, Except.pure] at h
  repeat' split at h
  all_goals first | (cases h; done) | (cases h; rfl)

theorem filterOut_tx (c : Ctx) (ready : List Wid) (tr : TxRec) (cur : Nat) (o : Out) :
    (filterOut c ready tr cur o).tx = tr.tx := by
  unfold filterOut
  repeat' split
  all_goals rfl

theorem filterTxRel_tx (c : Ctx) (s : Store) (tx : Tx) (mined : Bool) (inBlk : List Tx) (ready : List Wid)
    (tr : TxRec) (h : filterTxRel c s tx mined inBlk ready = .ok (some tr)) : tr.tx = tx := by
  rw [MW.Lemmas.Ledger.filterTxRel_eq] at h
  simp only [bind, Except.bind] at h
  split at h
  · cases h
  · rename_i tr1 h1
    have e1 : tr1.tx = tx := by
      split at h1
      · cases h1; rfl
      · exact foldIdxM_ok_inv (fun _ (a : TxRec) => a.tx = tx) _ _ _ _ _ rfl
          (fun a i x b' ha hf => (filterIn_tx c s mined inBlk ready a b' i x hf).trans ha) h1
    have e2 : (foldIdx (filterOut c ready) tx.outs 0 tr1).tx = tx :=
      foldIdx_inv (fun (a : TxRec) => a.tx = tx) _ _ _ _ e1
        (fun a i x ha => (filterOut_tx c ready a i x).trans ha)
    split at h
    · cases h
    · split at h
      · cases h
      · cases h; exact e2

/-- the first loop of filterBlock: the records found are those of a subsequence of the block's transactions -/
theorem filterTxs_sublist (c : Ctx) (s : Store) (ready : List Wid) (bid : BlkId) :
    ∀ (post seen : List Tx) (ti : Nat) (acc r : List TxRec),
      filterTxs c s ready bid post seen ti acc = .ok r →
      ∃ recs, r = acc ++ recs ∧ (recs.map (·.tx)).Sublist post := by
  intro post
  induction post with
  | nil =>
    intro seen ti acc r h
    simp only [filterTxs, pure, Except.pure, Except.ok.injEq] at h
    exact ⟨[], by simp [h], List.Sublist.refl _⟩
  | cons tx rest ih =>
    intro seen ti acc r h
    simp only [filterTxs, bind, Except.bind] at h
    cases hx : filterTxRel c s tx true (seen ++ [tx]) ready with
    | error e => rw [hx] at h; cases h
    | ok o =>
      rw [hx] at h
      cases o with
      | none =>
        obtain ⟨recs, h1, h2⟩ := ih _ _ _ _ h
        exact ⟨recs, h1, h2.cons _⟩
      | some tr =>
        obtain ⟨recs, h1, h2⟩ := ih _ _ _ _ h
        refine ⟨{ tr with loc := (bid, ti) } :: recs, by rw [h1]; simp, ?_⟩
        have e : tr.tx = tx := filterTxRel_tx c s tx true _ ready tr hx
        simp only [List.map_cons]
        rw [e]
        exact h2.cons_cons _

-- ------------------------------------------------------------------ (b) frames

/-- what the trace needs to know about a store: the pending records, the spender index, the tx records -/
def trSide (s : Store) := (s.pending, s.pendIns, s.txrecs)

theorem creditOne_trSide (p : Params) (tr : TxRec) (blk : BlockMeta) (sb sb' : Store × Bals) (rel : Rel)
    (h : creditOne p tr blk sb rel = .ok sb') : trSide sb'.1 = trSide sb.1 := by
  unfold creditOne at h
  simp only [throw, throwThe, MonadExceptOf.throw, pure, Except.pure] at h
  split at h
  · cases h
  · cases h; rfl

theorem addCredits_trSide (p : Params) (s s' : Store) (bals bals' : Bals) (tr : TxRec) (blk : BlockMeta)
    (h : addCredits p s bals tr blk = .ok (s', bals')) : trSide s' = trSide s := by
  unfold addCredits at h
  split at h
  · cases h; rfl
  · simp only [bind, Except.bind, pure, Except.pure] at h
    split at h
    · cases h
    · rename_i r hr
      cases h
      have h1 : trSide ((gameOuts tr).foldl (gameOne tr blk) r.1) = trSide r.1 :=
        foldl_inv (fun (a : Store) => trSide a = trSide r.1) _ _ _ rfl (fun a x _ ha => ha)
      rw [h1]
      exact foldlM_ok_inv (fun (a : Store × Bals) => trSide a.1 = trSide s) _ _ _ _ rfl
        (fun a x b' ha hf => (creditOne_trSide p tr blk a b' x hf).trans ha) hr

theorem spendOne_txrecs (tr : TxRec) (blk : BlockMeta) (sb sb' : Store × Bals) (rel : Rel)
    (h : spendOne tr blk sb rel = .ok sb') : sb'.1.txrecs = sb.1.txrecs := by
  unfold spendOne at h
  simp only [throw, throwThe, MonadExceptOf.throw, pure, Except.pure] at h
  repeat' split at h
  all_goals first | (cases h; done) | (cases h; rfl)

theorem updateMinedBalance_txrecs (s : Store) (bals : Bals) (tr : TxRec) (blk : BlockMeta) (r : Store × Bals)
    (h : updateMinedBalance s bals tr blk = .ok r) : r.1.txrecs = s.txrecs := by
  unfold updateMinedBalance at h
  exact foldlM_ok_inv (fun (a : Store × Bals) => a.1.txrecs = s.txrecs) _ _ _ _ rfl
    (fun a x b' ha hf => (spendOne_txrecs tr blk a b' x hf).trans ha) h

theorem confirmPending_txrecs (own : Own) (s : Store) (tr : TxRec) : (confirmPending own s tr).txrecs = s.txrecs := by
  unfold confirmPending
  rw [(MW.Lemmas.Ledger.minedEq_removeDoubleSpends own _ tr).txrecs,
    (MW.Lemmas.Ledger.minedEq_unpendMined s tr.tx).txrecs]

/-- insertMinedTx on a transaction without a record at this block: not the duplicate branch; the mined
    bookkeeping (silent), then the confirm step; the record is written -/
theorem insertMinedTx_fresh (own : Own) (s : Store) (bals : Bals) (tr : TxRec) (blk : BlockMeta)
    (s' : Store) (bals' : Bals) (ex : Bool) (h : insertMinedTx own s bals tr blk = .ok (s', bals', ex))
    (hno : AMap.get s.txrecs (tr.tx.id, blk) = none) :
    ∃ s1, s1.pending = s.pending ∧ s1.pendIns = s.pendIns ∧ s' = confirmPending own s1 tr ∧
      s'.txrecs = AMap.put s.txrecs (tr.tx.id, blk) tr.loc := by
  unfold insertMinedTx at h
  rw [hno] at h
  simp only [Option.isSome_none, Bool.false_eq_true, if_false, bind, Except.bind] at h
  cases hu : updateMinedBalance (recordMinedTx s tr blk) bals tr blk with
  | error e => rw [hu] at h; cases h
  | ok r =>
    rw [hu] at h
    simp only [pure, Except.pure, Except.ok.injEq, Prod.mk.injEq] at h
    have hp := updateMinedBalance_pendSide _ _ _ _ _ hu
    have hp' : pendSide r.1 = pendSide s := by rw [hp]; unfold recordMinedTx; rfl
    unfold pendSide at hp'
    simp only [Prod.mk.injEq] at hp'
    refine ⟨r.1, hp'.1, hp'.2.1, h.1.symm, ?_⟩
    rw [← h.1]
    show (confirmPending own r.1 tr).txrecs = _
    rw [confirmPending_txrecs, updateMinedBalance_txrecs _ _ _ _ _ hu]
    unfold recordMinedTx; rfl

-- ------------------------------------------------------------------ (c) the loop of onRelevantBlockConnected

/-- a silent step may also come last -/
theorem ConfReach.snoc_silent {own : Own} {trs : List TxRec} {s s' s'' : Store} (h : ConfReach own trs s s')
    (h1 : s''.pending = s'.pending) (h2 : s''.pendIns = s'.pendIns) : ConfReach own trs s s'' := by
  induction h with
  | nil => exact ConfReach.silent h1 h2 ConfReach.nil
  | silent a b _ ih => exact ConfReach.silent a b (ih h1 h2)
  | conf _ ih => exact ConfReach.conf (ih h1 h2)

theorem ConfReach.trans {own : Own} {trs trs' : List TxRec} {s s' s'' : Store} (h : ConfReach own trs s s')
    (h' : ConfReach own trs' s' s'') : ConfReach own (trs ++ trs') s s'' := by
  induction h with
  | nil => exact h'
  | silent a b _ ih => exact ConfReach.silent a b (ih h')
  | conf _ ih => exact ConfReach.conf (ih h')

theorem addRelevantMined_trace (p : Params) (own : Own) (s s' : Store) (bals bals' : Bals) (tr : TxRec)
    (blk : BlockMeta) (h : addRelevantMined p own s bals tr blk = .ok (s', bals'))
    (hno : AMap.get s.txrecs (tr.tx.id, blk) = none) :
    ∃ s1, s1.pending = s.pending ∧ s1.pendIns = s.pendIns ∧
      s'.pending = (confirmPending own s1 tr).pending ∧ s'.pendIns = (confirmPending own s1 tr).pendIns ∧
      s'.txrecs = AMap.put s.txrecs (tr.tx.id, blk) tr.loc := by
  unfold addRelevantMined at h
  simp only [bind, Except.bind] at h
  cases hi : insertMinedTx own s bals tr blk with
  | error e => rw [hi] at h; cases h
  | ok r =>
    rw [hi] at h
    obtain ⟨sa, ba, ex⟩ := r
    simp only at h
    obtain ⟨s1, h1, h2, h3, h4⟩ := insertMinedTx_fresh own s bals tr blk sa ba ex hi hno
    have hf := addCredits_trSide p sa s' ba bals' tr blk h
    unfold trSide at hf
    simp only [Prod.mk.injEq] at hf
    exact ⟨s1, h1, h2, by rw [hf.1, h3], by rw [hf.2.1, h3], by rw [hf.2.2, h4]⟩

theorem relevantFold_trace (p : Params) (own : Own) (bm : BlockMeta) :
    ∀ (recs : List TxRec) (sb r : Store × Bals),
      recs.foldlM (fun (sb : Store × Bals) tr => addRelevantMined p own sb.1 sb.2 tr bm) sb = .ok r →
      (∀ tr ∈ recs, AMap.get sb.1.txrecs (tr.tx.id, bm) = none) →
      (recs.map (·.tx.id)).Nodup →
      ConfReach own recs sb.1 r.1 := by
  intro recs
  induction recs with
  | nil =>
    intro sb r h _ _
    simp only [List.foldlM, pure, Except.pure, Except.ok.injEq] at h
    rw [← h]; exact ConfReach.nil
  | cons tr rest ih =>
    intro sb r h hno hnd
    simp only [List.foldlM, bind, Except.bind] at h
    cases hf : addRelevantMined p own sb.1 sb.2 tr bm with
    | error e => rw [hf] at h; cases h
    | ok sb' =>
      rw [hf] at h
      obtain ⟨s1, h1, h2, h3, h4, h5⟩ := addRelevantMined_trace p own sb.1 sb'.1 sb.2 sb'.2 tr bm hf
        (hno tr (List.mem_cons_self ..))
      rw [List.map_cons, List.nodup_cons] at hnd
      have hrest : ConfReach own rest sb'.1 r.1 := by
        refine ih sb' r h ?_ hnd.2
        intro tr' htr'
        rw [h5, AMap.get_put]
        have hne : ¬ (tr.tx.id, bm) = (tr'.tx.id, bm) := by
          intro he
          have : tr.tx.id = tr'.tx.id := (Prod.mk.inj he).1
          exact hnd.1 (this ▸ List.mem_map.2 ⟨tr', htr', rfl⟩)
        rw [if_neg hne]
        exact hno tr' (List.mem_cons_of_mem _ htr')
      exact ConfReach.silent h1 h2 (ConfReach.conf (ConfReach.silent h3 h4 hrest))

-- ------------------------------------------------------------------ (d) applyRelevant, putSyncedTo, filterBlock

theorem applyRelevant_trace (c : Ctx) (s s' : Store) (ready : List Wid) (bm : BlockMeta) (recs : List TxRec)
    (h : applyRelevant c s ready bm recs = .ok s')
    (hno : ∀ tr ∈ recs, AMap.get s.txrecs (tr.tx.id, bm) = none) (hnd : (recs.map (·.tx.id)).Nodup) :
    ConfReach c.own recs s s' := by
  unfold applyRelevant at h
  split at h
  · rename_i he
    cases h
    rw [List.isEmpty_iff] at he
    rw [he]; exact ConfReach.nil
  · simp only [bind, Except.bind, pure, Except.pure] at h
    split at h
    · cases h
    · rename_i r hr
      cases h
      exact (relevantFold_trace c.p c.own bm recs _ r hr hno hnd).snoc_silent rfl rfl

theorem putSyncedTo_pend (s s' : Store) (blk : BlockMeta) (h : putSyncedTo s blk = .ok s') :
    s'.pending = s.pending ∧ s'.pendIns = s.pendIns := by
  unfold putSyncedTo at h
  simp only [throw, throwThe, MonadExceptOf.throw, pure, Except.pure] at h
  repeat' split at h
  all_goals first | (cases h; done) | (cases h; exact ⟨rfl, rfl⟩)

/-- **the pending-side trace of connecting one block** (at least one ready wallet; no record of the block's
    transactions at this block yet; distinct ids within the block): the records found by the first loop confirm
    in order, interleaved with silent steps, then the irrelevant transactions purge their double spends -/
theorem filterBlock_trace (c : Ctx) (s s' : Store) (ready : List Wid) (b : Block) (conf : List TxId)
    (h : filterBlock c s ready b = .ok (s', conf)) (hne : ready.isEmpty = false)
    (hnorec : ∀ u ∈ b.txs, AMap.get s.txrecs (u.id, ⟨b.height, b.id⟩) = none)
    (hbnd : (b.txs.map (·.id)).Nodup) :
    ∃ recs s1, filterTxs c s ready b.id b.txs [] 0 [] = .ok recs ∧
      (recs.map (·.tx)).Sublist b.txs ∧
      ConfReach c.own recs s s1 ∧
      s'.pending = (purgeUnrelated c.own s1 (unrelatedTxs b.txs recs)).pending ∧
      s'.pendIns = (purgeUnrelated c.own s1 (unrelatedTxs b.txs recs)).pendIns := by
  unfold filterBlock at h
  simp only [throw, throwThe, MonadExceptOf.throw] at h
  split at h
  · cases h
  · split at h
    · cases h
    · simp only [hne, Bool.false_eq_true, if_false, bind, Except.bind] at h
      cases hf : filterTxs c s ready b.id b.txs [] 0 [] with
      | error e => rw [hf] at h; cases h
      | ok recs =>
        rw [hf] at h
        simp only at h
        obtain ⟨recs', hr, hsub⟩ := filterTxs_sublist c s ready b.id b.txs [] 0 [] recs hf
        rw [List.nil_append] at hr
        subst hr
        cases ha : applyRelevant c s ready ⟨b.height, b.id⟩ recs with
        | error e => rw [ha] at h; cases h
        | ok s1 =>
          rw [ha] at h
          simp only at h
          cases hp : putSyncedTo (purgeUnrelated c.own s1 (unrelatedTxs b.txs recs)) ⟨b.height, b.id⟩ with
          | error e => rw [hp] at h; cases h
          | ok s2 =>
            rw [hp] at h
            simp only [pure, Except.pure, Except.ok.injEq, Prod.mk.injEq] at h
            obtain ⟨hs2, _⟩ := h
            subst hs2
            have hnd : (recs.map (·.tx.id)).Nodup := by
              have : recs.map (·.tx.id) = (recs.map (·.tx)).map (·.id) := by rw [List.map_map]; rfl
              rw [this]
              exact (hsub.map (·.id)).nodup hbnd
            have hno : ∀ tr ∈ recs, AMap.get s.txrecs (tr.tx.id, ⟨b.height, b.id⟩) = none :=
              fun tr htr => hnorec tr.tx (hsub.subset (List.mem_map.2 ⟨tr, htr, rfl⟩))
            obtain ⟨q1, q2⟩ := putSyncedTo_pend _ _ _ hp
            exact ⟨recs, s1, rfl, hsub, applyRelevant_trace c s s1 ready _ recs ha hno hnd, q1, q2⟩

end MW.Lemmas.PendHist
