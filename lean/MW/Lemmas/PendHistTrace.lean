/-
  C09, history level: the pending-side TRACE of connecting one block (`filterBlock_trace`) and the structural
  trace of a whole tip notification (`processBlock_trace`).
-/
import MW.Lemmas.PendHistDefs
import MW.Lemmas.LedgerPendingConfirm
import MW.Lemmas.LedgerFrame
import MW.Lemmas.LedgerFilter
namespace MW.Lemmas.PendHist
open MW MW.Model.Ledger MW.Lemmas.LedgerPending

-- ------------------------------------------------------------------ (a) filterTxRel / filterTxs keep `.tx`

theorem filterIn_tx (c : Ctx) (s : Store) (mined : Bool) (inBlk : List Tx) (ready : List Wid)
    (tr tr' : TxRec) (cur : Nat) (i : Inp) (h : filterIn c s mined inBlk ready tr cur i = .ok tr') :
    tr'.tx = tr.tx := by
  unfold filterIn at h
  simp only [throw, throwThe, MonadExceptOf.throw, pure, Except.pure] at h
  repeat' split at h
  all_goals first | (cases h; done) | (cases h; rfl)

theorem filterOut_tx (c : Ctx) (ready : List Wid) (tr : TxRec) (cur : Nat) (o : Out) :
    (filterOut c ready tr cur o).tx = tr.tx := by
  unfold filterOut
  repeat' split
  all_goals rfl

theorem filterTxRel_tx (c : Ctx) (s : Store) (tx : Tx) (mined : Bool) (inBlk : List Tx) (ready : List Wid)
    (tr : TxRec) (h : filterTxRel c s tx mined inBlk ready = .ok (some tr)) : tr.tx = tx := by
  rw [MW.Lemmas.Ledger.filterTxRel_eq] at h
  simp only [bind, Except.bind] at h
  split at h
  · cases h
  · rename_i tr1 h1
    have e1 : tr1.tx = tx := by
      split at h1
      · cases h1; rfl
      · exact foldIdxM_ok_inv (fun _ (a : TxRec) => a.tx = tx) _ _ _ _ _ rfl
          (fun a i x b' ha hf => (filterIn_tx c s mined inBlk ready a b' i x hf).trans ha) h1
    have e2 : (foldIdx (filterOut c ready) tx.outs 0 tr1).tx = tx :=
      foldIdx_inv (fun (a : TxRec) => a.tx = tx) _ _ _ _ e1
        (fun a i x ha => (filterOut_tx c ready a i x).trans ha)
    split at h
    · cases h
    · split at h
      · cases h
      · cases h; exact e2

/-- the first loop of filterBlock: the records found are those of a subsequence of the block's transactions -/
theorem filterTxs_sublist (c : Ctx) (s : Store) (ready : List Wid) (bid : BlkId) :
    ∀ (post seen : List Tx) (ti : Nat) (acc r : List TxRec),
      filterTxs c s ready bid post seen ti acc = .ok r →
      ∃ recs, r = acc ++ recs ∧ (recs.map (·.tx)).Sublist post := by
  intro post
  induction post with
  | nil =>
    intro seen ti acc r h
    simp only [filterTxs, pure, Except.pure, Except.ok.injEq] at h
    exact ⟨[], by simp [h], List.Sublist.refl _⟩
  | cons tx rest ih =>
    intro seen ti acc r h
    simp only [filterTxs, bind, Except.bind] at h
    cases hx : filterTxRel c s tx true (seen ++ [tx]) ready with
    | error e => rw [hx] at h; cases h
    | ok o =>
      rw [hx] at h
      cases o with
      | none =>
        obtain ⟨recs, h1, h2⟩ := ih _ _ _ _ h
        exact ⟨recs, h1, h2.cons _⟩
      | some tr =>
        obtain ⟨recs, h1, h2⟩ := ih _ _ _ _ h
        refine ⟨{ tr with loc := (bid, ti) } :: recs, by rw [h1]; simp, ?_⟩
        have e : tr.tx = tx := filterTxRel_tx c s tx true _ ready tr hx
        simp only [List.map_cons]
        rw [e]
        exact h2.cons_cons _

-- ------------------------------------------------------------------ (b) frames

/-- what the trace needs to know about a store: the pending records, the spender index, the tx records -/
def trSide (s : Store) := (s.pending, s.pendIns, s.txrecs)

theorem creditOne_trSide (p : Params) (tr : TxRec) (blk : BlockMeta) (sb sb' : Store × Bals) (rel : Rel)
    (h : creditOne p tr blk sb rel = .ok sb') : trSide sb'.1 = trSide sb.1 := by
  unfold creditOne at h
  simp only [throw, throwThe, MonadExceptOf.throw, pure, Except.pure] at h
  split at h
  · cases h
  · cases h; rfl

theorem addCredits_trSide (p : Params) (s s' : Store) (bals bals' : Bals) (tr : TxRec) (blk : BlockMeta)
    (h : addCredits p s bals tr blk = .ok (s', bals')) : trSide s' = trSide s := by
  unfold addCredits at h
  split at h
  · cases h; rfl
  · simp only [bind, Except.bind, pure, Except.pure] at h
    split at h
    · cases h
    · rename_i r hr
      cases h
      have h1 : trSide ((gameOuts tr).foldl (gameOne tr blk) r.1) = trSide r.1 :=
        foldl_inv (fun (a : Store) => trSide a = trSide r.1) _ _ _ rfl (fun a x _ ha => ha)
      rw [h1]
      exact foldlM_ok_inv (fun (a : Store × Bals) => trSide a.1 = trSide s) _ _ _ _ rfl
        (fun a x b' ha hf => (creditOne_trSide p tr blk a b' x hf).trans ha) hr

theorem spendOne_txrecs (tr : TxRec) (blk : BlockMeta) (sb sb' : Store × Bals) (rel : Rel)
    (h : spendOne tr blk sb rel = .ok sb') : sb'.1.txrecs = sb.1.txrecs := by
  unfold spendOne at h
  simp only [throw, throwThe, MonadExceptOf.throw, pure, Except.pure] at h
  repeat' split at h
  all_goals first | (cases h; done) | (cases h; rfl)

theorem updateMinedBalance_txrecs (s : Store) (bals : Bals) (tr : TxRec) (blk : BlockMeta) (r : Store × Bals)
    (h : updateMinedBalance s bals tr blk = .ok r) : r.1.txrecs = s.txrecs := by
  unfold updateMinedBalance at h
  exact foldlM_ok_inv (fun (a : Store × Bals) => a.1.txrecs = s.txrecs) _ _ _ _ rfl
    (fun a x b' ha hf => (spendOne_txrecs tr blk a b' x hf).trans ha) h

theorem confirmPending_txrecs (own : Own) (s : Store) (tr : TxRec) : (confirmPending own s tr).txrecs = s.txrecs := by
  unfold confirmPending
  rw [(MW.Lemmas.Ledger.minedEq_removeDoubleSpends own _ tr).txrecs,
    (MW.Lemmas.Ledger.minedEq_unpendMined s tr.tx).txrecs]

/-- insertMinedTx on a transaction without a record at this block: not the duplicate branch; the mined
    bookkeeping (silent), then the confirm step; the record is written -/
theorem insertMinedTx_fresh (own : Own) (s : Store) (bals : Bals) (tr : TxRec) (blk : BlockMeta)
    (s' : Store) (bals' : Bals) (ex : Bool) (h : insertMinedTx own s bals tr blk = .ok (s', bals', ex))
    (hno : AMap.get s.txrecs (tr.tx.id, blk) = none) :
    ∃ s1, s1.pending = s.pending ∧ s1.pendIns = s.pendIns ∧ s' = confirmPending own s1 tr ∧
      s'.txrecs = AMap.put s.txrecs (tr.tx.id, blk) tr.loc := by
  unfold insertMinedTx at h
  rw [hno] at h
  simp only [Option.isSome_none, Bool.false_eq_true, if_false, bind, Except.bind] at h
  cases hu : updateMinedBalance (recordMinedTx s tr blk) bals tr blk with
  | error e => rw [hu] at h; cases h
  | ok r =>
    rw [hu] at h
    simp only [pure, Except.pure, Except.ok.injEq, Prod.mk.injEq] at h
    have hp := updateMinedBalance_pendSide _ _ _ _ _ hu
    have hp' : pendSide r.1 = pendSide s := by rw [hp]; unfold recordMinedTx; rfl
    unfold pendSide at hp'
    simp only [Prod.mk.injEq] at hp'
    refine ⟨r.1, hp'.1, hp'.2.1, h.1.symm, ?_⟩
    rw [← h.1]
    show (confirmPending own r.1 tr).txrecs = _
    rw [confirmPending_txrecs, updateMinedBalance_txrecs _ _ _ _ _ hu]
    unfold recordMinedTx; rfl

-- ------------------------------------------------------------------ (c) the loop of onRelevantBlockConnected

/-- a silent step may also come last -/
theorem ConfReach.snoc_silent {own : Own} {trs : List TxRec} {s s' s'' : Store} (h : ConfReach own trs s s')
    (h1 : s''.pending = s'.pending) (h2 : s''.pendIns = s'.pendIns) : ConfReach own trs s s'' := by
  induction h with
  | nil => exact ConfReach.silent h1 h2 ConfReach.nil
  | silent a b _ ih => exact ConfReach.silent a b (ih h1 h2)
  | conf _ ih => exact ConfReach.conf (ih h1 h2)

theorem ConfReach.trans {own : Own} {trs trs' : List TxRec} {s s' s'' : Store} (h : ConfReach own trs s s')
    (h' : ConfReach own trs' s' s'') : ConfReach own (trs ++ trs') s s'' := by
  induction h with
  | nil => exact h'
  | silent a b _ ih => exact ConfReach.silent a b (ih h')
  | conf _ ih => exact ConfReach.conf (ih h')

theorem addRelevantMined_trace (p : Params) (own : Own) (s s' : Store) (bals bals' : Bals) (tr : TxRec)
    (blk : BlockMeta) (h : addRelevantMined p own s bals tr blk = .ok (s', bals'))
    (hno : AMap.get s.txrecs (tr.tx.id, blk) = none) :
    ∃ s1, s1.pending = s.pending ∧ s1.pendIns = s.pendIns ∧
      s'.pending = (confirmPending own s1 tr).pending ∧ s'.pendIns = (confirmPending own s1 tr).pendIns ∧
      s'.txrecs = AMap.put s.txrecs (tr.tx.id, blk) tr.loc := by
  unfold addRelevantMined at h
  simp only [bind, Except.bind] at h
  cases hi : insertMinedTx own s bals tr blk with
  | error e => rw [hi] at h; cases h
  | ok r =>
    rw [hi] at h
    obtain ⟨sa, ba, ex⟩ := r
    simp only at h
    obtain ⟨s1, h1, h2, h3, h4⟩ := insertMinedTx_fresh own s bals tr blk sa ba ex hi hno
    have hf := addCredits_trSide p sa s' ba bals' tr blk h
    unfold trSide at hf
    simp only [Prod.mk.injEq] at hf
    exact ⟨s1, h1, h2, by rw [hf.1, h3], by rw [hf.2.1, h3], by rw [hf.2.2, h4]⟩

theorem relevantFold_trace (p : Params) (own : Own) (bm : BlockMeta) :
    ∀ (recs : List TxRec) (sb r : Store × Bals),
      recs.foldlM (fun (sb : Store × Bals) tr => addRelevantMined p own sb.1 sb.2 tr bm) sb = .ok r →
      (∀ tr ∈ recs, AMap.get sb.1.txrecs (tr.tx.id, bm) = none) →
      (recs.map (·.tx.id)).Nodup →
      ConfReach own recs sb.1 r.1 := by
  intro recs
  induction recs with
  | nil =>
    intro sb r h _ _
    simp only [List.foldlM, pure, Except.pure, Except.ok.injEq] at h
    rw [← h]; exact ConfReach.nil
  | cons tr rest ih =>
    intro sb r h hno hnd
    simp only [List.foldlM, bind, Except.bind] at h
    cases hf : addRelevantMined p own sb.1 sb.2 tr bm with
    | error e => rw [hf] at h; cases h
    | ok sb' =>
      rw [hf] at h
      obtain ⟨s1, h1, h2, h3, h4, h5⟩ := addRelevantMined_trace p own sb.1 sb'.1 sb.2 sb'.2 tr bm hf
        (hno tr (List.mem_cons_self ..))
      rw [List.map_cons, List.nodup_cons] at hnd
      have hrest : ConfReach own rest sb'.1 r.1 := by
        refine ih sb' r h ?_ hnd.2
        intro tr' htr'
        rw [h5, AMap.get_put]
        have hne : ¬ (tr.tx.id, bm) = (tr'.tx.id, bm) := by
          intro he
          have : tr.tx.id = tr'.tx.id := (Prod.mk.inj he).1
          exact hnd.1 (this ▸ List.mem_map.2 ⟨tr', htr', rfl⟩)
        rw [if_neg hne]
        exact hno tr' (List.mem_cons_of_mem _ htr')
      exact ConfReach.silent h1 h2 (ConfReach.conf (ConfReach.silent h3 h4 hrest))

-- ------------------------------------------------------------------ (d) applyRelevant, putSyncedTo, filterBlock

theorem applyRelevant_trace (c : Ctx) (s s' : Store) (ready : List Wid) (bm : BlockMeta) (recs : List TxRec)
    (h : applyRelevant c s ready bm recs = .ok s')
    (hno : ∀ tr ∈ recs, AMap.get s.txrecs (tr.tx.id, bm) = none) (hnd : (recs.map (·.tx.id)).Nodup) :
    ConfReach c.own recs s s' := by
  unfold applyRelevant at h
  split at h
  · rename_i he
    cases h
    rw [List.isEmpty_iff] at he
    rw [he]; exact ConfReach.nil
  · simp only [bind, Except.bind, pure, Except.pure] at h
    split at h
    · cases h
    · rename_i r hr
      cases h
      exact (relevantFold_trace c.p c.own bm recs _ r hr hno hnd).snoc_silent rfl rfl

theorem putSyncedTo_pend (s s' : Store) (blk : BlockMeta) (h : putSyncedTo s blk = .ok s') :
    s'.pending = s.pending ∧ s'.pendIns = s.pendIns := by
  unfold putSyncedTo at h
  simp only [throw, throwThe, MonadExceptOf.throw, pure, Except.pure] at h
  repeat' split at h
  all_goals first | (cases h; done) | (cases h; exact ⟨rfl, rfl⟩)

/-- **the pending-side trace of connecting one block** (at least one ready wallet; no record of the block's
    transactions at this block yet; distinct ids within the block): the records found by the first loop confirm
    in order, interleaved with silent steps, then the irrelevant transactions purge their double spends -/
theorem filterBlock_trace (c : Ctx) (s s' : Store) (ready : List Wid) (b : Block) (conf : List TxId)
    (h : filterBlock c s ready b = .ok (s', conf)) (hne : ready.isEmpty = false)
    (hnorec : ∀ u ∈ b.txs, AMap.get s.txrecs (u.id, ⟨b.height, b.id⟩) = none)
    (hbnd : (b.txs.map (·.id)).Nodup) :
    ∃ recs s1, filterTxs c s ready b.id b.txs [] 0 [] = .ok recs ∧
      (recs.map (·.tx)).Sublist b.txs ∧
      ConfReach c.own recs s s1 ∧
      s'.pending = (purgeUnrelated c.own s1 (unrelatedTxs b.txs recs)).pending ∧
      s'.pendIns = (purgeUnrelated c.own s1 (unrelatedTxs b.txs recs)).pendIns := by
  unfold filterBlock at h
  simp only [throw, throwThe, MonadExceptOf.throw] at h
  split at h
  · cases h
  · split at h
    · cases h
    · simp only [hne, Bool.false_eq_true, if_false, bind, Except.bind] at h
      cases hf : filterTxs c s ready b.id b.txs [] 0 [] with
      | error e => rw [hf] at h; cases h
      | ok recs =>
        rw [hf] at h
        simp only at h
        obtain ⟨recs', hr, hsub⟩ := filterTxs_sublist c s ready b.id b.txs [] 0 [] recs hf
        rw [List.nil_append] at hr
        subst hr
        cases ha : applyRelevant c s ready ⟨b.height, b.id⟩ recs with
        | error e => rw [ha] at h; cases h
        | ok s1 =>
          rw [ha] at h
          simp only at h
          cases hp : putSyncedTo (purgeUnrelated c.own s1 (unrelatedTxs b.txs recs)) ⟨b.height, b.id⟩ with
          | error e => rw [hp] at h; cases h
          | ok s2 =>
            rw [hp] at h
            simp only [pure, Except.pure, Except.ok.injEq, Prod.mk.injEq] at h
            obtain ⟨hs2, _⟩ := h
            subst hs2
            have hnd : (recs.map (·.tx.id)).Nodup := by
              have : recs.map (·.tx.id) = (recs.map (·.tx)).map (·.id) := by rw [List.map_map]; rfl
              rw [this]
              exact (hsub.map (·.id)).nodup hbnd
            have hno : ∀ tr ∈ recs, AMap.get s.txrecs (tr.tx.id, ⟨b.height, b.id⟩) = none :=
              fun tr htr => hnorec tr.tx (hsub.subset (List.mem_map.2 ⟨tr, htr, rfl⟩))
            obtain ⟨q1, q2⟩ := putSyncedTo_pend _ _ _ hp
            exact ⟨recs, s1, rfl, hsub, applyRelevant_trace c s s1 ready _ recs ha hno hnd, q1, q2⟩

-- ------------------------------------------------------------------ GOAL 2: the structural trace of a notification

/-- reached by disconnecting blocks (any heights) -/
inductive DReach (c : Ctx) : Store → Store → Prop
  | refl {s : Store} : DReach c s s
  | step {s s1 s' : Store} (h : Nat) : disconnectBlock c s h = .ok s1 → DReach c s1 s' → DReach c s s'

/-- reached by connecting blocks with the ready set `ready` -/
inductive CReach (c : Ctx) (ready : List Wid) : Store → Store → Prop
  | refl {s : Store} : CReach c ready s s
  | step {s s1 s' : Store} (b : Block) (conf : List TxId) : filterBlock c s ready b = .ok (s1, conf) →
      CReach c ready s1 s' → CReach c ready s s'

/-- reflexive-transitive closure of the follower's block-level steps: disconnect a block (any height),
    connect a block (any block, any ready set) -/
inductive BReach (c : Ctx) : Store → Store → Prop
  | refl {s : Store} : BReach c s s
  | disc {s s1 s' : Store} (h : Nat) : disconnectBlock c s h = .ok s1 → BReach c s1 s' → BReach c s s'
  | conn {s s1 s' : Store} (ready : List Wid) (b : Block) (conf : List TxId) :
      filterBlock c s ready b = .ok (s1, conf) → BReach c s1 s' → BReach c s s'

theorem DReach.trans {c : Ctx} {s s' s'' : Store} (h : DReach c s s') (h' : DReach c s' s'') : DReach c s s'' := by
  induction h with
  | refl => exact h'
  | step n hd _ ih => exact DReach.step n hd (ih h')

theorem DReach.snoc {c : Ctx} {s s' s'' : Store} (h : DReach c s s') (n : Nat)
    (hd : disconnectBlock c s' n = .ok s'') : DReach c s s'' := h.trans (DReach.step n hd DReach.refl)

theorem BReach.trans {c : Ctx} {s s' s'' : Store} (h : BReach c s s') (h' : BReach c s' s'') : BReach c s s'' := by
  induction h with
  | refl => exact h'
  | disc n hd _ ih => exact BReach.disc n hd (ih h')
  | conn r b cf hf _ ih => exact BReach.conn r b cf hf (ih h')

theorem DReach.toB {c : Ctx} {s s' : Store} (h : DReach c s s') : BReach c s s' := by
  induction h with
  | refl => exact BReach.refl
  | step n hd _ ih => exact BReach.disc n hd ih

theorem CReach.toB {c : Ctx} {ready : List Wid} {s s' : Store} (h : CReach c ready s s') : BReach c s s' := by
  induction h with
  | refl => exact BReach.refl
  | step b cf hf _ ih => exact BReach.conn ready b cf hf ih

theorem disconnectDown_reach (c : Ctx) (nbH : Nat) :
    ∀ (fuel : Nat) (s : Store) (curH : Nat) (rolled : List Nat) (r : Store × Nat × List Nat),
      disconnectDown c nbH fuel s curH rolled = .ok r → DReach c s r.1 := by
  intro fuel
  induction fuel with
  | zero =>
    intro s curH rolled r h
    simp only [disconnectDown, pure, Except.pure, Except.ok.injEq] at h
    rw [← h]; exact DReach.refl
  | succ fuel ih =>
    intro s curH rolled r h
    simp only [disconnectDown] at h
    split at h
    · simp only [bind, Except.bind] at h
      cases hd : disconnectBlock c s curH with
      | error e => rw [hd] at h; cases h
      | ok s1 =>
        rw [hd] at h
        exact DReach.step curH hd (ih _ _ _ _ h)
    · simp only [pure, Except.pure, Except.ok.injEq] at h
      rw [← h]; exact DReach.refl

theorem walkBack_reach (c : Ctx) :
    ∀ (fuel : Nat) (w w' : Walk) (d : Bool), walkBack c fuel w = .ok (w', d) → DReach c w.s w'.s := by
  intro fuel
  induction fuel with
  | zero =>
    intro w w' d h
    simp only [walkBack, pure, Except.pure, Except.ok.injEq, Prod.mk.injEq] at h
    rw [← h.1]; exact DReach.refl
  | succ fuel ih =>
    intro w w' d h
    simp only [walkBack] at h
    split at h
    · simp only [bind, Except.bind, throw, throwThe, MonadExceptOf.throw] at h
      cases hd : disconnectBlock c w.s (w.prevH + 1) with
      | error e => rw [hd] at h; cases h
      | ok s1 =>
        rw [hd] at h
        simp only at h
        split at h
        · cases h
        · split at h
          · cases h
          · split at h
            · cases h
            · exact DReach.step _ hd (ih _ _ _ h)
    · simp only [pure, Except.pure, Except.ok.injEq, Prod.mk.injEq] at h
      rw [← h.1]; exact DReach.refl

theorem connectAll_reach (c : Ctx) (ready : List Wid) :
    ∀ (bs : List Block) (s : Store) (added : List (Nat × List TxId)) (r : Store × List (Nat × List TxId)),
      connectAll c ready bs s added = .ok r → CReach c ready s r.1 := by
  intro bs
  induction bs with
  | nil =>
    intro s added r h
    simp only [connectAll, pure, Except.pure, Except.ok.injEq] at h
    rw [← h]; exact CReach.refl
  | cons b rest ih =>
    intro s added r h
    simp only [connectAll, bind, Except.bind] at h
    cases hf : filterBlock c s ready b with
    | error e => rw [hf] at h; cases h
    | ok sc =>
      rw [hf] at h
      obtain ⟨s1, cf⟩ := sc
      exact CReach.step b cf hf (ih _ _ _ h)

theorem reorgDisconnect_reach (c : Ctx) (s : Store) (best : BlockMeta) (nb : Block) (tc : List Block)
    (r : Store × List Nat × List Block) (h : reorgDisconnect c s best nb tc = .ok r) : DReach c s r.1 := by
  unfold reorgDisconnect at h
  split at h
  · simp only [pure, Except.pure, Except.ok.injEq] at h
    rw [← h]; exact DReach.refl
  · simp only [bind, Except.bind, throw, throwThe, MonadExceptOf.throw] at h
    cases hd : disconnectDown c nb.height (best.height + 1) s best.height [] with
    | error e => rw [hd] at h; cases h
    | ok r1 =>
      rw [hd] at h
      obtain ⟨s1, curH, rolled⟩ := r1
      have hr1 : DReach c s s1 := disconnectDown_reach c _ _ _ _ _ _ hd
      simp only at h
      split at h
      · cases h
      · split at h
        · simp only [pure, Except.pure, Except.ok.injEq] at h
          rw [← h]; exact hr1
        · split at h
          · cases h
          · split at h
            · cases h
            · rename_i ph hph
              cases hw : walkBack c (best.height + 2)
                  { s := s1, prevH := curH - 1, prevHash := ph, tail := nb, tc := tc, rolled := rolled } with
              | error e => rw [hw] at h; cases h
              | ok wd =>
                rw [hw] at h
                obtain ⟨w, d⟩ := wd
                have hr2 : DReach c s1 w.s := walkBack_reach c _ _ _ _ hw
                simp only at h
                split at h
                · cases h
                · cases hd2 : disconnectBlock c w.s (w.prevH + 1) with
                  | error e => rw [hd2] at h; cases h
                  | ok s3 =>
                    rw [hd2] at h
                    simp only [pure, Except.pure, Except.ok.injEq] at h
                    rw [← h]
                    exact (hr1.trans hr2).snoc _ hd2

theorem reorg_reach (c : Ctx) (s : Store) (best : BlockMeta) (newBest : Block)
    (r : Store × List Nat × List (Nat × List TxId)) (h : reorg c s best newBest = .ok r) :
    ∃ sm, DReach c s sm ∧ CReach c (readyWallets sm c.wallets) sm r.1 := by
  unfold reorg at h
  simp only [bind, Except.bind] at h
  cases ha : alignNew c best.height (newBest.height + 1) newBest [] with
  | error e => rw [ha] at h; cases h
  | ok a =>
    rw [ha] at h
    obtain ⟨nb, tc⟩ := a
    simp only at h
    cases hd : reorgDisconnect c s best nb tc with
    | error e => rw [hd] at h; cases h
    | ok d =>
      rw [hd] at h
      obtain ⟨sm, rolled, tc'⟩ := d
      simp only at h
      cases hc : connectAll c (readyWallets sm c.wallets) tc' sm [] with
      | error e => rw [hc] at h; cases h
      | ok cr =>
        rw [hc] at h
        obtain ⟨s2, added⟩ := cr
        simp only [pure, Except.pure, Except.ok.injEq] at h
        rw [← h]
        exact ⟨sm, reorgDisconnect_reach c s best nb tc _ hd, connectAll_reach c _ _ _ _ _ hc⟩

/-- the database transaction of processConnectedBlock -/
def processResult (c : Ctx) (s : Store) (v : Vol) (b : Block) : M (Store × List Nat × List (Nat × List TxId)) :=
  if b.prev = v.best.hash then do
    let ready := readyWallets s c.wallets
    let (s', conf) ← filterBlock c s ready b
    pure (s', [], [(b.height, conf)])
  else reorg c s v.best b

theorem processBlock_ok (c : Ctx) (s s' : Store) (v v' : Vol) (b : Block)
    (h : processBlock c s v b = (s', v', true)) : ∃ rolled added, processResult c s v b = .ok (s', rolled, added) := by
  unfold processBlock at h
  simp only at h
  unfold processResult
  split at h
  · simp only [Prod.mk.injEq, Bool.false_eq_true, and_false] at h
  · rename_i s2 rolled added hr
    simp only [Prod.mk.injEq] at h
    rw [← h.1]
    exact ⟨rolled, added, hr⟩

/-- **a successful tip notification = disconnects (down to the fork point), then connects with the ready set
    read at the fork point** (direct extension: no disconnect, one connect) -/
theorem processBlock_trace_dc (c : Ctx) (s s' : Store) (v v' : Vol) (b : Block)
    (h : processBlock c s v b = (s', v', true)) :
    ∃ sm, DReach c s sm ∧ CReach c (readyWallets sm c.wallets) sm s' := by
  obtain ⟨rolled, added, hr⟩ := processBlock_ok c s s' v v' b h
  unfold processResult at hr
  split at hr
  · simp only [bind, Except.bind] at hr
    cases hf : filterBlock c s (readyWallets s c.wallets) b with
    | error e => rw [hf] at hr; cases hr
    | ok sc =>
      rw [hf] at hr
      obtain ⟨s1, cf⟩ := sc
      simp only [pure, Except.pure, Except.ok.injEq, Prod.mk.injEq] at hr
      rw [← hr.1]
      exact ⟨s, DReach.refl, CReach.step b cf hf CReach.refl⟩
  · exact reorg_reach c s v.best b _ hr

theorem processBlock_trace (c : Ctx) (s s' : Store) (v v' : Vol) (b : Block)
    (h : processBlock c s v b = (s', v', true)) : BReach c s s' := by
  obtain ⟨sm, h1, h2⟩ := processBlock_trace_dc c s s' v v' b h
  exact h1.toB.trans h2.toB

end MW.Lemmas.PendHist
