/-
  C09 history-level refinement, Round 7: THE FOLLOWER'S SEEN-SET AS STATE.

  `RecvDom` / `RecvDomC` carry two per-step hypotheses about the volatile seen-set `Vol.mempool` of the follower:
    seen   a delivered transaction whose id is in the seen-set is pending or confirmed (no re-delivery of a vanished one)
    fresh  a delivered transaction that is neither seen nor pending is not on the wallet's chain
  Here the seen-set is tracked as STATE of the history world.  The naive state invariant "seen ⊆ pending ∪ confirmed"
  is FALSE of the model (and of the code): `recvTx` inserts the id of every transaction it accepts, and nothing removes
  the id when the transaction is purged by a conflict (only a restart or 1024 blocks do), so the invariant breaks at
  every conflict purge.  The world therefore carries a GHOST component `dead` = the ids that left "pending ∪ confirmed"
  along the history (`vanished`), and the invariant is

      SeenSt   seen ⊆ pending ∪ confirmed ∪ dead

  maintained by every event (`seen_step`; receive: an id enters the seen-set only together with its pending record;
  connect / disconnect: `v` is untouched and what leaves pending ∪ confirmed enters `dead`; a volatile change must
  produce a seen-set inside the invariant — a restart (empty set) always does).  The receive domain `RecvDomS` has NO
  clause about the seen-set of the implementation except
      alive  the node does not re-deliver a transaction that VANISHED and is still in the seen-set
  (ghost state + seen-set; the generator's `markDead`), from which `seen` follows by the invariant.  `fresh` is not a
  property of the seen-set at all (after a restart the set is empty and every state invariant about it holds
  trivially — witness corpus-candidates/C09-redeliver-confirmed-after-restart.ops); it stays, as the statement about the
  delivered transaction it is (`conf`: a delivered transaction that is on the wallet's chain has been seen).

  `hoks_run`: a history inside `HOKS` from a world with `HInvC` and `SeenSt` is, projected, inside `HOKf`;
  `hokf_embeds`: conversely every history inside the old domain `HOKf` WITHOUT volatile events is inside `HOKS`
  (for any ghost set, in particular `dead = []`), so the old theorems are the new ones for those histories.
-/
import MW.Lemmas.PendHistCredRollback
namespace MW.Lemmas.PendHist.Seen
open MW MW.Model.Ledger MW.Spec.Pending MW.Lemmas.LedgerPending MW.Lemmas.Ledger MW.Lemmas.PendHist.Cred
  MW.Lemmas.PendHist.CredRb

/-- the history world with the ghost set of vanished ids -/
structure HWS where
  w : HW
  dead : List TxId

/-- the ids that were pending or confirmed in `w` and are neither in `w'` -/
def vanished (w w' : HW) : List TxId :=
  (w.sp.pend.map (·.id) ++ (w.sp.chain.flatMap (·.txs)).map (·.id)).filter
    (fun id => !hasId w'.sp.pend id && !onChain w'.sp.chain id)

def stepS (E : HEnv) (x : HWS) (ev : HEv) : HWS :=
  { w := stepH E x.w ev, dead := x.dead ++ vanished x.w (stepH E x.w ev) }

def runS (E : HEnv) (x : HWS) (evs : List HEv) : HWS := evs.foldl (stepS E) x

def worldsS (E : HEnv) (x : HWS) : List HEv → List (HWS × HEv)
  | [] => []
  | ev :: evs => (x, ev) :: worldsS E (stepS E x ev) evs

/-- what a seen-set may contain in the world `x` -/
def SeenOK (x : HWS) (mem : List TxId) : Prop :=
  ∀ id, mem.contains id = true → hasId x.w.sp.pend id = true ∨ onChain x.w.sp.chain id = true ∨ id ∈ x.dead

/-- THE STATE INVARIANT of the seen-set -/
def SeenSt (x : HWS) : Prop := SeenOK x x.w.v.mempool

/-- DOMAIN of a receive step over the world with the seen-set as state: `RecvDomC` without `seen`; `alive` and `conf`
    are statements about the delivered transaction -/
structure RecvDomS (rank : TxId → Nat) (E : HEnv) (x : HWS) (t : Tx) : Prop where
  valid : ChainValid E.own x.w.sp.chain
  known : E.src t.id = some t
  srcN : ∀ i ∈ t.ins, ∀ p, x.w.node.fetchTx i.tx = some p → E.src i.tx = some p
  idx : ∀ i ∈ t.ins, ∀ p, E.src i.tx = some p → i.idx < p.outs.length
  rank : ∀ i ∈ t.ins, rank i.tx < rank t.id
  nobb : filterTxRel (E.ctx x.w.node) x.w.s t false [] (readyWallets x.w.s E.wallets) ≠ .error .bothBinding
  /-- no re-delivery of a transaction that vanished while the follower still remembers it -/
  alive : t.id ∈ x.dead → x.w.v.mempool.contains t.id = true →
    hasId x.w.sp.pend t.id = true ∨ onChain x.w.sp.chain t.id = true
  /-- a delivered transaction that is confirmed on the wallet's chain has been seen -/
  conf : onChain x.w.sp.chain t.id = true → x.w.v.mempool.contains t.id = true
  noconf : conflictedBy x.w.sp.chain t = false

/-- DOMAIN of an event over the world with the seen-set as state -/
def HOKS (rank : TxId → Nat) (E : HEnv) (x : HWS) : HEv → Prop
  | .recv t => RecvDomS rank E x t
  | .vol v => SeenOK x v.mempool
  | ev => HOK rank E x.w ev

theorem RecvDomS.toC {rank : TxId → Nat} {E : HEnv} {x : HWS} {t : Tx} (hs : SeenSt x) (D : RecvDomS rank E x t) :
    RecvDomC rank E x.w t := by
  refine ⟨D.valid, D.known, D.srcN, D.idx, D.rank, D.nobb, ?_, ?_, D.noconf⟩
  · intro hm
    rcases hs t.id hm with h | h | h
    · exact Or.inl h
    · exact Or.inr h
    · exact D.alive h hm
  · intro hm _
    cases hc : onChain x.w.sp.chain t.id with
    | false => rfl
    | true => rw [D.conf hc] at hm; cases hm

theorem RecvDomS.ofC {rank : TxId → Nat} {E : HEnv} {x : HWS} {t : Tx} (H : HInv rank E x.w)
    (D : RecvDomC rank E x.w t) : RecvDomS rank E x t := by
  refine ⟨D.valid, D.known, D.srcN, D.idx, D.rank, D.nobb, fun _ hm => D.seen hm, ?_, D.noconf⟩
  intro hc
  cases hm : x.w.v.mempool.contains t.id with
  | true => rfl
  | false =>
    cases hp : hasId x.w.sp.pend t.id with
    | false => rw [D.fresh hm hp] at hc; cases hc
    | true =>
      obtain ⟨u, hu, hid⟩ := (hasId_iff _ _).1 hp
      have := (H.cons u hu).1
      rw [hid, hc] at this; cases this

theorem HOKS.toF {rank : TxId → Nat} {E : HEnv} {x : HWS} (hs : SeenSt x) {ev : HEv} (D : HOKS rank E x ev) :
    HOKf rank E x.w ev := by
  cases ev with
  | node n => exact D
  | vol v => exact trivial
  | recv t => exact RecvDomS.toC hs D
  | connect b => exact D
  | disconnect => exact D

-- ------------------------------------------------------------------ the invariant is maintained

/-- what was pending, confirmed or dead is pending, confirmed or dead after ANY step of the world -/
theorem carry (x : HWS) (w' : HW) (id : TxId)
    (h : hasId x.w.sp.pend id = true ∨ onChain x.w.sp.chain id = true ∨ id ∈ x.dead) :
    hasId w'.sp.pend id = true ∨ onChain w'.sp.chain id = true ∨ id ∈ x.dead ++ vanished x.w w' := by
  cases h1 : hasId w'.sp.pend id with
  | true => exact Or.inl rfl
  | false =>
    cases h2 : onChain w'.sp.chain id with
    | true => exact Or.inr (Or.inl rfl)
    | false =>
      refine Or.inr (Or.inr (List.mem_append.2 ?_))
      rcases h with h | h | h
      · right
        obtain ⟨t, ht, hid⟩ := (hasId_iff _ _).1 h
        unfold vanished
        refine List.mem_filter.2 ⟨List.mem_append_left _ (List.mem_map.2 ⟨t, ht, hid⟩), ?_⟩
        rw [h1, h2]; rfl
      · right
        obtain ⟨b, hb, t, ht, hid⟩ := (onChain_iff _ _).1 h
        unfold vanished
        refine List.mem_filter.2 ⟨List.mem_append_right _ (List.mem_map.2
          ⟨t, List.mem_flatMap.2 ⟨b, hb, ht⟩, hid⟩), ?_⟩
        rw [h1, h2]; rfl
      · exact Or.inl h

/-- `recvTx` inserts an id into the seen-set only together with the pending record -/
theorem recvTx_seen (c : Ctx) (s : Store) (v : Vol) (t : Tx) :
    (recvTx c s v t).2.1 = v ∨
    ((recvTx c s v t).2.1.mempool = v.mempool ++ [t.id] ∧
      (AMap.get (recvTx c s v t).1.pending t.id).isSome = true) := by
  by_cases hm : v.mempool.contains t.id = true
  · left; unfold recvTx; rw [if_pos hm]
  · cases hf : filterTxRel c s t false [] (readyWallets s c.wallets) with
    | error e => left; unfold recvTx; rw [if_neg hm]; simp only [hf]
    | ok r =>
      cases r with
      | none => left; unfold recvTx; rw [if_neg hm]; simp only [hf]
      | some tr =>
        have htx := filterTxRel_tx c s t false [] _ tr hf
        cases ha : addRelevantUnmined s tr with
        | error e => left; unfold recvTx; rw [if_neg hm]; simp only [hf, ha]
        | ok s' =>
          have e1 : recvTx c s v t = (s', { v with mempool := v.mempool ++ [t.id] }, true) := by
            unfold recvTx; rw [if_neg hm]; simp only [hf, ha]
          rw [e1]
          refine Or.inr ⟨rfl, ?_⟩
          show (AMap.get s'.pending t.id).isSome = true
          cases hp : AMap.get s.pending tr.tx.id with
          | none =>
            rw [(addRelevantUnmined_new s s' tr ha hp).1, AMap.get_put, htx, if_pos rfl]; rfl
          | some u =>
            rw [(addRelevantUnmined_old s s' tr ha (by rw [hp]; rfl)).1, ← htx, hp]; rfl

theorem stepH_vol_of_not_recv (E : HEnv) (w : HW) (ev : HEv) (h1 : ∀ t, ev ≠ .recv t) (h2 : ∀ v, ev ≠ .vol v) :
    (stepH E w ev).v = w.v := by
  cases ev with
  | node n => rfl
  | vol v => exact absurd rfl (h2 v)
  | recv t => exact absurd rfl (h1 t)
  | connect b =>
    cases h : filterBlock (E.ctx w.node) w.s (readyWallets w.s E.wallets) b <;> simp only [stepH, h]
  | disconnect =>
    cases h : w.sp.chain.getLast? with
    | none => simp only [stepH, h]
    | some b =>
      cases h' : disconnectBlock (E.ctx w.node) w.s b.height <;> simp only [stepH, h, h']

/-- EVERY EVENT inside the domain maintains the seen-set invariant -/
theorem seen_step {rank : TxId → Nat} {E : HEnv} {x : HWS} (H : HInvC rank E x.w) (hs : SeenSt x) (ev : HEv)
    (D : HOKS rank E x ev) : SeenSt (stepS E x ev) := by
  have keep : ∀ ev', (stepH E x.w ev').v = x.w.v → SeenSt (stepS E x ev') := by
    intro ev' hv id hm
    have hm' : x.w.v.mempool.contains id = true := by
      have : (stepS E x ev').w.v = x.w.v := hv
      rw [this] at hm; exact hm
    exact carry x (stepH E x.w ev') id (hs id hm')
  cases ev with
  | node n => exact keep _ rfl
  | connect b => exact keep _ (stepH_vol_of_not_recv E x.w _ (fun _ h => by cases h) (fun _ h => by cases h))
  | disconnect => exact keep _ (stepH_vol_of_not_recv E x.w _ (fun _ h => by cases h) (fun _ h => by cases h))
  | vol v =>
    intro id hm
    exact carry x (stepH E x.w (.vol v)) id (D id hm)
  | recv t =>
    have H' := hinvc_step_full H (.recv t) (RecvDomS.toC hs D)
    rcases recvTx_seen (E.ctx x.w.node) x.w.s x.w.v t with h | ⟨h1, h2⟩
    · exact keep _ h
    · intro id hm
      have hm' : (x.w.v.mempool ++ [t.id]).contains id = true := by
        have : (stepS E x (.recv t)).w.v.mempool = x.w.v.mempool ++ [t.id] := h1
        rw [this] at hm; exact hm
      rw [List.contains_eq_mem, decide_eq_true_eq, List.mem_append] at hm'
      rcases hm' with hm' | hm'
      · exact carry x (stepH E x.w (.recv t)) id (hs id (by rw [List.contains_eq_mem, decide_eq_true_eq]; exact hm'))
      · rw [List.mem_singleton] at hm'
        subst hm'
        refine Or.inl ?_
        show hasId (stepH E x.w (.recv t)).sp.pend t.id = true
        rw [H'.inv.rel.hasId]
        exact h2

theorem runS_w (E : HEnv) : ∀ (evs : List HEv) (x : HWS), (runS E x evs).w = runH E x.w evs := by
  intro evs
  induction evs with
  | nil => intro x; rfl
  | cons ev evs ih => intro x; exact ih (stepS E x ev)

/-- THE HISTORY THEOREM over the world with the seen-set as state: along every history inside `HOKS`, `HInvC` and the
    seen-set invariant hold, and the projected history is inside the domain `HOKf` of `credit_refines` -/
theorem hoks_run {rank : TxId → Nat} {E : HEnv} : ∀ (evs : List HEv) (x : HWS), HInvC rank E x.w → SeenSt x →
    (∀ y ∈ worldsS E x evs, HOKS rank E y.1 y.2) →
    HInvC rank E (runS E x evs).w ∧ SeenSt (runS E x evs) ∧ ∀ y ∈ worldsH E x.w evs, HOKf rank E y.1 y.2 := by
  intro evs
  induction evs with
  | nil => intro x H hs _; exact ⟨H, hs, fun y hy => by cases hy⟩
  | cons ev evs ih =>
    intro x H hs hD
    have D0 := hD (x, ev) (by simp [worldsS])
    have H1 : HInvC rank E (stepS E x ev).w := hinvc_step_full H ev (D0.toF hs)
    obtain ⟨a, b, c⟩ := ih (stepS E x ev) H1 (seen_step H hs ev D0) (fun y hy => hD y (by simp [worldsS, hy]))
    refine ⟨a, b, fun y hy => ?_⟩
    simp only [worldsH, List.mem_cons] at hy
    rcases hy with rfl | hy
    · exact D0.toF hs
    · exact c y hy

/-- CONVERSELY: a history inside the old domain `HOKf` whose volatile events keep the seen-set inside the invariant
    is inside `HOKS` (for any ghost set) — the per-step `seen` gives `alive`, `fresh` gives `conf` -/
theorem hokf_embeds {rank : TxId → Nat} {E : HEnv} : ∀ (evs : List HEv) (x : HWS), HInvC rank E x.w →
    (∀ y ∈ worldsH E x.w evs, HOKf rank E y.1 y.2) →
    (∀ y ∈ worldsS E x evs, ∀ v, y.2 = .vol v → SeenOK y.1 v.mempool) →
    ∀ y ∈ worldsS E x evs, HOKS rank E y.1 y.2 := by
  intro evs
  induction evs with
  | nil => intro x _ _ _ y hy; cases hy
  | cons ev evs ih =>
    intro x H hD hV y hy
    have D0 := hD (x.w, ev) (by simp [worldsH])
    simp only [worldsS, List.mem_cons] at hy
    rcases hy with rfl | hy
    · cases ev with
      | node n => exact D0
      | vol v => exact hV (x, .vol v) (by simp [worldsS]) v rfl
      | recv t => exact RecvDomS.ofC H.inv D0
      | connect b => exact D0
      | disconnect => exact D0
    · exact ih (stepS E x ev) (hinvc_step_full H ev D0) (fun z hz => hD z (by simp only [worldsH, List.mem_cons]; exact Or.inr hz))
        (fun z hz => hV z (by simp only [worldsS, List.mem_cons]; exact Or.inr hz)) y hy

theorem worldsS_ev (E : HEnv) : ∀ (evs : List HEv) (x : HWS), ∀ y ∈ worldsS E x evs, y.2 ∈ evs := by
  intro evs
  induction evs with
  | nil => intro x y hy; cases hy
  | cons ev evs ih =>
    intro x y hy
    simp only [worldsS, List.mem_cons] at hy
    rcases hy with rfl | hy
    · exact List.mem_cons_self
    · exact List.mem_cons_of_mem _ (ih _ y hy)

/-- a history of the old domain without volatile events is inside the new one, whatever the ghost set -/
theorem hokf_embeds_novol {rank : TxId → Nat} {E : HEnv} (evs : List HEv) (x : HWS) (H : HInvC rank E x.w)
    (hD : ∀ y ∈ worldsH E x.w evs, HOKf rank E y.1 y.2) (hnv : ∀ ev ∈ evs, ∀ v, ev ≠ .vol v) :
    ∀ y ∈ worldsS E x evs, HOKS rank E y.1 y.2 :=
  hokf_embeds evs x H hD (fun y hy v hv => absurd hv (hnv y.2 (worldsS_ev E evs x y hy) v))

/-- a world whose follower has just (re)started satisfies the seen-set invariant -/
theorem seenSt_restart (x : HWS) (h : x.w.v.mempool = []) : SeenSt x := by
  intro id hm
  rw [h] at hm
  cases hm

-- ------------------------------------------------------------------ the old theorems are corollaries, in general

/-- the ghost set only grows along a history -/
theorem dead_mono (E : HEnv) : ∀ (evs : List HEv) (x : HWS), ∀ y ∈ worldsS E x evs, ∀ id ∈ x.dead, id ∈ y.1.dead := by
  intro evs
  induction evs with
  | nil => intro x y hy; cases hy
  | cons ev evs ih =>
    intro x y hy id hid
    simp only [worldsS, List.mem_cons] at hy
    rcases hy with rfl | hy
    · exact hid
    · exact ih (stepS E x ev) y hy id (List.mem_append_left _ hid)

/-- the seen-sets a history installs by volatile events -/
def volIds : List HEv → List TxId
  | [] => []
  | .vol v :: evs => v.mempool ++ volIds evs
  | _ :: evs => volIds evs

theorem mem_volIds {evs : List HEv} {v : Vol} (h : HEv.vol v ∈ evs) {id : TxId} (hid : id ∈ v.mempool) :
    id ∈ volIds evs := by
  induction evs with
  | nil => cases h
  | cons ev evs ih =>
    rcases List.mem_cons.1 h with h1 | h1
    · subst h1; exact List.mem_append_left _ hid
    · cases ev with
      | vol v' => exact List.mem_append_right _ (ih h1)
      | node n => exact ih h1
      | recv t => exact ih h1
      | connect b => exact ih h1
      | disconnect => exact ih h1

/-- the ghost set that makes ANY history of the old domain a history of the new one: what the follower remembers at the
    start and what the volatile events of the history install -/
def ghost0 (w : HW) (evs : List HEv) : HWS := { w := w, dead := w.v.mempool ++ volIds evs }

theorem seenSt_ghost0 (w : HW) (evs : List HEv) : SeenSt (ghost0 w evs) := by
  intro id hm
  refine Or.inr (Or.inr (List.mem_append_left _ ?_))
  rw [List.contains_eq_mem, decide_eq_true_eq] at hm
  exact hm

/-- **EVERY history inside the old domain `HOKf` is inside `HOKS`** over the world with the ghost set `ghost0`; the world
    satisfies the seen-set invariant at the start.  So `credit_refines` / `pending_refines` ARE corollaries of
    `pending_refines_seen` (`runS_w`: same model and specification components). -/
theorem hokf_embeds_all {rank : TxId → Nat} {E : HEnv} (evs : List HEv) (w : HW) (H : HInvC rank E w)
    (hD : ∀ y ∈ worldsH E w evs, HOKf rank E y.1 y.2) :
    SeenSt (ghost0 w evs) ∧ ∀ y ∈ worldsS E (ghost0 w evs) evs, HOKS rank E y.1 y.2 := by
  refine ⟨seenSt_ghost0 w evs, hokf_embeds evs (ghost0 w evs) H hD ?_⟩
  intro y hy v hv id hm
  refine Or.inr (Or.inr (dead_mono E evs (ghost0 w evs) y hy id (List.mem_append_right _ ?_)))
  rw [List.contains_eq_mem, decide_eq_true_eq] at hm
  exact mem_volIds (hv ▸ worldsS_ev E evs (ghost0 w evs) y hy) hm

end MW.Lemmas.PendHist.Seen
