/-
  The symbolic keystore model as an abstraction of the byte level, part 8: every key of every reachable symbolic database
  has a byte location of its own (`KeyOk`: account 1, branch / index below 2^32) when the restore hints of the history
  are uint32 values – so every reachable state HAS a representing byte tree.  (Induction over operations, with the
  counters of wallet records and exported files bounded alongside.)
-/
import MW.Lemmas.KsRefineShape
namespace MW.KsRefine
open MW MW.Model.Secrets MW.Model.KsBytes MW.Lemmas.SecretsInv

def DbK (db : DB) : Prop := ∀ e ∈ db, KeyOk e.1.2
def WalB (wal : AMap.T String (WRec × AM)) : Prop := ∀ e ∈ wal, e.2.1.nExt ≤ 4294967296 ∧ e.2.1.nInt ≤ 4294967296
def ExB (ex : AMap.T String Export) : Prop := ∀ e ∈ ex, e.2.nExt ≤ 4294967296 ∧ e.2.nInt ≤ 4294967296
def BoundOk (st : St) : Prop := DbK st.db ∧ WalB st.wal ∧ ExB st.exports

/-- the restore hints an API caller can pass are uint32 values -/
def OpOk : Op → Prop
  | .importMn _ _ _ ext int => ext ≤ 4294967296 ∧ int ≤ 4294967296
  | _ => True

theorem dbK_put {db : DB} {k : Key} {v : Term} (h : DbK db) (hk : KeyOk k.2) : DbK (AMap.put db k v) := by
  intro e he
  rcases mem_put he with rfl | he
  · exact hk
  · exact h e he

theorem dbK_putAll {es : List (Key × Term)} : ∀ {db : DB}, DbK db → (∀ e ∈ es, KeyOk e.1.2) → DbK (putAll db es) := by
  induction es with
  | nil => intro db h _; exact h
  | cons x xs ih =>
    intro db h hes
    unfold putAll
    simp only [List.foldl_cons]
    exact ih (dbK_put h (hes x List.mem_cons_self)) (fun e he => hes e (List.mem_cons_of_mem _ he))

theorem walB_put {wal : AMap.T String (WRec × AM)} {w : String} {r : WRec} {a : AM} (h : WalB wal)
    (hr : r.nExt ≤ 4294967296 ∧ r.nInt ≤ 4294967296) : WalB (AMap.put wal w (r, a)) := by
  intro e he
  rcases mem_put he with rfl | he
  · exact hr
  · exact h e he

theorem walB_get {wal : AMap.T String (WRec × AM)} (h : WalB wal) {w : String} {r : WRec} {a : AM}
    (hg : AMap.get wal w = some (r, a)) : r.nExt ≤ 4294967296 ∧ r.nInt ≤ 4294967296 := h _ (get_mem hg)

theorem walB_clearAll {wal : AMap.T String (WRec × AM)} (h : WalB wal) : WalB (clearAll wal) := by
  intro e he
  unfold clearAll at he
  simp only [List.mem_map] at he
  obtain ⟨x, hx, rfl⟩ := he
  exact h x hx

theorem walB_erase {wal : AMap.T String (WRec × AM)} (h : WalB wal) (w : String) : WalB (AMap.erase wal w) :=
  fun e he => h e (mem_erase he)

theorem fail_b {st : St} (h : BoundOk st) (c : String) : BoundOk (fail st c).1 := h

theorem setAM_b {st : St} (h : BoundOk st) {w : String} {r : WRec} {a a' : AM} (hg : AMap.get st.wal w = some (r, a)) :
    BoundOk (setAM st w r a') := ⟨h.1, walB_put h.2.1 (walB_get h.2.1 hg), h.2.2⟩

theorem clear_b {st : St} (h : BoundOk st) : BoundOk { st with wal := clearAll st.wal } := ⟨h.1, walB_clearAll h.2.1, h.2.2⟩

theorem create_b {st : St} (h : BoundOk st) (w : String) (p : Pass) (b : Nat) : BoundOk (create st w p b).1 := by
  unfold create
  split
  · exact h
  · split; · exact fail_b h _
    split; · exact fail_b h _
    split; · exact fail_b h _
    split; · exact fail_b h _
    split; · exact fail_b h _
    exact ⟨dbK_putAll h.1 (acctEntries_keyOk _ _ _ _ _ _ _ _ _ _ _ _ (by omega) (by omega)), walB_put h.2.1 ⟨by simp, by simp⟩, h.2.2⟩

theorem newAddr_b {st : St} (h : BoundOk st) (w : String) : BoundOk (newAddr st w).1 := by
  unfold newAddr
  split
  · exact h
  · rename_i r a hw
    split
    · exact h
    · rename_i hg
      have hb := walB_get h.2.1 hw
      refine ⟨dbK_put (dbK_put h.1 trivial) ⟨by decide, ?_⟩, walB_put h.2.1 ⟨?_, hb.2⟩, h.2.2⟩
      · unfold gapLimit at hg; omega
      · unfold gapLimit at hg; simp only; omega

theorem exportKS_b {st : St} (h : BoundOk st) (w : String) (p : Pass) (k : String) : BoundOk (exportKS st w p k).1 := by
  unfold exportKS
  split
  · exact fail_b h _
  · rename_i r a hw
    split
    · exact fail_b h _
    · have hb := walB_get h.2.1 hw
      refine ⟨h.1, walB_put h.2.1 hb, ?_⟩
      intro e he
      rcases mem_put he with rfl | he
      · exact hb
      · exact h.2.2 e he

theorem mnemonic_b {st : St} (h : BoundOk st) (w : String) (p : Pass) : BoundOk (mnemonic st w p).1 := by
  unfold mnemonic
  split
  · exact fail_b h _
  · rename_i r a hw
    split
    · exact fail_b h _
    · dsimp only
      split
      · exact setAM_b h hw
      · exact fail_b (setAM_b h hw) _

theorem remove_b {st : St} (h : BoundOk st) (w : String) (p : Pass) : BoundOk (remove st w p).1 := by
  unfold remove
  split
  · exact fail_b h _
  · split
    · exact fail_b h _
    · refine ⟨?_, walB_erase h.2.1 w, h.2.2⟩
      intro e he
      unfold eraseWallet at he
      exact h.1 e (List.mem_filter.mp he).1

theorem importKS_b {st : St} (h : BoundOk st) (k : String) (p : Pass) : BoundOk (importKS st k p).1 := by
  unfold importKS
  split
  · exact h
  · rename_i x hx
    have hxb : x.nExt ≤ 4294967296 ∧ x.nInt ≤ 4294967296 := h.2.2 (k, x) (get_mem hx)
    split
    · exact fail_b h _
    · split
      · split; · exact fail_b h _
        split; · exact fail_b h _
        have he : (if x.nExt = 0 then 1 else x.nExt) ≤ 4294967296 := by split <;> omega
        exact ⟨dbK_putAll h.1 (acctEntries_keyOk _ _ _ _ _ _ _ _ _ _ _ _ he hxb.2), walB_put h.2.1 ⟨he, hxb.2⟩, h.2.2⟩
      · exact fail_b h _

theorem importMn_b {st : St} (h : BoundOk st) (w : String) (p : Pass) (src : String) (e i : Nat)
    (hb : e ≤ 4294967296 ∧ i ≤ 4294967296) : BoundOk (importMn st w p src e i).1 := by
  unfold importMn
  split
  · exact h
  · dsimp only
    generalize identName st _ p w = name
    split; · exact h
    split; · exact fail_b h _
    split; · exact fail_b h _
    have he : (if e = 0 then 1 else e) ≤ 4294967296 := by split <;> omega
    exact ⟨dbK_putAll h.1 (acctEntries_keyOk _ _ _ _ _ _ _ _ _ _ _ _ he hb.2), walB_put h.2.1 ⟨he, hb.2⟩, h.2.2⟩

theorem chpub_fold_b (db0 : DB) (old new : Pass) (ws : List (String × WRec × AM)) :
    ∀ (acc : DB × Nat), DbK acc.1 →
    DbK (ws.foldl (fun (acc : DB × Nat) e =>
      let w := e.1
      let ck := match deriveKey (dbGet db0 w .mpub) old with
        | some mkOld => (dec mkOld (dbGet db0 w .cpub)).getD (.pub "missing")
        | none => .pub "missing"
      (AMap.put (AMap.put acc.1 (w, .mpub) (paramsT acc.2 new)) (w, .cpub) (.enc (masterKey acc.2 new) ck), acc.2 + 1)) acc).1 := by
  induction ws with
  | nil => intro acc h; exact h
  | cons x xs ih =>
    intro acc h
    simp only [List.foldl_cons]
    exact ih _ (dbK_put (dbK_put h trivial) trivial)

theorem chpub_b {st : St} (h : BoundOk st) (o n : Pass) : BoundOk (chpub st o n).1 := by
  unfold chpub
  split; · exact fail_b h _
  split; · exact fail_b h _
  split
  · exact fail_b h _
  · exact ⟨chpub_fold_b st.db o n st.wal (st.db, st.nonce) h.1, h.2.1, h.2.2⟩

theorem chpriv_b {st : St} (h : BoundOk st) (w : String) (o n : Pass) : BoundOk (chpriv st w o n).1 := by
  unfold chpriv
  split
  · exact h
  · split; · exact fail_b h _
    split; · exact fail_b h _
    split; · exact fail_b h _
    split; · exact fail_b h _
    exact fail_b h _

theorem signHash_b {st : St} (h : BoundOk st) (w : String) (b i : Nat) (p : Pass) : BoundOk (signHash st w b i p).1 := by
  unfold signHash
  split
  · exact h
  · dsimp only
    split
    · exact fail_b (st := { st with wal := clearAll st.wal }) (clear_b h) _
    · exact clear_b h

theorem ksSign_b {st : St} (h : BoundOk st) (w : String) (b i : Nat) (p : Pass) : BoundOk (ksSign st w b i p).1 := by
  unfold ksSign
  split
  · exact h
  · rename_i r a hw
    split
    · split
      · exact fail_b (setAM_b h hw) _
      · exact fail_b h _
    · exact setAM_b h hw

theorem restart_b {st : St} (h : BoundOk st) (p : Pass) : BoundOk (restart st p).1 := by
  unfold restart
  dsimp only
  split
  · exact fail_b (st := { st with wal := clearAll st.wal }) (clear_b h) _
  · split
    · exact clear_b h
    · exact fail_b (st := { st with wal := clearAll st.wal }) (clear_b h) _

theorem step_b {st : St} (h : BoundOk st) (op : Op) (hop : OpOk op) : BoundOk (step st op).1 := by
  cases op with
  | create w p b => exact create_b h w p b
  | newAddr w => exact newAddr_b h w
  | exportKS w p k => exact exportKS_b h w p k
  | importKS k p => exact importKS_b h k p
  | importMn w p s e i => exact importMn_b h w p s e i hop
  | mnemonic w p => exact mnemonic_b h w p
  | remove w p => exact remove_b h w p
  | chpub o n => exact chpub_b h o n
  | chpriv w o n => exact chpriv_b h w o n
  | signHash w b i p => exact signHash_b h w b i p
  | ksSign w b i p => exact ksSign_b h w b i p
  | ksClear => exact clear_b h
  | restart p => exact restart_b h p

theorem run_b (ops : List Op) : ∀ {st : St}, BoundOk st → (∀ o ∈ ops, OpOk o) → BoundOk (run st ops) := by
  induction ops with
  | nil => intro st h _; exact h
  | cons o os ih =>
    intro st h hops
    unfold run
    simp only [List.foldl_cons]
    exact ih (step_b h o (hops o List.mem_cons_self)) (fun o' ho' => hops o' (List.mem_cons_of_mem _ ho'))

theorem init_b : BoundOk ({} : St) := ⟨fun e he => by simp at he, fun e he => by simp at he, fun e he => by simp at he⟩

/-- every reachable state (restore hints within uint32) has a representing byte tree, for any public valuation -/
theorem reach_representable (C : BCrypto) (L : Laws C) (ρ : PubVal) (ops : List Op) (hops : ∀ o ∈ ops, OpOk o) :
    ∃ t, Rep C ρ (run {} ops).db t := rep_exists C L ρ _ (run_b ops init_b hops).1

end MW.KsRefine
