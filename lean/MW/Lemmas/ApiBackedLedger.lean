/-
  C19 contracts backed by the C01 ledger model: `w.txStore.ExistsTx`.

  The skeleton of `existsMsgTx` relies on: on success the transaction and its block meta are non-nil and the
  requested output index exists in the returned transaction (`vout < len(prevTx.TxOut)`), on failure both
  results are nil. The last four are the shape of the function (MW.Model.ApiLedger.existsTx returns a pair or
  nothing); the index bound is the LEDGER INVARIANT of C01: under `Inv c s chain` (store = books of the
  chain) and `ChainValid` every credit and every unspent entry belongs to an existing output of a transaction
  of the chain (`CredInv.only`, `Glob.mem`), and the transaction re-read from the node carries the same id.
-/
import MW.Lemmas.ApiContracts
import MW.Model.ApiLedger
import MW.Lemmas.LedgerInv
import MW.Lemmas.LedgerChar2
import MW.Lemmas.LedgerGlob2
namespace MW.Lemmas.ApiBacked
open MW MW.Model.Api MW.Lemmas.ApiContracts MW.Model.Ledger MW.Model.ApiLedger MW.Spec.Books MW.Lemmas.Ledger

/-- a transaction id names one transaction: whatever the node returns under the id of a transaction of the
    wallet's chain IS that transaction (ids are hashes of the content; in the model `Tx.id` is a free field,
    so this is stated) -/
def TxIdsAgree (chain : List Block) (node : Node) : Prop :=
  ∀ oc ∈ occs chain, ∀ b ∈ node.chain, ∀ t ∈ b.txs, t.id = oc.t.id → t = oc.t

theorem amap_mem_get {K V : Type} [DecidableEq K] (m : AMap.T K V) (e : K × V) (h : e ∈ m) :
    (AMap.get m e.1).isSome = true := by
  induction m with
  | nil => cases h
  | cons a m ih =>
    rw [AMap.get_cons]
    by_cases ha : a.1 = e.1
    · simp [ha]
    · simp only [ha, if_false]
      rcases List.mem_cons.1 h with rfl | h
      · exact absurd rfl ha
      · exact ih h

/-- under the ledger invariant the block found for outpoint (tx, idx) belongs to an existing output of a
    transaction of the chain -/
theorem creditBlock_created {c : Ctx} {s : Store} {chain : List Block} (hI : Inv c s chain)
    (hV : ChainValid c.own chain) {cur : Wid} {tx : TxId} {idx : Nat} {blk : BlockMeta}
    (h : creditBlock s cur tx idx = some blk) :
    ∃ oc ∈ occs chain, oc.t.id = tx ∧ idx < oc.t.outs.length ∧ oc.bm = blk := by
  have created : ∀ u : UCoin, CreatedIn c.own (occs chain) u → u.tx = tx → u.idx = idx → u.blk = blk →
      ∃ oc ∈ occs chain, oc.t.id = tx ∧ idx < oc.t.outs.length ∧ oc.bm = blk := by
    rintro u ⟨oc, hoc, hid, hout, -, hbm, -⟩ rfl rfl rfl
    refine ⟨oc, hoc, hid, ?_, hbm.symm⟩
    rcases Nat.lt_or_ge u.idx oc.t.outs.length with hlt | hge
    · exact hlt
    · rw [List.getElem?_eq_none hge] at hout
      cases hout
  unfold creditBlock at h
  split at h
  · -- the unspent index of the wallet in use
    rename_i b hu
    simp only [Option.some.injEq] at h; subst h
    rw [hI.agree.unspent] at hu
    cases hl : lookupU (bookOf c.p c.own chain).L tx idx with
    | none => rw [hl] at hu; cases hu
    | some u =>
      rw [hl] at hu
      obtain ⟨hc, -, ht, hi, -⟩ := char_hit_created (glob_bookOf (p := c.p) hV) hl
      have hb : u.blk = b := by
        by_cases hw : u.wallet = cur
        · simpa [Option.filter, hw] using hu
        · simp [Option.filter, hw] at hu
      exact created u hc ht hi hb
  · -- any credit with that hash and index
    cases hf : s.credits.find? (fun e => e.1.tx = tx && e.1.idx = idx) with
    | none => rw [hf] at h; cases h
    | some e =>
      rw [hf] at h
      simp only [Option.map_some, Option.some.injEq] at h
      have hp := List.find?_some hf
      simp only [Bool.and_eq_true, decide_eq_true_eq] at hp
      have hm := amap_mem_get s.credits e (List.mem_of_find?_eq_some hf)
      rw [hI.agree.credits] at hm
      cases hcr : (bookOf c.p c.own chain).credits e.1 with
      | none => rw [hcr] at hm; cases hm
      | some cr =>
        obtain ⟨u, hc, hk⟩ := (credInv_bookOf (p := c.p) hV).only e.1 cr hcr
        have h1 : u.tx = tx := by rw [← hp.1, hk]; rfl
        have h2 : u.idx = idx := by rw [← hp.2, hk]; rfl
        have h3 : u.blk = blk := by rw [← h, hk]; rfl
        exact created u hc h1 h2 h3

theorem txAtLoc_mem {len : Tx → Nat} {node : Node} {h : Nat} {loc : BlkId × Nat} {t : Tx}
    (ht : node.txAtLoc len h loc = some t) : ∃ b ∈ node.chain, t ∈ b.txs := by
  unfold Node.txAtLoc Node.blockAt at ht
  cases hb : node.chain[h]? with
  | none => rw [hb] at ht; cases ht
  | some b =>
    rw [hb] at ht
    simp only at ht
    refine ⟨b, List.mem_of_getElem? hb, ?_⟩
    split at ht
    · exact List.mem_of_getElem? ht
    · split at ht
      · cases ht
      · split at ht
        · cases ht
        · obtain ⟨k, -, hk⟩ := List.exists_of_findSome?_eq_some ht
          split at hk
          · rename_i t' hg
            split at hk
            · simp only [Option.some.injEq] at hk
              subst hk
              exact List.mem_of_getElem? hg
            · cases hk
          · cases hk

theorem txByLoc_mem {node : Node} {h : Nat} {loc : BlkId × Nat} {t : Tx} (ht : node.txByLoc h loc = some t) :
    ∃ b ∈ node.chain, t ∈ b.txs := by
  unfold Node.txByLoc Node.blockAt at ht
  cases hb : node.chain[h]? with
  | none => rw [hb] at ht; cases ht
  | some b =>
    rw [hb] at ht
    simp only at ht
    split at ht
    · exact ⟨b, List.mem_of_getElem? hb, List.mem_of_getElem? ht⟩
    · cases ht

/-- LEDGER INVARIANT ⇒ the output exists: a successful ExistsTx returns a transaction that has the requested
    output (and the block meta of the credit) -/
theorem existsTx_index {c : Ctx} {s : Store} {chain : List Block} (hI : Inv c s chain)
    (hV : ChainValid c.own chain) (hid : TxIdsAgree chain c.node) {len : Tx → Nat} {cur : Wid} {tx : TxId} {idx : Nat}
    {t : Tx} {blk : BlockMeta} (h : existsTx len s c.node cur tx idx = some (t, blk)) :
    idx < t.outs.length ∧ t.id = tx := by
  unfold existsTx at h
  cases hb : creditBlock s cur tx idx with
  | none => rw [hb] at h; cases h
  | some b =>
    rw [hb] at h
    simp only at h
    cases hr : AMap.get s.txrecs (tx, b) with
    | none => rw [hr] at h; cases h
    | some loc =>
      rw [hr] at h
      simp only at h
      cases hf : c.node.txAtLoc len b.height loc with
      | none => rw [hf] at h; cases h
      | some t' =>
        rw [hf] at h
        simp only at h
        split at h
        · rename_i hidt
          simp only [Option.some.injEq, Prod.mk.injEq] at h
          obtain ⟨rfl, rfl⟩ := h
          obtain ⟨oc, hoc, hoid, hlt, -⟩ := creditBlock_created hI hV hb
          obtain ⟨bl, hbl, htb⟩ := txAtLoc_mem hf
          have : t' = oc.t := hid oc hoc bl hbl t' htb (hidt.trans hoid.symm)
          subst this
          exact ⟨hlt, hidt⟩
        · cases h

/-- the oracle answers `w.txStore.ExistsTx` by running the model function on SOME store that satisfies the
    ledger invariant for some valid chain, for the outpoint index the skeleton holds in `vout`; and
    `w.txStore.ExistUnminedTx` by the pending table of some store -/
structure LedgerBacked (O : Oracle) : Prop where
  existsTx : ∀ σ, ∃ (c : Ctx) (s : Store) (chain : List Block) (cur : Wid) (tx : TxId) (len : Tx → Nat),
    Inv c s chain ∧ ChainValid c.own chain ∧ TxIdsAgree chain c.node ∧
    O "w.txStore.ExistsTx" σ = existsTxAnswer E.notFound (MW.Model.ApiLedger.existsTx len s c.node cur tx (σ (V "vout")))
  unmined : ∀ σ, ∃ (s : Store) (tx : TxId), O "w.txStore.ExistUnminedTx" σ = existUnminedAnswer E.notFound (AMap.get s.pending tx)

def existUnminedNode : CallNode :=
  ("w.txStore.ExistUnminedTx", [V "prevTx", V "perr", V "prevTx.TxOut"], onOk "perr" [.nz "prevTx"])

/-- CONTRACT (ledger, shape): ExistUnminedTx returns the pending transaction or an error -/
theorem contract_ledger_ExistUnminedTx {O : Oracle} (h : LedgerBacked O) : Holds O existUnminedNode :=
  holds_onOk_first O _ _ _ _ (by decide) (fun σ => by
    obtain ⟨s, tx, e⟩ := h.unmined σ
    rw [e]
    cases AMap.get s.pending tx with
    | none => intro h0; simp [existUnminedAnswer, E.notFound] at h0
    | some t => intro _; simp [existUnminedAnswer])

/-- the call node of `w.txStore.ExistsTx` in the model (`f_existsMsgTx`) -/
def existsTxNode : CallNode :=
  ("w.txStore.ExistsTx", [V "prevTx", V "block", V "perr", V "perr.notfound", V "prevTx.TxOut"],
    onOk "perr" [.nz "prevTx", .nz "block", .lt "vout" "prevTx.TxOut"] ++
      [⟨[.nz "perr"], [.z "block"]⟩, ⟨[.nz "perr"], [.z "prevTx"]⟩])

/-- CONTRACT (ledger): the five clauses of `w.txStore.ExistsTx` hold for a ledger-backed oracle -/
theorem contract_ledger_ExistsTx {O : Oracle} (h : LedgerBacked O) : Holds O existsTxNode := by
  intro σ
  obtain ⟨c, s, chain, cur, tx, len, hI, hV, hid, hO⟩ := h.existsTx σ
  have hnd : ([V "prevTx", V "block", V "perr", V "perr.notfound", V "prevTx.TxOut"] : List Var).Nodup := by decide
  have g := setMany_get _ σ (O "w.txStore.ExistsTx" σ) hnd
  have g0 := g 0 (by decide)
  have g1 := g 1 (by decide)
  have g2 := g 2 (by decide)
  have g4 := g 4 (by decide)
  have gv := setMany_other (V "vout") [V "prevTx", V "block", V "perr", V "perr.notfound", V "prevTx.TxOut"] σ
    (O "w.txStore.ExistsTx" σ) (by decide)
  simp only [List.getElem_cons_zero, List.getElem_cons_succ] at g0 g1 g2 g4
  rw [hO] at g0 g1 g2 g4 gv
  simp only [HoldsAt, existsTxNode, onOk, List.map_cons, List.map_nil, List.cons_append, List.nil_append,
    List.all_cons, List.all_nil, Bool.and_true, Clause.eval, Atom.eval, hO, g0, g1, g2, g4, gv]
  cases hr : existsTx len s c.node cur tx (σ (V "vout")) with
  | none => simp [existsTxAnswer, E.notFound]
  | some r =>
    obtain ⟨t, blk⟩ := r
    have := (existsTx_index hI hV hid hr).1
    simp [existsTxAnswer, this]

end MW.Lemmas.ApiBacked
