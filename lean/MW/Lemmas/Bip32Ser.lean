/-
  Lemmas for C14: NewMaster, Neuter, String, NewKeyFromString of the model against the spec
  (master generation, N, serialisation, parsing), path derivation, the private/public commutation.
-/
import MW.Lemmas.Bip32Child
import MW.Lemmas.Bip32Base58
namespace MW.Bip32L
open MW MW.GoSlice MW.Model.Bip32 MW.Spec.Bip32

theorem masterKey_eq : masterKey = bitcoinSeed := by decide

section
variable {C : CurveOps} {H : HashOps} {N : NetOps} (LC : CurveLaws C) (LH : HashLaws H) (LN : NetLaws N)
include LC LH

/-! ### NewMaster -/

omit LC in
include LN in
theorem master_refines (seed : Bytes) : RelE (Rep C) (newMaster C H N seed) (master C H N seed) := by
  unfold newMaster master
  rw [show Gen.Bip32.minSeedBytes = 16 from rfl, show Gen.Bip32.maxSeedBytes = 64 from rfl, masterKey_eq]
  have hlen : (H.hmac512 bitcoinSeed seed).length = 64 := LH.hmac_len _ _
  by_cases hs : seed.length < 16 ∨ seed.length > 64
  · have : (decide (seed.length < 16) || decide (seed.length > 64)) = true := by simpa using hs
    simp [this, hs, RelE]
  · have : (decide (seed.length < 16) || decide (seed.length > 64)) = false := by simpa using hs
    simp only [this, Bool.false_eq_true, if_false, hs, hlen, parse256]
    have h32 : ((H.hmac512 bitcoinSeed seed).take 32).length = 32 := by simp [hlen]
    by_cases hk : BE.ofBytes ((H.hmac512 bitcoinSeed seed).take 32) = 0 ∨ BE.ofBytes ((H.hmac512 bitcoinSeed seed).take 32) ≥ C.n
    · have : (decide (BE.ofBytes ((H.hmac512 bitcoinSeed seed).take 32) ≥ C.n) || decide (BE.ofBytes ((H.hmac512 bitcoinSeed seed).take 32) = 0)) = true := by
        rcases hk with h | h <;> simp [h]
      simp [this, hk, RelE]
    · have : (decide (BE.ofBytes ((H.hmac512 bitcoinSeed seed).take 32) ≥ C.n) || decide (BE.ofBytes ((H.hmac512 bitcoinSeed seed).take 32) = 0)) = false := by
        simp only [not_or] at hk; simp [hk.1, hk.2]
      simp only [this, Bool.false_eq_true, if_false, hk, RelE, Rep, true_and]
      simp only [not_or] at hk
      refine ⟨by decide, ⟨LN.priv_len, rfl, by decide, by simp [hlen]⟩, ?_, by omega, by omega⟩
      have hf := BE.fixed_ofBytes ((H.hmac512 bitcoinSeed seed).take 32)
      rw [h32] at hf
      exact hf.symm

/-! ### paths -/

theorem deriveFrom_refines {m : XKey} {x : Spec.Bip32.XKey C.Pt} (path : List Nat) (hr : Rep C m x)
    (hpath : ∀ i ∈ path, i < 2 ^ 32) (hnd : DegenerateFree C H x path) :
    RelE (Rep C) (Model.Bip32.deriveFrom C H m path) (Spec.Bip32.deriveFrom C H x path) := by
  induction path generalizing m x with
  | nil => simpa [Model.Bip32.deriveFrom, Spec.Bip32.deriveFrom, RelE] using hr
  | cons i is ih =>
    obtain ⟨h1, h2⟩ := hnd
    have hstep := child_refines LC LH hr (hpath i (by simp)) h1
    unfold Model.Bip32.deriveFrom Spec.Bip32.deriveFrom
    cases hm : child C H m i with
    | error e =>
      cases hx : ckd C H x i with
      | error e' => rw [hm, hx] at hstep; simpa [RelE] using hstep
      | ok c => rw [hm, hx] at hstep; simp [RelE] at hstep
    | ok cm =>
      cases hx : ckd C H x i with
      | error e' => rw [hm, hx] at hstep; simp [RelE] at hstep
      | ok c =>
        rw [hm, hx] at hstep
        rw [hx] at h2
        exact ih hstep (fun j hj => hpath j (by simp [hj])) h2


/-! ### Neuter, ECPrivKey, String -/

omit LH in
include LN in
theorem neuter_refines {m : XKey} {x : Spec.Bip32.XKey C.Pt} (hr : Rep C m x) :
    RelE (Rep C) (Model.Bip32.neuter C N m) (Spec.Bip32.neuter C N x) := by
  obtain ⟨hv, hd, hdl, hfp, hcn, hcc, ⟨hwv, hwf, hwn, hwc⟩, hkey⟩ := hr
  unfold Model.Bip32.neuter Spec.Bip32.neuter
  cases hxk : x.key with
  | priv k =>
    rw [hxk] at hkey
    obtain ⟨hp, hkb, hkpos, hkn⟩ := hkey
    have hklt : k < 2 ^ 256 := Nat.lt_of_lt_of_le hkn LC.n_le
    simp only [hp, Bool.not_true, Bool.false_eq_true, if_false, hv]
    cases hpv : N.pubVersion x.version with
    | none => simp [RelE]
    | some v =>
      simp only [RelE, Rep, hd, hdl, hfp, hcn, hcc, true_and]
      refine ⟨⟨LN.pub_len _ _ hpv, hwf, hwn, hwc⟩, pubKeyBytes_priv hp hkb hklt, ?_⟩
      apply LC.parse_enc
      cases hi : C.isInf (point C k) with
      | false => rfl
      | true =>
        have := (LC.isInf_mulG k).mp hi
        rw [Nat.mod_eq_of_lt hkn] at this; omega
  | pub K =>
    rw [hxk] at hkey
    obtain ⟨hp, hkb, hparse⟩ := hkey
    simp only [hp, Bool.not_false, if_true, RelE, Rep, hv, hd, hdl, hfp, hcn, hcc, hxk, hkb, hparse, hwv, hwf, hwn, hwc, true_and, and_self]

omit LH in
theorem ecPrivKey_refines {m : XKey} {x : Spec.Bip32.XKey C.Pt} (hr : Rep C m x) :
    ecPrivKey m = privBytes C x := by
  obtain ⟨hv, hd, hdl, hfp, hcn, hcc, ⟨hwv, hwf, hwn, hwc⟩, hkey⟩ := hr
  unfold ecPrivKey privBytes
  cases hxk : x.key with
  | priv k =>
    rw [hxk] at hkey
    obtain ⟨hp, hkb, hkpos, hkn⟩ := hkey
    have hklt : k < 2 ^ 256 := Nat.lt_of_lt_of_le hkn LC.n_le
    simp only [hp, Bool.not_true, Bool.false_eq_true, if_false, hkb, ofBytes_ser256 hklt]
    exact congrArg some (storeKey_eq hklt)
  | pub K =>
    rw [hxk] at hkey
    simp [hkey.1]

omit LH in
/-- the 78 serialised bytes -/
theorem payload_refines {m : XKey} {x : Spec.Bip32.XKey C.Pt} (hr : Rep C m x) :
    (if m.isPrivate = true then
        paddedAppend 32 (m.version ++ [UInt8.ofNat m.depth] ++ m.parentFP ++ BE.fixed 4 m.childNum ++ m.chainCode ++ [0]) m.key
      else m.version ++ [UInt8.ofNat m.depth] ++ m.parentFP ++ BE.fixed 4 m.childNum ++ m.chainCode ++ pubKeyBytes C m)
      = ser78 C x ∧ m.key.length ≠ 0 := by
  obtain ⟨hv, hd, hdl, hfp, hcn, hcc, ⟨hwv, hwf, hwn, hwc⟩, hkey⟩ := hr
  unfold ser78
  cases hxk : x.key with
  | priv k =>
    rw [hxk] at hkey
    obtain ⟨hp, hkb, hkpos, hkn⟩ := hkey
    simp only [hp, if_true, paddedAppend, hkb, ser256_length, Nat.sub_self, zeros, List.replicate_zero,
      List.append_nil, hv, hd, hfp, hcn, hcc, ser32]
    simp
  | pub K =>
    rw [hxk] at hkey
    obtain ⟨hp, hkb, hparse⟩ := hkey
    have hpk : pubKeyBytes C m = C.enc K := by simp [pubKeyBytes, hp, hkb]
    simp only [hp, Bool.false_eq_true, if_false, hpk, hv, hd, hfp, hcn, hcc, ser32, serP, hkb, LC.enc_len]
    simp

omit LH in
theorem toString_refines {m : XKey} {x : Spec.Bip32.XKey C.Pt} (hr : Rep C m x) :
    Model.Bip32.toString C H m = Spec.Bip32.toString C H x := by
  obtain ⟨hpay, hne⟩ := payload_refines LC hr
  unfold Model.Bip32.toString Spec.Bip32.toString checksum
  simp only [hne, if_false]
  rw [Base58L.encode_spec]
  rw [hpay]


/-! ### NewKeyFromString -/

omit LC LH in
theorem headD_take_one (l : Bytes) (a : UInt8) : (l.take 1).headD a = l.headD a := by
  cases l <;> rfl

omit LC LH in
/-- `NewKeyFromString` with the slices resolved -/
theorem keyFromString_eq (s : Bytes) :
    keyFromString C H s =
      match Base58.decode? s with
      | none => .error .len
      | some d =>
        if d.length ≠ 82 then .error .len else
        let p := d.take 78
        if d.drop 78 ≠ checksum H p then .error .checksum else
        let kd := p.drop 45
        if kd.headD 0 = 0 then
          if BE.ofBytes (kd.drop 1) ≥ C.n ∨ BE.ofBytes (kd.drop 1) = 0 then .error .unusable else
          .ok { key := kd.drop 1, chainCode := (p.drop 13).take 32, depth := ((p.drop 4).headD 0).toNat,
                parentFP := (p.drop 5).take 4, childNum := BE.ofBytes ((p.drop 9).take 4), version := p.take 4,
                isPrivate := true }
        else
          match C.parse kd with
          | none => .error .point
          | some _ =>
            .ok { key := kd, chainCode := (p.drop 13).take 32, depth := ((p.drop 4).headD 0).toNat,
                  parentFP := (p.drop 5).take 4, childNum := BE.ofBytes ((p.drop 9).take 4), version := p.take 4,
                  isPrivate := false } := by
  unfold keyFromString
  rw [Base58L.decode_spec, show serializedKeyLen + 4 = 82 from rfl]
  cases Base58.decode? s with
  | none => simp
  | some d =>
    simp only [Option.getD_some]
    by_cases hl : d.length = 82
    · have hp : (d.take 78).length = 78 := by simp [hl]
      have hkd : slice (d.take 78) 45 78 = (d.take 78).drop 45 := by
        simp only [slice]
        apply List.take_of_length_le
        simp [hl]
      simp only [hl, ne_eq, not_true_eq_false, if_false, checksum, hkd]
      simp only [slice, List.drop_zero, Nat.sub_zero, headD_take_one, show 82 - 4 = 78 from rfl,
        show 5 - 4 = 1 from rfl, show 9 - 5 = 4 from rfl, show 13 - 9 = 4 from rfl, show 45 - 13 = 32 from rfl]
      by_cases hc : List.drop 78 d = List.take 4 (H.dsha (List.take 78 d))
      · simp only [hc, not_true_eq_false, if_false]
        by_cases hz : ((d.take 78).drop 45).headD 0 = 0
        · simp only [hz, decide_true, if_true]
          by_cases hr : BE.ofBytes (((d.take 78).drop 45).drop 1) ≥ C.n ∨ BE.ofBytes (((d.take 78).drop 45).drop 1) = 0
          · have : (decide (BE.ofBytes (((d.take 78).drop 45).drop 1) ≥ C.n) || decide (BE.ofBytes (((d.take 78).drop 45).drop 1) = 0)) = true := by
              simpa using hr
            simp only [this, if_true, hr]
          · have : (decide (BE.ofBytes (((d.take 78).drop 45).drop 1) ≥ C.n) || decide (BE.ofBytes (((d.take 78).drop 45).drop 1) = 0)) = false := by
              simpa using hr
            simp only [this, Bool.false_eq_true, if_false, hr]
        · simp only [hz, decide_false, Bool.false_eq_true, if_false]
          cases C.parse (List.drop 45 (List.take 78 d)) <;> rfl
      · simp only [hc, not_false_eq_true, if_true]
    · simp [hl]

/-- parsing: the model computes the spec, for EVERY input string -/
theorem parse_refines (s : Bytes) : RelE (Rep C) (keyFromString C H s) (Spec.Bip32.parse C H s) := by
  rw [keyFromString_eq]
  unfold Spec.Bip32.parse
  cases Base58.decode? s with
  | none => simp [RelE]
  | some d =>
    simp only
    by_cases hl : d.length = 82
    · simp only [hl, ne_eq, not_true_eq_false, if_false]
      by_cases hc : List.drop 78 d = checksum H (List.take 78 d)
      · simp only [hc, not_true_eq_false, if_false]
        have hkdlen : ((d.take 78).drop 45).length = 33 := by simp [hl]
        by_cases hz : ((d.take 78).drop 45).headD 0 = 0
        · simp only [hz, if_true, parse256]
          by_cases hr : BE.ofBytes (((d.take 78).drop 45).drop 1) = 0 ∨ BE.ofBytes (((d.take 78).drop 45).drop 1) ≥ C.n
          · have hr' : BE.ofBytes (((d.take 78).drop 45).drop 1) ≥ C.n ∨ BE.ofBytes (((d.take 78).drop 45).drop 1) = 0 := hr.symm
            simp only [hr, hr', if_true, RelE]
          · have hr' : ¬ (BE.ofBytes (((d.take 78).drop 45).drop 1) ≥ C.n ∨ BE.ofBytes (((d.take 78).drop 45).drop 1) = 0) :=
              fun h => hr h.symm
            simp only [hr, hr', if_false, RelE, Rep, true_and]
            simp only [not_or] at hr
            have h32 : (((d.take 78).drop 45).drop 1).length = 32 := by simp [hl]
            have hnl : (((d.take 78).drop 9).take 4).length = 4 := by simp [hl]
            have hnlt : BE.ofBytes (((d.take 78).drop 9).take 4) < 2 ^ 32 := by
              have := BE.ofBytes_lt (((d.take 78).drop 9).take 4)
              rw [hnl] at this; simpa using this
            refine ⟨BE.u8_lt _, ⟨by simp [hl], by simp [hl], hnlt, by simp [hl]⟩, ?_, by omega, by omega⟩
            have hf := BE.fixed_ofBytes (((d.take 78).drop 45).drop 1)
            rw [h32] at hf
            exact hf.symm
        · simp only [hz, if_false]
          cases hp : C.parse ((d.take 78).drop 45) with
          | none => simp [RelE]
          | some K =>
            have henc := LC.enc_parse _ K hkdlen hp
            simp only [RelE, Rep, true_and]
            have hnl : (((d.take 78).drop 9).take 4).length = 4 := by simp [hl]
            have hnlt : BE.ofBytes (((d.take 78).drop 9).take 4) < 2 ^ 32 := by
              have := BE.ofBytes_lt (((d.take 78).drop 9).take 4)
              rw [hnl] at this; simpa using this
            exact ⟨BE.u8_lt _, ⟨by simp [hl], by simp [hl], hnlt, by simp [hl]⟩, henc.symm, by rw [henc]; exact hp⟩
      · simp [hc, RelE]
    · simp [hl, RelE]


/-! ### public derivation commutes with neutering -/

theorem neuter_child_comm_raw {m : XKey} {k i : Nat} {v : Bytes} (hp : m.isPrivate = true) (hk : m.key = ser256 k)
    (hkpos : 0 < k) (hkn : k < C.n) (hv : N.pubVersion m.version = some v) (hi : i < 2 ^ 31) :
    (child C H m i >>= fun c => Model.Bip32.neuter C N c) =
      (Model.Bip32.neuter C N m >>= fun p => child C H p i) := by
  have hklt : k < 2 ^ 256 := Nat.lt_of_lt_of_le hkn LC.n_le
  have hnh : hardened i = false := by
    unfold hardened; exact decide_eq_false (Nat.not_le.mpr hi)
  have hnm : Model.Bip32.neuter C N m =
      .ok { key := C.enc (C.mulG k), chainCode := m.chainCode, depth := m.depth, parentFP := m.parentFP,
            childNum := m.childNum, version := v, isPrivate := false } := by
    simp [Model.Bip32.neuter, hp, hv, pubKeyBytes_priv hp hk hklt]
  have hparse : C.parse (C.enc (C.mulG k)) = some (C.mulG k) := by
    apply LC.parse_enc
    cases hinf : C.isInf (C.mulG k) with
    | false => rfl
    | true =>
      have := (LC.isInf_mulG k).mp hinf
      rw [Nat.mod_eq_of_lt hkn] at this; omega
  rw [hnm, child_priv_eq LC LH hp hk hklt]
  simp only [bind, Except.bind]
  rw [child_pub_eq LC LH (K := C.mulG k) rfl rfl hparse]
  have hI : Ipriv C H k m.chainCode i = Ipub C H (C.mulG k) m.chainCode i := by
    simp [Ipriv, Ipub, hnh, point]
  simp only [hI, hnh, Bool.false_eq_true, if_false]
  by_cases hd : m.depth = 255
  · simp [hd]
  · simp only [hd, if_false]
    by_cases hil : parse256 ((Ipub C H (C.mulG k) m.chainCode i).take 32) ≥ C.n ∨
        parse256 ((Ipub C H (C.mulG k) m.chainCode i).take 32) = 0
    · simp only [hil, if_true]
    · simp only [hil, if_false]
      simp only [not_or] at hil
      have hxy : C.xyZero (C.mulG (parse256 ((Ipub C H (C.mulG k) m.chainCode i).take 32))) = false :=
        LC.xyZero_mulG _ (by omega) (by omega)
      have hsum : (parse256 ((Ipub C H (C.mulG k) m.chainCode i).take 32) + k) % C.n < 2 ^ 256 :=
        Nat.lt_of_lt_of_le (Nat.mod_lt _ LC.n_pos) LC.n_le
      simp only [hxy, Bool.false_eq_true, if_false, Model.Bip32.neuter, Bool.not_true, hv]
      simp only [pubKeyBytes, Bool.not_true, Bool.false_eq_true, if_false, ofBytes_ser256 hsum, LC.mulG_add]

end
end MW.Bip32L
