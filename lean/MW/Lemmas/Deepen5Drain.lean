/-
  C06 deepening (round 5), part 3: THE WORKER LOOP of a removal in the relaxed state `JRW`:
  `removeStep_pendW` (a non-finishing iteration only filters the unmined credits and keeps the height table),
  `removeLoop_doneW`, `JRW_removeDrain`.
-/
import MW.Lemmas.Deepen5Step
namespace MW.Lemmas.Deepen5
open MW MW.Model.Ledger MW.Model.Persist MW.Spec.Persist MW.Spec.Chain MW.Spec.Books MW.Lemmas.Ledger
  MW.Lemmas.PersistOp MW.Lemmas.PersistFault MW.Lemmas.PersistCrash MW.Lemmas.Deepen3 MW.Lemmas.Deepen4

/-- a successful non-finishing iteration: the height table is untouched, the unmined credits are filtered -/
theorem removeStep_pendW {st : Deepen3.Static} {ks : AMap.T Wid KsRec} {w : Wid} {r : KsRec} {chain : List Block}
    (limit nR : Nat) {P : PStore} {V : PVol}
    (hks : P.ks = ks) (hkeys : V.keys = ks) (hr : AMap.get ks w = some r) (hne : addrsOf ks w ≠ [])
    (res : Res) (hres : res = (opRemoveStep limit nR (envAt st chain) w (addrsOf ks w)).run none P V)
    (hok : res.ok = true) (hd : removeDone res.P w = false) :
    res.P.led.sync = P.led.sync ∧
      res.P.led.pendCred = P.led.pendCred.filter (fun e => !(addrsOf ks w).contains e.2.sh) := by
  have hrP : AMap.get P.ks w = some r := by rw [hks]; exact hr
  have hrV : AMap.get V.keys w = some r := by rw [hkeys]; exact hr
  have hcl := removeStep_none limit nR (envAt st chain) w (addrsOf ks w) P V r r hrP hrV
  rw [ctx_eq, hkeys] at hcl
  rw [← hres] at hcl
  clear hres
  cases hs : Model.Remove.removeStep limit ((lenv st ks).ctx chain) w (addrsOf ks w) P.led with
  | none =>
    rw [hs] at hcl
    simp only at hcl
    rw [hcl] at hok
    cases hok
  | some o =>
    rw [hs] at hcl
    simp only at hcl
    obtain ⟨_, hf⟩ := removeStep_model_status hne hs
    by_cases hfin : o.finish = true
    · rw [if_pos hfin] at hcl
      exfalso
      have hgone : AMap.get o.s.status w = none := by rw [hf hfin, AMap.get_erase]; simp
      have : removeDone ({ led := o.s, ks := AMap.erase P.ks w } : PStore) w = true := by
        unfold removeDone; rw [hgone]; rfl
      rw [hcl, this] at hd; cases hd
    · have hfin' : o.finish = false := by simpa using hfin
      rw [if_neg hfin] at hcl
      rw [hcl]
      have hrt := MW.Lemmas.RemoveStep.removeRelevantTx_spec limit _ P.led (addrsOf ks w) o hne
        (MW.Lemmas.RemoveMain.removeStep_parked hs hfin')
      have hids := hrt.ids
      simp only [MW.Lemmas.RemoveStep.core, Prod.mk.injEq] at hids
      exact ⟨hids.2.2.2.2.2.2.1, hrt.pendCred⟩

/-- `PendGuard` survives when the height table stays and the unmined credits are filtered -/
theorem pendGuard_of_filter {P P' : PStore} {addrs : List Addr} (hsync : P'.led.sync = P.led.sync)
    (hpc : P'.led.pendCred = P.led.pendCred.filter (fun e => !addrs.contains e.2.sh))
    (hp : PendGuard P addrs) : PendGuard P' addrs := by
  intro X hX e he hc
  rw [hsync] at hX
  rw [hpc] at he
  exact hp X hX e (List.mem_filter.1 he).1 hc

/-- THE WORKER LOOP of a removal from the relaxed state: if it comes to an end, it ends in `RemDone` -/
theorem removeLoop_doneW {st : Deepen3.Static} {ks : AMap.T Wid KsRec} {w : Wid} {r : KsRec} {chain X : List Block}
    (limit nR : Nat) {g : Store} {kk : Nat} (hr : AMap.get ks w = some r)
    (H : MW.Lemmas.RemoveInv.RemHyp ((lenv st ks).ctx chain) w (addrsOf ks w) (ownOf (AMap.erase ks w)) X)
    (hS : MW.Lemmas.RemoveInterleave.Static ((lenv st ks).ctx chain) w (addrsOf ks w) (ownOf (AMap.erase ks w))) :
    ∀ (fuel : Nat) {P : PStore} {V : PVol} {stt : WStatus} {P' : PStore} {V' : PVol},
    P.ks = ks → V.keys = ks →
    MW.Lemmas.RemoveInterleave.P2W ((lenv st ks).ctx chain) w (addrsOf ks w) (ownOf (AMap.erase ks w)) g P.led X kk →
    PendGuard P (addrsOf ks w) →
    AMap.get P.led.status w = some stt →
    (∀ a w' ch, AMap.get (ownOf ks) a = some (w', ch) → w' ≠ w → readyB P.led w' = true) →
    removeLoop limit nR (envAt st chain) w (addrsOf ks w) fuel P V = some (P', V') →
    RemDone st ks w chain X P P' V' ∧ V'.tasks = V.tasks ∧ V'.led.best = V.led.best := by
  intro fuel
  induction fuel with
  | zero => intro P V stt P' V' _ _ _ _ _ _ h; cases h
  | succ f ih =>
    intro P V stt P' V' hks hkeys hM hp hst hOth h
    rw [removeLoop_succ] at h
    obtain ⟨_, hb, hc⟩ := removeStep_midW limit nR hks hkeys hr H hS hM (hp X hM.mid.sync) hst hOth
      ((opRemoveStep limit nR (envAt st chain) w (addrsOf ks w)).run none P V) (by rw [hkeys])
    have hpw := removeStep_pendW (st := st) (chain := chain) limit nR hks hkeys hr H.ne
      ((opRemoveStep limit nR (envAt st chain) w (addrsOf ks w)).run none P V) rfl
    generalize (opRemoveStep limit nR (envAt st chain) w (addrsOf ks w)).run none P V = res at h hb hc hpw
    by_cases hok : res.ok = true
    · simp only [hok, Bool.not_true, Bool.false_eq_true, if_false] at h
      by_cases hd : removeDone res.P w = true
      · simp only [hd, if_true, Option.some.injEq, Prod.mk.injEq] at h
        rw [← h.1, ← h.2]
        exact hc hok hd
      · have hd' : removeDone res.P w = false := by simpa using hd
        simp only [hd', Bool.false_eq_true, if_false] at h
        obtain ⟨k1, k2, k3, k4, k5, k6⟩ := hb hok hd'
        obtain ⟨e1, e2⟩ := hpw hok hd'
        obtain ⟨d, t, b⟩ := ih (stt := stt) k1 k2 k5 (pendGuard_of_filter e1 e2 hp) (by rw [k6]; exact hst)
          (fun a w' ch hg hne => by rw [readyB_of_status k6]; exact hOth a w' ch hg hne) h
        exact ⟨d.from_status k6, t.trans k3, b.trans k4⟩
    · have hok' : res.ok = false := by simpa using hok
      simp [hok'] at h

/-- REMOVEDRAIN in the relaxed state: if the worker's loop completes (totality is proved for round 4's `Mid` only) it
    ends in round 3's invariant for the table without `w`; the pending-side clause is asked at the start only (an
    iteration only deletes unmined credits and does not touch the height table) -/
theorem JRW_removeDrain {cfg : Cfg} {G : Block} (cr : Bool) {x : SysQ} {k : Skel} {w : Wid}
    (hJ : JRW cfg G x k w) (hp : PendGuard x.P (addrsOf k.ks w))
    (hloop : removeDone x.P w = false →
      (removeLoop cfg.limit cfg.n (envAt cfg.st k.chain) w (addrsOf k.ks w) (x.P.led.credits.length + 1) x.P x.V).isSome = true) :
    JQ cfg.st G (stepT cfg cr x (.removeDrain w)) { k with ks := AMap.erase k.ks w } := by
  rcases hJ with hM | ⟨hQ, hgone, hnA⟩
  · have hM0 := hM
    have hst := hM.flagged
    obtain ⟨hc, hks, hkeys, hnW, hnA, ⟨r, hr, hrne⟩, htask, ⟨X, g, kk, hX, hP2, hv, hpre, hq0⟩, hqk, hql, hN, hcur, hoth, hother⟩ := hM
    have hnd : removeDone x.P w = false := by unfold removeDone; rw [hst]; rfl
    have hg : (x.V.tasks.contains (.rem w) && !removeDone x.P w) = true := by rw [htask, hnd]; rfl
    have H := remHyp_of (chain := k.chain) hX hnA hnW hr hrne
    have hS := static_of hX hnA hnW hr hrne k.chain
    obtain ⟨⟨P', V'⟩, hl'⟩ := Option.isSome_iff_exists.1 (hloop hnd)
    obtain ⟨d1, _, d3⟩ := removeLoop_doneW (r := r) cfg.limit cfg.n hr H hS _ hks hkeys hP2 hp hst (others_owner hoth) hl'
    have h1 : stepT cfg cr x (.removeDrain w) = { x with P := P', V := dropTask V' (.rem w) } := by
      simp only [stepT, hg, if_true, hc, hkeys, hl']
    rw [h1]
    exact (remDone_JQW hM0 hX hv hpre hq0 (V' := dropTask V' (.rem w))
      ⟨d1.pks, d1.vkeys, d1.gone, d1.inv, d1.allReady, d1.others⟩ d3).jq
  · have hnd : removeDone x.P w = true := by unfold removeDone; rw [hgone]; rfl
    have h1 : stepT cfg cr x (.removeDrain w) = x := by
      simp only [stepT, hnd, Bool.not_true, Bool.and_false, Bool.false_eq_true, if_false]
    rw [h1]
    exact hQ

end MW.Lemmas.Deepen5
