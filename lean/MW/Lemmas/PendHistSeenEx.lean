/-
  C09 Round 7, non-vacuity of the world with the seen-set as state: the round-6 history (connect B1 · recv T1 · recv T2 ·
  node moves · connect B2 · disconnect) from the fresh wallet with the empty ghost set is inside `HOKS`; the seen-set at
  the end is {T1, T2} — both pending again —; the ghost set is {C2}: the coinbase of the disconnected block B2 vanished.
-/
import MW.Lemmas.PendHistSeen
import MW.Lemmas.PendHistCredEx
import MW.Lemmas.PendHistNotifyEx
namespace MW.Lemmas.PendHist.Seen
open MW MW.Model.Ledger MW.Spec.Pending MW.Lemmas.PendHist MW.Lemmas.PendHist.Cred MW.Lemmas.PendHist.CredRb
  MW.Lemmas.PendHist.Notify

def exX0 : HWS := { w := exW0, dead := [] }

theorem exSeen0 : SeenSt exX0 := seenSt_restart exX0 rfl

theorem exDomainS : ∀ y ∈ worldsS exE exX0 exEvs6, HOKS exRankH exE y.1 y.2 :=
  hokf_embeds_novol exEvs6 exX0 exHInvC0L exDomainF (by
    intro ev hev v h
    subst h
    simp [exEvs6, exEvs] at hev)

/-- the seen-set and the ghost set after the history; pending ids of the specification -/
theorem exRunS_obs :
    (runS exE exX0 exEvs6).w.v.mempool = ["T1", "T2"] ∧ (runS exE exX0 exEvs6).dead = ["C2"] ∧
    (runS exE exX0 exEvs6).w.sp.pend.map (·.id) = ["T2", "T1"] := by decide

end MW.Lemmas.PendHist.Seen
