/-
  LedBytes, part 12 — the connect path on bytes: putSyncedTo (fetchSyncedBlock below / above, putSyncedBucket, the
  cursor), onRelevantBlockConnected (FetchAllMinedBalance restricted to the ready wallets, AddRelevantTx per relevant
  record, UpdateMinedBalances), RemoveUnminedConflicts on the irrelevant transactions, and filterBlock around them.
  The relevant records enter as pairs (byte-level record, the ledger model's record) — the relevance computation itself
  (filterTx) reads the store only through ExistCreditFromTx and the pending bucket, whose two reads are shown to commute
  (`existCreditFromTx_on_bytes`, `pendTx_on_bytes`).  Also: readyWallets on the wallet-status bucket.
-/
import MW.Lemmas.LedBytesRbOuter
namespace MW.LedBytes
open MW MW.Gen.Codec MW.Model.TxmgrCodec MW.TxmgrCodec MW.Model.Ledger

-- ------------------------------------------------------------------ loops whose body needs a fact about the state reached

/-- `Rr b a` holds whenever the loop is about to run its body on `a` in state `b` -/
def FoldOK {αB βB : Type} (fB : βB → αB → M βB) (l : List αB) (b0 : βB) (Rr : βB → αB → Prop) : Prop :=
  ∀ pre a post b, l = pre ++ a :: post → pre.foldlM fB b0 = .ok b → Rr b a

theorem foldlM_sim_run {α αB β βB : Type} (absF : βB → β) (P : βB → Prop) (fB : βB → αB → M βB) (f : β → α → M β)
    (g : αB → α) (Q : αB → Prop) (Rr : βB → αB → Prop)
    (hstep : ∀ b a, P b → Q a → Rr b a → (fB b a).map absF = f (absF b) (g a) ∧ ∀ b', fB b a = .ok b' → P b') :
    ∀ (l : List αB) (b : βB), P b → (∀ a ∈ l, Q a) → FoldOK fB l b Rr →
      (l.foldlM fB b).map absF = (l.map g).foldlM f (absF b) ∧ ∀ b', l.foldlM fB b = .ok b' → P b' := by
  intro l
  induction l with
  | nil => intro b hb _ _; exact ⟨rfl, fun b' h => by cases h; exact hb⟩
  | cons a l ih =>
    intro b hb hq hr
    obtain ⟨h1, h2⟩ := hstep b a hb (hq a List.mem_cons_self) (hr [] a l b rfl rfl)
    simp only [List.foldlM_cons, List.map_cons]
    cases hf : fB b a with
    | error e =>
      rw [hf] at h1
      rw [← h1]
      exact ⟨rfl, fun b' h => by cases h⟩
    | ok b1 =>
      rw [hf] at h1
      rw [← h1]
      refine ih b1 (h2 b1 hf) (fun x hx => hq x (List.mem_cons_of_mem _ hx)) ?_
      intro pre x post b2 hl hfold
      refine hr (a :: pre) x post b2 (by rw [hl]; rfl) ?_
      simp only [List.foldlM_cons, hf]
      exact hfold

-- ------------------------------------------------------------------ the two store reads of filterTx

/-- utxoStore.ExistCreditFromTx on bytes: some key of bucket `c` starts with the 32-byte tx hash -/
def existCreditFromTxB (c : AMap.T Bytes Bytes) (txh : Bytes) : Bool := c.any (fun e => txh.isPrefixOf e.1)

theorem existCreditFromTx_on_bytes (E : Env) {bs : BStore} (hC : CanonS E bs) {txh : Bytes} (hh : txh.length = 32) :
    existCreditFromTx (absStore E bs) (E.N.tx txh) = existCreditFromTxB bs.c txh := by
  unfold existCreditFromTx existCreditFromTxB
  refine abs_any (cdC_laws E.N) (fun b => txh.isPrefixOf b) (fun k => decide (k.tx = E.N.tx txh)) ?_ hC.c
  intro k hk
  have := scan_credits_by_tx txh k hh hk
  by_cases h : k.hash = txh
  · have h1 : txh.isPrefixOf (keyCredit k) = true := this.mpr h
    have h2 : (nmCK E.N k).tx = E.N.tx txh := by rw [← h]; rfl
    show txh.isPrefixOf (keyCredit k) = decide ((nmCK E.N k).tx = E.N.tx txh)
    rw [h1, h2]; simp
  · have h1 : txh.isPrefixOf (keyCredit k) = false := by
      cases hp : txh.isPrefixOf (keyCredit k) with
      | false => rfl
      | true => exact absurd (this.mp hp) h
    have h2 : (nmCK E.N k).tx ≠ E.N.tx txh := fun e => h (E.N.tx_inj _ _ e)
    show txh.isPrefixOf (keyCredit k) = decide ((nmCK E.N k).tx = E.N.tx txh)
    rw [h1]; simp [h2]

-- ------------------------------------------------------------------ readyWallets

/-- the ready wallets, read off bucket `ws` (GetWalletStatus per wallet id: Ready() ∧ ¬IsRemoved()) -/
def readyWalletsB (ws : AMap.T Bytes Bytes) (wallets : List Bytes) : List Bytes :=
  wallets.filter (fun w => match (AMap.get ws w).bind decWalletStatus with
    | some x => (nmStatus x).synced.isNone && !(nmStatus x).removed
    | none => false)

theorem readyWallets_on_bytes (E : Env) {bs : BStore} (hC : CanonS E bs) {wallets : List Bytes}
    (hw : ∀ w ∈ wallets, w.length = 42) :
    readyWallets (absStore E bs) (wallets.map E.N.wal) = (readyWalletsB bs.ws wallets).map E.N.wal := by
  unfold readyWallets readyWalletsB
  rw [List.filter_map]
  congr 1
  apply List.filter_congr
  intro w hwm
  have hk := hw w hwm
  simp only [Function.comp]
  rcases ws_get E hC.ws (k := w) hk with ⟨g1, g2⟩ | ⟨v, hv, g1, g2⟩
  · have g2' : AMap.get (absStore E bs).status (E.N.wal w) = none := g2
    rw [g1, g2']; rfl
  · have g2' : AMap.get (absStore E bs).status (E.N.wal w) = some (nmStatus v) := g2
    rw [g1, g2']
    simp only [Option.bind_some, decWalletStatus_enc v hv.1 hv.2]

-- ------------------------------------------------------------------ putSyncedTo

/-- fetchSyncedBlock -/
def fetchSyncedB (sync : AMap.T Bytes Bytes) (h : Nat) : Option (Bytes × Nat) := (AMap.get sync (keySynced h)).bind readSyncedValue

/-- putSyncedTo on the sync bucket (`time`: the block's 4-byte unix time) -/
def putSyncedToB (sync : AMap.T Bytes Bytes) (blk : BlockMetaB) (time : Nat) : M (AMap.T Bytes Bytes) :=
  if blk.height > 0 && (fetchSyncedB sync (blk.height - 1)).isNone then throw (.other "syncedTo too great")
  else if (fetchSyncedB sync (blk.height + 1)).isSome then throw (.other "syncedTo smaller than last")
  else pure (AMap.put (AMap.put sync (keySynced blk.height) (valueSynced blk.hash time)) syncedToKey (valueSyncedTo blk.height))

theorem fetchSynced_some (E : Env) {sync : AMap.T Bytes Bytes} (hc : Canon (cdSync E.N) (AMap.erase sync syncedToKey)) {h : Nat}
    (hh : h < collisionHeight) :
    (AMap.get (absBucket (cdSync E.N) (AMap.erase sync syncedToKey)) h).isSome = (fetchSyncedB sync h).isSome := by
  obtain ⟨h1, h2⟩ := keySynced_ne_of_lt hh
  rw [sync_get_height E hc h1 h2]
  unfold fetchSyncedB
  cases AMap.get sync (keySynced h) with
  | none => rfl
  | some v => simp only [Option.bind_some]; cases readSyncedValue v <;> rfl

theorem putSyncedTo_on_bytes (E : Env) {bs : BStore} (hC : CanonS E bs) {blk : BlockMetaB} (hbh : blk.hash.length = 32)
    (hht : blk.height + 1 < collisionHeight) {time : Nat} (htime : time < 256 ^ 4) :
    (putSyncedToB bs.sync blk time).map (fun sy => absStore E { bs with sync := sy }) = putSyncedTo (absStore E bs) (nmBlk E.N blk) ∧
    ∀ sy, putSyncedToB bs.sync blk time = .ok sy → CanonS E { bs with sync := sy } := by
  unfold putSyncedToB putSyncedTo
  have hs1 := fetchSynced_some E hC.sync (h := blk.height - 1) (by omega)
  have hs2 := fetchSynced_some E hC.sync (h := blk.height + 1) hht
  have e1 : (AMap.get (absStore E bs).sync ((nmBlk E.N blk).height - 1)).isNone = (fetchSyncedB bs.sync (blk.height - 1)).isNone := by
    have : (AMap.get (absStore E bs).sync (blk.height - 1)).isSome = (fetchSyncedB bs.sync (blk.height - 1)).isSome := hs1
    show (AMap.get (absStore E bs).sync (blk.height - 1)).isNone = _
    cases h1 : AMap.get (absStore E bs).sync (blk.height - 1) <;> cases h2 : fetchSyncedB bs.sync (blk.height - 1) <;>
      simp_all
  have e2 : (AMap.get (absStore E bs).sync ((nmBlk E.N blk).height + 1)).isSome = (fetchSyncedB bs.sync (blk.height + 1)).isSome := hs2
  have e0 : (nmBlk E.N blk).height = blk.height := rfl
  rw [e1, e2, e0]
  by_cases c1 : (decide (blk.height > 0) && (fetchSyncedB bs.sync (blk.height - 1)).isNone) = true
  · simp only [c1, if_true]
    exact ⟨rfl, fun _ h => by cases h⟩
  · simp only [c1, Bool.false_eq_true, if_false]
    by_cases c2 : (fetchSyncedB bs.sync (blk.height + 1)).isSome = true
    · simp only [c2, if_true]
      exact ⟨rfl, fun _ h => by cases h⟩
    · simp only [c2, Bool.false_eq_true, if_false]
      obtain ⟨k1, k2⟩ := keySynced_ne_of_lt (h := blk.height) (by omega)
      obtain ⟨p1, p2, p3⟩ := sync_put_height E hC.sync (h := blk.height) (hash := blk.hash) (time := time) k1 k2 hbh htime
      obtain ⟨q1, q2⟩ := sync_put_cursor (AMap.put bs.sync (keySynced blk.height) (valueSynced blk.hash time)) k1
      refine ⟨?_, fun sy h => ?_⟩
      · show Except.ok (absStore E _) = Except.ok _
        congr 1
        simp only [absStore]
        rw [q1, q2, p1]
        rfl
      · cases h
        refine { hC with sync := ?_ }
        show Canon (cdSync E.N) (AMap.erase (AMap.put _ syncedToKey _) syncedToKey)
        rw [q1]; exact p3

-- ------------------------------------------------------------------ onRelevantBlockConnected

/-- a relevant record at byte level together with the ledger model's reading of it -/
abbrev RecPair := TxRecB × TxRec

def RecPair.OK (E : Env) (p : RecPair) : Prop := p.1.WF E ∧ p.1.Abs E p.2

theorem contains_map_wal (N : Names) (l : List Bytes) (w : Bytes) : (l.map N.wal).contains (N.wal w) = l.contains w := by
  induction l with
  | nil => rfl
  | cons a l ih =>
    simp only [List.map_cons, List.contains_cons, ih]
    by_cases h : w = a
    · simp [h]
    · have : N.wal w ≠ N.wal a := fun e => h (N.wal_inj _ _ e)
      have e1 : (w == a) = false := by simpa using h
      have e2 : (N.wal w == N.wal a) = false := by simpa using this
      rw [e1, e2]

theorem absBals_filter (N : Names) (m : BBals) (ready : List Bytes) :
    absBals N (m.filter (fun e => ready.contains e.1)) = (absBals N m).filter (fun e => (ready.map N.wal).contains e.1) := by
  unfold absBals
  rw [List.filter_map]
  congr 1
  apply List.filter_congr
  intro e _
  simp only [Function.comp, contains_map_wal]

/-- onRelevantBlockConnected on bytes -/
def applyRelevantB {E : Env} {own : Own} (p : Params) (P : PendEnv E own) (bs : BStore) (ready : List Bytes) (blk : BlockMetaB)
    (time : Nat) (rel : List RecPair) : M BStore :=
  if rel.isEmpty then pure bs
  else do
    let bals : BBals := (fetchAllBalB bs.bal).filter (fun e => ready.contains e.1)
    let sb ← rel.foldlM (fun (sb : SB) (pr : RecPair) => addRelevantMinedB p (removeDoubleSpendsB P pr.1.ins) pr.1 blk time sb) (bs, bals)
    pure { sb.1 with bal := mergeBalancesB sb.2 sb.1.bal }

/-- what the simulation needs of the run of the loop: the block record has room before every step, and the working
    balances written back at the end fit their fields -/
def ApplyOut {E : Env} {own : Own} (p : Params) (P : PendEnv E own) (bs : BStore) (ready : List Bytes) (blk : BlockMetaB)
    (time : Nat) (rel : List RecPair) : Prop :=
  FoldOK (fun (sb : SB) (pr : RecPair) => addRelevantMinedB p (removeDoubleSpendsB P pr.1.ins) pr.1 blk time sb) rel
      (bs, (fetchAllBalB bs.bal).filter (fun e => ready.contains e.1)) (fun sb _ => BlockRoom (absStore E sb.1) blk.height) ∧
  ∀ sb, rel.foldlM (fun (sb : SB) (pr : RecPair) => addRelevantMinedB p (removeDoubleSpendsB P pr.1.ins) pr.1 blk time sb)
      (bs, (fetchAllBalB bs.bal).filter (fun e => ready.contains e.1)) = .ok sb → BalsWF sb.2

theorem applyRelevant_on_bytes {E : Env} (c : Ctx) (P : PendEnv E c.own) {bs : BStore} (hC : CanonS E bs) {ready : List Bytes}
    {blk : BlockMetaB} (hbh : blk.hash.length = 32) (hbt : blk.height < 256 ^ 8) {time : Nat} (htime : time < 256 ^ 8)
    {rel : List RecPair} (hrel : ∀ pr ∈ rel, pr.OK E) (hout : ApplyOut c.p P bs ready blk time rel) :
    (applyRelevantB c.p P bs ready blk time rel).map (absStore E)
      = applyRelevant c (absStore E bs) (ready.map E.N.wal) (nmBlk E.N blk) (rel.map Prod.snd) ∧
    ∀ bs', applyRelevantB c.p P bs ready blk time rel = .ok bs' → CanonS E bs' := by
  unfold applyRelevantB applyRelevant
  have hemp : (rel.map Prod.snd).isEmpty = rel.isEmpty := by cases rel <;> rfl
  rw [hemp]
  by_cases he : rel.isEmpty = true
  · simp only [he, if_true]
    exact ⟨rfl, fun _ h => by cases h; exact hC⟩
  · simp only [he, Bool.false_eq_true, if_false]
    obtain ⟨f1, f2⟩ := foldlM_sim_run (absSB E) (fun sb => CanonS E sb.1)
      (fun (sb : SB) (pr : RecPair) => addRelevantMinedB c.p (removeDoubleSpendsB P pr.1.ins) pr.1 blk time sb)
      (fun sb tr => addRelevantMined c.p c.own sb.1 sb.2 tr (nmBlk E.N blk)) Prod.snd (RecPair.OK E)
      (fun sb _ => BlockRoom (absStore E sb.1) blk.height)
      (fun b a hb ha hr => addRelevantMined_full_on_bytes c.p P hb ha.1 hbh hbt htime ha.2 hr)
      rel (bs, (fetchAllBalB bs.bal).filter (fun e => ready.contains e.1)) hC hrel hout.1
    have hinit : absSB E (bs, (fetchAllBalB bs.bal).filter (fun e => ready.contains e.1))
        = (absStore E bs, (absStore E bs).balance.filter (fun e => (ready.map E.N.wal).contains e.1)) := by
      simp only [absSB]
      rw [absBals_filter, fetchAllBal_abs]; rfl
    rw [hinit] at f1
    simp only [bind, Except.bind]
    rw [← f1]
    cases hf : rel.foldlM (fun (sb : SB) (pr : RecPair) => addRelevantMinedB c.p (removeDoubleSpendsB P pr.1.ins) pr.1 blk time sb)
        (bs, (fetchAllBalB bs.bal).filter (fun e => ready.contains e.1)) with
    | error e => exact ⟨rfl, fun _ h => by cases h⟩
    | ok sb =>
      have hCs := f2 sb hf
      obtain ⟨m1, m2⟩ := mergeBalances_on_bytes E.N sb.2 sb.1.bal hCs.bal (hout.2 sb hf)
      refine ⟨?_, fun _ h => by cases h; exact { hCs with bal := m2 }⟩
      show Except.ok (absStore E _) = Except.ok _
      congr 1
      simp only [absStore, absSB]
      rw [m1]

-- ------------------------------------------------------------------ RemoveUnminedConflicts on the irrelevant transactions

/-- an irrelevant transaction of the block: the outpoints of its inputs, and the model's transaction -/
abbrev InsPair := List OutPointB × Tx

def InsPair.OK (E : Env) (p : InsPair) : Prop := (∀ o ∈ p.1, o.WF = true) ∧ p.2.ins.map (fun i => (i.tx, i.idx)) = p.1.map (nmOP E.N)

def purgeUnrelatedB {E : Env} {own : Own} (P : PendEnv E own) (bs : BStore) (unrel : List InsPair) : BStore :=
  unrel.foldl (fun bs pr => removeDoubleSpendsB P pr.1 bs) bs

theorem purgeUnrelated_on_bytes {E : Env} {own : Own} (P : PendEnv E own) {bs : BStore} (hC : CanonS E bs) {unrel : List InsPair}
    (hu : ∀ pr ∈ unrel, pr.OK E) :
    absStore E (purgeUnrelatedB P bs unrel) = purgeUnrelated own (absStore E bs) (unrel.map Prod.snd) ∧
    CanonS E (purgeUnrelatedB P bs unrel) := by
  unfold purgeUnrelatedB purgeUnrelated
  refine foldl_sim (absStore E) (CanonS E) _ _ Prod.snd (InsPair.OK E) ?_ unrel bs hC hu
  intro b pr hb hp
  obtain ⟨r1, r2⟩ := removeDoubleSpends_on_bytes P hb hp.1
  refine ⟨?_, r2⟩
  rw [r1, removeDoubleSpends_ops]
  show _ = removeDoubleSpendsOps own (absStore E b) (pr.2.ins.map (fun i => (i.tx, i.idx)))
  rw [hp.2]

-- ------------------------------------------------------------------ filterBlock

/-- the byte-level twins of what filterBlock's first loop (filterTx per transaction) computes on a block: the relevant
    records, or filterTx's error -/
structure RelOracle (E : Env) (c : Ctx) where
  /-- the blocks the oracle knows at byte level (Round 7: a model block outside the node's block files has no byte-level
      twin, so the simulation clauses are restricted to `dom`; `BlkFit` requires it of every block handled) -/
  dom : Block → Prop
  rel : BStore → List Bytes → Block → M (List RecPair)
  unrel : BStore → List Bytes → Block → List RecPair → List InsPair
  rel_sim : ∀ bs ready b, dom b → CanonS E bs →
    (rel bs ready b).map (fun l => l.map Prod.snd) = filterTxs c (absStore E bs) (ready.map E.N.wal) b.id b.txs [] 0 []
  rel_ok : ∀ bs ready b l, dom b → CanonS E bs → rel bs ready b = .ok l → ∀ pr ∈ l, pr.OK E
  unrel_sim : ∀ bs ready b l, dom b → (unrel bs ready b l).map Prod.snd = unrelatedTxs b.txs (l.map Prod.snd)
  unrel_ok : ∀ bs ready b l, dom b → ∀ pr ∈ unrel bs ready b l, pr.OK E

/-- filterBlock after its first loop: onRelevantBlockConnected, RemoveUnminedConflicts, SetSyncedTo -/
def filterTailB {E : Env} {c : Ctx} (P : PendEnv E c.own) (bs : BStore) (ready : List Bytes) (blk : BlockMetaB)
    (time8 time4 : Nat) (rel : List RecPair) (unrel : List InsPair) : M (BStore × List TxId) := do
  let bs1 ← applyRelevantB c.p P bs ready blk time8 rel
  let sy ← putSyncedToB (purgeUnrelatedB P bs1 unrel).sync blk time4
  pure ({ (purgeUnrelatedB P bs1 unrel) with sync := sy }, rel.map (·.2.tx.id))

def filterTail (c : Ctx) (s : Store) (ready : List Wid) (bm : BlockMeta) (relevant : List TxRec) (unrel : List Tx) :
    M (Store × List TxId) := do
  let s ← applyRelevant c s ready bm relevant
  let s2 ← putSyncedTo (purgeUnrelated c.own s unrel) bm
  pure (s2, relevant.map (·.tx.id))

theorem filterBlock_eq (c : Ctx) (s : Store) (ready : List Wid) (b : Block) :
    filterBlock c s ready b =
      (match c.node.blockAt b.height with
       | none => throw (.other "FetchBlockLocByHeight")
       | some onChain =>
         if onChain.id ≠ b.id then throw .chainRevoked
         else if ready.isEmpty then filterTail c s ready ⟨b.height, b.id⟩ [] []
         else do
           let relevant ← filterTxs c s ready b.id b.txs [] 0 []
           filterTail c s ready ⟨b.height, b.id⟩ relevant (unrelatedTxs b.txs relevant)) := by
  unfold filterBlock filterTail
  cases c.node.blockAt b.height with
  | none => rfl
  | some onChain =>
    simp only []
    by_cases hne : onChain.id ≠ b.id
    · simp only [hne, ne_eq, not_false_eq_true, if_true]
    · simp only [hne, if_false]
      by_cases hr : ready.isEmpty = true
      · simp only [hr, if_true]; rfl
      · simp only [hr, Bool.false_eq_true, if_false]

/-- filterBlock + onRelevantBlockConnected + RemoveUnminedConflicts + SetSyncedTo on bytes.  The node's answer
    (FetchBlockLocByHeight) and the block are the ledger model's; `hashB`, `time8`, `time4`: the block's hash and its
    timestamp as the block record (8 bytes) and the synced record (4 bytes) store it -/
def filterBlockB {E : Env} {c : Ctx} (P : PendEnv E c.own) (O : RelOracle E c) (bs : BStore) (ready : List Bytes) (b : Block)
    (hashB : Bytes) (time8 time4 : Nat) : M (BStore × List TxId) :=
  match c.node.blockAt b.height with
  | none => throw (.other "FetchBlockLocByHeight")
  | some onChain =>
    if onChain.id ≠ b.id then throw .chainRevoked
    else if ready.isEmpty then filterTailB P bs ready ⟨b.height, hashB⟩ time8 time4 [] []
    else do
      let rel ← O.rel bs ready b
      filterTailB P bs ready ⟨b.height, hashB⟩ time8 time4 rel (O.unrel bs ready b rel)

/-- what the simulation needs of the run (facts about the bytes produced along the step) -/
def FilterOut {E : Env} {c : Ctx} (P : PendEnv E c.own) (O : RelOracle E c) (bs : BStore) (ready : List Bytes) (b : Block)
    (hashB : Bytes) (time8 : Nat) : Prop :=
  ∀ rel, (if ready.isEmpty then pure [] else O.rel bs ready b) = .ok rel → ApplyOut c.p P bs ready ⟨b.height, hashB⟩ time8 rel

theorem filterTail_on_bytes {E : Env} {c : Ctx} (P : PendEnv E c.own) {bs : BStore} (hC : CanonS E bs)
    {ready : List Bytes} {blk : BlockMetaB} (hh : blk.hash.length = 32) (hht : blk.height + 1 < collisionHeight)
    {time8 time4 : Nat} (ht8 : time8 < 256 ^ 8) (ht4 : time4 < 256 ^ 4) {rel : List RecPair} (hrel : ∀ pr ∈ rel, pr.OK E)
    {unrel : List InsPair} (hun : ∀ pr ∈ unrel, pr.OK E) (hout : ApplyOut c.p P bs ready blk time8 rel) :
    (filterTailB P bs ready blk time8 time4 rel unrel).map (fun x => (absStore E x.1, x.2))
      = filterTail c (absStore E bs) (ready.map E.N.wal) (nmBlk E.N blk) (rel.map Prod.snd) (unrel.map Prod.snd) ∧
    ∀ x, filterTailB P bs ready blk time8 time4 rel unrel = .ok x → CanonS E x.1 := by
  unfold filterTailB filterTail
  have hbt : blk.height < 256 ^ 8 := (keySynced_ne_of_lt (h := blk.height) (by omega)).1
  obtain ⟨a1, a2⟩ := applyRelevant_on_bytes c P hC (ready := ready) hh hbt ht8 hrel hout
  simp only [bind, Except.bind]
  rw [← a1]
  cases ha : applyRelevantB c.p P bs ready blk time8 rel with
  | error e => exact ⟨rfl, fun _ h => by cases h⟩
  | ok bs1 =>
    obtain ⟨u1, u2⟩ := purgeUnrelated_on_bytes P (a2 bs1 ha) hun
    obtain ⟨s1, s2⟩ := putSyncedTo_on_bytes E u2 hh hht ht4
    simp only [Except.map]
    rw [← u1, ← s1]
    cases hs : putSyncedToB (purgeUnrelatedB P bs1 unrel).sync blk time4 with
    | error e => exact ⟨rfl, fun _ h => by cases h⟩
    | ok sy =>
      refine ⟨?_, fun _ h => by cases h; exact s2 sy hs⟩
      show Except.ok _ = Except.ok _
      simp [List.map_map, Function.comp]

theorem filterBlock_on_bytes {E : Env} {c : Ctx} (P : PendEnv E c.own) (O : RelOracle E c) {bs : BStore} (hC : CanonS E bs)
    {ready : List Bytes} {b : Block} (hdom : O.dom b) {hashB : Bytes} (hh : hashB.length = 32) (hid : E.N.blk hashB = b.id)
    (hht : b.height + 1 < collisionHeight) {time8 time4 : Nat} (ht8 : time8 < 256 ^ 8) (ht4 : time4 < 256 ^ 4)
    (hout : FilterOut P O bs ready b hashB time8) :
    (filterBlockB P O bs ready b hashB time8 time4).map (fun x => (absStore E x.1, x.2))
      = filterBlock c (absStore E bs) (ready.map E.N.wal) b ∧
    ∀ x, filterBlockB P O bs ready b hashB time8 time4 = .ok x → CanonS E x.1 := by
  rw [filterBlock_eq]
  unfold filterBlockB
  have hbm : nmBlk E.N ⟨b.height, hashB⟩ = ⟨b.height, b.id⟩ := by rw [← hid]; rfl
  have hre : (ready.map E.N.wal).isEmpty = ready.isEmpty := by cases ready <;> rfl
  cases hb : c.node.blockAt b.height with
  | none => exact ⟨rfl, fun _ h => by cases h⟩
  | some onChain =>
    simp only []
    by_cases hne : onChain.id ≠ b.id
    · simp only [hne, ne_eq, not_false_eq_true, if_true]
      exact ⟨rfl, fun _ h => by cases h⟩
    · simp only [hne, if_false]
      rw [hre]
      by_cases hr : ready.isEmpty = true
      · simp only [hr, if_true]
        have ho := hout [] (by simp only [hr, if_true]; rfl)
        have := filterTail_on_bytes P hC (ready := ready) (blk := ⟨b.height, hashB⟩) hh hht ht8 ht4
          (rel := []) (fun _ h => by cases h) (unrel := []) (fun _ h => by cases h) ho
        rw [hbm] at this
        exact this
      · simp only [hr, Bool.false_eq_true, if_false]
        have hrs := O.rel_sim bs ready b hdom hC
        simp only [bind, Except.bind]
        rw [← hrs]
        cases hf : O.rel bs ready b with
        | error e => exact ⟨rfl, fun _ h => by cases h⟩
        | ok rel =>
          have ho := hout rel (by simp only [hr, Bool.false_eq_true, if_false]; exact hf)
          have := filterTail_on_bytes P hC (ready := ready) (blk := ⟨b.height, hashB⟩) hh hht ht8 ht4
            (O.rel_ok bs ready b rel hdom hC hf) (O.unrel_ok bs ready b rel hdom) ho
          rw [hbm, O.unrel_sim bs ready b rel hdom] at this
          exact this

end MW.LedBytes
