/-
  Round 4, part 4: `SysRelX`, the one-step simulation `stepX_sim` and the run theorem `runX_sim`
  for histories with kept bucket handles, BucketMeta / FetchBucket and an ended read transaction.
-/
import MW.Lemmas.KvHandlesSim
namespace MW.Model.KV
open MW MW.KV
open MW.Spec.KV (DB reroot viaShapeOK mutating setIf deadSpec deadViaSpec)

/-- the abstraction relation of the extended system -/
structure SysRelX (m : SysX) (σ : Spec.KV.SysX) : Prop where
  base : SysRel m.base σ.base
  metas : MetaRel m.metas σ.metas
  wregs : RegRel m.wh.regs σ.wregs
  rregs : RegRel m.rh.regs σ.rregs
  wcache : ∀ tx, m.base.txOf .w = some tx → CacheInv tx m.wh.cache σ.metas
  rcache : ∀ tx, m.base.txOf .r = some tx → CacheInv tx m.rh.cache σ.metas
  deadDom : m.dead.isSome = σ.dead.isSome
  deadRegs : ∀ th t, m.dead = some th → σ.dead = some t → ∀ h, (AMap.get th.regs h).isSome = (AMap.get t h).isSome

theorem SysRelX.init : SysRelX {} {} where
  base := SysRel.init
  metas := MetaRel.nil
  wregs := RegRel.nil
  rregs := RegRel.nil
  wcache := by intro tx h; cases h
  rcache := by intro tx h; cases h
  deadDom := rfl
  deadRegs := by intro th t h; cases h

/-- the slot whose Go-map order makes `entries` / `names` results order-free -/
def slotOfX : OpX → Option Slot
  | .base op | .via _ op => slotOf op
  | _ => none

def ObsAgreeX (op : OpX) (o o' : Obs) : Prop :=
  o' = .unspecified ∨ (if slotOfX op = some Slot.w then o.canon else o) = o'

theorem ObsAgreeX.same (op : OpX) {o : Obs} (h : o.canon = o) : ObsAgreeX op o o := by
  unfold ObsAgreeX; right; split <;> simp [h]

def specDb (σ : Spec.KV.Sys) : Slot → Option DB
  | .w => σ.pending
  | .r => σ.reader

/-- the transaction of a slot and the database the specification holds for it -/
theorem SysRel.tx {m : Sys} {σ : Spec.KV.Sys} (h : SysRel m σ) (sl : Slot) :
    (m.txOf sl = none ∧ specDb σ sl = none) ∨
    ∃ tx d, m.txOf sl = some tx ∧ specDb σ sl = some d ∧ TxRel tx d := by
  obtain ⟨hc, hr, hp⟩ := h
  cases sl with
  | w =>
    simp only [Sys.txOf, specDb]
    cases hmw : m.w with
    | none =>
      cases hsp : σ.pending with
      | some d => rw [hmw, hsp] at hp; exact absurd hp (by simp)
      | none => exact Or.inl ⟨rfl, rfl⟩
    | some bt =>
      cases hsp : σ.pending with
      | none => rw [hmw, hsp] at hp; exact absurd hp (by simp)
      | some d =>
        rw [hmw, hsp] at hp
        exact Or.inr ⟨_, d, rfl, rfl, ⟨⟨hc.sorted, hp.1⟩, hp.2⟩⟩
  | r =>
    simp only [Sys.txOf, specDb]
    cases hmr : m.reader with
    | none =>
      cases hsr : σ.reader with
      | some d => rw [hmr, hsr] at hr; exact absurd hr (by simp)
      | none => exact Or.inl ⟨rfl, rfl⟩
    | some snap =>
      cases hsr : σ.reader with
      | none => rw [hmr, hsr] at hr; exact absurd hr (by simp)
      | some d =>
        have hrel : Rel snap d := by rw [hmr, hsr] at hr; exact hr
        exact Or.inr ⟨_, d, rfl, rfl, ⟨⟨hrel.sorted, Batch.inv_empty⟩, by simpa [Tx.commit] using hrel⟩⟩

theorem dbOf_eq (σ : Spec.KV.SysX) (sl : Slot) : σ.dbOf sl = specDb σ.base sl := by cases sl <;> rfl

/-! ### how one step of the base system moves the transaction objects -/

theorem puts_closed (k : Bytes) : BatchClosed (fun bt => (bt.puts.get k).isSome = true) where
  put := by
    intro bt k' v h
    simp only [Batch.put, SMap.get_insert]
    split
    · rfl
    · exact h
  del := by intro bt k' h; exact h

/-- after a step, the write transaction is a fresh one (BeginTx) or continues the one before:
    same store, `puts` only grown -/
theorem Sys.step_txW (s : Sys) (op : Op) (tx' : Tx) (h : (s.step op).1.txOf .w = some tx') :
    (s.w = none ∧ op = .beginW) ∨
    ∃ tx, s.txOf .w = some tx ∧ tx'.db = tx.db ∧ tx'.readOnly = tx.readOnly ∧
      ∀ k, (tx.b.puts.get k).isSome = true → (tx'.b.puts.get k).isSome = true := by
  cases hso : slotOf op with
  | some sl =>
    rw [Sys.step_data hso] at h
    cases sl with
    | r =>
      right
      simp only at h
      cases hr : s.reader with
      | none => rw [hr] at h; exact ⟨tx', h, rfl, rfl, fun _ hk => hk⟩
      | some snap => rw [hr] at h; exact ⟨tx', h, rfl, rfl, fun _ hk => hk⟩
    | w =>
      right
      simp only at h
      cases hw : s.w with
      | none => rw [hw] at h; simp [Sys.txOf, hw] at h
      | some bt =>
        rw [hw] at h
        simp only [Sys.txOf, Option.map_some, Option.some.injEq] at h
        subst h
        refine ⟨{ readOnly := false, db := s.db, b := bt }, by simp [Sys.txOf, hw], rfl, rfl, ?_⟩
        intro k hk
        exact dataOp_pres (puts_closed k) (tx := { readOnly := false, db := s.db, b := bt }) hk op
  | none =>
    cases op with
    | create sl p | delb sl p | has sl p | clear sl p | names sl p
    | put sl p k v | get sl p k | del sl p k | pfx sl p k | iter sl p a b sc => simp [slotOf] at hso
    | beginW =>
      cases hw : s.w with
      | none => exact Or.inl ⟨rfl, rfl⟩
      | some bt =>
        right
        simp only [Sys.step, hw, Option.isSome_some, if_true] at h
        exact ⟨tx', h, rfl, rfl, fun _ hk => hk⟩
    | beginR =>
      right
      simp only [Sys.step] at h
      split at h
      · exact ⟨tx', h, rfl, rfl, fun _ hk => hk⟩
      · exact ⟨tx', by simpa [Sys.txOf] using h, rfl, rfl, fun _ hk => hk⟩
    | commit =>
      simp only [Sys.step] at h
      cases hw : s.w with
      | none => rw [hw] at h; simp [Sys.txOf, hw] at h
      | some bt => rw [hw] at h; simp [Sys.txOf] at h
    | rollback =>
      simp only [Sys.step] at h
      cases hw : s.w with
      | none => rw [hw] at h; simp [Sys.txOf, hw] at h
      | some bt => rw [hw] at h; simp [Sys.txOf] at h
    | endR =>
      right
      simp only [Sys.step] at h
      split at h
      · exact ⟨tx', by simpa [Sys.txOf] using h, rfl, rfl, fun _ hk => hk⟩
      · exact ⟨tx', h, rfl, rfl, fun _ hk => hk⟩
    | reopen =>
      right
      simp only [Sys.step] at h
      split at h <;> exact ⟨tx', h, rfl, rfl, fun _ hk => hk⟩
    | probe => right; exact ⟨tx', h, rfl, rfl, fun _ hk => hk⟩
    | raw => right; exact ⟨tx', h, rfl, rfl, fun _ hk => hk⟩

/-- after a step, the read transaction is a fresh one (BeginReadTx) or the one before -/
theorem Sys.step_txR (s : Sys) (op : Op) (tx' : Tx) (h : (s.step op).1.txOf .r = some tx') :
    (s.reader = none ∧ op = .beginR) ∨ s.txOf .r = some tx' := by
  cases hso : slotOf op with
  | some sl =>
    rw [Sys.step_data hso] at h
    right
    cases sl with
    | r =>
      simp only at h
      cases hr : s.reader with
      | none => rw [hr] at h; exact h
      | some snap => rw [hr] at h; exact h
    | w =>
      simp only at h
      cases hw : s.w with
      | none => rw [hw] at h; exact h
      | some bt => rw [hw] at h; simpa [Sys.txOf] using h
  | none =>
    cases op with
    | create sl p | delb sl p | has sl p | clear sl p | names sl p
    | put sl p k v | get sl p k | del sl p k | pfx sl p k | iter sl p a b sc => simp [slotOf] at hso
    | beginR =>
      cases hr : s.reader with
      | none => exact Or.inl ⟨rfl, rfl⟩
      | some snap =>
        right
        simp only [Sys.step, hr, Option.isSome_some, if_true] at h
        exact h
    | beginW =>
      right
      simp only [Sys.step] at h
      split at h
      · exact h
      · simpa [Sys.txOf] using h
    | commit =>
      right
      simp only [Sys.step] at h
      cases hw : s.w with
      | none => rw [hw] at h; exact h
      | some bt => rw [hw] at h; simpa [Sys.txOf] using h
    | rollback =>
      right
      simp only [Sys.step] at h
      cases hw : s.w with
      | none => rw [hw] at h; exact h
      | some bt => rw [hw] at h; simpa [Sys.txOf] using h
    | endR =>
      right
      simp only [Sys.step] at h
      split at h
      · simp [Sys.txOf] at h
      · exact h
    | reopen =>
      right
      simp only [Sys.step] at h
      split at h <;> exact h
    | probe => right; exact h
    | raw => right; exact h

/-! ### the one-step simulation, operation by operation -/

/-- the step is out of contract, or it preserves the relation and the observations agree -/
def StepOK (m : SysX) (σ : Spec.KV.SysX) (op : OpX) : Prop :=
  (σ.step op).2 = .outOfContract ∨
  (SysRelX (m.step op).1 (σ.step op).1 ∧ ObsAgreeX op (m.step op).2 (σ.step op).2)

variable {m : SysX} {σ : Spec.KV.SysX}

theorem sim_getMeta (h : SysRelX m σ) (sl : Slot) (mi : Nat) (p : Path) : StepOK m σ (.getMeta sl mi p) := by
  right
  simp only [SysX.step, Spec.KV.SysX.step, SysX.txOf, dbOf_eq]
  rcases h.base.tx sl with ⟨h1, h2⟩ | ⟨tx, d, h1, h2, htx⟩
  · rw [h1, h2]; exact ⟨h, ObsAgreeX.same _ rfl⟩
  · rw [h1, h2]
    simp only
    rcases htx.nav p with ⟨b, hb, hba, hm⟩ | ⟨hb, hm⟩
    · rw [hb, has_true_of_mem hm]
      simp only [if_true]
      refine ⟨⟨h.base, h.metas.put mi (nav_pure hb) hba, h.wregs, h.rregs, ?_, ?_, h.deadDom, h.deadRegs⟩,
        ObsAgreeX.same _ rfl⟩
      · intro tx' ht; exact (h.wcache tx' ht).evict mi p
      · intro tx' ht; exact (h.rcache tx' ht).evict mi p
    · rw [hb, has_false_of_not_mem hm]
      simp only [Bool.false_eq_true, if_false]
      exact ⟨h, ObsAgreeX.same _ rfl⟩

theorem sim_keep (h : SysRelX m σ) (sl : Slot) (hi : Nat) (p : Path) : StepOK m σ (.keep sl hi p) := by
  right
  simp only [SysX.step, Spec.KV.SysX.step, SysX.txOf, dbOf_eq]
  rcases h.base.tx sl with ⟨h1, h2⟩ | ⟨tx, d, h1, h2, htx⟩
  · rw [h1, h2]; exact ⟨h, ObsAgreeX.same _ rfl⟩
  · rw [h1, h2]
    simp only
    have hfound : (nav tx p).isSome = d.has p ∧ ∀ b, nav tx p = some b → pureNav p = some b ∧ b.IsAt p := by
      rcases htx.nav p with ⟨b, hb, hba, hm⟩ | ⟨hb, hm⟩
      · rw [hb, has_true_of_mem hm]; exact ⟨rfl, fun b' hb' => by cases hb'; exact ⟨nav_pure hb, hba⟩⟩
      · rw [hb, has_false_of_not_mem hm]; exact ⟨rfl, fun b' hb' => by cases hb'⟩
    rw [hfound.1]
    refine ⟨?_, ObsAgreeX.same _ rfl⟩
    cases sl with
    | w => exact ⟨h.base, h.metas, h.wregs.set hi hfound.1 hfound.2, h.rregs, h.wcache, h.rcache, h.deadDom, h.deadRegs⟩
    | r => exact ⟨h.base, h.metas, h.wregs, h.rregs.set hi hfound.1 hfound.2, h.wcache, h.rcache, h.deadDom, h.deadRegs⟩

theorem sim_fetch (h : SysRelX m σ) (sl : Slot) (hi mi : Nat) : StepOK m σ (.fetch sl hi mi) := by
  right
  simp only [SysX.step, Spec.KV.SysX.step, SysX.txOf, dbOf_eq]
  rcases h.base.tx sl with ⟨h1, h2⟩ | ⟨tx, d, h1, h2, htx⟩
  · rw [h1, h2]; exact ⟨h, ObsAgreeX.same _ rfl⟩
  · rw [h1, h2]
    simp only
    have hdom := h.metas.dom mi
    cases hmm : AMap.get m.metas mi with
    | none =>
      rw [hmm] at hdom
      cases hsm : AMap.get σ.metas mi with
      | some p => rw [hsm] at hdom; cases hdom
      | none => exact ⟨h, ObsAgreeX.same _ rfl⟩
    | some paths =>
      rw [hmm] at hdom
      cases hsm : AMap.get σ.metas mi with
      | none => rw [hsm] at hdom; cases hdom
      | some p =>
        obtain ⟨b, hb, hba, hpaths⟩ := h.metas.val mi paths p hmm hsm
        subst hpaths
        simp only
        have hci : CacheInv tx (m.hOf sl).cache σ.metas := by
          cases sl with
          | w => exact h.wcache tx h1
          | r => exact h.rcache tx h1
        obtain ⟨hf1, hf2⟩ := fetchCached_spec htx hci hsm hb hba
        have hsome : (tx.fetchCached (m.hOf sl).cache mi b.metaPaths).1.isSome = d.has p := by
          rw [hf1]; cases d.has p <;> rfl
        have hval : ∀ b', (tx.fetchCached (m.hOf sl).cache mi b.metaPaths).1 = some b' → pureNav p = some b' ∧ b'.IsAt p := by
          intro b' hb'
          rw [hf1] at hb'
          split at hb'
          · cases hb'; exact ⟨hb, hba⟩
          · cases hb'
        rw [hsome]
        refine ⟨?_, ObsAgreeX.same _ rfl⟩
        cases sl with
        | w =>
          refine ⟨h.base, h.metas, h.wregs.set hi hsome hval, h.rregs, ?_, h.rcache, h.deadDom, h.deadRegs⟩
          intro tx' ht
          have : tx' = tx := by
            have ht' : m.base.txOf .w = some tx' := ht
            rw [h1] at ht'; cases ht'; rfl
          subst this; exact hf2
        | r =>
          refine ⟨h.base, h.metas, h.wregs, h.rregs.set hi hsome hval, h.wcache, ?_, h.deadDom, h.deadRegs⟩
          intro tx' ht
          have : tx' = tx := by
            have ht' : m.base.txOf .r = some tx' := ht
            rw [h1] at ht'; cases ht'; rfl
          subst this; exact hf2

/-- the ended read transaction: model (the code paths on a released snapshot) = specification -/
theorem deadOp_eq (op : Op) : deadOp op = deadSpec op := by
  cases op with
  | create s p =>
    simp only [deadOp, deadSpec]
    cases p with
    | nil => rfl
    | cons a r => cases hl : (a :: r).getLast? with
      | none => simp [List.getLast?_eq_none_iff] at hl
      | some x => simp
  | delb s p =>
    simp only [deadOp, deadSpec]
    cases p with
    | nil => rfl
    | cons a r => cases hl : (a :: r).getLast? with
      | none => simp [List.getLast?_eq_none_iff] at hl
      | some x => simp
  | _ => rfl

theorem deadViaOp_eq (op : Op) : deadViaOp op = deadViaSpec op := by
  cases op with
  | create s p =>
    simp only [deadViaOp, deadViaSpec, viaShapeOK]
    cases p with
    | nil => rfl
    | cons a r => cases hl : (a :: r).getLast? with
      | none => simp [List.getLast?_eq_none_iff] at hl
      | some x => simp
  | delb s p =>
    simp only [deadViaOp, deadViaSpec, viaShapeOK]
    cases p with
    | nil => rfl
    | cons a r => cases hl : (a :: r).getLast? with
      | none => simp [List.getLast?_eq_none_iff] at hl
      | some x => simp
  | get s p k =>
    simp only [deadViaOp, deadViaSpec, viaShapeOK]
    cases p <;> simp
  | _ => simp [deadViaOp, deadViaSpec, viaShapeOK]

theorem sim_dead (h : SysRelX m σ) (op : Op) : StepOK m σ (.dead op) := by
  right
  simp only [SysX.step, Spec.KV.SysX.step]
  have hd := h.deadDom
  cases hm : m.dead with
  | none =>
    rw [hm] at hd
    cases hs : σ.dead with
    | some t => rw [hs] at hd; cases hd
    | none => exact ⟨h, ObsAgreeX.same _ rfl⟩
  | some th =>
    rw [hm] at hd
    cases hs : σ.dead with
    | none => rw [hs] at hd; cases hd
    | some t =>
      simp only [slotOf_eq, deadOp_eq]
      refine ⟨h, ?_⟩
      unfold ObsAgreeX; right; simp [slotOfX]

theorem sim_deadVia (h : SysRelX m σ) (hi : Nat) (op : Op) : StepOK m σ (.deadVia hi op) := by
  right
  simp only [SysX.step, Spec.KV.SysX.step]
  have hd := h.deadDom
  cases hm : m.dead with
  | none =>
    rw [hm] at hd
    cases hs : σ.dead with
    | some t => rw [hs] at hd; cases hd
    | none => exact ⟨h, ObsAgreeX.same _ rfl⟩
  | some th =>
    rw [hm] at hd
    cases hs : σ.dead with
    | none => rw [hs] at hd; cases hd
    | some t =>
      have hr := h.deadRegs th t hm hs hi
      simp only
      cases hg : AMap.get th.regs hi with
      | none =>
        rw [hg] at hr
        cases hg' : AMap.get t hi with
        | some q => rw [hg'] at hr; cases hr
        | none => exact ⟨h, ObsAgreeX.same _ rfl⟩
      | some bk =>
        rw [hg] at hr
        cases hg' : AMap.get t hi with
        | none => rw [hg'] at hr; cases hr
        | some q =>
          simp only [slotOf_eq, deadViaOp_eq]
          refine ⟨h, ?_⟩
          unfold ObsAgreeX; right; simp [slotOfX]

theorem ObsAgreeX.of_base {op : Op} {o o' : Obs} (h : ObsAgree op o o') : ObsAgreeX (.base op) o o' := by
  unfold ObsAgree canonFor at h; unfold ObsAgreeX slotOfX; exact h

theorem ObsAgreeX.of_via {p : Path} {hi : Nat} {op : Op} {o o' : Obs} (h : ObsAgree (reroot p op) o o') :
    ObsAgreeX (.via hi op) o o' := by
  unfold ObsAgree canonFor at h; unfold ObsAgreeX slotOfX; rw [slotOf_reroot] at h; exact h

theorem Sys.with_w_self {s : Sys} {bt : Batch} (h : s.w = some bt) : { s with w := some bt } = s := by
  cases s; simp_all

theorem dataOpVia_nonmut (tx : Tx) (hb : Bucket) (op : Op) (h : mutating op = false) : (dataOpVia tx hb op).2 = tx := by
  cases op with
  | create _ _ | delb _ _ | put _ _ _ _ | del _ _ _ | clear _ _ => simp [mutating] at h
  | has _ _ => rfl
  | names _ rel | get _ rel _ | pfx _ rel _ | iter _ rel _ _ _ => simp only [dataOpVia]; split <;> rfl
  | _ => rfl

theorem dataOpVia_badshape (tx : Tx) (hb : Bucket) (op : Op) (h : viaShapeOK op = false) :
    dataOpVia tx hb op = (.badop, tx) := by
  cases op with
  | create _ rel | delb _ rel =>
    cases rel with
    | nil => rfl
    | cons a r => simp [viaShapeOK] at h
  | _ => simp [viaShapeOK] at h

/-- a read, or anything through the read slot, or a mis-shaped request leaves the base system as it is -/
theorem Sys.stepVia_state (s : Sys) (hb : Bucket) (op : Op)
    (h : mutating op = false ∨ slotOf op = some .r ∨ viaShapeOK op = false) : (s.stepVia hb op).1 = s := by
  unfold Sys.stepVia
  cases hso : slotOf op with
  | none => rfl
  | some sl =>
    cases sl with
    | r => simp only; cases s.reader <;> rfl
    | w =>
      simp only
      cases hw : s.w with
      | none => rfl
      | some bt =>
        simp only
        rcases h with h | h | h
        · rw [dataOpVia_nonmut _ _ _ h]; exact Sys.with_w_self hw
        · rw [hso] at h; cases h
        · rw [dataOpVia_badshape _ _ _ h]; exact Sys.with_w_self hw

theorem Sys.stepVia_badshape (s : Sys) (hb : Bucket) {op : Op} {sl : Slot} (hso : slotOf op = some sl) {tx : Tx}
    (htx : s.txOf sl = some tx) (h : viaShapeOK op = false) : (s.stepVia hb op).2 = .badop := by
  unfold Sys.stepVia
  rw [hso]
  cases sl with
  | r =>
    simp only [Sys.txOf] at htx ⊢
    cases hr : s.reader with
    | none => rw [hr] at htx; cases htx
    | some snap => simp only; rw [dataOpVia_badshape _ _ _ h]
  | w =>
    simp only [Sys.txOf] at htx ⊢
    cases hw : s.w with
    | none => rw [hw] at htx; cases htx
    | some bt => simp only; rw [dataOpVia_badshape _ _ _ h]

theorem reroot_ne_begin {p : Path} {op : Op} {sl : Slot} (hso : slotOf op = some sl) :
    reroot p op ≠ .beginW ∧ reroot p op ≠ .beginR := by
  cases op <;> simp [slotOf] at hso <;> simp [reroot]

/-! ### reads through the handle of a bucket that does not exist in the transaction's view -/

theorem Sys.stepVia_obs_w (s : Sys) (hb : Bucket) {op : Op} (hso : slotOf op = some Slot.w) {tx : Tx}
    (htx : s.txOf .w = some tx) : (s.stepVia hb op).2 = (dataOpVia tx hb op).1 := by
  unfold Sys.stepVia
  rw [hso]
  simp only [Sys.txOf] at htx ⊢
  cases hw : s.w with
  | none => rw [hw] at htx; cases htx
  | some bt =>
    rw [hw] at htx
    simp only [Option.map_some, Option.some.injEq] at htx
    subst htx; rfl

section stale
variable {tx : Tx} {d : DB} {hb : Bucket} {p : Path}

theorem stale_bucket_none (h : TxRel tx d) (hba : hb.IsAt p) (hp : p ∉ d.buckets) (n : Bytes) :
    hb.bucket tx n = none := by
  rw [Bucket.bucket_ryw h.inv, Tx.roView_eq_ro]
  rcases h.rel.bucket hba n with ⟨sub, _, _, hm⟩ | ⟨hn, _⟩
  · exact absurd (h.rel.bClosed p n hba.ne hm) hp
  · exact hn

theorem stale_navFrom_none (h : TxRel tx d) (hba : hb.IsAt p) (hp : p ∉ d.buckets) (n : Bytes) (rest : List Bytes) :
    navFrom tx hb (n :: rest) = none := by
  simp only [navFrom, stale_bucket_none h hba hp n]

theorem stale_commit_get (h : TxRel tx d) (hba : hb.IsAt p) (hp : p ∉ d.buckets) (k : Bytes) :
    tx.commit.get (dataKey p k) = none := by
  cases hg : tx.commit.get (dataKey p k) with
  | none => rfl
  | some v =>
    rcases (h.rel.mem _ _).mp hg with ⟨q, _, hq, _⟩ | ⟨e, he, hke, _⟩
    · exact absurd hq (dataKey_ne_indexKey _ _ _)
    · have := (dataKey_injective hba.noSep (h.rel.noSep (h.rel.dIn e he).1) hke).1
      exact absurd (this ▸ (h.rel.dIn e he).1) hp

theorem stale_get (h : TxRel tx d) (hba : hb.IsAt p) (hp : p ∉ d.buckets) (k : Bytes) : hb.get tx k = none := by
  rw [Bucket.get_eq h.inv]
  split
  · rfl
  · rw [hba.path]; exact stale_commit_get h hba hp k

theorem stale_getByPrefix (h : TxRel tx d) (hba : hb.IsAt p) (hp : p ∉ d.buckets) (k : Bytes) :
    hb.getByPrefix tx k = [] := by
  have hperm := Bucket.getByPrefix_ryw h.inv hb k
  have hro : hb.getByPrefix tx.roView k = [] := by
    rw [Tx.roView_eq_ro]
    unfold Bucket.getByPrefix
    have hr : (ro tx.commit).readOnly = true := rfl
    simp only [hr, if_true, Tx.overlayEntries_ro hr, List.append_nil]
    have hdb : (ro tx.commit).db = tx.commit := rfl
    rw [hdb, hba.path, show pathBytes p ++ sep :: k = dataKey p k from rfl]
    have hscan : tx.commit.scan (dataKey p k) = [] := by
      rw [List.eq_nil_iff_forall_not_mem]
      intro e he
      rw [mem_scan] at he
      have hg := SMap.get_of_mem h.rel.sorted he.1
      rcases (h.rel.mem _ _).mp hg with ⟨q, _, hq, _⟩ | ⟨e', he', hke, _⟩
      · rw [hq] at he; exact dataPrefix_not_prefix_indexKey _ _ _ he.2
      · rw [hke] at he
        have := ((dataKey_prefix_iff (h.rel.noSep (h.rel.dIn e' he').1) hba.noSep k e'.1.2).mp he.2).1
        exact hp (this ▸ (h.rel.dIn e' he').1)
    rw [hscan]; rfl
  rw [hro] at hperm
  exact List.Perm.eq_nil hperm

theorem stale_childNames (h : TxRel tx d) (hba : hb.IsAt p) (hp : p ∉ d.buckets) : d.childNames p = [] := by
  rw [List.eq_nil_iff_forall_not_mem]
  intro n hn
  exact hp (h.rel.bClosed p n hba.ne ((DB.mem_childNames d p n).mp hn))

/-- a read through the handle of a bucket that is not in the write transaction's view finds an
    empty bucket, and nothing below it -/
theorem dataOpVia_stale (h : TxRel tx d) (hba : hb.IsAt p) (hp : p ∉ d.buckets) (op : Op)
    (hnm : mutating op = false) (hso : slotOf op = some Slot.w) (hi : Nat) :
    ObsAgreeX (.via hi op) (dataOpVia tx hb op).1 (Spec.KV.staleRead op) := by
  have hcanon : ∀ o : Obs, o.canon = o → ObsAgreeX (.via hi op) o o := fun o ho => ObsAgreeX.same _ ho
  cases op with
  | beginW | beginR | commit | rollback | endR | reopen | probe | raw => simp [slotOf] at hso
  | create _ _ | delb _ _ | put _ _ _ _ | del _ _ _ | clear _ _ => simp [mutating] at hnm
  | iter _ _ _ _ _ => exact Or.inl rfl
  | has s rel =>
    cases rel with
    | nil => exact hcanon _ rfl
    | cons n rest =>
      simp only [dataOpVia, Spec.KV.staleRead, stale_navFrom_none h hba hp]
      exact hcanon _ rfl
  | get s rel k =>
    cases rel with
    | nil =>
      simp only [dataOpVia, Spec.KV.staleRead, navFrom, stale_get h hba hp]
      exact hcanon _ rfl
    | cons n rest =>
      simp only [dataOpVia, Spec.KV.staleRead, stale_navFrom_none h hba hp]
      exact hcanon _ rfl
  | pfx s rel k =>
    cases rel with
    | nil =>
      simp only [dataOpVia, Spec.KV.staleRead, navFrom, stale_getByPrefix h hba hp]
      exact hcanon _ rfl
    | cons n rest =>
      simp only [dataOpVia, Spec.KV.staleRead, stale_navFrom_none h hba hp]
      exact hcanon _ rfl
  | names s rel =>
    cases rel with
    | nil =>
      simp only [dataOpVia, Spec.KV.staleRead, navFrom]
      have hag := names_agree h p hba.noSep
      rw [stale_childNames h hba hp, ← Bucket.bucketNames_eq hba] at hag
      have hs : slotOf (Op.names s []) = some Slot.w := hso
      simp only [slotOf, Option.some.injEq] at hs
      subst hs
      unfold ObsAgreeX slotOfX
      unfold Agree at hag
      have hro : tx.readOnly = false ∨ tx.readOnly = true := by cases tx.readOnly <;> simp
      rcases hag with hu | ha
      · cases hu
      · right
        simp only [slotOf, if_true, List.length_nil, BEq.rfl]
        rcases hro with hro | hro
        · simpa [hro] using ha
        · -- a read-only transaction: the listing itself is the ascending one
          rw [hro] at ha
          simp only [if_true] at ha
          rw [ha]; rfl
    | cons n rest =>
      simp only [dataOpVia, Spec.KV.staleRead, stale_navFrom_none h hba hp]
      exact hcanon _ rfl

end stale

theorem sim_via (hds : DeleteSpec) (h : SysRelX m σ) (hi : Nat) (op : Op) : StepOK m σ (.via hi op) := by
  unfold StepOK
  simp only [SysX.step, Spec.KV.SysX.step, slotOf_eq]
  cases hso : slotOf op with
  | none => right; exact ⟨h, ObsAgreeX.same _ rfl⟩
  | some sl =>
    simp only [SysX.txOf, dbOf_eq]
    rcases h.base.tx sl with ⟨h1, h2⟩ | ⟨tx, d, h1, h2, htx⟩
    · rw [h1, h2]; right; exact ⟨h, ObsAgreeX.same _ rfl⟩
    · rw [h1, h2]
      simp only
      have hrr : RegRel (m.hOf sl).regs (σ.regsOf sl) := by
        cases sl with
        | w => exact h.wregs
        | r => exact h.rregs
      have hdom := hrr.dom hi
      cases hg : AMap.get (m.hOf sl).regs hi with
      | none =>
        rw [hg] at hdom
        cases hg' : AMap.get (σ.regsOf sl) hi with
        | some q => rw [hg'] at hdom; cases hdom
        | none => right; exact ⟨h, ObsAgreeX.same _ rfl⟩
      | some hb =>
        rw [hg] at hdom
        cases hg' : AMap.get (σ.regsOf sl) hi with
        | none => rw [hg'] at hdom; cases hdom
        | some p =>
          obtain ⟨hpn, hbat⟩ := hrr.val hi hb p hg hg'
          simp only
          by_cases hshape : viaShapeOK op = true
          · simp only [hshape, Bool.not_true, Bool.false_eq_true, if_false]
            by_cases hhas : d.has p = true
            · simp only [hhas, if_true]
              right
              rcases htx.nav p with ⟨b', hb', _, _⟩ | ⟨_, hm⟩
              · have hbeq : b' = hb := by
                  have := nav_pure hb'; rw [hpn] at this; cases this; rfl
                subst hbeq
                rw [Sys.stepVia_eq hso h1 hb' hshape]
                have hs := step_sim hds h.base (reroot p op)
                refine ⟨⟨hs.1, h.metas, h.wregs, h.rregs, ?_, ?_, h.deadDom, h.deadRegs⟩, ObsAgreeX.of_via hs.2⟩
                · intro tx' ht
                  rcases Sys.step_txW m.base (reroot p op) tx' ht with ⟨_, hbw⟩ | ⟨tx0, ht0, hdb, hro, hp⟩
                  · exact absurd hbw (reroot_ne_begin hso).1
                  · exact (h.wcache tx0 ht0).mono hdb hro hp
                · intro tx' ht
                  rcases Sys.step_txR m.base (reroot p op) tx' ht with ⟨_, hbr⟩ | ht0
                  · exact absurd hbr (reroot_ne_begin hso).2
                  · exact h.rcache tx' ht0
              · exact absurd ((DB.has_iff d p).mp hhas) hm
            · simp only [hhas, Bool.false_eq_true, if_false]
              by_cases hmut : (sl == Slot.w && mutating op) = true
              · left; simp only [hmut, if_true]
              · right
                simp only [hmut, Bool.false_eq_true, if_false]
                have hcond : mutating op = false ∨ slotOf op = some .r ∨ viaShapeOK op = false := by
                  cases sl with
                  | r => exact Or.inr (Or.inl hso)
                  | w => left; simpa using hmut
                rw [Sys.stepVia_state m.base hb op hcond]
                cases sl with
                | r => exact ⟨h, Or.inl rfl⟩
                | w =>
                  have hnm : mutating op = false := by simpa using hmut
                  have hpn' : p ∉ d.buckets := fun hm => hhas (has_true_of_mem hm)
                  rw [Sys.stepVia_obs_w m.base hb hso h1]
                  exact ⟨h, dataOpVia_stale htx hbat hpn' op hnm hso hi⟩
          · have hshape' : viaShapeOK op = false := by simpa using hshape
            simp only [hshape', Bool.not_false, if_true]
            right
            rw [Sys.stepVia_state m.base hb op (Or.inr (Or.inr hshape')), Sys.stepVia_badshape m.base hb hso h1 hshape']
            exact ⟨h, ObsAgreeX.same _ rfl⟩

theorem SysRel.isSome_w {m : Sys} {σ : Spec.KV.Sys} (h : SysRel m σ) : m.w.isSome = σ.pending.isSome := by
  obtain ⟨_, _, hp⟩ := h
  cases hmw : m.w <;> cases hsp : σ.pending <;> simp_all

theorem SysRel.isSome_r {m : Sys} {σ : Spec.KV.Sys} (h : SysRel m σ) : m.reader.isSome = σ.reader.isSome := by
  obtain ⟨_, hr, _⟩ := h
  cases hmr : m.reader <;> cases hsr : σ.reader <;> simp_all

theorem sim_base (hds : DeleteSpec) (h : SysRelX m σ) (op : Op) : StepOK m σ (.base op) := by
  right
  have hs := step_sim hds h.base op
  have hiw := h.base.isSome_w
  have hir := h.base.isSome_r
  -- the caches after the step, unless the step began the transaction
  have hwc : ∀ tx', (m.base.step op).1.txOf .w = some tx' →
      (m.base.w = none ∧ op = .beginW) ∨ CacheInv tx' m.wh.cache σ.metas := by
    intro tx' ht
    rcases Sys.step_txW m.base op tx' ht with hb | ⟨tx0, ht0, hdb, hro, hp⟩
    · exact Or.inl hb
    · exact Or.inr ((h.wcache tx0 ht0).mono hdb hro hp)
  have hrc : ∀ tx', (m.base.step op).1.txOf .r = some tx' →
      (m.base.reader = none ∧ op = .beginR) ∨ CacheInv tx' m.rh.cache σ.metas := by
    intro tx' ht
    rcases Sys.step_txR m.base op tx' ht with hb | ht0
    · exact Or.inl hb
    · exact Or.inr (h.rcache tx' ht0)
  have hag := ObsAgreeX.of_base hs.2
  cases op with
  | beginW =>
    simp only [SysX.step, Spec.KV.SysX.step]
    refine ⟨?_, hag⟩
    rw [hiw]
    cases hp : σ.base.pending.isSome with
    | true =>
      simp only [if_true]
      refine ⟨hs.1, h.metas, h.wregs, h.rregs, ?_, ?_, h.deadDom, h.deadRegs⟩
      · intro tx' ht
        rcases hwc tx' ht with ⟨hn, _⟩ | hc
        · rw [hp, hn] at hiw; cases hiw
        · exact hc
      · intro tx' ht
        rcases hrc tx' ht with ⟨_, hb⟩ | hc
        · cases hb
        · exact hc
    | false =>
      simp only [Bool.false_eq_true, if_false]
      refine ⟨hs.1, h.metas, RegRel.nil, h.rregs, fun tx' _ => CacheInv.nil tx' _, ?_, h.deadDom, h.deadRegs⟩
      intro tx' ht
      rcases hrc tx' ht with ⟨_, hb⟩ | hc
      · cases hb
      · exact hc
  | beginR =>
    simp only [SysX.step, Spec.KV.SysX.step]
    refine ⟨?_, hag⟩
    rw [hir]
    cases hp : σ.base.reader.isSome with
    | true =>
      simp only [if_true]
      refine ⟨hs.1, h.metas, h.wregs, h.rregs, ?_, ?_, h.deadDom, h.deadRegs⟩
      · intro tx' ht
        rcases hwc tx' ht with ⟨_, hb⟩ | hc
        · cases hb
        · exact hc
      · intro tx' ht
        rcases hrc tx' ht with ⟨hn, _⟩ | hc
        · rw [hp, hn] at hir; cases hir
        · exact hc
    | false =>
      simp only [Bool.false_eq_true, if_false]
      refine ⟨hs.1, h.metas, h.wregs, RegRel.nil, ?_, fun tx' _ => CacheInv.nil tx' _, h.deadDom, h.deadRegs⟩
      intro tx' ht
      rcases hwc tx' ht with ⟨_, hb⟩ | hc
      · cases hb
      · exact hc
  | endR =>
    simp only [SysX.step, Spec.KV.SysX.step]
    refine ⟨?_, hag⟩
    rw [hir]
    cases hp : σ.base.reader.isSome with
    | true =>
      simp only [if_true]
      refine ⟨hs.1, h.metas, h.wregs, RegRel.nil, ?_, ?_, rfl, ?_⟩
      · intro tx' ht
        rcases hwc tx' ht with ⟨_, hb⟩ | hc
        · cases hb
        · exact hc
      · intro tx' ht
        exact CacheInv.nil tx' _
      · intro th t h1 h2 hh
        simp only [Option.some.injEq] at h1 h2
        subst h1; subst h2
        exact h.rregs.dom hh
    | false =>
      simp only [Bool.false_eq_true, if_false]
      refine ⟨hs.1, h.metas, h.wregs, h.rregs, ?_, ?_, h.deadDom, h.deadRegs⟩
      · intro tx' ht
        rcases hwc tx' ht with ⟨_, hb⟩ | hc
        · cases hb
        · exact hc
      · intro tx' ht
        rcases hrc tx' ht with ⟨_, hb⟩ | hc
        · cases hb
        · exact hc
  | commit | rollback | reopen | probe | raw | create _ _ | delb _ _ | has _ _ | put _ _ _ _ | get _ _ _
  | del _ _ _ | clear _ _ | pfx _ _ _ | names _ _ | iter _ _ _ _ _ =>
    simp only [SysX.step, Spec.KV.SysX.step]
    refine ⟨⟨hs.1, h.metas, h.wregs, h.rregs, ?_, ?_, h.deadDom, h.deadRegs⟩, hag⟩
    · intro tx' ht
      rcases hwc tx' ht with ⟨_, hb⟩ | hc
      · cases hb
      · exact hc
    · intro tx' ht
      rcases hrc tx' ht with ⟨_, hb⟩ | hc
      · cases hb
      · exact hc

/-- one step of the extended system -/
theorem stepX_sim (hds : DeleteSpec) (h : SysRelX m σ) (op : OpX) : StepOK m σ op := by
  cases op with
  | base op => exact sim_base hds h op
  | getMeta sl mi p => exact sim_getMeta h sl mi p
  | fetch sl hi mi => exact sim_fetch h sl hi mi
  | keep sl hi p => exact sim_keep h sl hi p
  | via hi op => exact sim_via hds h hi op
  | dead op => exact sim_dead h op
  | deadVia hi op => exact sim_deadVia h hi op

/-- results of two runs agree operation by operation, up to (not including) the first operation
    the specification declares out of contract -/
def RunsAgreeX : List OpX → List Obs → List Obs → Prop
  | [], [], [] => True
  | op :: ops, o :: os, o' :: os' => o' = .outOfContract ∨ (ObsAgreeX op o o' ∧ RunsAgreeX ops os os')
  | _, _, _ => False

theorem runX_sim (hds : DeleteSpec) : ∀ (ops : List OpX) (m : SysX) (σ : Spec.KV.SysX), SysRelX m σ →
    RunsAgreeX ops (runX m ops) (Spec.KV.runX σ ops) := by
  intro ops
  induction ops with
  | nil => intro m σ _; simp [runX, Spec.KV.runX, RunsAgreeX]
  | cons op rest ih =>
    intro m σ h
    simp only [runX, Spec.KV.runX, RunsAgreeX]
    rcases stepX_sim hds h op with hooc | ⟨hrel, hag⟩
    · exact Or.inl hooc
    · exact Or.inr ⟨hag, ih _ _ hrel⟩

/-- histories of base operations only: the extended system IS the system of rounds 1–3 -/
theorem runX_base (ops : List Op) : ∀ (m : SysX), runX m (ops.map .base) = run m.base ops := by
  induction ops with
  | nil => intro m; rfl
  | cons op rest ih =>
    intro m
    simp only [List.map_cons, runX, run]
    have h1 : (m.step (.base op)).2 = (m.base.step op).2 := by
      cases op <;> rfl
    have h2 : (m.step (.base op)).1.base = (m.base.step op).1 := by
      cases op <;> simp only [SysX.step] <;> (try split) <;> rfl
    rw [h1, ih, h2]

end MW.Model.KV
