/-
  What each secret-needing operation of MW.Model.Secrets answers in a good state (locked OR unlocked),
  what a refused attempt leaves behind, and when every keystore is locked.
-/
import MW.Lemmas.SecretsGate
namespace MW.Lemmas.SecretsGateOut
open MW MW.Model.Secrets MW.Lemmas.SecretsInv MW.Lemmas.SecretsDB MW.Lemmas.SecretsGate

/-- the answer of the gate: ok for the right passphrase, a passphrase error for any other -/
def gateOut (right p : Pass) : Out := if p = right then .ok else .err "pass"

/-- the state after a refused attempt: nothing but the returned error is new -/
def refused (st : St) : St := { st with errs := st.errs ++ [.pub "pass"] }

-- ------------------------------------------------------------------ outputs

theorem export_out {st : St} (hg : Good st) {w : String} {r : WRec} {a : AM} (hw : AMap.get st.wal w = some (r, a))
    (p : Pass) (k : String) : (exportKS st w p k).2 = gateOut r.pass p := by
  obtain ⟨h0, salt, ckE, ckP, x, h1, h2, h3, h4, h5, h6⟩ := hg.1 w r a hw
  unfold exportKS gateOut
  rw [hw]
  simp only [h1]
  by_cases hp : p = r.pass
  · subst hp; simp [safely_right h0 h6]
  · simp [hp, safely_wrong h0 h6 hp, fail]

theorem remove_out {st : St} (hg : Good st) {w : String} {r : WRec} {a : AM} (hw : AMap.get st.wal w = some (r, a))
    (p : Pass) : (remove st w p).2 = gateOut r.pass p := by
  obtain ⟨h0, salt, ckE, ckP, x, h1, h2, h3, h4, h5, h6⟩ := hg.1 w r a hw
  unfold remove gateOut
  rw [hw]
  simp only [h1]
  by_cases hp : p = r.pass
  · subst hp; simp [safely_right h0 h6]
  · simp [hp, safely_wrong h0 h6 hp, fail]

theorem mnemonic_out {st : St} (hg : Good st) {w : String} {r : WRec} {a : AM} (hw : AMap.get st.wal w = some (r, a))
    (p : Pass) : (mnemonic st w p).2 = gateOut r.pass p := by
  obtain ⟨h0, salt, ckE, ckP, x, h1, h2, h3, h4, h5, h6⟩ := hg.1 w r a hw
  unfold mnemonic gateOut
  rw [hw]
  simp only [h1]
  by_cases hp : p = r.pass
  · subst hp
    rw [check_right h0 h6]
    rcases h6 with rfl | ⟨hu, hh, hm, hb⟩
    · simp [h2, h3, dec]
    · simp [hu, hm, h2, h3, dec]
  · simp [hp, check_wrong h0 h6 hp, fail]

theorem known0 {r : WRec} {idx : Nat} (h : idx < r.nExt) :
    (if (0 : Nat) = 0 then decide (idx < r.nExt) else decide ((0 : Nat) = 1) && decide (idx < r.nInt)) = true := by
  simp [h]

theorem signHash_out {st : St} (hg : Good st) {w : String} {r : WRec} {a : AM} (hw : AMap.get st.wal w = some (r, a))
    (idx : Nat) (hidx : idx < r.nExt) (p : Pass) : (signHash st w 0 idx p).2 = gateOut r.pass p := by
  have hag := hg.1 w r a hw
  unfold signHash gateOut
  rw [hw]
  by_cases hp : p = r.pass
  · subst hp
    obtain ⟨a', hs, _⟩ := signBtcec_right hag 0 idx (known0 hidx)
    simp [hs]
  · simp [hp, signBtcec_wrong hag 0 idx hp (known0 hidx), fail]

theorem ksSign_out {st : St} (hg : Good st) {w : String} {r : WRec} {a : AM} (hw : AMap.get st.wal w = some (r, a))
    (idx : Nat) (hidx : idx < r.nExt) (p : Pass) : (ksSign st w 0 idx p).2 = gateOut r.pass p := by
  have hag := hg.1 w r a hw
  unfold ksSign gateOut
  rw [hw]
  by_cases hp : p = r.pass
  · subst hp
    obtain ⟨a', hs, _⟩ := signBtcec_right hag 0 idx (known0 hidx)
    simp [hs]
  · simp [hp, signBtcec_wrong hag 0 idx hp (known0 hidx), fail]

theorem importKS_out {st : St} {k : String} {x : Export} (hx : AMap.get st.exports k = some x)
    {q : Pass} (hq : ExpSealed x q) (p : Pass) : (importKS st k p).2 = .err "pass" ↔ p ≠ q := by
  obtain ⟨h0, salt, ckE, e, h1, h2, h3⟩ := hq
  unfold importKS
  rw [hx]
  simp only [h1]
  by_cases hp : p = q
  · subst hp
    simp only [deriveKey_right salt _ h0, h2, h3, dec]
    simp
    split
    · simp [fail]
    · split <;> simp [fail]
  · simp [hp, deriveKey_wrong salt q p h0 hp, fail]

-- ------------------------------------------------------------------ refusals change nothing

theorem export_refused {st : St} {w : String} {p : Pass} {k : String} (h : (exportKS st w p k).2 = .err "pass") :
    (exportKS st w p k).1 = refused st := by
  unfold exportKS at h ⊢
  split at h
  · simp [fail] at h
  · split at h
    · rfl
    · simp at h

theorem remove_refused {st : St} {w : String} {p : Pass} (h : (remove st w p).2 = .err "pass") :
    (remove st w p).1 = refused st := by
  unfold remove at h ⊢
  split at h
  · simp [fail] at h
  · split at h
    · rfl
    · simp at h

theorem mnemonic_refused {st : St} {w : String} {p : Pass} (h : (mnemonic st w p).2 = .err "pass") :
    (mnemonic st w p).1 = refused st := by
  unfold mnemonic at h ⊢
  split at h
  · simp [fail] at h
  · split at h
    · rfl
    · dsimp only at h
      split at h
      · simp at h
      · simp [fail] at h

theorem ksSign_refused {st : St} {w : String} {b i : Nat} {p : Pass} (h : (ksSign st w b i p).2 = .err "pass") :
    (ksSign st w b i p).1 = refused st := by
  unfold ksSign at h ⊢
  split at h
  · simp at h
  · split at h
    · rename_i a' c hsb
      split at h
      · rename_i hc
        simp [fail] at h
        rw [hc] at h
        simp at h
      · simp [fail] at h
        subst h
        simp [fail, refused]
    · rename_i a' o ho hsb
      simp at h
      exact absurd h (ho "pass")

/-- a refused wallet-level signing call still runs the deferred ClearPrivKey: nothing else changes -/
theorem signHash_refused' {st : St} {w : String} {b i : Nat} {p : Pass}
    (h : (signHash st w b i p).2 = .err "pass") : (signHash st w b i p).1 = refused { st with wal := clearAll st.wal } := by
  unfold signHash at h ⊢
  split at h
  · simp at h
  · dsimp only at h ⊢
    split at h
    · rename_i c hc'
      simp [fail] at h
      subst h
      simp [fail, refused]
    · rename_i o ho
      rw [h] at ho
      exact absurd rfl (ho "pass")

theorem signHash_refused {st : St} {w : String} {b i : Nat} {p : Pass} (hl : AllLocked st)
    (h : (signHash st w b i p).2 = .err "pass") : (signHash st w b i p).1 = refused st := by
  rw [signHash_refused' h, clearAll_of_locked st.wal hl]

theorem importKS_refused {st : St} {k : String} {p : Pass} (h : (importKS st k p).2 = .err "pass") :
    (importKS st k p).1 = refused st := by
  unfold importKS at h ⊢
  split at h
  · simp at h
  · split at h
    · rfl
    · split at h
      · split at h
        · simp [fail] at h
        · split at h
          · simp [fail] at h
          · simp at h
      · simp [fail] at h

-- ------------------------------------------------------------------ lockedness

/-- keystore-level SignHash is the only operation that leaves a keystore unlocked -/
def IsKsSign : Op → Bool
  | .ksSign _ _ _ _ => true
  | _ => false

theorem allLocked_put {st : St} (h : AllLocked st) (w : String) (r : WRec) :
    ∀ e ∈ AMap.put st.wal w (r, ({} : AM)), e.2.2 = ({} : AM) := by
  intro e he
  rcases mem_put he with rfl | he
  · rfl
  · exact h e he

theorem checkPassword_locked (params : Term) (p : Pass) :
    checkPassword params ({} : AM) p = (deriveKey params p).map (fun k => { ({} : AM) with mkey := some k }) := by
  unfold checkPassword
  simp only [Bool.false_eq_true, if_false]
  cases deriveKey params p <;> rfl

theorem safelyCheck_locked (params : Term) (p : Pass) :
    safelyCheckPassword params ({} : AM) p = (deriveKey params p).map (fun _ => ({} : AM)) := by
  unfold safelyCheckPassword
  rw [checkPassword_locked]
  cases deriveKey params p <;> rfl

theorem step_locked {st : St} (h : AllLocked st) (op : Op) (hop : IsKsSign op = false) : AllLocked (step st op).1 := by
  cases op with
  | create w p b =>
    simp only [step]; unfold create
    split; · exact h
    split; · exact h
    split; · exact h
    split; · exact h
    split; · exact h
    split; · exact h
    exact allLocked_put h w _
  | newAddr w =>
    simp only [step]; unfold newAddr
    split
    · exact h
    · rename_i r a hg
      split
      · exact h
      · have ha : a = {} := locked_of_get h hg
        subst ha
        exact allLocked_put h w _
  | exportKS w p k =>
    simp only [step]; unfold exportKS
    split
    · exact h
    · rename_i r a hg
      have ha : a = {} := locked_of_get h hg
      subst ha
      rw [safelyCheck_locked]
      cases deriveKey (dbGet st.db w .mpriv) p with
      | none => exact h
      | some k => exact allLocked_put h w r
  | importKS k p =>
    simp only [step]; unfold importKS
    split
    · exact h
    · split
      · exact h
      · split
        · split; · exact h
          split; · exact h
          exact allLocked_put h _ _
        · exact h
  | importMn w p s e i =>
    simp only [step]; unfold importMn
    split
    · exact h
    · dsimp only
      generalize identName st _ p w = name
      split; · exact h
      split; · exact h
      split; · exact h
      exact allLocked_put h _ _
  | mnemonic w p =>
    simp only [step]; unfold mnemonic
    split
    · exact h
    · rename_i r a hg
      have ha : a = {} := locked_of_get h hg
      subst ha
      rw [checkPassword_locked]
      cases deriveKey (dbGet st.db w .mpriv) p with
      | none => exact h
      | some k =>
        simp only [Option.map_some]
        have : AllLocked (setAM st w r {}) := allLocked_put h w r
        split
        · exact this
        · exact this
  | remove w p =>
    simp only [step]; unfold remove
    split
    · exact h
    · split
      · exact h
      · intro e he
        exact h e (mem_erase he)
  | chpub o n =>
    simp only [step]; unfold chpub
    split; · exact h
    split; · exact h
    split
    · exact h
    · exact h
  | chpriv w o n =>
    simp only [step]; unfold chpriv
    split
    · exact h
    · split; · exact h
      split; · exact h
      split; · exact h
      split; · exact h
      exact h
  | signHash w b i p =>
    simp only [step]; unfold signHash
    split
    · exact h
    · dsimp only
      split
      · exact fun e he => mem_clearAll he
      · exact fun e he => mem_clearAll he
  | ksSign w b i p => simp [IsKsSign] at hop
  | ksClear => exact fun e he => mem_clearAll he
  | restart p =>
    simp only [step]; unfold restart
    dsimp only
    split
    · exact fun e he => mem_clearAll he
    · split
      · exact fun e he => mem_clearAll he
      · exact fun e he => mem_clearAll he

theorem run_locked (ops : List Op) (hops : ∀ o ∈ ops, IsKsSign o = false) :
    ∀ {st : St}, AllLocked st → AllLocked (run st ops) := by
  induction ops with
  | nil => intro st h; exact h
  | cons o os ih =>
    intro st h
    unfold run
    simp only [List.foldl_cons]
    exact ih (fun x hx => hops x (List.mem_cons_of_mem _ hx)) (step_locked h o (hops o (List.mem_cons_self)))

/-- any wallet-level signing call, a restart or ClearPrivKey leaves every keystore locked, whatever was before -/
theorem locks_again (st : St) (op : Op)
    (hop : (match op with | .signHash _ _ _ _ => true | .ksClear => true | .restart _ => true | _ => false) = true)
    (hw : ∀ w b i p, op = .signHash w b i p → (AMap.get st.wal w).isSome) :
    AllLocked (step st op).1 := by
  cases op with
  | signHash w b i p =>
    simp only [step]; unfold signHash
    have := hw w b i p rfl
    cases hg : AMap.get st.wal w with
    | none => simp [hg] at this
    | some ra =>
      dsimp only
      split
      · exact fun e he => mem_clearAll he
      · exact fun e he => mem_clearAll he
  | ksClear => exact fun e he => mem_clearAll he
  | restart p =>
    simp only [step]; unfold restart
    dsimp only
    split
    · exact fun e he => mem_clearAll he
    · split
      · exact fun e he => mem_clearAll he
      · exact fun e he => mem_clearAll he
  | _ => simp at hop

-- ------------------------------------------------------------------ the passphrase does unlock

theorem dbGet_mem {db : DB} {w : String} {k : KeyName} {t : Term} (h : dbGet db w k = t) (hne : t ≠ .pub "missing") :
    t ∈ db.map (·.2) := by
  unfold dbGet at h
  cases hg : AMap.get db (w, k) with
  | none => rw [hg] at h; simp at h; exact absurd h.symm hne
  | some v =>
    rw [hg] at h; simp at h; subst h
    exact List.mem_map.mpr ⟨_, get_mem hg, rfl⟩

/-- with the private passphrase and the database, the entropy (hence everything) is derivable -/
theorem unlock_derivable {st : St} {w : String} {r : WRec} {a : AM} (hag : Agree st.db w r a) :
    Derivable (passT r.pass :: visible st) (.secret (.entropy r.ent)) := by
  obtain ⟨h0, salt, ckE, ckP, x, h1, h2, h3, h4, h5, _⟩ := hag
  have vis : ∀ t, t ∈ st.db.map (·.2) → t ∈ passT r.pass :: visible st := by
    intro t ht
    apply List.mem_cons_of_mem
    unfold visible
    simp only [List.mem_append]
    exact Or.inl (Or.inl ht)
  have d1 := Derivable.ax (vis _ (dbGet_mem h1 (by simp)))
  have d2 := Derivable.ax (vis _ (dbGet_mem h2 (by simp)))
  have d3 := Derivable.ax (vis _ (dbGet_mem h3 (by simp)))
  have dp : Derivable (passT r.pass :: visible st) (passT r.pass) := Derivable.ax (List.mem_cons_self)
  have dk := Derivable.mkKdf (Derivable.fst d1) dp
  exact Derivable.dec d3 (Derivable.dec d2 dk)

end MW.Lemmas.SecretsGateOut
