/-
  What each secret-needing operation of MW.Model.Secrets answers in a good state, and what a refused
  attempt leaves behind.
-/
import MW.Lemmas.SecretsGate
namespace MW.Lemmas.SecretsGateOut
open MW MW.Model.Secrets MW.Lemmas.SecretsInv MW.Lemmas.SecretsDB MW.Lemmas.SecretsGate

/-- the answer of the gate: ok for the right passphrase, a passphrase error for any other -/
def gateOut (right p : Pass) : Out := if p = right then .ok else .err "pass"

/-- the state after a refused attempt: nothing but the returned error is new -/
def refused (st : St) : St := { st with errs := st.errs ++ [.pub "pass"] }

theorem mpriv_derive {st : St} {w : String} {r : WRec} (hag : Agree st.db w r) (p : Pass) :
    deriveKey (dbGet st.db w .mpriv) p =
      if p = r.pass then some (.kdf (match dbGet st.db w .mpriv with | .pair s _ => s | _ => .pub "") (passT r.pass)) else none := by
  obtain ⟨h0, salt, ckE, ckP, x, h1, _⟩ := hag
  rw [h1]
  by_cases hp : p = r.pass
  · subst hp; simp [deriveKey_right salt _ h0]
  · simp [hp, deriveKey_wrong salt r.pass p h0 hp]

theorem export_out {st : St} (hg : Good st) {w : String} {r : WRec} {a : AM} (hw : AMap.get st.wal w = some (r, a))
    (p : Pass) (k : String) : (exportKS st w p k).2 = gateOut r.pass p := by
  have ha : a = {} := locked_of_get hg.1 hw
  subst ha
  have hag := hg.2.1 w r _ hw
  unfold exportKS gateOut
  rw [hw]
  simp only [safelyCheck_locked, mpriv_derive hag]
  by_cases hp : p = r.pass <;> simp [hp, fail]

theorem export_refused {st : St} {w : String} {p : Pass} {k : String} (h : (exportKS st w p k).2 = .err "pass") :
    (exportKS st w p k).1 = refused st := by
  unfold exportKS at h ⊢
  split at h
  · simp [fail] at h
  · split at h
    · rfl
    · simp at h

theorem remove_out {st : St} (hg : Good st) {w : String} {r : WRec} {a : AM} (hw : AMap.get st.wal w = some (r, a))
    (p : Pass) : (remove st w p).2 = gateOut r.pass p := by
  have ha : a = {} := locked_of_get hg.1 hw
  subst ha
  have hag := hg.2.1 w r _ hw
  unfold remove gateOut
  rw [hw]
  simp only [safelyCheck_locked, mpriv_derive hag]
  by_cases hp : p = r.pass <;> simp [hp, fail]

theorem remove_refused {st : St} {w : String} {p : Pass} (h : (remove st w p).2 = .err "pass") :
    (remove st w p).1 = refused st := by
  unfold remove at h ⊢
  split at h
  · simp [fail] at h
  · split at h
    · rfl
    · simp at h

theorem mnemonic_out {st : St} (hg : Good st) {w : String} {r : WRec} {a : AM} (hw : AMap.get st.wal w = some (r, a))
    (p : Pass) : (mnemonic st w p).2 = gateOut r.pass p := by
  have ha : a = {} := locked_of_get hg.1 hw
  subst ha
  obtain ⟨h0, salt, ckE, ckP, x, h1, h2, h3, h4, h5⟩ := hg.2.1 w r _ hw
  unfold mnemonic gateOut
  rw [hw]
  simp only [checkPassword_locked, h1]
  by_cases hp : p = r.pass
  · subst hp
    simp [deriveKey_right salt _ h0, h2, h3, dec]
  · simp [hp, deriveKey_wrong salt r.pass p h0 hp, fail]

theorem mnemonic_refused {st : St} {w : String} {p : Pass} (hg : Good st) (h : (mnemonic st w p).2 = .err "pass") :
    (mnemonic st w p).1 = refused st := by
  unfold mnemonic at h ⊢
  split at h
  · simp [fail] at h
  · rename_i r a hw
    have ha : a = {} := locked_of_get hg.1 hw
    subst ha
    obtain ⟨h0, salt, ckE, ckP, x, h1, h2, h3, h4, h5⟩ := hg.2.1 w r _ hw
    simp only [checkPassword_locked, h1] at h ⊢
    by_cases hp : p = r.pass
    · subst hp
      simp [deriveKey_right salt _ h0, h2, h3, dec] at h
    · simp [deriveKey_wrong salt r.pass p h0 hp]
      rfl

theorem signHash_out {st : St} (hg : Good st) {w : String} {r : WRec} {a : AM} (hw : AMap.get st.wal w = some (r, a))
    (idx : Nat) (hidx : idx < r.nExt) (p : Pass) : (signHash st w 0 idx p).2 = gateOut r.pass p := by
  have ha : a = {} := locked_of_get hg.1 hw
  subst ha
  obtain ⟨h0, salt, ckE, ckP, x, h1, h2, h3, h4, h5⟩ := hg.2.1 w r _ hw
  unfold signHash gateOut
  rw [hw]
  simp only [signBtcec, hidx, checkPassword_locked, h1]
  by_cases hp : p = r.pass
  · subst hp
    simp [deriveKey_right salt _ h0, h4, h5, dec]
  · simp [hp, deriveKey_wrong salt r.pass p h0 hp, fail]

theorem signHash_refused {st : St} {w : String} {b i : Nat} {p : Pass} (hg : Good st)
    (h : (signHash st w b i p).2 = .err "pass") : (signHash st w b i p).1 = refused st := by
  have hc : clearAll st.wal = st.wal := clearAll_of_locked st.wal hg.1
  unfold signHash at h ⊢
  split at h
  · simp at h
  · dsimp only at h ⊢
    split at h
    · rename_i c hc'
      simp [fail] at h
      subst h
      simp [fail, refused, hc]
    · rename_i o ho
      rw [h] at ho
      exact absurd rfl (ho "pass")

theorem importKS_out {st : St} {k : String} {x : Export} (hx : AMap.get st.exports k = some x)
    {q : Pass} (hq : ExpSealed x q) (p : Pass) : (importKS st k p).2 = .err "pass" ↔ p ≠ q := by
  obtain ⟨h0, salt, ckE, e, h1, h2, h3⟩ := hq
  unfold importKS
  rw [hx]
  simp only [h1]
  by_cases hp : p = q
  · subst hp
    simp only [deriveKey_right salt _ h0, h2, h3, dec]
    simp
    split
    · simp [fail]
    · split <;> simp [fail]
  · simp [hp, deriveKey_wrong salt q p h0 hp, fail]

theorem importKS_refused {st : St} {k : String} {p : Pass} (h : (importKS st k p).2 = .err "pass") :
    (importKS st k p).1 = refused st := by
  unfold importKS at h ⊢
  split at h
  · simp at h
  · split at h
    · rfl
    · split at h
      · split at h
        · simp [fail] at h
        · split at h
          · simp [fail] at h
          · simp at h
      · simp [fail] at h

-- ------------------------------------------------------------------ the passphrase does unlock

theorem dbGet_mem {db : DB} {w : String} {k : KeyName} {t : Term} (h : dbGet db w k = t) (hne : t ≠ .pub "missing") :
    t ∈ db.map (·.2) := by
  unfold dbGet at h
  cases hg : AMap.get db (w, k) with
  | none => rw [hg] at h; simp at h; exact absurd h.symm hne
  | some v =>
    rw [hg] at h; simp at h; subst h
    exact List.mem_map.mpr ⟨_, get_mem hg, rfl⟩

/-- with the private passphrase and the database, the entropy (hence everything) is derivable -/
theorem unlock_derivable {st : St} {w : String} {r : WRec} (hag : Agree st.db w r) :
    Derivable (passT r.pass :: visible st) (.secret (.entropy r.ent)) := by
  obtain ⟨h0, salt, ckE, ckP, x, h1, h2, h3, h4, h5⟩ := hag
  have vis : ∀ t, t ∈ st.db.map (·.2) → t ∈ passT r.pass :: visible st := by
    intro t ht
    apply List.mem_cons_of_mem
    unfold visible
    simp only [List.mem_append]
    exact Or.inl (Or.inl ht)
  have d1 := Derivable.ax (vis _ (dbGet_mem h1 (by simp)))
  have d2 := Derivable.ax (vis _ (dbGet_mem h2 (by simp)))
  have d3 := Derivable.ax (vis _ (dbGet_mem h3 (by simp)))
  have dp : Derivable (passT r.pass :: visible st) (passT r.pass) := Derivable.ax (List.mem_cons_self)
  have dk := Derivable.mkKdf (Derivable.fst d1) dp
  exact Derivable.dec d3 (Derivable.dec d2 dk)

end MW.Lemmas.SecretsGateOut
