/-
  The symbolic keystore model as an abstraction of the byte level, part 3: SYM_WRITE_REFINES_BYTES for the account-bucket
  installer shared by create / import keystore / import mnemonic – on the byte inputs that the symbolic entries
  `acctEntries …` stand for, the byte-level writer succeeds and the tree it leaves represents the symbolic database after
  `putAll … (acctEntries …)`: same set of (bucket, key) written, every value the concretisation of the symbolic term.
-/
import MW.Lemmas.KsRefineAcct
namespace MW.KsRefine
open MW MW.Model.Secrets MW.Model.KsCodec MW.Model.KsBytes MW.KsCodecL
open MW.Gen.KsCodec (keystoreVersionName masterPrivKeyName masterPubKeyName cryptoPrivKeyName cryptoPubKeyName
  cryptoEntropyKeyName entropyEncKeyName accountUsageName coinTypeName remarkName externalBranchPubKeyName
  internalBranchPubKeyName externalChildNumName internalChildNumName accountMASS)

/-- the public values of wallet `w` that have a fixed format: the id marker and the version are the byte 0, coin type,
    account number and the two child counters are 4-byte little-endian integers (uint32ToBytes) -/
structure PubFmt (ρ : PubVal) (w : String) (coin nExt nInt : Nat) : Prop where
  aid : ρ (w, .aid) = [0]
  kver : ρ (w, .kver) = [0]
  coin : ρ (w, .coinType) = u32Bytes coin
  account : ρ (w, .account) = u32Bytes 1
  exNum : ρ (w, .exNum) = u32Bytes nExt
  inNum : ρ (w, .inNum) = u32Bytes nInt

/-- one symbolic entry as a byte write -/
def conc (C : BCrypto) (ρ : PubVal) (e : Key × Term) : (BPath × Bytes) × Bytes := (loc C e.1, valBytes C ρ e.1 e.2)

theorem lastW_pk_acct (id id' : Bytes) (br : Nat) (enc : Nat → Bytes) (n : Nat) (k : Bytes) :
    lastW (pkWrites id br enc n) (BPath.acct id', k) = none := by
  rw [lastW_none_iff]
  intro x hx
  simp only [pkWrites, List.mem_map] at hx
  obtain ⟨j, _, rfl⟩ := hx
  simp

/-- the counters: written as 0 by initBranchChildNum and again by updateChildNum when the hint is not 0 – the last
    write is the hint either way; the public keys are written after the counter of their branch -/
theorem lastW_mid (id : Bytes) (nInt nExt : Nat) (encI encE : Nat → Bytes) (l : BPath × Bytes) :
    lastW ([ ((BPath.acct id, key externalChildNumName), u32Bytes 0), ((BPath.acct id, key internalChildNumName), u32Bytes 0) ]
            ++ branchWrites id true nInt encI ++ branchWrites id false nExt encE) l =
    lastW ([ ((BPath.acct id, key externalChildNumName), u32Bytes nExt), ((BPath.acct id, key internalChildNumName), u32Bytes nInt) ]
            ++ pkWrites id MW.Gen.Keystore.internalBranch encI nInt ++ pkWrites id MW.Gen.Keystore.externalBranch encE nExt) l := by
  have hne : key externalChildNumName ≠ key internalChildNumName := by decide
  have hne' : key internalChildNumName ≠ key externalChildNumName := by decide
  have pk0 : ∀ br enc, pkWrites id br enc 0 = [] := fun br enc => rfl
  by_cases h1 : l = (BPath.acct id, key externalChildNumName)
  · subst h1
    by_cases hi : nInt = 0 <;> by_cases he : nExt = 0 <;>
      simp [lastW_append, lastW, branchWrites, hi, he, lastW_pk_acct, hne', pk0, childNumName]
  · by_cases h2 : l = (BPath.acct id, key internalChildNumName)
    · subst h2
      by_cases hi : nInt = 0 <;> by_cases he : nExt = 0 <;>
        simp [lastW_append, lastW, branchWrites, hi, he, lastW_pk_acct, hne, pk0, childNumName]
    · have h1' : ¬ ((BPath.acct id, key externalChildNumName) = l) := fun e => h1 e.symm
      have h2' : ¬ ((BPath.acct id, key internalChildNumName) = l) := fun e => h2 e.symm
      by_cases hi : nInt = 0 <;> by_cases he : nExt = 0 <;>
        simp [lastW_append, lastW, branchWrites, hi, he, h1', h2', pk0, childNumName]

theorem lastW_congr_append {α β : Type} [DecidableEq α] {a a' b b' : List (α × β)} (x : α)
    (h1 : lastW a x = lastW a' x) (h2 : lastW b x = lastW b' x) : lastW (a ++ b) x = lastW (a' ++ b') x := by
  rw [lastW_append, lastW_append, h1, h2]

/-- the byte writes of the installer and the concretised symbolic entries have the same last write everywhere -/
theorem acctWrites_lastW (C : BCrypto) (ρ : PubVal) (coin : Nat) (w e : String) (p : Pass) (nExt nInt : Nat)
    (privParams mkPriv mkPubParams mkPub : Term) (kPub kPriv kEnt : Nat) (hf : PubFmt ρ w coin nExt nInt)
    (l : BPath × Bytes) :
    lastW (acctWrites (acctInOf C ρ coin w e p nExt nInt privParams mkPriv mkPubParams mkPub kPub kPriv kEnt)) l =
    lastW ((acctEntries w e p nExt nInt privParams mkPriv mkPubParams mkPub kPub kPriv kEnt).map (conc C ρ)) l := by
  have hW : acctWrites (acctInOf C ρ coin w e p nExt nInt privParams mkPriv mkPubParams mkPub kPub kPriv kEnt) =
      ([ ((w, KeyName.aid), Term.pub "0"), ((w, .coinType), .pub "coin"), ((w, .account), .pub "1"),
         ((w, .acct 1), .pair (.enc (.secret (.key kPub)) (.pub "acct-xpub")) (.enc (.secret (.key kPriv)) (.secret (.acctPriv e p)))),
         ((w, .exb), .enc (.secret (.key kPub)) (.pub "branch-xpub")),
         ((w, .inb), .enc (.secret (.key kPub)) (.pub "branch-xpub")) ].map (conc C ρ)) ++
      (([ ((BPath.acct (C.walletId w), key externalChildNumName), u32Bytes 0),
          ((BPath.acct (C.walletId w), key internalChildNumName), u32Bytes 0) ]
        ++ branchWrites (C.walletId w) true nInt (fun i => C.box (C.atom (.key kPub)) (ρ (w, .pubk 1 i)))
        ++ branchWrites (C.walletId w) false nExt (fun i => C.box (C.atom (.key kPub)) (ρ (w, .pubk 0 i)))) ++
      ([ ((w, KeyName.kver), Term.pub "0"), ((w, .mpriv), privParams), ((w, .mpub), mkPubParams),
         ((w, .ent), .enc (.secret (.key kEnt)) (.secret (.entropy e))), ((w, .cpub), .enc mkPub (.secret (.key kPub))),
         ((w, .cpriv), .enc mkPriv (.secret (.key kPriv))), ((w, .cent), .enc mkPriv (.secret (.key kEnt))) ].map (conc C ρ))) := by
    simp [acctWrites, scopeWrites, tailWrites, acctInOf, conc, loc, valBytes, bytesOf, pairBytes, acctRow, genName,
      hf.aid, hf.kver, hf.coin, hf.account, MW.Gen.Keystore.walletUsage]
  have hE : (acctEntries w e p nExt nInt privParams mkPriv mkPubParams mkPub kPub kPriv kEnt).map (conc C ρ) =
      ([ ((w, KeyName.aid), Term.pub "0"), ((w, .coinType), .pub "coin"), ((w, .account), .pub "1"),
         ((w, .acct 1), .pair (.enc (.secret (.key kPub)) (.pub "acct-xpub")) (.enc (.secret (.key kPriv)) (.secret (.acctPriv e p)))),
         ((w, .exb), .enc (.secret (.key kPub)) (.pub "branch-xpub")),
         ((w, .inb), .enc (.secret (.key kPub)) (.pub "branch-xpub")) ].map (conc C ρ)) ++
      (([ ((BPath.acct (C.walletId w), key externalChildNumName), u32Bytes nExt),
          ((BPath.acct (C.walletId w), key internalChildNumName), u32Bytes nInt) ]
        ++ pkWrites (C.walletId w) MW.Gen.Keystore.internalBranch (fun i => C.box (C.atom (.key kPub)) (ρ (w, .pubk 1 i))) nInt
        ++ pkWrites (C.walletId w) MW.Gen.Keystore.externalBranch (fun i => C.box (C.atom (.key kPub)) (ρ (w, .pubk 0 i))) nExt) ++
      ([ ((w, KeyName.kver), Term.pub "0"), ((w, .mpriv), privParams), ((w, .mpub), mkPubParams),
         ((w, .ent), .enc (.secret (.key kEnt)) (.secret (.entropy e))), ((w, .cpub), .enc mkPub (.secret (.key kPub))),
         ((w, .cpriv), .enc mkPriv (.secret (.key kPriv))), ((w, .cent), .enc mkPriv (.secret (.key kEnt))) ].map (conc C ρ))) := by
    simp [acctEntries, scopeEntries, conc, loc, valBytes, bytesOf, pkWrites, genName, hf.exNum, hf.inNum, List.map_map,
      Function.comp_def, MW.Gen.Keystore.internalBranch, MW.Gen.Keystore.externalBranch]
  rw [hW, hE]
  exact lastW_congr_append l rfl (lastW_congr_append l (lastW_mid _ _ _ _ _ l) rfl)

theorem acctEntries_keyOk (w e : String) (p : Pass) (nExt nInt : Nat) (a b c d : Term) (x y z : Nat)
    (hE : nExt ≤ 4294967296) (hI : nInt ≤ 4294967296) :
    ∀ en ∈ acctEntries w e p nExt nInt a b c d x y z, KeyOk en.1.2 := by
  intro en hen
  simp only [acctEntries, scopeEntries, List.mem_append, List.mem_cons, List.mem_map, List.mem_range, List.not_mem_nil,
    or_false] at hen
  rcases hen with ((h | h) | h) | h
  · rcases h with rfl | rfl | rfl | rfl | rfl | rfl | rfl | rfl <;> simp [KeyOk]
  · obtain ⟨i, hi, rfl⟩ := h; exact ⟨by decide, by omega⟩
  · obtain ⟨i, hi, rfl⟩ := h; exact ⟨by decide, by omega⟩
  · rcases h with rfl | rfl | rfl | rfl | rfl | rfl | rfl <;> simp [KeyOk]

/-- the snacl parameter block of a passphrase: 88 bytes through the snacl codec -/
theorem paramsT_bytes (C : BCrypto) (L : Laws C) (pv : Bytes) (n : Nat) (p : Pass) :
    (bytesOf C pv (paramsT n p)).length = 88 := by
  have hwf : (Params.mk (C.salt n) (C.sha (C.kdf (C.salt n) (C.atom (.pass p)))) C.N C.R C.P).wf = true := by
    have := L.cost
    simp [Params.wf, L.salt_len, L.sha_len, MW.Gen.KsCodec.snaclKeySize, this]
  obtain ⟨bs, hm, _⟩ := unmarshal_marshal _ hwf
  simp only [paramsT, masterKey, passT, bytesOf, pairBytes, hm, Option.getD_some]
  exact marshal_length _ _ hm

/-- SYM_WRITE_REFINES_BYTES for the installer: the byte-level writer, run on the byte inputs the symbolic entries stand for,
    succeeds and leaves a tree that represents the symbolic database after the symbolic writes -/
theorem install_refines (C : BCrypto) (L : Laws C) (ρ ρ' : PubVal) (db : DB) (t : Tree) (coin : Nat) (w e : String) (p : Pass)
    (nExt nInt : Nat) (privParams mkPriv mkPubParams mkPub : Term) (kPub kPriv kEnt : Nat)
    (h : Rep C ρ db t)
    (hf : PubFmt ρ' w coin nExt nInt)
    (hρ : ∀ K, (∀ en ∈ acctEntries w e p nExt nInt privParams mkPriv mkPubParams mkPub kPub kPriv kEnt, en.1 ≠ K) → ρ' K = ρ K)
    (hE : nExt ≤ 4294967296) (hI : nInt ≤ 4294967296)
    (hpriv : bytesOf C (ρ' (w, .mpriv)) privParams ≠ []) (hpub : bytesOf C (ρ' (w, .mpub)) mkPubParams ≠ [])
    (hrow : 8 + (C.box (C.atom (.key kPub)) (ρ' (w, .acct 1))).length +
      (C.box (C.atom (.key kPriv)) (C.atom (.acctPriv e p))).length < 4294967296)
    (hnew : AMap.get db (w, .aid) = none) :
    ∃ t', initAcctBucketB t (acctInOf C ρ' coin w e p nExt nInt privParams mkPriv mkPubParams mkPub kPub kPriv kEnt) = .ok t' ∧
      Rep C ρ' (putAll db (acctEntries w e p nExt nInt privParams mkPriv mkPubParams mkPub kPub kPriv kEnt)) t' := by
  have hin : InOk (acctInOf C ρ' coin w e p nExt nInt privParams mkPriv mkPubParams mkPub kPub kPriv kEnt) := by
    refine ⟨L.id_ne w, ?_, L.box_ne _ _, L.box_ne _ _, fun j => L.box_ne _ _, fun j => L.box_ne _ _, hpub, hpriv, L.box_ne _ _,
      L.box_ne _ _, L.box_ne _ _, L.box_ne _ _⟩
    simpa only [acctInOf] using hrow
  have hnew' : bget (t .aid) (C.walletId w) = none := by
    have := rep_get L h (w, .aid) trivial
    simpa [loc, tget, hnew] using this
  refine ⟨_, initAcctBucketB_eq t _ hin hnew', ?_⟩
  have hok := acctEntries_keyOk w e p nExt nInt privParams mkPriv mkPubParams mkPub kPub kPriv kEnt hE hI
  have hlw := acctWrites_lastW C ρ' coin w e p nExt nInt privParams mkPriv mkPubParams mkPub kPub kPriv kEnt hf
  refine rep_writes L _ _ h hρ hok ?_ ?_
  · intro K hK
    rw [hlw]
    exact lastW_map (loc C) (valBytes C ρ') _ K (fun x hx hl => loc_inj C L (hok x hx) hK hl)
  · intro x hx
    have hne : lastW (acctWrites (acctInOf C ρ' coin w e p nExt nInt privParams mkPriv mkPubParams mkPub kPub kPriv kEnt)) x.1 ≠ none := by
      intro hn
      exact (lastW_none_iff _ _).mp hn x hx rfl
    rw [hlw] at hne
    have : ¬ ∀ y ∈ (acctEntries w e p nExt nInt privParams mkPriv mkPubParams mkPub kPub kPriv kEnt).map (conc C ρ'), y.1 ≠ x.1 :=
      fun hall => hne ((lastW_none_iff _ _).mpr hall)
    simp only [List.mem_map, forall_exists_index, and_imp, forall_apply_eq_imp_iff₂, not_forall] at this
    obtain ⟨en, hen, hex⟩ := this
    exact ⟨en, hen, by simpa [conc] using (not_not.mp hex).symm⟩

end MW.KsRefine
