/-
  Helper lemmas for C02 (feeLoop_terminates, feeLoop_spec): the fee fixed point of
  autoConstructTxInAndChangeTxOut.
-/
import MW.Lemmas.SelectPipeline
import MW.Model.Fee
namespace MW.Lemmas.FeeLoop
open MW MW.Model.Select MW.Model.Fee MW.Lemmas.SelectTopK MW.Lemmas.SelectGreedy MW.Lemmas.SelectPipeline

-- ------------------------------------------------------------------ arithmetic of the relay fee

theorem relayFee_eq (s : Nat) (h : 1 ≤ s) : relayFee s = min (10 * s) maxAmount := by
  have e : minRelay * s / Gen.TxBuild.feeDivisor = 10 * s := by
    show 10000 * s / 1000 = 10 * s
    omega
  have em : minRelay = 10000 := rfl
  have eM : maxAmount = 20643840000000000 := rfl
  unfold relayFee
  simp only []
  split
  · rename_i h1; rw [e] at h1; omega
  · split
    · rename_i h1 h2; rw [e] at h2; omega
    · rename_i h1 h2; rw [e] at h2 ⊢; omega

theorem relayFee_mono {a b : Nat} (ha : 1 ≤ a) (hab : a ≤ b) : relayFee a ≤ relayFee b := by
  rw [relayFee_eq a ha, relayFee_eq b (by omega)]
  omega

theorem estSize_pos (n m : Nat) : 1 ≤ estSize n m := by
  unfold estSize
  have : Gen.TxBuild.txOverhead = 12 := rfl
  omega

theorem estSize_mono {n n' m m' : Nat} (h1 : n ≤ n') (h2 : m ≤ m') : estSize n m ≤ estSize n' m' := by
  unfold estSize
  have := Nat.mul_le_mul_right inSize h1
  have := Nat.mul_le_mul_left Gen.TxBuild.outSize h2
  omega

-- ------------------------------------------------------------------ sum of the requested outputs

theorem foldOuts_eq : ∀ (l : List Nat) (acc r : Nat),
    l.foldlM (fun acc v => if acc + v > maxAmount then Except.error Model.Fee.Err.amount else Except.ok (acc + v)) acc = .ok r →
    r = acc + l.sum := by
  intro l
  induction l with
  | nil => intro acc r h; simp only [List.foldlM, pure, Except.pure, Except.ok.injEq] at h; subst h; simp
  | cons v t ih =>
    intro acc r h
    simp only [List.foldlM] at h
    by_cases hv : acc + v > maxAmount
    · rw [if_pos hv] at h; cases h
    · rw [if_neg hv] at h
      have := ih _ _ h
      simp only [List.sum_cons]; omega

theorem foldOuts_err : ∀ (l : List Nat) (acc : Nat) (e : Model.Fee.Err),
    l.foldlM (fun acc v => if acc + v > maxAmount then Except.error Model.Fee.Err.amount else Except.ok (acc + v)) acc = .error e →
    e = .amount := by
  intro l
  induction l with
  | nil => intro acc e h; simp only [List.foldlM, pure, Except.pure] at h; cases h
  | cons v t ih =>
    intro acc e h
    simp only [List.foldlM] at h
    by_cases hv : acc + v > maxAmount
    · rw [if_pos hv] at h; injection h with h; exact h.symm
    · rw [if_neg hv] at h; exact ih _ _ h

theorem foldOuts_ok : ∀ (l : List Nat) (acc : Nat), acc + l.sum ≤ maxAmount →
    l.foldlM (fun acc v => if acc + v > maxAmount then Except.error Model.Fee.Err.amount else Except.ok (acc + v)) acc = .ok (acc + l.sum) := by
  intro l
  induction l with
  | nil => intro acc _; simp [List.foldlM, pure, Except.pure]
  | cons v t ih =>
    intro acc h
    simp only [List.sum_cons] at h
    simp only [List.foldlM]
    rw [if_neg (by omega)]
    have := ih (acc + v) (by omega)
    simp only [List.sum_cons, bind, Except.bind]
    rw [this]
    congr 1; omega

theorem sumOuts_eq (outs : List Nat) (r : Nat) (h : sumOuts outs = .ok r) : r = outs.sum := by
  have := foldOuts_eq outs 0 r h; omega

theorem sumOuts_err (outs : List Nat) (e : Model.Fee.Err) (h : sumOuts outs = .error e) : e = .amount :=
  foldOuts_err outs 0 e h

theorem sumOuts_ok (outs : List Nat) (h : outs.sum ≤ maxAmount) : sumOuts outs = .ok outs.sum := by
  have := foldOuts_ok outs 0 (by omega)
  simpa [sumOuts] using this

-- ------------------------------------------------------------------ findEligible

theorem items_length (s : Sel) (coins : List Coin) (inv : Inv s coins) : s.items.length ≤ s.k + 1 := by
  have h := inv.size_le
  unfold Sel.items
  cases s.guard <;> simp <;> omega

theorem pipeline_facts (k amount : Nat) (coins sel : List Coin) (found : Nat) (of : Bool)
    (h : pipeline k amount coins = .ok (sel, found, of)) :
    SubMultiset sel coins ∧ found = sumAmt sel ∧ sel.length ≤ k + 1 ∧
    (sumAmt (submitAll (newSel k amount) coins).items ≥ amount → found ≥ amount) := by
  unfold pipeline at h
  simp only [] at h
  have inv : Inv (submitAll (newSel k amount) coins) coins := by
    have := inv_submitAll (newSel k amount) [] coins (inv_init k amount)
    simpa using this
  have hk : (submitAll (newSel k amount) coins).k = k := by rw [submitAll_k]; rfl
  cases ho : optOutputs amount (submitAll (newSel k amount) coins).items with
  | error e => rw [ho] at h; simp at h
  | ok r =>
    rw [ho] at h
    simp only [Except.ok.injEq, Prod.mk.injEq] at h
    obtain ⟨h1, h2, _⟩ := h
    subst h1; subst h2
    obtain ⟨hsub, hsum, hreach⟩ := optOutputs_sound _ _ _ ho
    refine ⟨SubMultiset.trans hsub (items_sub _ _ inv), hsum, ?_, hreach⟩
    have := hsub.length_le
    have := items_length _ _ inv
    omega

theorem findEligible_facts (env : Env) (amount : Nat) (f : Found) (h : findEligible env amount = .ok f) :
    SubMultiset f.sel env.coins ∧ f.found = sumAmt f.sel ∧ f.sel.length ≤ env.k + 1 ∧
    f.first = (f.sel.head?.map (·.addr)).getD "" ∧ amount ≠ 0 := by
  unfold findEligible at h
  by_cases h0 : amount = 0
  · simp [h0] at h
  · simp only [h0, if_false] at h
    cases hp : pipeline env.k amount env.coins with
    | error e => rw [hp] at h; simp at h
    | ok r =>
      obtain ⟨sel, found, of⟩ := r
      rw [hp] at h
      simp only [Except.ok.injEq] at h
      subst h
      obtain ⟨a, b, c, _⟩ := pipeline_facts _ _ _ _ _ _ hp
      exact ⟨a, b, c, rfl, h0⟩

-- ------------------------------------------------------------------ inner loop

/-- what a successful inner loop guarantees -/
structure InnerOk (env : Env) (target outSum nOut : Nat) (chgAddr : String)
    (sel : List Coin) (chg : Option (String × Nat)) (len : Nat) : Prop where
  sub : SubMultiset sel env.coins
  lenSel : sel.length ≤ env.k + 1
  conserve : sumAmt sel = target + outSum + (chg.map (·.2)).getD 0
  chgOk : ∀ a c, chg = some (a, c) →
    c ≥ minRelay ∧ a = (if chgAddr.length > 0 then chgAddr else (sel.head?.map (·.addr)).getD "")
  len : len = nOut + (if chg.isSome then 1 else 0)
  bounded : target + outSum ≤ maxAmount

theorem addAmt_ok (a b c : Nat) (h : addAmt a b = .ok c) : c = a + b ∧ a + b ≤ maxAmount := by
  unfold addAmt at h
  split at h
  · simp at h
  · simp only [Except.ok.injEq] at h; omega

theorem innerLoop_spec (env : Env) (target outSum nOut : Nat) (chgAddr : String) :
    (∀ r, innerLoop env target outSum nOut chgAddr 2 0 = .ok r → InnerOk env target outSum nOut chgAddr r.1 r.2.1 r.2.2) ∧
    innerLoop env target outSum nOut chgAddr 2 0 ≠ .error .fuel := by
  -- second iteration (adj = MinRelayTxFee), fuel 1
  have second : (∀ r, innerLoop env target outSum nOut chgAddr 1 minRelay = .ok r →
        InnerOk env target outSum nOut chgAddr r.1 r.2.1 r.2.2) ∧
      innerLoop env target outSum nOut chgAddr 1 minRelay ≠ .error .fuel := by
    unfold innerLoop
    cases ha : addAmt target outSum with
    | error e => simp; unfold addAmt at ha; split at ha <;> simp at ha; subst ha; simp
    | ok want =>
      obtain ⟨hw, hwb⟩ := addAmt_ok _ _ _ ha
      simp only []
      cases ha2 : addAmt want minRelay with
      | error e => simp; unfold addAmt at ha2; split at ha2 <;> simp at ha2; subst ha2; simp
      | ok wantAdj =>
        obtain ⟨hw2, _⟩ := addAmt_ok _ _ _ ha2
        simp only []
        cases hf : findEligible env wantAdj with
        | error e =>
          simp
          unfold findEligible at hf
          split at hf
          · simp at hf; subst hf; simp
          · split at hf <;> simp at hf
            subst hf; simp
        | ok f =>
          obtain ⟨fsub, ffound, flen, ffirst, _⟩ := findEligible_facts _ _ _ hf
          simp only []
          by_cases hlt : f.found < wantAdj
          · simp only [hlt, if_true]
            constructor
            · intro r hr; simp at hr
            · cases f.overfull <;> simp
          · simp only [hlt, if_false]
            have hne : f.found - want ≠ 0 := by
              have : minRelay = 10000 := rfl
              omega
            have hnlt : ¬ (f.found - want < minRelay) := by omega
            simp only [hne, ne_eq, not_false_eq_true, if_true, hnlt, if_false]
            constructor
            · intro r hr
              simp only [Except.ok.injEq] at hr
              subst hr
              refine ⟨fsub, flen, ?_, ?_, by simp, by omega⟩
              · simp only [Option.map_some, Option.getD_some]; omega
              · intro a c hac
                simp only [Option.some.injEq, Prod.mk.injEq] at hac
                obtain ⟨h1, h2⟩ := hac
                subst h1; subst h2
                refine ⟨by omega, ?_⟩
                rw [ffirst]
            · simp
  unfold innerLoop
  cases ha : addAmt target outSum with
  | error e => simp; unfold addAmt at ha; split at ha <;> simp at ha; subst ha; simp
  | ok want =>
    obtain ⟨hw, hwb⟩ := addAmt_ok _ _ _ ha
    simp only []
    cases ha2 : addAmt want 0 with
    | error e => simp; unfold addAmt at ha2; split at ha2 <;> simp at ha2; subst ha2; simp
    | ok wantAdj =>
      obtain ⟨hw2, _⟩ := addAmt_ok _ _ _ ha2
      simp only []
      cases hf : findEligible env wantAdj with
      | error e =>
        simp
        unfold findEligible at hf
        split at hf
        · simp at hf; subst hf; simp
        · split at hf <;> simp at hf
          subst hf; simp
      | ok f =>
        obtain ⟨fsub, ffound, flen, ffirst, _⟩ := findEligible_facts _ _ _ hf
        simp only []
        by_cases hlt : f.found < wantAdj
        · simp only [hlt, if_true]
          constructor
          · intro r hr; simp at hr
          · cases f.overfull <;> simp
        · simp only [hlt, if_false]
          by_cases hz : f.found - want ≠ 0
          · simp only [hz, ne_eq, not_false_eq_true, if_true]
            by_cases hd : f.found - want < minRelay
            · simp only [hd, if_true]
              -- the retry with room for a non-dust change
              exact second
            · simp only [hd, if_false]
              constructor
              · intro r hr
                simp only [Except.ok.injEq] at hr
                subst hr
                refine ⟨fsub, flen, ?_, ?_, by simp, by omega⟩
                · simp only [Option.map_some, Option.getD_some]; omega
                · intro a c hac
                  simp only [Option.some.injEq, Prod.mk.injEq] at hac
                  obtain ⟨h1, h2⟩ := hac
                  subst h1; subst h2
                  refine ⟨by omega, ?_⟩
                  rw [ffirst]
              · simp
          · simp only [hz, if_false]
            constructor
            · intro r hr
              simp only [Except.ok.injEq] at hr
              subst hr
              refine ⟨fsub, flen, ?_, ?_, by simp, by omega⟩
              · simp only [Option.map_none, Option.getD_none]; omega
              · intro a c hac; simp at hac
            · simp

-- ------------------------------------------------------------------ outer loop

/-- the relay fee of the largest size a selection of the selector can have -/
def feeBound (k nOut payloadLen : Nat) : Nat := relayFee (sizeBound k nOut payloadLen)

theorem required_le_bound (k nOut payloadLen n m : Nat) (hn : n ≤ k + 1) (hm : m ≤ nOut + 1) :
    relayFee (estSize n m + payloadLen) ≤ feeBound k nOut payloadLen := by
  unfold feeBound sizeBound
  apply relayFee_mono
  · have := estSize_pos n m; omega
  · have := estSize_mono hn hm; omega

/-- what a successful automatic construction guarantees, relative to the target fee it started from -/
structure AutoOk (env : Env) (outSum nOut payloadLen : Nat) (chgAddr : String) (target0 : Nat) (res : AutoRes) : Prop where
  sub : SubMultiset res.ins env.coins
  lenIns : res.ins.length ≤ env.k + 1
  conserve : sumAmt res.ins = outSum + (res.change.map (·.2)).getD 0 + res.fee
  feeGeTarget : res.fee ≥ target0
  feeGeRelay : res.fee ≥ relayFee (estSize res.ins.length (nOut + (if res.change.isSome then 1 else 0)) + payloadLen)
  feeLe : res.fee ≤ max target0 (feeBound env.k nOut payloadLen)
  chgOk : ∀ a c, res.change = some (a, c) →
    c ≥ minRelay ∧ a = (if chgAddr.length > 0 then chgAddr else (res.ins.head?.map (·.addr)).getD "")
  resolvable : ∀ c ∈ res.ins, env.resolvable c = true
  bounded : res.fee + outSum ≤ maxAmount

theorem outerLoop_spec (env : Env) (outSum nOut payloadLen : Nat) (chgAddr : String) :
    ∀ (fuel target : Nat) (res : AutoRes), outerLoop env outSum nOut payloadLen chgAddr fuel target = .ok res →
      AutoOk env outSum nOut payloadLen chgAddr target res := by
  intro fuel
  induction fuel with
  | zero => intro target res h; simp [outerLoop] at h
  | succ f ih =>
    intro target res h
    unfold outerLoop at h
    cases hi : innerLoop env target outSum nOut chgAddr 2 0 with
    | error e => rw [hi] at h; simp at h
    | ok r =>
      obtain ⟨sel, chg, len⟩ := r
      rw [hi] at h
      simp only [] at h
      have io := (innerLoop_spec env target outSum nOut chgAddr).1 _ hi
      simp only [] at io
      by_cases hres : sel.any (fun c => !env.resolvable c) = true
      · simp [hres] at h
      · simp only [hres] at h
        by_cases hge : target ≥ relayFee (estSize sel.length len + payloadLen)
        · simp only [hge, if_true] at h
          simp only [Bool.false_eq_true, if_false, Except.ok.injEq] at h
          subst h
          refine ⟨io.sub, io.lenSel, ?_, Nat.le_refl _, ?_, Nat.le_max_left _ _, io.chgOk, ?_, io.bounded⟩
          · have := io.conserve; simp only []; omega
          · simp only []; rw [← io.len]; exact hge
          · intro c hc
            simp only [] at hc
            have : ¬ (!env.resolvable c) = true := by
              intro hh
              exact hres (List.any_eq_true.mpr ⟨c, hc, hh⟩)
            simpa using this
        · simp only [hge, if_false] at h
          simp only [Bool.false_eq_true, if_false] at h
          have a := ih _ res h
          have hb : relayFee (estSize sel.length len + payloadLen) ≤ feeBound env.k nOut payloadLen := by
            apply required_le_bound _ _ _ _ _ io.lenSel
            rw [io.len]; split <;> omega
          refine ⟨a.sub, a.lenIns, a.conserve, ?_, a.feeGeRelay, ?_, a.chgOk, a.resolvable, a.bounded⟩
          · have := a.feeGeTarget; omega
          · have := a.feeLe
            have h1 : max (relayFee (estSize sel.length len + payloadLen)) (feeBound env.k nOut payloadLen) = feeBound env.k nOut payloadLen :=
              Nat.max_eq_right hb
            rw [h1] at this
            exact Nat.le_trans this (Nat.le_max_right _ _)

theorem outerLoop_terminates (env : Env) (outSum nOut payloadLen : Nat) (chgAddr : String) :
    ∀ (fuel target : Nat), feeBound env.k nOut payloadLen + 1 - target < fuel →
      outerLoop env outSum nOut payloadLen chgAddr fuel target ≠ .error .fuel := by
  intro fuel
  induction fuel with
  | zero => intro target h; omega
  | succ f ih =>
    intro target hf
    unfold outerLoop
    cases hi : innerLoop env target outSum nOut chgAddr 2 0 with
    | error e =>
      simp only []
      intro hh
      injection hh with hh
      subst hh
      exact (innerLoop_spec env target outSum nOut chgAddr).2 hi
    | ok r =>
      obtain ⟨sel, chg, len⟩ := r
      simp only []
      have io := (innerLoop_spec env target outSum nOut chgAddr).1 _ hi
      simp only [] at io
      by_cases hres : sel.any (fun c => !env.resolvable c) = true
      · simp [hres]
      · simp only [hres, Bool.false_eq_true, if_false]
        by_cases hge : target ≥ relayFee (estSize sel.length len + payloadLen)
        · simp [hge]
        · simp only [hge, if_false]
          apply ih
          have hb : relayFee (estSize sel.length len + payloadLen) ≤ feeBound env.k nOut payloadLen := by
            apply required_le_bound _ _ _ _ _ io.lenSel
            rw [io.len]; split <;> omega
          omega

end MW.Lemmas.FeeLoop
