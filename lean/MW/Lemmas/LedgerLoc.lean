/-
  The LOCAL consistency invariants of the books (`Loc`, `LocG`, LedgerRefine.lean) hold along a valid
  chain, proved on the books alone (no model involved):
    spendB_loc / spendFold_loc      spending keeps `Loc` and `LocG`
    createB_loc / createFold_loc    crediting fresh outpoints keeps `Loc` and `LocGx`
    loc_step / loc_fold / loc_bookOf   one valid transaction / a valid run / the books of a valid chain
  and two facts on the block structure of `bookOf`:
    bookOf_snoc             the books of `chain ++ [b]` are the books of `chain` after the transactions of `b`
    bookOf_blocks_height    the block table has no entry above the heights of the chain
-/
import MW.Lemmas.LedgerBlock
namespace MW.Lemmas.Ledger
open MW MW.Model.Ledger MW.Spec.Chain MW.Spec.Books

-- ------------------------------------------------------------------ spendB

theorem spendB_loc {p : Params} {own : Own} {t : Tx} {bm : BlockMeta} {B : Book} {k : Nat} {i : Inp}
    (hL : Loc p own B) (hG : LocG B) :
    Loc p own (spendB p t bm B k i) ∧ LocG (spendB p t bm B k i) := by
  cases hu : lookupU B.L i.tx i.idx with
  | none => rw [spendB_miss hu]; exact ⟨hL, hG⟩
  | some u =>
    obtain ⟨_, htx, hidx⟩ := lookupU_some hu
    have hB' : spendB p t bm B k i =
        { B with
          L := B.L.filter (fun u' => !UCoin.at i.tx i.idx u'),
          credits := upd B.credits u.credKey (some { creditOf p u with spent := true, spentBy := some ⟨t.id, bm, k⟩ }),
          debits := upd B.debits ⟨t.id, bm, k⟩ (some (u.out.amt, u.credKey)),
          game := if isDeposit u.out.cls then upd (upd B.game (u.gameKey false) none) (u.gameKey true) (some ())
                  else B.game } := by
      unfold spendB; rw [hu]
    have hrest : ∀ u' ∈ B.L.filter (fun u' => !UCoin.at i.tx i.idx u'),
        u' ∈ B.L ∧ ¬ (u'.tx = u.tx ∧ u'.idx = u.idx) := by
      intro u' hu'
      have hm := List.mem_filter.1 hu'
      refine ⟨hm.1, ?_⟩
      have := hm.2
      rw [htx, hidx]
      intro h
      have h' := (at_iff i.tx i.idx u').2 h
      simp [h'] at this
    rw [hB']
    refine ⟨⟨keysOK_filter hL.keys _, ?_, ?_⟩, ?_⟩
    · intro u' hu'
      obtain ⟨hm, hne⟩ := hrest u' hu'
      simp only [upd_apply, credKey_ne_of_key_ne hne, if_false]
      exact hL.cred u' hm
    · intro u' hu'
      exact hL.own u' (hrest u' hu').1
    · intro u' hu' hd'
      obtain ⟨hm, hne⟩ := hrest u' hu'
      by_cases hd : isDeposit u.out.cls = true
      · simp only [hd, if_true, upd_apply, gameKey_ne_of_key_ne true false hne,
          gameKey_ne_of_key_ne false false hne, if_false]
        exact hG u' hm hd'
      · simp only [hd]
        exact hG u' hm hd'

theorem spendFold_loc {p : Params} {own : Own} {t : Tx} {bm : BlockMeta} (is : List Inp) :
    ∀ (k : Nat) (B : Book), Loc p own B → LocG B →
      Loc p own (foldIdx (spendB p t bm) is k B) ∧ LocG (foldIdx (spendB p t bm) is k B) := by
  induction is with
  | nil => intro k B hL hG; exact ⟨hL, hG⟩
  | cons i is ih =>
    intro k B hL hG
    rw [foldIdx_cons]
    obtain ⟨hL1, hG1⟩ := spendB_loc (t := t) (bm := bm) (k := k) (i := i) hL hG
    exact ih (k + 1) _ hL1 hG1

/-- the spend fold writes no credit and no ledger entry of a transaction that has none yet -/
theorem spendFold_freshCL {p : Params} {t : Tx} {bm : BlockMeta} {tid : TxId} (is : List Inp) :
    ∀ (k : Nat) (B : Book), (∀ bm' j, B.credits ⟨tid, bm', j⟩ = none ∧ lookupU B.L tid j = none) →
      ∀ bm' j, (foldIdx (spendB p t bm) is k B).credits ⟨tid, bm', j⟩ = none ∧
        lookupU (foldIdx (spendB p t bm) is k B).L tid j = none := by
  induction is with
  | nil => intro k B h; exact h
  | cons i is ih =>
    intro k B h
    rw [foldIdx_cons]
    apply ih
    cases hu : lookupU B.L i.tx i.idx with
    | none => rw [spendB_miss hu]; exact h
    | some u =>
      have hmem := (lookupU_some hu).1
      have hne : u.tx ≠ tid := by
        intro he
        exact lookupU_none (h bm u.idx).2 u hmem ⟨he, rfl⟩
      intro bm' j
      unfold spendB; rw [hu]
      refine ⟨?_, ?_⟩
      · have : ¬ (u.credKey = (⟨tid, bm', j⟩ : CredKey)) := by
          intro he; unfold UCoin.credKey at he; injection he with h1 _ _; exact hne h1
        simp only [upd_apply, this, if_false]; exact (h bm' j).1
      · show lookupU (B.L.filter _) tid j = none
        rw [lookupU_filter, (h bm' j).2]; simp

-- ------------------------------------------------------------------ createB

theorem createB_loc {p : Params} {own : Own} {t : Tx} {bm : BlockMeta} {B : Book} {j : Nat} {o : Out}
    (hL : Loc p own B) (hG : LocGx t.id B)
    (hfL : lookupU B.L t.id j = none) :
    Loc p own (createB p own t bm B j o) ∧ LocGx t.id (createB p own t bm B j o) := by
  cases ho : ownerOf own o with
  | none => rw [createB_none ho]; exact ⟨hL, hG⟩
  | some wc =>
    obtain ⟨w, ch⟩ := wc
    let u : UCoin := ⟨w, t.id, j, bm, t.cb, o, ch⟩
    have hB' : createB p own t bm B j o =
        { B with
          L := B.L ++ [u],
          credits := upd B.credits u.credKey (some (creditOf p u)),
          addrs := match B.addrs (w, o.cls.isStaking, o.addr) with
            | some h => if h = 0 then upd B.addrs (w, o.cls.isStaking, o.addr) (some bm.height) else B.addrs
            | none => upd B.addrs (w, o.cls.isStaking, o.addr) (some bm.height) } := by
      unfold createB; rw [ho]; rfl
    rw [hB']
    refine ⟨⟨keysOK_append_single hL.keys u hfL, ?_, ?_⟩, ?_⟩
    · intro u' hu'
      rcases List.mem_append.1 hu' with h | h
      · have hne : u.credKey ≠ u'.credKey := by
          apply credKey_ne_of_key_ne
          intro hk
          exact lookupU_none hfL u' h hk
        simp only [upd_apply, hne, if_false]
        exact hL.cred u' h
      · simp only [List.mem_singleton] at h
        subst h
        simp [upd_apply]
    · intro u' hu'
      rcases List.mem_append.1 hu' with h | h
      · exact hL.own u' h
      · simp only [List.mem_singleton] at h
        subst h; exact ho
    · intro u' hu' hne hd
      rcases List.mem_append.1 hu' with h | h
      · exact hG u' h hne hd
      · simp only [List.mem_singleton] at h
        subst h; exact absurd rfl hne

theorem createFold_loc {p : Params} {own : Own} {t : Tx} {bm : BlockMeta} (os : List Out) :
    ∀ (j : Nat) (B : Book), Loc p own B → LocGx t.id B →
      (∀ j', j ≤ j' → B.credits ⟨t.id, bm, j'⟩ = none ∧ lookupU B.L t.id j' = none) →
      Loc p own (foldIdx (createB p own t bm) os j B) ∧ LocGx t.id (foldIdx (createB p own t bm) os j B) := by
  induction os with
  | nil => intro j B hL hG _; exact ⟨hL, hG⟩
  | cons o os ih =>
    intro j B hL hG hfresh
    rw [foldIdx_cons]
    obtain ⟨hL1, hG1⟩ := createB_loc (bm := bm) (o := o) hL hG (hfresh j (Nat.le_refl _)).2
    refine ih (j + 1) _ hL1 hG1 ?_
    intro j' hj'
    have hf := hfresh j' (by omega)
    cases ho : ownerOf own o with
    | none => rw [createB_none ho]; exact hf
    | some wc =>
      obtain ⟨w, ch⟩ := wc
      obtain ⟨hLe, hCe⟩ := createB_owned (p := p) (t := t) (bm := bm) (B := B) (j := j) ho
      rw [hLe, hCe]
      constructor
      · have : ¬ ((⟨t.id, bm, j⟩ : CredKey) = ⟨t.id, bm, j'⟩) := by
          intro h; injection h with _ _ h3; omega
        simp only [upd_apply, this, if_false]; exact hf.1
      · rw [lookupU_append_single, hf.2]
        have : ¬ (j = j') := by omega
        simp [this]

-- ------------------------------------------------------------------ one transaction, a run, a chain

theorem recStep_game (own : Own) (B : Book) (oc : Occ) : (recStep own B oc).game = B.game := by
  unfold recStep; by_cases h : touches own B oc.t = true <;> simp [h, recordB]

theorem loc_step {p : Params} {own : Own} {P : List Occ} {B : Book} {oc : Occ}
    (hL : Loc p own B) (hG : LocG B) (hGl : Glob own P B) (hV : OccValid own P oc) :
    Loc p own (applyOcc p own B oc) ∧ LocG (applyOcc p own B oc) := by
  have hfresh := glob_fresh hGl hV
  rw [applyOcc_eq]
  -- record
  have hL1 : Loc p own (recStep own B oc) := hL.congr (recStep_L ..) (recStep_credits ..)
  have hG1 : LocG (recStep own B oc) := by
    intro u hu hd
    rw [recStep_L] at hu
    rw [recStep_game]; exact hG u hu hd
  have hF1 : ∀ bm j, (recStep own B oc).credits ⟨oc.t.id, bm, j⟩ = none ∧
      lookupU (recStep own B oc).L oc.t.id j = none := by
    intro bm j
    rw [recStep_L, recStep_credits]
    exact ⟨(hfresh bm j).1, (hfresh bm j).2.1⟩
  -- spends
  have h2 : (Loc p own (spendStep p (recStep own B oc) oc) ∧ LocG (spendStep p (recStep own B oc) oc)) ∧
      ∀ bm j, (spendStep p (recStep own B oc) oc).credits ⟨oc.t.id, bm, j⟩ = none ∧
        lookupU (spendStep p (recStep own B oc) oc).L oc.t.id j = none := by
    unfold spendStep
    by_cases hcb : oc.t.cb = true
    · simp only [hcb, if_true]; exact ⟨⟨hL1, hG1⟩, hF1⟩
    · simp only [hcb]
      exact ⟨spendFold_loc oc.t.ins 0 _ hL1 hG1, spendFold_freshCL oc.t.ins 0 _ hF1⟩
  obtain ⟨⟨hL2, hG2⟩, hF2⟩ := h2
  -- credits
  obtain ⟨hL3, _⟩ := createFold_loc (p := p) (own := own) (t := oc.t) (bm := oc.bm) oc.t.outs 0 _ hL2
    (hG2.toLocGx _) (fun j' _ => hF2 oc.bm j')
  -- deposit records
  have hdl := depositFold_L own oc.t oc.bm oc.t.outs 0
    (foldIdx (createB p own oc.t oc.bm) oc.t.outs 0 (spendStep p (recStep own B oc) oc))
  exact ⟨hL3.congr hdl.1 hdl.2.1, locG_after_outputs (hG2.toLocGx _) (fun j => (hF2 oc.bm j).2)⟩

theorem loc_fold {p : Params} {own : Own} {P : List Occ} {B : Book} {rest : List Occ} :
    Loc p own B → LocG B → Glob own P B → ValidFrom own P rest →
      Loc p own (rest.foldl (applyOcc p own) B) ∧ LocG (rest.foldl (applyOcc p own) B) := by
  induction rest generalizing P B with
  | nil => intro hL hG _ _; exact ⟨hL, hG⟩
  | cons oc rest ih =>
    intro hL hG hGl hV
    obtain ⟨hV1, hV2⟩ := hV
    obtain ⟨hL1, hG1⟩ := loc_step hL hG hGl hV1
    rw [List.foldl_cons]
    exact ih hL1 hG1 (glob_step (p := p) hGl hV1) hV2

theorem loc_nil (p : Params) (own : Own) : Loc p own {} ∧ LocG {} := by
  refine ⟨⟨?_, ?_, ?_⟩, ?_⟩
  · exact List.nodup_nil
  · intro u hu; exact absurd hu List.not_mem_nil
  · intro u hu; exact absurd hu List.not_mem_nil
  · intro u hu; exact absurd hu List.not_mem_nil

theorem loc_bookOf {p : Params} {own : Own} {chain : List Block} :
    ChainValid own chain → Loc p own (bookOf p own chain) ∧ LocG (bookOf p own chain) := by
  intro h
  unfold bookOf
  exact loc_fold (loc_nil p own).1 (loc_nil p own).2 (glob_nil own) h

-- ------------------------------------------------------------------ block structure of `bookOf`

theorem bookOf_snoc (p : Params) (own : Own) (chain : List Block) (b : Block) :
    bookOf p own (chain ++ [b]) = (occsOfBlock b).foldl (applyOcc p own) (bookOf p own chain) := by
  unfold bookOf
  rw [occs_append, List.foldl_append]
  congr 1
  unfold occs
  simp

theorem spendB_blocks (p : Params) (t : Tx) (bm : BlockMeta) (B : Book) (k : Nat) (i : Inp) :
    (spendB p t bm B k i).blocks = B.blocks := by
  unfold spendB
  cases h : lookupU B.L i.tx i.idx <;> rfl

theorem spendFold_blocks (p : Params) (t : Tx) (bm : BlockMeta) (is : List Inp) (k : Nat) (B : Book) :
    (foldIdx (spendB p t bm) is k B).blocks = B.blocks := by
  induction is generalizing k B with
  | nil => rfl
  | cons i is ih => rw [foldIdx_cons, ih, spendB_blocks]

theorem createB_blocks (p : Params) (own : Own) (t : Tx) (bm : BlockMeta) (B : Book) (j : Nat) (o : Out) :
    (createB p own t bm B j o).blocks = B.blocks := by
  unfold createB
  cases h : ownerOf own o <;> rfl

theorem createFold_blocks (p : Params) (own : Own) (t : Tx) (bm : BlockMeta) (os : List Out) (j : Nat) (B : Book) :
    (foldIdx (createB p own t bm) os j B).blocks = B.blocks := by
  induction os generalizing j B with
  | nil => rfl
  | cons o os ih => rw [foldIdx_cons, ih, createB_blocks]

/-- a transaction only writes the block record at its own height -/
theorem applyOcc_blocks_ne (p : Params) (own : Own) (B : Book) (oc : Occ) (k : Nat) (hk : oc.bm.height ≠ k) :
    (applyOcc p own B oc).blocks k = B.blocks k := by
  rw [applyOcc_eq, (depositFold_L ..).2.2.2.2.1, createFold_blocks]
  have h1 : (spendStep p (recStep own B oc) oc).blocks = (recStep own B oc).blocks := by
    unfold spendStep
    by_cases hcb : oc.t.cb = true
    · simp [hcb]
    · simp only [hcb]; exact spendFold_blocks ..
  rw [h1]
  unfold recStep
  by_cases ht : touches own B oc.t = true
  · simp only [ht, if_true, recordB]
    cases hb : B.blocks oc.bm.height with
    | none => simp only [upd_apply, hk, if_false]
    | some v => obtain ⟨bh, txs⟩ := v; simp only [upd_apply, hk, if_false]
  · simp [ht]

theorem foldOcc_blocks_ne (p : Params) (own : Own) (rest : List Occ) (k : Nat) :
    ∀ (B : Book), (∀ oc ∈ rest, oc.bm.height ≠ k) → (rest.foldl (applyOcc p own) B).blocks k = B.blocks k := by
  induction rest with
  | nil => intro B _; rfl
  | cons oc rest ih =>
    intro B h
    rw [List.foldl_cons, ih _ (fun oc' h' => h oc' (List.mem_cons_of_mem _ h')),
      applyOcc_blocks_ne p own B oc k (h oc (List.mem_cons_self ..))]

theorem mem_occsFrom_bm {bm : BlockMeta} {ts : List Tx} {i : Nat} {oc : Occ} (h : oc ∈ occsFrom bm ts i) :
    oc.bm = bm := by
  induction ts generalizing i with
  | nil => simp [occsFrom] at h
  | cons t ts ih =>
    simp only [occsFrom, List.mem_cons] at h
    rcases h with h | h
    · rw [h]
    · exact ih h

/-- every transaction of a chain sits in a block of the chain -/
theorem mem_occs_height {chain : List Block} {oc : Occ} (h : oc ∈ occs chain) :
    ∃ b ∈ chain, oc.bm = ⟨b.height, b.id⟩ := by
  unfold occs at h
  obtain ⟨b, hb, hoc⟩ := List.mem_flatMap.1 h
  exact ⟨b, hb, mem_occsFrom_bm hoc⟩

/-- the block table only has entries at heights of blocks of the chain -/
theorem bookOf_blocks_mem {p : Params} {own : Own} {chain : List Block} {k : Nat}
    (h : (bookOf p own chain).blocks k ≠ none) : ∃ b ∈ chain, b.height = k := by
  apply Classical.byContradiction
  intro hno
  apply h
  unfold bookOf
  rw [foldOcc_blocks_ne]
  intro oc hoc hk
  obtain ⟨b, hb, hbm⟩ := mem_occs_height hoc
  exact hno ⟨b, hb, by rw [← hk, hbm]⟩

theorem bookOf_blocks_height {p : Params} {own : Own} {chain : List Block} {n : Nat}
    (h : ∀ b ∈ chain, b.height < n) : ∀ k, n ≤ k → (bookOf p own chain).blocks k = none := by
  intro k hk
  cases hb : (bookOf p own chain).blocks k with
  | none => rfl
  | some v =>
    exfalso
    obtain ⟨b, hbm, hh⟩ := bookOf_blocks_mem (p := p) (own := own) (chain := chain) (k := k) (by rw [hb]; simp)
    have := h b hbm
    omega

end MW.Lemmas.Ledger
