/-
  C07 stage 1 (single restored keystore): ranges of heights, one batch (`importStep`), the whole rescan
  (`runBatches`), ending in C01's invariant `Inv` for the node's chain.
-/
import MW.Lemmas.ImportScan
import MW.Lemmas.ImportPlan
import MW.Lemmas.LedgerObs3
namespace MW.Lemmas.ImportExact
open MW MW.Model.Ledger MW.Model.Import MW.Spec.Chain MW.Spec.Books MW.Lemmas.Ledger MW.Lemmas.ImportPlan

theorem plan_single (c : Ctx) (w : Wid) (h : Nat) :
    plan c.node (managed c.own w) h h = match c.node.blockAt h with
      | some b => itemsOf c w ⟨h, b.id⟩ b.txs 0
      | none => [] := by
  unfold plan batchHeights
  have : h + 1 - h = 1 := by omega
  rw [this]
  simp only [List.range_one, List.map_cons, List.map_nil, Nat.zero_add, List.flatMap_cons, List.flatMap_nil,
    List.append_nil]
  cases hb : c.node.blockAt h with
  | none => rfl
  | some b =>
    simp only [relatedAt, hb, itemsOf, List.map_map]
    rfl

theorem ex_foldlM_append {ε α β : Type} (f : β → α → Except ε β) (l l' : List α) (b b1 b2 : β)
    (h1 : l.foldlM f b = .ok b1) (h2 : l'.foldlM f b1 = .ok b2) : (l ++ l').foldlM f b = .ok b2 := by
  rw [List.foldlM_append, h1]; exact h2

/-- the planned items of ONE height -/
theorem scan_single {c : Ctx} {w : Wid} (hAR : AllReady c.own [w]) (hC : ChainOK c) {h : Nat}
    (hlt : h < c.node.chain.length) {s : Store} {bals : Bals}
    (hA : AgreeM s (bookOf c.p c.own (c.node.chain.take h)))
    (hB : AgreeBal [w] bals (bookOf c.p c.own (c.node.chain.take h)))
    (hKN : KeysNodup bals ∧ KeysNodup s.unspent) :
    ∃ sb', (plan c.node (managed c.own w) h h).foldlM (applyItem c w) (s, bals) = .ok sb' ∧
      AgreeM sb'.1 (bookOf c.p c.own (c.node.chain.take (h + 1))) ∧
      AgreeBal [w] sb'.2 (bookOf c.p c.own (c.node.chain.take (h + 1))) ∧ SameSync s sb'.1 ∧
      (KeysNodup sb'.2 ∧ KeysNodup sb'.1.unspent) := by
  have hb : c.node.chain[h]? = some c.node.chain[h] := List.getElem?_eq_getElem hlt
  rw [plan_single]
  unfold Node.blockAt
  rw [hb]
  exact scan_height hAR hC hb hA hB hKN

/-- **scan of a range of heights** `start … stop` (any cut of the chain into batches) -/
theorem scan_range {c : Ctx} {w : Wid} (hAR : AllReady c.own [w]) (hC : ChainOK c) (start : Nat) :
    ∀ (stop : Nat) (s : Store) (bals : Bals), start ≤ stop + 1 → stop < c.node.chain.length →
      AgreeM s (bookOf c.p c.own (c.node.chain.take start)) →
      AgreeBal [w] bals (bookOf c.p c.own (c.node.chain.take start)) →
      (KeysNodup bals ∧ KeysNodup s.unspent) →
      ∃ sb', (plan c.node (managed c.own w) start stop).foldlM (applyItem c w) (s, bals) = .ok sb' ∧
        AgreeM sb'.1 (bookOf c.p c.own (c.node.chain.take (stop + 1))) ∧
        AgreeBal [w] sb'.2 (bookOf c.p c.own (c.node.chain.take (stop + 1))) ∧ SameSync s sb'.1 ∧
        (KeysNodup sb'.2 ∧ KeysNodup sb'.1.unspent) := by
  intro stop
  induction stop with
  | zero =>
    intro s bals hle hlt hA hB hKN
    by_cases hs : start = 1
    · subst hs
      rw [plan_empty _ _ _ _ (by omega)]
      exact ⟨(s, bals), rfl, hA, hB, SameSync.refl s, hKN⟩
    · have : start = 0 := by omega
      subst this
      exact scan_single hAR hC hlt hA hB hKN
  | succ n ih =>
    intro s bals hle hlt hA hB hKN
    by_cases hs : start = n + 2
    · subst hs
      rw [plan_empty _ _ _ _ (by omega)]
      exact ⟨(s, bals), rfl, hA, hB, SameSync.refl s, hKN⟩
    · have hle' : start ≤ n + 1 := by omega
      obtain ⟨sb1, h1, hA1, hB1, hS1, hK1⟩ := ih s bals hle' (by omega) hA hB hKN
      obtain ⟨sb2, h2, hA2, hB2, hS2, hK2⟩ := scan_single hAR hC hlt hA1 hB1 hK1
      refine ⟨sb2, ?_, hA2, hB2, hS1.trans hS2, hK2⟩
      rw [← plan_append c.node (managed c.own w) start n (n + 1) hle' (by omega)]
      exact ex_foldlM_append _ _ _ _ _ _ h1 h2

-- ------------------------------------------------------------------ one batch

/-- **the scan invariant**: the store holds the books of the node's chain up to the cursor `k`, the restored
    wallet's balance is the total of its ledger entries, the follower is caught up with the node's chain -/
structure Scan (c : Ctx) (w : Wid) (s : Store) (k : Nat) : Prop where
  agree : AgreeM s (bookOf c.p c.own (c.node.chain.take (k + 1)))
  bal : AMap.get s.balance w = some (totalU (bookOf c.p c.own (c.node.chain.take (k + 1))).L w)
  sync : ∀ h, AMap.get s.sync h = syncOf c.node.chain h
  syncedTo : s.syncedTo + 1 = c.node.chain.length
  wf : KeysNodup s.unspent

/-- where a batch of an importing wallet stops (no uint64 wrap) -/
def nextStop (batch k best : Nat) : Nat := if k + batch > best then best else k + batch

theorem batchStop_eq (batch k best : Nat) (h : k + batch < 2 ^ 64) : batchStop batch k best = nextStop batch k best := by
  unfold batchStop nextStop addU64
  rw [Nat.mod_eq_of_lt h]

theorem get_none_of_not_mem {K V : Type} [DecidableEq K] (m : AMap.T K V) (k : K) (h : k ∉ m.map (·.1)) :
    AMap.get m k = none := by
  induction m with
  | nil => rfl
  | cons a m ih =>
    simp only [List.map_cons, List.mem_cons, not_or] at h
    rw [AMap.get_cons, if_neg (fun he => h.1 he.symm)]
    exact ih h.2

/-- UpdateMinedBalances over working balances with distinct keys -/
theorem get_foldl_put (bals : Bals) (hK : KeysNodup bals) (m0 : Bals) (k : Wid) :
    AMap.get (bals.foldl (fun (m : AMap.T Wid Nat) (e : Wid × Nat) => AMap.put m e.1 e.2) m0) k =
      match AMap.get bals k with
      | some v => some v
      | none => AMap.get m0 k := by
  induction bals generalizing m0 with
  | nil => rfl
  | cons a bals ih =>
    unfold KeysNodup at hK
    simp only [List.map_cons, List.nodup_cons] at hK
    rw [List.foldl_cons, ih hK.2, AMap.get_cons, AMap.get_put]
    by_cases hk : a.1 = k
    · subst hk
      rw [get_none_of_not_mem bals a.1 hK.1]
      simp
    · simp only [hk, if_false]

theorem batchHead_eq (batch : Nat) (c : Ctx) (w : Wid) (s : Store) (v : Vol) (ws : WStatus) (bal : Nat)
    (hw : c.wallets.contains w = true) (hst : AMap.get s.status w = some ws) (hbal : AMap.get s.balance w = some bal)
    (hag : batchStop batch (cursorU64 ws) v.best.height > cursorU64 ws →
      agrees c s (batchStop batch (cursorU64 ws) v.best.height) = true) :
    batchHead batch c w s v = .ok ⟨ws, bal, cursorU64 ws, v.best.height,
      batchStop batch (cursorU64 ws) v.best.height, addU64 (cursorU64 ws) 1⟩ := by
  unfold batchHead
  simp only [hw, Bool.not_true, Bool.false_eq_true, if_false, hst, hbal]
  by_cases hgt : batchStop batch (cursorU64 ws) v.best.height > cursorU64 ws
  · simp [hgt, hag hgt]
  · simp [hgt]

/-- **one batch.**  From the scan invariant at cursor `k ≤ tip`, a batch of any positive size succeeds and ends
    in the scan invariant at `nextStop`, with the status `statusAfter`, reporting `finish` iff it reached the
    follower's tip. -/
theorem importStep_scan {batch : Nat} (hb : batch > 0) {c : Ctx} {w : Wid} (hAR : AllReady c.own [w]) (hC : ChainOK c)
    {s : Store} {v : Vol} {k : Nat} {ws : WStatus}
    (hS : Scan c w s k) (hw : c.wallets.contains w = true) (hst : AMap.get s.status w = some ws)
    (hk : ws.synced = some k) (hbest : v.best.height + 1 = c.node.chain.length) (hle : k ≤ v.best.height)
    (hnw : k + batch < 2 ^ 64) :
    ∃ s' v', importStep batch c w s v = .ok (s', v', decide (nextStop batch k v.best.height = v.best.height)) ∧
      Scan c w s' (nextStop batch k v.best.height) ∧
      AMap.get s'.status w = some (statusAfter ws (nextStop batch k v.best.height) v.best.height) ∧
      v'.best = v.best := by
  have hcur : cursorU64 ws = k := by simp [cursorU64, hk]
  have hstopeq := batchStop_eq batch k v.best.height hnw
  have hstop_le : nextStop batch k v.best.height ≤ v.best.height := by unfold nextStop; split <;> omega
  have hstop_ge : k ≤ nextStop batch k v.best.height := by unfold nextStop; split <;> omega
  have hlt : nextStop batch k v.best.height < c.node.chain.length := by omega
  have hhead := batchHead_eq batch c w s v ws _ hw hst hS.bal (by
    intro _
    rw [hcur, hstopeq]
    unfold agrees Node.blockAt
    rw [List.getElem?_eq_getElem hlt, hS.sync]
    unfold syncOf
    rw [List.getElem?_eq_getElem hlt]
    simp)
  rw [hcur, hstopeq] at hhead
  have hstart : addU64 k 1 = k + 1 := by
    unfold addU64; exact Nat.mod_eq_of_lt (by omega)
  rw [hstart] at hhead
  have hB0 : AgreeBal [w] [(w, totalU (bookOf c.p c.own (c.node.chain.take (k + 1))).L w)]
      (bookOf c.p c.own (c.node.chain.take (k + 1))) := by
    intro w' hw'
    have : w' = w := by simpa using hw'
    subst this
    simp [AMap.get]
  have hK0 : KeysNodup ([(w, totalU (bookOf c.p c.own (c.node.chain.take (k + 1))).L w)] : Bals) := by
    simp [KeysNodup]
  obtain ⟨sb, hf, hA, hB, hSS, hKb, hKu⟩ := scan_range hAR hC (k + 1) (nextStop batch k v.best.height) s _
    (by omega) hlt hS.agree hB0 ⟨hK0, hS.wf⟩
  have himp : importStep batch c w s v = .ok
      (finishBatch w ⟨ws, totalU (bookOf c.p c.own (c.node.chain.take (k + 1))).L w, k, v.best.height,
          nextStop batch k v.best.height, k + 1⟩ sb.1 sb.2,
       ({ v with expired := (expiredUpdate (itemRelevant c w) v.best.height
          (plan c.node (managed c.own w) (k + 1) (nextStop batch k v.best.height)) v.expired) } : Vol),
       decide (nextStop batch k v.best.height = v.best.height)) := by
    unfold importStep
    rw [hhead]
    simp only [hf]
  refine ⟨_, _, himp, ?_, ?_, rfl⟩
  · constructor
    · exact ⟨hA.unspent, hA.credits, hA.debits, hA.game, hA.txrecs, hA.blocks⟩
    · show AMap.get (sb.2.foldl (fun (m : AMap.T Wid Nat) (e : Wid × Nat) => AMap.put m e.1 e.2) sb.1.balance) w = _
      rw [get_foldl_put sb.2 hKb, hB w (by simp)]
    · intro h
      show AMap.get sb.1.sync h = _
      rw [hSS.sync]; exact hS.sync h
    · show sb.1.syncedTo + 1 = _
      rw [hSS.syncedTo]; exact hS.syncedTo
    · exact hKu
  · simp [finishBatch, AMap.get_put]

-- ------------------------------------------------------------------ the whole rescan

/-- the worker loop on an importing wallet while nothing else happens: batch after batch until one reports
    `finish`; a failed batch (or running out of `fuel`) ends the run without a result -/
def runImport (batch : Nat) (c : Ctx) (w : Wid) : Nat → Store → Vol → Option (Store × Vol)
  | 0, _, _ => none
  | n + 1, s, v =>
    match importStep batch c w s v with
    | .ok (s', v', fin) => if fin then some (s', v') else runImport batch c w n s' v'
    | .error _ => none

/-- **the rescan, any cut into batches.**  When the loop reports done, the store satisfies the scan invariant at
    the follower's tip and the wallet is ready. -/
theorem run_scan {batch : Nat} (hb : batch > 0) {c : Ctx} {w : Wid} (hAR : AllReady c.own [w]) (hC : ChainOK c)
    (hw : c.wallets.contains w = true) :
    ∀ (n : Nat) (s : Store) (v : Vol) (k : Nat) (ws : WStatus) (s' : Store) (v' : Vol),
      Scan c w s k → AMap.get s.status w = some ws → ws.synced = some k →
      v.best.height + 1 = c.node.chain.length → k ≤ v.best.height → v.best.height + batch < 2 ^ 64 →
      runImport batch c w n s v = some (s', v') →
      Scan c w s' v.best.height ∧ AMap.get s'.status w = some { ws with synced := none } ∧ v'.best = v.best := by
  intro n
  induction n with
  | zero => intro s v k ws s' v' _ _ _ _ _ _ h; simp [runImport] at h
  | succ n ih =>
    intro s v k ws s' v' hS hst hk hbest hle hnb h
    obtain ⟨s1, v1, h1, hS1, hst1, hv1⟩ := importStep_scan hb hAR hC hS hw hst hk hbest hle (by omega)
    unfold runImport at h
    rw [h1] at h
    simp only at h
    by_cases hfin : nextStop batch k v.best.height = v.best.height
    · simp only [hfin, decide_true, if_true, Option.some.injEq, Prod.mk.injEq] at h
      obtain ⟨rfl, rfl⟩ := h
      rw [hfin] at hS1 hst1
      refine ⟨hS1, ?_, hv1⟩
      rw [hst1]; simp [statusAfter]
    · simp only [hfin, decide_false, Bool.false_eq_true, if_false] at h
      have hle1 : nextStop batch k v.best.height ≤ v.best.height := by unfold nextStop; split <;> omega
      have := ih s1 v1 (nextStop batch k v.best.height) (statusAfter ws (nextStop batch k v.best.height) v.best.height)
        s' v' hS1 hst1 (by simp [statusAfter, hfin]) (by rw [hv1]; exact hbest) (by rw [hv1]; exact hle1)
        (by rw [hv1]; exact hnb) h
      rw [hv1] at this
      obtain ⟨a1, a2, a3⟩ := this
      refine ⟨a1, ?_, a3⟩
      rw [a2]; simp [statusAfter]

/-- … and the loop does report done: with enough fuel no batch fails -/
theorem run_total {batch : Nat} (hb : batch > 0) {c : Ctx} {w : Wid} (hAR : AllReady c.own [w]) (hC : ChainOK c)
    (hw : c.wallets.contains w = true) :
    ∀ (n : Nat) (s : Store) (v : Vol) (k : Nat) (ws : WStatus),
      Scan c w s k → AMap.get s.status w = some ws → ws.synced = some k →
      v.best.height + 1 = c.node.chain.length → k ≤ v.best.height → v.best.height + batch < 2 ^ 64 →
      v.best.height - k < n → (runImport batch c w n s v).isSome = true := by
  intro n
  induction n with
  | zero => intro s v k ws _ _ _ _ _ _ h; omega
  | succ n ih =>
    intro s v k ws hS hst hk hbest hle hnb hfuel
    obtain ⟨s1, v1, h1, hS1, hst1, hv1⟩ := importStep_scan hb hAR hC hS hw hst hk hbest hle (by omega)
    unfold runImport
    rw [h1]
    simp only
    by_cases hfin : nextStop batch k v.best.height = v.best.height
    · simp [hfin]
    · simp only [hfin, decide_false, Bool.false_eq_true, if_false]
      have hle1 : nextStop batch k v.best.height ≤ v.best.height := by unfold nextStop; split <;> omega
      have hgt : k < nextStop batch k v.best.height := by unfold nextStop at hfin ⊢; split at hfin <;> split <;> omega
      exact ih s1 v1 (nextStop batch k v.best.height) _ hS1 hst1 (by simp [statusAfter, hfin])
        (by rw [hv1]; exact hbest) (by rw [hv1]; exact hle1) (by rw [hv1]; exact hnb) (by rw [hv1]; omega)

/-- the scan invariant at the tip IS C01's invariant for the node's chain (the restored wallet being the
    instance's only keystore) -/
theorem scan_tip_inv {c : Ctx} {w : Wid} {s : Store} {k : Nat} (hws : c.wallets = [w]) (hS : Scan c w s k)
    (hk : k + 1 = c.node.chain.length) : Inv c s c.node.chain := by
  have ht : c.node.chain.take (k + 1) = c.node.chain := List.take_of_length_le (by omega)
  have hA := hS.agree
  have hBl := hS.bal
  rw [ht] at hA hBl
  refine ⟨hA, ?_, hS.sync, hS.syncedTo⟩
  intro w' hw'
  unfold readyWallets at hw'
  rw [hws] at hw'
  have : w' = w := by
    have := (List.mem_filter.1 (List.contains_iff_mem.1 hw')).1
    simpa using this
  rw [this]; exact hBl

/-- the import moment: a store that has nothing recorded (no credit, unspent entry, debit, deposit record, tx or
    block record), balance 0 for the wallet, the follower caught up, over a chain whose genesis block has no
    transaction, satisfies the scan invariant at cursor 0 -/
theorem scan_fresh {c : Ctx} {w : Wid} {s : Store} {G : Block} (hG : c.node.chain[0]? = some G) (hGt : G.txs = [])
    (hu : s.unspent = []) (hc : s.credits = []) (hd : s.debits = []) (hg : s.game = []) (ht : s.txrecs = [])
    (hbk : s.blocks = []) (hb : AMap.get s.balance w = some 0)
    (hsync : ∀ h, AMap.get s.sync h = syncOf c.node.chain h) (hst : s.syncedTo + 1 = c.node.chain.length) :
    Scan c w s 0 := by
  have hbook : bookOf c.p c.own (c.node.chain.take (0 + 1)) = {} := by
    rw [take_succ_block hG]
    unfold bookOf occs
    simp [occsOfBlock, hGt, occsFrom]
  refine ⟨?_, ?_, hsync, hst, by rw [hu]; exact List.nodup_nil⟩
  · rw [hbook]
    constructor
    · intro w' tx idx; rw [hu]; rfl
    · intro k; rw [hc]; rfl
    · intro k; rw [hd]; rfl
    · intro k; rw [hg]; rfl
    · intro k; rw [ht]; rfl
    · intro k; rw [hbk]; rfl
  · rw [hbook, hb]; rfl
